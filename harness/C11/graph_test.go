// C11 correspondence harness for service/internal/graph (injected by overlay; package-internal).
// Drives the REAL Graph.StartAll / Graph.ShutdownAll over chains of scripted components that
// report statuses through the host they are given (during Start, at run time, during Shutdown)
// and may fail to start / stop.  Case term (Coq): (2, (script, observed)) with
//
//	script   : list (node, code)  100 Start begins | s<8 the node reports s | 101 Start returned nil |
//	           102 Start returned an error | 103 Shutdown begins | 104/105 Shutdown returned nil/error
//	observed : list (node, status) events delivered to the status-change callback, in order
//
// Direct oracles: (a) every instance's events are a path of the documented diagram;
// (b) the automatic OK after a successful Start is delivered only if the instance is still in Starting
//
//	(and then it IS delivered).
package graph

import (
	"context"
	"errors"
	"fmt"
	"testing"

	"gonum.org/v1/gonum/graph/simple"

	"go.opentelemetry.io/collector/component"
	"go.opentelemetry.io/collector/component/componentstatus"
	"go.opentelemetry.io/collector/component/componenttest"
	"go.opentelemetry.io/collector/extension"
	"go.opentelemetry.io/collector/service/extensions"
	"go.opentelemetry.io/collector/service/internal/builders"
	"go.opentelemetry.io/collector/service/internal/status"
)

// errors a component's Start / Shutdown may return: plain, cancellation, WRAPPED cancellation, deadline
func vC11Err(kind int, what string) error {
	switch kind % 4 {
	case 1:
		return context.Canceled
	case 2:
		return fmt.Errorf("%s: %w", what, context.Canceled)
	case 3:
		return context.DeadlineExceeded
	}
	return errors.New(what + " failed")
}

// the documented diagram applied to a lifecycle script (hand-written, independent of the table and of the Coq model)
func vC11SimLifecycle(script [][2]int, nn int) [][2]int {
	cur := make([]int, nn)
	var ev [][2]int
	rep := func(i, s int) {
		if vC11Diagram(cur[i], s) {
			cur[i] = s
			ev = append(ev, [2]int{i, s})
		}
	}
	for _, op := range script {
		i := op[0]
		switch op[1] {
		case 100:
			rep(i, 1)
		case 101:
			if cur[i] == 1 {
				rep(i, 2)
			}
		case 102, 105:
			rep(i, 4)
		case 103:
			rep(i, 6)
		case 104:
			rep(i, 7)
		default:
			rep(i, op[1])
		}
	}
	return ev
}

// a status-watcher extension behind the REAL service path: reporter callback -> graph.Host.NotifyComponentStatusChange ->
// extensions.Extensions.NotifyComponentStatusChange -> ComponentStatusChanged (+ the async error channel for FatalError)
type vC11WatchExt struct {
	log *[][2]int
	idx map[*componentstatus.InstanceID]int
}

func (w *vC11WatchExt) Start(context.Context, component.Host) error { return nil }
func (w *vC11WatchExt) Shutdown(context.Context) error              { return nil }
func (w *vC11WatchExt) ComponentStatusChanged(src *componentstatus.InstanceID, ev *componentstatus.Event) {
	*w.log = append(*w.log, [2]int{w.idx[src], int(ev.Status())})
}

func vC11WatcherExtensions(t *testing.T, w *vC11WatchExt) *extensions.Extensions {
	typ := component.MustNewType("vwatch")
	wid := component.NewID(typ)
	f := extension.NewFactory(typ, func() component.Config { return &struct{}{} },
		func(context.Context, extension.Settings, component.Config) (extension.Extension, error) {
			return w, nil
		},
		component.StabilityLevelDevelopment)
	exts, err := extensions.New(context.Background(), extensions.Settings{
		Telemetry: componenttest.NewNopTelemetrySettings(),
		BuildInfo: component.NewDefaultBuildInfo(),
		Extensions: builders.NewExtension(map[component.ID]component.Config{wid: &struct{}{}},
			map[component.Type]extension.Factory{typ: f}),
	}, extensions.Config{wid})
	if err != nil {
		t.Fatal(err)
	}
	return exts
}

func vC11Diagram(a, b int) bool {
	switch a {
	case 0:
		return b == 1
	case 1:
		return b == 2 || b == 3 || b == 4 || b == 5 || b == 6
	case 2:
		return b == 3 || b == 4 || b == 5 || b == 6
	case 3:
		return b == 2 || b == 4 || b == 5 || b == 6
	case 4:
		return b == 6
	case 6:
		return b == 3 || b == 4 || b == 5 || b == 7
	}
	return false
}

type vC11Run struct {
	script [][2]int
	got    [][2]int
	cur    []int
	// per node: status and number of delivered events when its Start returned nil (-1: did not)
	atReturn  []int
	lenReturn []int
	// first event delivered for another instance than the node that reported (attribution oracle)
	misattributed string
}

type vC11Node struct {
	i                 int
	run               *vC11Run
	startRep, stopRep []int
	startErr, stopErr bool
	errKind           int
	host              component.Host
}

func (n *vC11Node) ID() int64 { return int64(n.i + 1) }

func (n *vC11Node) report(s int) {
	if n.host == nil {
		return
	}
	before := len(n.run.got)
	componentstatus.ReportStatus(n.host, componentstatus.NewEvent(componentstatus.Status(s)))
	n.run.script = append(n.run.script, [2]int{n.i, s})
	// a report made by node i through the host IT was started with may only produce events of instance i
	for _, e := range n.run.got[before:] {
		if e[0] != n.i && n.run.misattributed == "" {
			n.run.misattributed = fmt.Sprintf("node %d reported status %d through its own host; the event %d was delivered for instance %d", n.i, s, e[1], e[0])
		}
	}
}

func (n *vC11Node) Start(_ context.Context, h component.Host) error {
	n.host = h
	n.run.script = append(n.run.script, [2]int{n.i, 100})
	for _, s := range n.startRep {
		n.report(s)
	}
	if n.startErr {
		n.run.script = append(n.run.script, [2]int{n.i, 102})
		return vC11Err(n.errKind, "start")
	}
	n.run.script = append(n.run.script, [2]int{n.i, 101})
	n.run.atReturn[n.i] = n.run.cur[n.i]
	n.run.lenReturn[n.i] = len(n.run.got)
	return nil
}

func (n *vC11Node) Shutdown(context.Context) error {
	n.run.script = append(n.run.script, [2]int{n.i, 103})
	for _, s := range n.stopRep {
		n.report(s)
	}
	if n.stopErr {
		n.run.script = append(n.run.script, [2]int{n.i, 105})
		return vC11Err(n.errKind/4, "stop")
	}
	n.run.script = append(n.run.script, [2]int{n.i, 104})
	return nil
}

func vC11Reports(rng *vRand, max int) []int {
	k := rng.Pick(55, 25, 12, 8)
	if k > max {
		k = max
	}
	r := make([]int, k)
	for i := range r {
		// mostly runtime statuses, sometimes anything (incl. Starting / Stopping / Stopped / None)
		if rng.Intn(100) < 80 {
			r[i] = 2 + rng.Intn(4)
		} else {
			r[i] = rng.Intn(8)
		}
	}
	return r
}

func TestVerifC11Graph(t *testing.T) {
	out := vOpen()
	defer out.Close()
	rng := vNewRand(1112)
	n := vBudget(300, 20)
	for c := 0; c < n; c++ {
		nn := 1 + rng.Intn(4)
		run := &vC11Run{cur: make([]int, nn), atReturn: make([]int, nn), lenReturn: make([]int, nn)}
		for i := range run.atReturn {
			run.atReturn[i] = -1
		}
		pg := &Graph{componentGraph: simple.NewDirectedGraph()}
		pg.telemetry = componenttest.NewNopTelemetrySettings()
		pg.instanceIDs = map[int64]*componentstatus.InstanceID{}
		idx := map[*componentstatus.InstanceID]int{}
		nodes := make([]*vC11Node, nn)
		for i := 0; i < nn; i++ {
			nodes[i] = &vC11Node{i: i, run: run, startRep: vC11Reports(rng, 3), stopRep: vC11Reports(rng, 2),
				startErr: rng.Intn(100) < 12, stopErr: rng.Intn(100) < 20, errKind: rng.Intn(16)}
			id := componentstatus.NewInstanceID(component.MustNewIDWithName("x", fmt.Sprint(i)), component.KindProcessor)
			pg.instanceIDs[nodes[i].ID()] = id
			idx[id] = i
			pg.componentGraph.AddNode(nodes[i])
		}
		for i := 0; i+1 < nn; i++ {
			pg.componentGraph.SetEdge(simple.Edge{F: nodes[i], T: nodes[i+1]})
			if i+2 < nn && rng.Bool() {
				pg.componentGraph.SetEdge(simple.Edge{F: nodes[i], T: nodes[i+2]})
			}
		}
		// the service wiring: accepted events go through graph.Host.NotifyComponentStatusChange to a watcher extension
		var watched [][2]int
		host := &Host{AsyncErrorChannel: make(chan error, 256)}
		host.ServiceExtensions = vC11WatcherExtensions(t, &vC11WatchExt{log: &watched, idx: idx})
		rep := status.NewReporter(func(id *componentstatus.InstanceID, ev *componentstatus.Event) {
			i := idx[id]
			run.got = append(run.got, [2]int{i, int(ev.Status())})
			run.cur[i] = int(ev.Status())
			host.NotifyComponentStatusChange(id, ev)
		}, func(error) {})
		host.Reporter = rep
		startErr := pg.StartAll(context.Background(), host)
		lenAfterStart := len(run.got)
		// run-time reports from started components
		if startErr == nil {
			for k := rng.Intn(4); k > 0; k-- {
				nodes[rng.Intn(nn)].report(2 + rng.Intn(4))
			}
		}
		_ = pg.ShutdownAll(context.Background(), rep)

		sc := make([]string, len(run.script))
		autoOK, noAutoOK := 0, 0
		for i, s := range run.script {
			sc[i] = vPair(vNat(s[0]), vZ(int64(s[1])))
		}
		ob := make([]string, len(run.got))
		for i, e := range run.got {
			ob[i] = vPair(vNat(e[0]), vZ(int64(e[1])))
		}
		term := vPair("2", vPair(vList(sc), vList(ob)))
		// (a) diagram path
		st := make([]int, nn)
		for _, e := range run.got {
			if !vC11Diagram(st[e[0]], e[1]) {
				out.Oracle("not-a-diagram-path", term, fmt.Sprintf("lifecycle: instance %d: event %d after %d", e[0], e[1], st[e[0]]))
				break
			}
			st[e[0]] = e[1]
		}
		// (c1) a legal report IS delivered, an illegal one is not: the documented diagram applied to the script
		if want := vC11SimLifecycle(run.script, nn); fmt.Sprint(want) != fmt.Sprint(run.got) {
			out.Oracle("lifecycle-events-differ-from-diagram-simulation", term,
				fmt.Sprintf("delivered %v, the documented diagram applied to the script gives %v", run.got, want))
		}
		// (c2) the watcher extension behind Host.NotifyComponentStatusChange saw exactly the accepted events, and every
		// FatalError (and nothing else) went to the async error channel
		if fmt.Sprint(watched) != fmt.Sprint(run.got) {
			out.Oracle("host-watcher-misses-status-event", term,
				fmt.Sprintf("watcher behind graph.Host.NotifyComponentStatusChange was delivered %v, the reporter accepted %v", watched, run.got))
		}
		fatals := 0
		for _, e := range run.got {
			if e[1] == 5 {
				fatals++
			}
		}
		if len(host.AsyncErrorChannel) != fatals {
			out.Oracle("fatal-error-not-forwarded-once", term,
				fmt.Sprintf("%d FatalError events accepted, %d errors on the async error channel", fatals, len(host.AsyncErrorChannel)))
		}
		out.Stat("fatal_events", fatals)
		// (a') attribution
		if run.misattributed != "" {
			out.Oracle("status-attributed-to-wrong-instance", term, run.misattributed)
		}
		// (b) the automatic OK
		for i := 0; i < nn; i++ {
			if run.atReturn[i] < 0 {
				continue
			}
			var auto []int
			for _, e := range run.got[run.lenReturn[i]:lenAfterStart] {
				if e[0] == i {
					auto = append(auto, e[1])
				}
			}
			if run.atReturn[i] == 1 {
				autoOK++
				if len(auto) != 1 || auto[0] != 2 {
					out.Oracle("auto-ok-missing", term, fmt.Sprintf("instance %d still Starting when Start returned nil, automatic events %v", i, auto))
				}
			} else {
				noAutoOK++
				if len(auto) != 0 {
					out.Oracle("auto-ok-not-from-starting", term, fmt.Sprintf("instance %d in status %d when Start returned nil, automatic events %v", i, run.atReturn[i], auto))
				}
			}
		}
		out.Case(len(run.got) > 0, term)
		out.Stat("auto_ok_delivered", autoOK)
		out.Stat("auto_ok_suppressed", noAutoOK)
		if startErr != nil {
			out.Stat("start_failed", 1)
		}
	}
}
