// C11 concurrency harness for service/internal/status (injected by overlay next to status_test.go,
// which provides vDiagram / vEv / vEvList / vOraclePath).
//
// What is checked: ATOMICITY of every report.  The property demands that the event sequence of an
// instance is a path of the diagram and that the automatic OK is emitted only while the instance is
// still in Starting "when reports for the same instance arrive concurrently".  The model (and every
// theorem about it) treats one report — lookup of the instance's state machine, the decision, the
// transition and the delivery to the watchers — as ONE atomic step; this harness validates exactly
// that assumption on the real reporter:
//
//	a sequential prefix brings the instance(s) to a chosen state; then a SET of reports is issued
//	concurrently (one goroutine each); the events delivered to the watcher must equal the events of
//	the sequential model for SOME ordering of the concurrent reports (linearisability; all of them
//	overlap in real time, so every ordering is admissible).
//
// Case term (Coq): (3, (prefix ++ [(0, 200)] ++ concurrent, observed)); C11/Harness.v check_conc
// searches the orderings with the Coq model.  Direct oracle (independent of the Coq model): the same
// search with the hand-written diagram acceptor below, plus the path acceptor.
//
// Two schedulers:
//
//	(a) forced round-robin: a slow watcher (the status callback of an unrelated "gate" instance) keeps
//	    the reporter busy while the concurrent reports queue up on the reporter's mutex one by one;
//	    the gate goroutine then re-locks at once, which pushes the mutex into its FIFO hand-off
//	    ("starvation") mode: from then on every Unlock hands the lock to the oldest waiter and a
//	    goroutine that locks again goes to the tail.  An operation implemented as two critical
//	    sections (check, then act) therefore has EVERY other queued report executed between its two
//	    halves.  Soundness never depends on this timing — only the sensitivity does (see the stats).
//	(b) free-running races: goroutines released by a spin barrier, many iterations.
//
// In a share of the scenarios the watcher callback dawdles before it records the first concurrent
// event, so that a reporter delivering events outside its critical section shows reordered events.
package status

import (
	"fmt"
	"runtime"
	"sync"
	"sync/atomic"
	"testing"
	"time"
	"unsafe"

	"go.opentelemetry.io/collector/component"
	"go.opentelemetry.io/collector/component/componentstatus"
	"go.opentelemetry.io/collector/pipeline"
)

// ---- sequential reference (hand-written, NOT the table under test) -------------------------------
func vSimulate(script []vEv, ninst int) []vEv {
	cur := make([]int, ninst)
	var ev []vEv
	for _, s := range script {
		switch {
		case s.st == 8:
			if cur[s.inst] == 1 {
				cur[s.inst] = 2
				ev = append(ev, vEv{s.inst, 2})
			}
		case vDiagram(cur[s.inst], s.st):
			cur[s.inst] = s.st
			ev = append(ev, vEv{s.inst, s.st})
		}
	}
	return ev
}

func vSameEvents(a, b []vEv) bool {
	if len(a) != len(b) {
		return false
	}
	for i := range a {
		if a[i] != b[i] {
			return false
		}
	}
	return true
}

// vLinearise looks for an ordering of the concurrent reports that explains the observed events.
func vLinearise(pre, ops []vEv, ninst int, got []vEv) ([]vEv, bool) {
	perm := make([]vEv, 0, len(ops))
	used := make([]bool, len(ops))
	var found []vEv
	var rec func() bool
	rec = func() bool {
		if len(perm) == len(ops) {
			script := append(append([]vEv(nil), pre...), perm...)
			if vSameEvents(vSimulate(script, ninst), got) {
				found = append([]vEv(nil), perm...)
				return true
			}
			return false
		}
		for i := range ops {
			if used[i] {
				continue
			}
			used[i] = true
			perm = append(perm, ops[i])
			if rec() {
				return true
			}
			perm = perm[:len(perm)-1]
			used[i] = false
		}
		return false
	}
	ok := rec()
	return found, ok
}

var vPrefixTo = [8][]int{{}, {1}, {1, 2}, {1, 3}, {1, 4}, {1, 5}, {1, 6}, {1, 6, 7}}

// ---- the reporter under test, with a recording watcher --------------------------------------------
type vConcRun struct {
	rep   Reporter
	ids   []*componentstatus.InstanceID
	gate  *componentstatus.InstanceID
	mu    sync.Mutex // own lock: the callback must stay race-free even if the reporter stops serialising it
	got   []vEv
	armed atomic.Bool // dawdle once, before recording the next event
	nev   atomic.Int32
	// gate (slow watcher) plumbing
	gateCalls int
	entered   [2]chan struct{}
	release   [2]chan struct{}
}

func vNewConcRun(ninst int, withGate bool) *vConcRun {
	r := &vConcRun{}
	idx := map[*componentstatus.InstanceID]int{}
	for i := 0; i < ninst; i++ {
		id := componentstatus.NewInstanceID(component.MustNewIDWithName("q", fmt.Sprint(i)), component.KindReceiver, pipeline.NewID(pipeline.SignalMetrics))
		r.ids = append(r.ids, id)
		idx[id] = i
	}
	if withGate {
		r.gate = componentstatus.NewInstanceID(component.MustNewIDWithName("gate", "g"), component.KindExtension)
		for k := range r.entered {
			r.entered[k] = make(chan struct{})
			r.release[k] = make(chan struct{})
		}
	}
	r.rep = NewReporter(func(id *componentstatus.InstanceID, ev *componentstatus.Event) {
		if withGate && id == r.gate {
			k := r.gateCalls // only the gate goroutine gets here
			r.gateCalls++
			if k < 2 {
				close(r.entered[k])
				<-r.release[k]
			}
			return
		}
		if r.armed.CompareAndSwap(true, false) {
			time.Sleep(150 * time.Microsecond)
		}
		r.mu.Lock()
		r.got = append(r.got, vEv{idx[id], int(ev.Status())})
		r.mu.Unlock()
	}, func(error) {})
	return r
}

func (r *vConcRun) do(op vEv) {
	if op.st == 8 {
		r.rep.ReportOKIfStarting(r.ids[op.inst])
	} else {
		r.rep.ReportStatus(r.ids[op.inst], vMkEvent(op.st, int(r.nev.Add(1)), true)) // error statuses carry changing causes
	}
}

// state word of the reporter's sync.Mutex (bit 0 locked, bit 2 starvation mode, bits 3.. waiters);
// used only to pace the scheduler, never for a verdict.  -1 if the reporter has another shape.
func (r *vConcRun) mutexState() int32 {
	rr, ok := r.rep.(*reporter)
	if !ok {
		return -1
	}
	if unsafe.Sizeof(rr.mu) != 8 {
		return -1
	}
	return atomic.LoadInt32((*int32)(unsafe.Pointer(&rr.mu)))
}

func vSpin(d time.Duration) {
	t := time.Now()
	for time.Since(t) < d {
		runtime.Gosched()
	}
}

func vWaitChan(t *testing.T, c chan struct{}, what string) {
	select {
	case <-c:
	case <-time.After(20 * time.Second):
		panic("C11 concurrency harness: deadline waiting for " + what)
	}
}

type vConcResult struct {
	pre, ops []vEv
	ninst    int
	got      []vEv
	starved  bool
	slow     bool
}

// (a) forced round-robin schedule
func vQueuedScenario(t *testing.T, pre, ops []vEv, ninst int, slow bool) vConcResult {
	r := vNewConcRun(ninst, true)
	for _, p := range pre {
		r.do(p)
	}
	done := make(chan struct{})
	var wg sync.WaitGroup
	wg.Add(1 + len(ops))
	go func() {
		defer wg.Done()
		r.rep.ReportStatus(r.gate, componentstatus.NewEvent(componentstatus.StatusStarting)) // watcher blocks: reporter busy
		r.rep.ReportStatus(r.gate, componentstatus.NewEvent(componentstatus.StatusOK))       // re-lock at once, blocks again
	}()
	vWaitChan(t, r.entered[0], "the gate watcher")
	if slow {
		r.armed.Store(true)
	}
	for k, op := range ops {
		op := op
		go func() { defer wg.Done(); r.do(op) }()
		// wait until this goroutine is counted as a waiter of the reporter mutex, then give it a moment to park
		t0 := time.Now()
		for time.Since(t0) < 3*time.Millisecond {
			if s := r.mutexState(); s >= 0 && int(s>>3) >= k+1 {
				break
			}
			runtime.Gosched()
		}
		vSpin(30 * time.Microsecond)
	}
	time.Sleep(1300 * time.Microsecond) // every waiter has now waited longer than the mutex's 1 ms starvation threshold
	close(r.release[0])
	vWaitChan(t, r.entered[1], "the gate watcher (second stage)")
	starved := false
	t0 := time.Now()
	for time.Since(t0) < 3*time.Millisecond {
		if s := r.mutexState(); s >= 0 && s&4 != 0 {
			starved = true
			break
		}
		runtime.Gosched()
	}
	close(r.release[1])
	go func() { wg.Wait(); close(done) }()
	vWaitChan(t, done, "the concurrent reports")
	r.mu.Lock()
	got := append([]vEv(nil), r.got...)
	r.mu.Unlock()
	return vConcResult{pre: pre, ops: ops, ninst: ninst, got: got, starved: starved, slow: slow}
}

// (b) free-running race: all reports released together by a spin barrier
func vRaceScenario(t *testing.T, pre, ops []vEv, ninst int, slow bool) vConcResult {
	r := vNewConcRun(ninst, false)
	for _, p := range pre {
		r.do(p)
	}
	if slow {
		r.armed.Store(true)
	}
	var ready atomic.Int32
	var wg sync.WaitGroup
	wg.Add(len(ops))
	n := int32(len(ops))
	for _, op := range ops {
		op := op
		go func() {
			defer wg.Done()
			ready.Add(1)
			for ready.Load() < n {
				runtime.Gosched()
			}
			r.do(op)
		}()
	}
	wg.Wait()
	r.mu.Lock()
	got := append([]vEv(nil), r.got...)
	r.mu.Unlock()
	return vConcResult{pre: pre, ops: ops, ninst: ninst, got: got, slow: slow}
}

func vConcTerm(res vConcResult) string {
	script := append(append(append([]vEv(nil), res.pre...), vEv{0, 200}), res.ops...)
	return vPair("3", vPair(vEvList(script), vEvList(res.got)))
}

// judge one scenario: direct oracle + (optionally) a correspondence case
func vConcJudge(out *vOut, res vConcResult, sched string, emit bool) {
	term := vConcTerm(res)
	_, ok := vLinearise(res.pre, res.ops, res.ninst, res.got)
	if !ok {
		out.Oracle("concurrent-reports-not-linearisable", term,
			fmt.Sprintf("%s schedule: after the sequential prefix %v the reports %v were issued concurrently; delivered %v, which no ordering of atomic reports produces (slow watcher=%v)",
				sched, res.pre, res.ops, res.got, res.slow))
	}
	vOraclePath(out, term, res.got, res.ninst)
	if emit {
		out.Case(len(res.got) > len(vSimulate(res.pre, res.ninst)), term)
	}
	if ok {
		q := append(append([]vEv(nil), res.pre...), res.ops...)
		if vSameEvents(vSimulate(q, res.ninst), res.got) {
			out.Stat(sched+"_outcome_is_launch_order", 1)
		} else {
			out.Stat(sched+"_outcome_is_other_order", 1)
		}
	}
}

type vConcJob struct {
	pre, ops []vEv
	ninst    int
	slow     bool
}

func vRunJobs(t *testing.T, jobs []vConcJob, workers int, f func(*testing.T, []vEv, []vEv, int, bool) vConcResult) []vConcResult {
	res := make([]vConcResult, len(jobs))
	var next atomic.Int64
	var wg sync.WaitGroup
	for w := 0; w < workers; w++ {
		wg.Add(1)
		go func() {
			defer wg.Done()
			for {
				k := int(next.Add(1)) - 1
				if k >= len(jobs) {
					return
				}
				j := jobs[k]
				res[k] = f(t, j.pre, j.ops, j.ninst, j.slow)
			}
		}()
	}
	wg.Wait()
	return res
}

func vPrefix(inst, state int) []vEv {
	var p []vEv
	for _, s := range vPrefixTo[state] {
		p = append(p, vEv{inst, s})
	}
	return p
}

func TestVerifC11Conc(t *testing.T) {
	out := vOpen()
	defer out.Close()
	rng := vNewRand(1117)
	workers := 6

	// ---- (a1) exhaustive: every state x every ORDERED pair of reports on one instance (8 x 81);
	// thorough adds every ordered triple (8 x 729)
	var jobs []vConcJob
	for st := 0; st < 8; st++ {
		for a := 0; a < 9; a++ {
			for b := 0; b < 9; b++ {
				jobs = append(jobs, vConcJob{vPrefix(0, st), []vEv{{0, a}, {0, b}}, 1, rng.Intn(4) == 0})
			}
		}
	}
	out.Stat("queued_exhaustive_pairs", len(jobs))
	// every ordered triple: quick = the triples from Starting that contain the automatic OK (the state
	// and the report of the "only if still Starting" clause; 217), thorough = all 8 x 729
	ntr := 0
	for st := 0; st < 8; st++ {
		for a := 0; a < 9; a++ {
			for b := 0; b < 9; b++ {
				for c := 0; c < 9; c++ {
					if vTier() != "thorough" && !(st == 1 && (a == 8 || b == 8 || c == 8)) {
						continue
					}
					jobs = append(jobs, vConcJob{vPrefix(0, st), []vEv{{0, a}, {0, b}, {0, c}}, 1, rng.Intn(4) == 0})
					ntr++
				}
			}
		}
	}
	out.Stat("queued_exhaustive_triples", ntr)
	// ---- (a2) random: 3-4 concurrent reports over 2 instances in random states, biased to legal moves
	genOps := func(states []int, n int) []vEv {
		var ops []vEv
		for k := 0; k < n; k++ {
			i := rng.Intn(len(states))
			if rng.Intn(3) != 0 {
				i = 0 // most reports target the same instance
			}
			s := rng.Intn(9)
			if rng.Intn(100) < 60 {
				var legal []int
				for b := 0; b < 8; b++ {
					if vDiagram(states[i], b) {
						legal = append(legal, b)
					}
				}
				if states[i] == 1 {
					legal = append(legal, 8, 8)
				}
				if len(legal) > 0 {
					s = legal[rng.Intn(len(legal))]
				}
			}
			ops = append(ops, vEv{i, s})
		}
		return ops
	}
	genStates := func() ([]int, []vEv) {
		// Starting (the state in which the automatic OK is decided) and the two runtime states get most of the weight
		w := []int{0, 1, 1, 1, 1, 2, 2, 3, 3, 4, 5, 6, 6, 7}
		states := []int{w[rng.Intn(len(w))], w[rng.Intn(len(w))]}
		pre := append(vPrefix(0, states[0]), vPrefix(1, states[1])...)
		return states, pre
	}
	nrand := vBudget(160, 10)
	for c := 0; c < nrand; c++ {
		states, pre := genStates()
		jobs = append(jobs, vConcJob{pre, genOps(states, 3+rng.Intn(2)), 2, rng.Intn(4) == 0})
	}
	res := vRunJobs(t, jobs, workers, vQueuedScenario)
	for _, r := range res {
		vConcJudge(out, r, "queued", true)
		out.Stat(fmt.Sprintf("queued_concurrent_reports_%d", len(r.ops)), 1)
		out.Stat(fmt.Sprintf("queued_from_state_%d", vLastState(r.pre)), 1)
		if r.starved {
			out.Stat("queued_fifo_handoff_mode_reached", 1)
		} else {
			out.Stat("queued_fifo_handoff_mode_not_seen", 1)
		}
		if r.slow {
			out.Stat("queued_slow_watcher", 1)
		}
	}

	// ---- (b) free-running races; every iteration goes through the direct oracle, each DISTINCT
	// (prefix, reports, outcome) is also sent to the model (at most 150)
	iters := vBudget(30000, 10)
	var rjobs []vConcJob
	for c := 0; c < iters; c++ {
		states, pre := genStates()
		rjobs = append(rjobs, vConcJob{pre, genOps(states, 2+rng.Intn(2)), 2, rng.Intn(8) == 0})
	}
	rres := vRunJobs(t, rjobs, 4, vRaceScenario)
	seen := map[string]bool{}
	for _, r := range rres {
		key := fmt.Sprint(r.pre, r.ops, r.got)
		emit := !seen[key] && len(seen) < 150
		if emit {
			seen[key] = true
		}
		vConcJudge(out, r, "race", emit)
	}
	out.Stat("race_iterations", iters)
	out.Stat("race_distinct_outcomes_sent_to_model", len(seen))
}

func vLastState(pre []vEv) int {
	s := 0
	for _, p := range pre {
		if p.inst == 0 {
			s = p.st
		}
	}
	return s
}
