// C11: (1) the PROPOSED repair of finding S3, pre-verified; (2) the dump of the ring length for the
// translator tie.  Injected next to shared_test.go (vDiagram, vHost come from there).
//
// (1) vFixedHostWrapper below is, line for line, the hostWrapper of work/C11/fix/S3.diff (the Go patch; props/C11/NOTES.md
// "Repair of S3"): the ring is gone, the wrapper tracks the status its instances hold and replays the canonical
// path Starting [, Stopping], current to a late instance.  It is NOT the code of /repo; it lives here so
// that the patch text itself is run against its Coq model (Model.v sc2_step, case kind 4) and against
// the direct oracle "every instance ends in the same status and is delivered the same events after its
// attach", with NO bound on the number of reports before a late attach.
package sharedcomponent

import (
	"container/ring"
	"context"
	"fmt"
	"reflect"
	"sync"
	"testing"
	"unsafe"

	"go.opentelemetry.io/collector/component"
	"go.opentelemetry.io/collector/component/componentstatus"
)

type vFixedHostWrapper struct {
	host           component.Host
	sources        []componentstatus.Reporter
	lastValidEvent *componentstatus.Event // the last event the state machines of the sources accepted
	lock           sync.Mutex
}

func (h *vFixedHostWrapper) Report(e *componentstatus.Event) {
	// Only remember an event if it will be emitted and the sources will accept it.
	h.lock.Lock()
	defer h.lock.Unlock()
	if len(h.sources) > 0 && vAccepts(h.lastValidEvent.Status(), e.Status()) {
		h.lastValidEvent = e
	}
	for _, s := range h.sources {
		s.Report(e)
	}
}

// addSource brings a late source to the current status along the shortest legal path
// (Starting, [Stopping,] current), however many events were reported before it was added.
func (h *vFixedHostWrapper) addSource(s componentstatus.Reporter) {
	h.lock.Lock()
	defer h.lock.Unlock()
	if st := h.lastValidEvent.Status(); st != componentstatus.StatusNone {
		if st != componentstatus.StatusStarting {
			s.Report(componentstatus.NewEvent(componentstatus.StatusStarting))
		}
		if st == componentstatus.StatusStopped {
			s.Report(componentstatus.NewEvent(componentstatus.StatusStopping))
		}
		s.Report(h.lastValidEvent)
	}
	h.sources = append(h.sources, s)
}

// vAccepts (accepts in the patch) reports whether the status state machine (docs/component-status.md) moves from cur to next.
func vAccepts(cur, next componentstatus.Status) bool {
	switch cur {
	case componentstatus.StatusNone:
		return next == componentstatus.StatusStarting
	case componentstatus.StatusPermanentError:
		return next == componentstatus.StatusStopping
	case componentstatus.StatusStopping:
		return componentstatus.StatusIsError(next) || next == componentstatus.StatusStopped
	case componentstatus.StatusFatalError, componentstatus.StatusStopped:
		return false
	}
	// Starting, OK, RecoverableError: to any other of OK, RecoverableError, PermanentError, FatalError, Stopping.
	return next != cur && next >= componentstatus.StatusOK && next <= componentstatus.StatusStopping
}

func TestVerifC11Repair(t *testing.T) {
	out := vOpen()
	defer out.Close()
	rng := vNewRand(1119)
	// the relation the patch carries a copy of is the documented diagram, on all 64 pairs
	for a := 0; a < 8; a++ {
		for b := 0; b < 8; b++ {
			if vAccepts(componentstatus.Status(a), componentstatus.Status(b)) != vDiagram(a, b) {
				out.Oracle("repair-accepts-differs-from-diagram", "", fmt.Sprintf("accepts(%d, %d) = %v", a, b, !vDiagram(a, b)))
			}
		}
	}
	n := vBudget(300, 20)
	for c := 0; c < n; c++ {
		var log [][2]int
		var script [][2]int
		w := &vFixedHostWrapper{sources: make([]componentstatus.Reporter, 0), lastValidEvent: componentstatus.NewEvent(componentstatus.StatusNone)}
		ninst := 2 + rng.Intn(3)
		attachAt := make([]int, ninst) // len(log) at the moment instance k finished attaching
		refAt := make([]int, ninst)    // number of events accepted by instance 0 at that moment
		w.addSource(&vHost{0, &log})
		script = append(script, [2]int{0, 0})
		attached := 1
		cur := 0 // status of instance 0 according to the hand-written diagram
		ref := 0
		steps := 3 + rng.Intn(22)
		reports := 0
		firstLateAt := -1
		for k := 0; k < steps; k++ {
			if attached < ninst && rng.Intn(5) == 0 {
				w.addSource(&vHost{attached, &log})
				script = append(script, [2]int{0, attached})
				attachAt[attached] = len(log)
				refAt[attached] = ref
				out.Stat(fmt.Sprintf("repair_attach_in_status_%d", cur), 1)
				if firstLateAt < 0 {
					firstLateAt = reports
				}
				attached++
				continue
			}
			st := rng.Intn(8)
			if k == 0 && rng.Intn(10) != 0 {
				st = 1 // the component's Start reports Starting first (not always: the model covers the rest too)
			} else if rng.Intn(100) < 65 {
				var legal []int
				for b := 0; b < 8; b++ {
					if vDiagram(cur, b) {
						legal = append(legal, b)
					}
				}
				if len(legal) > 0 {
					st = legal[rng.Intn(len(legal))]
				}
			}
			if (st == 5 && rng.Intn(8) != 0) || (st == 7 && rng.Intn(3) != 0) {
				st = 2 + rng.Intn(2) // keep the final statuses rare so that scripts stay interesting
			}
			w.Report(componentstatus.NewEvent(componentstatus.Status(st)))
			script = append(script, [2]int{1, st})
			reports++
			if vDiagram(cur, st) {
				cur = st
				ref++
			}
		}
		st := make([]string, len(script))
		for i, s := range script {
			st[i] = vPair(vNat(s[0]), vZ(int64(s[1])))
		}
		ob := make([]string, len(log))
		for i, e := range log {
			ob[i] = vPair(vNat(e[0]), vZ(int64(e[1])))
		}
		term := vPair("4", vPair(vList(st), vList(ob)))
		out.Case(attached > 1, term)
		bucket := "none"
		switch {
		case firstLateAt >= 6:
			bucket = "06+"
		case firstLateAt >= 0:
			bucket = fmt.Sprintf("%02d", firstLateAt)
		}
		out.Stat("repair_late_attach_after_reports_"+bucket, 1)
		out.Stat(fmt.Sprintf("repair_final_status_%d", cur), 1)

		// direct oracle: run every instance's state machine (hand-written diagram) on what its host was told
		state := make([]int, attached)
		events := make([][]int, attached)
		after := make([][]int, attached) // events accepted after the instance's own attach replay
		for pos, e := range log {
			if vDiagram(state[e[0]], e[1]) {
				state[e[0]] = e[1]
				events[e[0]] = append(events[e[0]], e[1])
				if pos >= attachAt[e[0]] {
					after[e[0]] = append(after[e[0]], e[1])
				}
			}
		}
		for j := 1; j < attached; j++ {
			switch {
			case state[j] != state[0]:
				out.Oracle("repaired-shared-instance-diverges", term,
					fmt.Sprintf("instance %d ends in status %d, instance 0 in %d (delivered %v vs %v)", j, state[j], state[0], events[j], events[0]))
			case len(events[j]) > 0 && events[j][0] != 1:
				out.Oracle("repaired-shared-instance-diverges", term, fmt.Sprintf("instance %d: first event %d is not Starting", j, events[j][0]))
			case fmt.Sprint(after[j]) != fmt.Sprint(events[0][refAt[j]:]):
				out.Oracle("repaired-shared-instance-diverges", term,
					fmt.Sprintf("instance %d was delivered %v after its attach, instance 0 %v", j, after[j], events[0][refAt[j]:]))
			default:
				continue
			}
			break
		}
	}
}

// (2) the length of the event ring the CURRENT code allocates (ring.New(5) inside Component.Start): read from a
// started component, written to coq/Generated/C11Ring.v by props/C11/check.py translate; obligation
// ring_cap_is_code in C11/ProofsTie.v.
func TestVerifC11RingLen(t *testing.T) {
	out := vOpen()
	defer out.Close()
	var log [][2]int
	m := NewMap[int, *vComp]()
	comp, err := m.LoadOrStore(1, func() (*vComp, error) { return &vComp{}, nil })
	if err != nil {
		t.Fatal(err)
	}
	if err := comp.Start(context.Background(), &vHost{0, &log}); err != nil {
		t.Fatal(err)
	}
	// read through reflection so that the harness still builds when the ring is gone (then: length 0, and the named
	// obligation ring_cap_is_code says that the model's ring no longer describes the code)
	n := 0
	if f := reflect.ValueOf(comp.hostWrapper).Elem().FieldByName("previousEvents"); f.IsValid() && f.Kind() == reflect.Pointer && !f.IsNil() {
		n = (*ring.Ring)(unsafe.Pointer(f.Pointer())).Len()
	}
	out.Stat("ring_len", n)
}
