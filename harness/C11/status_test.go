// C11 correspondence harness for service/internal/status (injected by overlay; package-internal).
// Drives the REAL reporter with generated report scripts and records the events delivered to
// the status-change callback.  Case term (Coq): (0, (script, observed)) with
//   script   : list (instance, report)   report 0..7 = ReportStatus(status), 8 = ReportOKIfStarting
//   observed : list (instance, status)   in callback order
// Direct oracle (independent of the Coq model): the documented diagram as a path acceptor.
package status

import (
	"errors"
	"fmt"
	"sync"
	"testing"

	"go.opentelemetry.io/collector/component"
	"go.opentelemetry.io/collector/component/componentstatus"
	"go.opentelemetry.io/collector/pipeline"
)

// hand-written from docs/component-status.md (NOT derived from the table under test)
func vDiagram(a, b int) bool {
	const (
		none = iota
		starting
		ok
		recov
		perm
		fatal
		stopping
		stopped
	)
	switch a {
	case none:
		return b == starting
	case starting:
		return b == ok || b == recov || b == perm || b == fatal || b == stopping
	case ok:
		return b == recov || b == perm || b == fatal || b == stopping
	case recov:
		return b == ok || b == perm || b == fatal || b == stopping
	case perm:
		return b == stopping
	case stopping:
		return b == recov || b == perm || b == fatal || b == stopped
	}
	return false
}

type vEv struct{ inst, st int }

func vRunScript(script []vEv, ninst int) []vEv { return vRunScriptO(script, ninst, vRunOpt{}) }

func vRunScriptF(script []vEv, ninst int, faults []bool) []vEv {
	return vRunScriptO(script, ninst, vRunOpt{faults: faults})
}

// vRunOpt: ways of driving the reporter that must not change WHICH events are delivered.
//   faults[k % len]: the watcher FAULTS (panics) right after it has been handed the k-th delivered event; the reporting
//     goroutine survives (as a net/http or gRPC handler does), reporter.mu is released by the deferred Unlock.
//   withErrs : error statuses are reported with New*ErrorEvent and a different (every third time: wrapped) error each time.
//   sameIDs  : all instances have InstanceIDs with IDENTICAL content (distinct pointers): identity is the pointer.
//   precreate: all events are created up front in REVERSE order (later reports carry older timestamps).
type vRunOpt struct {
	faults    []bool
	withErrs  bool
	sameIDs   bool
	precreate bool
}

func vMkEvent(st, k int, withErrs bool) *componentstatus.Event {
	if !withErrs || st < 3 || st > 5 || k%3 == 0 {
		return componentstatus.NewEvent(componentstatus.Status(st))
	}
	var err error = errors.New(fmt.Sprintf("cause %d", k))
	if k%3 == 2 {
		err = fmt.Errorf("wrapped: %w", err)
	}
	switch st {
	case 3:
		return componentstatus.NewRecoverableErrorEvent(err)
	case 4:
		return componentstatus.NewPermanentErrorEvent(err)
	}
	return componentstatus.NewFatalErrorEvent(err)
}

func vRunScriptO(script []vEv, ninst int, opt vRunOpt) []vEv {
	ids := make([]*componentstatus.InstanceID, ninst)
	idx := map[*componentstatus.InstanceID]int{}
	for i := range ids {
		name := fmt.Sprint(i)
		if opt.sameIDs {
			name = "same"
		}
		ids[i] = componentstatus.NewInstanceID(component.MustNewIDWithName("x", name), component.KindProcessor, pipeline.NewID(pipeline.SignalLogs))
		idx[ids[i]] = i
	}
	var got []vEv
	rep := NewReporter(func(id *componentstatus.InstanceID, ev *componentstatus.Event) {
		got = append(got, vEv{idx[id], int(ev.Status())})
		if len(opt.faults) > 0 && opt.faults[(len(got)-1)%len(opt.faults)] {
			panic("verif: faulting status watcher")
		}
	}, func(error) {})
	evs := make([]*componentstatus.Event, len(script))
	if opt.precreate {
		for k := len(script) - 1; k >= 0; k-- {
			if script[k].st != 8 {
				evs[k] = vMkEvent(script[k].st, k, opt.withErrs)
			}
		}
	}
	for k, s := range script {
		func() {
			defer func() { _ = recover() }()
			if s.st == 8 {
				rep.ReportOKIfStarting(ids[s.inst])
				return
			}
			ev := evs[k]
			if ev == nil {
				ev = vMkEvent(s.st, k, opt.withErrs)
			}
			rep.ReportStatus(ids[s.inst], ev)
		}()
	}
	return got
}

func vEvList(l []vEv) string {
	it := make([]string, len(l))
	for i, e := range l {
		it[i] = vPair(vNat(e.inst), vZ(int64(e.st)))
	}
	return vList(it)
}

func vOraclePath(out *vOut, term string, got []vEv, ninst int) {
	cur := make([]int, ninst)
	for _, e := range got {
		if !vDiagram(cur[e.inst], e.st) {
			out.Oracle("not-a-diagram-path", term, fmt.Sprintf("instance %d: event %d after %d", e.inst, e.st, cur[e.inst]))
			return
		}
		cur[e.inst] = e.st
	}
}

func TestVerifC11(t *testing.T) {
	out := vOpen()
	defer out.Close()
	rng := vNewRand(11)

	// (0) every EDGE of the 8 x 8 status square on its own: the shortest history that reaches status a, then a report of b.
	// The event for b must be delivered exactly when the documented diagram has the edge a -> b (both directions: an
	// extra edge is an illegal event, a missing edge is a documented status change the watchers never see).  Placed first
	// so that a wrong table entry is reported with the SHORTEST failing history.
	vReach := [8][]int{{}, {1}, {1, 2}, {1, 3}, {1, 4}, {1, 5}, {1, 6}, {1, 6, 7}}
	for a := 0; a < 8; a++ {
		for b := 0; b < 8; b++ {
			var script []vEv
			for _, x := range vReach[a] {
				script = append(script, vEv{0, x})
			}
			script = append(script, vEv{0, b})
			got := vRunScript(script, 1)
			term := vPair("0", vPair(vEvList(script), vEvList(got)))
			out.Case(true, term)
			vOraclePath(out, term, got, 1)
			delivered := len(got) == len(vReach[a])+1
			if len(got) < len(vReach[a]) || (delivered && got[len(got)-1].st != b) || (!delivered && len(got) != len(vReach[a])) {
				out.Oracle("edge-history-misdelivered", term, fmt.Sprintf("history %v delivered %v", script, got))
			} else if vDiagram(a, b) && !delivered {
				out.Oracle("documented-transition-not-delivered", term,
					fmt.Sprintf("the diagram has %d -> %d but after %v the report of %d produced no event", a, b, vReach[a], b))
			}
			out.Stat("edge_histories", 1)
		}
	}

	// (1) exhaustive: every report sequence of length <= L over the 9-letter alphabet, 48 sequences
	// per case, one instance each, randomly interleaved (so the interleaving claim is exercised too).
	L := 4
	if vTier() != "quick" {
		L = 5
	}
	var seqs [][]int
	var gen func(prefix []int)
	gen = func(prefix []int) {
		seqs = append(seqs, append([]int(nil), prefix...))
		if len(prefix) == L {
			return
		}
		for a := 0; a < 9; a++ {
			gen(append(prefix, a))
		}
	}
	gen(nil)
	out.Stat("exhaustive_sequences", len(seqs))
	out.Stat("exhaustive_max_len", L)
	const group = 48
	for g := 0; g < len(seqs); g += group {
		end := g + group
		if end > len(seqs) {
			end = len(seqs)
		}
		chunk := seqs[g:end]
		pos := make([]int, len(chunk))
		var script []vEv
		remaining := 0
		for _, s := range chunk {
			remaining += len(s)
		}
		for remaining > 0 {
			i := rng.Intn(len(chunk))
			for pos[i] >= len(chunk[i]) {
				i = (i + 1) % len(chunk)
			}
			script = append(script, vEv{i, chunk[i][pos[i]]})
			pos[i]++
			remaining--
		}
		got := vRunScript(script, len(chunk))
		term := vPair("0", vPair(vEvList(script), vEvList(got)))
		out.Case(len(got) > 0, term)
		vOraclePath(out, term, got, len(chunk))
		// the same script with a watcher that faults after EVERY delivery: exactly the same events must be delivered
		// (direct oracle only; the model is the same function, so no second correspondence case)
		// ... that are error events with changing causes, created up front in reverse order, for identical-content ids
		gotF := vRunScriptO(script, len(chunk), vRunOpt{faults: []bool{true}, withErrs: true, sameIDs: true, precreate: true})
		vOraclePath(out, term, gotF, len(chunk))
		if fmt.Sprint(gotF) != fmt.Sprint(got) {
			out.Oracle("watcher-fault-changes-events", term, fmt.Sprintf("with a faulting watcher / error events / identical-content ids / reverse event creation the reporter delivered %v", gotF))
		}
	}

	// (2) random long scripts, biased towards legal moves so deep states are reached
	n := vBudget(300, 20)
	for c := 0; c < n; c++ {
		ninst := 1 + rng.Intn(4)
		ln := 5 + rng.Intn(56)
		cur := make([]int, ninst)
		var script []vEv
		for k := 0; k < ln; k++ {
			i := rng.Intn(ninst)
			st := rng.Intn(9)
			if rng.Intn(100) < 60 { // pick a legal successor when there is one
				var legal []int
				for b := 0; b < 8; b++ {
					if vDiagram(cur[i], b) {
						legal = append(legal, b)
					}
				}
				if len(legal) > 0 {
					st = legal[rng.Intn(len(legal))]
				}
			}
			script = append(script, vEv{i, st})
			if st == 8 {
				if cur[i] == 1 {
					cur[i] = 2
				}
			} else if vDiagram(cur[i], st) {
				cur[i] = st
			}
			out.Stat(fmt.Sprintf("report_%d", st), 1)
		}
		// ways of driving the reporter that must not matter (see vRunOpt): 40 % faulting watcher, 50 % error events with
		// changing causes, 30 % identical-content InstanceIDs, 30 % events created up front in reverse order
		var opt vRunOpt
		if rng.Intn(100) < 40 {
			opt.faults = make([]bool, 7)
			for k := range opt.faults {
				opt.faults[k] = rng.Intn(3) == 0
			}
			opt.faults[rng.Intn(7)] = true
			out.Stat("scripts_with_faulting_watcher", 1)
		}
		if opt.withErrs = rng.Intn(100) < 50; opt.withErrs {
			out.Stat("scripts_with_error_events", 1)
		}
		if opt.sameIDs = rng.Intn(100) < 30; opt.sameIDs {
			out.Stat("scripts_with_identical_instance_ids", 1)
		}
		if opt.precreate = rng.Intn(100) < 30; opt.precreate {
			out.Stat("scripts_with_events_created_in_reverse_order", 1)
		}
		got := vRunScriptO(script, ninst, opt)
		term := vPair("0", vPair(vEvList(script), vEvList(got)))
		out.Case(len(got) > 1, term)
		// direct oracle: the hand-written diagram simulation (conc_test.go vSimulate) — a legal report IS delivered, an
		// illegal one is not, whatever the options
		if want := vSimulate(script, ninst); !vSameEvents(want, got) {
			out.Oracle("events-differ-from-diagram-simulation", term,
				fmt.Sprintf("faults=%v errors=%v identical ids=%v reverse creation=%v: delivered %v, the documented diagram gives %v",
					len(opt.faults) > 0, opt.withErrs, opt.sameIDs, opt.precreate, got, want))
		}
		out.Stat(fmt.Sprintf("events_per_script_%02d", len(got)/5*5), 1)
		vOraclePath(out, term, got, ninst)
	}

	// (3) concurrent: 8 goroutines x 4 instances on one reporter; both callbacks run under the
	// reporter's mutex, so the callback order is the linearisation.  The emitted events must be
	// accepted by the model when replayed as a script (illegal reports are no-ops by theorem
	// illegal_report_is_noop, so dropping them from the script is sound).
	m := vBudget(40, 10)
	for c := 0; c < m; c++ {
		ids := make([]*componentstatus.InstanceID, 4)
		idx := map[*componentstatus.InstanceID]int{}
		for i := range ids {
			ids[i] = componentstatus.NewInstanceID(component.MustNewIDWithName("c", fmt.Sprint(i)), component.KindExporter, pipeline.NewID(pipeline.SignalTraces))
			idx[ids[i]] = i
		}
		var got []vEv
		rep := NewReporter(func(id *componentstatus.InstanceID, ev *componentstatus.Event) {
			got = append(got, vEv{idx[id], int(ev.Status())}) // under rep.mu
		}, func(error) {})
		var wg sync.WaitGroup
		for g := 0; g < 8; g++ {
			seed := rng.U64()
			wg.Add(1)
			go func() {
				defer wg.Done()
				r := &vRand{s: seed}
				for k := 0; k < 40; k++ {
					i := r.Intn(4)
					st := r.Intn(9)
					if st == 8 {
						rep.ReportOKIfStarting(ids[i])
					} else {
						if st == 5 || st == 7 { // keep final states rare so runs stay interesting
							if r.Intn(4) != 0 {
								st = 1 + r.Intn(3)
							}
						}
						rep.ReportStatus(ids[i], componentstatus.NewEvent(componentstatus.Status(st)))
					}
				}
			}()
		}
		wg.Wait()
		term := vPair("0", vPair(vEvList(got), vEvList(got)))
		out.Case(len(got) > 4, term)
		out.Stat("concurrent_runs", 1)
		vOraclePath(out, term, got, 4)
	}
}
