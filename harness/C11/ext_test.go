// C11 correspondence harness for service/extensions (injected by overlay; package-internal).
// Same protocol as harness/C11/graph_test.go, for Extensions.Start / Extensions.Shutdown.
package extensions

import (
	"context"
	"errors"
	"fmt"
	"testing"

	"go.opentelemetry.io/collector/component"
	"go.opentelemetry.io/collector/component/componentstatus"
	"go.opentelemetry.io/collector/component/componenttest"
	"go.opentelemetry.io/collector/extension"
	"go.opentelemetry.io/collector/service/internal/builders"
	"go.opentelemetry.io/collector/service/internal/status"
)

func vC11Diagram(a, b int) bool {
	switch a {
	case 0:
		return b == 1
	case 1:
		return b == 2 || b == 3 || b == 4 || b == 5 || b == 6
	case 2:
		return b == 3 || b == 4 || b == 5 || b == 6
	case 3:
		return b == 2 || b == 4 || b == 5 || b == 6
	case 4:
		return b == 6
	case 6:
		return b == 3 || b == 4 || b == 5 || b == 7
	}
	return false
}

type vC11Run struct {
	script    [][2]int
	got       [][2]int
	cur       []int
	atReturn  []int
	lenReturn []int
	rep       status.Reporter
	idx       map[*componentstatus.InstanceID]int
	seen      [][][2]int // per watcher extension: every (instance, status) it was notified of, in order
	deliv     [][3]int   // every ComponentStatusChanged call in order: (watcher, source instance, status)
}

type vC11Ext struct {
	i                 int
	run               *vC11Run
	id                *componentstatus.InstanceID
	startRep, stopRep []int
	startErr, stopErr bool
	errKind           int
	started           bool
}

// a status-watcher extension: the scripted extension + componentstatus.Watcher.  The documented contract
// is that ComponentStatusChanged may be called before Start and after Shutdown.
type vC11Watcher struct{ *vC11Ext }

func (w vC11Watcher) ComponentStatusChanged(source *componentstatus.InstanceID, ev *componentstatus.Event) {
	w.run.seen[w.i] = append(w.run.seen[w.i], [2]int{w.run.idx[source], int(ev.Status())})
	w.run.deliv = append(w.run.deliv, [3]int{w.i, w.run.idx[source], int(ev.Status())})
}

func (n *vC11Ext) report(s int) {
	if !n.started {
		return
	}
	n.run.rep.ReportStatus(n.id, componentstatus.NewEvent(componentstatus.Status(s)))
	n.run.script = append(n.run.script, [2]int{n.i, s})
}

func (n *vC11Ext) Start(context.Context, component.Host) error {
	n.started = true
	n.run.script = append(n.run.script, [2]int{n.i, 100})
	for _, s := range n.startRep {
		n.report(s)
	}
	if n.startErr {
		n.run.script = append(n.run.script, [2]int{n.i, 102})
		return vC11Err(n.errKind, "start")
	}
	n.run.script = append(n.run.script, [2]int{n.i, 101})
	n.run.atReturn[n.i] = n.run.cur[n.i]
	n.run.lenReturn[n.i] = len(n.run.got)
	return nil
}

func (n *vC11Ext) Shutdown(context.Context) error {
	n.run.script = append(n.run.script, [2]int{n.i, 103})
	for _, s := range n.stopRep {
		n.report(s)
	}
	if n.stopErr {
		n.run.script = append(n.run.script, [2]int{n.i, 105})
		return vC11Err(n.errKind/4, "stop")
	}
	n.run.script = append(n.run.script, [2]int{n.i, 104})
	return nil
}

func vC11Err(kind int, what string) error {
	switch kind % 4 {
	case 1:
		return context.Canceled
	case 2:
		return fmt.Errorf("%s: %w", what, context.Canceled)
	case 3:
		return context.DeadlineExceeded
	}
	return errors.New(what + " failed")
}

func vC11SimLifecycle(script [][2]int, nn int) [][2]int {
	cur := make([]int, nn)
	var ev [][2]int
	rep := func(i, s int) {
		if vC11Diagram(cur[i], s) {
			cur[i] = s
			ev = append(ev, [2]int{i, s})
		}
	}
	for _, op := range script {
		i := op[0]
		switch op[1] {
		case 100:
			rep(i, 1)
		case 101:
			if cur[i] == 1 {
				rep(i, 2)
			}
		case 102, 105:
			rep(i, 4)
		case 103:
			rep(i, 6)
		case 104:
			rep(i, 7)
		default:
			rep(i, op[1])
		}
	}
	return ev
}

func vC11Reports(rng *vRand, max int) []int {
	k := rng.Pick(55, 25, 12, 8)
	if k > max {
		k = max
	}
	r := make([]int, k)
	for i := range r {
		if rng.Intn(100) < 80 {
			r[i] = 2 + rng.Intn(4)
		} else {
			r[i] = rng.Intn(8)
		}
	}
	return r
}

func TestVerifC11Ext(t *testing.T) {
	out := vOpen()
	defer out.Close()
	rng := vNewRand(1113)
	n := vBudget(200, 20)
	for c := 0; c < n; c++ {
		nn := 1 + rng.Intn(4)
		run := &vC11Run{cur: make([]int, nn), atReturn: make([]int, nn), lenReturn: make([]int, nn)}
		for i := range run.atReturn {
			run.atReturn[i] = -1
		}
		idx := map[*componentstatus.InstanceID]int{}
		run.idx = idx
		run.seen = make([][][2]int, nn)
		var bes *Extensions
		run.rep = status.NewReporter(func(id *componentstatus.InstanceID, ev *componentstatus.Event) {
			i := idx[id]
			run.got = append(run.got, [2]int{i, int(ev.Status())})
			run.cur[i] = int(ev.Status())
			// what service.Host.NotifyComponentStatusChange does with an accepted event
			bes.NotifyComponentStatusChange(id, ev)
		}, func(error) {})
		// the REAL constructor on a generated service::extensions list: extensions.New creates the extensions through their
		// factory, registers the InstanceIDs and computes the start order (computeOrder).  40 % of the lists name an extension
		// MORE THAN ONCE (nothing validates against that): the order must still contain every extension exactly once, so that
		// every watcher is handed every accepted event exactly once and Start/Shutdown run once.
		exts := make([]*vC11Ext, nn)
		watcher := make([]bool, nn)
		var cfgList Config
		var cfgIdx []int
		cfgs := map[component.ID]component.Config{}
		for i := 0; i < nn; i++ {
			cid := component.MustNewIDWithName("x", fmt.Sprint(i))
			exts[i] = &vC11Ext{i: i, run: run, startRep: vC11Reports(rng, 3), stopRep: vC11Reports(rng, 2),
				startErr: rng.Intn(100) < 12, stopErr: rng.Intn(100) < 20, errKind: rng.Intn(16)}
			watcher[i] = rng.Intn(100) < 60
			if watcher[i] {
				out.Stat("watcher_extensions", 1)
			}
			cfgs[cid] = &struct{}{}
			cfgList = append(cfgList, cid)
			cfgIdx = append(cfgIdx, i)
		}
		if rng.Intn(100) < 40 {
			for k := 1 + rng.Intn(2); k > 0; k-- {
				d := rng.Intn(nn)
				at := rng.Intn(len(cfgList) + 1)
				cfgList = append(cfgList[:at], append(Config{component.MustNewIDWithName("x", fmt.Sprint(d))}, cfgList[at:]...)...)
				cfgIdx = append(cfgIdx[:at], append([]int{d}, cfgIdx[at:]...)...)
			}
			out.Stat("configs_naming_an_extension_twice", 1)
		}
		factory := extension.NewFactory(component.MustNewType("x"), func() component.Config { return &struct{}{} },
			func(_ context.Context, set extension.Settings, _ component.Config) (extension.Extension, error) {
				var i int
				fmt.Sscan(set.ID.Name(), &i)
				if watcher[i] {
					return vC11Watcher{exts[i]}, nil
				}
				return exts[i], nil
			}, component.StabilityLevelDevelopment)
		var err error
		var panicked any
		func() {
			defer func() { panicked = recover() }()
			bes, err = New(context.Background(), Settings{
				Telemetry:  componenttest.NewNopTelemetrySettings(),
				BuildInfo:  component.NewDefaultBuildInfo(),
				Extensions: builders.NewExtension(cfgs, map[component.Type]extension.Factory{component.MustNewType("x"): factory}),
			}, cfgList, WithReporter(run.rep))
		}()
		if panicked != nil || err != nil {
			// no component dependencies are declared, so New must succeed on every list (duplicates included)
			cs := make([]string, len(cfgIdx))
			for i, c := range cfgIdx {
				cs[i] = vPair(vNat(c), vZ(301))
			}
			out.Oracle("extensions-new-fails-on-valid-configuration", vPair("5", vPair(vList(cs), vList(nil))),
				fmt.Sprintf("service::extensions = %v: extensions.New panicked (%v) / returned %v", cfgIdx, panicked, err))
			continue
		}
		for cid, id := range bes.instanceIDs {
			var i int
			fmt.Sscan(cid.Name(), &i)
			idx[id] = i
			exts[i].id = id
		}
		// the order New computed (start order, reverse stop order, notification order)
		var order []int
		seenInOrder := map[int]int{}
		for _, cid := range bes.extensionIDs {
			var i int
			fmt.Sscan(cid.Name(), &i)
			order = append(order, i)
			seenInOrder[i]++
		}
		startErr := bes.Start(context.Background(), componenttest.NewNopHost())
		lenAfterStart := len(run.got)
		if startErr == nil {
			for k := rng.Intn(4); k > 0; k-- {
				exts[rng.Intn(nn)].report(2 + rng.Intn(4))
			}
		}
		_ = bes.Shutdown(context.Background())

		sc := make([]string, len(run.script))
		for i, s := range run.script {
			sc[i] = vPair(vNat(s[0]), vZ(int64(s[1])))
		}
		ob := make([]string, len(run.got))
		for i, e := range run.got {
			ob[i] = vPair(vNat(e[0]), vZ(int64(e[1])))
		}
		term := vPair("2", vPair(vList(sc), vList(ob)))
		st := make([]int, nn)
		for _, e := range run.got {
			if !vC11Diagram(st[e[0]], e[1]) {
				out.Oracle("not-a-diagram-path", term, fmt.Sprintf("extensions: instance %d: event %d after %d", e[0], e[1], st[e[0]]))
				break
			}
			st[e[0]] = e[1]
		}
		// the order contains every configured extension exactly once
		for i := 0; i < nn; i++ {
			if seenInOrder[i] != 1 {
				out.Oracle("extension-order-not-a-duplicate-free-enumeration", term,
					fmt.Sprintf("service::extensions = %v: extension %d appears %d times in the computed order %v (started / stopped / notified that often)", cfgIdx, i, seenInOrder[i], order))
				break
			}
		}
		// every status watcher is delivered EVERY accepted event of every instance, in order — whether or not the
		// watcher itself has been started yet (so that what it sees for an instance begins with Starting)
		for w := 0; w < nn; w++ {
			if watcher[w] && fmt.Sprint(run.seen[w]) != fmt.Sprint(run.got) {
				out.Oracle("watcher-misses-status-event", term,
					fmt.Sprintf("watcher extension %d was delivered %v, the reporter accepted %v", w, run.seen[w], run.got))
				break
			}
		}
		if want := vC11SimLifecycle(run.script, nn); fmt.Sprint(want) != fmt.Sprint(run.got) {
			out.Oracle("lifecycle-events-differ-from-diagram-simulation", term,
				fmt.Sprintf("delivered %v, the documented diagram applied to the script gives %v", run.got, want))
		}
		autoOK, noAutoOK := 0, 0
		for i := 0; i < nn; i++ {
			if run.atReturn[i] < 0 {
				continue
			}
			var auto []int
			for _, e := range run.got[run.lenReturn[i]:lenAfterStart] {
				if e[0] == i {
					auto = append(auto, e[1])
				}
			}
			if run.atReturn[i] == 1 {
				autoOK++
				if len(auto) != 1 || auto[0] != 2 {
					out.Oracle("auto-ok-missing", term, fmt.Sprintf("extension %d still Starting when Start returned nil, automatic events %v", i, auto))
				}
			} else {
				noAutoOK++
				if len(auto) != 0 {
					out.Oracle("auto-ok-not-from-starting", term, fmt.Sprintf("extension %d in status %d when Start returned nil, automatic events %v", i, run.atReturn[i], auto))
				}
			}
		}
		out.Case(len(run.got) > 0, term)
		// the watcher path as a correspondence case of its own (kind 5): watchers in start order, then the same script
		var wsc []string
		for _, c := range cfgIdx {
			wsc = append(wsc, vPair(vNat(c), vZ(301))) // the configured list, duplicates included
		}
		nw := 0
		for _, o := range order {
			wsc = append(wsc, vPair(vNat(o), vZ(302))) // the order extensions.New computed
			if watcher[o] {
				wsc = append(wsc, vPair(vNat(o), vZ(300))) // ... and the watchers in that order
				nw++
			}
		}
		dl := make([]string, len(run.deliv))
		for i, d := range run.deliv {
			dl[i] = vPair(vNat(d[0]*100+d[1]), vZ(int64(d[2])))
		}
		out.Case(len(run.deliv) > 0, vPair("5", vPair(vList(append(wsc, sc...)), vList(dl))))
		out.Stat(fmt.Sprintf("watchers_per_run_%d", nw), 1)
		out.Stat("auto_ok_delivered", autoOK)
		out.Stat("auto_ok_suppressed", noAutoOK)
		if startErr != nil {
			out.Stat("start_failed", 1)
		}
	}
}
