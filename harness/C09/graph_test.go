// C09 correspondence harness for service/internal/graph (injected by overlay; package-internal).
//
// For every generated configuration (pipelines over the four signals, shared receivers/exporters,
// 0-3 processors, connectors with arbitrary supported-pair matrices, chains, fan-in/fan-out, a share
// of cyclic, unsupported and invalid configurations) the REAL graph.Build runs with instrumented
// receiver / processor / exporter / connector factories, then StartAll, then one tagged payload is
// injected at every receiver instance.  Processors and connectors append their instance serial to
// a trail carried IN THE PAYLOAD (a resource attribute; connectors that change the signal create
// the new payload with the trail copied), exporters record what arrives.
//
// Case term (Coq, type in coq/C09/Harness.v):  (wcfg, wobs)
// Direct oracle (independent of the Coq model): configuration-level path enumeration, expected
// instance set, expected error class, "nothing created / started on error".
package graph

import (
	"context"
	"fmt"
	"os"
	"regexp"
	"sort"
	"strconv"
	"strings"
	"testing"

	"go.opentelemetry.io/collector/component"
	"go.opentelemetry.io/collector/component/componentstatus"
	"go.opentelemetry.io/collector/component/componenttest"
	"go.opentelemetry.io/collector/connector"
	"go.opentelemetry.io/collector/connector/xconnector"
	"go.opentelemetry.io/collector/consumer"
	"go.opentelemetry.io/collector/consumer/xconsumer"
	"go.opentelemetry.io/collector/exporter"
	"go.opentelemetry.io/collector/exporter/xexporter"
	"go.opentelemetry.io/collector/featuregate"
	"go.opentelemetry.io/collector/pdata/pcommon"
	"go.opentelemetry.io/collector/pdata/plog"
	"go.opentelemetry.io/collector/pdata/pmetric"
	"go.opentelemetry.io/collector/pdata/pprofile"
	"go.opentelemetry.io/collector/pdata/ptrace"
	"go.opentelemetry.io/collector/pipeline"
	"go.opentelemetry.io/collector/pipeline/xpipeline"
	"go.opentelemetry.io/collector/processor"
	"go.opentelemetry.io/collector/processor/xprocessor"
	"go.opentelemetry.io/collector/receiver"
	"go.opentelemetry.io/collector/receiver/xreceiver"
	"go.opentelemetry.io/collector/service/internal/builders"
	"go.opentelemetry.io/collector/service/internal/status"
	"go.opentelemetry.io/collector/service/pipelines"
)

// ---- configuration as generated -------------------------------------------------------------------
type vPipe struct {
	sig, name          int
	recv, procs, exps  []int
}

type vCfg struct {
	pipes []vPipe
	conns  map[int]uint16 // connector id -> requested support matrix, bit (E*4+R)
	stable map[int]bool   // connector id -> factory built with the stable connector.NewFactory (no xconnector.Factory)
	nofac  map[int]bool   // connector id -> configured, but no factory is registered for its type
	order  []int          // connector ids in generation order (for printing)
	// plain receivers / processors / exporters with an odd id come from the stable receiver/processor/exporter
	// NewFactory (three signals; only chosen when no profiles pipeline exists)
	stablePlain bool
	scheme      int    // naming scheme (vName)
	failSeed    uint64 // which components refuse in the fault pass
}

func (c *vCfg) isConn(id int) bool { _, ok := c.conns[id]; return ok }

// what the connector's factory can carry: the requested pairs; a factory made with connector.NewFactory has no
// profiles pairs at all
func (c *vCfg) supp(k, e, r int) bool {
	if c.nofac[k] {
		return false
	}
	if c.stable[k] && (e == 3 || r == 3) {
		return false
	}
	return c.conns[k]&(1<<uint(e*4+r)) != 0
}

var vSignals = []pipeline.Signal{pipeline.SignalTraces, pipeline.SignalMetrics, pipeline.SignalLogs, xpipeline.SignalProfiles}

func vSigIdx(s pipeline.Signal) int {
	for i, x := range vSignals {
		if x == s {
			return i
		}
	}
	return 99
}

func vSigByName(n string) int {
	for i, x := range vSignals {
		if x.String() == n {
			return i
		}
	}
	return 99
}

// ---- names: the model's numeric ids are realised by component / pipeline NAMES of one of several schemes;
// node identity must separate whatever the ID types separate (case, long common prefixes, ...)
var (
	vScheme  int
	vNameNum = map[string]int{}
)

func vName(n int) string {
	var s string
	switch vScheme {
	case 1: // all names equal up to letter case: bit i of n = letter i upper-case
		b := []byte("abcdefgh")
		for i := range b {
			if n&(1<<uint(i)) != 0 {
				b[i] -= 'a' - 'A'
			}
		}
		s = string(b)
	case 2: // long common prefix, difference at the very end
		s = strings.Repeat("x", 70) + strconv.Itoa(n)
	case 3: // difference at the very beginning, non-ASCII letters of both cases, long common suffix
		s = strconv.Itoa(n) + "-Éé.ßẞ_" + strings.Repeat("y", 40)
	default:
		s = strconv.Itoa(n)
	}
	vNameNum[s] = n
	return s
}

func vNum(name string) int {
	if n, ok := vNameNum[name]; ok {
		return n
	}
	return 9999
}

func vPID(sig, name int) pipeline.ID { return pipeline.NewIDWithName(vSignals[sig], vName(name)) }

func vPIDParse(s string) (int, int) { // "traces/<name>"
	parts := strings.SplitN(s, "/", 2)
	n := 9999
	if len(parts) == 2 {
		n = vNum(parts[1])
	}
	return vSigByName(parts[0]), n
}

var (
	vRecvType = component.MustNewType("vrecv")
	vProcType = component.MustNewType("vproc")
	vExpType  = component.MustNewType("vexp")

	// the stable-constructor factories: type names that differ from the x ones only in letter case
	vRecvTypeS = component.MustNewType("VRECV")
	vProcTypeS = component.MustNewType("VPROC")
	vExpTypeS  = component.MustNewType("VEXP")
)

func vConnType(m uint16, stable bool) component.Type {
	if stable {
		return component.MustNewType(fmt.Sprintf("VCONN_%04X", m))
	}
	return component.MustNewType(fmt.Sprintf("vconn_%04x", m))
}


// a connector type for which no factory is registered (the type carries the model id: the message names only the type)
func vNoFacType(k int) component.Type { return component.MustNewType(fmt.Sprintf("vnofac_%d", k)) }

func vCID(t component.Type, id int) component.ID { return component.MustNewIDWithName(t.String(), vName(id)) }

func vIDNum(id component.ID) int { return vNum(id.Name()) }

// ---- instrumented components ------------------------------------------------------------------------
type vNodeKey struct{ kind, a, b, id int }

func (k vNodeKey) term() string {
	return vPair(vNat(k.kind), vPair(vNat(k.a), vPair(vNat(k.b), vNat(k.id))))
}
func (k vNodeKey) String() string { return fmt.Sprintf("%d.%d.%d.%d", k.kind, k.a, k.b, k.id) }

type vComp struct {
	reg            *vReg
	serial         int
	kind           int // 0 receiver 1 processor 2 exporter 3 connector
	sigIn, sigOut  int
	id             int
	next           any
	started, stops int
	got            []string
	routerIDs      []pipeline.ID
	anomalies      []string
	refusing       bool // fault pass: return an error, record nothing, forward nothing
}

var errVRefused = fmt.Errorf("verif: component refuses the payload")

type vReg struct {
	comps []*vComp
}

var vCur *vReg

func vNew(kind, sigIn, sigOut, id int, next any) *vComp {
	c := &vComp{reg: vCur, serial: len(vCur.comps), kind: kind, sigIn: sigIn, sigOut: sigOut, id: id, next: next}
	vCur.comps = append(vCur.comps, c)
	if kind == 3 {
		if r, ok := next.(interface{ PipelineIDs() []pipeline.ID }); ok {
			c.routerIDs = r.PipelineIDs()
		} else {
			c.anomalies = append(c.anomalies, "connector next consumer is not a router")
		}
	}
	return c
}

func (c *vComp) Start(context.Context, component.Host) error { c.started++; return nil }
func (c *vComp) Shutdown(context.Context) error               { c.stops++; return nil }
func (c *vComp) Capabilities() consumer.Capabilities {
	// processors and connectors write the trail into the payload; exporters with id%3 == 2 also write to it
	return consumer.Capabilities{MutatesData: c.kind == 1 || c.kind == 3 || (c.kind == 2 && c.id%3 == 2)}
}
func (c *vComp) ConsumeTraces(ctx context.Context, d ptrace.Traces) error     { return c.handle(ctx, 0, d) }
func (c *vComp) ConsumeMetrics(ctx context.Context, d pmetric.Metrics) error  { return c.handle(ctx, 1, d) }
func (c *vComp) ConsumeLogs(ctx context.Context, d plog.Logs) error           { return c.handle(ctx, 2, d) }
func (c *vComp) ConsumeProfiles(ctx context.Context, d pprofile.Profiles) error { return c.handle(ctx, 3, d) }

const vTrailKey = "verif.trail"

func vAttrs(data any) pcommon.Map {
	switch d := data.(type) {
	case ptrace.Traces:
		return d.ResourceSpans().At(0).Resource().Attributes()
	case pmetric.Metrics:
		return d.ResourceMetrics().At(0).Resource().Attributes()
	case plog.Logs:
		return d.ResourceLogs().At(0).Resource().Attributes()
	case pprofile.Profiles:
		return d.ResourceProfiles().At(0).Resource().Attributes()
	}
	panic("vAttrs: unknown payload type")
}

// payload shapes: 0 full (resource, scope, one record) | 1 childless (a resource without scopes) | 2 empty (no resource
// entry at all).  Routing must not depend on the payload's content.
func vShape(data any) int {
	n, kids := 0, 0
	switch d := data.(type) {
	case ptrace.Traces:
		if n = d.ResourceSpans().Len(); n > 0 {
			kids = d.ResourceSpans().At(0).ScopeSpans().Len()
		}
	case pmetric.Metrics:
		if n = d.ResourceMetrics().Len(); n > 0 {
			kids = d.ResourceMetrics().At(0).ScopeMetrics().Len()
		}
	case plog.Logs:
		if n = d.ResourceLogs().Len(); n > 0 {
			kids = d.ResourceLogs().At(0).ScopeLogs().Len()
		}
	case pprofile.Profiles:
		if n = d.ResourceProfiles().Len(); n > 0 {
			kids = d.ResourceProfiles().At(0).ScopeProfiles().Len()
		}
	}
	switch {
	case n == 0:
		return 2
	case kids == 0:
		return 1
	}
	return 0
}

// the trail travels twice: in the payload (resource attribute, when there is a resource) and in the context
type vCtxTrail struct{}

func vWithTrail(ctx context.Context, t string) context.Context { return context.WithValue(ctx, vCtxTrail{}, t) }

// vGetTrail: the trail of an arriving payload; the payload's own copy (when it has one) must agree with the context's
func (c *vComp) vGetTrail(ctx context.Context, data any) string {
	ct, _ := ctx.Value(vCtxTrail{}).(string)
	if vShape(data) == 2 {
		return ct
	}
	v, ok := vAttrs(data).Get(vTrailKey)
	if !ok {
		return "?"
	}
	if v.Str() != ct {
		c.anomalies = append(c.anomalies, fmt.Sprintf("payload trail %q but context trail %q", v.Str(), ct))
	}
	return v.Str()
}

func vNewData(sig int, trail string, shape int) any {
	switch sig {
	case 0:
		d := ptrace.NewTraces()
		if shape < 2 {
			rs := d.ResourceSpans().AppendEmpty()
			rs.Resource().Attributes().PutStr(vTrailKey, trail)
			if shape == 0 {
				rs.ScopeSpans().AppendEmpty().Spans().AppendEmpty().SetName("s")
			}
		}
		return d
	case 1:
		d := pmetric.NewMetrics()
		if shape < 2 {
			rm := d.ResourceMetrics().AppendEmpty()
			rm.Resource().Attributes().PutStr(vTrailKey, trail)
			if shape == 0 {
				rm.ScopeMetrics().AppendEmpty().Metrics().AppendEmpty().SetName("m")
			}
		}
		return d
	case 2:
		d := plog.NewLogs()
		if shape < 2 {
			rl := d.ResourceLogs().AppendEmpty()
			rl.Resource().Attributes().PutStr(vTrailKey, trail)
			if shape == 0 {
				rl.ScopeLogs().AppendEmpty().LogRecords().AppendEmpty().Body().SetStr("l")
			}
		}
		return d
	default:
		d := pprofile.NewProfiles()
		if shape < 2 {
			rp := d.ResourceProfiles().AppendEmpty()
			rp.Resource().Attributes().PutStr(vTrailKey, trail)
			if shape == 0 {
				rp.ScopeProfiles().AppendEmpty().Profiles().AppendEmpty()
			}
		}
		return d
	}
}

func vMarkRO(data any) {
	switch d := data.(type) {
	case ptrace.Traces:
		d.MarkReadOnly()
	case pmetric.Metrics:
		d.MarkReadOnly()
	case plog.Logs:
		d.MarkReadOnly()
	case pprofile.Profiles:
		d.MarkReadOnly()
	}
}

func vSend(ctx context.Context, next any, data any) error {
	switch d := data.(type) {
	case ptrace.Traces:
		return next.(consumer.Traces).ConsumeTraces(ctx, d)
	case pmetric.Metrics:
		return next.(consumer.Metrics).ConsumeMetrics(ctx, d)
	case plog.Logs:
		return next.(consumer.Logs).ConsumeLogs(ctx, d)
	case pprofile.Profiles:
		return next.(xconsumer.Profiles).ConsumeProfiles(ctx, d)
	}
	panic("vSend: unknown payload type")
}

// vRoute asks the connector's router for the consumer of one downstream pipeline.
func vRoute(next any, id ...pipeline.ID) (any, error) {
	switch r := next.(type) {
	case connector.TracesRouterAndConsumer:
		return r.Consumer(id...)
	case connector.MetricsRouterAndConsumer:
		return r.Consumer(id...)
	case connector.LogsRouterAndConsumer:
		return r.Consumer(id...)
	case xconnector.ProfilesRouterAndConsumer:
		return r.Consumer(id...)
	}
	return nil, fmt.Errorf("not a router: %T", next)
}

func (c *vComp) handle(ctx context.Context, sig int, data any) error {
	if sig != c.sigIn {
		c.anomalies = append(c.anomalies, fmt.Sprintf("instance %d (kind %d, in-signal %d) was handed signal %d", c.serial, c.kind, c.sigIn, sig))
	}
	if c.refusing {
		return errVRefused
	}
	shape := vShape(data)
	switch c.kind {
	case 2:
		c.got = append(c.got, c.vGetTrail(ctx, data))
		if c.id%3 == 2 && shape < 2 {
			vAttrs(data).PutStr("verif.exported", strconv.Itoa(c.serial)) // a mutating exporter
		}
		return nil
	case 1:
		t := c.vGetTrail(ctx, data) + ";" + strconv.Itoa(c.serial)
		if shape < 2 {
			vAttrs(data).PutStr(vTrailKey, t)
		}
		return vSend(vWithTrail(ctx, t), c.next, data)
	case 3:
		t := c.vGetTrail(ctx, data) + ";" + strconv.Itoa(c.serial)
		ctx = vWithTrail(ctx, t)
		if c.id%2 == 1 {
			// odd connector ids route explicitly: one Consumer(pipelineID) per downstream pipeline
			ids := append([]pipeline.ID(nil), c.routerIDs...)
			sort.Slice(ids, func(i, j int) bool { return ids[i].String() < ids[j].String() })
			var firstErr error
			for _, id := range ids {
				cons, err := vRoute(c.next, id)
				if err != nil {
					c.anomalies = append(c.anomalies, "router.Consumer("+id.String()+"): "+err.Error())
					continue
				}
				nd := vNewData(c.sigOut, t, shape)
				if c.id%4 == 3 {
					vMarkRO(nd) // a connector may hand on a payload it still shares
				}
				if err := vSend(ctx, cons, nd); err != nil && firstErr == nil {
					firstErr = err // keep serving the other pipelines, report afterwards
				}
			}
			return firstErr
		}
		if c.sigIn == c.sigOut {
			if shape < 2 {
				vAttrs(data).PutStr(vTrailKey, t)
			}
			return vSend(ctx, c.next, data)
		}
		nd := vNewData(c.sigOut, t, shape)
		if c.id%4 == 2 {
			vMarkRO(nd)
		}
		return vSend(ctx, c.next, nd)
	}
	c.anomalies = append(c.anomalies, "a receiver instance was used as a consumer")
	return nil
}

var vSL = component.StabilityLevelDevelopment

func vDefCfg() component.Config { return &struct{}{} }

var vRecvFactory = xreceiver.NewFactory(vRecvType, vDefCfg,
	xreceiver.WithTraces(func(_ context.Context, s receiver.Settings, _ component.Config, n consumer.Traces) (receiver.Traces, error) {
		return vNew(0, 0, 0, vIDNum(s.ID), n), nil
	}, vSL),
	xreceiver.WithMetrics(func(_ context.Context, s receiver.Settings, _ component.Config, n consumer.Metrics) (receiver.Metrics, error) {
		return vNew(0, 1, 1, vIDNum(s.ID), n), nil
	}, vSL),
	xreceiver.WithLogs(func(_ context.Context, s receiver.Settings, _ component.Config, n consumer.Logs) (receiver.Logs, error) {
		return vNew(0, 2, 2, vIDNum(s.ID), n), nil
	}, vSL),
	xreceiver.WithProfiles(func(_ context.Context, s receiver.Settings, _ component.Config, n xconsumer.Profiles) (xreceiver.Profiles, error) {
		return vNew(0, 3, 3, vIDNum(s.ID), n), nil
	}, vSL))

var vProcFactory = xprocessor.NewFactory(vProcType, vDefCfg,
	xprocessor.WithTraces(func(_ context.Context, s processor.Settings, _ component.Config, n consumer.Traces) (processor.Traces, error) {
		return vNew(1, 0, 0, vIDNum(s.ID), n), nil
	}, vSL),
	xprocessor.WithMetrics(func(_ context.Context, s processor.Settings, _ component.Config, n consumer.Metrics) (processor.Metrics, error) {
		return vNew(1, 1, 1, vIDNum(s.ID), n), nil
	}, vSL),
	xprocessor.WithLogs(func(_ context.Context, s processor.Settings, _ component.Config, n consumer.Logs) (processor.Logs, error) {
		return vNew(1, 2, 2, vIDNum(s.ID), n), nil
	}, vSL),
	xprocessor.WithProfiles(func(_ context.Context, s processor.Settings, _ component.Config, n xconsumer.Profiles) (xprocessor.Profiles, error) {
		return vNew(1, 3, 3, vIDNum(s.ID), n), nil
	}, vSL))

var vExpFactory = xexporter.NewFactory(vExpType, vDefCfg,
	xexporter.WithTraces(func(_ context.Context, s exporter.Settings, _ component.Config) (exporter.Traces, error) {
		return vNew(2, 0, 0, vIDNum(s.ID), nil), nil
	}, vSL),
	xexporter.WithMetrics(func(_ context.Context, s exporter.Settings, _ component.Config) (exporter.Metrics, error) {
		return vNew(2, 1, 1, vIDNum(s.ID), nil), nil
	}, vSL),
	xexporter.WithLogs(func(_ context.Context, s exporter.Settings, _ component.Config) (exporter.Logs, error) {
		return vNew(2, 2, 2, vIDNum(s.ID), nil), nil
	}, vSL),
	xexporter.WithProfiles(func(_ context.Context, s exporter.Settings, _ component.Config) (xexporter.Profiles, error) {
		return vNew(2, 3, 3, vIDNum(s.ID), nil), nil
	}, vSL))

// the same components from the STABLE factory constructors (no profiles, no x-interfaces)
var vRecvFactoryS = receiver.NewFactory(vRecvTypeS, vDefCfg,
	receiver.WithTraces(func(_ context.Context, s receiver.Settings, _ component.Config, n consumer.Traces) (receiver.Traces, error) {
		return vNew(0, 0, 0, vIDNum(s.ID), n), nil
	}, vSL),
	receiver.WithMetrics(func(_ context.Context, s receiver.Settings, _ component.Config, n consumer.Metrics) (receiver.Metrics, error) {
		return vNew(0, 1, 1, vIDNum(s.ID), n), nil
	}, vSL),
	receiver.WithLogs(func(_ context.Context, s receiver.Settings, _ component.Config, n consumer.Logs) (receiver.Logs, error) {
		return vNew(0, 2, 2, vIDNum(s.ID), n), nil
	}, vSL))

var vProcFactoryS = processor.NewFactory(vProcTypeS, vDefCfg,
	processor.WithTraces(func(_ context.Context, s processor.Settings, _ component.Config, n consumer.Traces) (processor.Traces, error) {
		return vNew(1, 0, 0, vIDNum(s.ID), n), nil
	}, vSL),
	processor.WithMetrics(func(_ context.Context, s processor.Settings, _ component.Config, n consumer.Metrics) (processor.Metrics, error) {
		return vNew(1, 1, 1, vIDNum(s.ID), n), nil
	}, vSL),
	processor.WithLogs(func(_ context.Context, s processor.Settings, _ component.Config, n consumer.Logs) (processor.Logs, error) {
		return vNew(1, 2, 2, vIDNum(s.ID), n), nil
	}, vSL))

var vExpFactoryS = exporter.NewFactory(vExpTypeS, vDefCfg,
	exporter.WithTraces(func(_ context.Context, s exporter.Settings, _ component.Config) (exporter.Traces, error) {
		return vNew(2, 0, 0, vIDNum(s.ID), nil), nil
	}, vSL),
	exporter.WithMetrics(func(_ context.Context, s exporter.Settings, _ component.Config) (exporter.Metrics, error) {
		return vNew(2, 1, 1, vIDNum(s.ID), nil), nil
	}, vSL),
	exporter.WithLogs(func(_ context.Context, s exporter.Settings, _ component.Config) (exporter.Logs, error) {
		return vNew(2, 2, 2, vIDNum(s.ID), nil), nil
	}, vSL))

type vConnKey struct {
	m      uint16
	stable bool
}

var vConnFactories = map[vConnKey]connector.Factory{}

// vConnFactoryStable: connector.NewFactory with the non-profiles pairs of the matrix (it cannot carry others).
func vConnFactoryStable(m uint16) connector.Factory {
	has := func(e, r int) bool { return m&(1<<uint(e*4+r)) != 0 }
	var o []connector.FactoryOption
	type cs = connector.Settings
	type cc = component.Config
	type cx = context.Context
	if has(0, 0) {
		o = append(o, connector.WithTracesToTraces(func(_ cx, s cs, _ cc, n consumer.Traces) (connector.Traces, error) { return vNew(3, 0, 0, vIDNum(s.ID), n), nil }, vSL))
	}
	if has(0, 1) {
		o = append(o, connector.WithTracesToMetrics(func(_ cx, s cs, _ cc, n consumer.Metrics) (connector.Traces, error) { return vNew(3, 0, 1, vIDNum(s.ID), n), nil }, vSL))
	}
	if has(0, 2) {
		o = append(o, connector.WithTracesToLogs(func(_ cx, s cs, _ cc, n consumer.Logs) (connector.Traces, error) { return vNew(3, 0, 2, vIDNum(s.ID), n), nil }, vSL))
	}
	if has(1, 0) {
		o = append(o, connector.WithMetricsToTraces(func(_ cx, s cs, _ cc, n consumer.Traces) (connector.Metrics, error) { return vNew(3, 1, 0, vIDNum(s.ID), n), nil }, vSL))
	}
	if has(1, 1) {
		o = append(o, connector.WithMetricsToMetrics(func(_ cx, s cs, _ cc, n consumer.Metrics) (connector.Metrics, error) { return vNew(3, 1, 1, vIDNum(s.ID), n), nil }, vSL))
	}
	if has(1, 2) {
		o = append(o, connector.WithMetricsToLogs(func(_ cx, s cs, _ cc, n consumer.Logs) (connector.Metrics, error) { return vNew(3, 1, 2, vIDNum(s.ID), n), nil }, vSL))
	}
	if has(2, 0) {
		o = append(o, connector.WithLogsToTraces(func(_ cx, s cs, _ cc, n consumer.Traces) (connector.Logs, error) { return vNew(3, 2, 0, vIDNum(s.ID), n), nil }, vSL))
	}
	if has(2, 1) {
		o = append(o, connector.WithLogsToMetrics(func(_ cx, s cs, _ cc, n consumer.Metrics) (connector.Logs, error) { return vNew(3, 2, 1, vIDNum(s.ID), n), nil }, vSL))
	}
	if has(2, 2) {
		o = append(o, connector.WithLogsToLogs(func(_ cx, s cs, _ cc, n consumer.Logs) (connector.Logs, error) { return vNew(3, 2, 2, vIDNum(s.ID), n), nil }, vSL))
	}
	return connector.NewFactory(vConnType(m, true), vDefCfg, o...)
}

func vConnFactory(m uint16, stable bool) connector.Factory {
	if f, ok := vConnFactories[vConnKey{m, stable}]; ok {
		return f
	}
	if stable {
		f := vConnFactoryStable(m)
		if _, isX := f.(xconnector.Factory); isX {
			panic("harness: connector.NewFactory unexpectedly yields an xconnector.Factory")
		}
		vConnFactories[vConnKey{m, true}] = f
		return f
	}
	has := func(e, r int) bool { return m&(1<<uint(e*4+r)) != 0 }
	var o []xconnector.FactoryOption
	type cs = connector.Settings
	type cc = component.Config
	type cx = context.Context
	if has(0, 0) {
		o = append(o, xconnector.WithTracesToTraces(func(_ cx, s cs, _ cc, n consumer.Traces) (connector.Traces, error) { return vNew(3, 0, 0, vIDNum(s.ID), n), nil }, vSL))
	}
	if has(0, 1) {
		o = append(o, xconnector.WithTracesToMetrics(func(_ cx, s cs, _ cc, n consumer.Metrics) (connector.Traces, error) { return vNew(3, 0, 1, vIDNum(s.ID), n), nil }, vSL))
	}
	if has(0, 2) {
		o = append(o, xconnector.WithTracesToLogs(func(_ cx, s cs, _ cc, n consumer.Logs) (connector.Traces, error) { return vNew(3, 0, 2, vIDNum(s.ID), n), nil }, vSL))
	}
	if has(0, 3) {
		o = append(o, xconnector.WithTracesToProfiles(func(_ cx, s cs, _ cc, n xconsumer.Profiles) (connector.Traces, error) { return vNew(3, 0, 3, vIDNum(s.ID), n), nil }, vSL))
	}
	if has(1, 0) {
		o = append(o, xconnector.WithMetricsToTraces(func(_ cx, s cs, _ cc, n consumer.Traces) (connector.Metrics, error) { return vNew(3, 1, 0, vIDNum(s.ID), n), nil }, vSL))
	}
	if has(1, 1) {
		o = append(o, xconnector.WithMetricsToMetrics(func(_ cx, s cs, _ cc, n consumer.Metrics) (connector.Metrics, error) { return vNew(3, 1, 1, vIDNum(s.ID), n), nil }, vSL))
	}
	if has(1, 2) {
		o = append(o, xconnector.WithMetricsToLogs(func(_ cx, s cs, _ cc, n consumer.Logs) (connector.Metrics, error) { return vNew(3, 1, 2, vIDNum(s.ID), n), nil }, vSL))
	}
	if has(1, 3) {
		o = append(o, xconnector.WithMetricsToProfiles(func(_ cx, s cs, _ cc, n xconsumer.Profiles) (connector.Metrics, error) { return vNew(3, 1, 3, vIDNum(s.ID), n), nil }, vSL))
	}
	if has(2, 0) {
		o = append(o, xconnector.WithLogsToTraces(func(_ cx, s cs, _ cc, n consumer.Traces) (connector.Logs, error) { return vNew(3, 2, 0, vIDNum(s.ID), n), nil }, vSL))
	}
	if has(2, 1) {
		o = append(o, xconnector.WithLogsToMetrics(func(_ cx, s cs, _ cc, n consumer.Metrics) (connector.Logs, error) { return vNew(3, 2, 1, vIDNum(s.ID), n), nil }, vSL))
	}
	if has(2, 2) {
		o = append(o, xconnector.WithLogsToLogs(func(_ cx, s cs, _ cc, n consumer.Logs) (connector.Logs, error) { return vNew(3, 2, 2, vIDNum(s.ID), n), nil }, vSL))
	}
	if has(2, 3) {
		o = append(o, xconnector.WithLogsToProfiles(func(_ cx, s cs, _ cc, n xconsumer.Profiles) (connector.Logs, error) { return vNew(3, 2, 3, vIDNum(s.ID), n), nil }, vSL))
	}
	if has(3, 0) {
		o = append(o, xconnector.WithProfilesToTraces(func(_ cx, s cs, _ cc, n consumer.Traces) (xconnector.Profiles, error) { return vNew(3, 3, 0, vIDNum(s.ID), n), nil }, vSL))
	}
	if has(3, 1) {
		o = append(o, xconnector.WithProfilesToMetrics(func(_ cx, s cs, _ cc, n consumer.Metrics) (xconnector.Profiles, error) { return vNew(3, 3, 1, vIDNum(s.ID), n), nil }, vSL))
	}
	if has(3, 2) {
		o = append(o, xconnector.WithProfilesToLogs(func(_ cx, s cs, _ cc, n consumer.Logs) (xconnector.Profiles, error) { return vNew(3, 3, 2, vIDNum(s.ID), n), nil }, vSL))
	}
	if has(3, 3) {
		o = append(o, xconnector.WithProfilesToProfiles(func(_ cx, s cs, _ cc, n xconsumer.Profiles) (xconnector.Profiles, error) { return vNew(3, 3, 3, vIDNum(s.ID), n), nil }, vSL))
	}
	f := xconnector.NewFactory(vConnType(m, false), vDefCfg, o...)
	vConnFactories[vConnKey{m, false}] = f
	return f
}

// ---- running one configuration on the implementation --------------------------------------------------
type vDelivery struct {
	exp   vNodeKey
	trail []vNodeKey
}

// one call of router.Consumer(ids...) on a connector instance's router, and what a datum sent into the result reached
type vProbe struct {
	conn     vNodeKey
	ids      [][2]int
	accepted bool
	got      []vDelivery
}

// vProbeRequests: the id lists a connector instance asks its router for (selective routing), derived from the
// pipelines the router offers (sorted), the other pipelines of the configuration and a seed: none; all; all with one
// replaced by a repetition (same length as the offer); all with one replaced by a pipeline that is not offered (same
// length); a random list with repetitions of length 1..n+1, sometimes with a foreign id.
func vProbeRequests(cfg *vCfg, ck vNodeKey, offered [][2]int) [][][2]int {
	r := &vRand{s: cfg.failSeed ^ uint64(ck.a*131+ck.b*17+ck.id)*0xBF58476D1CE4E5B9}
	var foreign [][2]int
	for _, p := range cfg.pipes {
		in := false
		for _, o := range offered {
			if o == [2]int{p.sig, p.name} {
				in = true
			}
		}
		if !in {
			foreign = append(foreign, [2]int{p.sig, p.name})
		}
	}
	foreign = append(foreign, [2]int{ck.b, 7}) // a pipeline that does not exist
	n := len(offered)
	reqs := [][][2]int{nil, append([][2]int(nil), offered...)}
	if n >= 1 {
		rep := append([][2]int(nil), offered...)
		rep[n-1] = offered[r.Intn(n)]
		if n >= 2 {
			rep[n-1] = offered[r.Intn(n-1)]
		}
		reqs = append(reqs, rep)
		fr := append([][2]int(nil), offered...)
		fr[r.Intn(n)] = foreign[r.Intn(len(foreign))]
		reqs = append(reqs, fr)
		ln := 1 + r.Intn(n+1)
		var rnd [][2]int
		for i := 0; i < ln; i++ {
			if r.Intn(8) == 0 {
				rnd = append(rnd, foreign[r.Intn(len(foreign))])
			} else {
				rnd = append(rnd, offered[r.Intn(n)])
			}
		}
		reqs = append(reqs, rnd)
	}
	return reqs
}

type vObs struct {
	validateOK bool
	class      int // 0 built, 1 unsupported, 2 cycle, 3 panic, 4 other error
	errText    string
	detail     []vNodeKey
	created    []vNodeKey
	started    []vNodeKey
	recvs      []vNodeKey
	deliv      map[vNodeKey][]vDelivery
	delivRO    map[vNodeKey][]vDelivery // the same injections with a payload marked read-only
	delivE     map[vNodeKey][]vDelivery // injections of an EMPTY payload (no resource entries)
	delivF     map[vNodeKey][]vDelivery // fault pass: some components refuse
	errF       map[vNodeKey]bool        // fault pass: did the receiver get an error back
	refusing   []vNodeKey
	probes     []vProbe
	nilHostRejected bool
	problems   [][2]string // (oracle kind, detail) found while observing
	routers    map[vNodeKey][]string
	routerPIDs map[vNodeKey][][2]int
	connKeys   []vNodeKey
}

var (
	vReUnsup = regexp.MustCompile(`^connector "(?i:vconn)_[0-9a-fA-F]+/([^"]+)" used as (exporter|receiver) in \[([^\]]*)\] pipeline but not used in any supported (receiver|exporter) pipeline$`)
	vReConn  = regexp.MustCompile(`^connector "(?i:vconn)_[0-9a-fA-F]+/([^"]+)" \((\w+) to (\w+)\)$`)
	vReNoFac = regexp.MustCompile(`^connector factory not available for: "vnofac_(\d+)"$`)
	vReFacRE = regexp.MustCompile(`^failed to create "(?i:v(recv|exp))/([^"]+)" (?:receiver|exporter) for data type "(\w+)": `)
	vReFacP  = regexp.MustCompile(`^failed to create "(?i:vproc)/([^"]+)" processor, in pipeline "([^"]+)": `)
	vReProc  = regexp.MustCompile(`^processor "(?i:vproc)/([^"]+)" in pipeline "([^"]+)"$`)
)

func vUnwrap(c component.Component) *vComp {
	switch x := c.(type) {
	case *vComp:
		return x
	case componentTraces:
		return vUnwrap(x.Component)
	case componentMetrics:
		return vUnwrap(x.Component)
	case componentLogs:
		return vUnwrap(x.Component)
	case componentProfiles:
		return vUnwrap(x.Component)
	}
	return nil
}

func vRun(cfg *vCfg) (obs *vObs) {
	obs = &vObs{deliv: map[vNodeKey][]vDelivery{}, delivRO: map[vNodeKey][]vDelivery{}, delivE: map[vNodeKey][]vDelivery{}, delivF: map[vNodeKey][]vDelivery{}, errF: map[vNodeKey]bool{}, routers: map[vNodeKey][]string{}, routerPIDs: map[vNodeKey][][2]int{}}
	reg := &vReg{}
	vCur = reg
	vScheme = cfg.scheme
	pcfg := pipelines.Config{}
	rc := map[component.ID]component.Config{}
	pc := map[component.ID]component.Config{}
	ec := map[component.ID]component.Config{}
	cc := map[component.ID]component.Config{}
	cf := map[component.Type]connector.Factory{}
	for k, m := range cfg.conns {
		if cfg.nofac[k] {
			cc[vCID(vNoFacType(k), k)] = vDefCfg()
			continue
		}
		f := vConnFactory(m, cfg.stable[k])
		cf[f.Type()] = f
		cc[vCID(f.Type(), k)] = vDefCfg()
	}
	ref := func(id int, t component.Type, m map[component.ID]component.Config) component.ID {
		if mm, ok := cfg.conns[id]; ok {
			if cfg.nofac[id] {
				return vCID(vNoFacType(id), id)
			}
			return vCID(vConnType(mm, cfg.stable[id]), id)
		}
		if cfg.stablePlain && id%2 == 1 {
			t = component.MustNewType(strings.ToUpper(t.String()))
		}
		cid := vCID(t, id)
		m[cid] = vDefCfg()
		return cid
	}
	for _, p := range cfg.pipes {
		pl := &pipelines.PipelineConfig{}
		for _, r := range p.recv {
			pl.Receivers = append(pl.Receivers, ref(r, vRecvType, rc))
		}
		for _, x := range p.procs {
			pt := vProcType
			if cfg.stablePlain && x%2 == 1 {
				pt = vProcTypeS
			}
			cid := vCID(pt, x)
			pc[cid] = vDefCfg()
			pl.Processors = append(pl.Processors, cid)
		}
		for _, e := range p.exps {
			pl.Exporters = append(pl.Exporters, ref(e, vExpType, ec))
		}
		pcfg[vPID(p.sig, p.name)] = pl
	}
	// what the service does before Build: configuration validation
	obs.validateOK = pcfg.Validate() == nil
	for _, pl := range pcfg {
		if pl.Validate() != nil {
			obs.validateOK = false
		}
	}
	set := Settings{
		Telemetry:        componenttest.NewNopTelemetrySettings(),
		BuildInfo:        component.NewDefaultBuildInfo(),
		ReceiverBuilder:  builders.NewReceiver(rc, map[component.Type]receiver.Factory{vRecvType: vRecvFactory, vRecvTypeS: vRecvFactoryS}),
		ProcessorBuilder: builders.NewProcessor(pc, map[component.Type]processor.Factory{vProcType: vProcFactory, vProcTypeS: vProcFactoryS}),
		ExporterBuilder:  builders.NewExporter(ec, map[component.Type]exporter.Factory{vExpType: vExpFactory, vExpTypeS: vExpFactoryS}),
		ConnectorBuilder: builders.NewConnector(cc, cf),
		PipelineConfigs:  pcfg,
	}
	var g *Graph
	var err error
	func() {
		defer func() {
			if r := recover(); r != nil {
				obs.class = 3
				obs.errText = fmt.Sprint(r)
			}
		}()
		g, err = Build(context.Background(), set)
	}()
	for _, c := range reg.comps {
		if c.started != 0 {
			obs.problems = append(obs.problems, [2]string{"started-during-build", fmt.Sprintf("instance %d kind %d id %d", c.serial, c.kind, c.id)})
		}
	}
	if obs.class == 3 {
		obs.created = vFactoryKeys(reg)
		return obs
	}
	if err != nil {
		obs.errText = err.Error()
		obs.created = vFactoryKeys(reg) // expected empty; anything here is reported by the comparison
		switch {
		case strings.HasPrefix(obs.errText, "cycle detected: "):
			obs.class = 2
			for _, part := range strings.Split(strings.TrimPrefix(obs.errText, "cycle detected: "), " -> ") {
				if m := vReConn.FindStringSubmatch(part); m != nil {
					k := vNum(m[1])
					obs.detail = append(obs.detail, vNodeKey{3, vSigByName(m[2]), vSigByName(m[3]), k})
				} else if m := vReProc.FindStringSubmatch(part); m != nil {
					i := vNum(m[1])
					s, n := vPIDParse(m[2])
					obs.detail = append(obs.detail, vNodeKey{1, s, n, i})
				} else {
					obs.detail = append(obs.detail, vNodeKey{9, 0, 0, 0})
				}
			}
		case vReFacRE.MatchString(obs.errText) || vReFacP.MatchString(obs.errText):
			// a component factory refused its signal during buildComponents: earlier components exist already
			obs.class = 5
			if m := vReFacRE.FindStringSubmatch(obs.errText); m != nil {
				kind := 0
				if strings.EqualFold(m[1], "exp") {
					kind = 2
				}
				obs.detail = []vNodeKey{{kind, vSigByName(m[3]), 0, vNum(m[2])}}
			} else {
				m := vReFacP.FindStringSubmatch(obs.errText)
				ps, pn := vPIDParse(m[2])
				obs.detail = []vNodeKey{{1, ps, pn, vNum(m[1])}}
			}
			obs.created = nil
			if g != nil {
				partial := vKeysOfInstances(g, reg)
				for _, c := range reg.comps {
					if k, ok := partial[c.serial]; ok {
						obs.created = append(obs.created, k)
					} else {
						obs.created = append(obs.created, vNodeKey{c.kind, c.sigIn, 77, c.id})
					}
				}
			} else {
				obs.created = vFactoryKeys(reg)
			}
		case vReNoFac.MatchString(obs.errText):
			obs.class = 1
			k, _ := strconv.Atoi(vReNoFac.FindStringSubmatch(obs.errText)[1])
			obs.detail = []vNodeKey{{2, 0, 0, k}}
		case vReUnsup.MatchString(obs.errText):
			obs.class = 1
			m := vReUnsup.FindStringSubmatch(obs.errText)
			k := vNum(m[1])
			side := 0
			if m[2] == "receiver" {
				side = 1
			}
			s := 99
			if f := strings.Fields(m[3]); len(f) > 0 {
				s, _ = vPIDParse(f[0])
			}
			obs.detail = []vNodeKey{{side, s, 0, k}}
		default:
			obs.class = 4
		}
		return obs
	}
	// built: tie every instance to its node by looking into the graph (in-package)
	keyOf := map[int]vNodeKey{}
	seenKey := map[vNodeKey]int{}
	nodes := g.componentGraph.Nodes()
	for nodes.Next() {
		var key vNodeKey
		var comp component.Component
		switch n := nodes.Node().(type) {
		case *receiverNode:
			key, comp = vNodeKey{0, vSigIdx(n.pipelineType), 0, vIDNum(n.componentID)}, n.Component
		case *processorNode:
			s, nm := vPIDParse(n.pipelineID.String())
			key, comp = vNodeKey{1, s, nm, vIDNum(n.componentID)}, n.Component
		case *exporterNode:
			key, comp = vNodeKey{2, vSigIdx(n.pipelineType), 0, vIDNum(n.componentID)}, n.Component
		case *connectorNode:
			key, comp = vNodeKey{3, vSigIdx(n.exprPipelineType), vSigIdx(n.rcvrPipelineType), vIDNum(n.componentID)}, n.Component
		default:
			continue
		}
		vc := vUnwrap(comp)
		if vc == nil || vc.reg != reg {
			obs.problems = append(obs.problems, [2]string{"node-without-instance", key.String()})
			continue
		}
		if _, dup := keyOf[vc.serial]; dup {
			obs.problems = append(obs.problems, [2]string{"instance-shared-by-nodes", key.String()})
		}
		if _, dup := seenKey[key]; dup {
			obs.problems = append(obs.problems, [2]string{"two-nodes-one-key", key.String()})
		}
		seenKey[key] = vc.serial
		keyOf[vc.serial] = key
		// the factory call that made the instance must agree with the node it sits in
		okParams := vc.kind == key.kind && vc.id == key.id && vc.sigIn == key.a
		if key.kind == 3 {
			okParams = okParams && vc.sigOut == key.b
		}
		if !okParams {
			obs.problems = append(obs.problems, [2]string{"instance-node-mismatch", fmt.Sprintf("node %s holds instance kind %d in %d out %d id %d", key, vc.kind, vc.sigIn, vc.sigOut, vc.id)})
		}
	}
	for _, c := range reg.comps {
		k, ok := keyOf[c.serial]
		if !ok {
			obs.problems = append(obs.problems, [2]string{"orphan-instance", fmt.Sprintf("instance %d kind %d id %d", c.serial, c.kind, c.id)})
			k = vNodeKey{c.kind, c.sigIn, 77, c.id}
		}
		obs.created = append(obs.created, k)
		if c.kind == 0 {
			obs.recvs = append(obs.recvs, k)
		}
		if c.kind == 3 {
			var ids []string
			obs.connKeys = append(obs.connKeys, k)
			obs.routerPIDs[k] = [][2]int{}
			for _, id := range c.routerIDs {
				ids = append(ids, id.String())
				ps, pn := vPIDParse(id.String())
				obs.routerPIDs[k] = append(obs.routerPIDs[k], [2]int{ps, pn})
			}
			sort.Strings(ids)
			obs.routers[k] = ids
		}
	}
	// StartAll without a host is refused before anything is touched
	obs.nilHostRejected = g.StartAll(context.Background(), nil) != nil
	if !obs.nilHostRejected {
		obs.problems = append(obs.problems, [2]string{"nil-host-accepted", "StartAll(ctx, nil) returned no error"})
	}
	for _, c := range reg.comps {
		if c.started != 0 {
			obs.problems = append(obs.problems, [2]string{"started-without-host", fmt.Sprintf("instance %d kind %d id %d", c.serial, c.kind, c.id)})
			c.started = 0
		}
	}
	// start, as the service does after a successful build
	host := &Host{Reporter: status.NewReporter(func(*componentstatus.InstanceID, *componentstatus.Event) {}, func(error) {})}
	if err := g.StartAll(context.Background(), host); err != nil {
		obs.problems = append(obs.problems, [2]string{"startall-error", err.Error()})
	}
	for _, c := range reg.comps {
		for i := 0; i < c.started; i++ {
			obs.started = append(obs.started, keyOf[c.serial])
		}
	}
	// inject one tagged payload at every receiver instance — once as a fresh mutable payload, once marked
	// read-only (a receiver may share its payload with somebody else; mutating consumers must then get a clone)
	// ... and a third time (fault pass) while some processors / exporters / connectors refuse the payload
	// ... and a fourth time with an EMPTY payload (no resource entries) while nothing refuses
	for pass := 0; pass < 4; pass++ {
		ro := pass == 1
		target := obs.deliv
		if ro {
			target = obs.delivRO
		}
		if pass == 3 {
			target = obs.delivE
			for _, c := range reg.comps {
				c.refusing = false
			}
		}
		if pass == 2 {
			target = obs.delivF
			for _, c := range reg.comps {
				if c.kind != 0 && vRefuses(cfg.failSeed, keyOf[c.serial]) {
					c.refusing = true
					obs.refusing = append(obs.refusing, keyOf[c.serial])
				}
			}
		}
		for _, r := range reg.comps {
			if r.kind != 0 {
				continue
			}
			for _, e := range reg.comps {
				e.got = nil
			}
			tag := "T" + strconv.Itoa(r.serial)
			func() {
				defer func() {
					if x := recover(); x != nil {
						obs.problems = append(obs.problems, [2]string{"panic-in-dataflow", fmt.Sprintf("payload read-only=%v injected at %s: %v", ro, keyOf[r.serial], x)})
					}
				}()
				shape := 0
				if ro {
					shape = 1 // the shared payload is also a childless one (a resource without scopes)
				}
				if pass == 3 {
					shape = 2 // no resource entry at all
				}
				data := vNewData(r.sigIn, tag, shape)
				if ro {
					vMarkRO(data)
				}
				err := vSend(vWithTrail(context.Background(), tag), r.next, data)
				if pass == 2 {
					obs.errF[keyOf[r.serial]] = err != nil
				} else if err != nil {
					obs.problems = append(obs.problems, [2]string{"consume-error", err.Error()})
				}
			}()
			rk := keyOf[r.serial]
			target[rk] = []vDelivery{}
			for _, e := range reg.comps {
				if e.kind != 2 {
					for range e.got {
						obs.problems = append(obs.problems, [2]string{"non-exporter-recorded", ""})
					}
					continue
				}
				for _, tr := range e.got {
					parts := strings.Split(tr, ";")
					if parts[0] != tag {
						obs.problems = append(obs.problems, [2]string{"foreign-payload", fmt.Sprintf("exporter %s got %q during injection %s", keyOf[e.serial], tr, tag)})
					}
					d := vDelivery{exp: keyOf[e.serial]}
					for _, p := range parts[1:] {
						n, _ := strconv.Atoi(p)
						d.trail = append(d.trail, keyOf[n])
					}
					target[rk] = append(target[rk], d)
				}
			}
		}
	}
	// selective routing: ask every connector instance's router for chosen pipelines and send a probe datum through
	for _, c := range reg.comps {
		c.refusing = false
	}
	for _, c := range reg.comps {
		if c.kind != 3 {
			continue
		}
		ck := keyOf[c.serial]
		offered := append([][2]int(nil), obs.routerPIDs[ck]...)
		sort.Slice(offered, func(i, j int) bool {
			return offered[i][0] < offered[j][0] || (offered[i][0] == offered[j][0] && offered[i][1] < offered[j][1])
		})
		for _, req := range vProbeRequests(cfg, ck, offered) {
			pr := vProbe{conn: ck, ids: req}
			ids := make([]pipeline.ID, len(req))
			for i, q := range req {
				ids[i] = vPID(q[0], q[1])
			}
			cons, err := vRoute(c.next, ids...)
			pr.accepted = err == nil
			if err == nil {
				for _, e := range reg.comps {
					e.got = nil
				}
				func() {
					defer func() {
						if x := recover(); x != nil {
							obs.problems = append(obs.problems, [2]string{"panic-in-dataflow", fmt.Sprintf("probe through router of %s: %v", ck, x)})
						}
					}()
					if err := vSend(vWithTrail(context.Background(), "P"), cons, vNewData(c.sigOut, "P", len(obs.probes)%3)); err != nil {
						obs.problems = append(obs.problems, [2]string{"consume-error", "probe: " + err.Error()})
					}
				}()
				for _, e := range reg.comps {
					if e.kind != 2 {
						continue
					}
					for _, tr := range e.got {
						parts := strings.Split(tr, ";")
						d := vDelivery{exp: keyOf[e.serial]}
						for _, p := range parts[1:] {
							n, _ := strconv.Atoi(p)
							d.trail = append(d.trail, keyOf[n])
						}
						pr.got = append(pr.got, d)
					}
				}
			}
			obs.probes = append(obs.probes, pr)
		}
	}
	for _, c := range reg.comps {
		for _, a := range c.anomalies {
			obs.problems = append(obs.problems, [2]string{"component-anomaly", a})
		}
	}
	_ = g.ShutdownAll(context.Background(), host.Reporter)
	return obs
}

// vRefuses: does the component with this node key refuse in the fault pass (about one in five; by key, not by
// creation order, which depends on map iteration)
func vRefuses(seed uint64, k vNodeKey) bool {
	r := &vRand{s: seed ^ uint64(k.kind*1000003+k.a*10007+k.b*101+k.id)*0x9E3779B97F4A7C15}
	return r.Intn(100) < 20
}

// vKeysOfInstances: instance serial -> node key, read from the (possibly partially built) graph
func vKeysOfInstances(g *Graph, reg *vReg) map[int]vNodeKey {
	res := map[int]vNodeKey{}
	nodes := g.componentGraph.Nodes()
	for nodes.Next() {
		var key vNodeKey
		var comp component.Component
		switch n := nodes.Node().(type) {
		case *receiverNode:
			key, comp = vNodeKey{0, vSigIdx(n.pipelineType), 0, vIDNum(n.componentID)}, n.Component
		case *processorNode:
			s, nm := vPIDParse(n.pipelineID.String())
			key, comp = vNodeKey{1, s, nm, vIDNum(n.componentID)}, n.Component
		case *exporterNode:
			key, comp = vNodeKey{2, vSigIdx(n.pipelineType), 0, vIDNum(n.componentID)}, n.Component
		case *connectorNode:
			key, comp = vNodeKey{3, vSigIdx(n.exprPipelineType), vSigIdx(n.rcvrPipelineType), vIDNum(n.componentID)}, n.Component
		default:
			continue
		}
		if comp == nil {
			continue
		}
		if vc := vUnwrap(comp); vc != nil && vc.reg == reg {
			res[vc.serial] = key
		}
	}
	return res
}

func vFactoryKeys(reg *vReg) []vNodeKey {
	var l []vNodeKey
	for _, c := range reg.comps {
		l = append(l, vNodeKey{c.kind, c.sigIn, 77, c.id})
	}
	return l
}

// ---- direct oracle: what the configuration says, computed without the graph code -------------------------
type vProbeExp struct {
	ids      [][2]int
	accepted bool
	deliv    []string
}

type vExpect struct {
	class     int
	instances map[vNodeKey]bool
	deliv     map[vNodeKey][]string // receiver -> sorted "exp|trail" strings
	probes    map[vNodeKey][]vProbeExp
	delivF    map[vNodeKey][]string // the same when the components chosen by failSeed refuse
	errF      map[vNodeKey]bool
	routers   map[vNodeKey][]string
	badExp    map[[2]int]bool // (connector, signal) exporter uses without a supported receiver use
	badRecv   map[[2]int]bool
	onCycle   map[[2]int]bool // pipelines lying on a connector cycle
}

func vHas(l []int, x int) bool {
	for _, y := range l {
		if y == x {
			return true
		}
	}
	return false
}

func vDelivStr(d vDelivery) string {
	s := d.exp.String() + "|"
	for _, t := range d.trail {
		s += t.String() + ","
	}
	return s
}

func vOracle(cfg *vCfg) *vExpect {
	ex := &vExpect{instances: map[vNodeKey]bool{}, probes: map[vNodeKey][]vProbeExp{}, deliv: map[vNodeKey][]string{}, delivF: map[vNodeKey][]string{}, errF: map[vNodeKey]bool{}, routers: map[vNodeKey][]string{},
		badExp: map[[2]int]bool{}, badRecv: map[[2]int]bool{}, onCycle: map[[2]int]bool{}}
	// duplicated processor in one pipeline: the node would be added twice
	for _, p := range cfg.pipes {
		seen := map[int]bool{}
		for _, x := range p.procs {
			if seen[x] {
				ex.class = 3
			}
			seen[x] = true
		}
	}
	// every use of a connector needs a supported counterpart use
	for k := range cfg.conns {
		for _, p := range cfg.pipes {
			if vHas(p.exps, k) {
				ok := false
				for _, q := range cfg.pipes {
					if vHas(q.recv, k) && cfg.supp(k, p.sig, q.sig) {
						ok = true
					}
				}
				if !ok {
					ex.badExp[[2]int{k, p.sig}] = true
				}
			}
			if vHas(p.recv, k) {
				ok := false
				for _, q := range cfg.pipes {
					if vHas(q.exps, k) && cfg.supp(k, q.sig, p.sig) {
						ok = true
					}
				}
				if !ok {
					ex.badRecv[[2]int{k, p.sig}] = true
				}
			}
		}
	}
	if ex.class == 0 && len(ex.badExp)+len(ex.badRecv) > 0 {
		ex.class = 1
	}
	// connector-induced pipeline graph
	n := len(cfg.pipes)
	adj := make([][]bool, n)
	for i, p := range cfg.pipes {
		adj[i] = make([]bool, n)
		for j, q := range cfg.pipes {
			for _, k := range p.exps {
				if cfg.isConn(k) && vHas(q.recv, k) && cfg.supp(k, p.sig, q.sig) {
					adj[i][j] = true
				}
			}
		}
	}
	reach := make([][]bool, n) // transitive closure (paths of length >= 1)
	for i := range reach {
		reach[i] = append([]bool(nil), adj[i]...)
	}
	for k := 0; k < n; k++ {
		for i := 0; i < n; i++ {
			for j := 0; j < n; j++ {
				if reach[i][k] && reach[k][j] {
					reach[i][j] = true
				}
			}
		}
	}
	cyc := false
	for i, p := range cfg.pipes {
		if reach[i][i] {
			cyc = true
			ex.onCycle[[2]int{p.sig, p.name}] = true
		}
	}
	if ex.class == 0 && cyc {
		ex.class = 2
	}
	// plain components from stable factories cannot be created for the profiles signal
	if ex.class == 0 && cfg.stablePlain {
		for _, p := range cfg.pipes {
			if p.sig != 3 {
				continue
			}
			for _, r := range p.recv {
				if !cfg.isConn(r) && r%2 == 1 {
					ex.class = 5
				}
			}
			for _, x := range p.procs {
				if x%2 == 1 {
					ex.class = 5
				}
			}
			for _, e := range p.exps {
				if !cfg.isConn(e) && e%2 == 1 {
					ex.class = 5
				}
			}
		}
	}
	if ex.class != 0 {
		return ex
	}
	// instances
	for _, p := range cfg.pipes {
		for _, r := range p.recv {
			if !cfg.isConn(r) {
				ex.instances[vNodeKey{0, p.sig, 0, r}] = true
			}
		}
		for _, x := range p.procs {
			ex.instances[vNodeKey{1, p.sig, p.name, x}] = true
		}
		for _, e := range p.exps {
			if !cfg.isConn(e) {
				ex.instances[vNodeKey{2, p.sig, 0, e}] = true
				continue
			}
			for _, q := range cfg.pipes {
				if vHas(q.recv, e) && cfg.supp(e, p.sig, q.sig) {
					ck := vNodeKey{3, p.sig, q.sig, e}
					ex.instances[ck] = true
				}
			}
		}
	}
	for ck := range ex.instances {
		if ck.kind != 3 {
			continue
		}
		var ids []string
		for _, q := range cfg.pipes {
			if q.sig == ck.b && vHas(q.recv, ck.id) {
				ids = append(ids, vPID(q.sig, q.name).String())
			}
		}
		sort.Strings(ids)
		ex.routers[ck] = ids
	}
	// deliveries: configuration-level paths
	faults, hit := false, false // fault pass: refusing components cut the path (and cause an error)
	refuses := func(k vNodeKey) bool {
		if faults && vRefuses(cfg.failSeed, k) {
			hit = true
			return true
		}
		return false
	}
	var walk func(pi int, trail []vNodeKey, out *[]string)
	walk = func(pi int, trail []vNodeKey, out *[]string) {
		p := cfg.pipes[pi]
		t := append([]vNodeKey(nil), trail...)
		for _, x := range p.procs {
			t = append(t, vNodeKey{1, p.sig, p.name, x})
			if refuses(vNodeKey{1, p.sig, p.name, x}) {
				return
			}
		}
		doneE := map[int]bool{}
		for _, e := range p.exps {
			if doneE[e] {
				continue // listed twice: still one exporter / connector
			}
			doneE[e] = true
			if !cfg.isConn(e) {
				if !refuses(vNodeKey{2, p.sig, 0, e}) {
					*out = append(*out, vDelivStr(vDelivery{vNodeKey{2, p.sig, 0, e}, t}))
				}
				continue
			}
			for r := 0; r < 4; r++ { // one connector instance per destination signal
				if !cfg.supp(e, p.sig, r) {
					continue
				}
				used := false
				for _, q := range cfg.pipes {
					if q.sig == r && vHas(q.recv, e) {
						used = true
					}
				}
				if !used || refuses(vNodeKey{3, p.sig, r, e}) {
					continue
				}
				t2 := append(append([]vNodeKey(nil), t...), vNodeKey{3, p.sig, r, e})
				for qi, q := range cfg.pipes {
					if q.sig == r && vHas(q.recv, e) {
						walk(qi, t2, out)
					}
				}
			}
		}
	}
	// selective routing probes: a request is served iff non-empty and every id is offered; then each requested
	// pipeline gets the datum once per request
	faults = false
	for ck := range ex.routers {
		var offered [][2]int
		for _, q := range cfg.pipes {
			if q.sig == ck.b && vHas(q.recv, ck.id) {
				offered = append(offered, [2]int{q.sig, q.name})
			}
		}
		sort.Slice(offered, func(i, j int) bool {
			return offered[i][0] < offered[j][0] || (offered[i][0] == offered[j][0] && offered[i][1] < offered[j][1])
		})
		for _, req := range vProbeRequests(cfg, ck, offered) {
			pe := vProbeExp{ids: req, accepted: len(req) > 0}
			var idx []int
			for _, id := range req {
				found := -1
				for qi, q := range cfg.pipes {
					if [2]int{q.sig, q.name} == id && q.sig == ck.b && vHas(q.recv, ck.id) {
						found = qi
					}
				}
				if found < 0 {
					pe.accepted = false
				}
				idx = append(idx, found)
			}
			if pe.accepted {
				out := []string{}
				for _, qi := range idx {
					walk(qi, nil, &out)
				}
				sort.Strings(out)
				pe.deliv = out
			}
			ex.probes[ck] = append(ex.probes[ck], pe)
		}
	}
	for pass := 0; pass < 2; pass++ {
		faults = pass == 1
		for _, p := range cfg.pipes {
			for _, r := range p.recv {
				if cfg.isConn(r) {
					continue
				}
				rk := vNodeKey{0, p.sig, 0, r}
				tgt := ex.deliv
				if faults {
					tgt = ex.delivF
				}
				if _, done := tgt[rk]; done {
					continue
				}
				out := []string{}
				hit = false
				for qi, q := range cfg.pipes {
					if q.sig == p.sig && vHas(q.recv, r) {
						walk(qi, nil, &out)
					}
				}
				sort.Strings(out)
				tgt[rk] = out
				if faults {
					ex.errF[rk] = hit
				}
			}
		}
	}
	return ex
}

// vCycleLinked: may y directly follow x in a cycle message (capabilities / fan-out nodes are not printed)?
func vCycleLinked(cfg *vCfg, x, y vNodeKey) bool {
	pipe := func(sig, name int) *vPipe {
		for i := range cfg.pipes {
			if cfg.pipes[i].sig == sig && cfg.pipes[i].name == name {
				return &cfg.pipes[i]
			}
		}
		return nil
	}
	switch {
	case x.kind == 3 && y.kind == 1: // connector -> first processor of a pipeline it feeds
		p := pipe(y.a, y.b)
		return p != nil && p.sig == x.b && vHas(p.recv, x.id) && len(p.procs) > 0 && p.procs[0] == y.id
	case x.kind == 1 && y.kind == 1: // consecutive processors of one pipeline
		p := pipe(x.a, x.b)
		if p == nil || x.a != y.a || x.b != y.b {
			return false
		}
		for i := 0; i+1 < len(p.procs); i++ {
			if p.procs[i] == x.id && p.procs[i+1] == y.id {
				return true
			}
		}
		return false
	case x.kind == 1 && y.kind == 3: // last processor -> a connector the pipeline exports to
		p := pipe(x.a, x.b)
		return p != nil && len(p.procs) > 0 && p.procs[len(p.procs)-1] == x.id && y.a == p.sig && vHas(p.exps, y.id)
	case x.kind == 3 && y.kind == 3: // through a pipeline without processors
		for i := range cfg.pipes {
			p := &cfg.pipes[i]
			if len(p.procs) == 0 && p.sig == x.b && p.sig == y.a && vHas(p.recv, x.id) && vHas(p.exps, y.id) {
				return true
			}
		}
	}
	return false
}

func vKeysSorted(l []vNodeKey) []string {
	s := make([]string, len(l))
	for i, k := range l {
		s[i] = k.String()
	}
	sort.Strings(s)
	return s
}

func vCompare(out *vOut, term string, cfg *vCfg, obs *vObs, ex *vExpect) {
	for _, p := range obs.problems {
		out.Oracle(p[0], term, p[1])
	}
	// the configuration is valid iff there is a pipeline and every pipeline has a receiver, an exporter and no
	// processor id twice (ids are type/name: two processors of one type with different names are fine)
	valid := len(cfg.pipes) > 0
	for _, p := range cfg.pipes {
		seen := map[int]bool{}
		for _, x := range p.procs {
			if seen[x] {
				valid = false
			}
			seen[x] = true
		}
		if len(p.recv) == 0 || len(p.exps) == 0 {
			valid = false
		}
	}
	if valid != obs.validateOK {
		out.Oracle("validate-verdict", term, fmt.Sprintf("configuration valid=%v, Validate accepted=%v", valid, obs.validateOK))
	}
	if obs.class != ex.class {
		out.Oracle("error-class", term, fmt.Sprintf("configuration says class %d, Build gave class %d (%s)", ex.class, obs.class, obs.errText))
		return
	}
	switch obs.class {
	case 1:
		d := obs.detail[0]
		if d.kind == 2 { // "connector factory not available": must be a listed connector without factory
			listed := false
			for _, p := range cfg.pipes {
				if vHas(p.recv, d.id) || vHas(p.exps, d.id) {
					listed = true
				}
			}
			if !cfg.nofac[d.id] || !listed {
				out.Oracle("error-names-wrong-use", term, obs.errText)
			}
			break
		}
		bad := ex.badExp
		if d.kind == 1 {
			bad = ex.badRecv
		}
		if !bad[[2]int{d.id, d.a}] || cfg.nofac[d.id] {
			out.Oracle("error-names-wrong-use", term, obs.errText)
		}
	case 2:
		if len(obs.detail) < 2 || obs.detail[0].kind != 3 || obs.detail[0] != obs.detail[len(obs.detail)-1] {
			out.Oracle("cycle-message-shape", term, obs.errText)
		}
		for i := 0; i+1 < len(obs.detail); i++ {
			if !vCycleLinked(cfg, obs.detail[i], obs.detail[i+1]) {
				out.Oracle("cycle-message-not-a-cycle", term, fmt.Sprintf("%s is not followed by %s in the configuration: %s", obs.detail[i], obs.detail[i+1], obs.errText))
				break
			}
		}
		for _, d := range obs.detail {
			switch d.kind {
			case 1:
				if !ex.onCycle[[2]int{d.a, d.b}] {
					out.Oracle("cycle-message-not-a-cycle", term, obs.errText)
				}
			case 3:
				ok := false
				for _, p := range cfg.pipes {
					for _, q := range cfg.pipes {
						if p.sig == d.a && q.sig == d.b && vHas(p.exps, d.id) && vHas(q.recv, d.id) && cfg.supp(d.id, d.a, d.b) &&
							ex.onCycle[[2]int{p.sig, p.name}] && ex.onCycle[[2]int{q.sig, q.name}] {
							ok = true
						}
					}
				}
				if !ok {
					out.Oracle("cycle-message-not-a-cycle", term, obs.errText)
				}
			default:
				out.Oracle("cycle-message-shape", term, obs.errText)
			}
		}
	}
	if obs.class == 5 {
		d := obs.detail[0]
		if !(cfg.stablePlain && d.a == 3 && d.id%2 == 1 && d.kind <= 2) {
			out.Oracle("error-names-wrong-use", term, obs.errText)
		}
		for _, k := range obs.created { // what was created before the refusal must itself be creatable
			if k.b == 77 || (cfg.stablePlain && k.kind <= 2 && k.a == 3 && k.id%2 == 1) {
				out.Oracle("created-despite-error", term, fmt.Sprintf("instance %s exists after %q", k, obs.errText))
			}
		}
		return
	}
	if obs.class != 0 {
		if len(obs.created) != 0 {
			out.Oracle("created-despite-error", term, fmt.Sprintf("%d factory calls before the build error %q", len(obs.created), obs.errText))
		}
		return
	}
	// instances: exactly one per expected key
	var want []vNodeKey
	for k := range ex.instances {
		want = append(want, k)
	}
	if a, b := strings.Join(vKeysSorted(want), " "), strings.Join(vKeysSorted(obs.created), " "); a != b {
		out.Oracle("instances", term, "expected "+a+" created "+b)
	}
	if a, b := strings.Join(vKeysSorted(obs.started), " "), strings.Join(vKeysSorted(obs.created), " "); a != b {
		out.Oracle("started-not-created", term, "started "+a+" created "+b)
	}
	for k, ids := range ex.routers {
		if a, b := strings.Join(ids, " "), strings.Join(obs.routers[k], " "); a != b {
			out.Oracle("router-pipelines", term, fmt.Sprintf("connector %s: configuration says [%s], router offers [%s]", k, a, b))
		}
	}
	// deliveries
	if len(obs.deliv) != len(ex.deliv) {
		out.Oracle("receiver-set", term, fmt.Sprintf("expected %d receivers, injected at %d", len(ex.deliv), len(obs.deliv)))
	}
	seenProbe := map[vNodeKey]int{}
	for _, pr := range obs.probes {
		i := seenProbe[pr.conn]
		seenProbe[pr.conn]++
		if i >= len(ex.probes[pr.conn]) {
			out.Oracle("router-consumer", term, fmt.Sprintf("unexpected probe on %s", pr.conn))
			continue
		}
		pe := ex.probes[pr.conn][i]
		if pe.accepted != pr.accepted {
			out.Oracle("router-consumer", term, fmt.Sprintf("connector %s: Consumer(%v) accepted=%v, the offer says %v", pr.conn, pr.ids, pr.accepted, pe.accepted))
			continue
		}
		gotL := []string{}
		for _, d := range pr.got {
			gotL = append(gotL, vDelivStr(d))
		}
		sort.Strings(gotL)
		if a, b := strings.Join(pe.deliv, " "), strings.Join(gotL, " "); a != b {
			out.Oracle("router-consumer", term, fmt.Sprintf("connector %s: Consumer(%v) should feed [%s], fed [%s]", pr.conn, pr.ids, a, b))
		}
	}
	for rk, want := range ex.errF {
		if got := obs.errF[rk]; got != want {
			out.Oracle("fault-error-propagation", term, fmt.Sprintf("receiver %s: a refusing component on a path: %v, error returned: %v", rk, want, got))
		}
	}
	for pass, delivered := range []map[vNodeKey][]vDelivery{obs.deliv, obs.delivRO, obs.delivF, obs.delivE} {
		kind := "routing"
		if pass == 1 {
			kind = "routing-readonly-payload"
		}
		expected := ex.deliv
		if pass == 2 {
			kind = "routing-under-faults" // a refusing component must cut its own paths only
			expected = ex.delivF
		}
		if pass == 3 {
			kind = "routing-empty-payload" // routing must not depend on the payload's content
		}
		for rk, wantL := range expected {
			gotL := []string{}
			for _, d := range delivered[rk] {
				gotL = append(gotL, vDelivStr(d))
			}
			sort.Strings(gotL)
			if a, b := strings.Join(wantL, " "), strings.Join(gotL, " "); a != b {
				out.Oracle(kind, term, fmt.Sprintf("receiver %s: configuration paths [%s] observed [%s]", rk, a, b))
			}
		}
	}
}

// ---- Coq term ------------------------------------------------------------------------------------------
func vNats(l []int) string {
	it := make([]string, len(l))
	for i, x := range l {
		it[i] = vNat(x)
	}
	return vList(it)
}

func vKeys(l []vNodeKey) string {
	it := make([]string, len(l))
	for i, x := range l {
		it[i] = x.term()
	}
	return vList(it)
}

func vTerm(cfg *vCfg, obs *vObs) string {
	var ps []string
	for _, p := range cfg.pipes {
		ps = append(ps, vPair(vPair(vNat(p.sig), vNat(p.name)), vPair(vNats(p.recv), vPair(vNats(p.procs), vNats(p.exps)))))
	}
	var cs []string
	for _, k := range cfg.order {
		m := cfg.conns[k]
		var pairs []string
		for e := 0; e < 4; e++ {
			for r := 0; r < 4; r++ {
				if m&(1<<uint(e*4+r)) != 0 {
					pairs = append(pairs, vPair(vNat(e), vNat(r)))
				}
			}
		}
		if cfg.nofac[k] {
			cs = append(cs, vPair(vNat(k), "None"))
			continue
		}
		cs = append(cs, vPair(vNat(k), "Some "+vPair(vBool(!cfg.stable[k]), vList(pairs))))
	}
	var dse []string
	for _, rk := range obs.recvs {
		var ws []string
		for _, d := range obs.delivE[rk] {
			ws = append(ws, vPair(d.exp.term(), vKeys(d.trail)))
		}
		dse = append(dse, vPair(rk.term(), vList(ws)))
	}
	var ds, dsro, dsf, errs []string
	rks := append([]vNodeKey(nil), obs.recvs...)
	for _, rk := range rks {
		var xs, ys, zs []string
		for _, d := range obs.delivF[rk] {
			zs = append(zs, vPair(d.exp.term(), vKeys(d.trail)))
		}
		dsf = append(dsf, vPair(rk.term(), vList(zs)))
		errs = append(errs, vPair(rk.term(), vBool(obs.errF[rk])))
		for _, d := range obs.deliv[rk] {
			xs = append(xs, vPair(d.exp.term(), vKeys(d.trail)))
		}
		for _, d := range obs.delivRO[rk] {
			ys = append(ys, vPair(d.exp.term(), vKeys(d.trail)))
		}
		ds = append(ds, vPair(rk.term(), vList(xs)))
		dsro = append(dsro, vPair(rk.term(), vList(ys)))
	}
	var np []string
	if cfg.stablePlain {
		seen := map[[2]int]bool{}
		add := func(kind, id int) {
			if id%2 == 1 && !seen[[2]int{kind, id}] {
				seen[[2]int{kind, id}] = true
				np = append(np, vPair(vNat(kind), vNat(id)))
			}
		}
		for _, p := range cfg.pipes {
			for _, r := range p.recv {
				if !cfg.isConn(r) {
					add(0, r)
				}
			}
			for _, x := range p.procs {
				add(1, x)
			}
			for _, e := range p.exps {
				if !cfg.isConn(e) {
					add(2, e)
				}
			}
		}
	}
	var rs []string
	for _, ck := range obs.connKeys {
		var ids []string
		for _, p := range obs.routerPIDs[ck] {
			ids = append(ids, vPair(vNat(p[0]), vNat(p[1])))
		}
		rs = append(rs, vPair(ck.term(), vList(ids)))
	}
	var prs []string
	for _, pr := range obs.probes {
		var ids, got []string
		for _, q := range pr.ids {
			ids = append(ids, vPair(vNat(q[0]), vNat(q[1])))
		}
		for _, d := range pr.got {
			got = append(got, vPair(d.exp.term(), vKeys(d.trail)))
		}
		prs = append(prs, vPair(pr.conn.term(), vPair(vList(ids), vPair(vBool(pr.accepted), vList(got)))))
	}
	cls := obs.class
	return vPair(vPair(vList(ps), vPair(vList(cs), vList(np))),
		vPair(vBool(obs.validateOK), vPair(vNat(cls), vPair(vKeys(obs.detail), vPair(vKeys(obs.created), vPair(vKeys(obs.started), vPair(vList(ds), vPair(vList(dsro), vPair(vList(rs), vPair(vKeys(obs.refusing), vPair(vList(dsf), vPair(vList(errs), vPair(vBool(obs.nilHostRejected), vPair(vList(prs), vList(dse)))))))))))))))
}

// ---- generator -----------------------------------------------------------------------------------------
func vGen(rng *vRand, out *vOut) *vCfg {
	cfg := &vCfg{conns: map[int]uint16{}, stable: map[int]bool{}, nofac: map[int]bool{}}
	np := 1 + rng.Pick(10, 20, 25, 20, 15, 10)
	nsig := 1 + rng.Pick(35, 35, 20, 10) // how many signals are in play
	sigs := []int{0, 1, 2, 3}
	for i := 3; i > 0; i-- {
		j := rng.Intn(i + 1)
		sigs[i], sigs[j] = sigs[j], sigs[i]
	}
	sigs = sigs[:nsig]
	wide := rng.Intn(100) < 15 // many pipelines of ONE signal sharing a receiver and fed by one connector
	if wide {
		np = 4 + rng.Intn(3)
	}
	used := map[[2]int]bool{}
	for len(cfg.pipes) < np {
		p := vPipe{sig: sigs[rng.Intn(nsig)], name: rng.Intn(6)}
		if wide && rng.Intn(4) > 0 {
			p.sig = sigs[0]
		}
		if used[[2]int{p.sig, p.name}] {
			if len(used) >= nsig*6 {
				break
			}
			continue
		}
		used[[2]int{p.sig, p.name}] = true
		nr := 1 + rng.Pick(60, 30, 10)
		for i := 0; i < nr; i++ {
			p.recv = append(p.recv, rng.Intn(3))
		}
		nx := rng.Pick(30, 35, 25, 10)
		for len(p.procs) < nx {
			x := rng.Intn(4)
			if vHas(p.procs, x) {
				continue
			}
			p.procs = append(p.procs, x)
		}
		ne := 1 + rng.Pick(60, 30, 10)
		for i := 0; i < ne; i++ {
			p.exps = append(p.exps, rng.Intn(3))
		}
		cfg.pipes = append(cfg.pipes, p)
	}
	np = len(cfg.pipes)
	// connectors: ids 10.., each linking some exporter pipelines to some receiver pipelines
	nc := rng.Pick(15, 30, 30, 15, 10)
	if np >= 4 && nc < 4 && rng.Bool() {
		nc++
	}
	mode := rng.Pick(60, 25, 15) // 0 forward links only (acyclic), 1 free links, 2 free + dangling uses
	for c := 0; c < nc; c++ {
		k := 10 + c
		var m uint16
		switch rng.Pick(45, 15, 30, 10) {
		case 0:
			m = 0xffff
		case 1:
			m = 0x8421 // same-signal pairs only
		case 3:
			m = uint16(rng.U64()|rng.U64()) &^ 0x8421 // cross-signal pairs only
		default:
			m = uint16(rng.U64())
			if rng.Intn(3) > 0 {
				m |= uint16(rng.U64())
			}
		}
		cfg.conns[k] = m
		// built with the stable connector.NewFactory (rarer when profiles pipelines exist: it cannot serve them)
		if vHas(sigs, 3) {
			cfg.stable[k] = rng.Intn(100) < 15
		} else {
			cfg.stable[k] = rng.Intn(100) < 50
		}
		cfg.order = append(cfg.order, k)
		if rng.Intn(100) < 4 {
			cfg.nofac[k] = true // configured, factory missing
		}
		nl := 1 + rng.Pick(55, 30, 15)
		for l := 0; l < nl; l++ {
			i, j := rng.Intn(np), rng.Intn(np)
			if mode == 0 || rng.Intn(100) < 70 {
				// forward link (keeps the configuration acyclic)
				if np == 1 {
					if mode == 0 {
						continue
					}
				} else {
					for i == j {
						j = rng.Intn(np)
					}
					if i > j {
						i, j = j, i
					}
				}
			}
			// prefer supported pairs so that most configurations build
			if !cfg.supp(k, cfg.pipes[i].sig, cfg.pipes[j].sig) && rng.Intn(10) < 9 {
				m |= 1 << uint(cfg.pipes[i].sig*4+cfg.pipes[j].sig)
				cfg.conns[k] = m
			}
			if !vHas(cfg.pipes[i].exps, k) || rng.Intn(8) == 0 {
				cfg.pipes[i].exps = append(cfg.pipes[i].exps, k)
			}
			if !vHas(cfg.pipes[j].recv, k) || rng.Intn(8) == 0 {
				cfg.pipes[j].recv = append(cfg.pipes[j].recv, k)
			}
		}
		if mode == 2 && rng.Intn(2) == 0 {
			i := rng.Intn(np)
			if rng.Bool() {
				cfg.pipes[i].exps = append(cfg.pipes[i].exps, k)
			} else {
				cfg.pipes[i].recv = append(cfg.pipes[i].recv, k)
			}
		}
	}
	// wide fan-out: one receiver listed by MANY pipelines of a signal, one connector feeding many pipelines (>3)
	if wide && np >= 2 {
		s0 := sigs[0]
		k := 30
		m := uint16(1<<uint(s0*4+s0)) | uint16(rng.U64()&rng.U64())
		cfg.conns[k] = m
		cfg.stable[k] = s0 != 3 && rng.Bool()
		cfg.order = append(cfg.order, k)
		first := true
		for i := range cfg.pipes {
			p := &cfg.pipes[i]
			if p.sig != s0 {
				continue
			}
			if !vHas(p.recv, 0) {
				p.recv = append(p.recv, 0)
			}
			if first {
				p.exps = append(p.exps, k)
				first = false
			} else {
				p.recv = append(p.recv, k)
			}
		}
	}
	// a chain through all pipelines, one connector per hop (deep paths)
	if np >= 3 && rng.Intn(100) < 15 {
		for i := 0; i+1 < np; i++ {
			k := 20 + i
			a, b := cfg.pipes[i].sig, cfg.pipes[i+1].sig
			m := uint16(1<<uint(a*4+b)) | uint16(rng.U64()&rng.U64())
			cfg.conns[k] = m
			cfg.stable[k] = a != 3 && b != 3 && rng.Bool()
			cfg.order = append(cfg.order, k)
			cfg.pipes[i].exps = append(cfg.pipes[i].exps, k)
			cfg.pipes[i+1].recv = append(cfg.pipes[i+1].recv, k)
		}
	}
	// a pipeline fed / drained by connectors only (drop its plain receivers / exporters)
	for i := range cfg.pipes {
		p := &cfg.pipes[i]
		if rng.Intn(5) == 0 {
			var keep []int
			for _, r := range p.recv {
				if cfg.isConn(r) {
					keep = append(keep, r)
				}
			}
			if len(keep) > 0 {
				p.recv = keep
			}
		}
		if rng.Intn(5) == 0 {
			var keep []int
			for _, e := range p.exps {
				if cfg.isConn(e) {
					keep = append(keep, e)
				}
			}
			if len(keep) > 0 {
				p.exps = keep
			}
		}
	}
	// plain components from the stable factory constructors (they carry no profiles)
	hasProfiles := false
	for _, p := range cfg.pipes {
		if p.sig == 3 {
			hasProfiles = true
		}
	}
	cfg.stablePlain = (!hasProfiles && rng.Bool()) || (hasProfiles && rng.Intn(100) < 20)
	cfg.scheme = rng.Pick(30, 40, 15, 15)
	cfg.failSeed = rng.U64()
	// invalid configurations (rejected by Validate; Build is still exercised)
	switch rng.Pick(92, 3, 2, 3) {
	case 1:
		p := &cfg.pipes[rng.Intn(np)]
		if len(p.procs) > 0 {
			p.procs = append(p.procs, p.procs[rng.Intn(len(p.procs))])
		}
	case 2:
		cfg.pipes[rng.Intn(np)].recv = nil
	case 3:
		cfg.pipes[rng.Intn(np)].exps = nil
	}
	return cfg
}

func vStats(out *vOut, cfg *vCfg, obs *vObs) {
	out.Stat(fmt.Sprintf("class_%d", obs.class), 1)
	out.Stat(fmt.Sprintf("pipelines_%d", len(cfg.pipes)), 1)
	out.Stat(fmt.Sprintf("connectors_%d", len(cfg.conns)), 1)
	if !obs.validateOK {
		out.Stat("validate_rejects", 1)
	}
	for _, k := range cfg.order {
		if cfg.nofac[k] {
			out.Stat("connectors_without_factory", 1)
			continue
		}
		if cfg.stable[k] {
			out.Stat("connectors_from_stable_factory", 1)
		} else {
			out.Stat("connectors_from_xconnector_factory", 1)
		}
	}
	if cfg.stablePlain {
		out.Stat("configs_with_stable_plain_factories", 1)
	}
	out.Stat(fmt.Sprintf("naming_scheme_%d", cfg.scheme), 1)
	for _, pr := range obs.probes {
		switch {
		case !pr.accepted:
			out.Stat("router_probe_refused", 1)
		case len(pr.ids) == len(obs.routerPIDs[pr.conn]):
			out.Stat("router_probe_accepted_len_eq_offer", 1)
		default:
			out.Stat("router_probe_accepted_other", 1)
		}
	}
	if obs.class == 0 {
		out.Stat(fmt.Sprintf("refusing_components_%d", min(len(obs.refusing), 5)), 1)
		cut, err := 0, 0
		for rk, ds := range obs.deliv {
			if len(obs.delivF[rk]) < len(ds) {
				cut++
			}
			if len(obs.delivF[rk]) > 0 && len(obs.delivF[rk]) < len(ds) {
				out.Stat("receivers_with_some_paths_cut_some_kept", 1)
			}
			if obs.errF[rk] {
				err++
			}
		}
		out.Stat("receivers_with_paths_cut", cut)
		out.Stat("receivers_with_error_returned", err)
	}
	if obs.class != 0 {
		return
	}
	maxHops, nd, shared := 0, 0, 0
	for _, ds := range obs.deliv {
		nd += len(ds)
		for _, d := range ds {
			h := 0
			for _, t := range d.trail {
				if t.kind == 3 {
					h++
				}
			}
			if h > maxHops {
				maxHops = h
			}
		}
		if len(ds) > 1 {
			shared++
		}
	}
	out.Stat(fmt.Sprintf("max_connector_hops_%d", maxHops), 1)
	maxOffer := 0
	for _, ids := range obs.routerPIDs {
		if len(ids) > maxOffer {
			maxOffer = len(ids)
		}
	}
	out.Stat(fmt.Sprintf("max_router_offer_%d", maxOffer), 1)
	maxShare := 0
	for _, p := range cfg.pipes {
		for _, r := range p.recv {
			if cfg.isConn(r) {
				continue
			}
			n := 0
			for _, q := range cfg.pipes {
				if q.sig == p.sig && vHas(q.recv, r) {
					n++
				}
			}
			if n > maxShare {
				maxShare = n
			}
		}
	}
	out.Stat(fmt.Sprintf("max_receiver_sharing_%d", maxShare), 1)
	// receivers whose only downstream consumer is one pipeline that mutates (the lone-mutating-consumer fan-out)
	for _, p := range cfg.pipes {
		for _, r := range p.recv {
			if cfg.isConn(r) {
				continue
			}
			n := 0
			for _, q := range cfg.pipes {
				if q.sig == p.sig && vHas(q.recv, r) {
					n++
				}
			}
			if n == 1 {
				out.Stat("receiver_uses_with_single_pipeline", 1)
			}
		}
	}
	out.Stat("deliveries_total", nd)
	if shared > 0 {
		out.Stat("configs_with_fanout", 1)
	}
	cross := false
	for k := range obs.routers {
		if k.a != k.b {
			cross = true
		}
	}
	if cross {
		out.Stat("configs_with_cross_signal_connector", 1)
	}
	for _, k := range obs.created {
		out.Stat(fmt.Sprintf("created_kind_%d", k.kind), 1)
	}
}

func vOne(out *vOut, cfg *vCfg) {
	obs := vRun(cfg)
	ex := vOracle(cfg)
	term := vTerm(cfg, obs)
	nontrivial := obs.class != 0 || len(obs.created) > 3
	out.Case(nontrivial, term)
	vStats(out, cfg, obs)
	vCompare(out, term, cfg, obs, ex)
}

func TestVerifC09(t *testing.T) {
	out := vOpen()
	defer out.Close()
	if err := featuregate.GlobalRegistry().Set("service.profilesSupport", true); err != nil {
		t.Fatal(err)
	}
	// configurations handed in by the check driver (failing-input search after a broken tie obligation):
	// "E,R,x,mask;..." = a connector with factory kind x and requested pair mask between a pipeline of signal E and one of R
	if extra := os.Getenv("VERIF_C09_EXTRA_CFGS"); extra != "" {
		for _, item := range strings.Split(extra, ";") {
			var e, r, x, mask int
			if n, _ := fmt.Sscanf(item, "%d,%d,%d,%d", &e, &r, &x, &mask); n != 4 {
				continue
			}
			cfg := &vCfg{pipes: []vPipe{{sig: e, name: 0, recv: []int{0}, exps: []int{10}}, {sig: r, name: 1, recv: []int{10}, exps: []int{0}}},
				conns: map[int]uint16{10: uint16(mask)}, order: []int{10}, stable: map[int]bool{10: x == 0}}
			vOne(out, cfg)
			out.Stat("extra_configurations_from_search", 1)
		}
		if os.Getenv("VERIF_C09_EXTRA_ONLY") != "" {
			return
		}
	}
	rng := vNewRand(9)
	n := vBudget(450, 10)
	for i := 0; i < n; i++ {
		vOne(out, vGen(rng, out))
	}
	if vTier() == "quick" {
		return
	}
	// exhaustive small tier: every configuration of two pipelines (ids from traces/p0, traces/p1,
	// metrics/p0), receivers and exporters any non-empty subset of {plain 0, connector 10}, zero or one
	// processor, connector 10 supporting all pairs / same-signal pairs / traces->metrics only.
	pids := [][2]int{{0, 0}, {0, 1}, {1, 0}}
	subsets := [][]int{{0}, {10}, {0, 10}}
	procs := [][]int{nil, {0}}
	mats := []uint16{0xffff, 0x8421, 1 << 1}
	var shapes []vPipe
	for _, r := range subsets {
		for _, x := range procs {
			for _, e := range subsets {
				shapes = append(shapes, vPipe{recv: r, procs: x, exps: e})
			}
		}
	}
	cnt := 0
	for a := 0; a < len(pids); a++ {
		for b := 0; b < len(pids); b++ {
			if a == b {
				continue
			}
			for _, m := range mats {
				for _, sa := range shapes {
					for _, sb := range shapes {
						pa, pb := sa, sb
						pa.sig, pa.name = pids[a][0], pids[a][1]
						pb.sig, pb.name = pids[b][0], pids[b][1]
						// the four factory variants (x / stable connector factory, x / stable plain factories) in turn
						cfg := &vCfg{pipes: []vPipe{pa, pb}, conns: map[int]uint16{10: m}, order: []int{10},
							stable: map[int]bool{10: cnt%2 == 1}, stablePlain: cnt%4 >= 2, scheme: (cnt / 4) % 4, failSeed: uint64(cnt) * 7919}
						vOne(out, cfg)
						cnt++
					}
				}
			}
		}
	}
	out.Stat("exhaustive_two_pipeline_configs", cnt)
}
