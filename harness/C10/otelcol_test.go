// C10 correspondence harness for package otelcol (injected by overlay; in-package).
// The REAL Collector is run: NewCollector + Run with a generated configuration served by an
// in-memory confmap provider (validated, unmarshalled and built by the collector itself);
// Run starts the service through setupConfigurationComponents — the code that shuts the service
// down after a failed start — and, when start-up succeeded, the harness requests a shutdown
// (Collector.Shutdown) and waits for Run to return.  Failures injected at every single position
// plus random multi-failure assignments.  Case kind 3 (same model as kind 2, has_conf always
// true: the collector always hands its effective configuration to the service).
// Direct oracle: vCase.oracle (common.go.tmpl) + collector state Closed after Run returns.
package otelcol

import (
	"context"
	"fmt"
	"testing"
	"time"

	"go.uber.org/zap"
	"go.uber.org/zap/zapcore"

	"go.opentelemetry.io/collector/component"
	"go.opentelemetry.io/collector/confmap"
	"go.opentelemetry.io/collector/connector"
	"go.opentelemetry.io/collector/exporter"
	"go.opentelemetry.io/collector/extension"
	"go.opentelemetry.io/collector/processor"
	"go.opentelemetry.io/collector/receiver"
)

type vMemProvider struct{ conf map[string]any }

func (p *vMemProvider) Retrieve(context.Context, string, confmap.WatcherFunc) (*confmap.Retrieved, error) {
	return confmap.NewRetrieved(p.conf)
}
func (p *vMemProvider) Scheme() string                 { return "vmem" }
func (p *vMemProvider) Shutdown(context.Context) error { return nil }

func vConfMap(topo vTopo, specs []vExtSpec, rng *vRand) map[string]any {
	rc, pc, ec, cc := topo.componentConfigs()
	sect := func(m map[component.ID]component.Config) map[string]any {
		r := map[string]any{}
		for id := range m {
			r[id.String()] = nil
		}
		return r
	}
	xs := map[string]any{}
	var xl []any
	for _, s := range specs {
		xs[vExtID(s.idx).String()] = nil
		xl = append(xl, vExtID(s.idx).String())
	}
	for i := len(xl) - 1; i > 0; i-- {
		j := rng.Intn(i + 1)
		xl[i], xl[j] = xl[j], xl[i]
	}
	strs := func(l []string) []any {
		r := make([]any, len(l))
		for i, s := range l {
			r[i] = s
		}
		return r
	}
	pipes := map[string]any{}
	for _, p := range topo.pipes {
		pm := map[string]any{"receivers": strs(p.recv), "exporters": strs(p.exp)}
		if len(p.proc) > 0 {
			pm["processors"] = strs(p.proc)
		}
		pipes[p.id().String()] = pm
	}
	svc := map[string]any{
		"pipelines": pipes,
		"telemetry": map[string]any{
			"metrics": map[string]any{"level": "none"},
			"logs":    map[string]any{"level": "error"},
		},
	}
	if len(xl) > 0 {
		svc["extensions"] = xl
	}
	conf := map[string]any{"receivers": sect(rc), "exporters": sect(ec), "service": svc}
	if len(pc) > 0 {
		conf["processors"] = sect(pc)
	}
	if len(cc) > 0 {
		conf["connectors"] = sect(cc)
	}
	if len(xs) > 0 {
		conf["extensions"] = xs
	}
	return conf
}

func TestVerifC10Otelcol(t *testing.T) {
	out := vOpen()
	defer out.Close()
	rng := vNewRand(1013)
	ntopo := vBudget(7, 10)
	for ti := 0; ti < ntopo; ti++ {
		topo := vGenTopo(rng, true)
		// config validation wants at least one regular or connector receiver per pipeline: the generator guarantees it
		specs := vGenExts(rng, 4, true)
		keys, sedges := topo.specEdges(false)
		idOf := map[string]int{}
		var comps []int
		for i, k := range keys {
			idOf[k] = i
			comps = append(comps, i)
		}
		var edges [][2]int
		for _, e := range sedges {
			edges = append(edges, [2]int{idOf[e[0]], idOf[e[1]]})
		}
		var exts, cfgw, pipew []int
		var deps [][2]int
		for _, s := range specs {
			exts = append(exts, s.idx)
			for _, d := range s.deps {
				deps = append(deps, [2]int{d, s.idx})
			}
			if s.cfgW {
				cfgw = append(cfgw, s.idx)
			}
			if s.pw {
				pipew = append(pipew, s.idx)
			}
		}
		out.Stat(fmt.Sprintf("pipelines=%d", len(topo.pipes)), 1)
		out.Stat(fmt.Sprintf("comps~%d", len(comps)/4*4), 1)
		out.Stat(fmt.Sprintf("exts=%d", len(exts)), 1)
		for _, pl := range vPlans(rng, comps, exts, cfgw, pipew, 4) {
			w := &vWorld{}
			conf := vConfMap(topo, specs, rng)
			// failures must be armed when the instance is created (the collector builds and starts in one call)
			armC := func(c *vComp) {
				i, ok := idOf[c.key]
				if !ok {
					return
				}
				c.idx = i
				c.failStart = vHas(pl.fcStart, i)
				c.failStop = vHas(pl.fcStop, i)
				c.sens = vHas(pl.cx.cSens, i)
			}
			armX := func(e *vExtBase) {
				e.failStart = vHas(pl.fxStart, e.idx)
				e.failStop = vHas(pl.fxStop, e.idx)
				e.failCfg = vHas(pl.fCfg, e.idx)
				e.failReady = vHas(pl.fReady, e.idx)
				e.failNotReady = vHas(pl.fNotReady, e.idx)
				e.sens = vHas(pl.cx.xSens, e.idx)
			}
			w.onComp, w.onExt = armC, armX
			set := CollectorSettings{
				BuildInfo: component.NewDefaultBuildInfo(),
				Factories: func() (Factories, error) {
					return Factories{
						Receivers:  map[component.Type]receiver.Factory{vRecvType: w.recvFactory()},
						Processors: map[component.Type]processor.Factory{vProcType: w.procFactory()},
						Exporters:  map[component.Type]exporter.Factory{vExpType: w.expFactory()},
						Connectors: map[component.Type]connector.Factory{vConnType: w.connFactory()},
						Extensions: map[component.Type]extension.Factory{vExtType: w.extFactory(specs)},
					}, nil
				},
				ConfigProviderSettings: ConfigProviderSettings{ResolverSettings: confmap.ResolverSettings{
					URIs: []string{"vmem:x"},
					ProviderFactories: []confmap.ProviderFactory{confmap.NewProviderFactory(func(confmap.ProviderSettings) confmap.Provider {
						return &vMemProvider{conf: conf}
					})},
				}},
				LoggingOptions: []zap.Option{zap.WrapCore(func(zapcore.Core) zapcore.Core { return zapcore.NewNopCore() })},
				SkipSettingGRPCLogger:   true,
				DisableGracefulShutdown: true,
			}
			col, err := NewCollector(set)
			if err != nil {
				out.Oracle("harness", "(3, ([], []))", "NewCollector: "+err.Error())
				continue
			}
			// context scenario at this level: the plans with a context scenario end the run by
			// cancelling Run's context instead of calling Shutdown(); the collector must then shut the
			// service down under a LIVE context (collector.go: col.shutdown(context.Background())), so
			// context-sensitive components see no error.  The component-level context behaviour
			// (cancellers, contexts done beforehand) is exercised by the service / graph harnesses.
			cancelRun := pl.cx.any()
			runCtx, runCancel := context.WithCancel(context.Background())
			done := make(chan error, 1)
			go func() { done <- col.Run(runCtx) }()
			var errAll error
			finished, asked := false, false
			deadline := time.Now().Add(60 * time.Second)
			for !finished {
				select {
				case errAll = <-done:
					finished = true
				default:
					if !asked && col.GetState() == StateRunning {
						if cancelRun {
							runCancel()
						} else {
							col.Shutdown()
						}
						asked = true
					}
					if time.Now().After(deadline) {
						out.Oracle("harness", "(3, ([], []))", "Collector.Run did not return within 60 s")
						finished = true
					}
					time.Sleep(200 * time.Microsecond)
				}
			}
			runCancel()
			if cancelRun {
				out.Stat("ended-by-context-cancel", 1)
			}
			w.mu.Lock()
			if w.ret == nil {
				w.ret = map[[2]int]bool{}
			}
			log := append([][2]int{}, w.log...)
			ncomp, nonKey := len(w.comps), 0
			for _, c := range w.comps {
				if c.idx < 0 {
					nonKey++
				}
			}
			w.mu.Unlock()
			c := &vCase{kind: 3, comps: comps, exts: exts, cfgw: cfgw, pipew: pipew, edges: edges, specEdges: edges,
				deps: deps, hasConf: true, fxStart: pl.fxStart, fxStop: pl.fxStop, fcStart: pl.fcStart, fcStop: pl.fcStop,
				fCfg: pl.fCfg, fReady: pl.fReady, fNotReady: pl.fNotReady, log: log, ret: w.ret,
				cx: vCtx{xSens: pl.cx.xSens, cSens: pl.cx.cSens}}
			c.errs = vErrList(errAll)
			if ncomp != len(comps) || nonKey > 0 {
				out.Oracle("graph-edges", c.term(), fmt.Sprintf("%d component instances created (%d unexpected), the configuration implies %d; error: %v", ncomp, nonKey, len(comps), errAll))
				continue
			}
			// the shutdown phase starts at the first NotReady / Stop event
			nStart := len(log)
			for i, e := range log {
				if e[0] == tNotReady || e[0] == tCStop || e[0] == tXStop {
					nStart = i
					break
				}
			}
			c.extOrder = vRev(vSeq(log[nStart:], tXStop))
			started := vSeq(log[:nStart], tCStart)
			var unstarted []int
			for _, n := range comps {
				if !vHas(started, n) {
					unstarted = append(unstarted, n)
				}
			}
			so, ok1 := vComplete(comps, edges, vRev(started), unstarted)
			po, ok2 := vComplete(comps, edges, vSeq(log[nStart:], tCStop), nil)
			c.startOrder, c.stopOrder = so, po
			term := c.term()
			if !ok1 {
				out.Oracle("start-order", term, "the observed start sequence is not the reverse of any topological order of the data-flow relation")
			}
			if !ok2 {
				out.Oracle("stop-order", term, "the observed shutdown sequence is not a topological order of the data-flow relation")
			}
			if (errAll != nil) != (len(c.errs) > 0) {
				out.Oracle("start-failure", term, fmt.Sprintf("unexpected error: %v", errAll))
			}
			if col.GetState() != StateClosed {
				out.Oracle("start-failure", term, fmt.Sprintf("collector state %v after Run returned", col.GetState()))
			}
			c.oracle(out)
			out.Case(true, term)
			if asked {
				out.Stat("start=ok", 1)
			} else {
				out.Stat("start=failed", 1)
			}
		}
	}
}
