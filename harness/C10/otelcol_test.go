// C10 correspondence harness for package otelcol (injected by overlay; in-package).
// The REAL Collector is run: NewCollector + Run with a generated configuration served by an
// in-memory confmap provider (validated, unmarshalled and built by the collector itself);
// Run starts the service through setupConfigurationComponents — the code that shuts the service
// down after a failed start — and, when start-up succeeded, the harness requests a shutdown
// (Collector.Shutdown) and waits for Run to return.  Failures injected at every single position
// plus random multi-failure assignments.  Case kind 3 (same model as kind 2, has_conf always
// true: the collector always hands its effective configuration to the service).
// Direct oracle: vCase.oracle (common.go.tmpl) + collector state Closed after Run returns.
package otelcol

import (
	"context"
	"fmt"
	"sync"
	"syscall"
	"testing"
	"time"

	"go.uber.org/zap"
	"go.uber.org/zap/zapcore"

	"go.opentelemetry.io/collector/component"
	"go.opentelemetry.io/collector/confmap"
	"go.opentelemetry.io/collector/connector"
	"go.opentelemetry.io/collector/exporter"
	"go.opentelemetry.io/collector/extension"
	"go.opentelemetry.io/collector/featuregate"
	"go.opentelemetry.io/collector/processor"
	"go.opentelemetry.io/collector/receiver"
)

type vMemProvider struct{ conf map[string]any }

func (p *vMemProvider) Retrieve(context.Context, string, confmap.WatcherFunc) (*confmap.Retrieved, error) {
	return confmap.NewRetrieved(p.conf)
}
func (p *vMemProvider) Scheme() string                 { return "vmem" }
func (p *vMemProvider) Shutdown(context.Context) error { return nil }

// vLastCfg: service::extensions of the last vConfMap call as configured (indices, with repetitions)
var vLastCfg []int

func vConfMap(topo vTopo, specs []vExtSpec, rng *vRand) map[string]any {
	rc, pc, ec, cc := topo.componentConfigs()
	sect := func(m map[component.ID]component.Config) map[string]any {
		r := map[string]any{}
		for id := range m {
			r[id.String()] = nil
		}
		return r
	}
	xs := map[string]any{}
	var xl []any
	for _, s := range specs {
		xs[vExtID(s.idx).String()] = nil
		xl = append(xl, vExtID(s.idx).String())
	}
	for i := len(xl) - 1; i > 0; i-- {
		j := rng.Intn(i + 1)
		xl[i], xl[j] = xl[j], xl[i]
	}
	var dxl []any
	vLastCfg = nil
	for _, i := range vDupIdx(rng, len(xl)) {
		dxl = append(dxl, xl[i])
		for _, s := range specs {
			if vExtID(s.idx).String() == xl[i].(string) {
				vLastCfg = append(vLastCfg, s.idx)
			}
		}
	}
	xl = dxl
	strs := func(l []string) []any {
		r := make([]any, len(l))
		for i, s := range l {
			r[i] = s
		}
		return r
	}
	pipes := map[string]any{}
	for _, p := range topo.pipes {
		pm := map[string]any{"receivers": strs(p.recv), "exporters": strs(p.exp)}
		if len(p.proc) > 0 {
			pm["processors"] = strs(p.proc)
		}
		pipes[p.id().String()] = pm
	}
	svc := map[string]any{
		"pipelines": pipes,
		"telemetry": map[string]any{
			"metrics": map[string]any{"level": "none"},
			"logs":    map[string]any{"level": "error"},
		},
	}
	if len(xl) > 0 {
		svc["extensions"] = xl
	}
	conf := map[string]any{"receivers": sect(rc), "exporters": sect(ec), "service": svc}
	if len(pc) > 0 {
		conf["processors"] = sect(pc)
	}
	if len(cc) > 0 {
		conf["connectors"] = sect(cc)
	}
	if len(xs) > 0 {
		conf["extensions"] = xs
	}
	return conf
}

func TestVerifC10Otelcol(t *testing.T) {
	out := vOpen()
	defer out.Close()
	// profiles pipelines are behind a feature gate in the configuration validation
	if err := featuregate.GlobalRegistry().Set("service.profilesSupport", true); err != nil {
		t.Fatal(err)
	}
	rrng := vNewRand(1016)
	for i := 0; i < vBudget(120, 10); i++ {
		vReloadRun(out, rrng)
	}
	rng := vNewRand(1013)
	ntopo := vBudget(7, 10)
	for ti := 0; ti < ntopo; ti++ {
		topo := vGenTopo(rng, true)
		// config validation wants at least one regular or connector receiver per pipeline: the generator guarantees it
		specs := vGenExts(rng, 4, true)
		keys, sedges := topo.specEdges(false)
		idOf := map[string]int{}
		var comps []int
		for i, k := range keys {
			idOf[k] = i
			comps = append(comps, i)
		}
		var edges [][2]int
		for _, e := range sedges {
			edges = append(edges, [2]int{idOf[e[0]], idOf[e[1]]})
		}
		var exts, cfgw, pipew []int
		var deps [][2]int
		for _, s := range specs {
			exts = append(exts, s.idx)
			for _, d := range s.deps {
				deps = append(deps, [2]int{d, s.idx})
			}
			if s.cfgW {
				cfgw = append(cfgw, s.idx)
			}
			if s.pw {
				pipew = append(pipew, s.idx)
			}
		}
		out.Stat(fmt.Sprintf("pipelines=%d", len(topo.pipes)), 1)
		out.Stat(fmt.Sprintf("comps~%d", len(comps)/4*4), 1)
		out.Stat(fmt.Sprintf("exts=%d", len(exts)), 1)
		for _, pl := range vPlans(rng, comps, exts, cfgw, pipew, 4) {
			w := &vWorld{}
			conf := vConfMap(topo, specs, rng)
			cfgIdx := append([]int{}, vLastCfg...)
			// failures must be armed when the instance is created (the collector builds and starts in one call)
			armC := func(c *vComp) {
				i, ok := idOf[c.key]
				if !ok {
					return
				}
				c.idx = i
				c.failStart = vHas(pl.fcStart, i)
				c.failStop = vHas(pl.fcStop, i)
				c.sens = vHas(pl.cx.cSens, i)
			}
			armX := func(e *vExtBase) {
				e.failStart = vHas(pl.fxStart, e.idx)
				e.failStop = vHas(pl.fxStop, e.idx)
				e.failCfg = vHas(pl.fCfg, e.idx)
				e.failReady = vHas(pl.fReady, e.idx)
				e.failNotReady = vHas(pl.fNotReady, e.idx)
				e.sens = vHas(pl.cx.xSens, e.idx)
			}
			w.onComp, w.onExt = armC, armX
			set := CollectorSettings{
				BuildInfo: component.NewDefaultBuildInfo(),
				Factories: func() (Factories, error) {
					return Factories{
						Receivers:  map[component.Type]receiver.Factory{vRecvType: w.recvFactory()},
						Processors: map[component.Type]processor.Factory{vProcType: w.procFactory()},
						Exporters:  map[component.Type]exporter.Factory{vExpType: w.expFactory()},
						Connectors: map[component.Type]connector.Factory{vConnType: w.connFactory()},
						Extensions: map[component.Type]extension.Factory{vExtType: w.extFactory(specs)},
					}, nil
				},
				ConfigProviderSettings: ConfigProviderSettings{ResolverSettings: confmap.ResolverSettings{
					URIs: []string{"vmem:x"},
					ProviderFactories: []confmap.ProviderFactory{confmap.NewProviderFactory(func(confmap.ProviderSettings) confmap.Provider {
						return &vMemProvider{conf: conf}
					})},
				}},
				LoggingOptions: []zap.Option{zap.WrapCore(func(zapcore.Core) zapcore.Core { return zapcore.NewNopCore() })},
				SkipSettingGRPCLogger:   true,
				DisableGracefulShutdown: true,
			}
			col, err := NewCollector(set)
			if err != nil {
				out.Oracle("harness", "(3, ([], []))", "NewCollector: "+err.Error())
				continue
			}
			// context scenario at this level: the plans with a context scenario end the run by
			// cancelling Run's context instead of calling Shutdown(); the collector must then shut the
			// service down under a LIVE context (collector.go: col.shutdown(context.Background())), so
			// context-sensitive components see no error.  The component-level context behaviour
			// (cancellers, contexts done beforehand) is exercised by the service / graph harnesses.
			cancelRun := pl.cx.any()
			runCtx, runCancel := context.WithCancel(context.Background())
			done := make(chan error, 1)
			go func() { done <- col.Run(runCtx) }()
			var errAll error
			finished, asked := false, false
			deadline := time.Now().Add(60 * time.Second)
			for !finished {
				select {
				case errAll = <-done:
					finished = true
				default:
					if !asked && col.GetState() == StateRunning {
						if cancelRun {
							runCancel()
						} else {
							col.Shutdown()
						}
						asked = true
					}
					if time.Now().After(deadline) {
						out.Oracle("harness", "(3, ([], []))", "Collector.Run did not return within 60 s")
						finished = true
					}
					time.Sleep(200 * time.Microsecond)
				}
			}
			runCancel()
			if cancelRun {
				out.Stat("ended-by-context-cancel", 1)
			}
			w.mu.Lock()
			if w.ret == nil {
				w.ret = map[[2]int]bool{}
			}
			log := append([][2]int{}, w.log...)
			ncomp, nonKey := len(w.comps), 0
			for _, c := range w.comps {
				if c.idx < 0 {
					nonKey++
				}
			}
			w.mu.Unlock()
			c := &vCase{kind: 3, comps: comps, exts: exts, cfgw: cfgw, pipew: pipew, edges: edges, specEdges: edges,
				deps: deps, hasConf: true, fxStart: pl.fxStart, fxStop: pl.fxStop, fcStart: pl.fcStart, fcStop: pl.fcStop,
				fCfg: pl.fCfg, fReady: pl.fReady, fNotReady: pl.fNotReady, log: log, ret: w.ret, iStart: cfgIdx,
				cx: vCtx{xSens: pl.cx.xSens, cSens: pl.cx.cSens}}
			c.errs = vErrList(errAll)
			if ncomp != len(comps) || nonKey > 0 {
				out.Oracle("graph-edges", c.term(), fmt.Sprintf("%d component instances created (%d unexpected), the configuration implies %d; error: %v", ncomp, nonKey, len(comps), errAll))
				continue
			}
			// the shutdown phase starts at the first NotReady / Stop event
			nStart := len(log)
			for i, e := range log {
				if e[0] == tNotReady || e[0] == tCStop || e[0] == tXStop {
					nStart = i
					break
				}
			}
			c.extOrder = vRev(vSeq(log[nStart:], tXStop))
			started := vSeq(log[:nStart], tCStart)
			var unstarted []int
			for _, n := range comps {
				if !vHas(started, n) {
					unstarted = append(unstarted, n)
				}
			}
			so, ok1 := vComplete(comps, edges, vRev(started), unstarted)
			po, ok2 := vComplete(comps, edges, vSeq(log[nStart:], tCStop), nil)
			c.startOrder, c.stopOrder = so, po
			term := c.term()
			if !ok1 {
				out.Oracle("start-order", term, "the observed start sequence is not the reverse of any topological order of the data-flow relation")
			}
			if !ok2 {
				out.Oracle("stop-order", term, "the observed shutdown sequence is not a topological order of the data-flow relation")
			}
			if (errAll != nil) != (len(c.errs) > 0) {
				out.Oracle("start-failure", term, fmt.Sprintf("unexpected error: %v", errAll))
			}
			if col.GetState() != StateClosed {
				out.Oracle("start-failure", term, fmt.Sprintf("collector state %v after Run returned", col.GetState()))
			}
			c.oracle(out)
			vExtInstances(out, term, w)
			if len(cfgIdx) > len(exts) {
				out.Stat("extensions-configured-with-repetitions", 1)
			}
			out.Case(true, term)
			if asked {
				out.Stat("start=ok", 1)
			} else {
				out.Stat("start=failed", 1)
			}
		}
	}
}

// ---- configuration reloads (case kind 6) ---------------------------------------------------------
// One Collector.Run over a SEQUENCE of configurations: the in-memory provider signals a change
// (confmap.WatcherFunc), the collector runs reloadConfiguration (Shutdown of the retiring service,
// set-up of a new one — new component instances: one generation per configuration), ... until a
// reload fails or the harness requests a shutdown.  Every generation has its own topology, extension
// set and failing calls: the retiring service's Shutdown fails (Run returns), the new service's
// Start fails (it is shut down, Run returns), several successful reloads in a row.
// Direct oracle, PER GENERATION: vCase.oracle (exactly one Shutdown of every component of every
// service that was built, order constraints, ...), never-built generations have no events, the
// generations' events do not interleave (retiring service completely down before the next starts).
type vGen struct {
	topo                     vTopo
	specs                    []vExtSpec
	idOf                     map[string]int
	comps, exts, cfgw, pipew []int
	edges, deps              [][2]int
	pl                       vFaults
	w                        *vWorld
	conf                     map[string]any
}

func vMkGen(rng *vRand) *vGen {
	g := &vGen{topo: vGenTopo(rng, true), specs: vGenExts(rng, 3, true), idOf: map[string]int{}, w: &vWorld{}}
	keys, sedges := g.topo.specEdges(false)
	for i, k := range keys {
		g.idOf[k] = i
		g.comps = append(g.comps, i)
	}
	for _, e := range sedges {
		g.edges = append(g.edges, [2]int{g.idOf[e[0]], g.idOf[e[1]]})
	}
	for _, s := range g.specs {
		g.exts = append(g.exts, s.idx)
		for _, d := range s.deps {
			g.deps = append(g.deps, [2]int{d, s.idx})
		}
		if s.cfgW {
			g.cfgw = append(g.cfgw, s.idx)
		}
		if s.pw {
			g.pipew = append(g.pipew, s.idx)
		}
	}
	g.conf = vConfMap(g.topo, g.specs, rng)
	g.w.onComp = func(c *vComp) {
		if i, ok := g.idOf[c.key]; ok {
			c.idx = i
			c.failStart, c.failStop = vHas(g.pl.fcStart, i), vHas(g.pl.fcStop, i)
		}
	}
	g.w.onExt = func(e *vExtBase) {
		e.failStart, e.failStop = vHas(g.pl.fxStart, e.idx), vHas(g.pl.fxStop, e.idx)
		e.failCfg, e.failReady, e.failNotReady = vHas(g.pl.fCfg, e.idx), vHas(g.pl.fReady, e.idx), vHas(g.pl.fNotReady, e.idx)
	}
	return g
}

// vReloadProvider serves configuration number min(calls, last) and remembers the watcher.
type vReloadProvider struct {
	mu         sync.Mutex
	confs      []map[string]any
	calls      int
	watcher    confmap.WatcherFunc
	closeFails []bool // the close function of retrieval i returns an error
	provFails  bool   // the provider's Shutdown returns an error
	closed     []int  // how often retrieval i was closed
	shutdowns  int
}

func (p *vReloadProvider) Retrieve(_ context.Context, _ string, w confmap.WatcherFunc) (*confmap.Retrieved, error) {
	p.mu.Lock()
	defer p.mu.Unlock()
	i := p.calls
	if i >= len(p.confs) {
		i = len(p.confs) - 1
	}
	p.calls++
	p.watcher = w
	for len(p.closed) <= i {
		p.closed = append(p.closed, 0)
	}
	return confmap.NewRetrieved(p.confs[i], confmap.WithRetrievedClose(func(context.Context) error {
		p.mu.Lock()
		defer p.mu.Unlock()
		p.closed[i]++
		if i < len(p.closeFails) && p.closeFails[i] {
			return fmt.Errorf("verr[9:1] close of retrieval %d failed", i)
		}
		return nil
	}))
}
func (p *vReloadProvider) Scheme() string { return "vmem" }
func (p *vReloadProvider) Shutdown(context.Context) error {
	p.mu.Lock()
	defer p.mu.Unlock()
	p.shutdowns++
	if p.provFails {
		return fmt.Errorf("verr[9:0] provider shutdown failed")
	}
	return nil
}

// how a generation's failing calls are chosen: the kind of the reload scenario
func vReloadPlans(rng *vRand, gens []*vGen) string {
	last := len(gens) - 1
	sub := func(l []int, pct int) []int {
		var r []int
		for _, x := range l {
			if rng.Intn(100) < pct {
				r = append(r, x)
			}
		}
		return r
	}
	one := func(l []int) []int {
		if len(l) == 0 {
			return nil
		}
		return []int{l[rng.Intn(len(l))]}
	}
	switch rng.Pick(3, 4, 3, 2, 2) {
	case 0: // the new service's component Start fails
		gens[last].pl.fcStart = one(gens[last].comps)
		gens[last].pl.fcStop = sub(gens[last].comps, 20)
		return "new-component-start-fails"
	case 1: // all reloads succeed; the last service may report shutdown errors
		gens[last].pl.fcStop = sub(gens[last].comps, 30)
		gens[last].pl.fxStop = sub(gens[last].exts, 30)
		return "reloads-succeed"
	case 2: // a retiring service's Shutdown returns an error: Run returns, the next generation is never built
		j := rng.Intn(last)
		if rng.Bool() || len(gens[j].exts) == 0 {
			gens[j].pl.fcStop = one(gens[j].comps)
		} else {
			gens[j].pl.fxStop = one(gens[j].exts)
		}
		return "retiring-shutdown-fails"
	case 3: // the new service's extension Start / notification fails
		g := gens[last]
		switch {
		case len(g.exts) > 0 && rng.Bool():
			g.pl.fxStart = one(g.exts)
		case len(g.cfgw) > 0:
			g.pl.fCfg = one(g.cfgw)
		case len(g.pipew) > 0:
			g.pl.fReady = one(g.pipew)
		default:
			g.pl.fcStart = one(g.comps)
		}
		return "new-extension-or-notify-fails"
	default: // random mix in every generation
		for _, g := range gens {
			g.pl.fcStart = sub(g.comps, 5)
			g.pl.fcStop = sub(g.comps, 15)
			g.pl.fxStop = sub(g.exts, 15)
			g.pl.fNotReady = sub(g.pipew, 30)
		}
		return "random"
	}
}

func vReloadRun(out *vOut, rng *vRand) {
	ngen := 1 + rng.Pick(3, 5, 3, 1)
	var gens []*vGen
	prov := &vReloadProvider{}
	for j := 0; j < ngen; j++ {
		g := vMkGen(rng)
		gens = append(gens, g)
		prov.confs = append(prov.confs, g.conf)
	}
	scenario := vReloadPlans(rng, gens)
	// the collector's surroundings fail too: the configuration provider's Shutdown, the close
	// function of a retrieved configuration (called when the configuration is re-resolved on a
	// reload and when the collector stops)
	prov.closeFails = make([]bool, ngen)
	switch rng.Pick(5, 2, 2, 1) {
	case 1:
		prov.provFails = true
	case 2:
		prov.closeFails[rng.Intn(ngen)] = true
	case 3:
		prov.provFails = true
		for j := range prov.closeFails {
			prov.closeFails[j] = rng.Intn(3) == 0
		}
	}
	// how Run's control loop is left: 0 Shutdown(), 1 cancelled Run context, 2 asynchronous error,
	// 3 the configuration provider reports a WATCH ERROR (ChangeEvent{Error}), 4 a termination signal
	stopHow := rng.Intn(5)
	sighup := rng.Bool() // reload trigger: SIGHUP or a config-watch event
	runCtx, runCancel := context.WithCancel(context.Background())
	defer runCancel()
	// one global sequence over all generations: every event is stamped
	var seqMu sync.Mutex
	var seq []int // generation of each event, in global order
	for j, g := range gens {
		j := j
		g.w.onAdd = func() {
			seqMu.Lock()
			seq = append(seq, j)
			seqMu.Unlock()
		}
	}
	var fmu sync.Mutex
	fcalls := 0
	set := CollectorSettings{
		BuildInfo: component.NewDefaultBuildInfo(),
		Factories: func() (Factories, error) {
			fmu.Lock()
			j := fcalls
			fcalls++
			fmu.Unlock()
			if j >= len(gens) {
				j = len(gens) - 1
			}
			g := gens[j]
			return Factories{
				Receivers:  map[component.Type]receiver.Factory{vRecvType: g.w.recvFactory()},
				Processors: map[component.Type]processor.Factory{vProcType: g.w.procFactory()},
				Exporters:  map[component.Type]exporter.Factory{vExpType: g.w.expFactory()},
				Connectors: map[component.Type]connector.Factory{vConnType: g.w.connFactory()},
				Extensions: map[component.Type]extension.Factory{vExtType: g.w.extFactory(g.specs)},
			}, nil
		},
		ConfigProviderSettings: ConfigProviderSettings{ResolverSettings: confmap.ResolverSettings{
			URIs: []string{"vmem:x"},
			ProviderFactories: []confmap.ProviderFactory{confmap.NewProviderFactory(func(confmap.ProviderSettings) confmap.Provider {
				return prov
			})},
		}},
		LoggingOptions:          []zap.Option{zap.WrapCore(func(zapcore.Core) zapcore.Core { return zapcore.NewNopCore() })},
		SkipSettingGRPCLogger:   true,
		DisableGracefulShutdown: true,
	}
	col, err := NewCollector(set)
	if err != nil {
		out.Oracle("harness", "(6, ([], []))", "NewCollector: "+err.Error())
		return
	}
	done := make(chan error, 1)
	go func() { done <- col.Run(runCtx) }()
	var errAll error
	finished := false
	running := 0 // generations seen Running so far
	deadline := time.Now().Add(60 * time.Second)
	for !finished {
		select {
		case errAll = <-done:
			finished = true
		default:
			fmu.Lock()
			fc := fcalls
			fmu.Unlock()
			// generation `running` is up when its factories were requested and the collector is Running
			if fc == running+1 && col.GetState() == StateRunning {
				running++
				if running < ngen {
					prov.mu.Lock()
					wf := prov.watcher
					prov.mu.Unlock()
					if sighup {
						go func() { col.signalsChannel <- syscall.SIGHUP }() // the branch Run takes on a real SIGHUP
					} else {
						go wf(&confmap.ChangeEvent{}) // configuration changed: reload
					}
				} else {
					switch stopHow {
					case 0:
						col.Shutdown()
					case 1:
						runCancel()
					case 2:
						go func() { col.asyncErrorChannel <- fmt.Errorf("asynchronous error") }()
					case 3:
						prov.mu.Lock()
						wf := prov.watcher
						prov.mu.Unlock()
						go wf(&confmap.ChangeEvent{Error: fmt.Errorf("watching the configuration failed")})
					default:
						go func() { col.signalsChannel <- syscall.SIGTERM }()
					}
				}
			}
			if time.Now().After(deadline) {
				out.Oracle("harness", "(6, ([], []))", "Collector.Run with reloads did not return within 60 s")
				finished = true
			}
			time.Sleep(200 * time.Microsecond)
		}
	}
	// per generation case + oracle
	var cases []*vCase
	lastBuilt := -1
	for j, g := range gens {
		g.w.mu.Lock()
		log := append([][2]int{}, g.w.log...)
		ret := g.w.ret
		nc, bad := len(g.w.comps), 0
		for _, c := range g.w.comps {
			if c.idx < 0 {
				bad++
			}
		}
		g.w.mu.Unlock()
		if ret == nil {
			ret = map[[2]int]bool{}
		}
		c := &vCase{kind: 2, comps: g.comps, exts: g.exts, cfgw: g.cfgw, pipew: g.pipew, edges: g.edges, specEdges: g.edges,
			deps: g.deps, hasConf: true, fxStart: g.pl.fxStart, fxStop: g.pl.fxStop, fcStart: g.pl.fcStart, fcStop: g.pl.fcStop,
			fCfg: g.pl.fCfg, fReady: g.pl.fReady, fNotReady: g.pl.fNotReady, log: log, ret: ret}
		if prov.closeFails[j] {
			c.iStart = []int{1} // L[16]: this generation's close function fails
		}
		if j == 0 {
			// L[17] of generation 0: [the provider's Shutdown fails; how Run's loop is left]
			c.iStop = []int{0, stopHow}
			if prov.provFails {
				c.iStop[0] = 1
			}
		}
		cases = append(cases, c)
		if nc == 0 && len(log) == 0 {
			continue // never built
		}
		lastBuilt = j
		if nc != len(g.comps) || bad > 0 {
			out.Oracle("graph-edges", c.term(), fmt.Sprintf("generation %d: %d component instances (%d unexpected), configuration implies %d", j, nc, bad, len(g.comps)))
		}
		nStart := len(log)
		for i, e := range log {
			if e[0] == tNotReady || e[0] == tCStop || e[0] == tXStop {
				nStart = i
				break
			}
		}
		c.extOrder = vRev(vSeq(log[nStart:], tXStop))
		started := vSeq(log[:nStart], tCStart)
		var unstarted []int
		for _, n := range g.comps {
			if !vHas(started, n) {
				unstarted = append(unstarted, n)
			}
		}
		c.startOrder, _ = vComplete(g.comps, g.edges, vRev(started), unstarted)
		c.stopOrder, _ = vComplete(g.comps, g.edges, vSeq(log[nStart:], tCStop), nil)
	}
	if lastBuilt >= 0 {
		cases[lastBuilt].errs = vErrList(errAll)
	}
	term := vReloadTerm(cases)
	for j, c := range cases {
		if j > lastBuilt {
			continue
		}
		// the property, per service that was built (errors: only the last one's are returned by Run)
		cc := *c
		if j < lastBuilt {
			// an earlier generation retired without error, or Run would have returned there
			cc.errs = nil
		}
		cc.oracleWithTerm(out, term, fmt.Sprintf("generation %d: ", j))
	}
	// generations do not interleave
	for i := 1; i < len(seq); i++ {
		if seq[i] < seq[i-1] {
			out.Oracle("reload-order", term, fmt.Sprintf("an event of generation %d after an event of generation %d", seq[i], seq[i-1]))
			break
		}
	}
	if (errAll != nil) != (lastBuilt >= 0 && len(cases[lastBuilt].errs) > 0) {
		out.Oracle("start-failure", term, fmt.Sprintf("unexpected error from Run: %v", errAll))
	}
	// (the collector's own State is not part of this property: after a FAILED reload the pinned
	// tree leaves it at Closing / Starting when Run returns; recorded as a histogram only)
	out.Stat(fmt.Sprintf("state-after-run=%v", col.GetState()), 1)
	out.Case(true, term)
	out.Stat("reload="+scenario, 1)
	out.Stat(fmt.Sprintf("stop-by=%d", stopHow), 1)
	if ngen > 1 {
		out.Stat(fmt.Sprintf("reload-trigger-sighup=%v", sighup), 1)
	}
	nprov := 0
	for _, e := range vErrList(errAll) {
		if e[0] == 9 {
			nprov++
		}
	}
	out.Stat(fmt.Sprintf("provider-errors-reported=%d", nprov), 1)
	out.Stat(fmt.Sprintf("reload-generations-built=%d-of-%d", lastBuilt+1, ngen), 1)
}
