// C10 correspondence harness for internal/e2e (injected by overlay) — the only module of the
// repository that has both `service` and `internal/sharedcomponent`.
// A REAL service (service.New / Start / Shutdown, driven as collector.go drives it) whose receivers
// of type "vs" are SHARED BETWEEN SIGNALS through the real sharedcomponent.Map / Component, the way
// the OTLP receiver shares one server between its traces, metrics and logs instances: the
// component graph has one node per (signal, id), every node is a thin wrapper that logs the
// node-level call and forwards it to the shared Component; the inner component logs (7, key) /
// (8, key) and fails on demand.  Case kind 5 (see coq/C10/Harness.v check_shared_service):
//   model = the life cycle of kind 2 on the node level + the once-guard model per key; the
//   wrapper's returned errors (induced node failures) are recomputed by the model and compared.
// Direct oracle: vCase.oracle on the node level; per key at most one inner Start, exactly one
// inner Shutdown, although the component is a node of several pipelines / signals.
package e2e

import (
	"context"
	"fmt"
	"testing"

	"go.uber.org/zap"
	"go.uber.org/zap/zapcore"

	"go.opentelemetry.io/collector/component"
	"go.opentelemetry.io/collector/config/configtelemetry"
	"go.opentelemetry.io/collector/confmap"
	"go.opentelemetry.io/collector/connector"
	"go.opentelemetry.io/collector/consumer"
	"go.opentelemetry.io/collector/consumer/xconsumer"
	"go.opentelemetry.io/collector/exporter"
	"go.opentelemetry.io/collector/extension"
	"go.opentelemetry.io/collector/internal/sharedcomponent"
	"go.opentelemetry.io/collector/processor"
	"go.opentelemetry.io/collector/receiver"
	"go.opentelemetry.io/collector/receiver/xreceiver"
	"go.opentelemetry.io/collector/service"
	"go.opentelemetry.io/collector/service/extensions"
	"go.opentelemetry.io/collector/service/telemetry"
)

var vSharedType = component.MustNewType("vs")

type vInner struct {
	w         *vWorld
	k         int
	failStart bool
	failStop  bool
}

func (i *vInner) Start(context.Context, component.Host) error {
	i.w.add(7, i.k)
	if i.failStart {
		return fmt.Errorf("inner start of key %d failed", i.k)
	}
	return nil
}

func (i *vInner) Shutdown(context.Context) error {
	i.w.add(8, i.k)
	if i.failStop {
		return fmt.Errorf("inner shutdown of key %d failed", i.k)
	}
	return nil
}

// vSharedNode: what the factory returns for one (signal, id): the graph node's component.
type vSharedNode struct {
	w        *vWorld
	key      string
	k        int
	idx      int
	sc       *sharedcomponent.Component[*vInner]
	startErr bool
	stopErr  bool
}

func (n *vSharedNode) Start(ctx context.Context, host component.Host) error {
	n.w.add(tCStart, n.idx)
	if err := n.sc.Start(ctx, host); err != nil {
		n.startErr = true
		return fmt.Errorf("verr[%d:%d] (%v)", tCStart, n.idx, err)
	}
	return nil
}

func (n *vSharedNode) Shutdown(ctx context.Context) error {
	n.w.add(tCStop, n.idx)
	if err := n.sc.Shutdown(ctx); err != nil {
		n.stopErr = true
		return fmt.Errorf("verr[%d:%d] (%v)", tCStop, n.idx, err)
	}
	return nil
}

type vSharedWorld struct {
	w      *vWorld
	m      *sharedcomponent.Map[string, *vInner]
	keyOf  map[string]int // receiver ID string -> key
	inners map[int]*vInner
	nodes  []*vSharedNode
}

func (sw *vSharedWorld) node(sig string, id component.ID) (*vSharedNode, error) {
	k := sw.keyOf[id.String()]
	sc, err := sw.m.LoadOrStore(id.String(), func() (*vInner, error) {
		in := &vInner{w: sw.w, k: k}
		sw.inners[k] = in
		return in, nil
	})
	if err != nil {
		return nil, err
	}
	n := &vSharedNode{w: sw.w, key: "r|" + sig + "|" + id.String(), k: k, idx: -1, sc: sc}
	sw.nodes = append(sw.nodes, n)
	return n, nil
}

func (sw *vSharedWorld) factory() receiver.Factory {
	return xreceiver.NewFactory(vSharedType, vDefCfg,
		xreceiver.WithProfiles(func(_ context.Context, s receiver.Settings, _ component.Config, _ xconsumer.Profiles) (xreceiver.Profiles, error) {
			return sw.node("profiles", s.ID)
		}, vStab),
		xreceiver.WithTraces(func(_ context.Context, s receiver.Settings, _ component.Config, _ consumer.Traces) (receiver.Traces, error) {
			return sw.node("traces", s.ID)
		}, vStab),
		xreceiver.WithMetrics(func(_ context.Context, s receiver.Settings, _ component.Config, _ consumer.Metrics) (receiver.Metrics, error) {
			return sw.node("metrics", s.ID)
		}, vStab),
		xreceiver.WithLogs(func(_ context.Context, s receiver.Settings, _ component.Config, _ consumer.Logs) (receiver.Logs, error) {
			return sw.node("logs", s.ID)
		}, vStab))
}

func TestVerifC10E2E(t *testing.T) {
	out := vOpen()
	defer out.Close()
	rng := vNewRand(1015)
	ntopo := vBudget(10, 10)
	for ti := 0; ti < ntopo; ti++ {
		topo := vGenTopo(rng, true)
		// at least two pipelines of different signals share a receiver id; then turn a random
		// non-empty subset of the regular receiver ids into shared ones (type vs)
		if len(topo.pipes) >= 2 && rng.Intn(5) != 0 {
			sigs := []string{"traces", "metrics", "logs", "profiles"}
			rng.Intn(1)
			if rng.Intn(3) == 0 { // sometimes the profiles signal takes part in the sharing
				sigs[rng.Intn(3)] = "profiles"
			}
			for pi := 0; pi < len(topo.pipes) && pi < 3; pi++ {
				if pi < 2 || rng.Intn(2) == 0 {
					topo.pipes[pi].sig = sigs[pi]
					topo.pipes[pi].recv = append(topo.pipes[pi].recv, "vr/a")
				}
			}
		}
		for pi := range topo.pipes { // remove duplicates introduced above
			seen := map[string]bool{}
			var r []string
			for _, x := range topo.pipes[pi].recv {
				if !seen[x] {
					seen[x] = true
					r = append(r, x)
				}
			}
			topo.pipes[pi].recv = r
		}
		ren := map[string]string{}
		for _, id := range []string{"vr/a", "vr/b", "vr/c"} {
			if id == "vr/a" || rng.Intn(2) == 0 {
				ren[id] = "vs/" + id[3:]
			}
		}
		keyOf := map[string]int{}
		for pi := range topo.pipes {
			for ri, r := range topo.pipes[pi].recv {
				if n, ok := ren[r]; ok {
					topo.pipes[pi].recv[ri] = n
					if _, ok := keyOf[n]; !ok {
						keyOf[n] = len(keyOf)
					}
				}
			}
		}
		specs := vGenExts(rng, 3, true)
		keys, sedges := topo.specEdges(false)
		idOf := map[string]int{}
		var comps, plain []int
		var shared [][2]int
		for i, k := range keys {
			idOf[k] = i
			comps = append(comps, i)
			isShared := false
			for id, key := range keyOf {
				if len(k) > 2 && k[:2] == "r|" && len(k) >= len(id) && k[len(k)-len(id):] == id {
					shared = append(shared, [2]int{i, key})
					isShared = true
				}
			}
			if !isShared {
				plain = append(plain, i)
			}
		}
		var edges [][2]int
		for _, e := range sedges {
			edges = append(edges, [2]int{idOf[e[0]], idOf[e[1]]})
		}
		var exts, cfgw, pipew []int
		var deps [][2]int
		for _, s := range specs {
			exts = append(exts, s.idx)
			for _, d := range s.deps {
				deps = append(deps, [2]int{d, s.idx})
			}
			if s.cfgW {
				cfgw = append(cfgw, s.idx)
			}
			if s.pw {
				pipew = append(pipew, s.idx)
			}
		}
		var allKeys []int
		for _, k := range keyOf {
			allKeys = append(allKeys, k)
		}
		nodesPerKey := map[int]int{}
		for _, p := range shared {
			nodesPerKey[p[1]]++
		}
		for _, n := range nodesPerKey {
			out.Stat(fmt.Sprintf("nodes-per-shared-key=%d", n), 1)
		}
		out.Stat(fmt.Sprintf("shared-keys=%d", len(keyOf)), 1)
		// plans: the usual ones on the non-shared components and the extensions; inner failures:
		// every single key's Start / Shutdown, and random ones mixed into the other plans
		type plan struct {
			f              vFaults
			iStart, iStop []int
		}
		var plans []plan
		for _, f := range vPlans(rng, plain, exts, cfgw, pipew, 5) {
			p := plan{f: f}
			for _, k := range allKeys {
				if rng.Intn(6) == 0 {
					p.iStart = append(p.iStart, k)
				}
				if rng.Intn(4) == 0 {
					p.iStop = append(p.iStop, k)
				}
			}
			plans = append(plans, p)
		}
		for _, k := range allKeys {
			plans = append(plans, plan{iStart: []int{k}}, plan{iStop: []int{k}}, plan{iStart: []int{k}, iStop: []int{k}})
		}
		for _, pl := range plans {
			w := &vWorld{}
			sw := &vSharedWorld{w: w, m: sharedcomponent.NewMap[string, *vInner](), keyOf: keyOf, inners: map[int]*vInner{}}
			rc, pc, ec, cc := topo.componentConfigs()
			xc := map[component.ID]component.Config{}
			var xcfg extensions.Config
			for _, s := range specs {
				xc[vExtID(s.idx)] = vDefCfg()
				xcfg = append(xcfg, vExtID(s.idx))
			}
			hasConf := rng.Intn(3) != 0
			set := service.Settings{
				BuildInfo:           component.NewDefaultBuildInfo(),
				ReceiversConfigs:    rc,
				ReceiversFactories:  map[component.Type]receiver.Factory{vRecvType: w.recvFactory(), vSharedType: sw.factory()},
				ProcessorsConfigs:   pc,
				ProcessorsFactories: map[component.Type]processor.Factory{vProcType: w.procFactory()},
				ExportersConfigs:    ec,
				ExportersFactories:  map[component.Type]exporter.Factory{vExpType: w.expFactory()},
				ConnectorsConfigs:   cc,
				ConnectorsFactories: map[component.Type]connector.Factory{vConnType: w.connFactory()},
				ExtensionsConfigs:   xc,
				ExtensionsFactories: map[component.Type]extension.Factory{vExtType: w.extFactory(specs)},
				AsyncErrorChannel:   make(chan error, 16),
				LoggingOptions: []zap.Option{zap.WrapCore(func(zapcore.Core) zapcore.Core {
					return zapcore.NewNopCore()
				})},
			}
			if hasConf {
				set.CollectorConf = confmap.New()
			}
			cfg := service.Config{
				Extensions: xcfg,
				Pipelines:  topo.pipelineConfigs(),
				Telemetry: telemetry.Config{
					Logs: telemetry.LogsConfig{Level: zapcore.ErrorLevel, Encoding: "console",
						OutputPaths: []string{"stderr"}, ErrorOutputPaths: []string{"stderr"}},
					Metrics: telemetry.MetricsConfig{Level: configtelemetry.LevelNone},
				},
			}
			srv, err := service.New(context.Background(), set, cfg)
			if err != nil {
				out.Oracle("harness", "(5, ([], []))", "service.New: "+err.Error())
				continue
			}
			problem := ""
			seen := map[int]bool{}
			byIdx := map[int]*vComp{}
			for _, c := range w.comps {
				i, ok := idOf[c.key]
				if !ok || seen[i] {
					problem = "component instance " + c.key + " unexpected or created twice"
					continue
				}
				seen[i] = true
				c.idx = i
				byIdx[i] = c
			}
			for _, n := range sw.nodes {
				i, ok := idOf[n.key]
				if !ok || seen[i] {
					problem = "shared node " + n.key + " unexpected or created twice"
					continue
				}
				seen[i] = true
				n.idx = i
			}
			xByIdx := map[int]*vExtBase{}
			for _, e := range w.exts {
				xByIdx[e.idx] = e
			}
			if problem != "" || len(seen) != len(comps) || len(xByIdx) != len(exts) || len(sw.inners) != len(keyOf) {
				out.Oracle("graph-edges", "(5, ([], []))", fmt.Sprintf("%s (%d of %d instances, %d of %d inner components)", problem, len(seen), len(comps), len(sw.inners), len(keyOf)))
				_ = srv.Shutdown(context.Background())
				continue
			}
			for _, n := range pl.f.fcStart {
				byIdx[n].failStart = true
			}
			for _, n := range pl.f.fcStop {
				byIdx[n].failStop = true
			}
			for _, n := range pl.f.fxStart {
				xByIdx[n].failStart = true
			}
			for _, n := range pl.f.fxStop {
				xByIdx[n].failStop = true
			}
			for _, n := range pl.f.fCfg {
				xByIdx[n].failCfg = true
			}
			for _, n := range pl.f.fReady {
				xByIdx[n].failReady = true
			}
			for _, n := range pl.f.fNotReady {
				xByIdx[n].failNotReady = true
			}
			for _, k := range pl.iStart {
				sw.inners[k].failStart = true
			}
			for _, k := range pl.iStop {
				sw.inners[k].failStop = true
			}
			pl.f.cx.arm(byIdx, xByIdx)
			errStart, errAll, nStart := vRunLifetime(w, pl.f.cx, srv.Start, srv.Shutdown)
			if w.ret == nil {
				w.ret = map[[2]int]bool{}
			}
			if pl.f.cx.any() {
				out.Stat("ctx-scenario", 1)
			}
			// induced node-level failures of the shared wrappers
			fcStart := append([]int{}, pl.f.fcStart...)
			fcStop := append([]int{}, pl.f.fcStop...)
			for _, n := range sw.nodes {
				if n.startErr {
					fcStart = append(fcStart, n.idx)
					w.ret[[2]int{tCStart, n.idx}] = true
				}
				if n.stopErr {
					fcStop = append(fcStop, n.idx)
					w.ret[[2]int{tCStop, n.idx}] = true
				}
			}
			var nodeLog, startNodeLog [][2]int
			for i, e := range w.log {
				if e[0] < 7 {
					nodeLog = append(nodeLog, e)
					if i < nStart {
						startNodeLog = append(startNodeLog, e)
					}
				}
			}
			c := &vCase{kind: 5, comps: comps, exts: exts, cfgw: cfgw, pipew: pipew, edges: edges, specEdges: edges,
				deps: deps, hasConf: hasConf, fxStart: pl.f.fxStart, fxStop: pl.f.fxStop, fcStart: fcStart, fcStop: fcStop,
				fCfg: pl.f.fCfg, fReady: pl.f.fReady, fNotReady: pl.f.fNotReady, log: w.log,
				iStart: pl.iStart, iStop: pl.iStop, shared: shared, cx: pl.f.cx, ret: w.ret}
			c.errs = vErrList(errAll)
			c.extOrder = vRev(vSeq(nodeLog[len(startNodeLog):], tXStop))
			started := vSeq(startNodeLog, tCStart)
			var unstarted []int
			for _, n := range comps {
				if !vHas(started, n) {
					unstarted = append(unstarted, n)
				}
			}
			so, ok1 := vComplete(comps, edges, vRev(started), unstarted)
			po, ok2 := vComplete(comps, edges, vSeq(nodeLog[len(startNodeLog):], tCStop), nil)
			c.startOrder, c.stopOrder = so, po
			term := c.term()
			if !ok1 {
				out.Oracle("start-order", term, "the observed start sequence is not the reverse of any topological order of the data-flow relation")
			}
			if !ok2 {
				out.Oracle("stop-order", term, "the observed shutdown sequence is not a topological order of the data-flow relation")
			}
			// node-level oracle on the node-level log
			cn := *c
			cn.log = nodeLog
			cn.oracle(out)
			// the shared clause: per key at most one inner Start, exactly one inner Shutdown
			for id, k := range keyOf {
				is, ip := 0, 0
				for _, e := range w.log {
					if e[0] == 7 && e[1] == k {
						is++
					}
					if e[0] == 8 && e[1] == k {
						ip++
					}
				}
				if is > 1 || ip != 1 {
					out.Oracle("shared", term, fmt.Sprintf("shared receiver %s (a node of %d pipelines/signals): inner component started %d times, shut down %d times", id, nodesPerKey[k], is, ip))
				}
				nodeStarted := false
				for _, p := range shared {
					if p[1] == k && vHas(started, p[0]) {
						nodeStarted = true
					}
				}
				if nodeStarted != (is == 1) {
					out.Oracle("shared", term, fmt.Sprintf("shared receiver %s: a node started = %v but inner starts = %d", id, nodeStarted, is))
				}
			}
			out.Case(true, term)
			if errStart != nil {
				out.Stat("start=failed", 1)
			} else {
				out.Stat("start=ok", 1)
			}
			if len(pl.iStart) > 0 {
				out.Stat("inner-start-failure", 1)
			}
			if len(pl.iStop) > 0 {
				out.Stat("inner-stop-failure", 1)
			}
		}
	}
}
