// C10 correspondence harness for package service (injected by overlay; in-package).
// A REAL service is created with service.New from a generated configuration (pipelines with
// shared receivers/exporters and connectors; extensions with dependency declarations, config
// watchers and pipeline watchers) and driven exactly as otelcol/collector.go drives it:
//     err := srv.Start(ctx); if err != nil { err = multierr.Combine(err, srv.Shutdown(ctx)) }
//     else { ... ; err = srv.Shutdown(ctx) }
// with failures injected at every single Start / Shutdown / notification position plus random
// multi-failure assignments.  Case kind 2:
//   model input = component instances and the CONFIGURATION-derived data-flow edges, extensions and
//                 dependency pairs, watcher sets, the orders read from the log (extension order =
//                 reverse of the extension shutdown sequence; pipeline orders completed from the
//                 start / shutdown sequences), the failing calls
//   observation = the global event log and the injected errors carried by the returned error
// Direct oracle: vCase.oracle (common.go.tmpl).
package service

import (
	"context"
	"fmt"
	"testing"

	"go.uber.org/zap"
	"go.uber.org/zap/zapcore"

	"go.opentelemetry.io/collector/component"
	"go.opentelemetry.io/collector/config/configtelemetry"
	"go.opentelemetry.io/collector/confmap"
	"go.opentelemetry.io/collector/connector"
	"go.opentelemetry.io/collector/exporter"
	"go.opentelemetry.io/collector/extension"
	"go.opentelemetry.io/collector/processor"
	"go.opentelemetry.io/collector/receiver"
	"go.opentelemetry.io/collector/service/extensions"
	"go.opentelemetry.io/collector/service/telemetry"
)

// vLastCfg: service::extensions of the last vNewService call as configured (indices, with repetitions)
var vLastCfg []int

func vNewService(rng *vRand, topo vTopo, specs []vExtSpec, hasConf bool) (*vWorld, *Service, error) {
	w := &vWorld{}
	rc, pc, ec, cc := topo.componentConfigs()
	xc := map[component.ID]component.Config{}
	var xcfg extensions.Config
	for _, s := range specs {
		xc[vExtID(s.idx)] = vDefCfg()
		xcfg = append(xcfg, vExtID(s.idx))
	}
	for i := len(xcfg) - 1; i > 0; i-- {
		j := rng.Intn(i + 1)
		xcfg[i], xcfg[j] = xcfg[j], xcfg[i]
	}
	var dcfg extensions.Config
	vLastCfg = nil
	for _, i := range vDupIdx(rng, len(xcfg)) {
		dcfg = append(dcfg, xcfg[i])
		for _, s := range specs {
			if vExtID(s.idx) == xcfg[i] {
				vLastCfg = append(vLastCfg, s.idx)
			}
		}
	}
	xcfg = dcfg
	set := Settings{
		BuildInfo:           component.NewDefaultBuildInfo(),
		ReceiversConfigs:    rc,
		ReceiversFactories:  map[component.Type]receiver.Factory{vRecvType: w.recvFactory()},
		ProcessorsConfigs:   pc,
		ProcessorsFactories: map[component.Type]processor.Factory{vProcType: w.procFactory()},
		ExportersConfigs:    ec,
		ExportersFactories:  map[component.Type]exporter.Factory{vExpType: w.expFactory()},
		ConnectorsConfigs:   cc,
		ConnectorsFactories: map[component.Type]connector.Factory{vConnType: w.connFactory()},
		ExtensionsConfigs:   xc,
		ExtensionsFactories: map[component.Type]extension.Factory{vExtType: w.extFactory(specs)},
		AsyncErrorChannel:   make(chan error, 16),
		LoggingOptions: []zap.Option{zap.WrapCore(func(zapcore.Core) zapcore.Core {
			return zapcore.NewNopCore()
		})},
	}
	if hasConf {
		set.CollectorConf = confmap.New()
	}
	cfg := Config{
		Extensions: xcfg,
		Pipelines:  topo.pipelineConfigs(),
		Telemetry: telemetry.Config{
			Logs: telemetry.LogsConfig{
				Level:            zapcore.ErrorLevel,
				Encoding:         "console",
				OutputPaths:      []string{"stderr"},
				ErrorOutputPaths: []string{"stderr"},
			},
			Metrics: telemetry.MetricsConfig{Level: configtelemetry.LevelNone},
		},
	}
	srv, err := New(context.Background(), set, cfg)
	return w, srv, err
}

func TestVerifC10Service(t *testing.T) {
	out := vOpen()
	defer out.Close()
	rng := vNewRand(1012)
	ntopo := vBudget(14, 10)
	for ti := 0; ti < ntopo; ti++ {
		topo := vGenTopo(rng, true)
		specs := vGenExts(rng, 5, true)
		hasConf := rng.Intn(4) != 0
		keys, sedges := topo.specEdges(false)
		idOf := map[string]int{}
		var comps []int
		for i, k := range keys {
			idOf[k] = i
			comps = append(comps, i)
		}
		var edges [][2]int
		for _, e := range sedges {
			edges = append(edges, [2]int{idOf[e[0]], idOf[e[1]]})
		}
		var exts, cfgw, pipew []int
		var deps [][2]int
		for _, s := range specs {
			exts = append(exts, s.idx)
			for _, d := range s.deps {
				deps = append(deps, [2]int{d, s.idx})
			}
			if s.cfgW {
				cfgw = append(cfgw, s.idx)
			}
			if s.pw {
				pipew = append(pipew, s.idx)
			}
		}
		out.Stat(fmt.Sprintf("pipelines=%d", len(topo.pipes)), 1)
		out.Stat(fmt.Sprintf("connectors=%d", len(topo.conns)), 1)
		out.Stat(fmt.Sprintf("comps~%d", len(comps)/4*4), 1)
		out.Stat(fmt.Sprintf("exts=%d", len(exts)), 1)
		out.Stat(fmt.Sprintf("has_conf=%v", hasConf), 1)
		for _, pl := range vPlans(rng, comps, exts, cfgw, pipew, 6) {
			w, srv, err := vNewService(rng, topo, specs, hasConf)
			cfgIdx := append([]int{}, vLastCfg...)
			if err != nil {
				out.Oracle("harness", "(2, ([], []))", "service.New: "+err.Error())
				continue
			}
			problem := ""
			byIdx := map[int]*vComp{}
			for _, c := range w.comps {
				i, ok := idOf[c.key]
				if !ok || byIdx[i] != nil {
					problem = "component instance " + c.key + " unexpected or created twice"
					continue
				}
				c.idx = i
				byIdx[i] = c
			}
			if len(byIdx) != len(comps) {
				problem = fmt.Sprintf("%d component instances created, the configuration implies %d", len(byIdx), len(comps))
			}
			xByIdx := map[int]*vExtBase{}
			for _, e := range w.exts {
				xByIdx[e.idx] = e
			}
			if problem != "" || len(xByIdx) != len(exts) {
				out.Oracle("graph-edges", "(2, ([], []))", problem)
				_ = srv.Shutdown(context.Background())
				continue
			}
			for _, n := range pl.fcStart {
				byIdx[n].failStart = true
			}
			for _, n := range pl.fcStop {
				byIdx[n].failStop = true
			}
			for _, n := range pl.fxStart {
				xByIdx[n].failStart = true
			}
			for _, n := range pl.fxStop {
				xByIdx[n].failStop = true
			}
			for _, n := range pl.fCfg {
				xByIdx[n].failCfg = true
			}
			for _, n := range pl.fReady {
				xByIdx[n].failReady = true
			}
			for _, n := range pl.fNotReady {
				xByIdx[n].failNotReady = true
			}
			pl.cx.arm(byIdx, xByIdx)
			// exactly what collector.go does with the service (vRunLifetime), under the context scenario
			errStart, errAll, nStart := vRunLifetime(w, pl.cx, srv.Start, srv.Shutdown)
			if w.ret == nil {
				w.ret = map[[2]int]bool{}
			}
			if pl.cx.any() {
				out.Stat("ctx-scenario", 1)
			}
			c := &vCase{kind: 2, comps: comps, exts: exts, cfgw: cfgw, pipew: pipew, edges: edges, specEdges: edges,
				deps: deps, hasConf: hasConf, fxStart: pl.fxStart, fxStop: pl.fxStop, fcStart: pl.fcStart, fcStop: pl.fcStop,
				fCfg: pl.fCfg, fReady: pl.fReady, fNotReady: pl.fNotReady, log: w.log, cx: pl.cx, ret: w.ret, iStart: cfgIdx}
			c.errs = vErrList(errAll)
			c.extOrder = vRev(vSeq(w.log[nStart:], tXStop))
			started := vSeq(w.log[:nStart], tCStart)
			var unstarted []int
			for _, n := range comps {
				if !vHas(started, n) {
					unstarted = append(unstarted, n)
				}
			}
			so, ok1 := vComplete(comps, edges, vRev(started), unstarted)
			po, ok2 := vComplete(comps, edges, vSeq(w.log[nStart:], tCStop), nil)
			c.startOrder, c.stopOrder = so, po
			term := c.term()
			if !ok1 {
				out.Oracle("start-order", term, "the observed start sequence is not the reverse of any topological order of the data-flow relation")
			}
			if !ok2 {
				out.Oracle("stop-order", term, "the observed shutdown sequence is not a topological order of the data-flow relation")
			}
			if (errAll != nil) != (len(c.errs) > 0) {
				out.Oracle("start-failure", term, fmt.Sprintf("unexpected error: %v", errAll))
			}
			c.oracle(out)
			vExtInstances(out, term, w)
			if len(cfgIdx) > len(exts) {
				out.Stat("extensions-configured-with-repetitions", 1)
			}
			out.Case(true, term)
			stage := "ok"
			switch {
			case errStart == nil:
			case len(vSeq(w.log[:nStart], tCStart)) > 0 && len(vErrList(errStart)) > 0 && vErrList(errStart)[0][0] == tCStart:
				stage = "pipeline-start-failed"
			case len(vErrList(errStart)) > 0 && vErrList(errStart)[0][0] == tXStart:
				stage = "extension-start-failed"
			case len(vErrList(errStart)) > 0 && vErrList(errStart)[0][0] == tCfg:
				stage = "notify-config-failed"
			case len(vErrList(errStart)) > 0 && vErrList(errStart)[0][0] == tReady:
				stage = "notify-ready-failed"
			default:
				stage = "other"
			}
			out.Stat("start="+stage, 1)
			if errStart == nil && errAll != nil {
				out.Stat("shutdown-errors", 1)
			}
		}
	}
}
