// C10 correspondence harness for service/internal/graph (injected by overlay; in-package).
// For generated pipeline topologies the REAL graph is built with graph.Build from instrumented
// factories; Graph.StartAll and Graph.ShutdownAll are run with failures injected at every single
// position (plus random multi-failure assignments).  Case kind 0:
//   model input  = the implementation's own component graph (component nodes, capabilities /
//                  fan-out nodes, edges), the topological orders gonum returned (read from the log
//                  and completed to full orders), the failing components
//   observation  = the event log of Start / Shutdown calls and the injected errors carried by the
//                  returned errors
// Direct oracle: edge-wise order constraints derived from the CONFIGURATION (not from the graph),
// start/stop counts, abort / continue behaviour (common.go.tmpl vCase.oracle), and the component
// graph's component-to-component reachability equals the configuration-derived relation.
package graph

import (
	"context"
	"fmt"
	"sort"
	"testing"

	"go.opentelemetry.io/collector/component"
	"go.opentelemetry.io/collector/component/componentstatus"
	"go.opentelemetry.io/collector/component/componenttest"
	"go.opentelemetry.io/collector/connector"
	"go.opentelemetry.io/collector/exporter"
	"go.opentelemetry.io/collector/processor"
	"go.opentelemetry.io/collector/receiver"
	"go.opentelemetry.io/collector/service/internal/builders"
	"go.opentelemetry.io/collector/service/internal/status"
)

type vBuilt struct {
	w       *vWorld
	g       *Graph
	keys    []string       // all node keys, sorted; index = model id
	idOf    map[string]int // key -> model id
	comps   []int
	auxs    []int
	edges   [][2]int // implementation graph edges over model ids
	byIdx   map[int]*vComp
	kinds   [][2]int // (model id, Go type of the node: 0 receiver 1 processor 2 exporter 3 connector 4 capabilities 5 fanOut)
	problem string
}

func vBuildGraph(t vTopo) *vBuilt {
	w := &vWorld{}
	rc, pc, ec, cc := t.componentConfigs()
	set := Settings{
		Telemetry:        componenttest.NewNopTelemetrySettings(),
		BuildInfo:        component.NewDefaultBuildInfo(),
		ReceiverBuilder:  builders.NewReceiver(rc, map[component.Type]receiver.Factory{vRecvType: w.recvFactory()}),
		ProcessorBuilder: builders.NewProcessor(pc, map[component.Type]processor.Factory{vProcType: w.procFactory()}),
		ExporterBuilder:  builders.NewExporter(ec, map[component.Type]exporter.Factory{vExpType: w.expFactory()}),
		ConnectorBuilder: builders.NewConnector(cc, map[component.Type]connector.Factory{vConnType: w.connFactory()}),
		PipelineConfigs:  t.pipelineConfigs(),
		ReportStatus:     func(*componentstatus.InstanceID, *componentstatus.Event) {},
	}
	g, err := Build(context.Background(), set)
	b := &vBuilt{w: w, g: g, idOf: map[string]int{}, byIdx: map[int]*vComp{}}
	if err != nil {
		b.problem = "build: " + err.Error()
		return b
	}
	// name every node of the implementation's graph
	nodeKey := map[int64]string{}
	isAux := map[string]bool{}
	kindOf := map[string]int{}
	it := g.componentGraph.Nodes()
	for it.Next() {
		var k string
		kc := 5
		// exactly the test StartAll / ShutdownAll apply: is the node a component.Component?
		_, isComp := it.Node().(component.Component)
		switch n := it.Node().(type) {
		case *receiverNode:
			kc = 0
			k = "r|" + n.pipelineType.String() + "|" + n.componentID.String()
		case *processorNode:
			kc = 1
			k = "p|" + n.pipelineID.String() + "|" + n.componentID.String()
			if c, ok := n.Component.(*vComp); ok {
				c.key = k
			} else {
				b.problem = "processor node does not hold the instrumented component"
			}
		case *exporterNode:
			kc = 2
			k = "e|" + n.pipelineType.String() + "|" + n.componentID.String()
		case *connectorNode:
			kc = 3
			k = "c|" + n.exprPipelineType.String() + "|" + n.rcvrPipelineType.String() + "|" + n.componentID.String()
		case *capabilitiesNode:
			kc = 4
			k = "a|cap|" + n.pipelineID.String()
		case *fanOutNode:
			kc = 5
			k = "a|fan|" + n.pipelineID.String()
		default:
			k = fmt.Sprintf("?|%T|%d", n, n.ID())
		}
		isAux[k] = !isComp
		kindOf[k] = kc
		nodeKey[it.Node().ID()] = k
		b.keys = append(b.keys, k)
	}
	sort.Strings(b.keys)
	for i, k := range b.keys {
		b.idOf[k] = i
		b.kinds = append(b.kinds, [2]int{i, kindOf[k]})
		if isAux[k] {
			b.auxs = append(b.auxs, i)
		} else {
			b.comps = append(b.comps, i)
		}
	}
	eit := g.componentGraph.Edges()
	for eit.Next() {
		e := eit.Edge()
		b.edges = append(b.edges, [2]int{b.idOf[nodeKey[e.From().ID()]], b.idOf[nodeKey[e.To().ID()]]})
	}
	sort.Slice(b.edges, func(i, j int) bool {
		if b.edges[i][0] != b.edges[j][0] {
			return b.edges[i][0] < b.edges[j][0]
		}
		return b.edges[i][1] < b.edges[j][1]
	})
	for _, c := range w.comps {
		i, ok := b.idOf[c.key]
		if !ok {
			b.problem = "created component " + c.key + " is not a node of the graph"
			continue
		}
		if b.byIdx[i] != nil {
			b.problem = "two instances created for node " + c.key
		}
		c.idx = i
		b.byIdx[i] = c
	}
	for _, i := range b.comps {
		if b.byIdx[i] == nil {
			b.problem = "node " + b.keys[i] + " has no instrumented component"
		}
	}
	return b
}

// compReach: component-to-component edges of the implementation graph, skipping aux nodes
func (b *vBuilt) compReach() map[[2]int]bool {
	succ := map[int][]int{}
	for _, e := range b.edges {
		succ[e[0]] = append(succ[e[0]], e[1])
	}
	r := map[[2]int]bool{}
	for _, u := range b.comps {
		seen := map[int]bool{}
		stack := append([]int{}, succ[u]...)
		for len(stack) > 0 {
			x := stack[len(stack)-1]
			stack = stack[:len(stack)-1]
			if seen[x] {
				continue
			}
			seen[x] = true
			if vHas(b.comps, x) {
				r[[2]int{u, x}] = true
				continue
			}
			stack = append(stack, succ[x]...)
		}
	}
	return r
}

func TestVerifC10Graph(t *testing.T) {
	out := vOpen()
	defer out.Close()
	rng := vNewRand(1010)
	ntopo := vBudget(36, 12)
	for ti := 0; ti < ntopo; ti++ {
		topo := vGenTopo(rng, false)
		// the set of runs is fixed by the topology: build once to learn the node set
		b0 := vBuildGraph(topo)
		if b0.problem != "" {
			out.Oracle("harness", "(0, ([], []))", b0.problem)
			continue
		}
		out.Stat(fmt.Sprintf("pipelines=%d", len(topo.pipes)), 1)
		out.Stat(fmt.Sprintf("connectors=%d", len(topo.conns)), 1)
		out.Stat(fmt.Sprintf("nodes~%d", len(b0.keys)/4*4), 1)
		for _, p := range topo.pipes {
			out.Stat("pipeline-signal="+p.sig, 1)
		}
		// configuration-derived edges vs the implementation graph
		skeys, sedges := topo.specEdges(true)
		var specE [][2]int
		okSpec := len(skeys) == len(b0.comps)
		for _, e := range sedges {
			u, ok1 := b0.idOf[e[0]]
			v, ok2 := b0.idOf[e[1]]
			if !ok1 || !ok2 {
				okSpec = false
				continue
			}
			specE = append(specE, [2]int{u, v})
		}
		reach := b0.compReach()
		if len(reach) != len(specE) {
			okSpec = false
		}
		for _, e := range specE {
			if !reach[e] {
				okSpec = false
			}
		}
		plans := vPlans(rng, b0.comps, nil, nil, nil, 4)
		for pi, pl := range plans {
			b := b0
			if pi > 0 {
				b = vBuildGraph(topo) // a fresh graph (and fresh map iteration orders) per run
				if b.problem != "" || len(b.keys) != len(b0.keys) {
					out.Oracle("harness", "(0, ([], []))", "rebuild differs: "+b.problem)
					continue
				}
			}
			for _, n := range pl.fcStart {
				b.byIdx[n].failStart = true
			}
			for _, n := range pl.fcStop {
				b.byIdx[n].failStop = true
			}
			pl.cx.arm(b.byIdx, nil)
			rep := status.NewReporter(func(*componentstatus.InstanceID, *componentstatus.Event) {}, func(error) {})
			host := &Host{Reporter: rep}
			var errStop error
			errStart, errAll, nStartEv := vRunLifetime(b.w, pl.cx,
				func(ctx context.Context) error { return b.g.StartAll(ctx, host) },
				func(ctx context.Context) error { errStop = b.g.ShutdownAll(ctx, rep); return errStop })
			if b.w.ret == nil {
				b.w.ret = map[[2]int]bool{}
			}
			c := &vCase{kind: 0, comps: b.comps, auxs: b.auxs, edges: b.edges, specEdges: specE,
				fcStart: pl.fcStart, fcStop: pl.fcStop, log: b.w.log, cx: pl.cx, ret: b.w.ret, nodeKinds: b.kinds}
			c.errs = vErrList(errAll)
			all := append(append([]int{}, b.comps...), b.auxs...)
			// the order used by StartAll: started components are a suffix (reversed) of it
			started := vSeq(b.w.log[:nStartEv], tCStart)
			var unstarted []int
			for _, n := range b.comps {
				if !vHas(started, n) {
					unstarted = append(unstarted, n)
				}
			}
			so, ok1 := vComplete(all, b.edges, vRev(started), unstarted)
			po, ok2 := vComplete(all, b.edges, vSeq(b.w.log[nStartEv:], tCStop), nil)
			c.startOrder, c.stopOrder = so, po
			term := c.term()
			if !ok1 {
				out.Oracle("start-order", term, "the observed start sequence is not the reverse of any topological order of the component graph")
			}
			if !ok2 {
				out.Oracle("stop-order", term, "the observed shutdown sequence is not a topological order of the component graph")
			}
			if !okSpec {
				out.Oracle("graph-edges", term, fmt.Sprintf("component graph reachability %v differs from the configuration-derived relation %v", reach, specE))
			}
			if (errStart != nil) != (len(vErrList(errStart)) > 0) || (errStop != nil) != (len(vErrList(errStop)) > 0) {
				out.Oracle("start-failure", term, fmt.Sprintf("unexpected error: %v / %v", errStart, errStop))
			}
			c.oracle(out)
			nt := len(pl.fcStart)+len(pl.fcStop) > 0 || pl.cx.any()
			if pl.cx.any() {
				out.Stat("ctx-scenario", 1)
				if len(c.errs) > len(pl.fcStart)+len(pl.fcStop) || (len(c.errs) > 0 && len(pl.fcStart)+len(pl.fcStop) == 0) {
					out.Stat("ctx-induced-errors", 1)
				}
			}
			out.Case(nt, term)
			switch {
			case len(pl.fcStart) == 0 && len(pl.fcStop) == 0:
				out.Stat("plan=none", 1)
			case len(pl.fcStart) > 0 && len(pl.fcStop) > 0:
				out.Stat("plan=start+stop", 1)
			case len(pl.fcStart) > 0:
				out.Stat("plan=start", 1)
			default:
				out.Stat("plan=stop", 1)
			}
			if errStart != nil {
				out.Stat(fmt.Sprintf("started-before-abort~%d", len(started)/3*3), 1)
			}
		}
	}
}
