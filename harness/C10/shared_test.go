// C10 correspondence harness for internal/sharedcomponent (injected by overlay; in-package).
// One REAL sharedcomponent.Component (obtained from Map.LoadOrStore, as receivers shared between
// signals obtain it) receives a script of Start / Shutdown calls, as the graph nodes that share it
// would issue them.  Case kind 4:
//   L = [ops (1 = Start, 0 = Shutdown); [inner Start fails; inner Shutdown fails]; returned errors (0/1 per call)]
//   P = [inner events: (7, 0) inner Start, (8, 0) inner Shutdown]
// Scripts: EVERY script of length <= 5 (quick) / 8 (thorough) x the four failure assignments, plus
// life-cycle shaped scripts (m nodes start, possibly aborted, then all m nodes shut down).
// Direct oracle: at most one inner Start, at most one inner Shutdown, exactly one as soon as the
// script contains such a call; the Map entry is removed by the first Shutdown.
package sharedcomponent

import (
	"context"
	"errors"
	"fmt"
	"strconv"
	"strings"
	"testing"

	"go.opentelemetry.io/collector/component"
)

type vC10Host struct{}

func (vC10Host) GetExtensions() map[component.ID]component.Component { return nil }

type vC10Inner struct {
	log       *[][2]int
	failStart bool
	failStop  bool
}

func (c *vC10Inner) Start(context.Context, component.Host) error {
	*c.log = append(*c.log, [2]int{7, 0})
	if c.failStart {
		return errors.New("inner start failed")
	}
	return nil
}

func (c *vC10Inner) Shutdown(context.Context) error {
	*c.log = append(*c.log, [2]int{8, 0})
	if c.failStop {
		return errors.New("inner shutdown failed")
	}
	return nil
}

func vC10Ints(l []int) string {
	s := make([]string, len(l))
	for i, x := range l {
		s[i] = strconv.Itoa(x)
	}
	return "[" + strings.Join(s, ";") + "]"
}

func vC10Run(out *vOut, ops []int, fs, fp bool, shape string) {
	var log [][2]int
	m := NewMap[int, *vC10Inner]()
	inner := &vC10Inner{log: &log, failStart: fs, failStop: fp}
	comp, err := m.LoadOrStore(1, func() (*vC10Inner, error) { return inner, nil })
	if err != nil {
		out.Oracle("harness", "(4, ([], []))", err.Error())
		return
	}
	// a second node asking for the same key gets the same Component
	comp2, _ := m.LoadOrStore(1, func() (*vC10Inner, error) { return &vC10Inner{log: &log}, nil })
	var rets []int
	nStart, nStop := 0, 0
	for i, op := range ops {
		c := comp
		if i%2 == 1 {
			c = comp2
		}
		var e error
		if op == 1 {
			e = c.Start(context.Background(), vC10Host{})
			nStart++
		} else {
			e = c.Shutdown(context.Background())
			nStop++
		}
		if e != nil {
			rets = append(rets, 1)
		} else {
			rets = append(rets, 0)
		}
	}
	b2i := func(b bool) int {
		if b {
			return 1
		}
		return 0
	}
	ev := make([]string, len(log))
	is, ip := 0, 0
	for i, e := range log {
		ev[i] = fmt.Sprintf("(%d,%d)", e[0], e[1])
		if e[0] == 7 {
			is++
		} else {
			ip++
		}
	}
	term := "(4, ([" + vC10Ints(ops) + "; " + vC10Ints([]int{b2i(fs), b2i(fp)}) + "; " + vC10Ints(rets) + "], [[" + strings.Join(ev, ";") + "]]))"
	if comp != comp2 {
		out.Oracle("shared", term, "LoadOrStore returned two different components for one key")
	}
	if is > 1 || ip > 1 {
		out.Oracle("shared", term, fmt.Sprintf("inner component started %d times, shut down %d times", is, ip))
	}
	if (nStart > 0 && is != 1) || (nStop > 0 && ip != 1) {
		out.Oracle("shared", term, fmt.Sprintf("%d Start / %d Shutdown calls but inner started %d times, shut down %d times", nStart, nStop, is, ip))
	}
	nerr := 0
	for _, r := range rets {
		nerr += r
	}
	if nerr > b2i(fs && nStart > 0)+b2i(fp && nStop > 0) {
		out.Oracle("shared", term, "an inner failure was returned more than once")
	}
	if nStop > 0 {
		m.lock.Lock()
		_, still := m.components[1]
		m.lock.Unlock()
		if still {
			out.Oracle("shared", term, "component still in the Map after Shutdown")
		}
	}
	out.Case(len(ops) > 1, term)
	out.Stat("shape="+shape, 1)
	out.Stat(fmt.Sprintf("inner-start=%d,inner-stop=%d", is, ip), 1)
}

func TestVerifC10Shared(t *testing.T) {
	out := vOpen()
	defer out.Close()
	maxLen := 5
	if vTier() != "quick" {
		maxLen = 8
	}
	for n := 0; n <= maxLen; n++ {
		for bits := 0; bits < 1<<n; bits++ {
			ops := make([]int, n)
			for i := range ops {
				ops[i] = (bits >> i) & 1
			}
			for fl := 0; fl < 4; fl++ {
				vC10Run(out, ops, fl&1 == 1, fl&2 == 2, "exhaustive")
			}
		}
	}
	rng := vNewRand(1014)
	for c := 0; c < vBudget(60, 10); c++ {
		m := 1 + rng.Intn(5)
		started := m
		if rng.Intn(2) == 0 {
			started = rng.Intn(m + 1) // start-up aborted after `started` of the m nodes
		}
		var ops []int
		for i := 0; i < started; i++ {
			ops = append(ops, 1)
		}
		for i := 0; i < m; i++ {
			ops = append(ops, 0)
		}
		vC10Run(out, ops, rng.Intn(3) == 0, rng.Intn(3) == 0, "lifecycle")
	}
}
