// C10 correspondence harness for service/extensions (injected by overlay; in-package).
// Generated extension sets with Dependencies() declarations (some extensions do not implement
// extensioncapabilities.Dependent at all) are built with the REAL extensions.New (computeOrder),
// then Start and Shutdown run with failures injected at every single position plus random
// multi-failure assignments.  Case kind 1:
//   model input = extensions, dependency pairs, the order computeOrder returned
//                 (bes.extensionIDs, read in-package), failing extensions
//   observation = event log + injected errors carried by the returned errors
// Direct oracle: dependency-wise order constraints, counts, abort/continue (vCase.oracle), and
// start sequence = prefix of extensionIDs, shutdown sequence = its exact reverse.
package extensions

import (
	"context"
	"fmt"
	"regexp"
	"strings"
	"testing"

	"go.opentelemetry.io/collector/component"
	"go.opentelemetry.io/collector/component/componenttest"
	"go.opentelemetry.io/collector/extension"
	"go.opentelemetry.io/collector/service/internal/builders"
)

// vLastCfg: the service::extensions list of the last vBuildExts call, as configured (indices, with repetitions)
var vLastCfg []int

func vBuildExts(rng *vRand, specs []vExtSpec) (*vWorld, *Extensions, error) {
	w := &vWorld{}
	cfgs := map[component.ID]component.Config{}
	var cfg Config
	for _, s := range specs {
		cfgs[vExtID(s.idx)] = vDefCfg()
		cfg = append(cfg, vExtID(s.idx))
	}
	for i := len(cfg) - 1; i > 0; i-- {
		j := rng.Intn(i + 1)
		cfg[i], cfg[j] = cfg[j], cfg[i]
	}
	var dcfg Config
	vLastCfg = nil
	for _, i := range vDupIdx(rng, len(cfg)) {
		dcfg = append(dcfg, cfg[i])
		for _, s := range specs {
			if vExtID(s.idx) == cfg[i] {
				vLastCfg = append(vLastCfg, s.idx)
			}
		}
	}
	cfg = dcfg
	set := Settings{
		Telemetry:  componenttest.NewNopTelemetrySettings(),
		BuildInfo:  component.NewDefaultBuildInfo(),
		Extensions: builders.NewExtension(cfgs, map[component.Type]extension.Factory{vExtType: w.extFactory(specs)}),
	}
	x, err := New(context.Background(), set, cfg)
	return w, x, err
}

// vCyclic: extension sets whose Dependencies() declarations contain a cycle must be rejected by
// extensions.New (computeOrder) with an error that names a cycle (case kind 7).
var vCycleRx = regexp.MustCompile(`cycle found \[([^\]]*)\]`)

func vCyclicRun(out *vOut, rng *vRand) {
	specs := vGenExts(rng, 6, false)
	for len(specs) < 2 {
		specs = vGenExts(rng, 6, false)
	}
	n := len(specs)
	// close a cycle of length 1..3 through extensions that implement Dependent
	clen := 1 + rng.Pick(1, 4, 3)
	if clen > n {
		clen = n
	}
	cyc := rng.Intn(n)
	nodes := []int{cyc}
	for len(nodes) < clen {
		c := rng.Intn(n)
		if !vHas(nodes, c) {
			nodes = append(nodes, c)
		}
	}
	missing := rng.Intn(5) == 0
	if missing {
		// instead of a cycle: a dependency on an extension that is not configured (id 99)
		specs[cyc].isDep = true
		specs[cyc].deps = append(specs[cyc].deps, 99)
	} else {
		for i, a := range nodes {
			b := nodes[(i+1)%len(nodes)] // b depends on a: edge a -> b
			specs[b].isDep = true
			if !vHas(specs[b].deps, a) {
				specs[b].deps = append(specs[b].deps, a)
			}
		}
	}
	var exts []int
	var deps [][2]int
	for _, s := range specs {
		exts = append(exts, s.idx)
		for _, d := range s.deps {
			deps = append(deps, [2]int{d, s.idx})
		}
	}
	var w *vWorld
	var err error
	panicked := 0
	func() {
		defer func() {
			if r := recover(); r != nil {
				panicked = 1
				err = fmt.Errorf("panic: %v", r)
			}
		}()
		w, _, err = vBuildExts(rng, specs)
	}()
	if w == nil {
		w = &vWorld{}
	}
	var named []int
	if err != nil {
		if m := vCycleRx.FindStringSubmatch(err.Error()); m != nil {
			for _, nm := range strings.Split(m[1], " -> ") {
				for _, s := range specs {
					if vExtID(s.idx).String() == strings.TrimSpace(nm) {
						named = append(named, s.idx)
					}
				}
			}
		}
	}
	// gonum lists the start node at both ends of a cycle
	if len(named) >= 2 && named[0] == named[len(named)-1] {
		named = named[:len(named)-1]
	}
	notFound := 0
	if err != nil && panicked == 0 && strings.Contains(err.Error(), "unable to find extension") {
		notFound = 1
	}
	term := "(7, ([" + vInts(exts) + "; " + vInts(named) + "; " + vInts([]int{panicked, notFound}) + "], [" + vPairs(deps) + "]))"
	if missing {
		if notFound != 1 {
			out.Oracle("ext-cycle", term, fmt.Sprintf("a dependency on an extension that is not configured was not rejected as such: %v", err))
		}
		out.Stat("cyclic-exts:missing-dependency", 1)
	} else if panicked == 1 {
		// an extension that lists ITSELF among its dependencies: gonum's SetEdge panics inside
		// computeOrder ("simple: adding self edge").  No service is built, so no clause of this
		// property is concerned; the model reproduces the panic (Model.compute_order), recorded as a histogram.
		out.Stat("cyclic-exts:self-dependency-panics", 1)
	} else if err == nil {
		out.Oracle("ext-cycle", term, "extensions.New accepted a cyclic dependency declaration")
	} else {
		// direct oracle: the named cycle is a real cycle of the declared dependencies
		ok := len(named) > 0
		for i, a := range named {
			b := named[(i+1)%len(named)]
			found := false
			for _, d := range deps {
				if d[0] == a && d[1] == b {
					found = true
				}
			}
			ok = ok && found
		}
		if !ok {
			out.Oracle("ext-cycle", term, fmt.Sprintf("the error does not name a cycle of the declared dependencies: %v", err))
		}
	}
	if len(w.log) > 0 {
		out.Oracle("ext-cycle", term, "an extension was started or stopped although the set was rejected")
	}
	out.Case(true, term)
	out.Stat(fmt.Sprintf("cyclic-exts:cycle-length=%d", len(nodes)), 1)
}

func TestVerifC10Ext(t *testing.T) {
	out := vOpen()
	defer out.Close()
	crng := vNewRand(1017)
	for i := 0; i < vBudget(60, 10); i++ {
		vCyclicRun(out, crng)
	}
	rng := vNewRand(1011)
	nsets := vBudget(40, 12)
	for si := 0; si < nsets; si++ {
		specs := vGenExts(rng, 7, false)
		var exts []int
		var deps [][2]int
		nd := 0
		for _, s := range specs {
			exts = append(exts, s.idx)
			for _, d := range s.deps {
				deps = append(deps, [2]int{d, s.idx})
			}
			if !s.isDep {
				nd++
			}
		}
		out.Stat(fmt.Sprintf("exts=%d", len(specs)), 1)
		out.Stat(fmt.Sprintf("deps~%d", len(deps)/3*3), 1)
		out.Stat(fmt.Sprintf("not-Dependent=%d", nd), 1)
		for _, pl := range vPlans(rng, nil, exts, nil, nil, 3) {
			w, x, err := vBuildExts(rng, specs)
			if err != nil {
				out.Oracle("harness", "(1, ([], []))", "extensions.New: "+err.Error())
				continue
			}
			byIdx := map[int]*vExtBase{}
			for _, e := range w.exts {
				byIdx[e.idx] = e
			}
			for _, n := range pl.fxStart {
				byIdx[n].failStart = true
			}
			for _, n := range pl.fxStop {
				byIdx[n].failStop = true
			}
			var order []int
			for _, id := range x.extensionIDs {
				for _, e := range w.exts {
					if e.id == id {
						order = append(order, e.idx)
						break
					}
				}
			}
			cfgIdx := append([]int{}, vLastCfg...)
			if len(cfgIdx) > len(exts) {
				out.Stat("extensions-configured-with-repetitions", 1)
			}
			pl.cx.arm(nil, byIdx)
			var errStop error
			errStart, errAll, nStart := vRunLifetime(w, pl.cx,
				func(ctx context.Context) error { return x.Start(ctx, componenttest.NewNopHost()) },
				func(ctx context.Context) error { errStop = x.Shutdown(ctx); return errStop })
			if w.ret == nil {
				w.ret = map[[2]int]bool{}
			}
			c := &vCase{kind: 1, exts: exts, deps: deps, extOrder: order, fxStart: pl.fxStart, fxStop: pl.fxStop, log: w.log, cx: pl.cx, ret: w.ret, iStart: cfgIdx}
			c.errs = vErrList(errAll)
			vExtInstances(out, c.term(), w)
			if pl.cx.any() {
				out.Stat("ctx-scenario", 1)
			}
			term := c.term()
			// start sequence = prefix of the computed order; shutdown sequence = its reverse
			st := vSeq(w.log[:nStart], tXStart)
			for i, e := range st {
				if i >= len(order) || order[i] != e {
					out.Oracle("ext-dep-order", term, fmt.Sprintf("start sequence %v is not a prefix of extensionIDs %v", st, order))
					break
				}
			}
			sp := vSeq(w.log[nStart:], tXStop)
			if fmt.Sprint(sp) != fmt.Sprint(vRev(order)) {
				out.Oracle("ext-dep-order", term, fmt.Sprintf("shutdown sequence %v is not the reverse of extensionIDs %v", sp, order))
			}
			if (errStart != nil) != (len(vErrList(errStart)) > 0) || (errStop != nil) != (len(vErrList(errStop)) > 0) {
				out.Oracle("start-failure", term, fmt.Sprintf("unexpected error: %v / %v", errStart, errStop))
			}
			c.oracle(out)
			out.Case(len(exts) > 0, term)
			switch {
			case len(pl.fxStart) == 0 && len(pl.fxStop) == 0:
				out.Stat("plan=none", 1)
			case len(pl.fxStart) > 0 && len(pl.fxStop) > 0:
				out.Stat("plan=start+stop", 1)
			case len(pl.fxStart) > 0:
				out.Stat("plan=start", 1)
			default:
				out.Stat("plan=stop", 1)
			}
		}
	}
}
