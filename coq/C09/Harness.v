(* C09/Harness.v — comparison of the model with what the Go harness (harness/C09/graph_test.go)
   recorded from the real graph.Build + instrumented components.  Imports Model.v only.

   case  = (wcfg, wobs)
   wcfg  = (pipelines, (connectors, noprof))      noprof = (kind 0/1/2, id) of plain components from stable factories
           pipeline  = ((signal, name), (receivers, (processors, exporters)))   ids are nat
           connector = (id, Some (factory is an xconnector.Factory, requested (exporter signal, receiver signal) pairs))
                       | (id, None)   no factory registered for the connector's type
   wobs  = (validate_ok, (class, (detail, (created, (started, (deliveries, (deliveries_ro, (routers, (refusing, (deliveries_f, (errors, (nil_host_rejected, (probes, deliveries_empty))))))))))))
           class      0 built | 1 "connector ... not used in any supported ..." / "connector factory not available"
                      | 2 "cycle detected" | 3 panic | 5 "failed to create ... telemetry type is not supported"
           detail     class 1: [(side 0 exporter / 1 receiver, (signal, (0, connector id)))]
                      class 2: the reported cycle (processor / connector nodes)
           created    node keys of the factory Create calls        (multiset)
           started    node keys of the components whose Start ran  (multiset)
           deliveries per receiver node: the (exporter node, trail of processor/connector nodes)
                      of every datum that arrived anywhere after one injection    (multiset)
           deliveries_ro  the same after injecting a payload marked READ-ONLY (shared)
           routers    per connector instance: the pipeline ids its router offers       (multiset)
           refusing   component nodes that were told to refuse (return an error, forward nothing) in a third pass
           deliveries_f / errors   per receiver: what still arrived in that pass / did the receiver get an error back
           probes     (connector node, (requested pipeline ids, (router.Consumer(ids...) accepted, what arrived when a
                      probe datum was sent into the returned consumer)))
           deliveries_empty  what arrived after injecting an EMPTY payload (no resource entries) at every receiver;
                      deliveries_ro uses a childless payload (a resource without scopes)
   wnode = (kind, (a, (b, id)))  0 Recv a=signal | 1 Proc (a,b)=pipeline | 2 Exp a=signal
                                 3 Conn a=exporter signal b=receiver signal | 4 Cap | 5 Fan *)
From Verif Require Import Common.Base C09.Model.

Definition wnode := (nat * (nat * (nat * nat)))%type.
Definition wpipe := ((nat * nat) * (list nat * (list nat * list nat)))%type.
Definition wcfg := (list wpipe * (list (nat * option (bool * list (nat * nat))) * list (nat * nat)))%type.
Definition wdeliv := (wnode * list (wnode * list wnode))%type.
Definition wprobe := (wnode * (list (nat * nat) * (bool * list (wnode * list wnode))))%type.
Definition wrouter := (wnode * list (nat * nat))%type.
Definition wobs := (bool * (nat * (list wnode * (list wnode * (list wnode * (list wdeliv * (list wdeliv * (list wrouter * (list wnode * (list wdeliv * (list (wnode * bool) * (bool * (list wprobe * list wdeliv)))))))))))))%type.

Definition node_of_w (w : wnode) : node :=
  let '(k, (a, (b, i))) := w in
  match k with
  | 0 => Recv a i | 1 => Proc (a, b) i | 2 => Exp a i | 3 => Conn a b i | 4 => Cap (a, b) | _ => Fan (a, b)
  end.

Definition cfg_of_w (w : wcfg) : config :=
  mkC (map (fun p => mkP (fst p) (fst (snd p)) (fst (snd (snd p))) (snd (snd (snd p)))) (fst w)) (fst (snd w)) (snd (snd w)).

Fixpoint remove1 {A} (eqb : A -> A -> bool) (x : A) (l : list A) : option (list A) :=
  match l with
  | [] => None
  | y :: r => if eqb x y then Some r else option_map (cons y) (remove1 eqb x r)
  end.

(* multiset equality *)
Fixpoint perm_eqb {A} (eqb : A -> A -> bool) (l1 l2 : list A) : bool :=
  match l1 with
  | [] => is_nil l2
  | x :: r => match remove1 eqb x l2 with Some l2' => perm_eqb eqb r l2' | None => false end
  end.

Definition deliv_eqb (a b : node * list node) : bool :=
  node_eqb (fst a) (fst b) && list_eqb node_eqb (snd a) (snd b).

Definition cerr_of_w (w : wnode) : cerr :=
  let '(side, (s, (_, k))) := w in match side with 0 => ErrExp k s | 1 => ErrRecv k s | _ => ErrNoFactory k end.

Definition cerr_eqb (a b : cerr) : bool :=
  match a, b with
  | ErrExp k s, ErrExp k' s' | ErrRecv k s, ErrRecv k' s' => Nat.eqb k k' && Nat.eqb s s'
  | ErrNoFactory k, ErrNoFactory k' => Nat.eqb k k'
  | _, _ => false
  end.

Definition class_of (r : result) : nat :=
  match r with Ok _ => 0 | Err EUnsupported => 1 | Err ECycle => 2 | Err EPanic => 3 | Err EFactory => 5 end.

Definition is_recv (n : node) : bool := match n with Recv _ _ => true | _ => false end.

Definition model_deliveries (g : graph) : list (node * list (node * list node)) :=
  map (fun r => (r, deliver g r)) (filter is_recv (g_nodes g)).

Definition model_routers (g : graph) : list (node * list pid) :=
  map (fun n => (n, router_pids g n)) (filter is_connector (g_nodes g)).

Definition check_case (cs : wcfg * wobs) : bool :=
  let '(wc, (vok, (cls, (detail, (wcreated, (wstarted, (wdel, (wdelro, (wrt, (wF, (wdelf, (werr, (nilrej, (wprobes, wdele)))))))))))))) := cs in
  let c := cfg_of_w wc in
  let r := build c in
  let crt := map node_of_w wcreated in
  let std := map node_of_w wstarted in
  let conv := map (fun d : wdeliv => (node_of_w (fst d), map (fun x => (node_of_w (fst x), map node_of_w (snd x))) (snd d))) in
  let del := conv wdel in
  let delro := conv wdelro in
  let dele := conv wdele in
  let delf := conv wdelf in
  let F := map node_of_w wF in
  Bool.eqb (validate c) vok && Nat.eqb (class_of r) cls &&
  match r with
  | Ok g =>
      perm_eqb node_eqb (created g) crt &&
      option_eqb (perm_eqb node_eqb) (start_all true g) (Some std) &&
      Bool.eqb (match start_all false g with None => true | Some _ => false end) nilrej &&
      forallb (fun pr : wprobe =>
                 let '(wn, (ids, (acc, got))) := pr in
                 match route_deliver g (node_of_w wn) ids with
                 | Some ds => acc && perm_eqb deliv_eqb ds (map (fun x => (node_of_w (fst x), map node_of_w (snd x))) got)
                 | None => negb acc && is_nil got
                 end) wprobes &&
      perm_eqb (fun a b => node_eqb (fst a) (fst b) && perm_eqb deliv_eqb (snd a) (snd b)) (model_deliveries g) del &&
      perm_eqb (fun a b => node_eqb (fst a) (fst b) && perm_eqb deliv_eqb (snd a) (snd b)) (model_deliveries g) delro &&
      perm_eqb (fun a b => node_eqb (fst a) (fst b) && perm_eqb deliv_eqb (snd a) (snd b)) (model_deliveries g) dele &&
      perm_eqb (fun a b => node_eqb (fst a) (fst b) && perm_eqb deliv_eqb (snd a) (snd b))
               (map (fun r => (r, deliver_f g F r)) (filter is_recv (g_nodes g))) delf &&
      perm_eqb (fun a b => node_eqb (fst a) (fst b) && Bool.eqb (snd a) (snd b))
               (map (fun r => (r, consume_error g F r)) (filter is_recv (g_nodes g)))
               (map (fun e => (node_of_w (fst e), snd e)) werr) &&
      perm_eqb (fun a b => node_eqb (fst a) (fst b) && perm_eqb pid_eqb (snd a) (snd b)) (model_routers g)
               (map (fun r => (node_of_w (fst r), snd r)) wrt)
  | Err e =>
      (match e with
       | EFactory => (* the factory calls before the refusal: distinct component nodes of the graph, none refusing *)
           list_eqb node_eqb (create_until c crt) crt && list_eqb node_eqb (dedup node_eqb crt) crt &&
           forallb (fun n => existsb (node_eqb n) (filter is_component (nodes_of c))) crt
       | _ => is_nil crt
       end) && is_nil std && is_nil del && is_nil delro && is_nil wrt && is_nil wdelf && is_nil werr && negb nilrej && is_nil wprobes && is_nil wdele &&
      match e with
      | EUnsupported =>
          match detail with
          | [w] => existsb (cerr_eqb (cerr_of_w w)) (possible_errors c)
          | _ => false
          end
      | ECycle => check_cycle_report c (map node_of_w detail)
      | EPanic => true
      | EFactory =>
          match detail with
          | [w] => cannot_create c (node_of_w w) && existsb (node_eqb (node_of_w w)) (filter is_component (nodes_of c))
          | _ => false
          end
      end
  end.

(* model output, for replay files *)
Definition model_out (cs : wcfg * wobs) :=
  let c := cfg_of_w (fst cs) in
  (validate c, class_of (build c), possible_errors c,
   match build c with Ok g => (created g, model_deliveries g, model_routers g) | Err _ => ([], [], []) end).
