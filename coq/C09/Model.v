(* C09/Model.v — executable model of the pipeline-graph builder (service/internal/graph).
   Code modelled (function by function):
     service/pipelines/config.go   Config.Validate / PipelineConfig.Validate      -> validate
     graph.go createNodes          (node identity, connector expansion, the two
                                    "not used in any supported ... pipeline" errors) -> receivers_of, exporters_of,
                                                                                        conn_links, possible_errors
     graph.go createReceiver/createProcessor/createExporter/createConnector         -> node keys, dedup, EPanic
     graph.go createEdges                                                            -> pipe_edges, edges_of
     graph.go buildComponents      (topological sort / cycle error, one component
                                    per node, nextConsumers = out-edges)             -> cyclic, build, created
     graph.go cycleErr             (reported cycle)                                  -> check_cycle_report
     receiver.go/processor.go/exporter.go/connector.go/capabilities.go/fanout.go:
        every consumer forwards to the consumers of its out-edges (fan-out consumer,
        connector router over the downstream capabilities nodes)                     -> walks, deliver
   Node identity: service/internal/attribute hashes (kind, signal[, output signal][, pipeline], id);
   the model uses the tuple itself (hash collisions are outside the model).
   Go map iteration order (pipelines, connectors) is not observable in what is compared: sets are
   compared as sets, and of several possible build errors any one of the possible ones is accepted.
   No proofs in this file. *)
From Verif Require Import Common.Base.

(* signals: 0 traces, 1 metrics, 2 logs, 3 profiles *)
Definition cid := nat.                       (* component.ID *)
Definition pid := (nat * nat)%type.          (* pipeline.ID = (signal, name) *)

Definition pid_eqb (a b : pid) : bool := Nat.eqb (fst a) (fst b) && Nat.eqb (snd a) (snd b).

Record pipeline := mkP { p_id : pid; p_recv : list cid; p_procs : list cid; p_exps : list cid }.
Definition p_sig (P : pipeline) : nat := fst (p_id P).

(* pipelines.Config is a Go map keyed by pipeline.ID: keys are unique (hypothesis [wf_config] of
   the theorems); conns = the connector builder's configured ids, each with its factory:
   Some (does the factory implement the experimental xconnector.Factory interface?, the (exporter-signal,
   receiver-signal) pairs for which the factory reports a stability level other than Undefined);
   None = the id is configured but no factory is registered for its type (ConnectorBuilder.Factory
   returns nil).
   noprof = the plain components (kind 0 receiver / 1 processor / 2 exporter, id) whose factory comes from the
   stable receiver/processor/exporter.NewFactory, i.e. does not implement the x-interface the builders need for
   the profiles signal. *)
Record config := mkC { pipes : list pipeline; conns : list (cid * option (bool * list (nat * nat)));
                       noprof : list (nat * cid) }.

Definition memn (k : nat) (l : list nat) : bool := existsb (Nat.eqb k) l.

Fixpoint lookup_conn (k : cid) (l : list (cid * option (bool * list (nat * nat)))) : option (option (bool * list (nat * nat))) :=
  match l with
  | [] => None
  | (k', m) :: r => if Nat.eqb k k' then Some m else lookup_conn k r
  end.

(* ConnectorBuilder.IsConfigured *)
Definition is_conn (c : config) (k : cid) : bool :=
  match lookup_conn k (conns c) with Some _ => true | None => false end.

(* connectorStability(factory, expType, recType) != StabilityLevelUndefined: the factory's own answer
   for the pair; a pair that involves profiles (signal 3) additionally needs the factory to be an
   xconnector.Factory (type assertion), a pair among traces/metrics/logs does not. *)
Definition supported (c : config) (k : cid) (E R : nat) : bool :=
  match lookup_conn k (conns c) with
  | Some (Some (x, m)) => existsb (fun p => Nat.eqb (fst p) E && Nat.eqb (snd p) R) m
                          && (x || (Nat.ltb E 3 && Nat.ltb R 3))
  | _ => false
  end.

(* ---- pipelines/config.go ---------------------------------------------------------------- *)
Fixpoint has_dup (l : list nat) : bool :=
  match l with [] => false | x :: r => memn x r || has_dup r end.

Definition is_nil {A} (l : list A) : bool := match l with [] => true | _ => false end.

Definition pipeline_valid (P : pipeline) : bool :=
  negb (is_nil (p_recv P)) && negb (is_nil (p_exps P)) && negb (has_dup (p_procs P)).

Definition validate (c : config) : bool :=
  negb (is_nil (pipes c)) && forallb pipeline_valid (pipes c).

(* ---- nodes -------------------------------------------------------------------------------- *)
Inductive node :=
| Recv (s : nat) (r : cid)          (* attribute.Receiver(signal, id) *)
| Proc (p : pid) (i : cid)          (* attribute.Processor(pipelineID, id) *)
| Exp (s : nat) (e : cid)           (* attribute.Exporter(signal, id) *)
| Conn (se sr : nat) (k : cid)      (* attribute.Connector(exporter signal, receiver signal, id) *)
| Cap (p : pid)                     (* attribute.Capabilities(pipelineID) *)
| Fan (p : pid).                    (* attribute.Fanout(pipelineID) *)

Definition node_eqb (a b : node) : bool :=
  match a, b with
  | Recv s r, Recv s' r' => Nat.eqb s s' && Nat.eqb r r'
  | Proc p i, Proc p' i' => pid_eqb p p' && Nat.eqb i i'
  | Exp s e, Exp s' e' => Nat.eqb s s' && Nat.eqb e e'
  | Conn a1 a2 k, Conn b1 b2 k' => Nat.eqb a1 b1 && Nat.eqb a2 b2 && Nat.eqb k k'
  | Cap p, Cap p' => pid_eqb p p'
  | Fan p, Fan p' => pid_eqb p p'
  | _, _ => false
  end.

Definition edge_eqb (a b : node * node) : bool := node_eqb (fst a) (fst b) && node_eqb (snd a) (snd b).

(* set semantics of the Go maps keyed by node id (pipelineNodes.receivers/.exporters, the gonum
   node and edge maps): keep one occurrence (the last; order is not observable) *)
Fixpoint dedup {A} (eqb : A -> A -> bool) (l : list A) : list A :=
  match l with
  | [] => []
  | x :: r => if existsb (eqb x) r then dedup eqb r else x :: dedup eqb r
  end.

(* ---- createNodes -------------------------------------------------------------------------- *)
Definition recv_nodes (c : config) (P : pipeline) : list node :=
  map (Recv (p_sig P)) (filter (fun r => negb (is_conn c r)) (p_recv P)).
Definition proc_nodes (P : pipeline) : list node := map (Proc (p_id P)) (p_procs P).
Definition exp_nodes (c : config) (P : pipeline) : list node :=
  map (Exp (p_sig P)) (filter (fun e => negb (is_conn c e)) (p_exps P)).

(* the local maps connectors / connectorsAsExporter / connectorsAsReceiver *)
Definition used_conns (c : config) : list cid :=
  dedup Nat.eqb (flat_map (fun P => filter (is_conn c) (p_recv P) ++ filter (is_conn c) (p_exps P)) (pipes c)).
Definition as_exp (c : config) (k : cid) : list pipeline := filter (fun P => memn k (p_exps P)) (pipes c).
Definition as_recv (c : config) (k : cid) : list pipeline := filter (fun P => memn k (p_recv P)) (pipes c).

(* expTypes / recTypes and the two errors.  For one connector the exporter-side loop runs first;
   which connector (and which signal) is met first is Go map order. *)
Inductive cerr := ErrExp (k : cid) (s : nat) | ErrRecv (k : cid) (s : nat) | ErrNoFactory (k : cid).

Definition exp_types (c : config) (k : cid) : list nat := dedup Nat.eqb (map p_sig (as_exp c k)).
Definition rec_types (c : config) (k : cid) : list nat := dedup Nat.eqb (map p_sig (as_recv c k)).

Definition exp_errs (c : config) (k : cid) : list cerr :=
  map (ErrExp k) (filter (fun E => negb (existsb (fun R => supported c k E R) (rec_types c k))) (exp_types c k)).
Definition rec_errs (c : config) (k : cid) : list cerr :=
  map (ErrRecv k) (filter (fun R => negb (existsb (fun E => supported c k E R) (exp_types c k))) (rec_types c k)).
(* per connector: "connector factory not available for: <type>" comes first *)
Definition first_errs (c : config) (k : cid) : list cerr :=
  match lookup_conn k (conns c) with
  | Some None => [ErrNoFactory k]
  | _ => match exp_errs c k with [] => rec_errs c k | l => l end
  end.
Definition possible_errors (c : config) : list cerr := flat_map (first_errs c) (used_conns c).

(* the final double loop: one connector node per supported (exporter pipeline, receiver pipeline)
   pair, keyed by the two SIGNALS (so pairs with equal signals share the node) *)
Definition conn_links (c : config) : list (pipeline * pipeline * cid) :=
  flat_map (fun k =>
    flat_map (fun eP =>
      flat_map (fun rP => if supported c k (p_sig eP) (p_sig rP) then [(eP, rP, k)] else [])
               (as_recv c k))
             (as_exp c k))
           (used_conns c).

Definition link_node (l : pipeline * pipeline * cid) : node :=
  Conn (p_sig (fst (fst l))) (p_sig (snd (fst l))) (snd l).

(* g.pipelines[id].receivers / .exporters after createNodes *)
Definition receivers_of (c : config) (P : pipeline) : list node :=
  dedup node_eqb (recv_nodes c P ++
    map link_node (filter (fun l => pid_eqb (p_id (snd (fst l))) (p_id P)) (conn_links c))).
Definition exporters_of (c : config) (P : pipeline) : list node :=
  dedup node_eqb (exp_nodes c P ++
    map link_node (filter (fun l => pid_eqb (p_id (fst (fst l))) (p_id P)) (conn_links c))).

(* ---- createEdges -------------------------------------------------------------------------- *)
Definition chain_nodes (P : pipeline) : list node := Cap (p_id P) :: proc_nodes P ++ [Fan (p_id P)].

Fixpoint chain {A} (l : list A) : list (A * A) :=
  match l with
  | a :: t => match t with b :: _ => (a, b) :: chain t | [] => [] end
  | [] => []
  end.

Definition pipe_edges (c : config) (P : pipeline) : list (node * node) :=
  map (fun r => (r, Cap (p_id P))) (receivers_of c P)
  ++ chain (chain_nodes P)
  ++ map (fun e => (Fan (p_id P), e)) (exporters_of c P).

Definition edges_of (c : config) : list (node * node) :=
  dedup edge_eqb (flat_map (pipe_edges c) (pipes c)).

Definition nodes_of (c : config) : list node :=
  dedup node_eqb (flat_map (fun P => receivers_of c P ++ chain_nodes P ++ exporters_of c P) (pipes c)).

(* ---- buildComponents ---------------------------------------------------------------------- *)
Definition succs (E : list (node * node)) (v : node) : list node :=
  map snd (filter (fun e => node_eqb (fst e) v) E).

(* existsb with a real short cut (vm_compute is strict: [f x || existsb f r] would evaluate both) *)
Fixpoint anyb {A} (f : A -> bool) (l : list A) : bool :=
  match l with [] => false | x :: r => if f x then true else anyb f r end.

(* own cycle check (gonum topo.Sort is a library): is there a walk of [fuel] edges from v?
   With fuel = number of nodes such a walk exists iff a cycle is reachable from v. *)
Fixpoint longwalk (E : list (node * node)) (fuel : nat) (v : node) : bool :=
  match fuel with
  | 0 => true
  | S f => anyb (longwalk E f) (succs E v)
  end.

Definition cyclic (V : list node) (E : list (node * node)) : bool := anyb (longwalk E (length V)) V.

Record graph := mkG { g_nodes : list node; g_edges : list (node * node) }.

Inductive berr := EPanic | EUnsupported | ECycle | EFactory.
Inductive result := Ok (g : graph) | Err (e : berr).

Definition is_component (n : node) : bool :=
  match n with Cap _ | Fan _ => false | _ => true end.

(* builders.{Receiver,Processor,Exporter}Builder.CreateProfiles: "telemetry type is not supported" when the
   factory is not an x-factory; buildComponent wraps it ("failed to create ... for data type profiles") *)
Definition cannot_create (c : config) (n : node) : bool :=
  match n with
  | Recv 3 r => existsb (fun p => Nat.eqb (fst p) 0 && Nat.eqb (snd p) r) (noprof c)
  | Proc (3, _) i => existsb (fun p => Nat.eqb (fst p) 1 && Nat.eqb (snd p) i) (noprof c)
  | Exp 3 e => existsb (fun p => Nat.eqb (fst p) 2 && Nat.eqb (snd p) e) (noprof c)
  | _ => false
  end.

(* graph.Build.  EFactory: buildComponents creates the components one by one (reverse topological order) and
   returns the first factory error; the components created before it exist, none is started.
   EPanic: createProcessor calls AddNode unconditionally, gonum panics on a node-id
   collision, i.e. when one pipeline lists a processor twice (PipelineConfig.Validate rejects
   that configuration before Build is reached in the service). *)
Definition build (c : config) : result :=
  if existsb (fun P => has_dup (p_procs P)) (pipes c) then Err EPanic
  else if negb (is_nil (possible_errors c)) then Err EUnsupported
  else if cyclic (nodes_of c) (edges_of c) then Err ECycle
  else if existsb (cannot_create c) (filter is_component (nodes_of c)) then Err EFactory
  else Ok (mkG (nodes_of c) (edges_of c)).

(* one factory Create call per component node (the order — reverse topological — belongs to C10) *)
Definition created (g : graph) : list node := filter is_component (g_nodes g).

(* Graph.StartAll: "host cannot be nil" before anything is touched; otherwise every component is started
   (reverse topological order: C10) *)
Definition start_all (host_present : bool) (g : graph) : option (list node) :=
  if host_present then Some (created g) else None.

(* what the service does with the configuration: validate, build, start everything that was
   built (service.go: initGraph error => Start is never reached).  Event log as two multisets. *)
Inductive event := Create (n : node) | Start (n : node).
(* the factory calls made before the first failing one, given the creation order [ord] (an oracle: gonum's sort) *)
Fixpoint create_until (c : config) (ord : list node) : list node :=
  match ord with
  | [] => []
  | n :: r => if cannot_create c n then [] else n :: create_until c r
  end.

Definition service_log (ord : list node) (c : config) : list event :=
  if validate c then
    match build c with
    | Ok g => map Create (created g) ++ map Start (created g)
    | Err EFactory => map Create (create_until c ord)
    | Err _ => []
    end
  else [].

(* ---- data flow --------------------------------------------------------------------------- *)
(* Every consumer hands the datum to the consumers of ALL its out-edges (receiver: fan-out over
   nextConsumers; processor: its single next; fan-out node; connector: router fan-out over the
   capabilities nodes of its out-edges).  A walk that reaches a node without out-edges ends. *)
Fixpoint walks (E : list (node * node)) (fuel : nat) (v : node) : list (list node) :=
  match fuel with
  | 0 => []
  | S f =>
      match succs E v with
      | [] => [[v]]
      | ws => flat_map (fun w => map (cons v) (walks E f w)) ws
      end
  end.

Definition visible (n : node) : bool :=
  match n with Proc _ _ | Conn _ _ _ => true | _ => false end.

(* a complete walk as seen from outside: (exporter reached, processors and connectors passed) *)
Definition observe (w : list node) : option (node * list node) :=
  match last_opt w with
  | Some (Exp s e) => Some (Exp s e, filter visible w)
  | _ => None
  end.

Fixpoint omap {A B} (f : A -> option B) (l : list A) : list B :=
  match l with
  | [] => []
  | x :: r => match f x with Some y => y :: omap f r | None => omap f r end
  end.

Definition deliver_walks (g : graph) (r : node) : list (list node) :=
  walks (g_edges g) (length (g_nodes g)) r.

Definition deliver (g : graph) (r : node) : list (node * list node) := omap observe (deliver_walks g r).

(* Run-time faults.  A component in F refuses the datum: it returns an error without recording or
   forwarding.  Every fan-out point (receiver, fan-out node, connector router) still hands the datum to
   ALL its other consumers and reports the combined error (fanoutconsumer: multierr.Append, no early
   return), so exactly the walks that meet no refusing component are completed, and the receiver sees
   an error iff some walk meets one. *)
Definition memb (F : list node) (n : node) : bool := existsb (node_eqb n) F.

Definition deliver_f (g : graph) (F : list node) (r : node) : list (node * list node) :=
  omap observe (filter (fun w => negb (existsb (memb F) w)) (deliver_walks g r)).

Definition consume_error (g : graph) (F : list node) (r : node) : bool :=
  existsb (fun w => existsb (memb F) w) (deliver_walks g r).

(* connector.go build{Traces,Metrics,Logs,Profiles}: the router handed to a connector instance offers
   one consumer per pipeline id of its out-edges (all of them capabilities nodes) *)
Definition router_pids (g : graph) (n : node) : list pid :=
  omap (fun w => match w with Cap p => Some p | _ => None end) (succs (g_edges g) n).

(* connector/{logs,traces,metrics}_router.go, xconnector profiles router, connector/internal BaseRouter.Consumer:
   a connector may ask its router for the consumer of chosen pipelines.  No id: error "missing consumers"; an id
   that is not offered: error "missing consumer"; otherwise a fan-out over the consumers of exactly the requested
   ids, one entry per requested id (a repeated id is served once per repetition). *)
Definition router_consumer (offered ids : list pid) : option (list pid) :=
  match ids with
  | [] => None
  | _ => if forallb (fun p => existsb (pid_eqb p) offered) ids then Some ids else None
  end.

(* what arrives when a datum is sent into Consumer(ids...) of the router of connector instance n *)
Definition route_deliver (g : graph) (n : node) (ids : list pid) : option (list (node * list node)) :=
  match router_consumer (router_pids g n) ids with
  | Some l => Some (flat_map (fun p => deliver g (Cap p)) l)
  | None => None
  end.

Definition is_connector (n : node) : bool := match n with Conn _ _ _ => true | _ => false end.

(* ---- the reported cycle -------------------------------------------------------------------- *)
(* cycleErr prints the processors and connectors of gonum's first cycle, rotated to start at a
   connector, first element repeated at the end; capabilities and fan-out nodes are skipped.
   [link E x y]: y follows x on a walk whose interior consists of skipped nodes only (at most
   two: Cap p -> Fan p when the pipeline has no processors). *)
Definition skipped (n : node) : bool := match n with Cap _ | Fan _ => true | _ => false end.

Definition link (E : list (node * node)) (x y : node) : bool :=
  existsb (fun a =>
    node_eqb a y ||
    (skipped a && existsb (fun b =>
       node_eqb b y || (skipped b && existsb (node_eqb y) (succs E b))) (succs E a)))
    (succs E x).

Fixpoint links (E : list (node * node)) (l : list node) : bool :=
  match l with
  | a :: t => match t with b :: _ => link E a b && links E t | [] => true end
  | [] => true
  end.

Definition check_cycle_report (c : config) (l : list node) : bool :=
  match l with
  | Conn a b k :: _ :: _ =>
      option_eqb node_eqb (last_opt l) (Some (Conn a b k)) && forallb visible l && links (edges_of c) l
  | _ => false
  end.
