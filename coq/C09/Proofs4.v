(* C09/Proofs4.v — when Build succeeds, which instances exist, what a build error leaves behind,
   the reported cycle. *)
From Verif Require Import Common.Base C09.Model C09.Spec C09.Proofs1 C09.Proofs2 C09.Proofs3.

(* ---- the two "not used in any supported ... pipeline" errors -------------------------------------- *)
Lemma In_exp_types c k E :
  In E (exp_types c k) <-> exists P, In P (pipes c) /\ In k (p_exps P) /\ p_sig P = E.
Proof.
  unfold exp_types. rewrite (In_dedup Nat.eqb Nat.eqb_eq), in_map_iff. split.
  - intros [P [Es H]]. apply In_as_exp in H. exists P. tauto.
  - intros [P [H1 [H2 Es]]]. exists P. split; [exact Es | apply In_as_exp; tauto].
Qed.

Lemma In_rec_types c k R :
  In R (rec_types c k) <-> exists P, In P (pipes c) /\ In k (p_recv P) /\ p_sig P = R.
Proof.
  unfold rec_types. rewrite (In_dedup Nat.eqb Nat.eqb_eq), in_map_iff. split.
  - intros [P [Es H]]. apply In_as_recv in H. exists P. tauto.
  - intros [P [H1 [H2 Es]]]. exists P. split; [exact Es | apply In_as_recv; tauto].
Qed.

Lemma filter_nil_iff {A} (f : A -> bool) l : filter f l = [] <-> forall x, In x l -> f x = false.
Proof.
  induction l as [|a l IH]; simpl; [split; [intros _ x [] | reflexivity]|].
  destruct (f a) eqn:E.
  - split; [discriminate|]. intros H. specialize (H a (or_introl eq_refl)). congruence.
  - rewrite IH. split; [intros H x [<-|Hx]; auto | intros H x Hx; apply H; right; exact Hx].
Qed.

Lemma map_nil_iff {A B} (f : A -> B) l : map f l = [] <-> l = [].
Proof. destruct l; simpl; split; congruence. Qed.

Lemma flat_map_nil_iff {A B} (f : A -> list B) l : flat_map f l = [] <-> forall x, In x l -> f x = [].
Proof.
  induction l as [|a l IH]; simpl; [split; [intros _ x [] | reflexivity]|].
  split.
  - intros H. apply app_eq_nil in H. destruct H as [H1 H2]. intros x [<-|Hx]; [exact H1 | apply IH; assumption].
  - intros H. rewrite (H a (or_introl eq_refl)). simpl. apply IH. intros x Hx. apply H. right. exact Hx.
Qed.

Lemma exp_errs_nil c k :
  exp_errs c k = [] <->
  forall P, In P (pipes c) -> In k (p_exps P) ->
    exists Q, In Q (pipes c) /\ In k (p_recv Q) /\ supported c k (p_sig P) (p_sig Q) = true.
Proof.
  unfold exp_errs. rewrite map_nil_iff, filter_nil_iff. split.
  - intros H P HP Hk. specialize (H (p_sig P)). rewrite negb_false_iff in H.
    assert (T : In (p_sig P) (exp_types c k)) by (apply In_exp_types; exists P; tauto).
    apply H, existsb_exists in T. destruct T as [R [HR S]]. apply In_rec_types in HR.
    destruct HR as [Q [HQ [HkQ <-]]]. exists Q. tauto.
  - intros H E HE. apply In_exp_types in HE. destruct HE as [P [HP [Hk <-]]].
    rewrite negb_false_iff. apply existsb_exists. destruct (H P HP Hk) as [Q [HQ [HkQ S]]].
    exists (p_sig Q). split; [apply In_rec_types; exists Q; tauto | exact S].
Qed.

Lemma rec_errs_nil c k :
  rec_errs c k = [] <->
  forall P, In P (pipes c) -> In k (p_recv P) ->
    exists Q, In Q (pipes c) /\ In k (p_exps Q) /\ supported c k (p_sig Q) (p_sig P) = true.
Proof.
  unfold rec_errs. rewrite map_nil_iff, filter_nil_iff. split.
  - intros H P HP Hk. specialize (H (p_sig P)). rewrite negb_false_iff in H.
    assert (T : In (p_sig P) (rec_types c k)) by (apply In_rec_types; exists P; tauto).
    apply H, existsb_exists in T. destruct T as [R [HR S]]. apply In_exp_types in HR.
    destruct HR as [Q [HQ [HkQ <-]]]. exists Q. tauto.
  - intros H E HE. apply In_rec_types in HE. destruct HE as [P [HP [Hk <-]]].
    rewrite negb_false_iff. apply existsb_exists. destruct (H P HP Hk) as [Q [HQ [HkQ S]]].
    exists (p_sig Q). split; [apply In_exp_types; exists Q; tauto | exact S].
Qed.

Lemma first_errs_nil c k :
  lookup_conn k (conns c) <> Some None -> (first_errs c k = [] <-> exp_errs c k = [] /\ rec_errs c k = []).
Proof.
  intros L. unfold first_errs. destruct (lookup_conn k (conns c)) as [[p|]|]; try congruence;
    destruct (exp_errs c k); split; try tauto; try (intros [H _]; discriminate); discriminate.
Qed.

Lemma first_errs_nil_factory c k : first_errs c k = [] -> lookup_conn k (conns c) <> Some None.
Proof. unfold first_errs. intros H E. rewrite E in H. discriminate. Qed.

Lemma supported_has_factory c k E R : supported c k E R = true -> lookup_conn k (conns c) <> Some None.
Proof. unfold supported. intros H L. rewrite L in H. discriminate. Qed.

Lemma possible_errors_nil c : possible_errors c = [] <-> connectors_supported c.
Proof.
  unfold possible_errors, connectors_supported. rewrite flat_map_nil_iff. split.
  - intros H k P C HP. split; intros Hk.
    + assert (U : In k (used_conns c)) by (apply In_used_conns; split; [exact C | exists P; tauto]).
      apply H in U. pose proof (first_errs_nil_factory c k U) as L. apply (first_errs_nil c k L) in U.
      destruct U as [U _]. apply (proj1 (exp_errs_nil c k) U P HP Hk).
    + assert (U : In k (used_conns c)) by (apply In_used_conns; split; [exact C | exists P; tauto]).
      apply H in U. pose proof (first_errs_nil_factory c k U) as L. apply (first_errs_nil c k L) in U.
      destruct U as [_ U]. apply (proj1 (rec_errs_nil c k) U P HP Hk).
  - intros H k U. apply In_used_conns in U. destruct U as [C [P0 [HP0 Huse]]]. apply first_errs_nil.
    { destruct Huse as [Hk|Hk]; [destruct (proj2 (H k P0 C HP0) Hk) as [Q [_ [_ S]]] | destruct (proj1 (H k P0 C HP0) Hk) as [Q [_ [_ S]]]];
        apply (supported_has_factory _ _ _ _ S). }
    split.
    + apply exp_errs_nil. intros P HP Hk. apply (H k P C HP). exact Hk.
    + apply rec_errs_nil. intros P HP Hk. apply (H k P C HP). exact Hk.
Qed.

(* ---- build = Ok ---------------------------------------------------------------------------------- *)
Lemma In_created_pre c n : In n (filter is_component (nodes_of c)) <-> In n (created (mkG (nodes_of c) (edges_of c))).
Proof. reflexivity. Qed.

Lemma build_err_class_pre c :
  (build c = Err EPanic <-> ~ procs_distinct c) /\
  (build c = Err EUnsupported <-> procs_distinct c /\ ~ connectors_supported c) /\
  (build c = Err ECycle <-> procs_distinct c /\ connectors_supported c /\ ~ acyclic (edges_of c)).
Proof.
  unfold build.
  pose proof (no_dup_procs_iff c) as D. pose proof (possible_errors_nil c) as S.
  pose proof (cyclic_false_iff _ _ (edges_closed_of c)) as A.
  destruct (existsb (fun P => has_dup (p_procs P)) (pipes c)).
  - assert (ND : ~ procs_distinct c) by (intros H; apply D in H; discriminate).
    split; [|split]; (split; intros HH); try reflexivity; try tauto; try discriminate.
  - assert (HD : procs_distinct c) by (apply D; reflexivity).
    destruct (possible_errors c) as [|e0 es] eqn:PE; simpl.
    + assert (HS : connectors_supported c) by (apply S; reflexivity).
      destruct (cyclic (nodes_of c) (edges_of c)).
      * assert (NA : ~ acyclic (edges_of c)) by (intros H; apply A in H; discriminate).
        split; [|split]; (split; intros HH); try reflexivity; try tauto; try discriminate.
      * assert (HA : acyclic (edges_of c)) by (apply A; reflexivity).
        destruct (existsb (cannot_create c) (filter is_component (nodes_of c)));
          (split; [|split]; (split; intros HH); try reflexivity; try tauto; try discriminate).
    + assert (NS : ~ connectors_supported c) by (intros H; apply S in H; discriminate).
      split; [|split]; (split; intros HH); try reflexivity; try tauto; try discriminate.
Qed.

(* connector usage that forms a cycle is a cycle of the component graph *)
Lemma is_walk_chain E l : (forall e, In e (chain l) -> In e E) -> is_walk E l.
Proof.
  induction l as [|a l IH]; intros H; [exact I|]. destruct l as [|b l]; [exact I|].
  split; [apply H; left; reflexivity | apply IH; intros e He; apply H; right; exact He].
Qed.

Lemma plink_walk c P Q : plink c P Q -> exists w, is_walk (edges_of c) (Cap (p_id P) :: w ++ [Cap (p_id Q)]).
Proof.
  intros [HP [HQ [k [Hk [HkQ S]]]]].
  exists (proc_nodes P ++ [Fan (p_id P); Conn (p_sig P) (p_sig Q) k]).
  replace (Cap (p_id P) :: (proc_nodes P ++ [Fan (p_id P); Conn (p_sig P) (p_sig Q) k]) ++ [Cap (p_id Q)])
    with ((Cap (p_id P) :: proc_nodes P) ++ Fan (p_id P) :: [Conn (p_sig P) (p_sig Q) k; Cap (p_id Q)])
    by (simpl; rewrite <- app_assoc; reflexivity).
  apply is_walk_join.
  - apply is_walk_chain. intros e He. apply (chain_edge_in c P e HP He).
  - assert (L : In (P, Q, k) (conn_links c)) by (apply In_conn_links; tauto).
    split; [|split; [|exact I]].
    + apply In_edges_of. exists P. split; [exact HP|]. right. right. split; [reflexivity|].
      apply In_exporters_of. right. exists P, Q, k. tauto.
    + apply In_edges_of. exists Q. split; [exact HQ|]. left. split; [|reflexivity].
      apply In_receivers_of. right. exists P, Q, k. tauto.
Qed.

Lemma plinks_walk c : forall l P, plinks c (P :: l) -> l <> [] ->
  exists Z w, last_opt (P :: l) = Some Z /\ is_walk (edges_of c) (Cap (p_id P) :: w ++ [Cap (p_id Z)]).
Proof.
  induction l as [|Q l IH]; intros P H NE; [congruence|].
  destruct l as [|R l].
  - destruct H as [H _]. destruct (plink_walk c P Q H) as [w W]. exists Q, w. split; [reflexivity | exact W].
  - destruct H as [H1 H2]. destruct (plink_walk c P Q H1) as [w1 W1].
    destruct (IH Q H2) as [Z [w2 [L W2]]]; [discriminate|].
    exists Z, (w1 ++ Cap (p_id Q) :: w2). split; [exact L|].
    replace (Cap (p_id P) :: (w1 ++ Cap (p_id Q) :: w2) ++ [Cap (p_id Z)])
      with ((Cap (p_id P) :: w1) ++ Cap (p_id Q) :: w2 ++ [Cap (p_id Z)])
      by (simpl; rewrite <- app_assoc; reflexivity).
    apply is_walk_join; assumption.
Qed.

Lemma connector_cycle_not_acyclic c : connector_cycle c -> ~ acyclic (edges_of c).
Proof.
  intros [P [l H]] A.
  destruct (plinks_walk c (l ++ [P]) P H) as [Z [w [L W]]]; [destruct l; discriminate|].
  change (P :: l ++ [P]) with ((P :: l) ++ [P]) in L. rewrite last_opt_app in L. inversion L; subst.
  exact (A _ _ W).
Qed.

(* ---- instances ------------------------------------------------------------------------------------ *)
Lemma In_created c n : In n (created (mkG (nodes_of c) (edges_of c))) <-> instance_spec c n.
Proof.
  unfold created. simpl. rewrite filter_In, In_nodes_of. split.
  - intros [[P [HP H]] C]. destruct n as [s r|p i|s e|se sr k|p|p]; try discriminate; simpl.
    + destruct H as [H|[H|H]].
      * apply In_receivers_of in H. destruct H as [[r' [E [Hr Hc]]]|[? [? [? [E _]]]]]; [|discriminate].
        inversion E; subst. exists P. tauto.
      * apply In_chain_nodes in H. destruct H as [H|[[j [H _]]|H]]; discriminate.
      * apply In_exporters_of in H. destruct H as [[? [E _]]|[? [? [? [E _]]]]]; discriminate.
    + destruct H as [H|[H|H]].
      * apply In_receivers_of in H. destruct H as [[? [E _]]|[? [? [? [E _]]]]]; discriminate.
      * apply In_chain_nodes in H. destruct H as [H|[[j [H Hj]]|H]]; try discriminate.
        inversion H; subst. exists P. tauto.
      * apply In_exporters_of in H. destruct H as [[? [E _]]|[? [? [? [E _]]]]]; discriminate.
    + destruct H as [H|[H|H]].
      * apply In_receivers_of in H. destruct H as [[? [E _]]|[? [? [? [E _]]]]]; discriminate.
      * apply In_chain_nodes in H. destruct H as [H|[[j [H _]]|H]]; discriminate.
      * apply In_exporters_of in H. destruct H as [[e' [E [He Hc]]]|[? [? [? [E _]]]]]; [|discriminate].
        inversion E; subst. exists P. tauto.
    + assert (G : exists eP rP, Conn se sr k = Conn (p_sig eP) (p_sig rP) k /\ In (eP, rP, k) (conn_links c)).
      { destruct H as [H|[H|H]].
        - apply In_receivers_of in H. destruct H as [[? [E _]]|[eP [rP [k' [E [_ L]]]]]]; [discriminate|].
          inversion E; subst. eauto.
        - apply In_chain_nodes in H. destruct H as [H|[[j [H _]]|H]]; discriminate.
        - apply In_exporters_of in H. destruct H as [[? [E _]]|[eP [rP [k' [E [_ L]]]]]]; [discriminate|].
          inversion E; subst. eauto. }
      destruct G as [eP [rP [E L]]]. inversion E; subst. apply In_conn_links in L.
      exists eP, rP. tauto.
  - destruct n as [s r|p i|s e|se sr k|p|p]; simpl; try tauto.
    + intros [P [HP [Es [Hr Hc]]]]. split; [|reflexivity]. exists P. split; [exact HP|]. left.
      apply In_receivers_of. left. exists r. rewrite Es. tauto.
    + intros [P [HP [Ep Hi]]]. split; [|reflexivity]. exists P. split; [exact HP|]. right. left.
      apply In_chain_nodes. right. left. exists i. rewrite Ep. tauto.
    + intros [P [HP [Es [He Hc]]]]. split; [|reflexivity]. exists P. split; [exact HP|]. right. right.
      apply In_exporters_of. left. exists e. rewrite Es. tauto.
    + intros [P [Q [HP [HQ [E1 [E2 [Hk [HkQ S]]]]]]]]. split; [|reflexivity]. exists P. split; [exact HP|]. right. right.
      apply In_exporters_of. right. exists P, Q, k. subst. split; [reflexivity|]. split; [reflexivity|].
      apply In_conn_links. tauto.
Qed.

Lemma factories_serve_iff c :
  existsb (cannot_create c) (filter is_component (nodes_of c)) = false <-> factories_serve c.
Proof.
  unfold factories_serve. split.
  - intros H n Hn. apply In_created, In_created_pre in Hn. destruct (cannot_create c n) eqn:E; [|reflexivity].
    assert (T : existsb (cannot_create c) (filter is_component (nodes_of c)) = true) by (apply existsb_exists; exists n; tauto).
    congruence.
  - intros H. destruct (existsb (cannot_create c) (filter is_component (nodes_of c))) eqn:E; [|reflexivity].
    apply existsb_exists in E. destruct E as [n [Hn E]]. apply In_created_pre, In_created in Hn. rewrite (H n Hn) in E. discriminate.
Qed.

Lemma build_ok_iff_l c g :
  build c = Ok g <->
  g = mkG (nodes_of c) (edges_of c) /\ procs_distinct c /\ connectors_supported c /\ acyclic (edges_of c) /\
  factories_serve c.
Proof.
  split.
  - intros B. pose proof B as B'. apply build_ok_inv in B. destruct B as [E [D [PE A]]]. apply possible_errors_nil in PE.
    repeat (split; [assumption|]). apply factories_serve_iff.
    unfold build in B'. destruct (existsb (fun P => has_dup (p_procs P)) (pipes c)); [discriminate|].
    destruct (negb (is_nil (possible_errors c))); [discriminate|].
    destruct (cyclic (nodes_of c) (edges_of c)); [discriminate|].
    destruct (existsb (cannot_create c) (filter is_component (nodes_of c))); [discriminate | reflexivity].
  - intros [-> [D [S [A F]]]]. unfold build.
    rewrite (proj2 (no_dup_procs_iff c) D).
    rewrite (proj2 (possible_errors_nil c) S). simpl.
    rewrite (proj2 (cyclic_false_iff _ _ (edges_closed_of c)) A).
    rewrite (proj2 (factories_serve_iff c) F). reflexivity.
Qed.

Lemma build_err_class c :
  (build c = Err EPanic <-> ~ procs_distinct c) /\
  (build c = Err EUnsupported <-> procs_distinct c /\ ~ connectors_supported c) /\
  (build c = Err ECycle <-> procs_distinct c /\ connectors_supported c /\ ~ acyclic (edges_of c)) /\
  (build c = Err EFactory <->
     procs_distinct c /\ connectors_supported c /\ acyclic (edges_of c) /\ ~ factories_serve c).
Proof.
  destruct (build_err_class_pre c) as [H1 [H2 H3]]. repeat (split; [assumption|]).
  destruct (build c) as [g|e] eqn:B.
  - apply build_ok_iff_l in B. split; [discriminate | tauto].
  - assert (NOk : ~ (procs_distinct c /\ connectors_supported c /\ acyclic (edges_of c) /\ factories_serve c)).
    { intros [D [S [A F]]]. assert (B' : build c = Ok (mkG (nodes_of c) (edges_of c))) by (apply build_ok_iff_l; tauto). congruence. }
    destruct e.
    + split; [discriminate|]. intros [D _]. apply H1 in D; [contradiction | reflexivity].
    + split; [discriminate|]. intros [D [S _]]. assert (E : Err EUnsupported = Err EUnsupported) by reflexivity. apply H2 in E. tauto.
    + split; [discriminate|]. intros [D [S [A _]]]. assert (E : Err ECycle = Err ECycle) by reflexivity. apply H3 in E. tauto.
    + split; [intros _ | reflexivity].
      assert (D : procs_distinct c).
      { unfold build in B. apply no_dup_procs_iff. destruct (existsb (fun P => has_dup (p_procs P)) (pipes c)); [discriminate | reflexivity]. }
      assert (S : connectors_supported c).
      { unfold build in B. apply possible_errors_nil. destruct (existsb (fun P => has_dup (p_procs P)) (pipes c)); [discriminate|].
        destruct (possible_errors c); [reflexivity | discriminate]. }
      assert (A : acyclic (edges_of c)).
      { unfold build in B. apply (cyclic_false_iff _ _ (edges_closed_of c)).
        destruct (existsb (fun P => has_dup (p_procs P)) (pipes c)); [discriminate|].
        destruct (negb (is_nil (possible_errors c))); [discriminate|].
        destruct (cyclic (nodes_of c) (edges_of c)); [discriminate | reflexivity]. }
      tauto.
Qed.

Lemma NoDup_created c : NoDup (created (mkG (nodes_of c) (edges_of c))).
Proof. unfold created. simpl. apply NoDup_filter. apply (NoDup_dedup node_eqb node_eqb_spec). Qed.

(* ---- nothing is started on error -------------------------------------------------------------------- *)
Lemma create_until_spec c ord n : In n (create_until c ord) -> In n ord /\ cannot_create c n = false.
Proof.
  induction ord as [|a ord IH]; simpl; [intros []|]. destruct (cannot_create c a) eqn:E; [intros []|].
  intros [<-|H]; [tauto|]. destruct (IH H). tauto.
Qed.

Lemma service_log_err ord c e :
  build c = Err e ->
  (e <> EFactory -> service_log ord c = []) /\
  (forall n, ~ In (Start n) (service_log ord c)) /\
  (forall n, In (Create n) (service_log ord c) -> In n ord /\ cannot_create c n = false).
Proof.
  intros H. unfold service_log. rewrite H. destruct (validate c).
  2:{ split; [intros _; reflexivity|]. split; intros n []. }
  destruct e.
  1-3: (split; [intros _; reflexivity|]; split; intros n []).
  split; [intros NE; congruence|].
  split; intros n Hn; apply in_map_iff in Hn; destruct Hn as [x [E Hx]]; [discriminate|].
  inversion E; subst. apply (create_until_spec c ord n Hx).
Qed.

Lemma service_log_invalid ord c : validate c = false -> service_log ord c = [].
Proof. intros H. unfold service_log. rewrite H. reflexivity. Qed.

Lemma service_log_start ord c n :
  In (Start n) (service_log ord c) ->
  validate c = true /\ exists g, build c = Ok g /\ In n (created g) /\ In (Create n) (service_log ord c).
Proof.
  unfold service_log. destruct (validate c); [|intros []]. destruct (build c) as [g|e];
    [|destruct e; try (intros []); intros Hn; apply in_map_iff in Hn; destruct Hn as [x [E _]]; discriminate].
  cbv beta iota. rewrite !in_app_iff, !in_map_iff. intros [[x [E _]]|[x [E Hx]]]; [discriminate|]. inversion E; subst.
  split; [reflexivity|]. exists g. split; [reflexivity|]. split; [exact Hx|]. apply in_app_iff. left. apply in_map. exact Hx.
Qed.

(* ---- the reported cycle ------------------------------------------------------------------------------ *)
Lemma skipped_not_visible n : skipped n = true -> visible n = false.
Proof. destruct n; simpl; congruence. Qed.

Lemma link_walk E x y :
  link E x y = true -> exists mid, is_walk E (x :: mid ++ [y]) /\ filter visible mid = [].
Proof.
  unfold link. rewrite existsb_exists. intros [a [Ha H]]. apply succs_In in Ha.
  apply orb_true_iff in H. destruct H as [H|H].
  - apply node_eqb_spec in H. subst. exists []. simpl. tauto.
  - apply andb_true_iff in H. destruct H as [Sa H]. apply existsb_exists in H. destruct H as [b [Hb H]].
    apply succs_In in Hb. apply orb_true_iff in H. destruct H as [H|H].
    + apply node_eqb_spec in H. subst. exists [a]. simpl. rewrite (skipped_not_visible a Sa). tauto.
    + apply andb_true_iff in H. destruct H as [Sb H]. apply existsb_exists in H. destruct H as [y' [Hy H]].
      apply node_eqb_spec in H. subst y'. apply succs_In in Hy.
      exists [a; b]. simpl. rewrite (skipped_not_visible a Sa), (skipped_not_visible b Sb). tauto.
Qed.

Lemma links_walk E : forall l x,
  links E (x :: l) = true -> forallb visible (x :: l) = true ->
  exists w, is_walk E (x :: w) /\ filter visible (x :: w) = x :: l /\ last_opt (x :: w) = last_opt (x :: l) /\
            (l <> [] -> w <> []).
Proof.
  induction l as [|y l IH]; intros x HL HV.
  - exists []. simpl in *. rewrite andb_true_iff in HV. destruct HV as [-> _]. tauto.
  - change (links E (x :: y :: l)) with (link E x y && links E (y :: l)) in HL.
    apply andb_true_iff in HL. destruct HL as [H1 H2].
    change (forallb visible (x :: y :: l)) with (visible x && forallb visible (y :: l)) in HV.
    apply andb_true_iff in HV. destruct HV as [Vx HV].
    destruct (IH y H2 HV) as [w' [W' [F' [L' _]]]].
    destruct (link_walk E x y H1) as [mid [Wm Fm]].
    exists (mid ++ y :: w'). split; [|split; [|split]].
    + change (x :: mid ++ y :: w') with ((x :: mid) ++ y :: w'). apply is_walk_join; assumption.
    + change (x :: mid ++ y :: w') with ((x :: mid) ++ y :: w'). rewrite filter_app, F'. simpl. rewrite Vx, Fm. reflexivity.
    + change (x :: mid ++ y :: w') with ((x :: mid) ++ y :: w'). rewrite last_opt_app_ne by discriminate.
      rewrite L'. symmetry. apply last_opt_cons_ne. discriminate.
    + intros _. destruct mid; discriminate.
Qed.

Lemma cycle_report_l c l :
  check_cycle_report c l = true ->
  exists a b k m, is_walk (edges_of c) (Conn a b k :: m ++ [Conn a b k]) /\
                  filter visible (Conn a b k :: m ++ [Conn a b k]) = l.
Proof.
  unfold check_cycle_report. destruct l as [|[s r|p i|s e|a b k|p|p] [|y l]]; try discriminate.
  rewrite !andb_true_iff. intros [[HL HV] HK].
  destruct (links_walk (edges_of c) (y :: l) (Conn a b k) HK HV) as [w [W [F [L NE]]]].
  assert (NEw : w <> []) by (apply NE; discriminate).
  destruct (exists_last NEw) as [m [z ->]].
  assert (z = Conn a b k).
  { change (Conn a b k :: m ++ [z]) with ((Conn a b k :: m) ++ [z]) in L. rewrite last_opt_app in L.
    destruct (last_opt (Conn a b k :: y :: l)) as [q|]; simpl in HL; [|discriminate].
    apply node_eqb_spec in HL. inversion L. congruence. }
  subst z. exists a, b, k, m. tauto.
Qed.
