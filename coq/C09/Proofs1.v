(* C09/Proofs1.v — generic lemmas: boolean equalities, dedup, walks in a finite graph,
   the fuel-bounded cycle check and walk enumeration of Model.v against their declarative readings. *)
From Verif Require Import Common.Base C09.Model.
From Coq Require Import Permutation.

(* ---- boolean equalities ---------------------------------------------------------------------- *)
Lemma pid_eqb_spec a b : pid_eqb a b = true <-> a = b.
Proof.
  destruct a as [a1 a2], b as [b1 b2]. unfold pid_eqb. simpl.
  rewrite andb_true_iff, !Nat.eqb_eq. split; [intros [-> ->]; reflexivity | intros E; inversion E; auto].
Qed.

Lemma pid_eqb_refl a : pid_eqb a a = true.
Proof. apply pid_eqb_spec. reflexivity. Qed.

Lemma node_eqb_spec a b : node_eqb a b = true <-> a = b.
Proof.
  destruct a, b; simpl; try (split; [discriminate | intros E; inversion E]);
    rewrite ?andb_true_iff, ?Nat.eqb_eq, ?pid_eqb_spec;
    (split; [intuition congruence | intros E; inversion E; auto]).
Qed.

Lemma node_eqb_refl a : node_eqb a a = true.
Proof. apply node_eqb_spec. reflexivity. Qed.

Lemma node_eq_dec (a b : node) : {a = b} + {a <> b}.
Proof.
  destruct (node_eqb a b) eqn:E; [left; apply node_eqb_spec; exact E | right].
  intros H. apply node_eqb_spec in H. congruence.
Qed.

Lemma edge_eqb_spec a b : edge_eqb a b = true <-> a = b.
Proof.
  destruct a as [a1 a2], b as [b1 b2]. unfold edge_eqb. simpl.
  rewrite andb_true_iff, !node_eqb_spec. split; [intros [-> ->]; reflexivity | intros E; inversion E; auto].
Qed.

Lemma memn_In k l : memn k l = true <-> In k l.
Proof.
  unfold memn. rewrite existsb_exists. split.
  - intros [x [Hx E]]. apply Nat.eqb_eq in E. subst. exact Hx.
  - intros H. exists k. split; [exact H | apply Nat.eqb_refl].
Qed.

Lemma anyb_existsb {A} (f : A -> bool) l : anyb f l = existsb f l.
Proof. induction l as [|x r IH]; simpl; [reflexivity|]. rewrite IH. destruct (f x); reflexivity. Qed.

Lemma is_nil_iff {A} (l : list A) : is_nil l = true <-> l = [].
Proof. destruct l; simpl; split; congruence. Qed.

(* ---- dedup ------------------------------------------------------------------------------------ *)
Section Dedup.
  Context {A : Type} (eqb : A -> A -> bool).
  Hypothesis eqb_spec : forall x y, eqb x y = true <-> x = y.

  Lemma existsb_eqb_In x l : existsb (eqb x) l = true <-> In x l.
  Proof.
    rewrite existsb_exists. split.
    - intros [y [Hy E]]. apply eqb_spec in E. subst. exact Hy.
    - intros H. exists x. split; [exact H | apply eqb_spec; reflexivity].
  Qed.

  Lemma In_dedup x l : In x (dedup eqb l) <-> In x l.
  Proof.
    induction l as [|y r IH]; simpl; [tauto|].
    destruct (existsb (eqb y) r) eqn:E.
    - rewrite IH. split; [auto|]. intros [->|H]; [apply existsb_eqb_In; exact E | exact H].
    - simpl. rewrite IH. tauto.
  Qed.

  Lemma NoDup_dedup l : NoDup (dedup eqb l).
  Proof.
    induction l as [|y r IH]; simpl; [constructor|].
    destruct (existsb (eqb y) r) eqn:E; [exact IH|].
    constructor; [|exact IH]. rewrite In_dedup. intros H. apply existsb_eqb_In in H. congruence.
  Qed.
End Dedup.

(* ---- small list facts ------------------------------------------------------------------------ *)
Lemma NoDup_map_inj {A B} (f : A -> B) l :
  (forall x y, f x = f y -> x = y) -> NoDup l -> NoDup (map f l).
Proof.
  intros Inj H. induction H as [|x l Hx H IH]; simpl; constructor; [|exact IH].
  rewrite in_map_iff. intros [y [E Hy]]. apply Inj in E. subst. contradiction.
Qed.

Lemma has_dup_false l : has_dup l = false <-> NoDup l.
Proof.
  induction l as [|x r IH]; simpl.
  - split; [constructor | reflexivity].
  - rewrite orb_false_iff, IH. split.
    + intros [M N]. constructor; [|exact N]. intros H. apply memn_In in H. congruence.
    + intros H. inversion H as [|? ? Hx Hr]; subst. split; [|exact Hr].
      destruct (memn x r) eqn:E; [apply memn_In in E; contradiction | reflexivity].
Qed.

Lemma not_NoDup_split (l : list node) :
  ~ NoDup l -> exists x l1 l2 l3, l = l1 ++ x :: l2 ++ x :: l3.
Proof.
  induction l as [|a l IH]; intros H.
  - exfalso. apply H. constructor.
  - destruct (in_dec node_eq_dec a l) as [Hin|Hnin].
    + apply in_split in Hin. destruct Hin as [l2 [l3 ->]]. exists a, [], l2, l3. reflexivity.
    + destruct IH as [x [l1 [l2 [l3 ->]]]].
      * intros N. apply H. constructor; assumption.
      * exists x, (a :: l1), l2, l3. reflexivity.
Qed.

Lemma last_opt_cons_ne {A} (a : A) l : l <> [] -> last_opt (a :: l) = last_opt l.
Proof. destruct l; [congruence | reflexivity]. Qed.

Lemma last_opt_app_ne {A} (l1 l2 : list A) : l2 <> [] -> last_opt (l1 ++ l2) = last_opt l2.
Proof.
  intros H. induction l1 as [|a l1 IH]; [reflexivity|].
  simpl app. rewrite last_opt_cons_ne; [exact IH|]. destruct l1; simpl; [exact H | discriminate].
Qed.

(* ---- walks ------------------------------------------------------------------------------------ *)
Fixpoint is_walk (E : list (node * node)) (l : list node) : Prop :=
  match l with
  | a :: t => match t with b :: _ => In (a, b) E /\ is_walk E t | [] => True end
  | [] => True
  end.

Lemma is_walk_cons E a b t : is_walk E (a :: b :: t) <-> In (a, b) E /\ is_walk E (b :: t).
Proof. reflexivity. Qed.

Lemma is_walk_app_l E l1 l2 : is_walk E (l1 ++ l2) -> is_walk E l1.
Proof.
  induction l1 as [|a l1 IH]; [intros; exact I|].
  destruct l1 as [|b l1]; [intros; exact I|].
  simpl app. rewrite !is_walk_cons. intros [H1 H2]. split; [exact H1 | apply IH; exact H2].
Qed.

Lemma is_walk_app_r E l1 l2 : is_walk E (l1 ++ l2) -> is_walk E l2.
Proof.
  induction l1 as [|a l1 IH]; [auto|].
  simpl app. intros H. apply IH. destruct (l1 ++ l2); [exact I | apply H].
Qed.

Lemma is_walk_join E l1 x l2 : is_walk E (l1 ++ [x]) -> is_walk E (x :: l2) -> is_walk E (l1 ++ x :: l2).
Proof.
  induction l1 as [|a l1 IH]; [auto|].
  intros H1 H2. destruct l1 as [|b l1].
  - simpl in *. split; [apply H1 | exact H2].
  - simpl app in *. rewrite is_walk_cons in *. destruct H1 as [Hab H1]. split; [exact Hab | apply IH; assumption].
Qed.

Lemma succs_In E v w : In w (succs E v) <-> In (v, w) E.
Proof.
  unfold succs. rewrite in_map_iff. split.
  - intros [[a b] [Eb H]]. apply filter_In in H. destruct H as [H Ea]. simpl in *.
    apply node_eqb_spec in Ea. subst. exact H.
  - intros H. exists (v, w). split; [reflexivity|]. apply filter_In. split; [exact H | apply node_eqb_refl].
Qed.

Lemma NoDup_succs E v : NoDup E -> NoDup (succs E v).
Proof.
  intros H. unfold succs. induction H as [|[a b] E Hx H IH]; simpl; [constructor|].
  destruct (node_eqb a v) eqn:Ea; [|exact IH]. simpl. constructor; [|exact IH].
  apply node_eqb_spec in Ea. subst. intros Hin. apply (succs_In E v b) in Hin. contradiction.
Qed.

Definition acyclic (E : list (node * node)) : Prop := forall v l, ~ is_walk E (v :: l ++ [v]).

Definition edges_closed (V : list node) (E : list (node * node)) : Prop :=
  forall a b, In (a, b) E -> In a V /\ In b V.

Lemma walk_nodes_in V E l : edges_closed V E -> is_walk E l -> 2 <= length l -> incl l V.
Proof.
  intros C. induction l as [|a l IH]; intros W L; [simpl in L; lia|].
  destruct l as [|b l]; [simpl in L; lia|].
  destruct W as [Hab W]. destruct (C _ _ Hab) as [Ha Hb].
  intros x [<-|Hx]; [exact Ha|].
  destruct l as [|d l].
  - destruct Hx as [<-|[]]. exact Hb.
  - apply IH; [exact W | simpl; lia | exact Hx].
Qed.

(* a walk that repeats a node contains a closed walk *)
Lemma repeat_gives_cycle E l : is_walk E l -> ~ NoDup l -> ~ acyclic E.
Proof.
  intros W N A. apply not_NoDup_split in N. destruct N as [x [l1 [l2 [l3 ->]]]].
  apply is_walk_app_r in W.
  apply (A x l2). replace (x :: l2 ++ x :: l3) with ((x :: l2 ++ [x]) ++ l3) in W.
  - apply is_walk_app_l in W. exact W.
  - simpl. rewrite <- app_assoc. reflexivity.
Qed.

Lemma acyclic_walk_short V E l :
  edges_closed V E -> acyclic E -> is_walk E l -> 2 <= length l -> length l <= length V.
Proof.
  intros C A W L. apply NoDup_incl_length.
  - destruct (ListDec.NoDup_dec node_eq_dec l) as [H|H]; [exact H|]. exfalso. exact (repeat_gives_cycle E l W H A).
  - apply (walk_nodes_in V E); assumption.
Qed.

(* ---- longwalk / cyclic ----------------------------------------------------------------------- *)
Lemma longwalk_iff E n v : longwalk E n v = true <-> exists l, length l = n /\ is_walk E (v :: l).
Proof.
  revert v. induction n as [|n IH]; intros v; simpl.
  - split; [intros _; exists []; split; [reflexivity | exact I] | reflexivity].
  - rewrite anyb_existsb, existsb_exists. split.
    + intros [w [Hw H]]. apply IH in H. destruct H as [l [L W]]. exists (w :: l). split; [simpl; lia|].
      split; [apply succs_In; exact Hw | exact W].
    + intros [l [L W]]. destruct l as [|w l]; [discriminate|]. destruct W as [Hvw W].
      exists w. split; [apply succs_In; exact Hvw|]. apply IH. exists l. split; [simpl in L; lia | exact W].
Qed.

Lemma closed_walk_succ E v l x :
  is_walk E (v :: l ++ [v]) -> In x (v :: l) -> exists y, In y (v :: l) /\ In (x, y) E.
Proof.
  intros W Hx.
  assert (G : forall p q, is_walk E (p ++ [q]) -> In x p -> exists y, In y (p ++ [q]) /\ In (x, y) E /\ (In y p \/ y = q)).
  { induction p as [|a p IH]; intros q Wp Hin; [destruct Hin|].
    destruct Hin as [<-|Hin].
    - destruct p as [|b p]; simpl in Wp.
      + exists q. simpl. intuition.
      + exists b. simpl. intuition.
    - assert (Wp' : is_walk E (p ++ [q])) by (apply (is_walk_app_r E [a]); exact Wp).
      destruct (IH q Wp' Hin) as [y [Hy [He Hor]]]. exists y. simpl. intuition. }
  destruct (G (v :: l) v W Hx) as [y [_ [He [Hy| ->]]]]; exists y || exists v; (split; [|exact He]); auto.
  left. reflexivity.
Qed.

Lemma cycle_longwalk E v l : is_walk E (v :: l ++ [v]) -> forall n x, In x (v :: l) -> longwalk E n x = true.
Proof.
  intros W. induction n as [|n IH]; intros x Hx; [reflexivity|].
  simpl. rewrite anyb_existsb, existsb_exists.
  destruct (closed_walk_succ E v l x W Hx) as [y [Hy He]].
  exists y. split; [apply succs_In; exact He | apply IH; exact Hy].
Qed.

Lemma cyclic_false_iff V E : edges_closed V E -> (cyclic V E = false <-> acyclic E).
Proof.
  intros C. unfold cyclic. rewrite anyb_existsb. split.
  - intros H v l W. assert (Hv : In v V).
    { destruct l as [|b l]; simpl in W; destruct W as [Hab _]; apply (C _ _ Hab). }
    assert (T : existsb (longwalk E (length V)) V = true).
    { apply existsb_exists. exists v. split; [exact Hv|]. apply (cycle_longwalk E v l W). left. reflexivity. }
    congruence.
  - intros A. destruct (existsb (longwalk E (length V)) V) eqn:Ex; [|reflexivity]. exfalso.
    apply existsb_exists in Ex. destruct Ex as [v [Hv H]]. apply longwalk_iff in H. destruct H as [l [L W]].
    destruct V as [|v0 V']; [destruct Hv|].
    assert (S : length (v :: l) <= length (v0 :: V')).
    { apply (acyclic_walk_short (v0 :: V') E); [exact C | exact A | exact W | simpl in *; lia]. }
    simpl in *. lia.
Qed.

(* ---- complete walks and their enumeration ----------------------------------------------------- *)
Inductive cwalk (E : list (node * node)) : node -> list node -> Prop :=
| cw_end v : succs E v = [] -> cwalk E v [v]
| cw_step v w p : In (v, w) E -> cwalk E w p -> cwalk E v (v :: p).

Lemma cwalk_head E v p : cwalk E v p -> exists t, p = v :: t.
Proof. intros H. destruct H; eauto. Qed.

Lemma cwalk_is_walk E v p : cwalk E v p -> is_walk E p.
Proof.
  induction 1 as [v H | v w p He Hc IH]; [exact I|].
  destruct (cwalk_head _ _ _ Hc) as [t ->]. split; assumption.
Qed.

Lemma walks_spec E f v p : In p (walks E f v) <-> cwalk E v p /\ length p <= f.
Proof.
  revert v p. induction f as [|f IH]; intros v p; simpl.
  - split; [tauto|]. intros [H L]. destruct H; simpl in L; lia.
  - destruct (succs E v) as [|w0 ws] eqn:S.
    + simpl. split.
      * intros [<-|[]]. split; [constructor; exact S | simpl; lia].
      * intros [H L]. destruct H as [v H | v w p He Hc]; [left; reflexivity|].
        apply succs_In in He. rewrite S in He. destruct He.
    + change (In p (flat_map (fun w : node => map (cons v) (walks E f w)) (w0 :: ws)) <-> cwalk E v p /\ length p <= Datatypes.S f).
      rewrite in_flat_map. split.
      * intros [w [Hw H]]. apply in_map_iff in H. destruct H as [q [<- Hq]]. apply IH in Hq.
        destruct Hq as [Hc L]. split; [|simpl; lia].
        apply (cw_step E v w q); [|exact Hc]. apply succs_In. rewrite S. exact Hw.
      * intros [H L]. destruct H as [v H | v w p He Hc]; [congruence|].
        exists w. split; [rewrite <- S; apply succs_In; exact He|].
        apply in_map_iff. exists p. split; [reflexivity|]. apply IH. split; [exact Hc | simpl in L; lia].
Qed.

Lemma NoDup_app_intro {A} (l1 l2 : list A) :
  NoDup l1 -> NoDup l2 -> (forall x, In x l1 -> In x l2 -> False) -> NoDup (l1 ++ l2).
Proof.
  intros N1 N2 D. induction N1 as [|x l1 Hx N1 IH]; simpl; [exact N2|].
  constructor.
  - rewrite in_app_iff. intros [H|H]; [contradiction | apply (D x); [left; reflexivity | exact H]].
  - apply IH. intros y Hy. apply D. right. exact Hy.
Qed.

Lemma NoDup_flat_map_heads {A B} (f : A -> list B) (key : B -> A) l :
  NoDup l -> (forall a, NoDup (f a)) -> (forall a b, In b (f a) -> key b = a) -> NoDup (flat_map f l).
Proof.
  intros N Nf K. induction N as [|a l Ha N IH]; simpl; [constructor|].
  apply NoDup_app_intro; [apply Nf | exact IH|].
  intros b Hb Hb'. apply in_flat_map in Hb'. destruct Hb' as [a' [Ha' Hb']].
  apply K in Hb. apply K in Hb'. subst. contradiction.
Qed.

Lemma NoDup_walks E f v : NoDup E -> NoDup (walks E f v).
Proof.
  intros N. revert v. induction f as [|f IH]; intros v; simpl; [constructor|].
  pose proof (NoDup_succs E v N) as NS.
  destruct (succs E v) as [|w0 ws]; [constructor; [intros []|constructor]|].
  change (NoDup (flat_map (fun w : node => map (cons v) (walks E f w)) (w0 :: ws))).
  apply (NoDup_flat_map_heads _ (fun p => match p with _ :: w :: _ => w | _ => v end)); [exact NS | |].
  - intros w. apply NoDup_map_inj; [intros x y Exy; inversion Exy; reflexivity | apply IH].
  - intros w p Hp. apply in_map_iff in Hp. destruct Hp as [q [<- Hq]]. apply walks_spec in Hq.
    destruct Hq as [Hc _]. destruct (cwalk_head _ _ _ Hc) as [t ->]. reflexivity.
Qed.

(* with fuel = number of nodes the enumeration is complete in an acyclic graph *)
Lemma walks_complete V E v p :
  edges_closed V E -> acyclic E -> In v V -> (In p (walks E (length V) v) <-> cwalk E v p).
Proof.
  intros C A Hv. rewrite walks_spec. split; [tauto|]. intros H. split; [exact H|].
  pose proof (cwalk_is_walk _ _ _ H) as W.
  destruct (cwalk_head _ _ _ H) as [t ->]. destruct t as [|b t].
  - simpl. destruct V; [destruct Hv | simpl; lia].
  - apply (acyclic_walk_short V E); [exact C | exact A | exact W | simpl; lia].
Qed.

Lemma omap_perm {A B} (f : A -> option B) l l' : Permutation l l' -> Permutation (omap f l) (omap f l').
Proof.
  induction 1 as [| x l l' H IH | x y l | l l' l'' H1 IH1 H2 IH2]; simpl.
  - constructor.
  - destruct (f x); [constructor|]; exact IH.
  - destruct (f x), (f y); try apply Permutation_refl. apply perm_swap.
  - eapply Permutation_trans; eassumption.
Qed.
