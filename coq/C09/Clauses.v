(* C09/Clauses.v — decidable checkers of the property's clauses over the OBSERVED behaviour of the
   implementation (definitions only; soundness w.r.t. the Prop-level clauses: ClausesSound.v).
   Evaluated on every recorded case (check_case2) and, for a case on which model and implementation
   disagree, used to name the violated clause (violated_clauses) — the case is then the failing input. *)
From Verif Require Export Common.Base C09.Model C09.Harness.

(* clause "reaches exactly the exporters ..., processors in order, once per path" for one receiver *)
Definition recv_routing_ok (g : graph) (r : node) (obs : list (node * list node)) : bool :=
  perm_eqb deliv_eqb (deliver g r) obs.

Definition routing_ok (res : result) (obs : list (node * list (node * list node))) : bool :=
  match res with
  | Ok g =>
      let rs := filter is_recv (g_nodes g) in
      Nat.eqb (length obs) (length rs) &&
      forallb (fun rc => existsb (fun o => node_eqb (fst o) rc && recv_routing_ok g rc (snd o)) obs) rs
  | Err _ => true
  end.

(* clause "single instance per (signal, id) / per (pipeline, id) / per (signal pair, id)" *)
Definition instances_ok (res : result) (crt : list node) : bool :=
  match res with Ok g => perm_eqb node_eqb (created g) crt | Err _ => true end.

(* clause "rejected at build time with an error and nothing is started" (and: accepted otherwise) *)
Definition rejected_ok (res : result) (cls : nat) (crt std : list node) : bool :=
  match res with
  | Err e => negb (Nat.eqb cls 0) && is_nil std && match e with EFactory => true | _ => is_nil crt end
  | Ok _ => Nat.eqb cls 0
  end.

(* every created component is started exactly once after a successful build *)
Definition started_ok (res : result) (std : list node) : bool :=
  match res with Ok g => perm_eqb node_eqb (created g) std | Err _ => is_nil std end.

Definition conv_deliv (l : list wdeliv) : list (node * list (node * list node)) :=
  map (fun d : wdeliv => (node_of_w (fst d), map (fun x => (node_of_w (fst x), map node_of_w (snd x))) (snd d))) l.

(* 1 routing (fresh payload) | 2 routing (read-only payload) | 3 instances | 4 rejected / nothing started | 5 started | 6 routing (empty payload) *)
Definition violated_clauses (cs : wcfg * wobs) : list nat :=
  let '(wc, (vok, (cls, (detail, (wcreated, (wstarted, (wdel, (wdelro, (wrt, (wF, (wdelf, (werr, (nilrej, (wprobes, wdele)))))))))))))) := cs in
  let res := build (cfg_of_w wc) in
  let crt := map node_of_w wcreated in
  let std := map node_of_w wstarted in
  (if routing_ok res (conv_deliv wdel) then [] else [1]) ++
  (if routing_ok res (conv_deliv wdelro) then [] else [2]) ++
  (if routing_ok res (conv_deliv wdele) then [] else [6]) ++
  (if instances_ok res crt then [] else [3]) ++
  (if rejected_ok res cls crt std then [] else [4]) ++
  (if started_ok res std then [] else [5]).

Definition prop_ok (cs : wcfg * wobs) : bool := is_nil (violated_clauses cs).

(* the theorems' hypothesis wf_config (unique pipeline ids: pipelines.Config is a Go map), checked on every case *)
Definition wf_ok (c : config) : bool :=
  list_eqb pid_eqb (dedup pid_eqb (map p_id (pipes c))) (map p_id (pipes c)).

(* what the check evaluates on every case: model comparison AND the clause checkers *)
Definition check_case2 (cs : wcfg * wobs) : bool := check_case cs && prop_ok cs && wf_ok (cfg_of_w (fst cs)).

(* ---- the observed-case record of the MODEL's own run -------------------------------------------------
   built the way the harness builds it from the implementation: node keys on the wire, created / started
   multisets, per receiver the deliveries for the three payloads, class; [ord] = creation order (oracle). *)
Definition w_of_node (n : node) : wnode :=
  match n with
  | Recv s r => (0, (s, (0, r)))
  | Proc (a, b) i => (1, (a, (b, i)))
  | Exp s e => (2, (s, (0, e)))
  | Conn a b k => (3, (a, (b, k)))
  | Cap (a, b) => (4, (a, (b, 0)))
  | Fan (a, b) => (5, (a, (b, 0)))
  end.

Definition w_of_deliv (l : list (node * list (node * list node))) : list wdeliv :=
  map (fun d => (w_of_node (fst d), map (fun x => (w_of_node (fst x), map w_of_node (snd x))) (snd d))) l.

Definition w_of_cfg (c : config) : wcfg :=
  (map (fun P => (p_id P, (p_recv P, (p_procs P, p_exps P)))) (pipes c), (conns c, noprof c)).

Definition model_obs (ord : list node) (c : config) : wobs :=
  match build c with
  | Ok g =>
      let d := w_of_deliv (model_deliveries g) in
      (validate c, (0, ([], (map w_of_node (created g), (map w_of_node (created g),
        (d, (d, (map (fun r => (w_of_node (fst r), snd r)) (model_routers g),
          ([], (d, (map (fun r => (w_of_node r, false)) (filter is_recv (g_nodes g)), (true, ([], d)))))))))))))
  | Err e =>
      (validate c, (class_of (Err e), ([],
        (match e with EFactory => map w_of_node (create_until c ord) | _ => [] end,
         ([], ([], ([], ([], ([], ([], ([], (false, ([], [])))))))))))))
  end.
