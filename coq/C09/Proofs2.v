(* C09/Proofs2.v — what createNodes / createEdges of the model compute, in terms of the configuration. *)
From Verif Require Import Common.Base C09.Model C09.Spec C09.Proofs1.

(* ---- connectors -------------------------------------------------------------------------------- *)
Lemma supported_is_conn c k E R : supported c k E R = true -> is_conn c k = true.
Proof. unfold supported, is_conn. destruct (lookup_conn k (conns c)); [reflexivity | discriminate]. Qed.

Lemma In_used_conns c k :
  In k (used_conns c) <->
  is_conn c k = true /\ exists P, In P (pipes c) /\ (In k (p_recv P) \/ In k (p_exps P)).
Proof.
  unfold used_conns. rewrite (In_dedup Nat.eqb Nat.eqb_eq), in_flat_map. split.
  - intros [P [HP H]]. apply in_app_iff in H. destruct H as [H|H]; apply filter_In in H; destruct H as [H C];
      (split; [exact C | exists P; split; [exact HP | tauto]]).
  - intros [C [P [HP [H|H]]]]; exists P; (split; [exact HP|]); apply in_app_iff; [left | right];
      apply filter_In; split; assumption.
Qed.

Lemma In_as_exp c k P : In P (as_exp c k) <-> In P (pipes c) /\ In k (p_exps P).
Proof. unfold as_exp. rewrite filter_In, memn_In. tauto. Qed.

Lemma In_as_recv c k P : In P (as_recv c k) <-> In P (pipes c) /\ In k (p_recv P).
Proof. unfold as_recv. rewrite filter_In, memn_In. tauto. Qed.

Lemma In_conn_links c eP rP k :
  In (eP, rP, k) (conn_links c) <->
  In eP (pipes c) /\ In k (p_exps eP) /\ In rP (pipes c) /\ In k (p_recv rP) /\
  supported c k (p_sig eP) (p_sig rP) = true.
Proof.
  unfold conn_links. rewrite in_flat_map. split.
  - intros [k' [Hk H]]. apply in_flat_map in H. destruct H as [e [He H]].
    apply in_flat_map in H. destruct H as [r [Hr H]].
    destruct (supported c k' (p_sig e) (p_sig r)) eqn:S; [|destruct H].
    destruct H as [H|[]]. inversion H; subst.
    apply In_as_exp in He. apply In_as_recv in Hr. tauto.
  - intros [H1 [H2 [H3 [H4 S]]]]. exists k. split.
    + apply In_used_conns. split; [apply (supported_is_conn _ _ _ _ S) | exists eP; tauto].
    + apply in_flat_map. exists eP. split; [apply In_as_exp; tauto|].
      apply in_flat_map. exists rP. split; [apply In_as_recv; tauto|].
      rewrite S. left. reflexivity.
Qed.

Lemma wf_pid_inj c P Q : wf_config c -> In P (pipes c) -> In Q (pipes c) -> p_id P = p_id Q -> P = Q.
Proof.
  unfold wf_config. induction (pipes c) as [|X l IH]; simpl; intros N HP HQ E; [destruct HP|].
  inversion N as [|? ? Hx N']; subst.
  destruct HP as [<-|HP], HQ as [<-|HQ]; auto.
  - exfalso. apply Hx. rewrite E. apply in_map. exact HQ.
  - exfalso. apply Hx. rewrite <- E. apply in_map. exact HP.
Qed.

Lemma p_sig_of_id P Q : p_id P = p_id Q -> p_sig P = p_sig Q.
Proof. unfold p_sig. intros ->. reflexivity. Qed.

(* ---- receivers / exporters of a pipeline ----------------------------------------------------- *)
Lemma In_receivers_of c Q n :
  In n (receivers_of c Q) <->
  (exists r, n = Recv (p_sig Q) r /\ In r (p_recv Q) /\ is_conn c r = false) \/
  (exists eP rP k, n = Conn (p_sig eP) (p_sig rP) k /\ p_id rP = p_id Q /\ In (eP, rP, k) (conn_links c)).
Proof.
  unfold receivers_of. rewrite (In_dedup node_eqb node_eqb_spec), in_app_iff. unfold recv_nodes.
  rewrite !in_map_iff. split.
  - intros [[r [<- H]]|[[[eP rP] k] [<- H]]].
    + apply filter_In in H. destruct H as [H C]. left. exists r. rewrite negb_true_iff in C. tauto.
    + apply filter_In in H. destruct H as [H C]. simpl in C. apply pid_eqb_spec in C.
      right. exists eP, rP, k. unfold link_node. simpl. tauto.
  - intros [[r [-> [H C]]]|[eP [rP [k [-> [E H]]]]]].
    + left. exists r. split; [reflexivity|]. apply filter_In. rewrite negb_true_iff. tauto.
    + right. exists (eP, rP, k). split; [reflexivity|]. apply filter_In. split; [exact H|].
      simpl. apply pid_eqb_spec. exact E.
Qed.

Lemma In_exporters_of c P n :
  In n (exporters_of c P) <->
  (exists e, n = Exp (p_sig P) e /\ In e (p_exps P) /\ is_conn c e = false) \/
  (exists eP rP k, n = Conn (p_sig eP) (p_sig rP) k /\ p_id eP = p_id P /\ In (eP, rP, k) (conn_links c)).
Proof.
  unfold exporters_of. rewrite (In_dedup node_eqb node_eqb_spec), in_app_iff. unfold exp_nodes.
  rewrite !in_map_iff. split.
  - intros [[r [<- H]]|[[[eP rP] k] [<- H]]].
    + apply filter_In in H. destruct H as [H C]. left. exists r. rewrite negb_true_iff in C. tauto.
    + apply filter_In in H. destruct H as [H C]. simpl in C. apply pid_eqb_spec in C.
      right. exists eP, rP, k. unfold link_node. simpl. tauto.
  - intros [[r [-> [H C]]]|[eP [rP [k [-> [E H]]]]]].
    + left. exists r. split; [reflexivity|]. apply filter_In. rewrite negb_true_iff. tauto.
    + right. exists (eP, rP, k). split; [reflexivity|]. apply filter_In. split; [exact H|].
      simpl. apply pid_eqb_spec. exact E.
Qed.

(* with unique pipeline ids the pipeline found through its id is the pipeline itself *)
Lemma In_receivers_of_wf c Q n :
  wf_config c -> In Q (pipes c) ->
  (In n (receivers_of c Q) <->
   (exists r, n = Recv (p_sig Q) r /\ In r (p_recv Q) /\ is_conn c r = false) \/
   (exists P k, n = Conn (p_sig P) (p_sig Q) k /\ In P (pipes c) /\ In k (p_exps P) /\ In k (p_recv Q) /\
                supported c k (p_sig P) (p_sig Q) = true)).
Proof.
  intros W HQ. rewrite In_receivers_of. split; (intros [H|H]; [left; exact H | right]).
  - destruct H as [eP [rP [k [-> [E H]]]]]. apply In_conn_links in H. destruct H as [H1 [H2 [H3 [H4 S]]]].
    assert (rP = Q) by (apply (wf_pid_inj c); assumption). subst. exists eP, k. tauto.
  - destruct H as [P [k [-> [H1 [H2 [H4 S]]]]]]. exists P, Q, k. split; [reflexivity|]. split; [reflexivity|].
    apply In_conn_links. tauto.
Qed.

Lemma In_exporters_of_wf c P n :
  wf_config c -> In P (pipes c) ->
  (In n (exporters_of c P) <->
   (exists e, n = Exp (p_sig P) e /\ In e (p_exps P) /\ is_conn c e = false) \/
   (exists Q k, n = Conn (p_sig P) (p_sig Q) k /\ In Q (pipes c) /\ In k (p_exps P) /\ In k (p_recv Q) /\
                supported c k (p_sig P) (p_sig Q) = true)).
Proof.
  intros W HP. rewrite In_exporters_of. split; (intros [H|H]; [left; exact H | right]).
  - destruct H as [eP [rP [k [-> [E H]]]]]. apply In_conn_links in H. destruct H as [H1 [H2 [H3 [H4 S]]]].
    assert (eP = P) by (apply (wf_pid_inj c); assumption). subst. exists rP, k. tauto.
  - destruct H as [Q [k [-> [H1 [H2 [H4 S]]]]]]. exists P, Q, k. split; [reflexivity|]. split; [reflexivity|].
    apply In_conn_links. tauto.
Qed.

(* ---- chain ------------------------------------------------------------------------------------- *)
Lemma In_chain_split {A} (l : list A) a b : In (a, b) (chain l) <-> exists l1 l2, l = l1 ++ a :: b :: l2.
Proof.
  induction l as [|x l IH].
  - simpl. split; [tauto|]. intros [l1 [l2 E]]. destruct l1; discriminate.
  - destruct l as [|y l'].
    + simpl. split; [tauto|]. intros [l1 [l2 E]]. destruct l1 as [|? [|? ?]]; discriminate.
    + change (chain (x :: y :: l')) with ((x, y) :: chain (y :: l')). simpl In. rewrite IH. split.
      * intros [E|[l1 [l2 E]]].
        -- inversion E; subst. exists [], l'. reflexivity.
        -- exists (x :: l1), l2. simpl. rewrite E. reflexivity.
      * intros [l1 [l2 E]]. destruct l1 as [|x0 l1]; simpl in E; inversion E; subst.
        -- left. reflexivity.
        -- right. exists l1, l2. assumption.
Qed.

Lemma In_chain_In {A} (l : list A) a b : In (a, b) (chain l) -> In a l /\ In b l.
Proof.
  rewrite In_chain_split. intros [l1 [l2 ->]]. split; apply in_app_iff; right; simpl; auto.
Qed.

(* in a duplicate-free list the successor along the chain is unique *)
Lemma chain_next_unique {A} (l : list A) l1 a b l2 w :
  NoDup l -> l = l1 ++ a :: b :: l2 -> In (a, w) (chain l) -> w = b.
Proof.
  intros N E H. apply In_chain_split in H. destruct H as [m1 [m2 E']]. subst l.
  revert m1 E' N. induction l1 as [|x l1 IH]; intros m1 E' N.
  - destruct m1 as [|y m1]; simpl in E'; inversion E'; subst; [reflexivity|].
    exfalso. inversion N as [|? ? Hx _]; subst. apply Hx. rewrite H1. apply in_app_iff. right. left. reflexivity.
  - destruct m1 as [|y m1]; simpl in E'; inversion E'; subst.
    + exfalso. simpl in N. inversion N as [|? ? Hx _]; subst. apply Hx. apply in_app_iff. right. left. reflexivity.
    + simpl in N. inversion N; subst. eapply IH; eassumption.
Qed.

Lemma NoDup_chain_nodes P : NoDup (p_procs P) -> NoDup (chain_nodes P).
Proof.
  intros N. unfold chain_nodes, proc_nodes. constructor.
  - rewrite in_app_iff, in_map_iff. intros [[x [E _]]|[E|[]]]; discriminate.
  - apply NoDup_app_intro.
    + apply NoDup_map_inj; [intros x y E; inversion E; reflexivity | exact N].
    + constructor; [intros [] | constructor].
    + intros x H1 [<-|[]]. apply in_map_iff in H1. destruct H1 as [y [E _]]. discriminate.
Qed.

Lemma In_chain_nodes P n :
  In n (chain_nodes P) <-> n = Cap (p_id P) \/ (exists i, n = Proc (p_id P) i /\ In i (p_procs P)) \/ n = Fan (p_id P).
Proof.
  unfold chain_nodes, proc_nodes. simpl. rewrite in_app_iff, in_map_iff. simpl. split.
  - intros [H|[[i [H Hi]]|[H|[]]]]; eauto.
  - intros [H|[[i [H Hi]]|H]]; eauto.
Qed.

(* ---- edges --------------------------------------------------------------------------------------- *)
Lemma In_edges_of c a b :
  In (a, b) (edges_of c) <->
  exists P, In P (pipes c) /\
    ((In a (receivers_of c P) /\ b = Cap (p_id P)) \/
     In (a, b) (chain (chain_nodes P)) \/
     (a = Fan (p_id P) /\ In b (exporters_of c P))).
Proof.
  unfold edges_of. rewrite (In_dedup edge_eqb edge_eqb_spec), in_flat_map.
  split; intros [P [HP H]]; exists P; (split; [exact HP|]); unfold pipe_edges in *;
    rewrite !in_app_iff, !in_map_iff in *.
  - destruct H as [[r [E Hr]]|[H|[e [E He]]]]; [inversion E; subst; tauto | tauto | inversion E; subst; tauto].
  - destruct H as [[Hr ->]|[H|[-> He]]]; [left; exists a; tauto | tauto | right; right; exists b; tauto].
Qed.

Lemma NoDup_edges_of c : NoDup (edges_of c).
Proof. apply (NoDup_dedup edge_eqb edge_eqb_spec). Qed.

Lemma In_nodes_of c n :
  In n (nodes_of c) <->
  exists P, In P (pipes c) /\ (In n (receivers_of c P) \/ In n (chain_nodes P) \/ In n (exporters_of c P)).
Proof.
  unfold nodes_of. rewrite (In_dedup node_eqb node_eqb_spec), in_flat_map.
  split; intros [P [HP H]]; exists P; (split; [exact HP|]); rewrite !in_app_iff in *; exact H.
Qed.

Lemma edges_closed_of c : edges_closed (nodes_of c) (edges_of c).
Proof.
  intros a b H. apply In_edges_of in H. destruct H as [P [HP H]].
  rewrite !In_nodes_of. destruct H as [[Hr ->]|[H|[-> He]]].
  - split; exists P; (split; [exact HP|]); [tauto|]. right. left. left. reflexivity.
  - apply In_chain_In in H. split; exists P; tauto.
  - split; exists P; (split; [exact HP|]); [|tauto]. right. left. apply In_chain_nodes. tauto.
Qed.

(* out-edges by kind of node *)
Lemma recv_or_conn_of_receivers c P n : In n (receivers_of c P) -> (exists s r, n = Recv s r) \/ (exists a b k, n = Conn a b k).
Proof. rewrite In_receivers_of. intros [[r [-> _]]|[eP [rP [k [-> _]]]]]; eauto. Qed.

Lemma exp_out_edges c s e : succs (edges_of c) (Exp s e) = [].
Proof.
  destruct (succs (edges_of c) (Exp s e)) as [|w ws] eqn:S; [reflexivity|]. exfalso.
  assert (H : In w (succs (edges_of c) (Exp s e))) by (rewrite S; left; reflexivity).
  apply succs_In, In_edges_of in H. destruct H as [P [HP [[H _]|[H|[H _]]]]].
  - apply recv_or_conn_of_receivers in H. destruct H as [[? [? H]]|[? [? [? H]]]]; discriminate.
  - apply In_chain_In in H. destruct H as [H _]. apply In_chain_nodes in H.
    destruct H as [H|[[i [H _]]|H]]; discriminate.
  - discriminate.
Qed.

(* the chain of pipeline P is the only place where Cap P / Proc P _ have out-edges *)
Lemma chain_out_edge c P a w :
  wf_config c -> In P (pipes c) -> In a (chain_nodes P) -> a <> Fan (p_id P) ->
  In (a, w) (edges_of c) -> In (a, w) (chain (chain_nodes P)).
Proof.
  intros W HP Ha NF H. apply In_edges_of in H. destruct H as [Q [HQ [[H _]|[H|[H _]]]]].
  - exfalso. apply recv_or_conn_of_receivers in H. apply In_chain_nodes in Ha.
    destruct H as [[x1 [x2 Hn]]|[x1 [x2 [x3 Hn]]]]; subst a; destruct Ha as [Ha|[[i [Ha _]]|Ha]]; discriminate.
  - assert (Q = P); [|subst; exact H].
    apply In_chain_In in H. destruct H as [H _]. apply In_chain_nodes in H. apply In_chain_nodes in Ha.
    apply (wf_pid_inj c); [exact W | exact HQ | exact HP|].
    destruct H as [-> | [[i [-> _]] | ->]]; destruct Ha as [Ha|[[j [Ha _]]|Ha]]; inversion Ha; try reflexivity.
  - exfalso. subst a. apply In_chain_nodes in Ha. destruct Ha as [Ha|[[j [Ha _]]|Ha]]; try discriminate.
    inversion Ha. apply NF. rewrite H0. reflexivity.
Qed.

Lemma fan_out_edge c P w :
  wf_config c -> In P (pipes c) -> NoDup (p_procs P) ->
  In (Fan (p_id P), w) (edges_of c) -> In w (exporters_of c P).
Proof.
  intros W HP N H. apply In_edges_of in H. destruct H as [Q [HQ [[H _]|[H|[E H]]]]].
  - exfalso. apply recv_or_conn_of_receivers in H. destruct H as [[? [? H]]|[? [? [? H]]]]; discriminate.
  - exfalso. apply In_chain_split in H. destruct H as [l1 [l2 E]].
    (* Fan is the last element of chain_nodes Q and occurs once *)
    assert (QP : p_id Q = p_id P).
    { assert (Hin : In (Fan (p_id P)) (chain_nodes Q)) by (rewrite E; apply in_app_iff; right; left; reflexivity).
      apply In_chain_nodes in Hin. destruct Hin as [Hin|[[i [Hin _]]|Hin]]; inversion Hin. reflexivity. }
    assert (Q = P) by (apply (wf_pid_inj c); assumption). subst Q.
    pose proof (NoDup_chain_nodes P N) as ND. unfold chain_nodes in E, ND.
    (* compare last elements *)
    assert (L : last_opt (Cap (p_id P) :: proc_nodes P ++ [Fan (p_id P)]) = Some (Fan (p_id P))).
    { change (Cap (p_id P) :: proc_nodes P ++ [Fan (p_id P)]) with ((Cap (p_id P) :: proc_nodes P) ++ [Fan (p_id P)]).
      apply last_opt_app. }
    rewrite E in ND, L. rewrite last_opt_app_ne in L by discriminate.
    apply NoDup_remove_2 in ND. apply ND. apply in_app_iff. right.
    assert (G : forall (m : list node) x y, last_opt (x :: m) = Some y -> In y (x :: m)).
    { induction m as [|z m IHm]; intros x y Hl; simpl in Hl; [inversion Hl; left; reflexivity|].
      right. apply IHm. exact Hl. }
    rewrite last_opt_cons_ne in L by discriminate. apply G. exact L.
  - inversion E. assert (Q = P) by (apply (wf_pid_inj c); auto). subst. exact H.
Qed.
