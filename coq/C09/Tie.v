(* C09/Tie.v — obligations that tie hand-written pieces of Model.v to definitions REGENERATED from the
   current Go source on every run:
     Generated/C09Nodes.v           (translator T1, methodset): method sets of the six node types
     Generated/C09Levels.v          (translator T1, consts): component.StabilityLevel
     Generated/C09StabilityTable.v  (table dump by running connectorStability on probe factories)
   An edit of the Go source that changes one of these breaks a named obligation here. *)
From Verif Require Import Common.Base C09.Model C09.Spec C09.Proofs1 C09.Proofs2.
From Verif Require Import Generated.C09Nodes Generated.C09Levels Generated.C09StabilityTable.
From Coq Require Import String.
From Verif Require Import C09.TieDefs.

(* StartAll / ShutdownAll / buildComponents treat a node as a component iff it is a component.Component
   (Start + Shutdown in its method set): the model's [is_component] (hence [created], [start_all]). *)
Lemma tie_node_kinds_l : forall n,
  is_component n = has_method m_Start (methods_of n) && has_method m_Shutdown (methods_of n) /\
  skipped n = negb (is_component n).
Proof. destruct n; vm_compute; split; reflexivity. Qed.

(* nextConsumers asserts every successor to consumerNode (getConsumer): every edge target of the model has
   that method, and the one node kind without it (receiver) is never an edge target. *)
Lemma tie_edge_targets_l : forall c a b,
  In (a, b) (edges_of c) -> has_method m_getConsumer (methods_of b) = true.
Proof.
  intros c a b H. apply In_edges_of in H. destruct H as [P [HP [[_ ->]|[H|[_ H]]]]].
  - vm_compute. reflexivity.
  - apply In_chain_In in H. destruct H as [_ H]. apply In_chain_nodes in H.
    destruct H as [->|[[i [-> _]]| ->]]; vm_compute; reflexivity.
  - apply In_exporters_of in H. destruct H as [[e [-> _]]|[eP [rP [k [-> _]]]]]; vm_compute; reflexivity.
Qed.

Lemma tie_receiver_not_consumer_l : forall s r, has_method m_getConsumer (methods_of (Recv s r)) = false.
Proof. intros. vm_compute. reflexivity. Qed.

(* connectorStability: Model.supported agrees with the code on every probe factory *)
Lemma tie_supported_table_l : forallb row_ok C09StabilityTable = true /\ table_covers = true.
Proof. vm_compute. split; reflexivity. Qed.

(* a factory without an option for a pair answers the zero value, which must be Undefined *)
Lemma tie_undefined_is_zero_l : C09_StabilityLevelUndefined = 0%Z.
Proof. reflexivity. Qed.
