(* C09/Tie.v — obligations that tie hand-written pieces of Model.v to definitions REGENERATED from the
   current Go source on every run:
     Generated/C09Nodes.v           (translator T1, methodset): method sets of the six node types
     Generated/C09Levels.v          (translator T1, consts): component.StabilityLevel
     Generated/C09StabilityTable.v  (table dump by running connectorStability on probe factories)
   An edit of the Go source that changes one of these breaks a named obligation here. *)
From Verif Require Import Common.Base C09.Model C09.Spec C09.Proofs1 C09.Proofs2.
From Verif Require Import Generated.C09Nodes Generated.C09Levels Generated.C09StabilityTable.
From Coq Require Import String.

Definition methods_of (n : node) : list String.string :=
  match n with
  | Recv _ _ => C09_receiverNode_methods
  | Proc _ _ => C09_processorNode_methods
  | Exp _ _ => C09_exporterNode_methods
  | Conn _ _ _ => C09_connectorNode_methods
  | Cap _ => C09_capabilitiesNode_methods
  | Fan _ => C09_fanOutNode_methods
  end.

Definition m_Start : String.string := "Start"%string.
Definition m_Shutdown : String.string := "Shutdown"%string.
Definition m_getConsumer : String.string := "getConsumer"%string.

Definition has_method (m : String.string) (l : list String.string) : bool := existsb (String.eqb m) l.

(* StartAll / ShutdownAll / buildComponents treat a node as a component iff it is a component.Component
   (Start + Shutdown in its method set): the model's [is_component] (hence [created], [start_all]). *)
Lemma tie_node_kinds_l : forall n,
  is_component n = has_method m_Start (methods_of n) && has_method m_Shutdown (methods_of n) /\
  skipped n = negb (is_component n).
Proof. destruct n; vm_compute; split; reflexivity. Qed.

(* nextConsumers asserts every successor to consumerNode (getConsumer): every edge target of the model has
   that method, and the one node kind without it (receiver) is never an edge target. *)
Lemma tie_edge_targets_l : forall c a b,
  In (a, b) (edges_of c) -> has_method m_getConsumer (methods_of b) = true.
Proof.
  intros c a b H. apply In_edges_of in H. destruct H as [P [HP [[_ ->]|[H|[_ H]]]]].
  - vm_compute. reflexivity.
  - apply In_chain_In in H. destruct H as [_ H]. apply In_chain_nodes in H.
    destruct H as [->|[[i [-> _]]| ->]]; vm_compute; reflexivity.
  - apply In_exporters_of in H. destruct H as [[e [-> _]]|[eP [rP [k [-> _]]]]]; vm_compute; reflexivity.
Qed.

Lemma tie_receiver_not_consumer_l : forall s r, has_method m_getConsumer (methods_of (Recv s r)) = false.
Proof. intros. vm_compute. reflexivity. Qed.

(* connectorStability: Model.supported agrees with the code on every probe factory *)
Definition all_pairs : list (nat * nat) :=
  flat_map (fun e => map (fun r => (e, r)) [0; 1; 2; 3]) [0; 1; 2; 3].

Definition pair_eqb (a b : nat * nat) : bool := Nat.eqb (fst a) (fst b) && Nat.eqb (snd a) (snd b).

Definition model_row (f : bool * list (nat * nat)) : list (nat * nat) :=
  filter (fun p => supported (mkC [] [(0, Some f)] []) 0 (fst p) (snd p)) all_pairs.

Definition row_ok (e : (bool * list (nat * nat)) * list (nat * nat)) : bool :=
  list_eqb pair_eqb (model_row (fst e)) (snd e).

(* every constructible single-pair factory of both kinds is in the table *)
Definition covered (x : bool) (p : nat * nat) : bool :=
  existsb (fun e => Bool.eqb (fst (fst e)) x && list_eqb pair_eqb (snd (fst e)) [p]) C09StabilityTable.

Definition table_covers : bool :=
  forallb (covered true) all_pairs &&
  forallb (covered false) (filter (fun p => Nat.ltb (fst p) 3 && Nat.ltb (snd p) 3) all_pairs).

Lemma tie_supported_table_l : forallb row_ok C09StabilityTable = true /\ table_covers = true.
Proof. vm_compute. split; reflexivity. Qed.

(* a factory without an option for a pair answers the zero value, which must be Undefined *)
Lemma tie_undefined_is_zero_l : C09_StabilityLevelUndefined = 0%Z.
Proof. reflexivity. Qed.
