(* C09/Proofs6.v — the routing clause at the level of exporters and pipelines; hypotheses of the theorems. *)
From Verif Require Import Common.Base C09.Model C09.Spec C09.Proofs1 C09.Proofs2 C09.Proofs3 C09.Proofs4 C09.Proofs5.

Lemma ppath_nonempty c P t : ppath c P t -> t <> [].
Proof. intros H. destruct H; unfold chain_nodes; simpl; discriminate. Qed.

Lemma ppath_feeds c P t :
  ppath c P t ->
  exists Q e, In Q (pipes c) /\ feeds c P Q /\ In e (p_exps Q) /\ is_conn c e = false /\
              last_opt t = Some (Exp (p_sig Q) e).
Proof.
  induction 1 as [P e HP He Hc | P k Q t HP Hk HQ HkQ S Hpp IH].
  - exists P, e. split; [exact HP|]. split; [exists []; split; [exact I | reflexivity]|].
    split; [exact He|]. split; [exact Hc|]. apply last_opt_app.
  - destruct IH as [Q' [e [HQ' [[l [PL LL]] [He [Hc L]]]]]]. exists Q', e. split; [exact HQ'|]. split.
    + exists (Q :: l). split; [split; [|exact PL] | exact LL].
      split; [exact HP|]. split; [exact HQ|]. exists k. tauto.
    + split; [exact He|]. split; [exact Hc|].
      rewrite last_opt_app_ne by discriminate. rewrite last_opt_cons_ne; [exact L | apply (ppath_nonempty c Q t Hpp)].
Qed.

Lemma feeds_ppath c : forall l P Q e,
  plinks c (P :: l) -> last_opt (P :: l) = Some Q -> In P (pipes c) -> In e (p_exps Q) -> is_conn c e = false ->
  exists t, ppath c P t /\ last_opt t = Some (Exp (p_sig Q) e).
Proof.
  induction l as [|R l IH]; intros P Q e PL LL HP He Hc.
  - simpl in LL. inversion LL; subst. exists (chain_nodes Q ++ [Exp (p_sig Q) e]). split; [apply pp_exp; assumption | apply last_opt_app].
  - destruct PL as [[_ [HR [k [Hk [HkR S]]]]] PL].
    destruct (IH R Q e PL LL HR He Hc) as [t [Hpp L]].
    exists (chain_nodes P ++ Conn (p_sig P) (p_sig R) k :: t). split; [apply pp_conn; assumption|].
    rewrite last_opt_app_ne by discriminate. rewrite last_opt_cons_ne; [exact L | apply (ppath_nonempty c R t Hpp)].
Qed.

Lemma observe_of_last p s e : last_opt p = Some (Exp s e) -> observe p = Some (Exp s e, filter visible p).
Proof. intros H. unfold observe. rewrite H. reflexivity. Qed.

Lemma observe_inv p x t : observe p = Some (x, t) -> last_opt p = Some x /\ exists s e, x = Exp s e.
Proof.
  unfold observe. destruct (last_opt p) as [[]|]; try discriminate. intros H. inversion H; subst. eauto.
Qed.

Lemma exporters_reached_exact_l c g s i s' e :
  wf_config c -> build c = Ok g -> In (Recv s i) (g_nodes g) ->
  ((exists t, In (Exp s' e, t) (deliver g (Recv s i))) <->
   exists P Q, In P (pipes c) /\ p_sig P = s /\ In i (p_recv P) /\ is_conn c i = false /\
               feeds c P Q /\ In Q (pipes c) /\ p_sig Q = s' /\ In e (p_exps Q) /\ is_conn c e = false).
Proof.
  intros W B Hin. split.
  - intros [t Ht]. apply (deliver_in_iff_l c g s i _ W B Hin) in Ht. destruct Ht as [p [[P [t0 [HP [Es [Hi [Hc [Hpp ->]]]]]]] Ob]].
    destruct (ppath_feeds c P t0 Hpp) as [Q [e0 [HQ [F [He [Hce L]]]]]].
    apply observe_inv in Ob. destruct Ob as [L' _].
    rewrite last_opt_cons_ne in L' by (apply (ppath_nonempty c P t0 Hpp)). rewrite L in L'. inversion L'; subst.
    exists P, Q. tauto.
  - intros [P [Q [HP [Es [Hi [Hc [[l [PL LL]] [HQ [Es' [He Hce]]]]]]]]]].
    destruct (feeds_ppath c l P Q e PL LL HP He Hce) as [t0 [Hpp L]].
    exists (filter visible (Recv s i :: t0)). apply (deliver_in_iff_l c g s i _ W B Hin).
    exists (Recv s i :: t0). split; [exists P, t0; tauto|].
    rewrite <- Es'. apply observe_of_last. rewrite last_opt_cons_ne by (apply (ppath_nonempty c P t0 Hpp)). exact L.
Qed.

(* the hypothesis "Recv s i is a node of the graph": exactly the receivers the configuration lists *)
Lemma receiver_nodes_exact_l c g s i :
  build c = Ok g -> (In (Recv s i) (g_nodes g) <-> instance_spec c (Recv s i)).
Proof.
  intros B. destruct (instances_exact_l c g B) as [_ I]. rewrite <- I. unfold created. rewrite filter_In. simpl. tauto.
Qed.

(* the hypothesis wf_config is decidable (and checked on every recorded configuration) *)
Lemma dedup_id_iff (l : list pid) : dedup pid_eqb l = l <-> NoDup l.
Proof.
  split.
  - intros H. rewrite <- H. apply (NoDup_dedup pid_eqb pid_eqb_spec).
  - induction 1 as [|x l Hx N IH]; simpl; [reflexivity|].
    destruct (existsb (pid_eqb x) l) eqn:E; [apply (existsb_eqb_In pid_eqb pid_eqb_spec) in E; contradiction|].
    rewrite IH. reflexivity.
Qed.

