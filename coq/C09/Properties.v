(* C09/Properties.v — the property theorems, nothing else.  Each is closed by [exact lemma] and
   followed by Print Assumptions (captured into the evidence by the check driver).
   Vocabulary: Model.v (what the code computes: build, deliver, created, service_log, ...),
   Spec.v (what the configuration says: cpath, instance_spec, connectors_supported, connector_cycle),
   Proofs1.v (acyclic, is_walk), Proofs3.v (ends_exp). *)
From Verif Require Import Common.Base C09.Model C09.Spec C09.Proofs1 C09.Proofs2 C09.Proofs3 C09.Proofs4 C09.Proofs5 C09.Proofs6 C09.TieDefs C09.Tie C09.Harness C09.Clauses C09.ClausesSound.
From Verif Require Import Generated.C09Nodes Generated.C09Levels Generated.C09StabilityTable.
From Coq Require Import Permutation.

(* Build succeeds exactly when no pipeline lists a processor twice (else gonum panics; Validate
   rejects that earlier), every connector use has a supported counterpart use, and the component
   graph has no cycle; the graph is then the node/edge set the configuration determines. *)
Theorem build_ok_iff : forall c g,
  build c = Ok g <->
  g = mkG (nodes_of c) (edges_of c) /\ procs_distinct c /\ connectors_supported c /\ acyclic (edges_of c) /\
  factories_serve c.
Proof. exact build_ok_iff_l. Qed.

(* ... and a cycle of the component graph is exactly a cycle of connector usage between pipelines
   (for a configuration with unique pipeline ids and no duplicated processor). *)
Theorem graph_cycle_iff_connector_cycle : forall c,
  wf_config c -> procs_distinct c -> (~ acyclic (edges_of c) <-> connector_cycle c).
Proof. exact graph_cycle_iff_connector_cycle_l. Qed.

(* "For every valid service configuration": unique pipeline ids, accepted by Validate, every
   connector use with a supported counterpart, no cycle of connector usage => Build succeeds. *)
Theorem valid_config_builds : forall c,
  wf_config c -> validate c = true -> connectors_supported c -> ~ connector_cycle c -> factories_serve c ->
  build c = Ok (mkG (nodes_of c) (edges_of c)).
Proof. exact valid_config_builds_l. Qed.

(* which error: panic (duplicated processor) before unsupported connector use / missing connector factory
   before cycle before a component factory that cannot serve its signal *)
Theorem build_error_class : forall c,
  (build c = Err EPanic <-> ~ procs_distinct c) /\
  (build c = Err EUnsupported <-> procs_distinct c /\ ~ connectors_supported c) /\
  (build c = Err ECycle <-> procs_distinct c /\ connectors_supported c /\ ~ acyclic (edges_of c)) /\
  (build c = Err EFactory <->
     procs_distinct c /\ connectors_supported c /\ acyclic (edges_of c) /\ ~ factories_serve c).
Proof. exact build_err_class. Qed.

(* "Configurations whose connector usage forms a cycle, or that use a connector in a pipeline for
   which it has no supported counterpart pipeline, are rejected at build time with an error ..." *)
Theorem connector_cycle_rejected : forall c, connector_cycle c -> exists e, build c = Err e.
Proof. exact connector_cycle_rejected_l. Qed.

Theorem unsupported_connector_rejected : forall c, ~ connectors_supported c -> exists e, build c = Err e.
Proof. exact unsupported_rejected_l. Qed.

(* "... and nothing is started": for every creation order [ord] (gonum's choice), a build error leaves a log
   without any Start; the log is empty unless the error is a factory's refusal during buildComponents
   (EFactory), in which case it holds only factory calls that precede the refusal in [ord]; a Validate error
   leaves an empty log; and whenever a Start happens the build had succeeded and that very component had
   been created by it. *)
Theorem build_error_starts_nothing : forall ord c,
  (forall e, build c = Err e ->
     (e <> EFactory -> service_log ord c = []) /\
     (forall n, ~ In (Start n) (service_log ord c)) /\
     (forall n, In (Create n) (service_log ord c) -> In n ord /\ cannot_create c n = false)) /\
  (validate c = false -> service_log ord c = []) /\
  (forall n, In (Start n) (service_log ord c) ->
     validate c = true /\ exists g, build c = Ok g /\ In n (created g) /\ In (Create n) (service_log ord c)).
Proof.
  exact (fun ord c => conj (service_log_err ord c) (conj (service_log_invalid ord c) (service_log_start ord c))).
Qed.

(* Routing.  In a built graph, one datum emitted by receiver (s, i) travels along the complete walks
   [deliver_walks]; these are duplicate-free, and those that end at an exporter are EXACTLY the
   configuration-level paths [cpath] (through every pipeline of signal s listing i; in each pipeline
   its processors in configured order; then each exporter of the pipeline, or each connector
   instance and on into every pipeline listing the connector as a receiver).  Consequently what the
   exporters record, [deliver], is — as a multiset — what ANY duplicate-free enumeration of the
   configuration paths yields: exactly those exporters, once per path, with that trail. *)
Theorem route_exact : forall c g s i,
  wf_config c -> build c = Ok g -> In (Recv s i) (g_nodes g) ->
  NoDup (deliver_walks g (Recv s i)) /\
  (forall p, (In p (deliver_walks g (Recv s i)) /\ ends_exp p) <-> cpath c s i p) /\
  (forall sp, NoDup sp -> (forall p, In p sp <-> cpath c s i p) ->
              Permutation (deliver g (Recv s i)) (omap observe sp)).
Proof. exact route_exact_l. Qed.

(* ... element-wise: an exporter records (exporter, trail) iff that is the visible part (exporter
   reached; processors and connector instances passed, in order) of a configuration path. *)
Theorem deliver_in_iff : forall c g s i x,
  wf_config c -> build c = Ok g -> In (Recv s i) (g_nodes g) ->
  (In x (deliver g (Recv s i)) <-> exists p, cpath c s i p /\ observe p = Some x).
Proof. exact deliver_in_iff_l. Qed.

(* Run-time faults: when the components in F refuse (return an error, forward nothing), exactly the
   configuration paths that meet no refusing component are still completed — a failing pipeline does not
   starve its siblings — and the receiver gets an error back iff some walk meets a refusing component. *)
Theorem failure_isolated : forall c g s i F,
  wf_config c -> build c = Ok g -> In (Recv s i) (g_nodes g) ->
  (forall x, In x (deliver_f g F (Recv s i)) <->
     exists p, cpath c s i p /\ observe p = Some x /\ forall n, In n p -> memb F n = false) /\
  (consume_error g F (Recv s i) = true <->
     exists p n, In p (deliver_walks g (Recv s i)) /\ In n p /\ In n F).
Proof. exact failure_isolated_l. Qed.

(* The router handed to the connector instance (a, b, k) offers exactly the pipelines of signal b that
   list k as a receiver (k being used as exporter by some pipeline of signal a, pair supported). *)
Theorem connector_router_exact : forall c g a b k p,
  wf_config c -> build c = Ok g ->
  (In p (router_pids g (Conn a b k)) <->
   exists P Q, p = p_id Q /\ In P (pipes c) /\ In Q (pipes c) /\ p_sig P = a /\ p_sig Q = b /\
               In k (p_exps P) /\ In k (p_recv Q) /\ supported c k a b = true).
Proof. exact connector_router_exact_l. Qed.

(* Which connector factories count: for a pair among traces / metrics / logs the factory's own answer
   decides, whether or not it implements the experimental xconnector.Factory interface; only a pair
   involving profiles needs that interface. *)
Theorem supported_factory_kind : forall c k x m E R,
  lookup_conn k (conns c) = Some (Some (x, m)) ->
  (E < 3 -> R < 3 ->
   supported c k E R = existsb (fun p => Nat.eqb (fst p) E && Nat.eqb (snd p) R) m) /\
  (x = false -> supported c k E R = true -> E < 3 /\ R < 3).
Proof. exact supported_factory_kind_l. Qed.

(* Selective routing: router.Consumer(ids...) is refused exactly when no id is given or some id is not one of
   the pipelines the router offers; otherwise the returned consumer feeds exactly the requested pipelines — each
   once per time it was requested, and no other pipeline. *)
Theorem router_consumer_exact : forall offered ids,
  (forall l, router_consumer offered ids = Some l <-> ids <> [] /\ (forall p, In p ids -> In p offered) /\ l = ids) /\
  (router_consumer offered ids = None <-> ids = [] \/ exists p, In p ids /\ ~ In p offered).
Proof. exact router_consumer_exact_l. Qed.

Theorem route_deliver_exact : forall g n ids,
  (forall ds, route_deliver g n ids = Some ds ->
     ids <> [] /\ (forall p, In p ids -> In p (router_pids g n)) /\ ds = flat_map (fun p => deliver g (Cap p)) ids) /\
  (route_deliver g n ids = None <-> ids = [] \/ exists p, In p ids /\ ~ In p (router_pids g n)).
Proof. exact route_deliver_exact_l. Qed.

(* ... at the level of exporters, in the property's own words: receiver (s, i) reaches exporter (s', e) iff some
   pipeline P of signal s lists i, P feeds (is, or reaches through a chain of connector links) a pipeline Q of signal
   s', and Q lists e as an exporter. *)
Theorem exporters_reached_exact : forall c g s i s' e,
  wf_config c -> build c = Ok g -> In (Recv s i) (g_nodes g) ->
  ((exists t, In (Exp s' e, t) (deliver g (Recv s i))) <->
   exists P Q, In P (pipes c) /\ p_sig P = s /\ In i (p_recv P) /\ is_conn c i = false /\
               feeds c P Q /\ In Q (pipes c) /\ p_sig Q = s' /\ In e (p_exps Q) /\ is_conn c e = false).
Proof. exact exporters_reached_exact_l. Qed.

(* the hypotheses of the routing theorems: "Recv s i is a node" holds exactly for the receivers the configuration
   lists; wf_config is decidable and is checked on every recorded configuration (wf_ok in check_case2) *)
Theorem receiver_nodes_exact : forall c g s i,
  build c = Ok g -> (In (Recv s i) (g_nodes g) <-> instance_spec c (Recv s i)).
Proof. exact receiver_nodes_exact_l. Qed.

Theorem wf_config_decidable : forall c, wf_ok c = true <-> wf_config c.
Proof. exact wf_ok_iff. Qed.

(* Instances.  The factory calls of a successful build are duplicate-free and are exactly: one
   receiver per (signal, id) listed by some pipeline of that signal, one exporter per (signal, id),
   one processor per (pipeline, id), one connector per (exporter signal, receiver signal, id) such
   that the pair is supported and used on both sides. *)
Theorem instances_exact : forall c g,
  build c = Ok g -> NoDup (created g) /\ forall n, In n (created g) <-> instance_spec c n.
Proof. exact instances_exact_l. Qed.

(* The cycle named in the error message (accepted by the run-time check [check_cycle_report], which
   the correspondence applies to every "cycle detected" message of the implementation) is a closed
   walk of the model's edges that starts and ends at one connector node and whose processors and
   connectors are, in order, the reported ones. *)
Theorem cycle_message_names_cycle : forall c l,
  check_cycle_report c l = true ->
  exists a b k m, is_walk (edges_of c) (Conn a b k :: m ++ [Conn a b k]) /\
                  filter visible (Conn a b k :: m ++ [Conn a b k]) = l.
Proof. exact cycle_report_l. Qed.

(* ---- the decidable clause checkers evaluated on every recorded case decide the clauses ------------------- *)
(* observed deliveries [obs] of one receiver pass the checker iff they are, as a multiset, what every duplicate-free
   enumeration of the configuration paths yields *)
Theorem clause_routing_sound : forall c g s i obs,
  wf_config c -> build c = Ok g -> In (Recv s i) (g_nodes g) ->
  (recv_routing_ok g (Recv s i) obs = true <->
   forall sp, NoDup sp -> (forall p, In p sp <-> cpath c s i p) -> Permutation obs (omap observe sp)).
Proof. exact recv_routing_ok_sound. Qed.

(* the observed factory calls pass the checker iff they are duplicate-free and exactly the instances the
   configuration calls for *)
Theorem clause_instances_sound : forall c g crt,
  build c = Ok g ->
  (instances_ok (Ok g) crt = true <-> NoDup crt /\ forall n, In n crt <-> instance_spec c n).
Proof. exact instances_ok_sound. Qed.

(* observed class / created / started pass the checker iff an error is reported, nothing is started and (unless a
   factory refused during buildComponents) nothing was created whenever Build must fail, and no error otherwise *)
Theorem clause_rejected_sound : forall c cls crt std,
  rejected_ok (build c) cls crt std = true <->
  (forall e, build c = Err e -> cls <> 0 /\ std = [] /\ (e <> EFactory -> crt = [])) /\
  (forall g, build c = Ok g -> cls = 0).
Proof. exact rejected_ok_sound. Qed.

(* Link back to the model: the observed-case record built from the MODEL's own run (model_obs: the way the harness
   builds it from the implementation's run, for every creation order [ord]) passes the clause checkers, for EVERY
   configuration — no well-formedness guard is needed.  So the checker never demands more than the model (whose
   clauses are the theorems above) delivers: a checker verdict "violated" on an observed case is a difference from the
   model's behaviour, never a false alarm against it. *)
Theorem model_passes_checker : forall c ord, prop_ok (w_of_cfg c, model_obs ord c) = true.
Proof. exact model_passes_checker_cfg_l. Qed.

Theorem model_passes_checker_wire : forall wc ord, prop_ok (wc, model_obs ord (cfg_of_w wc)) = true.
Proof. exact model_passes_checker_l. Qed.

Print Assumptions model_passes_checker.
Print Assumptions model_passes_checker_wire.
Print Assumptions clause_routing_sound.
Print Assumptions clause_instances_sound.
Print Assumptions clause_rejected_sound.

(* ---- ties to definitions regenerated from the current Go source (instance obligations) ------------------ *)
(* which nodes are components (component.Component in the method set: translator T1) *)
Theorem tie_node_kinds : forall n,
  is_component n = has_method m_Start (methods_of n) && has_method m_Shutdown (methods_of n) /\
  skipped n = negb (is_component n).
Proof. exact tie_node_kinds_l. Qed.

(* every edge target of the model is a consumerNode of the code (getConsumer: translator T1) *)
Theorem tie_edge_targets_consume : forall c a b,
  In (a, b) (edges_of c) -> has_method m_getConsumer (methods_of b) = true.
Proof. exact tie_edge_targets_l. Qed.

(* Model.supported = connectorStability <> Undefined on every probe factory (table dumped by running the code) *)
Theorem tie_supported_table : forallb row_ok C09StabilityTable = true /\ table_covers = true.
Proof. exact tie_supported_table_l. Qed.

Theorem tie_undefined_is_zero : C09_StabilityLevelUndefined = 0%Z.
Proof. exact tie_undefined_is_zero_l. Qed.

Print Assumptions tie_node_kinds.
Print Assumptions tie_edge_targets_consume.
Print Assumptions tie_supported_table.
Print Assumptions tie_undefined_is_zero.
Print Assumptions build_ok_iff.
Print Assumptions graph_cycle_iff_connector_cycle.
Print Assumptions valid_config_builds.
Print Assumptions build_error_class.
Print Assumptions connector_cycle_rejected.
Print Assumptions unsupported_connector_rejected.
Print Assumptions build_error_starts_nothing.
Print Assumptions route_exact.
Print Assumptions deliver_in_iff.
Print Assumptions failure_isolated.
Print Assumptions connector_router_exact.
Print Assumptions supported_factory_kind.
Print Assumptions router_consumer_exact.
Print Assumptions route_deliver_exact.
Print Assumptions exporters_reached_exact.
Print Assumptions receiver_nodes_exact.
Print Assumptions wf_config_decidable.
Print Assumptions instances_exact.
Print Assumptions cycle_message_names_cycle.
