(* placeholder while the pipeline is brought up *)
From Verif Require Import Common.Base C09.Model.
