(* C09/Proofs5.v — a cycle of the component graph is a cycle of connector usage, and the lemmas
   Properties.v quotes directly. *)
From Verif Require Import Common.Base C09.Model C09.Spec C09.Proofs1 C09.Proofs2 C09.Proofs3 C09.Proofs4.

(* ---- a constructive closed walk from the boolean cycle check ------------------------------------- *)
Lemma cyclic_true_closed_walk V E :
  edges_closed V E -> cyclic V E = true -> exists v l, is_walk E (v :: l ++ [v]).
Proof.
  intros C H. unfold cyclic in H. rewrite anyb_existsb in H. apply existsb_exists in H.
  destruct H as [v [Hv H]]. apply longwalk_iff in H. destruct H as [l [L W]].
  destruct V as [|v0 V']; [destruct Hv|].
  assert (ND : ~ NoDup (v :: l)).
  { intros N. assert (S : length (v :: l) <= length (v0 :: V')).
    { apply NoDup_incl_length; [exact N|]. apply (walk_nodes_in (v0 :: V') E); [exact C | exact W | simpl in *; lia]. }
    simpl in *. lia. }
  apply not_NoDup_split in ND. destruct ND as [x [l1 [l2 [l3 E']]]]. rewrite E' in W.
  apply is_walk_app_r in W. exists x, l2.
  replace (x :: l2 ++ x :: l3) with ((x :: l2 ++ [x]) ++ l3) in W by (simpl; rewrite <- app_assoc; reflexivity).
  apply is_walk_app_l in W. exact W.
Qed.

Lemma not_acyclic_closed_walk c : ~ acyclic (edges_of c) -> exists v l, is_walk (edges_of c) (v :: l ++ [v]).
Proof.
  intros NA. apply (cyclic_true_closed_walk (nodes_of c)); [apply edges_closed_of|].
  destruct (cyclic (nodes_of c) (edges_of c)) eqn:E; [reflexivity|]. exfalso. apply NA.
  apply (cyclic_false_iff _ _ (edges_closed_of c)). exact E.
Qed.

(* ---- sets of nodes in which every node has a successor ---------------------------------------------- *)
Definition succ_closed (E : list (node * node)) (C : list node) : Prop :=
  forall x, In x C -> exists y, In y C /\ In (x, y) E.

Section InCycle.
  Variable c : config.
  Variable C : list node.
  Hypothesis W : wf_config c.
  Hypothesis D : procs_distinct c.
  Hypothesis SC : succ_closed (edges_of c) C.

  Lemma follow_chain_C P :
    In P (pipes c) ->
    forall l2 l1 a, chain_nodes P = l1 ++ a :: l2 -> In a C -> exists x, In x C /\ In x (exporters_of c P).
  Proof.
    intros HP. induction l2 as [|b l2 IH]; intros l1 a E Ha.
    - assert (a = Fan (p_id P)).
      { pose proof (chain_nodes_last P) as LL. rewrite E, last_opt_app in LL. inversion LL. reflexivity. }
      subst a. destruct (SC _ Ha) as [y [Hy He]]. exists y. split; [exact Hy|].
      apply (fan_out_edge c P y W HP (D P HP) He).
    - destruct (SC _ Ha) as [y [Hy He]].
      assert (Hin : In a (chain_nodes P)) by (rewrite E; apply in_app_iff; right; left; reflexivity).
      assert (y = b).
      { apply (chain_next_unique (chain_nodes P) l1 a b l2 y (NoDup_chain_nodes P (D P HP)) E).
        apply (chain_out_edge c P a y W HP Hin); [|exact He]. apply (fan_not_inner P l1 a b l2 (D P HP) E). }
      subst y. apply (IH (l1 ++ [a]) b); [rewrite <- app_assoc; exact E | exact Hy].
  Qed.

  Lemma exporter_in_C P x :
    In P (pipes c) -> In x (exporters_of c P) -> In x C ->
    exists Q, plink c P Q /\ In (Cap (p_id Q)) C.
  Proof.
    intros HP Hx HxC. destruct (SC _ HxC) as [y [Hy He]].
    apply (In_exporters_of_wf c P x W HP) in Hx.
    destruct Hx as [[e [-> _]]|[Q [k [-> [HQ [Hk [HkQ S]]]]]]].
    - exfalso. apply succs_In in He. rewrite exp_out_edges in He. destruct He.
    - destruct (conn_out_edge c _ _ k y W He) as [P' [Q' [-> [HP' [HQ' [Ea [Eb [H1 [H2 S']]]]]]]]].
      exists Q'. split; [|exact Hy]. split; [exact HP|]. split; [exact HQ'|].
      exists k. rewrite Eb. tauto.
  Qed.

  Lemma next_pipe P :
    In P (pipes c) -> In (Cap (p_id P)) C -> exists Q, plink c P Q /\ In (Cap (p_id Q)) C.
  Proof.
    intros HP HC.
    destruct (follow_chain_C P HP (proc_nodes P ++ [Fan (p_id P)]) [] (Cap (p_id P)) eq_refl HC) as [x [HxC Hx]].
    apply (exporter_in_C P x HP Hx HxC).
  Qed.

  Lemma reach_cap x : In x C -> exists P, In P (pipes c) /\ In (Cap (p_id P)) C.
  Proof.
    intros Hx. destruct (SC _ Hx) as [y [Hy He]]. apply In_edges_of in He.
    destruct He as [P [HP [[_ ->]|[H|[-> H]]]]].
    - exists P. tauto.
    - apply In_chain_split in H. destruct H as [l1 [l2 E]].
      destruct (follow_chain_C P HP (y :: l2) l1 x E Hx) as [x' [HxC Hx']].
      destruct (exporter_in_C P x' HP Hx' HxC) as [Q [[_ [HQ _]] HC]]. exists Q. tauto.
    - destruct (exporter_in_C P y HP H Hy) as [Q [[_ [HQ _]] HC]]. exists Q. tauto.
  Qed.

  Lemma iter_pipes : forall K P, In P (pipes c) -> In (Cap (p_id P)) C ->
    exists l, length l = K /\ plinks c (P :: l) /\ forall Q, In Q (P :: l) -> In Q (pipes c).
  Proof.
    induction K as [|K IH]; intros P HP HC.
    - exists []. split; [reflexivity|]. split; [exact I|]. intros Q [<-|[]]. exact HP.
    - destruct (next_pipe P HP HC) as [Q [L HQC]]. assert (HQ : In Q (pipes c)) by apply L.
      destruct (IH Q HQ HQC) as [l [Len [PL Hall]]].
      exists (Q :: l). split; [simpl; lia|]. split; [split; assumption|].
      intros R [<-|HR]; [exact HP | apply Hall; exact HR].
  Qed.
End InCycle.

(* ---- sub-chains of plinks ----------------------------------------------------------------------------- *)
Lemma plinks_app_l c l1 l2 : plinks c (l1 ++ l2) -> plinks c l1.
Proof.
  induction l1 as [|a l1 IH]; [intros; exact I|].
  destruct l1 as [|b l1]; [intros; exact I|].
  simpl app. intros [H1 H2]. split; [exact H1 | apply IH; exact H2].
Qed.

Lemma plinks_app_r c l1 l2 : plinks c (l1 ++ l2) -> plinks c l2.
Proof.
  induction l1 as [|a l1 IH]; [auto|].
  simpl app. intros H. apply IH. destruct (l1 ++ l2); [exact I | apply H].
Qed.

Lemma not_NoDup_split_pid (l : list pid) :
  ~ NoDup l -> exists x l1 l2 l3, l = l1 ++ x :: l2 ++ x :: l3.
Proof.
  assert (dec : forall a b : pid, {a = b} + {a <> b}) by (decide equality; apply Nat.eq_dec).
  induction l as [|a l IH]; intros H.
  - exfalso. apply H. constructor.
  - destruct (in_dec dec a l) as [Hin|Hnin].
    + apply in_split in Hin. destruct Hin as [l2 [l3 ->]]. exists a, [], l2, l3. reflexivity.
    + destruct IH as [x [l1 [l2 [l3 ->]]]].
      * intros N. apply H. constructor; assumption.
      * exists x, (a :: l1), l2, l3. reflexivity.
Qed.

Lemma closed_walk_connector_cycle c v l :
  wf_config c -> procs_distinct c -> is_walk (edges_of c) (v :: l ++ [v]) -> connector_cycle c.
Proof.
  intros W D Wk.
  assert (SC : succ_closed (edges_of c) (v :: l)) by (intros x Hx; apply (closed_walk_succ _ v l x Wk Hx)).
  destruct (reach_cap c (v :: l) W D SC v (or_introl eq_refl)) as [P [HP HC]].
  destruct (iter_pipes c (v :: l) W D SC (length (pipes c)) P HP HC) as [L [Len [PL Hall]]].
  assert (ND : ~ NoDup (map p_id (P :: L))).
  { intros N. assert (S : length (map p_id (P :: L)) <= length (map p_id (pipes c))).
    { apply NoDup_incl_length; [exact N|]. intros x Hx. apply in_map_iff in Hx. destruct Hx as [Q [<- HQ]].
      apply in_map. apply Hall. exact HQ. }
    rewrite !map_length in S. simpl in S. lia. }
  apply not_NoDup_split_pid in ND. destruct ND as [x [m1 [m2 [m3 E]]]].
  apply map_eq_app in E. destruct E as [L1 [R1 [E1 [_ E]]]].
  destruct R1 as [|X R1]; [discriminate|]. simpl in E. inversion E as [[EX E']].
  apply map_eq_app in E'. destruct E' as [L2 [R2 [E2 [_ E'']]]].
  destruct R2 as [|X' R2]; [discriminate|]. simpl in E''. inversion E'' as [[EX' _]].
  subst R1. rewrite E1 in PL, Hall.
  assert (X = X').
  { apply (wf_pid_inj c X X' W); [| |injection EX'; intros; congruence]; apply Hall; apply in_app_iff; right.
    - left. reflexivity.
    - right. apply in_app_iff. right. left. reflexivity. }
  subst X'. exists X, L2.
  apply plinks_app_r in PL.
  replace (X :: L2 ++ X :: R2) with ((X :: L2 ++ [X]) ++ R2) in PL by (simpl; rewrite <- app_assoc; reflexivity).
  apply plinks_app_l in PL. exact PL.
Qed.

Lemma graph_cycle_iff_connector_cycle_l c :
  wf_config c -> procs_distinct c -> (~ acyclic (edges_of c) <-> connector_cycle c).
Proof.
  intros W D. split.
  - intros NA. destruct (not_acyclic_closed_walk c NA) as [v [l Wk]].
    apply (closed_walk_connector_cycle c v l W D Wk).
  - apply connector_cycle_not_acyclic.
Qed.

(* ---- quoted by Properties.v ---------------------------------------------------------------------------- *)
Lemma connector_cycle_rejected_l c : connector_cycle c -> exists e, build c = Err e.
Proof.
  intros H. destruct (build c) as [g|e] eqn:B; [|eauto]. exfalso.
  apply build_ok_iff_l in B. destruct B as [_ [_ [_ [A _]]]]. exact (connector_cycle_not_acyclic c H A).
Qed.

Lemma unsupported_rejected_l c : ~ connectors_supported c -> exists e, build c = Err e.
Proof.
  intros H. destruct (build c) as [g|e] eqn:B; [|eauto]. exfalso.
  apply build_ok_iff_l in B. tauto.
Qed.

Lemma instances_exact_l c g :
  build c = Ok g -> NoDup (created g) /\ forall n, In n (created g) <-> instance_spec c n.
Proof.
  intros B. apply build_ok_inv in B. destruct B as [-> _]. split; [apply NoDup_created | apply In_created].
Qed.

(* ---- a valid configuration builds ------------------------------------------------------------------------ *)
Lemma validate_procs_distinct c : validate c = true -> procs_distinct c.
Proof.
  unfold validate. rewrite andb_true_iff, forallb_forall. intros [_ H] P HP.
  specialize (H P HP). unfold pipeline_valid in H. rewrite !andb_true_iff, !negb_true_iff in H.
  apply has_dup_false. tauto.
Qed.

Lemma valid_config_builds_l c :
  wf_config c -> validate c = true -> connectors_supported c -> ~ connector_cycle c -> factories_serve c ->
  build c = Ok (mkG (nodes_of c) (edges_of c)).
Proof.
  intros W V S NC FS. apply build_ok_iff_l. pose proof (validate_procs_distinct c V) as D.
  split; [reflexivity|]. split; [exact D|]. split; [exact S|]. split; [|exact FS].
  destruct (cyclic (nodes_of c) (edges_of c)) eqn:E.
  - exfalso. apply NC. apply (graph_cycle_iff_connector_cycle_l c W D).
    intros A. apply (cyclic_false_iff _ _ (edges_closed_of c)) in A. congruence.
  - apply (cyclic_false_iff _ _ (edges_closed_of c)). exact E.
Qed.

Lemma In_omap {A B} (f : A -> option B) l y : In y (omap f l) <-> exists x, In x l /\ f x = Some y.
Proof.
  induction l as [|a l IH]; simpl.
  - split; [intros [] | intros [x [[] _]]].
  - destruct (f a) eqn:E; simpl; rewrite IH; split.
    + intros [<-|[x [Hx Hf]]]; [exists a; split; [left; reflexivity | exact E] | exists x; split; [right; exact Hx | exact Hf]].
    + intros [x [[<-|Hx] Hf]]; [left; congruence | right; exists x; split; assumption].
    + intros [x [Hx Hf]]. exists x. split; [right; exact Hx | exact Hf].
    + intros [x [[<-|Hx] Hf]]; [congruence | exists x; split; assumption].
Qed.

Lemma deliver_in_iff_l c g s i x :
  wf_config c -> build c = Ok g -> In (Recv s i) (g_nodes g) ->
  (In x (deliver g (Recv s i)) <-> exists p, cpath c s i p /\ observe p = Some x).
Proof.
  intros W B Hin. destruct (route_exact_l c g s i W B Hin) as [_ [M _]].
  unfold deliver. rewrite In_omap. split; intros [p [H1 H2]]; exists p; (split; [|exact H2]).
  - apply M. split; [exact H1|]. apply observe_some_iff. eauto.
  - apply M in H1. tauto.
Qed.

(* ---- the router handed to a connector instance ------------------------------------------------------------ *)
Lemma connector_router_exact_l c g a b k p :
  wf_config c -> build c = Ok g ->
  (In p (router_pids g (Conn a b k)) <->
   exists P Q, p = p_id Q /\ In P (pipes c) /\ In Q (pipes c) /\ p_sig P = a /\ p_sig Q = b /\
               In k (p_exps P) /\ In k (p_recv Q) /\ supported c k a b = true).
Proof.
  intros W B. apply build_ok_inv in B. destruct B as [-> _]. unfold router_pids. simpl. rewrite In_omap. split.
  - intros [w [Hw E]]. apply succs_In in Hw.
    destruct (conn_out_edge c a b k w W Hw) as [P [Q [-> H]]]. inversion E; subst. exists P, Q. tauto.
  - intros [P [Q [-> [HP [HQ [Ea [Eb [Hk [HkQ S]]]]]]]]]. exists (Cap (p_id Q)). split; [|reflexivity].
    apply succs_In, In_edges_of. exists Q. split; [exact HQ|]. left. split; [|reflexivity].
    apply In_receivers_of. right. exists P, Q, k. subst. split; [reflexivity|]. split; [reflexivity|].
    apply In_conn_links. tauto.
Qed.

(* ---- the factory kind matters only for pairs that involve profiles ---------------------------------------- *)
Lemma supported_factory_kind_l c k x m E R :
  lookup_conn k (conns c) = Some (Some (x, m)) ->
  (E < 3 -> R < 3 ->
   supported c k E R = existsb (fun p => Nat.eqb (fst p) E && Nat.eqb (snd p) R) m) /\
  (x = false -> supported c k E R = true -> E < 3 /\ R < 3).
Proof.
  intros L. unfold supported. rewrite L. split.
  - intros HE HR. apply Nat.ltb_lt in HE. apply Nat.ltb_lt in HR. rewrite HE, HR. simpl.
    rewrite orb_true_r, andb_true_r. reflexivity.
  - intros -> H. simpl in H. rewrite !andb_true_iff in H. destruct H as [_ [HE HR]].
    apply Nat.ltb_lt in HE. apply Nat.ltb_lt in HR. tauto.
Qed.

(* ---- refusing components do not starve the other paths ------------------------------------------------------ *)
Lemma failure_isolated_l c g s i F :
  wf_config c -> build c = Ok g -> In (Recv s i) (g_nodes g) ->
  (forall x, In x (deliver_f g F (Recv s i)) <->
     exists p, cpath c s i p /\ observe p = Some x /\ forall n, In n p -> memb F n = false) /\
  (consume_error g F (Recv s i) = true <->
     exists p n, In p (deliver_walks g (Recv s i)) /\ In n p /\ In n F).
Proof.
  intros W B Hin. destruct (route_exact_l c g s i W B Hin) as [_ [M _]]. split.
  - intros x. unfold deliver_f. rewrite In_omap. split.
    + intros [p [Hp E]]. apply filter_In in Hp. destruct Hp as [Hp NF]. exists p.
      split; [apply M; split; [exact Hp | apply observe_some_iff; eauto]|]. split; [exact E|].
      intros n Hn. rewrite negb_true_iff in NF. destruct (memb F n) eqn:Em; [|reflexivity].
      assert (T : existsb (memb F) p = true) by (apply existsb_exists; exists n; tauto). congruence.
    + intros [p [Hc [E NF]]]. exists p. split; [|exact E]. apply filter_In. split; [apply M in Hc; tauto|].
      rewrite negb_true_iff. destruct (existsb (memb F) p) eqn:Ex; [|reflexivity].
      apply existsb_exists in Ex. destruct Ex as [n [Hn Hm]]. rewrite (NF n Hn) in Hm. discriminate.
  - unfold consume_error. rewrite existsb_exists. split.
    + intros [p [Hp Ex]]. apply existsb_exists in Ex. destruct Ex as [n [Hn Hm]]. exists p, n.
      split; [exact Hp|]. split; [exact Hn|]. unfold memb in Hm. apply (existsb_eqb_In node_eqb node_eqb_spec) in Hm. exact Hm.
    + intros [p [n [Hp [Hn HF]]]]. exists p. split; [exact Hp|]. apply existsb_exists. exists n. split; [exact Hn|].
      unfold memb. apply (existsb_eqb_In node_eqb node_eqb_spec). exact HF.
Qed.

(* ---- Consumer(ids...) of a connector's router --------------------------------------------------------------- *)
Lemma router_consumer_exact_l offered ids :
  (forall l, router_consumer offered ids = Some l <-> ids <> [] /\ (forall p, In p ids -> In p offered) /\ l = ids) /\
  (router_consumer offered ids = None <-> ids = [] \/ exists p, In p ids /\ ~ In p offered).
Proof.
  assert (F : forallb (fun p => existsb (pid_eqb p) offered) ids = true <-> forall p, In p ids -> In p offered).
  { rewrite forallb_forall. split; intros H p Hp.
    - apply (existsb_eqb_In pid_eqb pid_eqb_spec). apply H. exact Hp.
    - apply (existsb_eqb_In pid_eqb pid_eqb_spec). apply H. exact Hp. }
  unfold router_consumer. destruct ids as [|i ids']; [split; [intros l; split; [discriminate | intros [H _]; congruence] | split; auto]|].
  set (ids := i :: ids') in *.
  destruct (forallb (fun p => existsb (pid_eqb p) offered) ids) eqn:E.
  - split.
    + intros l. split; [intros H; inversion H; subst; split; [discriminate | split; [apply F; reflexivity | reflexivity]] | intros [_ [_ ->]]; reflexivity].
    + split; [discriminate|]. intros [H|[p [Hp Np]]]; [discriminate|]. exfalso. apply Np. apply F; [reflexivity | exact Hp].
  - split.
    + intros l. split; [discriminate|]. intros [_ [H _]]. apply F in H. congruence.
    + split; [|reflexivity]. intros _. right.
      assert (NE : ~ forall p, In p ids -> In p offered) by (intros H; apply F in H; congruence).
      clear E F. induction ids as [|a r IH]; [exfalso; apply NE; intros p []|].
      destruct (existsb (pid_eqb a) offered) eqn:Ea.
      * destruct IH as [p [Hp Np]].
        { intros H. apply NE. intros p [<-|Hp]; [apply (existsb_eqb_In pid_eqb pid_eqb_spec); exact Ea | apply H; exact Hp]. }
        exists p. split; [right; exact Hp | exact Np].
      * exists a. split; [left; reflexivity|]. intros H. apply (existsb_eqb_In pid_eqb pid_eqb_spec) in H. congruence.
Qed.

Lemma route_deliver_exact_l g n ids :
  (forall ds, route_deliver g n ids = Some ds ->
     ids <> [] /\ (forall p, In p ids -> In p (router_pids g n)) /\ ds = flat_map (fun p => deliver g (Cap p)) ids) /\
  (route_deliver g n ids = None <-> ids = [] \/ exists p, In p ids /\ ~ In p (router_pids g n)).
Proof.
  destruct (router_consumer_exact_l (router_pids g n) ids) as [H1 H2]. unfold route_deliver.
  destruct (router_consumer (router_pids g n) ids) as [l|] eqn:E.
  - split.
    + intros ds H. inversion H; subst. destruct (proj1 (H1 l) eq_refl) as [A [B ->]]. tauto.
    + split; [discriminate|]. intros H. apply H2 in H. discriminate.
  - split; [intros ds H; discriminate|]. split; [intros _; apply H2; reflexivity | reflexivity].
Qed.
