(* C09/Witness.v — non-vacuity of the hypotheses of the theorems and concrete evaluations. *)
From Verif Require Import Common.Base C09.Model C09.Spec C09.Proofs1 C09.Proofs2 C09.Proofs3 C09.Proofs4 C09.Proofs5.

(* traces/0: receivers 0,1; processors 0,1; exporter 0 and connector 10
   metrics/0: fed by connector 10; processor 2; exporters 0,1
   traces/1: receiver 0 (shared with traces/0); no processors; exporter 0 (shared) and connector 10
   connector 10 supports traces -> metrics only *)
Definition ex1 : config := mkC
  [ mkP (0,0) [0;1] [0;1] [0;10];
    mkP (1,0) [10] [2] [0;1];
    mkP (0,1) [0] [] [0;10] ]
  [ (10, Some (false, [(0,1)])) ] [].

Lemma NoDup_by_dedup (l : list pid) : list_eqb pid_eqb (dedup pid_eqb l) l = true -> NoDup l.
Proof.
  intros H. apply (list_eqb_spec pid_eqb pid_eqb_spec) in H. rewrite <- H.
  apply (NoDup_dedup pid_eqb pid_eqb_spec).
Qed.

(* hypotheses of route_exact / instances_exact / graph_cycle_iff_connector_cycle are satisfiable *)
Example ex1_wf : wf_config ex1.
Proof. apply NoDup_by_dedup. vm_compute. reflexivity. Qed.

Example ex1_builds : exists g, build ex1 = Ok g /\ In (Recv 0 0) (g_nodes g) /\ validate ex1 = true.
Proof. eexists. split; [vm_compute; reflexivity|]. vm_compute. tauto. Qed.

(* ... and those of valid_config_builds *)
Example ex1_valid : connectors_supported ex1 /\ ~ connector_cycle ex1.
Proof.
  split; [apply possible_errors_nil; vm_compute; reflexivity|].
  intros H. apply (connector_cycle_not_acyclic ex1 H).
  apply (cyclic_false_iff _ _ (edges_closed_of ex1)). vm_compute. reflexivity.
Qed.

(* shared receiver 0 reaches: exporter traces/0 twice (once per pipeline, different trails), and both
   metrics exporters twice through the single traces->metrics instance of connector 10 *)
Example ex1_deliver :
  match build ex1 with
  | Ok g => deliver g (Recv 0 0) =
      [(Exp 0 0, [Proc (0, 0) 0; Proc (0, 0) 1]);
       (Exp 1 0, [Proc (0, 0) 0; Proc (0, 0) 1; Conn 0 1 10; Proc (1, 0) 2]);
       (Exp 1 1, [Proc (0, 0) 0; Proc (0, 0) 1; Conn 0 1 10; Proc (1, 0) 2]);
       (Exp 0 0, []);
       (Exp 1 0, [Conn 0 1 10; Proc (1, 0) 2]);
       (Exp 1 1, [Conn 0 1 10; Proc (1, 0) 2])]
      /\ created g = [Recv 0 1; Proc (0, 0) 0; Proc (0, 0) 1; Proc (1, 0) 2; Exp 1 0; Exp 1 1; Recv 0 0; Exp 0 0; Conn 0 1 10]
  | Err _ => False
  end.
Proof. vm_compute. split; reflexivity. Qed.

(* the router of the single instance of connector 10 offers metrics/p0 only *)
Example ex1_router : match build ex1 with Ok g => router_pids g (Conn 0 1 10) = [(1, 0)] | Err _ => False end.
Proof. vm_compute. reflexivity. Qed.

Example ex1_cpath : cpath ex1 0 0 [Recv 0 0; Cap (0,1); Fan (0,1); Conn 0 1 10; Cap (1,0); Proc (1,0) 2; Fan (1,0); Exp 1 1].
Proof.
  exists (mkP (0,1) [0] [] [0;10]), [Cap (0,1); Fan (0,1); Conn 0 1 10; Cap (1,0); Proc (1,0) 2; Fan (1,0); Exp 1 1].
  repeat split; try (simpl; tauto).
  apply (pp_conn ex1 (mkP (0,1) [0] [] [0;10]) 10 (mkP (1,0) [10] [2] [0;1])
           [Cap (1,0); Proc (1,0) 2; Fan (1,0); Exp 1 1]); try (simpl; tauto); try reflexivity.
  apply (pp_exp ex1 (mkP (1,0) [10] [2] [0;1]) 1); simpl; tauto.
Qed.

(* why itineraries carry the capabilities / fan-out nodes: two pipelines without processors give the
   same visible (exporter, trail) twice — "once per path" is a statement about multisets *)
Definition ex2 : config := mkC [ mkP (0,0) [0] [] [0]; mkP (0,1) [0] [] [0] ] [] [].
Example ex2_twice :
  match build ex2 with
  | Ok g => deliver g (Recv 0 0) = [(Exp 0 0, []); (Exp 0 0, [])] /\
            deliver_walks g (Recv 0 0) = [[Recv 0 0; Cap (0, 0); Fan (0, 0); Exp 0 0]; [Recv 0 0; Cap (0, 1); Fan (0, 1); Exp 0 0]]
  | Err _ => False
  end.
Proof. vm_compute. split; reflexivity. Qed.

(* a connector cycle (the pipeline feeds itself through connector 10) *)
Definition ex_cyc : config := mkC [ mkP (0,0) [0;10] [3] [0;10] ] [ (10, Some (false, [(0,0)])) ] [].
Example ex_cyc_rejected : build ex_cyc = Err ECycle /\ service_log [] ex_cyc = [] /\ validate ex_cyc = true.
Proof. vm_compute. repeat split; reflexivity. Qed.
Example ex_cyc_connector_cycle : connector_cycle ex_cyc.
Proof.
  exists (mkP (0,0) [0;10] [3] [0;10]), []. simpl. split; [|exact I].
  split; [left; reflexivity|]. split; [left; reflexivity|]. exists 10.
  split; [simpl; auto|]. split; [simpl; auto|]. vm_compute. reflexivity.
Qed.
Example ex_cyc_hyps : wf_config ex_cyc /\ procs_distinct ex_cyc.
Proof.
  split; [apply NoDup_by_dedup; vm_compute; reflexivity | apply validate_procs_distinct; vm_compute; reflexivity].
Qed.
Example ex_cyc_report : check_cycle_report ex_cyc [Conn 0 0 10; Proc (0,0) 3; Conn 0 0 10] = true.
Proof. vm_compute. reflexivity. Qed.
Example ex_cyc_report_wrong : check_cycle_report ex_cyc [Conn 0 0 10; Proc (0,0) 4; Conn 0 0 10] = false.
Proof. vm_compute. reflexivity. Qed.

(* an unsupported use: connector 10 (traces->metrics only) between two traces pipelines *)
Definition ex_uns : config := mkC [ mkP (0,0) [0] [] [10]; mkP (0,1) [10] [] [0] ] [ (10, Some (false, [(0,1)])) ] [].
Example ex_uns_rejected : build ex_uns = Err EUnsupported /\ possible_errors ex_uns = [ErrExp 10 0] /\ service_log [] ex_uns = [].
Proof. vm_compute. repeat split; reflexivity. Qed.
Example ex_uns_not_supported : ~ connectors_supported ex_uns.
Proof.
  intros H. destruct (H 10 (mkP (0,0) [0] [] [10]) eq_refl (or_introl eq_refl)) as [H1 _].
  destruct (H1 (or_introl eq_refl)) as [Q [HQ [Hk S]]].
  destruct HQ as [<-|[<-|[]]]; simpl in Hk; [destruct Hk as [Hk|[]]; discriminate|]. vm_compute in S. discriminate.
Qed.

(* a duplicated processor: Validate rejects, Build would panic *)
Definition ex_dup : config := mkC [ mkP (2,0) [0] [1;1] [0] ] [] [].
Example ex_dup_rejected : validate ex_dup = false /\ build ex_dup = Err EPanic /\ service_log [] ex_dup = [].
Proof. vm_compute. repeat split; reflexivity. Qed.

(* a connector fanning out to two signals is instantiated once per (source, destination) pair *)
Definition ex_pairs : config := mkC
  [ mkP (0,0) [0] [] [10]; mkP (0,1) [1] [] [10]; mkP (1,0) [10] [] [0]; mkP (2,0) [10] [] [0]; mkP (1,1) [10] [] [1] ]
  [ (10, Some (true, [(0,1); (0,2)])) ] [].
Example ex_pairs_instances :
  match build ex_pairs with
  | Ok g => filter (fun n => match n with Conn _ _ _ => true | _ => false end) (created g) = [Conn 0 2 10; Conn 0 1 10]
            /\ length (deliver g (Recv 0 0)) = 3
  | Err _ => False
  end.
Proof. vm_compute. split; reflexivity. Qed.

(* factory kinds: a plain connector.NewFactory factory (flag false) links non-profile pipelines (ex1 above
   builds with such a connector); between profiles pipelines it supports nothing, an xconnector factory does *)
Definition ex_prof (x : bool) : config := mkC [ mkP (3,0) [0] [] [10]; mkP (3,1) [10] [] [0] ] [ (10, Some (x, [(3,3)])) ] [].
Example ex_prof_kinds :
  build (ex_prof false) = Err EUnsupported /\ match build (ex_prof true) with Ok g => length (deliver g (Recv 3 0)) = 1 | Err _ => False end.
Proof. vm_compute. split; reflexivity. Qed.

(* run-time fault: processor 1 of traces/p0 refuses — the paths through traces/p0 are cut, the sibling pipeline
   traces/p1 (same receiver) still delivers everything, and the receiver is told *)
Example ex1_fault :
  match build ex1 with
  | Ok g => deliver_f g [Proc (0,0) 1] (Recv 0 0) =
              [(Exp 0 0, []); (Exp 1 0, [Conn 0 1 10; Proc (1, 0) 2]); (Exp 1 1, [Conn 0 1 10; Proc (1, 0) 2])]
            /\ consume_error g [Proc (0,0) 1] (Recv 0 0) = true /\ consume_error g [Proc (0,0) 1] (Recv 0 1) = true
            /\ consume_error g [Exp 2 7] (Recv 0 0) = false
  | Err _ => False
  end.
Proof. vm_compute. repeat split; reflexivity. Qed.

(* a receiver from a stable factory in a profiles pipeline: the build fails in buildComponents after the exporter
   was created; nothing is started *)
Definition ex_fac : config := mkC [ mkP (3,0) [1] [] [0] ] [] [ (0, 1) ].
Example ex_fac_rejected :
  build ex_fac = Err EFactory /\ service_log [Exp 3 0; Recv 3 1] ex_fac = [Create (Exp 3 0)] /\ validate ex_fac = true.
Proof. vm_compute. repeat split; reflexivity. Qed.

(* selective routing on ex_pairs: the traces->metrics instance of connector 10 offers metrics/p0 and metrics/p1 *)
Example ex_router_consumer :
  router_consumer [(1,0); (1,1)] [(1,0); (1,0)] = Some [(1,0); (1,0)] /\
  router_consumer [(1,0); (1,1)] [(1,0); (2,0)] = None /\ router_consumer [(1,0); (1,1)] [] = None /\
  match build ex_pairs with
  | Ok g => route_deliver g (Conn 0 1 10) [(1,0); (1,0)] = Some [(Exp 1 0, []); (Exp 1 0, [])] /\
            route_deliver g (Conn 0 1 10) [(1,0); (2,0)] = None
  | Err _ => False
  end.
Proof. vm_compute. repeat split; reflexivity. Qed.

(* exporters_reached_exact on ex1: traces/p1 feeds metrics/p0 through connector 10, so receiver traces/0 reaches
   the metrics exporter 1 *)
Example ex1_feeds : feeds ex1 (mkP (0,1) [0] [] [0;10]) (mkP (1,0) [10] [2] [0;1]).
Proof.
  exists [mkP (1,0) [10] [2] [0;1]]. split; [|reflexivity]. split; [|exact I].
  split; [simpl; auto|]. split; [simpl; auto|]. exists 10. split; [simpl; auto|]. split; [simpl; auto|]. vm_compute. reflexivity.
Qed.

(* model_passes_checker is not vacuous: on ex1 the model's record passes, the same record with one delivery list
   emptied is rejected by clause 1 (routing), and a started-but-rejected record by clauses 4 and 5 *)
From Verif Require Import C09.Harness C09.Clauses.
Example ex1_model_obs_passes : violated_clauses (w_of_cfg ex1, model_obs [] ex1) = [].
Proof. vm_compute. reflexivity. Qed.
Example ex1_checker_rejects :
  match model_obs [] ex1 with
  | (v, (cls, (det, (crt, (std, (del, rest)))))) =>
      violated_clauses (w_of_cfg ex1, (v, (cls, (det, (crt, (std, (map (fun d => (fst d, [])) del, rest))))))) = [1]
  end /\
  match model_obs [] ex_cyc with
  | (v, (cls, (det, (crt, (std, rest))))) =>
      violated_clauses (w_of_cfg ex_cyc, (v, (cls, (det, (crt, ([(2, (0, (0, 0)))], rest)))))) = [4; 5]
  end.
Proof. vm_compute. split; reflexivity. Qed.
