From Verif Require Import Common.Base C09.Model.
