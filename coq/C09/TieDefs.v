(* C09/TieDefs.v — definitions used by the tie obligations of Tie.v (kept apart so that they still compile, and
   can be evaluated to look for a differing argument, when an obligation breaks). *)
From Verif Require Import Common.Base C09.Model.
From Verif Require Import Generated.C09Nodes Generated.C09Levels Generated.C09StabilityTable.
From Coq Require Import String.

Definition methods_of (n : node) : list String.string :=
  match n with
  | Recv _ _ => C09_receiverNode_methods
  | Proc _ _ => C09_processorNode_methods
  | Exp _ _ => C09_exporterNode_methods
  | Conn _ _ _ => C09_connectorNode_methods
  | Cap _ => C09_capabilitiesNode_methods
  | Fan _ => C09_fanOutNode_methods
  end.

Definition m_Start : String.string := "Start"%string.
Definition m_Shutdown : String.string := "Shutdown"%string.
Definition m_getConsumer : String.string := "getConsumer"%string.

Definition has_method (m : String.string) (l : list String.string) : bool := existsb (String.eqb m) l.


(* connectorStability: Model.supported against the dumped table *)
Definition all_pairs : list (nat * nat) :=
  flat_map (fun e => map (fun r => (e, r)) [0; 1; 2; 3]) [0; 1; 2; 3].

Definition pair_eqb (a b : nat * nat) : bool := Nat.eqb (fst a) (fst b) && Nat.eqb (snd a) (snd b).

Definition model_row (f : bool * list (nat * nat)) : list (nat * nat) :=
  filter (fun p => supported (mkC [] [(0, Some f)] []) 0 (fst p) (snd p)) all_pairs.

Definition row_ok (e : (bool * list (nat * nat)) * list (nat * nat)) : bool :=
  list_eqb pair_eqb (model_row (fst e)) (snd e).

(* every constructible single-pair factory of both kinds is in the table *)
Definition covered (x : bool) (p : nat * nat) : bool :=
  existsb (fun e => Bool.eqb (fst (fst e)) x && list_eqb pair_eqb (snd (fst e)) [p]) C09StabilityTable.

Definition table_covers : bool :=
  forallb (covered true) all_pairs &&
  forallb (covered false) (filter (fun p => Nat.ltb (fst p) 3 && Nat.ltb (snd p) 3) all_pairs).


(* search of the finite domain when tie_supported_table breaks: rows on which model and code differ, each with the
   pairs (E, R) on which they differ *)
Definition sym_diff (a b : list (nat * nat)) : list (nat * nat) :=
  filter (fun p => negb (existsb (pair_eqb p) b)) a ++ filter (fun p => negb (existsb (pair_eqb p) a)) b.

Definition bad_rows : list ((bool * list (nat * nat)) * list (nat * nat)) :=
  map (fun e => (fst e, sym_diff (model_row (fst e)) (snd e))) (filter (fun e => negb (row_ok e)) C09StabilityTable).
