(* C09/Proofs3.v — routing: the complete walks of the built graph from a receiver are exactly the
   configuration-level paths. *)
From Verif Require Import Common.Base C09.Model C09.Spec C09.Proofs1 C09.Proofs2.
From Coq Require Import Permutation.

Definition ends_exp (p : list node) : Prop := exists s e, last_opt p = Some (Exp s e).

Lemma last_opt_In (m : list node) x y : last_opt (x :: m) = Some y -> In y (x :: m).
Proof.
  revert x. induction m as [|z m IHm]; intros x Hl; simpl in Hl; [inversion Hl; left; reflexivity|].
  right. apply IHm. exact Hl.
Qed.

Lemma chain_nodes_last P : last_opt (chain_nodes P) = Some (Fan (p_id P)).
Proof.
  unfold chain_nodes.
  change (Cap (p_id P) :: proc_nodes P ++ [Fan (p_id P)]) with ((Cap (p_id P) :: proc_nodes P) ++ [Fan (p_id P)]).
  apply last_opt_app.
Qed.

Lemma fan_not_inner P l1 a b l2 :
  NoDup (p_procs P) -> chain_nodes P = l1 ++ a :: b :: l2 -> a <> Fan (p_id P).
Proof.
  intros N E ->. pose proof (NoDup_chain_nodes P N) as ND. pose proof (chain_nodes_last P) as L.
  rewrite E in ND, L. rewrite last_opt_app_ne in L by discriminate.
  rewrite last_opt_cons_ne in L by discriminate. apply last_opt_In in L.
  apply NoDup_remove_2 in ND. apply ND, in_app_iff. right. exact L.
Qed.

(* ---- configuration path => walk ------------------------------------------------------------------ *)
Lemma chain_cwalk E : forall l a y q,
  (forall e, In e (chain (a :: l)) -> In e E) ->
  (forall z, last_opt (a :: l) = Some z -> In (z, y) E) ->
  cwalk E y q -> cwalk E a ((a :: l) ++ q).
Proof.
  induction l as [|b l IH]; intros a y q Hc Hl Hq.
  - simpl. apply cw_step with y; [apply Hl; reflexivity | exact Hq].
  - simpl. apply cw_step with b; [apply Hc; left; reflexivity|].
    apply (IH b y q); [intros e He; apply Hc; right; exact He | intros z Hz; apply Hl; exact Hz | exact Hq].
Qed.

Lemma chain_edge_in c P e : In P (pipes c) -> In e (chain (chain_nodes P)) -> In e (edges_of c).
Proof. intros HP H. destruct e as [a b]. apply In_edges_of. exists P. tauto. Qed.

Lemma pipe_cwalk c P y q :
  In P (pipes c) -> In y (exporters_of c P) -> cwalk (edges_of c) y q ->
  cwalk (edges_of c) (Cap (p_id P)) (chain_nodes P ++ q).
Proof.
  intros HP Hy Hq. unfold chain_nodes. apply (chain_cwalk (edges_of c) (proc_nodes P ++ [Fan (p_id P)]) (Cap (p_id P)) y q).
  - intros e He. apply (chain_edge_in c P e HP He).
  - intros z Hz. pose proof (chain_nodes_last P) as L. unfold chain_nodes in L. rewrite L in Hz.
    inversion Hz; subst. apply In_edges_of. exists P. tauto.
  - exact Hq.
Qed.

Lemma ppath_cwalk c P t : ppath c P t -> cwalk (edges_of c) (Cap (p_id P)) t.
Proof.
  induction 1 as [P e HP He Hc | P k Q t HP Hk HQ HkQ S Hpp IH].
  - apply (pipe_cwalk c P (Exp (p_sig P) e)); [exact HP | | constructor; apply exp_out_edges].
    apply In_exporters_of. left. exists e. tauto.
  - apply (pipe_cwalk c P (Conn (p_sig P) (p_sig Q) k)); [exact HP | |].
    + apply In_exporters_of. right. exists P, Q, k. split; [reflexivity|]. split; [reflexivity|].
      apply In_conn_links. tauto.
    + apply cw_step with (Cap (p_id Q)); [|exact IH].
      apply In_edges_of. exists Q. split; [exact HQ|]. left. split; [|reflexivity].
      apply In_receivers_of. right. exists P, Q, k. split; [reflexivity|]. split; [reflexivity|].
      apply In_conn_links. tauto.
Qed.

Lemma ppath_ends c P t : ppath c P t -> ends_exp t.
Proof.
  induction 1 as [P e HP He Hc | P k Q t HP Hk HQ HkQ S Hpp IH].
  - exists (p_sig P), e. apply last_opt_app.
  - destruct IH as [s [e L]]. exists s, e. rewrite last_opt_app_ne by discriminate.
    destruct t as [|x t]; [discriminate|]. rewrite last_opt_cons_ne by discriminate. exact L.
Qed.

(* ---- walk => configuration path ------------------------------------------------------------------ *)
Lemma chain_node_not_exp P a s e : In a (chain_nodes P) -> a <> Exp s e.
Proof. rewrite In_chain_nodes. intros [->|[[i [-> _]]| ->]]; discriminate. Qed.

Lemma follow_chain c P :
  wf_config c -> In P (pipes c) -> NoDup (p_procs P) ->
  forall l2 l1 a t, chain_nodes P = l1 ++ a :: l2 -> cwalk (edges_of c) a t -> ends_exp t ->
  exists x rest, t = a :: l2 ++ rest /\ cwalk (edges_of c) x rest /\ In x (exporters_of c P).
Proof.
  intros W HP N. induction l2 as [|b l2 IH]; intros l1 a t E Hc [s [e L]].
  - assert (a = Fan (p_id P)).
    { pose proof (chain_nodes_last P) as LL. rewrite E, last_opt_app in LL. inversion LL. reflexivity. }
    subst a. inversion Hc as [v Hs | v w p He Hp]; subst.
    + simpl in L. discriminate.
    + exists w, p. split; [reflexivity|]. split; [exact Hp|]. apply (fan_out_edge c P w W HP N He).
  - assert (Ha : In a (chain_nodes P)) by (rewrite E; apply in_app_iff; right; left; reflexivity).
    inversion Hc as [v Hs | v w p He Hp]; subst.
    + simpl in L. inversion L. exfalso. apply (chain_node_not_exp P _ s e Ha). assumption.
    + assert (w = b).
      { apply (chain_next_unique (chain_nodes P) l1 a b l2 w (NoDup_chain_nodes P N) E).
        apply (chain_out_edge c P a w W HP Ha); [|exact He]. apply (fan_not_inner P l1 a b l2 N E). }
      subst w.
      destruct (cwalk_head _ _ _ Hp) as [tl Ep].
      destruct (IH (l1 ++ [a]) b p) as [x [rest [Et [Hx Hin]]]].
      * rewrite <- app_assoc. exact E.
      * exact Hp.
      * exists s, e. rewrite Ep in L |- *. rewrite last_opt_cons_ne in L by discriminate. exact L.
      * exists x, rest. split; [rewrite Et; reflexivity | tauto].
Qed.

Lemma conn_out_edge c a b k w :
  wf_config c -> In (Conn a b k, w) (edges_of c) ->
  exists P Q, w = Cap (p_id Q) /\ In P (pipes c) /\ In Q (pipes c) /\ p_sig P = a /\ p_sig Q = b /\
              In k (p_exps P) /\ In k (p_recv Q) /\ supported c k a b = true.
Proof.
  intros W H. apply In_edges_of in H. destruct H as [Q [HQ [[H ->]|[H|[H _]]]]].
  - apply (In_receivers_of_wf c Q _ W HQ) in H. destruct H as [[r [H _]]|[P [k' [E [HP [H1 [H2 S]]]]]]]; [discriminate|].
    inversion E; subst. exists P, Q. tauto.
  - apply In_chain_In in H. destruct H as [H _]. apply In_chain_nodes in H.
    destruct H as [H|[[i [H _]]|H]]; discriminate.
  - discriminate.
Qed.

Lemma cwalk_ppath c :
  wf_config c -> procs_distinct c ->
  forall n P t, length t <= n -> In P (pipes c) ->
    cwalk (edges_of c) (Cap (p_id P)) t -> ends_exp t -> ppath c P t.
Proof.
  intros W D. induction n as [|n IH]; intros P t Ln HP Hc He.
  - destruct (cwalk_head _ _ _ Hc) as [tl ->]. simpl in Ln. lia.
  - destruct (follow_chain c P W HP (D P HP) (proc_nodes P ++ [Fan (p_id P)]) [] (Cap (p_id P)) t eq_refl Hc He)
      as [x [rest [Et [Hx Hin]]]].
    change (Cap (p_id P) :: (proc_nodes P ++ [Fan (p_id P)]) ++ rest) with (chain_nodes P ++ rest) in Et.
    apply (In_exporters_of_wf c P x W HP) in Hin.
    destruct Hin as [[e [-> [Hin Hnc]]]|[Q [k [-> [HQ [Hk [HkQ S]]]]]]].
    + inversion Hx as [v Hs | v w p Hew Hp]; subst.
      * apply pp_exp; assumption.
      * exfalso. apply succs_In in Hew. rewrite exp_out_edges in Hew. destruct Hew.
    + inversion Hx as [v Hs | v w p Hew Hp]; subst.
      * exfalso. destruct He as [s [e L]]. rewrite last_opt_app in L. discriminate.
      * destruct (conn_out_edge c _ _ k w W Hew) as [P' [Q' [-> [HP' [HQ' [Ea [Eb [H1 [H2 S']]]]]]]]].
        rewrite <- Eb. apply pp_conn; try assumption.
        -- rewrite Eb. exact S.
        -- apply IH; [|exact HQ' | exact Hp|].
           ++ rewrite app_length in Ln. simpl in Ln. unfold chain_nodes in Ln. simpl in Ln. lia.
           ++ destruct He as [s [e L]]. exists s, e. rewrite last_opt_app_ne in L by discriminate.
              destruct (cwalk_head _ _ _ Hp) as [tl Ep]. rewrite Ep in L |- *.
              rewrite last_opt_cons_ne in L by discriminate. exact L.
Qed.

(* ---- from a receiver ------------------------------------------------------------------------------ *)
Lemma recv_walk_iff c s i p :
  wf_config c -> procs_distinct c ->
  ((cwalk (edges_of c) (Recv s i) p /\ ends_exp p) <-> cpath c s i p).
Proof.
  intros W D. split.
  - intros [Hc He]. inversion Hc as [v Hs | v w q Hew Hq]; subst.
    + destruct He as [s' [e L]]. simpl in L. discriminate.
    + apply In_edges_of in Hew. destruct Hew as [P [HP [[H ->]|[H|[H _]]]]].
      * apply In_receivers_of in H. destruct H as [[r [E [Hr Hnc]]]|[eP [rP [k [E _]]]]]; [|discriminate].
        inversion E; subst. exists P, q. repeat split; try assumption.
        apply (cwalk_ppath c W D (length q) P q (le_n _) HP Hq).
        destruct He as [s' [e L]]. exists s', e. destruct (cwalk_head _ _ _ Hq) as [tl Eq]. rewrite Eq in L |- *.
        rewrite last_opt_cons_ne in L by discriminate. exact L.
      * apply In_chain_In in H. destruct H as [H _]. apply In_chain_nodes in H.
        destruct H as [H|[[j [H _]]|H]]; discriminate.
      * discriminate.
  - intros [P [t [HP [Es [Hi [Hnc [Hpp ->]]]]]]]. split.
    + apply cw_step with (Cap (p_id P)); [|apply ppath_cwalk; exact Hpp].
      apply In_edges_of. exists P. split; [exact HP|]. left. split; [|reflexivity].
      apply In_receivers_of. left. exists i. rewrite Es. tauto.
    + destruct (ppath_ends c P t Hpp) as [s' [e L]]. exists s', e.
      destruct (cwalk_head _ _ _ (ppath_cwalk c P t Hpp)) as [tl Et]. rewrite Et in L |- *.
      rewrite last_opt_cons_ne by discriminate. exact L.
Qed.

(* ---- what build = Ok means ------------------------------------------------------------------------- *)
Lemma no_dup_procs_iff c :
  existsb (fun P => has_dup (p_procs P)) (pipes c) = false <-> procs_distinct c.
Proof.
  unfold procs_distinct. split.
  - intros H P HP. apply has_dup_false. destruct (has_dup (p_procs P)) eqn:E; [|reflexivity].
    assert (T : existsb (fun P => has_dup (p_procs P)) (pipes c) = true) by (apply existsb_exists; exists P; tauto).
    congruence.
  - intros H. destruct (existsb (fun P => has_dup (p_procs P)) (pipes c)) eqn:E; [|reflexivity].
    apply existsb_exists in E. destruct E as [P [HP E]]. apply H, has_dup_false in HP. congruence.
Qed.

Lemma build_ok_inv c g :
  build c = Ok g ->
  g = mkG (nodes_of c) (edges_of c) /\ procs_distinct c /\ possible_errors c = [] /\ acyclic (edges_of c).
Proof.
  unfold build. destruct (existsb (fun P => has_dup (p_procs P)) (pipes c)) eqn:E1; [discriminate|].
  destruct (is_nil (possible_errors c)) eqn:E2; simpl; [|discriminate].
  destruct (cyclic (nodes_of c) (edges_of c)) eqn:E3; [discriminate|].
  destruct (existsb (cannot_create c) (filter is_component (nodes_of c))) eqn:E4; [discriminate|].
  intros H. inversion H. split; [reflexivity|]. split; [apply no_dup_procs_iff; exact E1|].
  split; [apply is_nil_iff; exact E2|]. apply (cyclic_false_iff _ _ (edges_closed_of c)). exact E3.
Qed.

Lemma observe_some_iff p : (exists o, observe p = Some o) <-> ends_exp p.
Proof.
  unfold observe, ends_exp. destruct (last_opt p) as [[]|]; split; intros [x H]; try discriminate;
    try (destruct H as [e H]; discriminate); eauto.
Qed.

Definition observable (p : list node) : bool := match observe p with Some _ => true | None => false end.

Lemma omap_observe_filter l : omap observe l = omap observe (filter observable l).
Proof.
  induction l as [|p l IH]; simpl; [reflexivity|]. unfold observable at 1.
  destruct (observe p) eqn:E; simpl; rewrite ?E, IH; reflexivity.
Qed.

Lemma route_exact_l c g s i :
  wf_config c -> build c = Ok g -> In (Recv s i) (g_nodes g) ->
  NoDup (deliver_walks g (Recv s i)) /\
  (forall p, (In p (deliver_walks g (Recv s i)) /\ ends_exp p) <-> cpath c s i p) /\
  (forall sp, NoDup sp -> (forall p, In p sp <-> cpath c s i p) ->
              Permutation (deliver g (Recv s i)) (omap observe sp)).
Proof.
  intros W B Hin. apply build_ok_inv in B. destruct B as [-> [D [_ A]]]. unfold deliver, deliver_walks in *. simpl in *.
  assert (N : NoDup (walks (edges_of c) (length (nodes_of c)) (Recv s i))) by (apply NoDup_walks, NoDup_edges_of).
  assert (M : forall p, (In p (walks (edges_of c) (length (nodes_of c)) (Recv s i)) /\ ends_exp p) <-> cpath c s i p).
  { intros p. rewrite (walks_complete (nodes_of c) (edges_of c) _ p (edges_closed_of c) A Hin).
    apply recv_walk_iff; assumption. }
  split; [exact N|]. split; [exact M|].
  intros sp Nsp Hsp. rewrite omap_observe_filter. apply omap_perm. apply NoDup_Permutation.
  - apply NoDup_filter. exact N.
  - exact Nsp.
  - intros p. rewrite filter_In, Hsp, <- M. unfold observable.
    split; intros [H1 H2]; (split; [exact H1|]).
    + apply observe_some_iff. destruct (observe p); [eauto | discriminate].
    + apply observe_some_iff in H2. destruct H2 as [o ->]. reflexivity.
Qed.
