(* C09/ClausesSound.v — the clause checkers of Clauses.v decide the Prop-level clauses. *)
From Verif Require Import Common.Base C09.Model C09.Spec C09.Harness C09.Clauses.
From Verif Require Import C09.Proofs1 C09.Proofs2 C09.Proofs3 C09.Proofs4 C09.Proofs5 C09.Proofs6.
From Coq Require Import Permutation.

Section Perm.
  Context {A : Type} (eqb : A -> A -> bool).
  Hypothesis eqb_spec : forall x y, eqb x y = true <-> x = y.

  Lemma remove1_perm x l l' : remove1 eqb x l = Some l' -> Permutation l (x :: l').
  Proof.
    revert l'. induction l as [|y r IH]; intros l' H; simpl in H; [discriminate|].
    destruct (eqb x y) eqn:E.
    - apply eqb_spec in E. subst. inversion H; subst. apply Permutation_refl.
    - destruct (remove1 eqb x r) as [r'|] eqn:R; simpl in H; [|discriminate]. inversion H; subst.
      eapply Permutation_trans; [apply perm_skip, IH; reflexivity | apply perm_swap].
  Qed.

  Lemma remove1_In x l : In x l -> exists l', remove1 eqb x l = Some l'.
  Proof.
    induction l as [|y r IH]; intros H; [destruct H|]. simpl.
    destruct (eqb x y) eqn:E; [eauto|].
    destruct H as [->|H]; [assert (T : eqb x x = true) by (apply eqb_spec; reflexivity); congruence|].
    destruct (IH H) as [l' ->]. simpl. eauto.
  Qed.

  Lemma perm_eqb_Permutation l1 l2 : perm_eqb eqb l1 l2 = true <-> Permutation l1 l2.
  Proof.
    revert l2. induction l1 as [|x r IH]; intros l2; simpl.
    - split.
      + intros H. apply is_nil_iff in H. subst. constructor.
      + intros H. apply Permutation_nil in H. subst. reflexivity.
    - split.
      + destruct (remove1 eqb x l2) as [l2'|] eqn:R; [|discriminate]. intros H. apply IH in H.
        apply remove1_perm in R. eapply Permutation_trans; [apply perm_skip, H | apply Permutation_sym, R].
      + intros H. assert (Hin : In x l2) by (eapply Permutation_in; [exact H | left; reflexivity]).
        destruct (remove1_In x l2 Hin) as [l2' R]. rewrite R. apply IH.
        apply remove1_perm in R. apply (Permutation_cons_inv (a := x)).
        eapply Permutation_trans; [exact H | exact R].
  Qed.
End Perm.

Lemma deliv_eqb_spec a b : deliv_eqb a b = true <-> a = b.
Proof.
  destruct a as [a1 a2], b as [b1 b2]. unfold deliv_eqb. simpl.
  rewrite andb_true_iff, node_eqb_spec, (list_eqb_spec node_eqb node_eqb_spec).
  split; [intros [-> ->]; reflexivity | intros E; inversion E; auto].
Qed.

(* routing clause, one receiver *)
Lemma recv_routing_ok_sound c g s i obs :
  wf_config c -> build c = Ok g -> In (Recv s i) (g_nodes g) ->
  (recv_routing_ok g (Recv s i) obs = true <->
   forall sp, NoDup sp -> (forall p, In p sp <-> cpath c s i p) -> Permutation obs (omap observe sp)).
Proof.
  intros W B Hin. destruct (route_exact_l c g s i W B Hin) as [N [M P]].
  unfold recv_routing_ok. rewrite (perm_eqb_Permutation deliv_eqb deliv_eqb_spec). split.
  - intros H sp Nsp Hsp. eapply Permutation_trans; [apply Permutation_sym, H | apply P; assumption].
  - intros H. apply Permutation_sym.
    set (sp := filter observable (deliver_walks g (Recv s i))).
    assert (E : deliver g (Recv s i) = omap observe sp) by (unfold deliver, sp; apply omap_observe_filter).
    rewrite E. apply H.
    + apply NoDup_filter. exact N.
    + intros p. unfold sp. rewrite filter_In, <- M. unfold observable.
      split; intros [H1 H2]; (split; [exact H1|]).
      * apply observe_some_iff. destruct (observe p); [eauto | discriminate].
      * apply observe_some_iff in H2. destruct H2 as [o ->]. reflexivity.
Qed.

(* instances clause *)
Lemma instances_ok_sound c g crt :
  build c = Ok g ->
  (instances_ok (Ok g) crt = true <-> NoDup crt /\ forall n, In n crt <-> instance_spec c n).
Proof.
  intros B. destruct (instances_exact_l c g B) as [N I]. simpl.
  rewrite (perm_eqb_Permutation node_eqb node_eqb_spec). split.
  - intros H. split; [eapply Permutation_NoDup; eassumption|].
    intros n. rewrite <- I. split; intros Hn; [eapply Permutation_in; [apply Permutation_sym, H | exact Hn] | eapply Permutation_in; eassumption].
  - intros [Nc Ic]. apply NoDup_Permutation; [exact N | exact Nc|]. intros n. rewrite I, Ic. tauto.
Qed.

(* rejection clause *)
Lemma rejected_ok_sound c cls crt std :
  rejected_ok (build c) cls crt std = true <->
  (forall e, build c = Err e -> cls <> 0 /\ std = [] /\ (e <> EFactory -> crt = [])) /\
  (forall g, build c = Ok g -> cls = 0).
Proof.
  unfold rejected_ok. destruct (build c) as [g|e].
  - rewrite Nat.eqb_eq. split; [intros H; split; [intros e E; discriminate | intros g' _; exact H] | intros [_ H]; apply (H g); reflexivity].
  - rewrite !andb_true_iff, negb_true_iff, Nat.eqb_neq. split.
    + intros [[H1 H2] H3]. apply is_nil_iff in H2. split; [|intros g E; discriminate].
      intros e' E. injection E as <-. split; [exact H1|]. split; [exact H2|].
      intros NE. destruct e; try (apply is_nil_iff; exact H3). congruence.
    + intros [H _]. destruct (H e eq_refl) as [H1 [H2 H3]]. split; [split; [exact H1 | apply is_nil_iff; exact H2]|].
      destruct e; try (apply is_nil_iff, H3; discriminate). reflexivity.
Qed.

Lemma wf_ok_iff c : wf_ok c = true <-> wf_config c.
Proof. unfold wf_ok, wf_config. rewrite (list_eqb_spec pid_eqb pid_eqb_spec). apply dedup_id_iff. Qed.

(* ---- what the MODEL produces always passes the clause checkers -------------------------------------------- *)
Lemma node_of_w_of_node n : node_of_w (w_of_node n) = n.
Proof. destruct n as [s r|[a b] i|s e|a b k|[a b]|[a b]]; reflexivity. Qed.

Lemma map_node_roundtrip l : map node_of_w (map w_of_node l) = l.
Proof. rewrite map_map. rewrite <- (map_id l) at 2. apply map_ext. apply node_of_w_of_node. Qed.

Lemma conv_deliv_roundtrip l : conv_deliv (w_of_deliv l) = l.
Proof.
  unfold conv_deliv, w_of_deliv. rewrite map_map. rewrite <- (map_id l) at 2. apply map_ext.
  intros [r ds]. simpl. rewrite node_of_w_of_node. f_equal.
  rewrite map_map. rewrite <- (map_id ds) at 2. apply map_ext. intros [e t]. simpl.
  rewrite node_of_w_of_node, map_node_roundtrip. reflexivity.
Qed.

Lemma cfg_of_w_of_cfg c : cfg_of_w (w_of_cfg c) = c.
Proof.
  destruct c as [ps cs np]. unfold cfg_of_w, w_of_cfg. simpl. f_equal.
  rewrite map_map. rewrite <- (map_id ps) at 2. apply map_ext. intros [i r p e]. reflexivity.
Qed.

Lemma perm_eqb_refl {A} (eqb : A -> A -> bool) (spec : forall x y, eqb x y = true <-> x = y) l : perm_eqb eqb l l = true.
Proof. apply (perm_eqb_Permutation eqb spec). apply Permutation_refl. Qed.

Lemma routing_ok_model g : routing_ok (Ok g) (model_deliveries g) = true.
Proof.
  unfold routing_ok, model_deliveries. rewrite map_length, Nat.eqb_refl. simpl.
  apply forallb_forall. intros rc Hrc. apply existsb_exists. exists (rc, deliver g rc).
  split; [apply in_map_iff; exists rc; tauto|]. simpl. rewrite node_eqb_refl. simpl.
  unfold recv_routing_ok. apply (perm_eqb_refl deliv_eqb deliv_eqb_spec).
Qed.

Lemma model_passes_checker_l wc ord : prop_ok (wc, model_obs ord (cfg_of_w wc)) = true.
Proof.
  unfold prop_ok, violated_clauses, model_obs. destruct wc as [wps wrest].
  set (c := cfg_of_w (wps, wrest)). destruct (build c) as [g|e] eqn:B.
  - cbv beta iota zeta. rewrite !conv_deliv_roundtrip, !map_node_roundtrip, routing_ok_model.
    unfold instances_ok, rejected_ok, started_ok. rewrite (perm_eqb_refl node_eqb node_eqb_spec). reflexivity.
  - cbv beta iota zeta. unfold routing_ok, instances_ok, rejected_ok, started_ok, conv_deliv. simpl map.
    destruct e; reflexivity.
Qed.

Lemma model_passes_checker_cfg_l c ord : prop_ok (w_of_cfg c, model_obs ord c) = true.
Proof. pose proof (model_passes_checker_l (w_of_cfg c) ord) as H. rewrite cfg_of_w_of_cfg in H. exact H. Qed.
