(* C09/Spec.v — the DECLARATIVE side of the theorems: what the property text says about a
   configuration, written without reference to the graph builder (no node sets, no edge lists,
   no fuel).  Definitions only. *)
From Verif Require Import Common.Base C09.Model.

(* pipelines.Config and the connector configuration are Go maps: keys are unique *)
Definition wf_config (c : config) : Prop := NoDup (map p_id (pipes c)).

(* PipelineConfig.Validate: no processor listed twice in one pipeline *)
Definition procs_distinct (c : config) : Prop := forall P, In P (pipes c) -> NoDup (p_procs P).

(* "a connector [is used] in a pipeline for which it has [a] supported counterpart pipeline" *)
Definition connectors_supported (c : config) : Prop :=
  forall k P, is_conn c k = true -> In P (pipes c) ->
    (In k (p_exps P) -> exists Q, In Q (pipes c) /\ In k (p_recv Q) /\ supported c k (p_sig P) (p_sig Q) = true) /\
    (In k (p_recv P) -> exists Q, In Q (pipes c) /\ In k (p_exps Q) /\ supported c k (p_sig Q) (p_sig P) = true).

(* connector usage: pipeline P feeds pipeline Q through connector k *)
Definition plink (c : config) (P Q : pipeline) : Prop :=
  In P (pipes c) /\ In Q (pipes c) /\
  exists k, In k (p_exps P) /\ In k (p_recv Q) /\ supported c k (p_sig P) (p_sig Q) = true.

(* a chain P0 -> P1 -> ... of connector links *)
Fixpoint plinks (c : config) (l : list pipeline) : Prop :=
  match l with
  | P :: t => match t with Q :: _ => plink c P Q /\ plinks c t | [] => True end
  | [] => True
  end.

(* "connector usage forms a cycle" *)
Definition connector_cycle (c : config) : Prop := exists P l, plinks c (P :: l ++ [P]).

(* Configuration-level paths.  [ppath c P t]: t is the itinerary of a datum that enters pipeline P:
   P's capabilities node, P's processors in the configured order, P's fan-out node, and then
   either one of P's exporters, or one of P's connectors (the instance for the signal pair) followed by the
   itinerary through a pipeline that lists that connector as a receiver. *)
Inductive ppath (c : config) : pipeline -> list node -> Prop :=
| pp_exp P e :
    In P (pipes c) -> In e (p_exps P) -> is_conn c e = false ->
    ppath c P (chain_nodes P ++ [Exp (p_sig P) e])
| pp_conn P k Q t :
    In P (pipes c) -> In k (p_exps P) -> In Q (pipes c) -> In k (p_recv Q) ->
    supported c k (p_sig P) (p_sig Q) = true -> ppath c Q t ->
    ppath c P (chain_nodes P ++ Conn (p_sig P) (p_sig Q) k :: t).

(* itineraries of a datum emitted by receiver i of signal s: through every pipeline of that
   signal that lists i as a receiver *)
Definition cpath (c : config) (s : nat) (i : cid) (p : list node) : Prop :=
  exists P t, In P (pipes c) /\ p_sig P = s /\ In i (p_recv P) /\ is_conn c i = false /\
              ppath c P t /\ p = Recv s i :: t.

(* which component instances the configuration calls for *)
Definition instance_spec (c : config) (n : node) : Prop :=
  match n with
  | Recv s r => exists P, In P (pipes c) /\ p_sig P = s /\ In r (p_recv P) /\ is_conn c r = false
  | Exp s e => exists P, In P (pipes c) /\ p_sig P = s /\ In e (p_exps P) /\ is_conn c e = false
  | Proc p i => exists P, In P (pipes c) /\ p_id P = p /\ In i (p_procs P)
  | Conn se sr k => exists P Q, In P (pipes c) /\ In Q (pipes c) /\ p_sig P = se /\ p_sig Q = sr /\
                                In k (p_exps P) /\ In k (p_recv Q) /\ supported c k se sr = true
  | Cap _ | Fan _ => False
  end.

(* every component the configuration calls for can be created by its factory *)
Definition factories_serve (c : config) : Prop := forall n, instance_spec c n -> cannot_create c n = false.

(* pipeline P feeds pipeline Q: Q = P, or through a chain of connector links *)
Definition feeds (c : config) (P Q : pipeline) : Prop :=
  exists l, plinks c (P :: l) /\ last_opt (P :: l) = Some Q.
