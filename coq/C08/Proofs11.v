(* C08/Proofs11.v — the public decode paths and the migration of the deprecated scope fields. *)
From Verif Require Import Common.Base C08.Model C08.Proofs1 C08.Proofs2 C08.Proofs3 C08.Proofs5 C08.Proofs10.
Local Open Scope N_scope.

Section Mig.
Variable Sc : schema.

Lemma pv_eqb_true_eq a b : pv_eqb a b = true -> a = b.
Proof. apply pv_eqb_eq. Qed.

Lemma map_id_ext {A} (f : A -> A) l : (forall x, In x l -> f x = x) -> map f l = l.
Proof.
  induction l as [|a l IH]; intros H; cbn [map]; [reflexivity|].
  rewrite (H a (or_introl eq_refl)), IH; [reflexivity|]. intros x Hx. apply H. right. exact Hx.
Qed.

(* a resource without the deprecated field is left alone *)
Lemma migrate_resource_id ds r : no_dep_resource ds r = true -> migrate_resource ds r = r.
Proof.
  unfold no_dep_resource, migrate_resource. destruct r as [| |fs| | |]; try reflexivity.
  destruct (slot_index ds 2) as [i2|]; [|reflexivity].
  destruct (slot_index ds 1000) as [i|]; [|reflexivity].
  intros H. apply pv_eqb_true_eq in H. rewrite H.
  assert (E : match nth i2 fs VNone with VRep [] => upd i2 (VRep []) fs | _ => fs end = fs).
  { destruct (nth i2 fs VNone) as [| | |[|x l]| |] eqn:En; try reflexivity. rewrite <- En. apply upd_nth. }
  rewrite E. rewrite <- H. rewrite upd_nth. reflexivity.
Qed.

Lemma migrate_resource_noop ds r : slot_index ds 1000 = None -> migrate_resource ds r = r.
Proof.
  intros H. unfold migrate_resource. rewrite H. destruct r; try reflexivity. destruct (slot_index ds 2); reflexivity.
Qed.

(* for a payload without deprecated fields the migration is the identity *)
Theorem migrate_id_l m v : no_deprecated Sc m v = true -> migrate Sc m v = v.
Proof.
  unfold no_deprecated, migrate. destruct v as [| |fs| | |]; try reflexivity.
  destruct (find_field (mfields (msg Sc m)) 1 0) as [[i1 d1]|]; [|reflexivity].
  destruct (fty d1) as [| | | |mr]; try reflexivity.
  destruct (nth i1 fs VNone) as [| | |rs| |] eqn:En; try reflexivity.
  intros H. rewrite forallb_forall in H.
  rewrite map_id_ext; [|intros x Hx; apply migrate_resource_id; apply H; exact Hx].
  rewrite <- En. rewrite upd_nth. reflexivity.
Qed.

(* a signal whose resource message has no deprecated field (profiles): migration is the identity *)
Theorem migrate_noop_l m :
  (forall i1 d1 mr, find_field (mfields (msg Sc m)) 1 0 = Some (i1, d1) -> fty d1 = TMsg mr ->
                    slot_index (mfields (msg Sc mr)) 1000 = None) ->
  forall v, migrate Sc m v = v.
Proof.
  intros Hs v. unfold migrate. destruct v as [| |fs| | |]; try reflexivity.
  destruct (find_field (mfields (msg Sc m)) 1 0) as [[i1 d1]|] eqn:Ef; [|reflexivity].
  destruct (fty d1) as [| | | |mr] eqn:Et; try reflexivity.
  destruct (nth i1 fs VNone) as [| | |rs| |] eqn:En; try reflexivity.
  rewrite map_id_ext; [|intros x _; apply migrate_resource_noop; eapply Hs; eauto].
  rewrite <- En. rewrite upd_nth. reflexivity.
Qed.

(* after the migration no resource carries the deprecated field (in a resource message that has the
   deprecated field 1000 at all, the scope field 2 exists as well) *)
Lemma slot_index_lt ds fn i : slot_index ds fn = Some i -> (i < length ds)%nat.
Proof.
  unfold slot_index. destruct (find_field ds fn 0) as [[j d]|] eqn:Ef; [|discriminate].
  cbn. intros E. inversion E; subst. destruct (find_field_nth_error fn ds 0 i d Ef) as [_ Hn].
  rewrite Nat.sub_0_r in Hn. apply nth_error_Some. congruence.
Qed.

Lemma migrate_resource_clears ds r :
  (slot_index ds 1000 <> None -> slot_index ds 2 <> None) ->
  (match r with VMsg f => length f = length ds | _ => False end) ->
  no_dep_resource ds (migrate_resource ds r) = true.
Proof.
  unfold no_dep_resource, migrate_resource. intros Hs. destruct r as [| |fs| | |]; try contradiction.
  intros Hl.
  destruct (slot_index ds 1000) as [i|] eqn:E1.
  - destruct (slot_index ds 2) as [i2|] eqn:E2; [|exfalso; apply Hs; [discriminate|reflexivity]].
    pose proof (slot_index_lt ds 1000 i E1) as Hi.
    rewrite nth_upd_same; [reflexivity|].
    destruct (nth i2 fs VNone) as [| | |[|x l]| |]; rewrite ?upd_length; lia.
  - destruct (slot_index ds 2); reflexivity.
Qed.

Theorem migrate_clears_l m v :
  (forall i1 d1 mr, find_field (mfields (msg Sc m)) 1 0 = Some (i1, d1) -> fty d1 = TMsg mr ->
                    slot_index (mfields (msg Sc mr)) 1000 <> None -> slot_index (mfields (msg Sc mr)) 2 <> None) ->
  res_shaped Sc m v = true -> no_deprecated Sc m (migrate Sc m v) = true.
Proof.
  intros Hs. unfold res_shaped, no_deprecated, migrate. destruct v as [| |fs| | |]; try reflexivity.
  destruct (find_field (mfields (msg Sc m)) 1 0) as [[i1 d1]|] eqn:Ef; [|reflexivity].
  destruct (fty d1) as [| | | |mr] eqn:Et; try (intros _; reflexivity).
  destruct (nth i1 fs VNone) as [| | |rs| |] eqn:En; try (intros _; rewrite ?Et, ?En; reflexivity).
  intros H. apply andb_true_iff in H. destruct H as [Hi Hr]. apply Nat.ltb_lt in Hi.
  rewrite ?Et. rewrite nth_upd_same by exact Hi.
  rewrite forallb_forall in *. intros x Hx. apply in_map_iff in Hx. destruct Hx as (r & <- & Hin).
  apply migrate_resource_clears; [eapply Hs; eauto|].
  specialize (Hr r Hin). destruct r; try discriminate Hr. apply Nat.eqb_eq in Hr. exact Hr.
Qed.

(* ---- the public protobuf decode paths ---- *)
(* every public path is the generated Unmarshal followed by the migration, hence ALL public paths
   decode every byte string alike (deprecated fields or not) *)
Theorem decode_path_is_migrate_l p m b : decode_path Sc p m b = option_map (migrate Sc m) (decode Sc m b).
Proof. unfold decode_path. destruct p; reflexivity. Qed.

Theorem public_paths_agree_l m b p q : decode_path Sc p m b = decode_path Sc q m b.
Proof. rewrite !decode_path_is_migrate_l. reflexivity. Qed.

(* on bytes that decode to a payload without deprecated fields they all give exactly what the generated
   Unmarshal gives *)
Theorem public_paths_plain_l m b v :
  decode Sc m b = Some v -> no_deprecated Sc m v = true ->
  forall p, decode_path Sc p m b = Some v.
Proof.
  intros Hd Hn p. rewrite decode_path_is_migrate_l, Hd. cbn [option_map]. rewrite migrate_id_l by exact Hn. reflexivity.
Qed.

(* the migrating path is the non-migrating one followed by the migration, and idempotent on its result *)
Theorem migrate_idem_l m v :
  (forall i1 d1 mr, find_field (mfields (msg Sc m)) 1 0 = Some (i1, d1) -> fty d1 = TMsg mr ->
                    slot_index (mfields (msg Sc mr)) 1000 <> None -> slot_index (mfields (msg Sc mr)) 2 <> None) ->
  res_shaped Sc m v = true -> migrate Sc m (migrate Sc m v) = migrate Sc m v.
Proof. intros Hs Hr. apply migrate_id_l. apply migrate_clears_l; assumption. Qed.

(* what the decoder builds has one slot per field in every resource (from the decoder invariant) *)
Lemma norm_fields_length ds : forall vs, length (norm_fields Sc ds vs) = length vs.
Proof. induction ds as [|d ds IH]; intros [|v vs]; cbn [norm_fields length]; auto. Qed.

Hypothesis Hwf : wf_schema Sc = true.

Lemma decode_res_shaped m b v : decode Sc m b = Some v -> res_shaped Sc m v = true.
Proof.
  intros Hd. pose proof (decode_canonical_l Sc Hwf m b v Hd) as Hc.
  unfold decode in Hd. destruct (dec_fields Sc (length b) (mfields (msg Sc m)) (mdefault (msg Sc m)) b) as [fs|]; [|discriminate].
  inversion Hd; subst v. clear Hd.
  unfold canonical, norm in Hc. apply G_canon in Hc. destruct Hc as [Hc _].
  unfold res_shaped.
  destruct (find_field (mfields (msg Sc m)) 1 0) as [[i1 d1]|] eqn:Ef; [|reflexivity].
  destruct (fty d1) as [| | | |mr] eqn:Et; try reflexivity.
  destruct (nth i1 fs VNone) as [| | |rs| |] eqn:En; try reflexivity.
  destruct (find_field_nth_error 1 _ 0 i1 d1 Ef) as [_ Hn]. rewrite Nat.sub_0_r in Hn.
  pose proof (canon_fields_length Sc _ _ Hc) as HL. rewrite norm_fields_length in HL.
  apply andb_true_iff. split.
  - apply Nat.ltb_lt. rewrite <- HL. apply nth_error_Some. congruence.
  - pose proof (canon_nth Sc _ fs i1 d1 Hc Hn) as Hg. rewrite En in Hg.
    unfold gs, nslot, norm_slot_with, canon_slot, canon_slot_with in Hg. rewrite Et in Hg.
    destruct (fcd d1); try discriminate Hg.
    + (* CRep *)
      rewrite forallb_forall in *. intros r Hr.
      specialize (Hg (norm_val Sc (TMsg mr) r) (in_map _ _ _ Hr)).
      destruct r as [| |f| | |]; try discriminate Hg.
      rewrite norm_val_msg2 in Hg. rewrite canon_val_msg in Hg. apply andb_true_iff in Hg. destruct Hg as [Hg _].
      apply canon_fields_length in Hg. rewrite norm_fields_length in Hg. apply Nat.eqb_eq. congruence.
    + (* CPacked: a message type cannot be packed *)
      destruct rs as [|r rs]; [reflexivity|]. cbn [forallb] in Hg. discriminate Hg.
Qed.

(* decidable forms of the two schema conditions *)
Definition mig_ok (m : nat) : bool :=
  match find_field (mfields (msg Sc m)) 1 0 with
  | Some (_, d1) => match fty d1 with
                    | TMsg mr => match slot_index (mfields (msg Sc mr)) 1000 with
                                 | Some _ => match slot_index (mfields (msg Sc mr)) 2 with Some _ => true | None => false end
                                 | None => true
                                 end
                    | _ => true
                    end
  | None => true
  end.
Definition mig_none (m : nat) : bool :=
  match find_field (mfields (msg Sc m)) 1 0 with
  | Some (_, d1) => match fty d1 with
                    | TMsg mr => match slot_index (mfields (msg Sc mr)) 1000 with Some _ => false | None => true end
                    | _ => false
                    end
  | None => false
  end.

Lemma mig_ok_spec m : mig_ok m = true ->
  forall i1 d1 mr, find_field (mfields (msg Sc m)) 1 0 = Some (i1, d1) -> fty d1 = TMsg mr ->
                   slot_index (mfields (msg Sc mr)) 1000 <> None -> slot_index (mfields (msg Sc mr)) 2 <> None.
Proof.
  unfold mig_ok. intros H i1 d1 mr Ef Et. rewrite Ef, Et in H.
  destruct (slot_index (mfields (msg Sc mr)) 1000); [|congruence].
  destruct (slot_index (mfields (msg Sc mr)) 2); [discriminate|discriminate].
Qed.

Lemma mig_none_spec m : mig_none m = true ->
  forall i1 d1 mr, find_field (mfields (msg Sc m)) 1 0 = Some (i1, d1) -> fty d1 = TMsg mr ->
                   slot_index (mfields (msg Sc mr)) 1000 = None.
Proof.
  unfold mig_none. intros H i1 d1 mr Ef Et. rewrite Ef, Et in H.
  destruct (slot_index (mfields (msg Sc mr)) 1000); [discriminate|reflexivity].
Qed.
End Mig.
