(* C08/Proofs13.v — the boolean clause checkers of Harness.v (evaluated on the OBSERVED behaviour of the
   implementation, for every case of every run and for the failing-input search) are sound and complete
   for the Prop-level clauses. *)
From Verif Require Import Common.Base C08.Model C08.Json C08.Proofs2 C08.Proofs3 C08.Harness.
From Coq Require Import String.
Local Open Scope N_scope.

Lemma pv_eqb_refl a : pv_eqb a a = true.
Proof.
  induction a as [n|b|fs IH|vs IH| |v IH] using pv_ind'; cbn [pv_eqb].
  - apply N.eqb_refl.
  - apply (list_eqb_spec N.eqb N.eqb_eq). reflexivity.
  - induction IH as [|p l Hp _ IHl]; [reflexivity|]. rewrite Hp, IHl. reflexivity.
  - induction IH as [|p l Hp _ IHl]; [reflexivity|]. rewrite Hp, IHl. reflexivity.
  - reflexivity.
  - exact IH.
Qed.

Lemma pv_eqb_iff a b : pv_eqb a b = true <-> a = b.
Proof. split; [apply pv_eqb_eq|intros ->; apply pv_eqb_refl]. Qed.

Lemma opv_eqb_iff a b : opv_eqb a b = true <-> a = b.
Proof.
  unfold opv_eqb, option_eqb. destruct a, b; try (split; [discriminate|discriminate]); try (split; reflexivity).
  rewrite pv_eqb_iff. split; [intros ->; reflexivity|intros H; inversion H; reflexivity].
Qed.

Lemma bytes_eqb_iff (a b : bytes) : list_eqb N.eqb a b = true <-> a = b.
Proof. apply (list_eqb_spec N.eqb N.eqb_eq). Qed.

(* the clauses, as propositions about what was observed *)
Definition Clause (c : case) : Prop :=
  let '(kind, (m, (v, (hx, (sz, (j, (back, hx2))))))) := c in
  match kind with
  | 0%nat =>      (* Size = len(Marshal); Unmarshal(Marshal v) = v; Marshal(Unmarshal(Marshal v)) = Marshal v *)
      blen (hex hx) = sz /\ obs_back v back = Some v /\ obs_bytes2 hx hx2 = hex hx
  | 4%nat =>      (* UnmarshalJSON(MarshalJSON v) = v; Marshal(UnmarshalJSON(MarshalJSON v)) = Marshal v *)
      obs_back v back = Some v /\ obs_bytes2 hx hx2 = hex hx
  | 1%nat | 2%nat | 7%nat | 9%nat =>   (* whatever decodes re-encodes to a fixed point *)
      match v with
      | VSome _ => hx2 = same \/ obs_round2 (hex hx2) back = Some (hex hx2)
      | _ => True
      end
  | _ => True
  end.

Theorem prop_ok_sound_l c : prop_ok c = true <-> Clause c.
Proof.
  destruct c as (kind & m & v & hx & sz & j & back & hx2).
  unfold prop_ok, clause_size, clause_roundtrip, clause_rebytes, clause_fixpoint, Clause.
  destruct kind as [|[|[|[|[|[|[|[|[|[|k]]]]]]]]]]; cbn [andb];
    rewrite ?andb_true_r, ?andb_true_iff, ?N.eqb_eq, ?opv_eqb_iff, ?bytes_eqb_iff; try tauto.
  all: destruct v; try tauto;
    destruct (String.eqb_spec hx2 same) as [->|Hne]; [split; [auto|reflexivity]|];
    (split; [intros H; right; destruct (obs_round2 (hex hx2) back); [apply bytes_eqb_iff in H; congruence|discriminate]
            |intros [H|H]; [contradiction|rewrite H; apply bytes_eqb_iff; reflexivity]]).
Qed.
