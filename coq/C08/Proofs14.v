(* C08/Proofs14.v — round 5: JSON theorems with decidable hypotheses only, the alternate forms at field
   level, and the JSON fixed point. *)
From Verif Require Import Common.Base C08.Model C08.Json C08.Proofs1 C08.Proofs2 C08.Proofs3 C08.Proofs5 C08.Proofs8 C08.Proofs9 C08.Proofs11.
Local Open Scope N_scope.

Section J5.
Variable Sc : schema.
Variable D : list jdec.
Variable E : enums.
Hypothesis Hwf : wf_schema Sc = true.

(* the JSON round trip with decidable hypotheses only: canonical, supported by the table, no deprecated field *)
Theorem json_roundtrip_nd_l m v :
  canonical Sc m v = true -> jok Sc D m v = true -> no_deprecated Sc m v = true ->
  of_json Sc D E m (to_json Sc m v) = Some v.
Proof. intros Hc Hj Hn. apply json_roundtrip_l; auto. apply migrate_id_l. exact Hn. Qed.

Theorem json_proto_agree_nd_l m v :
  canonical Sc m v = true -> jok Sc D m v = true -> no_deprecated Sc m v = true ->
  option_map (encode Sc m) (of_json Sc D E m (to_json Sc m v)) = Some (encode Sc m v).
Proof. intros. rewrite json_roundtrip_nd_l; auto. Qed.

(* whatever the JSON decoder builds, if it is canonical, supported and without deprecated field, is a fixed
   point of MarshalJSON ; UnmarshalJSON *)
Theorem json_decode_fixpoint_partial_l m j v :
  of_json Sc D E m j = Some v ->
  canonical Sc m v = true -> jok Sc D m v = true -> no_deprecated Sc m v = true ->
  of_json Sc D E m (to_json Sc m v) = Some v.
Proof. intros _. apply json_roundtrip_nd_l. Qed.
End J5.

(* alternate forms at the level of a field: any field read by a dual reader gives the same result for an
   integer token written as a number and as a string — whatever the token (in range or not) *)
Theorem json_int64_forms_field_l E rec e m d cur k z :
  fty d = TScalar k -> is64 k = true -> forms_ok d e = true ->
  oj_one E rec e m d cur (JInt z) = oj_one E rec e m d cur (JIntStr z).
Proof.
  intros Hty Hk Hf. unfold forms_ok in Hf. rewrite Hty, Hk in Hf. apply andb_true_iff in Hf. destruct Hf as [H1 H2].
  unfold oj_one. rewrite Hty. f_equal. apply json_int64_forms_l; assumption.
Qed.

Theorem json_enum_forms_field_l E rec e m d cur name value :
  fty d = TScalar SEnum -> forms_ok d e = true ->
  find (fun p => list_eqb N.eqb (fst p) name) (enum_names E m (fnum d)) = Some (name, value) ->
  in_range SEnum value = true ->
  oj_one E rec e m d cur (JStr name) = oj_one E rec e m d cur (JInt (sgn64 value)).
Proof.
  intros Hty Hf Hfind Hr. unfold forms_ok in Hf. rewrite Hty in Hf. cbn [is64] in Hf.
  apply andb_true_iff in Hf. destruct Hf as [H1 H2].
  unfold oj_one. rewrite Hty. f_equal. apply json_enum_forms_l; assumption.
Qed.
