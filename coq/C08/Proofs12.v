(* C08/Proofs12.v — entries of one JSON object that interact: a later member of a oneof group
   replaces the group (it is NOT merged into, or read through, an earlier member). *)
From Verif Require Import Common.Base C08.Model C08.Json C08.Proofs3 C08.Proofs8 C08.Proofs10.
Local Open Scope N_scope.

Lemma set_slot_go_absorb v1 v2 g i1 i2 : forall ds cur j,
  (forall d, (j <= i1)%nat -> nth_error ds (i1 - j) = Some d -> same_group g d = true) ->
  set_slot_go ds g i2 j v2 (set_slot_go ds g i1 j v1 cur) = set_slot_go ds g i2 j v2 cur.
Proof.
  induction ds as [|d ds IH]; intros [|c cur] j H; cbn [set_slot_go]; try reflexivity.
  f_equal.
  - destruct (Nat.eqb_spec j i2); [reflexivity|].
    destruct (same_group g d) eqn:Es; [reflexivity|].
    destruct (Nat.eqb_spec j i1) as [->|Hne]; [|reflexivity].
    rewrite (H d) in Es; [discriminate|lia|]. rewrite Nat.sub_diag. reflexivity.
  - apply IH. intros d' Hle Hn. apply (H d'); [lia|].
    replace (i1 - j)%nat with (S (i1 - S j)) by lia. exact Hn.
Qed.

Section OneofJ.
Variable Sc : schema.
Variable D : list jdec.
Variable E : enums.

(* two entries of one object whose keys are members of the same oneof group: the document decodes as if
   only the later one were there *)
Theorem json_oneof_last_wins_l m k1 x1 k2 x2 rest cur e1 e2 i1 d1 i2 d2 g v1 :
  jlookup D m k1 = Some e1 -> find_field (mfields (msg Sc m)) (jfnum e1) 0 = Some (i1, d1) -> fcd d1 = COneof g ->
  jlookup D m k2 = Some e2 -> find_field (mfields (msg Sc m)) (jfnum e2) 0 = Some (i2, d2) -> fcd d2 = COneof g ->
  oj_slot E (oj_val Sc D E) e1 m d1 (nth i1 cur VNone) x1 = Some v1 ->
  oj_fields Sc D E m ((k1, x1) :: (k2, x2) :: rest) cur = oj_fields Sc D E m ((k2, x2) :: rest) cur.
Proof.
  intros L1 F1 C1 L2 F2 C2 S1.
  cbn [oj_fields]. rewrite L1, F1, S1, L2, F2.
  assert (Eslot : forall old, oj_slot E (oj_val Sc D E) e2 m d2 old x2
                              = option_map VSome (oj_one E (oj_val Sc D E) e2 m d2 None x2)).
  { intros old. unfold oj_slot. rewrite C2. reflexivity. }
  rewrite !Eslot.
  destruct (oj_one E (oj_val Sc D E) e2 m d2 None x2) as [v2|]; [|reflexivity]. cbn [option_map].
  f_equal. unfold set_slot, group_of. rewrite C1, C2.
  apply set_slot_go_absorb. intros d _ Hn. rewrite Nat.sub_0_r in Hn.
  destruct (find_field_nth_error _ _ 0%nat i1 d1 F1) as [_ Hn1]. rewrite Nat.sub_0_r in Hn1.
  rewrite Hn1 in Hn. inversion Hn; subst d. unfold same_group. rewrite C1. apply N.eqb_refl.
Qed.
End OneofJ.
