(* C08/Proofs5.v — the loop over the slots of a message and the round-trip theorem. *)
From Verif Require Import Common.Base C08.Model C08.Proofs1 C08.Proofs2 C08.Proofs3 C08.Proofs4.
Require Import ZifyBool ZifyNat ZifyN.
Local Open Scope N_scope.

Section Canon.
Variable Sc : schema.

Lemma canon_fields_length ds : forall vs, canon_fields Sc ds vs = true -> length ds = length vs.
Proof.
  induction ds as [|d ds IH]; intros [|v vs] H; cbn [canon_fields] in H; try discriminate; auto.
  apply andb_true_iff in H. destruct H as [_ H]. cbn [length]. f_equal. auto.
Qed.

Lemma canon_fields_nth ds : forall vs k d, canon_fields Sc ds vs = true -> nth_error ds k = Some d ->
  exists v, nth_error vs k = Some v /\ canon_slot Sc d v = true.
Proof.
  induction ds as [|a ds IH]; intros [|v vs] [|k] d H Hk; cbn [canon_fields] in H; cbn in Hk; try discriminate.
  - inversion Hk; subst. apply andb_true_iff in H. destruct H as [H _]. exists v. split; [reflexivity|exact H].
  - apply andb_true_iff in H. destruct H as [_ H]. apply (IH vs k d H Hk).
Qed.

Lemma canon_fields_app a : forall b c e, length a = length c ->
  canon_fields Sc (a ++ b) (c ++ e) = canon_fields Sc a c && canon_fields Sc b e.
Proof.
  induction a as [|x a IH]; intros b [|y c] e Hl; cbn [length] in Hl; try discriminate; cbn [app canon_fields].
  - reflexivity.
  - rewrite IH by lia. rewrite andb_assoc. reflexivity.
Qed.

Lemma canon_oneof_shape d g v :
  fcd d = COneof g -> canon_slot Sc d v = true -> v = VNone \/ exists x, v = VSome x.
Proof.
  unfold canon_slot, canon_slot_with. intros Hcd H. rewrite Hcd in H.
  destruct v; try discriminate H; [left; reflexivity|right; eauto].
Qed.

Definition sel (g : N) (p : fdesc * pv) : bool :=
  same_group (Some g) (fst p) && match snd p with VSome _ => true | _ => false end.

Lemma group_clear ds vs i d g x :
  canon_fields Sc ds vs = true -> groups_ok ds vs = true ->
  nth_error ds i = Some d -> fcd d = COneof g -> nth_error vs i = Some (VSome x) ->
  forall k d', k <> i -> nth_error ds k = Some d' -> same_group (Some g) d' = true ->
  nth_error vs k = Some VNone.
Proof.
  intros Hcan Hg Hi Hcd Hvi k d' Hne Hk Hsg.
  destruct (canon_fields_nth ds vs k d' Hcan Hk) as (v' & Hvk & Hc').
  assert (Hcd' : exists g', fcd d' = COneof g').
  { unfold same_group in Hsg. destruct (fcd d'); try discriminate Hsg. eauto. }
  destruct Hcd' as (g' & Hcd').
  destruct (canon_oneof_shape d' g' v' Hcd' Hc') as [->|(y & ->)]; [exact Hvk|].
  exfalso.
  assert (Hcount : (group_count ds vs g <= 1)%nat).
  { unfold groups_ok in Hg. rewrite forallb_forall in Hg.
    specialize (Hg d (nth_error_In _ _ Hi)). rewrite Hcd in Hg. apply Nat.leb_le in Hg. exact Hg. }
  assert (Hsd : same_group (Some g) d = true).
  { unfold same_group. rewrite Hcd. apply N.eqb_refl. }
  assert (H2 : (2 <= group_count ds vs g)%nat).
  { unfold group_count.
    pose proof (nth_error_combine ds vs i d (VSome x) Hi Hvi) as Ci.
    pose proof (nth_error_combine ds vs k d' (VSome y) Hk Hvk) as Ck.
    destruct (Nat.lt_ge_cases i k) as [Hlt|Hge].
    - eapply (filter_len2 _ (combine ds vs) i k); eauto; cbn [fst snd]; rewrite ?Hsd, ?Hsg; reflexivity.
    - eapply (filter_len2 _ (combine ds vs) k i); eauto; try lia; cbn [fst snd]; rewrite ?Hsd, ?Hsg; reflexivity. }
  lia.
Qed.
End Canon.

Section Loop.
Variable Sc : schema.
Hypothesis Hwf : wf_schema Sc = true.
Variable n : nat.
Hypothesis IHn : forall m fs,
  (length (enc_fields Sc (mfields (msg Sc m)) fs) < n)%nat ->
  canon_val Sc (TMsg m) (VMsg fs) = true ->
  blen (enc_fields Sc (mfields (msg Sc m)) fs) < two64 ->
  forall fuel, (length (enc_fields Sc (mfields (msg Sc m)) fs) <= fuel)%nat ->
  dec_fields Sc fuel (mfields (msg Sc m)) (mdefault (msg Sc m)) (enc_fields Sc (mfields (msg Sc m)) fs) = Some fs.
Variable m : nat.

Lemma default_oneof d g : fcd d = COneof g -> default_slot Sc d = VNone.
Proof. intros H. unfold default_slot. rewrite H. reflexivity. Qed.

Lemma loop : forall suf_d pre_d pre_v suf_v fuel,
  mfields (msg Sc m) = pre_d ++ suf_d -> length pre_d = length pre_v ->
  canon_fields Sc (pre_d ++ suf_d) (pre_v ++ suf_v) = true ->
  groups_ok (pre_d ++ suf_d) (pre_v ++ suf_v) = true ->
  (length (enc_fields Sc suf_d suf_v) <= n)%nat ->
  blen (enc_fields Sc suf_d suf_v) < two64 ->
  (length (enc_fields Sc suf_d suf_v) <= fuel)%nat ->
  dec_fields Sc fuel (mfields (msg Sc m)) (pre_v ++ map (default_slot Sc) suf_d) (enc_fields Sc suf_d suf_v)
  = Some (pre_v ++ suf_v).
Proof.
  induction suf_d as [|d suf IH]; intros pre_d pre_v suf_v fuel Hds Hl Hcan Hg Hn Hb Hfuel.
  - pose proof (canon_fields_length Sc _ _ Hcan) as HL. rewrite !app_length in HL. cbn [length] in HL.
    destruct suf_v; [|cbn [length] in HL; lia].
    cbn [enc_fields map]. rewrite dec_fields_nil. reflexivity.
  - pose proof Hcan as Hcan0.
    rewrite canon_fields_app in Hcan by exact Hl. apply andb_true_iff in Hcan. destruct Hcan as [Hcp Hcs].
    destruct suf_v as [|v suf_v]; [discriminate Hcs|].
    cbn [canon_fields] in Hcs. apply andb_true_iff in Hcs. destruct Hcs as [Hcv Hcs].
    cbn [enc_fields map] in *. rewrite app_length in Hn. rewrite blen_app in Hb.
    assert (Hok : field_ok Sc d).
    { pose proof (msg_fields_ok Sc Hwf m) as HF. rewrite Forall_forall in HF. apply HF.
      rewrite Hds. apply in_or_app. right. left. reflexivity. }
    set (cur := pre_v ++ default_slot Sc d :: map (default_slot Sc) suf).
    destruct (slot_step Sc Hwf n IHn (mfields (msg Sc m)) (msg_nodup Sc Hwf m) fuel (enc_fields Sc suf suf_v)
                        cur pre_d d suf v) as (fuel' & Hf' & Heq); auto.
    + rewrite Hds. unfold cur. rewrite !app_length. cbn [length]. rewrite map_length. lia.
    + rewrite Hl. unfold cur. apply nth_middle'.
    + (* the other members of the oneof group are clear *)
      intros g Hcd Hv k d' Hk Hne Hsg.
      destruct (canon_oneof_shape Sc d g v Hcd Hcv) as [->|(x & ->)]; [congruence|].
      rewrite Hds in Hk.
      assert (Hvi : nth_error (pre_v ++ VSome x :: suf_v) (length pre_d) = Some (VSome x)).
      { rewrite Hl. apply nth_error_middle. }
      assert (Hdi : nth_error (pre_d ++ d :: suf) (length pre_d) = Some d) by apply nth_error_middle.
      pose proof (group_clear Sc _ _ (length pre_d) d g x Hcan0 Hg Hdi Hcd Hvi k d' Hne Hk Hsg) as Hvk.
      unfold cur.
      destruct (Nat.lt_ge_cases k (length pre_v)) as [Hlt|Hge].
      * rewrite app_nth1 by exact Hlt. rewrite nth_error_app1 in Hvk by exact Hlt.
        apply nth_error_nth. exact Hvk.
      * rewrite app_nth2 by exact Hge.
        rewrite nth_error_app2 in Hk by lia.
        destruct (k - length pre_v)%nat as [|j] eqn:Ej; [lia|].
        replace (k - length pre_d)%nat with (S j) in Hk by lia.
        cbn [nth nth_error] in *.
        assert (Hcd' : exists g', fcd d' = COneof g').
        { unfold same_group in Hsg. destruct (fcd d'); try discriminate Hsg. eauto. }
        destruct Hcd' as (g' & Hcd').
        rewrite <- (default_oneof d' g' Hcd').
        apply nth_error_nth. rewrite nth_error_map, Hk. reflexivity.
    + lia.
    + lia.
    + rewrite Heq. unfold cur. rewrite Hl, upd_middle.
      replace (pre_v ++ v :: map (default_slot Sc) suf) with ((pre_v ++ [v]) ++ map (default_slot Sc) suf)
        by (rewrite <- app_assoc; reflexivity).
      replace (pre_v ++ v :: suf_v) with ((pre_v ++ [v]) ++ suf_v) by (rewrite <- app_assoc; reflexivity).
      apply (IH (pre_d ++ [d])).
      * rewrite <- app_assoc. exact Hds.
      * rewrite !app_length. cbn [length]. lia.
      * rewrite <- !app_assoc. exact Hcan0.
      * rewrite <- !app_assoc. exact Hg.
      * lia.
      * lia.
      * exact Hf'.
Qed.
End Loop.

Section Main.
Variable Sc : schema.
Hypothesis Hwf : wf_schema Sc = true.

Lemma roundtrip_fields : forall n m fs,
  (length (enc_fields Sc (mfields (msg Sc m)) fs) < n)%nat ->
  canon_val Sc (TMsg m) (VMsg fs) = true ->
  blen (enc_fields Sc (mfields (msg Sc m)) fs) < two64 ->
  forall fuel, (length (enc_fields Sc (mfields (msg Sc m)) fs) <= fuel)%nat ->
  dec_fields Sc fuel (mfields (msg Sc m)) (mdefault (msg Sc m)) (enc_fields Sc (mfields (msg Sc m)) fs) = Some fs.
Proof.
  induction n as [|n IHn]; intros m fs Hlen Hcan Hb fuel Hfuel; [lia|].
  rewrite canon_val_msg in Hcan. apply andb_true_iff in Hcan. destruct Hcan as [Hc Hg].
  rewrite (msg_default Sc Hwf m).
  apply (loop Sc Hwf n IHn m (mfields (msg Sc m)) [] [] fs fuel); auto. lia.
Qed.

Theorem proto_roundtrip_l m v :
  canonical Sc m v = true -> size Sc m v < two64 -> decode Sc m (encode Sc m v) = Some v.
Proof.
  unfold canonical. intros Hcan Hsz. rewrite proto_size_l in Hsz. unfold encode in *.
  destruct v; try discriminate Hcan.
  unfold decode. rewrite enc_val_msg in *.
  rewrite (roundtrip_fields (S (length (enc_fields Sc (mfields (msg Sc m)) fs))) m fs); auto.
Qed.
End Main.
