(* C08/Proofs6.v — the decoder is total and never runs out of fuel: every loop iteration and
   every nested call consumes at least one byte, so any fuel >= |input| gives the same answer. *)
From Verif Require Import Common.Base C08.Model C08.Proofs1 C08.Proofs2 C08.Proofs3.
Require Import ZifyBool ZifyNat ZifyN.
Local Open Scope N_scope.

Lemma rv_go_shorter f : forall s a b w r, rv_go f s a b = Some (w, r) -> (length r < length b)%nat.
Proof.
  induction f as [|f IH]; intros s a b w r H; cbn [rv_go] in H; [discriminate|].
  destruct b as [|x b]; [discriminate|].
  destruct (x <? 128).
  - inversion H; subst. cbn [length]. lia.
  - apply IH in H. cbn [length]. lia.
Qed.

Lemma read_varint_shorter b w r : read_varint b = Some (w, r) -> (length r < length b)%nat.
Proof. apply rv_go_shorter. Qed.

Lemma read_le_shorter k : forall b n r, read_le k b = Some (n, r) -> (length r <= length b)%nat.
Proof.
  induction k as [|k IH]; intros b n r H; cbn [read_le] in H.
  - inversion H; subst. lia.
  - destruct b as [|x b]; [discriminate|].
    destruct (read_le k b) as [[n' r']|] eqn:E; [|discriminate].
    inversion H; subst. apply IH in E. cbn [length]. lia.
Qed.

Lemma read_scalar_shorter k b x r : read_scalar k b = Some (x, r) -> (length r <= length b)%nat.
Proof.
  unfold read_scalar. intros H.
  destruct (wire_of k) as [|p]; [|destruct p as [p|p|]; try destruct p as [p|p|]; try destruct p as [p|p|]].
  all: match type of H with
       | match ?e with _ => _ end = _ => destruct e as [[raw r0]|] eqn:E; [|discriminate]
       end; inversion H; subst;
       first [apply read_varint_shorter in E; lia | apply read_le_shorter in E; lia].
Qed.

Lemma read_ld_shorter b p r :
  read_ld b = Some (p, r) -> (length p <= length b /\ length r <= length b)%nat.
Proof.
  unfold read_ld. destruct (read_varint b) as [[len r0]|] eqn:E; [|discriminate].
  apply read_varint_shorter in E.
  destruct (len <=? blen r0); [|discriminate].
  intros H. inversion H; subst.
  rewrite firstn_length, skipn_length. lia.
Qed.

Lemma read_packed_shorter k : forall fuel remain b vs r,
  read_packed k fuel remain b = Some (vs, r) -> (length r <= length b)%nat.
Proof.
  induction fuel as [|f IH]; intros remain b vs r H.
  - cbn [read_packed] in H. destruct (remain =? 0); [|discriminate]. inversion H; subst. lia.
  - cbn [read_packed] in H. destruct (remain =? 0); [inversion H; subst; lia|].
    destruct (read_scalar k b) as [[x r']|] eqn:E; [|discriminate].
    apply read_scalar_shorter in E.
    match type of H with match ?e with _ => _ end = _ => destruct e as [[ys r'']|] eqn:E2; [|discriminate] end.
    inversion H; subst. apply IH in E2. lia.
Qed.

Lemma skip_varint_shorter f : forall b r, skip_varint f b = Some r -> (length r < length b)%nat.
Proof.
  induction f as [|f IH]; intros b r H; cbn [skip_varint] in H; [discriminate|].
  destruct b as [|x b]; [discriminate|]. destruct (x <? 128).
  - inversion H; subst. cbn [length]. lia.
  - apply IH in H. cbn [length]. lia.
Qed.

Lemma drop_exact_shorter n b r : drop_exact n b = Some r -> (length r <= length b)%nat.
Proof.
  unfold drop_exact. destruct (n <=? length b)%nat; [|discriminate].
  intros H. inversion H; subst. rewrite skipn_length. lia.
Qed.

Lemma skip_go_shorter f : forall depth b r, skip_go f depth b = Some r -> (length r < length b)%nat.
Proof.
  induction f as [|f IH]; intros depth b r H; cbn [skip_go] in H; [discriminate|].
  destruct (read_varint b) as [[w r0]|] eqn:E; [|discriminate].
  apply read_varint_shorter in E.
  assert (K : forall o depth', match o with
                               | None => None
                               | Some r' => if depth' =? 0 then Some r' else skip_go f depth' r'
                               end = Some r ->
                               (forall r', o = Some r' -> (length r' <= length r0)%nat) ->
                               (length r < length b)%nat).
  { intros o depth' Ho Hle. destruct o as [r'|]; [|discriminate].
    specialize (Hle r' eq_refl). destruct (depth' =? 0).
    - inversion Ho; subst. lia.
    - apply IH in Ho. lia. }
  destruct (w mod 8) as [|p]; [|do 3 (try destruct p as [p|p|])]; try discriminate H.
  all: try match type of H with
           | (if ?dd =? 0 then None else _) = _ => destruct (dd =? 0); [discriminate H|]
           end.
  all: first [eapply K; [exact H|] | eapply (K (Some r0)); [exact H|]]; intros r' Hr';
    first [ apply drop_exact_shorter in Hr'; exact Hr'
          | apply skip_varint_shorter in Hr'; lia
          | (destruct (read_ld r0) as [[p' r'']|] eqn:E2; cbn in Hr'; [|discriminate Hr']; inversion Hr'; subst;
             apply read_ld_shorter in E2; lia)
          | inversion Hr'; subst; lia ].
Qed.

Lemma skip_field_shorter b r : skip_field b = Some r -> (length r < length b)%nat.
Proof. apply skip_go_shorter. Qed.

Section Tot.
Variable Sc : schema.

Ltac dmatch :=
  repeat match goal with
         | |- context [match ?x with _ => _ end] => destruct x eqn:?
         | |- context [if ?x then _ else _] => destruct x eqn:?
         end.

(* dec_slot calls its continuation only on payloads no longer than its input, and returns a
   remainder no longer than its input *)
Lemma dec_slot_ext rec1 rec2 d old wt r :
  (forall m c p, (length p <= length r)%nat -> rec1 m c p = rec2 m c p) ->
  dec_slot Sc rec1 d old wt r = dec_slot Sc rec2 d old wt r.
Proof.
  intros Hrec. unfold dec_slot.
  destruct (fcd d); destruct (fty d); try reflexivity;
    destruct (wt =? 2); try reflexivity;
    destruct (read_ld r) as [[p r']|] eqn:E; try reflexivity;
    apply read_ld_shorter in E; destruct E as [E _];
    try (destruct old; try reflexivity); rewrite (Hrec _ _ _ E); reflexivity.
Qed.

Lemma dec_slot_shorter rec d old wt r v r' :
  dec_slot Sc rec d old wt r = Some (v, r') -> (length r' <= length r)%nat.
Proof.
  unfold dec_slot. intros H.
  destruct (fcd d); destruct (fty d); try discriminate H;
    repeat match type of H with
           | (if ?c then _ else _) = _ => destruct c
           | match ?e with _ => _ end = _ =>
               match e with
               | read_scalar _ _ => destruct e as [[? ?]|] eqn:E; [apply read_scalar_shorter in E|]
               | read_ld _ => destruct e as [[? ?]|] eqn:E; [apply read_ld_shorter in E; destruct E as [_ E]|]
               | read_varint _ => destruct e as [[? ?]|] eqn:E; [apply read_varint_shorter in E|]
               | read_packed _ _ _ _ => destruct e as [[? ?]|] eqn:E2; [apply read_packed_shorter in E2|]
               | _ => destruct e
               end
           end; try discriminate H; inversion H; subst; lia.
Qed.

Theorem dec_fields_fuel : forall f1 f2 ds cur b,
  (length b <= f1)%nat -> (length b <= f2)%nat ->
  dec_fields Sc f1 ds cur b = dec_fields Sc f2 ds cur b.
Proof.
  induction f1 as [|f1 IH]; intros f2 ds cur b H1 H2.
  - destruct b; [|cbn [length] in H1; lia]. rewrite !dec_fields_nil. reflexivity.
  - destruct b as [|x b]; [rewrite !dec_fields_nil; reflexivity|].
    destruct f2 as [|f2]; [cbn [length] in H2; lia|].
    cbn [dec_fields].
    destruct (read_varint (x :: b)) as [[w r]|] eqn:E; [|reflexivity].
    pose proof (read_varint_shorter _ _ _ E) as Hr.
    destruct (w mod 8 =? 4); [reflexivity|].
    destruct (fieldnum_of w) as [fn|]; [|reflexivity].
    destruct (find_field ds fn 0) as [[i d]|].
    + rewrite (dec_slot_ext (fun m cur' (p : bytes) => dec_fields Sc f1 (mfields (msg Sc m)) cur' p)
                            (fun m cur' (p : bytes) => dec_fields Sc f2 (mfields (msg Sc m)) cur' p)).
      * match goal with |- match ?e with _ => _ end = _ => destruct e as [[v' r']|] eqn:E2; [|reflexivity] end.
        apply dec_slot_shorter in E2. apply IH; lia.
      * intros m c p Hp. apply IH; lia.
    + destruct (skip_field (x :: b)) as [r'|] eqn:E3; [|reflexivity].
      apply skip_field_shorter in E3. apply IH; lia.
Qed.

Theorem decode_fuel_irrelevant_l m b fuel :
  (length b <= fuel)%nat ->
  option_map VMsg (dec_fields Sc fuel (mfields (msg Sc m)) (mdefault (msg Sc m)) b) = decode Sc m b.
Proof. intros H. unfold decode. f_equal. apply dec_fields_fuel; lia. Qed.
End Tot.
