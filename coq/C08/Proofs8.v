(* C08/Proofs8.v — the JSON tree model: of_json (to_json v) = v for every well-formed schema,
   every decoder table and every canonical value that the table supports. *)
From Verif Require Import Common.Base C08.Model C08.Json C08.Proofs1 C08.Proofs2 C08.Proofs3 C08.Proofs5.
Require Import ZifyBool ZifyNat ZifyN.
Ltac Zify.zify_post_hook ::= Z.to_euclidean_division_equations.
Local Open Scope N_scope.

(* ---------------------------------------------------------------------------------------------
   scalars *)
Lemma of_sgn64_sgn64 n : n < two64 -> of_sgn64 (sgn64 n) = n.
Proof.
  unfold of_sgn64, sgn64, two64, two63. intros H.
  destruct (N.ltb_spec n 9223372036854775808); lia.
Qed.

Definition scalar_forms (k : skind) (e : jdec) : bool :=
  if is64 k then jnum e && jstr e
  else match k with
       | SEnum => jnum e && jname e
       | SDouble => jnum e && jstr e
       | _ => jnum e
       end.

Lemma in_z_true lo hi z : (lo <= z < hi)%Z -> in_z lo hi z = true.
Proof. unfold in_z. intros H. destruct (Z.leb_spec lo z), (Z.ltb_spec z hi); try reflexivity; lia. Qed.

Lemma r_u64 n : n < two64 -> (0 <= Z.of_N n < Z.of_N two64)%Z.
Proof. unfold two64. lia. Qed.
Lemma r_u32 n : n < two32 -> (0 <= Z.of_N n < Z.of_N two32)%Z.
Proof. unfold two32. lia. Qed.
Lemma r_s64 n : n < two64 -> (- Z.of_N two63 <= sgn64 n < Z.of_N two63)%Z.
Proof. unfold sgn64, two64, two63. intros H. destruct (N.ltb_spec n 9223372036854775808); lia. Qed.
Lemma r_s32 n : (n <? two31) || ((two64 - two31 <=? n) && (n <? two64)) = true ->
  (- Z.of_N two31 <= sgn64 n < Z.of_N two31)%Z.
Proof.
  unfold sgn64, two64, two63, two31. intros H.
  apply orb_true_iff in H. destruct H as [H|H].
  - apply N.ltb_lt in H. destruct (N.ltb_spec n 9223372036854775808); lia.
  - apply andb_true_iff in H. destruct H as [H1 H2]. apply N.leb_le in H1. apply N.ltb_lt in H2.
    destruct (N.ltb_spec n 9223372036854775808); lia.
Qed.

Lemma oj_int_str e names k n :
  is64 k = true -> in_range k n = true -> jstr e = true ->
  oj_scalar e names k (tj_scalar k n) = Some n.
Proof.
  intros Hk Hr Hs. pose proof (in_range_lt64 k n Hr) as H64.
  destruct k; try discriminate Hk; cbn [tj_scalar oj_scalar int_to_field]; rewrite Hs.
  - rewrite in_z_true by (apply r_u64; exact H64). rewrite N2Z.id. reflexivity.
  - rewrite in_z_true by (apply r_s64; exact H64). rewrite of_sgn64_sgn64 by exact H64. reflexivity.
  - rewrite in_z_true by (apply r_u64; exact H64). rewrite N2Z.id. reflexivity.
  - rewrite in_z_true by (apply r_s64; exact H64). rewrite of_sgn64_sgn64 by exact H64. reflexivity.
Qed.

Lemma oj_int_num e names k n :
  match k with SU32 | SFix32 | SI32 | SZig32 | SEnum => True | _ => False end ->
  in_range k n = true -> jnum e = true ->
  oj_scalar e names k (tj_scalar k n) = Some n.
Proof.
  intros Hk Hr Hs. pose proof (in_range_lt64 k n Hr) as H64.
  destruct k; try contradiction; cbn [tj_scalar oj_scalar int_to_field]; rewrite Hs; cbn [in_range] in Hr.
  - apply N.ltb_lt in Hr. rewrite in_z_true by (apply r_u32; exact Hr). rewrite N2Z.id. reflexivity.
  - rewrite in_z_true by (apply r_s32; exact Hr). rewrite of_sgn64_sgn64 by exact H64. reflexivity.
  - rewrite in_z_true by (apply r_s32; exact Hr). rewrite of_sgn64_sgn64 by exact H64. reflexivity.
  - rewrite in_z_true by (apply r_s32; exact Hr). rewrite of_sgn64_sgn64 by exact H64. reflexivity.
  - apply N.ltb_lt in Hr. rewrite in_z_true by (apply r_u32; exact Hr). rewrite N2Z.id. reflexivity.
Qed.

Lemma nan_bits_is_nan : is_nan nan_bits = true.
Proof. vm_compute. reflexivity. Qed.

Lemma oj_double e names n :
  nan_ok SDouble n = true -> jnum e = true -> jstr e = true ->
  oj_scalar e names SDouble (tj_scalar SDouble n) = Some n.
Proof.
  intros Hn H1 H2. cbn [nan_ok] in Hn. cbn [tj_scalar].
  destruct (is_nan n) eqn:En.
  - cbn [negb orb] in Hn. apply N.eqb_eq in Hn. subst n.
    cbn [oj_scalar]. rewrite H2. reflexivity.
  - destruct (N.eqb_spec n pinf_bits) as [->|Hp]; [cbn [oj_scalar]; rewrite H2; reflexivity|].
    destruct (N.eqb_spec n ninf_bits) as [->|Hq]; [cbn [oj_scalar]; rewrite H2; reflexivity|].
    cbn [oj_scalar]. rewrite H1. reflexivity.
Qed.

Lemma oj_scalar_tj e names k n :
  in_range k n = true -> nan_ok k n = true -> scalar_forms k e = true ->
  oj_scalar e names k (tj_scalar k n) = Some n.
Proof.
  intros Hr Hn Hf. unfold scalar_forms in Hf.
  destruct k; cbn [is64] in Hf;
    try (apply andb_true_iff in Hf; destruct Hf as [Hf1 Hf2]);
    try (apply oj_int_str; [reflexivity|exact Hr|assumption]);
    try (apply oj_int_num; [exact I|exact Hr|assumption]).
  - (* SBool *) cbn [in_range] in Hr. apply N.ltb_lt in Hr.
    assert (Hc : n = 0 \/ n = 1) by lia. cbn [tj_scalar oj_scalar]. rewrite Hf.
    destruct Hc as [-> | ->]; reflexivity.
  - (* SDouble *) apply oj_double; assumption.
Qed.

Lemma omap_cons {A B} (f : A -> option B) x r :
  omap f (x :: r) = match f x, omap f r with Some y, Some ys => Some (y :: ys) | _, _ => None end.
Proof. reflexivity. Qed.

Section J.
Variable Sc : schema.
Variable D : list jdec.
Variable E : enums.
Hypothesis Hwf : wf_schema Sc = true.

Lemma tj_val_msg m fs : tj_val Sc (TMsg m) (VMsg fs) = JObj (tj_fields Sc (mfields (msg Sc m)) fs).
Proof.
  cbn [tj_val]. f_equal. generalize (mfields (msg Sc m)) as ds.
  induction fs as [|v fs IH]; intros [|d ds]; cbn [tj_fields]; try reflexivity.
  unfold tj_slot. f_equal. apply IH.
Qed.

Lemma oj_val_msg m c o :
  oj_val Sc D E (TMsg m) c (JObj o)
  = option_map VMsg (oj_fields Sc D E m o (match c with Some c' => c' | None => mdefault (msg Sc m) end)).
Proof.
  cbn [oj_val]. f_equal.
  generalize (match c with Some c' => c' | None => mdefault (msg Sc m) end) as cur.
  induction o as [|[k y] o IH]; intros cur; cbn [oj_fields]; [reflexivity|].
  destruct (jlookup D m k) as [e|]; [|apply IH].
  destruct (find_field (mfields (msg Sc m)) (jfnum e) 0) as [[i d]|]; [|apply IH].
  destruct (oj_slot E (oj_val Sc D E) e m d (nth i cur VNone) y); [apply IH|reflexivity].
Qed.

Lemma jok_val_msg m fs :
  jok_val Sc D (TMsg m) (VMsg fs) = jok_fields Sc D m (mfields (msg Sc m)) fs.
Proof.
  cbn [jok_val]. generalize (mfields (msg Sc m)) as ds.
  induction fs as [|v fs IH]; intros [|d ds]; cbn [jok_fields]; try reflexivity.
  unfold jok_slot. f_equal. apply IH.
Qed.

(* the statement proved by induction over the value tree *)
Definition JQ (v : pv) : Prop :=
  forall m, canon_val Sc (TMsg m) v = true -> jok_val Sc D (TMsg m) v = true ->
            oj_val Sc D E (TMsg m) None (tj_val Sc (TMsg m) v) = Some v.

Lemma fcovered_lookup m d :
  fcovered D m d = true ->
  exists e, jlookup D m (fjson d) = Some e /\ jfnum e = fnum d /\ forms_ok d e = true.
Proof.
  unfold fcovered, key_ok. intros H. apply andb_true_iff in H. destruct H as [H _].
  destruct (jlookup D m (fjson d)) as [e|]; [|discriminate].
  apply andb_true_iff in H. destruct H as [H1 H2]. apply N.eqb_eq in H1. eauto.
Qed.

(* one value of field d *)
Lemma oj_one_tj e m d x :
  forms_ok d e = true ->
  match fty d, x with
  | TScalar _, VInt _ | TBytes, VBytes _ | TStr, VBytes _ | TMsg _, VMsg _ => True
  | TId _, VBytes _ => fcd d = COpt
  | _, _ => False
  end ->
  tmsg_ok Sc d = true ->
  canon_val Sc (fty d) x = true -> jok_val Sc D (fty d) x = true -> JQ x ->
  forall cur, (match cur with Some c => match fty d with TMsg m' => c = mdefault (msg Sc m') | _ => True end | None => True end) ->
  oj_one E (oj_val Sc D E) e m d cur (tj_val Sc (fty d) x) = Some x.
Proof.
  intros Hf Hshape Htm Hc Hj HQ cur Hcur. unfold oj_one, forms_ok in *.
  destruct (fty d) as [k| | |n0|m'] eqn:Hty; destruct x as [n|b|fs|vs| |y]; try contradiction.
  - cbn [tj_val canon_val jok_val] in *. unfold canon_scalar in Hc.
    rewrite oj_scalar_tj; auto.
  - cbn [tj_val]. apply andb_true_iff in Hf. destruct Hf as [Hf1 Hf2]. apply negb_true_iff in Hf2.
    rewrite Hf2, Hf1. reflexivity.
  - cbn [tj_val]. rewrite Hf. reflexivity.
  - cbn [tj_val canon_val] in *. rewrite Hf.
    destruct (N.eqb_spec (blen b) 0) as [E0|E0].
    + destruct b; [reflexivity|]. rewrite blen_cons in E0. lia.
    + cbn [orb] in Hc. apply andb_true_iff in Hc. destruct Hc as [H1 H2].
      rewrite H1. apply negb_true_iff in H2. rewrite H2. reflexivity.
  - rewrite Hf. specialize (HQ m' Hc Hj).
    destruct cur as [c|]; [|exact HQ].
    subst c. rewrite tj_val_msg in *. rewrite oj_val_msg in *. exact HQ.
Qed.

Lemma omap_tj e m d vs :
  forms_ok d e = true -> tmsg_ok Sc d = true ->
  Forall (fun x => match fty d, x with
                   | TScalar _, VInt _ | TBytes, VBytes _ | TStr, VBytes _ | TMsg _, VMsg _ => True
                   | _, _ => False end
                   /\ canon_val Sc (fty d) x = true /\ jok_val Sc D (fty d) x = true /\ JQ x) vs ->
  omap (oj_one E (oj_val Sc D E) e m d None) (map (tj_val Sc (fty d)) vs) = Some vs.
Proof.
  intros Hf Htm H. induction H as [|x vs (Hs & Hc & Hj & HQ) _ IH]; [reflexivity|].
  cbn [map]. rewrite omap_cons. rewrite oj_one_tj; auto.
  - rewrite IH. reflexivity.
  - destruct (fty d); destruct x; auto; contradiction.
Qed.

Lemma oj_fields_entry m k y rest cur e i d :
  jlookup D m k = Some e -> find_field (mfields (msg Sc m)) (jfnum e) 0 = Some (i, d) ->
  oj_fields Sc D E m ((k, y) :: rest) cur =
  match oj_slot E (oj_val Sc D E) e m d (nth i cur VNone) y with
  | Some v' => oj_fields Sc D E m rest (set_slot (mfields (msg Sc m)) (group_of d) i v' cur)
  | None => None
  end.
Proof. intros H1 H2. cbn [oj_fields]. rewrite H1, H2. reflexivity. Qed.

Lemma jslot_step m rest cur pre d suf v :
  mfields (msg Sc m) = pre ++ d :: suf ->
  field_ok Sc d ->
  length (mfields (msg Sc m)) = length cur ->
  nth (length pre) cur VNone = default_slot Sc d ->
  (forall g, fcd d = COneof g -> v <> VNone ->
     forall k d', nth_error (mfields (msg Sc m)) k = Some d' -> k <> length pre ->
                  same_group (Some g) d' = true -> nth k cur VNone = VNone) ->
  canon_slot Sc d v = true -> jok_slot Sc D m d v = true -> deep JQ v ->
  oj_fields Sc D E m (tj_slot Sc d v ++ rest) cur = oj_fields Sc D E m rest (upd (length pre) v cur).
Proof.
  intros Hds (Hct & Hfn & Htm) Hlen Hnth Hgrp Hcan Hjok [HQ Hsub].
  set (ds := mfields (msg Sc m)) in *.
  assert (Hfind : find_field ds (fnum d) 0 = Some (length pre, d)).
  { rewrite Hds. apply (find_field_middle pre d suf 0%nat). rewrite <- Hds. apply (msg_nodup Sc Hwf m). }
  assert (Hnone : forall x, set_slot ds None (length pre) x cur = upd (length pre) x cur).
  { intros x. apply set_slot_upd; [|exact Hlen]. intros k d' _ _ H. discriminate H. }
  assert (Hsame : upd (length pre) (default_slot Sc d) cur = cur).
  { rewrite <- Hnth. apply upd_nth. }
  (* one emitted entry *)
  assert (Hentry : forall x v', fcovered D m d = true ->
            (forall e, forms_ok d e = true -> oj_slot E (oj_val Sc D E) e m d (nth (length pre) cur VNone) x = Some v') ->
            oj_fields Sc D E m ((fjson d, x) :: rest) cur
            = oj_fields Sc D E m rest (set_slot ds (group_of d) (length pre) v' cur)).
  { intros x v' Hcov Hslot. destruct (fcovered_lookup m d Hcov) as (e & He1 & He2 & He3).
    rewrite (oj_fields_entry m (fjson d) x rest cur e (length pre) d He1); [|rewrite He2; exact Hfind].
    rewrite (Hslot e He3). reflexivity. }
  unfold tj_slot, tj_slot_with, canon_slot, canon_slot_with, jok_slot, jok_slot_with, tj_entry in *.
  destruct (fcd d) eqn:Hcd.
  - (* COpt *)
    assert (Hg : group_of d = None) by (unfold group_of; rewrite Hcd; reflexivity).
    destruct (fty d) as [k| | |n0|m'] eqn:Hty; destruct v as [n|b|fs|vs| |y]; try discriminate Hcan;
      try (destruct k; discriminate Hcan).
    + (* scalar *)
      assert (Hr : canon_val Sc (fty d) (VInt n) = true /\ (is_zero k n = true -> n = 0)).
      { rewrite Hty. destruct k; cbn [canon_val canon_scalar is_zero] in Hcan |- *;
          try (split; [exact Hcan | intros H0; apply N.eqb_eq in H0; exact H0]).
        apply andb_true_iff in Hcan. destruct Hcan as [H1 H2]. split; [exact H1|].
        intros H0. apply negb_true_iff in H2. rewrite H2, orb_false_r in H0. apply N.eqb_eq in H0. exact H0. }
      destruct Hr as [Hr Hz0].
      destruct (is_zero k n) eqn:Hz.
      * rewrite (Hz0 eq_refl). cbn [app].
        replace (VInt 0) with (default_slot Sc d) by (unfold default_slot; rewrite Hcd, Hty; reflexivity).
        rewrite Hsame. reflexivity.
      * cbn [orb] in Hjok. apply andb_true_iff in Hjok. destruct Hjok as [Hcov Hj].
        cbn [app]. rewrite (Hentry _ (VInt n) Hcov).
        -- rewrite Hg, Hnone. reflexivity.
        -- intros e He. unfold oj_slot. rewrite Hcd, Hty.
           rewrite <- Hty. apply oj_one_tj; auto; rewrite ?Hty; auto.
    + (* bytes *)
      destruct b as [|x0 b'].
      * cbn [app]. replace (VBytes []) with (default_slot Sc d) by (unfold default_slot; rewrite Hcd, Hty; reflexivity).
        rewrite Hsame. reflexivity.
      * cbn [app]. rewrite (Hentry _ (VBytes (x0 :: b')) Hjok).
        -- rewrite Hg, Hnone. reflexivity.
        -- intros e He. unfold oj_slot. rewrite Hcd, Hty.
           rewrite <- Hty. apply oj_one_tj; auto; rewrite ?Hty; auto.
    + (* string *)
      destruct b as [|x0 b'].
      * cbn [app]. replace (VBytes []) with (default_slot Sc d) by (unfold default_slot; rewrite Hcd, Hty; reflexivity).
        rewrite Hsame. reflexivity.
      * cbn [app]. rewrite (Hentry _ (VBytes (x0 :: b')) Hjok).
        -- rewrite Hg, Hnone. reflexivity.
        -- intros e He. unfold oj_slot. rewrite Hcd, Hty.
           rewrite <- Hty. apply oj_one_tj; auto; rewrite ?Hty; auto.
    + (* id *)
      cbn [app]. rewrite (Hentry _ (VBytes b) Hjok).
      -- rewrite Hg, Hnone. reflexivity.
      -- intros e He. unfold oj_slot. rewrite Hcd, Hty.
         rewrite <- Hty. apply oj_one_tj; auto; rewrite ?Hty; auto.
    + (* embedded message *)
      apply andb_true_iff in Hjok. destruct Hjok as [Hcov Hj].
      cbn [app]. rewrite (Hentry _ (VMsg fs) Hcov).
      -- rewrite Hg, Hnone. reflexivity.
      -- intros e He. unfold oj_slot. rewrite Hcd, Hty, Hnth. unfold default_slot. rewrite Hcd, Hty.
         rewrite <- Hty. apply oj_one_tj; auto; rewrite ?Hty; auto.
  - (* COneof *)
    destruct v as [n|b|fs|vs| |y]; try discriminate Hcan.
    + cbn [app]. assert (E0 : default_slot Sc d = VNone) by (unfold default_slot; rewrite Hcd; reflexivity).
      rewrite E0 in Hsame. rewrite Hsame. reflexivity.
    + assert (Hset : forall x, set_slot ds (group_of d) (length pre) (VSome x) cur = upd (length pre) (VSome x) cur).
      { intros x. unfold group_of. rewrite Hcd. apply set_slot_upd; [|exact Hlen].
        intros k d' Hk Hne Hg. apply (Hgrp g eq_refl) with (d' := d'); auto. discriminate. }
      apply andb_true_iff in Hjok. destruct Hjok as [Hcov Hj].
      assert (Hy : y <> VNone /\ match fty d, y with
                                 | TScalar _, VInt _ | TBytes, VBytes _ | TStr, VBytes _ | TMsg _, VMsg _ => True
                                 | _, _ => False end).
      { destruct (fty d); destruct y; try discriminate Hcan; split; try exact I; discriminate. }
      destruct Hy as [Hy1 Hy2].
      assert (Hc' : canon_val Sc (fty d) y = true).
      { destruct (fty d); destruct y; try discriminate Hcan; try contradiction; exact Hcan. }
      replace (match y with VNone => [(fjson d, JNull)] | _ => [(fjson d, tj_val Sc (fty d) y)] end)
        with [(fjson d, tj_val Sc (fty d) y)] by (destruct y; try reflexivity; congruence).
      cbn [app]. rewrite (Hentry _ (VSome y) Hcov).
      -- rewrite Hset. reflexivity.
      -- intros e He. unfold oj_slot. rewrite Hcd.
         rewrite oj_one_tj; auto; try exact I; try (destruct (fty d); destruct y; auto; contradiction).
  - (* CRep *)
    assert (Hg : group_of d = None) by (unfold group_of; rewrite Hcd; reflexivity).
    destruct v as [n|b|fs|vs| |y]; try discriminate Hcan.
    destruct vs as [|x0 vs'].
    + cbn [app]. replace (VRep []) with (default_slot Sc d) by (unfold default_slot; rewrite Hcd; reflexivity).
      rewrite Hsame. reflexivity.
    + apply andb_true_iff in Hjok. destruct Hjok as [Hcov Hj].
      cbn [app]. rewrite (Hentry _ (VRep (x0 :: vs')) Hcov).
      -- rewrite Hg, Hnone. reflexivity.
      -- intros e He. unfold oj_slot. rewrite Hcd, Hnth. unfold default_slot. rewrite Hcd.
         rewrite omap_tj; auto.
         rewrite forallb_forall in Hcan, Hj. apply Forall_forall. intros x Hx.
         specialize (Hcan x Hx). specialize (Hj x Hx). rewrite Forall_forall in Hsub. specialize (Hsub x Hx).
         destruct (fty d); destruct x; try discriminate Hcan; auto.
  - (* CPacked *)
    assert (Hg : group_of d = None) by (unfold group_of; rewrite Hcd; reflexivity).
    destruct v as [n|b|fs|vs| |y]; try discriminate Hcan.
    destruct vs as [|x0 vs'].
    + cbn [app]. replace (VRep []) with (default_slot Sc d) by (unfold default_slot; rewrite Hcd; reflexivity).
      rewrite Hsame. reflexivity.
    + apply andb_true_iff in Hjok. destruct Hjok as [Hcov Hj].
      cbn [app]. rewrite (Hentry _ (VRep (x0 :: vs')) Hcov).
      -- rewrite Hg, Hnone. reflexivity.
      -- intros e He. unfold oj_slot. rewrite Hcd, Hnth. unfold default_slot. rewrite Hcd.
         rewrite omap_tj; auto.
         rewrite forallb_forall in Hcan, Hj. apply Forall_forall. intros x Hx.
         specialize (Hcan x Hx). specialize (Hj x Hx). rewrite Forall_forall in Hsub. specialize (Hsub x Hx).
         destruct (fty d); destruct x; try discriminate Hcan; auto.
Qed.
End J.
