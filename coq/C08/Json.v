(* C08/Json.v — executable model of the JSON half at the TREE level (definitions only, no proofs).

   to_json : what json.Marshal (gogo jsonpb, EnumsAsInts, OrigName=false, EmitDefaults=false) emits
             for a message value, as a tree: proto3 zero values omitted, 64-bit integers as decimal
             STRINGS, 32-bit integers / enums as numbers, doubles as numbers except the three string
             tokens "NaN" / "Infinity" / "-Infinity", bytes base64, ids hex (always present),
             non-nullable embedded messages always present.
   of_json : the hand-written jsoniter decoders (pdata/*/json.go, pdata/internal/json): the
             document-directed loop `ReadObjectCB(func(f string){ switch f { case ... } })` —
             one object entry at a time, unknown keys skipped, scalars last-wins, repeated fields
             appended, embedded messages merged, a oneof member replaces its group — driven by
             the decoder table D (key -> field, accepted token forms) that the harness obtains by
             running the real decoders (Generated/C08JsonDecoders.v).

   The character level (lexing, decimal and float printing/parsing, base64/hex text, string
   escapes) is NOT modelled: the harness parses real documents into this tree type with
   encoding/json + strconv and decodes base64/hex along the schema. *)
From Verif Require Import Common.Base C08.Model.
From Coq Require Import Strings.String Strings.Ascii.
Local Open Scope N_scope.

Inductive jv :=
| JNull
| JBool (b : bool)
| JInt (z : Z)            (* a number token that is an integer literal *)
| JFloat (bits : N)       (* any other number token, as the double it denotes *)
| JStr (s : bytes)        (* a string *)
| JIntStr (z : Z)         (* a string holding a decimal integer, at an integer field *)
| JFloatStr (bits : N)    (* a string holding a float literal, at a double field *)
| JB64 (b : bytes)        (* a string holding base64, at a bytes field (decoded) *)
| JHex (b : bytes)        (* a string holding hex, at an id field (decoded) *)
| JArr (l : list jv)
| JObj (l : list (string * jv)).

Record jdec := mkJ { jmsg : nat; jkey : string; jfnum : N;
                     jnum : bool;    (* the non-string token is accepted: number / true,false / object / array *)
                     jstr : bool;    (* the string token is accepted: decimal string, "NaN", text, base64, hex *)
                     jname : bool;   (* an enum NAME is accepted *)
                     jraw : bool }.  (* a bytes field is read with ReadStringAsSlice: the base64 TEXT is stored *)

(* enum names per (message, field number): (name as bytes, value in the 64-bit view) *)
Definition enums := list (nat * N * list (bytes * N)).

Definition two52 : N := 4503599627370496.
Definition is_nan (bits : N) : bool := ((bits / two52) mod 2048 =? 2047) && negb (bits mod two52 =? 0).
Definition nan_bits : N := 9221120237041090561.   (* math.NaN() = 0x7FF8000000000001 *)
Definition pinf_bits : N := 9218868437227405312.
Definition ninf_bits : N := 18442240474082181120.
Definition s_nan : bytes := [78; 97; 78].
Definition s_inf : bytes := [73; 110; 102; 105; 110; 105; 116; 121].
Definition s_ninf : bytes := 45 :: s_inf.

Definition sgn64 (n : N) : Z := if n <? two63 then Z.of_N n else (Z.of_N n - Z.of_N two64)%Z.
Definition of_sgn64 (z : Z) : N := Z.to_N (z mod Z.of_N two64).

Definition is64 (k : skind) : bool := match k with SU64 | SI64 | SFix64 | SSFix64 => true | _ => false end.

(* base64.StdEncoding *)
Definition b64char (n : N) : N :=
  if n <? 26 then 65 + n else if n <? 52 then 97 + (n - 26) else if n <? 62 then 48 + (n - 52)
  else if n =? 62 then 43 else 47.
Fixpoint b64enc (b : bytes) : bytes :=
  match b with
  | [] => []
  | [x] => [b64char (x / 4); b64char ((x mod 4) * 16); 61; 61]
  | [x; y] => [b64char (x / 4); b64char ((x mod 4) * 16 + y / 16); b64char ((y mod 16) * 4); 61]
  | x :: y :: z :: r =>
      b64char (x / 4) :: b64char ((x mod 4) * 16 + y / 16) :: b64char ((y mod 16) * 4 + z / 64)
      :: b64char (z mod 64) :: b64enc r
  end.

Definition omap {A B} (f : A -> option B) : list A -> option (list B) :=
  fix go (l : list A) : option (list B) :=
    match l with
    | [] => Some []
    | x :: r => match f x, go r with Some y, Some ys => Some (y :: ys) | _, _ => None end
    end.

(* ---------------------------------------------------------------------------------------------
   value -> tree *)
Definition tj_scalar (k : skind) (n : N) : jv :=
  match k with
  | SU64 | SFix64 => JIntStr (Z.of_N n)
  | SI64 | SSFix64 => JIntStr (sgn64 n)
  | SU32 | SFix32 => JInt (Z.of_N n)
  | SI32 | SZig32 | SEnum => JInt (sgn64 n)
  | SBool => JBool (negb (n =? 0))
  | SDouble => if is_nan n then JStr s_nan else if n =? pinf_bits then JStr s_inf
               else if n =? ninf_bits then JStr s_ninf else JFloat n
  end.

(* ---------------------------------------------------------------------------------------------
   internal/json.ValidateUTF8 (unicode/utf8.Valid on the request buffer), the first thing every public
   JSONUnmarshaler.UnmarshalX does.  The structural characters of JSON are ASCII, so the buffer is valid
   iff every key and every string of the tree is (RFC 3629: no overlongs, no surrogates, <= U+10FFFF). *)
Definition in_rng (lo hi x : N) : bool := (lo <=? x) && (x <=? hi).
Definition cont (x : N) : bool := in_rng 128 191 x.

Fixpoint utf8_valid (l : bytes) : bool :=
  match l with
  | [] => true
  | b0 :: r =>
      if b0 <? 128 then utf8_valid r
      else if in_rng 194 223 b0 then
        match r with b1 :: r' => cont b1 && utf8_valid r' | _ => false end
      else if in_rng 224 239 b0 then
        match r with
        | b1 :: b2 :: r' =>
            (if b0 =? 224 then in_rng 160 191 b1 else if b0 =? 237 then in_rng 128 159 b1 else cont b1)
            && cont b2 && utf8_valid r'
        | _ => false
        end
      else if in_rng 240 244 b0 then
        match r with
        | b1 :: b2 :: b3 :: r' =>
            (if b0 =? 240 then in_rng 144 191 b1 else if b0 =? 244 then in_rng 128 143 b1 else cont b1)
            && cont b2 && cont b3 && utf8_valid r'
        | _ => false
        end
      else false
  end.

Fixpoint str_bytes (s : string) : bytes :=
  match s with EmptyString => [] | String a r => N_of_ascii a :: str_bytes r end.

Fixpoint jv_utf8 (j : jv) {struct j} : bool :=
  match j with
  | JStr s => utf8_valid s
  | JArr l => (fix go (l : list jv) : bool := match l with [] => true | x :: r => jv_utf8 x && go r end) l
  | JObj o => (fix go (o : list (string * jv)) : bool :=
                 match o with [] => true | (k, x) :: r => utf8_valid (str_bytes k) && jv_utf8 x && go r end) o
  | _ => true
  end.

Section JCodec.
Variable Sc : schema.

Definition tj_entry (d : fdesc) (x : jv) : list (string * jv) := [(fjson d, x)].

Definition tj_slot_with (rec : ftype -> pv -> jv) (d : fdesc) (v : pv) : list (string * jv) :=
  match fcd d with
  | COpt =>
      match fty d, v with
      | TScalar k, VInt n => if is_zero k n then [] else tj_entry d (rec (fty d) v)
      | TBytes, VBytes b | TStr, VBytes b => match b with [] => [] | _ => tj_entry d (rec (fty d) v) end
      | TId _, VBytes _ => tj_entry d (rec (fty d) v)
      | TMsg _, VMsg _ => tj_entry d (rec (fty d) v)
      | _, _ => []
      end
  | COneof _ =>
      match v with
      | VSome v' => match v' with VNone => tj_entry d JNull | _ => tj_entry d (rec (fty d) v') end
      | _ => []
      end
  | CRep | CPacked =>
      match v with
      | VRep [] => []
      | VRep vs => tj_entry d (JArr (map (rec (fty d)) vs))
      | _ => []
      end
  end.

Fixpoint tj_val (t : ftype) (v : pv) {struct v} : jv :=
  match v with
  | VInt n => match t with TScalar k => tj_scalar k n | _ => JNull end
  | VBytes b => match t with TStr => JStr b | TBytes => JB64 b | TId _ => JHex b | _ => JNull end
  | VMsg fs =>
      match t with
      | TMsg m =>
          JObj ((fix go (ds : list fdesc) (vs : list pv) {struct vs} : list (string * jv) :=
                   match ds, vs with
                   | d :: ds', v' :: vs' => tj_slot_with tj_val d v' ++ go ds' vs'
                   | _, _ => []
                   end) (mfields (msg Sc m)) fs)
      | _ => JNull
      end
  | _ => JNull
  end.

Definition tj_slot : fdesc -> pv -> list (string * jv) := tj_slot_with tj_val.
Fixpoint tj_fields (ds : list fdesc) (vs : list pv) : list (string * jv) :=
  match ds, vs with
  | d :: ds', v :: vs' => tj_slot d v ++ tj_fields ds' vs'
  | _, _ => []
  end.

Definition to_json (m : nat) (v : pv) : jv := tj_val (TMsg m) v.

(* ---------------------------------------------------------------------------------------------
   tree -> value *)
Variable D : list jdec.
Variable E : enums.

Definition jlookup (m : nat) (k : string) : option jdec :=
  find (fun e => (jmsg e =? m)%nat && String.eqb (jkey e) k) D.

Definition enum_names (m : nat) (fn : N) : list (bytes * N) :=
  match find (fun e => (fst (fst e) =? m)%nat && (snd (fst e) =? fn)) E with
  | Some e => snd e
  | None => []
  end.

Definition in_z (lo hi z : Z) : bool := ((lo <=? z) && (z <? hi))%Z.

(* an integer token z read into a field of kind k (json.ReadInt64 / ReadUint64 / ReadInt32 / ReadUint32
   / iter.ReadInt32 / ReadEnumValue): out-of-range tokens are an error *)
Definition int_to_field (k : skind) (z : Z) : option N :=
  match k with
  | SU64 | SFix64 => if in_z 0 (Z.of_N two64) z then Some (Z.to_N z) else None
  | SI64 | SSFix64 => if in_z (- Z.of_N two63) (Z.of_N two63) z then Some (of_sgn64 z) else None
  | SU32 | SFix32 => if in_z 0 (Z.of_N two32) z then Some (Z.to_N z) else None
  | SI32 | SZig32 | SEnum => if in_z (- Z.of_N two31) (Z.of_N two31) z then Some (of_sgn64 z) else None
  | _ => None
  end.

Definition oj_scalar (e : jdec) (names : list (bytes * N)) (k : skind) (x : jv) : option N :=
  match k with
  | SBool => match x with JBool b => if jnum e then Some (if b then 1 else 0) else None | _ => None end
  | SDouble =>
      match x with
      | JFloat bits => if jnum e then Some bits else None
      | JInt z => None                       (* an integer literal at a double field: not modelled (float conversion) *)
      | JFloatStr bits => if jstr e then Some bits else None
      | JStr s => if jstr e then
                    if list_eqb N.eqb s s_nan then Some nan_bits
                    else if list_eqb N.eqb s s_inf then Some pinf_bits
                    else if list_eqb N.eqb s s_ninf then Some ninf_bits else None
                  else None
      | _ => None
      end
  | _ =>
      match x with
      | JInt z => if jnum e then int_to_field k z else None
      | JIntStr z => if jstr e then int_to_field k z else None
      | JStr s =>
          match k with
          | SEnum => if jname e then option_map snd (find (fun p => list_eqb N.eqb (fst p) s) names) else None
          | _ => None
          end
      | _ => None
      end
  end.

(* one value of field d of message m; cur = the fields to merge an embedded message into
   (None: a fresh message) *)
Definition oj_one (rec : ftype -> option (list pv) -> jv -> option pv) (e : jdec) (m : nat) (d : fdesc)
           (cur : option (list pv)) (x : jv) : option pv :=
  match fty d with
  | TScalar k => option_map VInt (oj_scalar e (enum_names m (fnum d)) k x)
  | TStr => match x with JStr s => if jstr e then Some (VBytes s) else None | _ => None end
  | TBytes =>
      match x with
      | JB64 b => if jraw e then Some (VBytes (b64enc b)) else if jstr e then Some (VBytes b) else None
      | JNull => Some (VBytes [])
      | _ => None
      end
  | TId n =>
      match x with
      | JHex b => if jstr e then
                    if blen b =? 0 then Some (VBytes [])
                    else if blen b =? n then Some (VBytes (if all_zero b then [] else b)) else None
                  else None
      | _ => None
      end
  | TMsg _ => if jnum e then rec (fty d) cur x else None
  end.

Definition oj_slot (rec : ftype -> option (list pv) -> jv -> option pv) (e : jdec) (m : nat) (d : fdesc)
           (old : pv) (x : jv) : option pv :=
  match fcd d with
  | COpt =>
      match fty d, old with
      | TMsg _, VMsg cur => oj_one rec e m d (Some cur) x
      | TMsg _, _ => None
      | _, _ => oj_one rec e m d None x
      end
  | COneof _ => option_map VSome (oj_one rec e m d None x)
  | CRep | CPacked =>
      match x, old with
      | JArr l, VRep xs => option_map (fun ys => VRep (xs ++ ys)) (omap (oj_one rec e m d None) l)
      | _, _ => None
      end
  end.

Fixpoint oj_val (t : ftype) (cur : option (list pv)) (x : jv) {struct x} : option pv :=
  match t, x with
  | TMsg m, JObj o =>
      option_map VMsg
        ((fix go (o : list (string * jv)) (cur : list pv) {struct o} : option (list pv) :=
            match o with
            | [] => Some cur
            | (k, y) :: o' =>
                match jlookup m k with
                | None => go o' cur                                        (* default: iter.Skip() *)
                | Some e =>
                    match find_field (mfields (msg Sc m)) (jfnum e) 0 with
                    | None => go o' cur
                    | Some (i, d) =>
                        match oj_slot oj_val e m d (nth i cur VNone) y with
                        | Some v' => go o' (set_slot (mfields (msg Sc m)) (group_of d) i v' cur)
                        | None => None
                        end
                    end
                end
            end) o (match cur with Some c => c | None => mdefault (msg Sc m) end))
  | _, _ => None
  end.

Fixpoint oj_fields (m : nat) (o : list (string * jv)) (cur : list pv) : option (list pv) :=
  match o with
  | [] => Some cur
  | (k, y) :: o' =>
      match jlookup m k with
      | None => oj_fields m o' cur
      | Some e =>
          match find_field (mfields (msg Sc m)) (jfnum e) 0 with
          | None => oj_fields m o' cur
          | Some (i, d) =>
              match oj_slot oj_val e m d (nth i cur VNone) y with
              | Some v' => oj_fields m o' (set_slot (mfields (msg Sc m)) (group_of d) i v' cur)
              | None => None
              end
          end
      end
  end.

(* the public entry points also run otlp.MigrateX on the result (a no-op on what JSON can produce:
   the deprecated fields have no JSON key) *)
Definition of_json (m : nat) (x : jv) : option pv := option_map (migrate Sc m) (oj_val (TMsg m) None x).

(* the public entry points JSONUnmarshaler.UnmarshalLogs / Metrics / Traces / Profiles (and the
   ExportRequest.UnmarshalJSON wrappers, which delegate to them): ValidateUTF8 first, then of_json *)
Definition unmarshal_json (m : nat) (x : jv) : option pv := if jv_utf8 x then of_json m x else None.

(* ---------------------------------------------------------------------------------------------
   coverage of a field by the decoder table: both spellings of the key are decoded into this
   field, with every token form the property asks for *)
Definition forms_ok (d : fdesc) (e : jdec) : bool :=
  match fty d with
  | TScalar k =>
      if is64 k then jnum e && jstr e
      else match k with
           | SEnum => jnum e && jname e
           | SDouble => jnum e && jstr e
           | _ => jnum e
           end
  | TStr | TId _ => jstr e
  | TBytes => jstr e && negb (jraw e)
  | TMsg _ => jnum e
  end.

Definition key_ok (m : nat) (d : fdesc) (k : string) : bool :=
  match jlookup m k with
  | Some e => (jfnum e =? fnum d) && forms_ok d e
  | None => false
  end.

Definition fcovered (m : nat) (d : fdesc) : bool := key_ok m d (fjson d) && key_ok m d (forig d).

(* every field of every message reachable from the roots is covered (deprecated fields — number
   1000 — have no JSON form by design and are exempt) *)
Definition covers (reach : list nat) : bool :=
  forallb (fun m => forallb (fun d => (fnum d =? 1000) || fcovered m d) (mfields (msg Sc m))) reach.

Definition uncovered (reach : list nat) : list (nat * N) :=
  flat_map (fun m => map (fun d => (m, fnum d))
                         (filter (fun d => negb ((fnum d =? 1000) || fcovered m d)) (mfields (msg Sc m)))) reach.

(* ---------------------------------------------------------------------------------------------
   "the JSON decoders support this value": every field that to_json emits for it is covered by
   the decoder table, and every double is either not a NaN or the one NaN JSON can express *)
Definition nan_ok (k : skind) (n : N) : bool :=
  match k with SDouble => negb (is_nan n) || (n =? nan_bits) | _ => true end.

Definition jok_slot_with (rec : ftype -> pv -> bool) (m : nat) (d : fdesc) (v : pv) : bool :=
  match fcd d with
  | COpt =>
      match fty d, v with
      | TScalar k, VInt n => is_zero k n || (fcovered m d && rec (fty d) v)
      | TBytes, VBytes b | TStr, VBytes b => match b with [] => true | _ => fcovered m d end
      | TId _, VBytes _ => fcovered m d
      | TMsg _, VMsg _ => fcovered m d && rec (fty d) v
      | _, _ => true
      end
  | COneof _ =>
      match v with
      | VSome v' => fcovered m d && rec (fty d) v'
      | _ => true
      end
  | CRep | CPacked =>
      match v with
      | VRep [] => true
      | VRep vs => fcovered m d && forallb (rec (fty d)) vs
      | _ => true
      end
  end.

Fixpoint jok_val (t : ftype) (v : pv) {struct v} : bool :=
  match v with
  | VInt n => match t with TScalar k => nan_ok k n | _ => true end
  | VMsg fs =>
      match t with
      | TMsg m =>
          (fix go (ds : list fdesc) (vs : list pv) {struct vs} : bool :=
             match ds, vs with
             | d :: ds', v' :: vs' => jok_slot_with jok_val m d v' && go ds' vs'
             | _, _ => true
             end) (mfields (msg Sc m)) fs
      | _ => true
      end
  | _ => true
  end.

Definition jok_slot : nat -> fdesc -> pv -> bool := jok_slot_with jok_val.
Fixpoint jok_fields (m : nat) (ds : list fdesc) (vs : list pv) : bool :=
  match ds, vs with
  | d :: ds', v :: vs' => jok_slot m d v && jok_fields m ds' vs'
  | _, _ => true
  end.
Definition jok (m : nat) (v : pv) : bool := jok_val (TMsg m) v.

End JCodec.

(* ---------------------------------------------------------------------------------------------
   comparison of trees modulo the order of object entries *)
Definition bytes_eqb (a b : bytes) : bool := list_eqb N.eqb a b.

Fixpoint jv_eqb (a b : jv) {struct a} : bool :=
  match a, b with
  | JNull, JNull => true
  | JBool x, JBool y => Bool.eqb x y
  | JInt x, JInt y | JIntStr x, JIntStr y => (x =? y)%Z
  | JFloat x, JFloat y | JFloatStr x, JFloatStr y => x =? y
  | JStr x, JStr y | JB64 x, JB64 y | JHex x, JHex y => bytes_eqb x y
  | JArr x, JArr y =>
      (fix go (l1 l2 : list jv) {struct l1} : bool :=
         match l1, l2 with
         | [], [] => true
         | p :: l1', q :: l2' => jv_eqb p q && go l1' l2'
         | _, _ => false
         end) x y
  | JObj x, JObj y =>
      (List.length x =? List.length y)%nat &&
      (fix go (l1 : list (string * jv)) {struct l1} : bool :=
         match l1 with
         | [] => true
         | (k, p) :: l1' =>
             match find (fun e => String.eqb (fst e) k) y with
             | Some (_, q) => jv_eqb p q && go l1'
             | None => false
             end
         end) x
  | _, _ => false
  end.
