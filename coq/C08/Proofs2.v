(* C08/Proofs2.v — unfolding lemmas for the nested fixpoints of the model, an induction
   principle for value trees, and  size = length of the encoding  for EVERY schema and value. *)
From Verif Require Import Common.Base C08.Model C08.Proofs1.
Require Import ZifyBool ZifyNat ZifyN.
Local Open Scope N_scope.

(* ---------------------------------------------------------------------------------------------
   induction over value trees (nested lists) *)
Section PvInd.
Variable P : pv -> Prop.
Hypothesis Hint : forall n, P (VInt n).
Hypothesis Hbytes : forall b, P (VBytes b).
Hypothesis Hmsg : forall fs, Forall P fs -> P (VMsg fs).
Hypothesis Hrep : forall vs, Forall P vs -> P (VRep vs).
Hypothesis Hnone : P VNone.
Hypothesis Hsome : forall v, P v -> P (VSome v).

Fixpoint pv_ind' (v : pv) : P v :=
  match v with
  | VInt n => Hint n
  | VBytes b => Hbytes b
  | VMsg fs => Hmsg fs ((fix go (l : list pv) : Forall P l :=
                           match l with [] => Forall_nil P | x :: r => Forall_cons x (pv_ind' x) (go r) end) fs)
  | VRep vs => Hrep vs ((fix go (l : list pv) : Forall P l :=
                           match l with [] => Forall_nil P | x :: r => Forall_cons x (pv_ind' x) (go r) end) vs)
  | VNone => Hnone
  | VSome x => Hsome x (pv_ind' x)
  end.
End PvInd.

Section S.
Variable Sc : schema.

Lemma enc_val_msg m fs : enc_val Sc (TMsg m) (VMsg fs) = enc_fields Sc (mfields (msg Sc m)) fs.
Proof.
  cbn [enc_val]. generalize (mfields (msg Sc m)) as ds.
  induction fs as [|v fs IH]; intros [|d ds]; cbn [enc_fields]; try reflexivity.
  unfold enc_slot. f_equal. apply IH.
Qed.

Lemma size_val_msg m fs : size_val Sc (TMsg m) (VMsg fs) = size_fields Sc (mfields (msg Sc m)) fs.
Proof.
  cbn [size_val]. generalize (mfields (msg Sc m)) as ds.
  induction fs as [|v fs IH]; intros [|d ds]; cbn [size_fields]; try reflexivity.
  unfold size_slot. f_equal. apply IH.
Qed.

Lemma canon_val_msg m fs :
  canon_val Sc (TMsg m) (VMsg fs)
  = canon_fields Sc (mfields (msg Sc m)) fs && groups_ok (mfields (msg Sc m)) fs.
Proof.
  cbn [canon_val]. unfold groups_ok. f_equal.
  generalize (mfields (msg Sc m)) as ds.
  induction fs as [|v fs IH]; intros [|d ds]; cbn [canon_fields]; try reflexivity.
  unfold canon_slot. f_equal. apply IH.
Qed.

Lemma sumN_app a b : sumN (a ++ b) = sumN a + sumN b.
Proof. unfold sumN. induction a; cbn [app fold_right]; lia. Qed.

Lemma blen_flat_map {A} (f : A -> bytes) (g : A -> N) l :
  Forall (fun x => g x = blen (f x)) l -> sumN (map g l) = blen (flat_map f l).
Proof.
  induction 1 as [|x l Hx _ IH]; cbn [map flat_map sumN fold_right]; [reflexivity|].
  rewrite blen_app. fold (sumN (map g l)). lia.
Qed.

Lemma size_one_ok d v :
  size_val Sc (fty d) v = blen (enc_val Sc (fty d) v) ->
  size_one (size_val Sc) d v = blen (enc_one (enc_val Sc) d v).
Proof.
  intros H. unfold size_one, enc_one.
  destruct (fty d); rewrite ?blen_app, H, <- ?varint_size_length; lia.
Qed.

Definition szQ (v : pv) : Prop := forall t, size_val Sc t v = blen (enc_val Sc t v).
Definition deep (Q : pv -> Prop) (v : pv) : Prop :=
  Q v /\ match v with VRep vs => Forall Q vs | VSome x => Q x | _ => True end.

Lemma Forall_deep Q l : Forall (deep Q) l -> Forall Q l.
Proof. induction 1 as [|x l [H _] _ IH]; constructor; auto. Qed.

Lemma size_slot_ok d v : deep szQ v -> size_slot Sc d v = blen (enc_slot Sc d v).
Proof.
  intros [Hv Hsub].
  unfold size_slot, enc_slot, size_slot_with, enc_slot_with.
  destruct (fcd d).
  - (* COpt *)
    destruct (fty d) eqn:Et; destruct v; try reflexivity;
      try (destruct (is_zero k n)); try (destruct b as [|? ?]); try reflexivity;
      apply size_one_ok; apply Hv.
  - (* COneof *)
    destruct v; try reflexivity. destruct v; try reflexivity; apply size_one_ok; apply Hsub.
  - (* CRep *)
    destruct v; try reflexivity.
    apply blen_flat_map. eapply Forall_impl; [|exact Hsub].
    intros x Hx. apply size_one_ok. apply Hx.
  - (* CPacked *)
    destruct v; try reflexivity. destruct vs as [|x vs]; [reflexivity|].
    rewrite !blen_app, <- !varint_size_length.
    assert (E : sumN (map (size_val Sc (fty d)) (x :: vs)) = blen (flat_map (enc_val Sc (fty d)) (x :: vs))).
    { apply blen_flat_map. eapply Forall_impl; [|exact Hsub]. intros y Hy. apply Hy. }
    rewrite E. lia.
Qed.

Lemma size_val_deep v : deep szQ v.
Proof.
  induction v as [n|b|fs IH|vs IH| |v IH] using pv_ind'.
  - split; [|exact I]. intros t. destruct t; cbn [size_val enc_val]; try reflexivity. apply size_scalar_length.
  - split; [|exact I]. intros t. destruct t; reflexivity.
  - split; [|exact I]. intros t. destruct t as [| | | |m]; try reflexivity.
    rewrite size_val_msg, enc_val_msg.
    generalize (mfields (msg Sc m)) as ds.
    induction IH as [|v fs Hv _ IHfs]; intros [|d ds]; cbn [size_fields enc_fields]; try reflexivity.
    rewrite blen_app, <- IHfs. f_equal. apply size_slot_ok. exact Hv.
  - split; [|apply Forall_deep; exact IH]. intros t. reflexivity.
  - split; [|exact I]. intros t. reflexivity.
  - split; [|apply IH]. intros t. reflexivity.
Qed.

Theorem proto_size_l m v : size Sc m v = blen (encode Sc m v).
Proof. unfold size, encode. apply size_val_deep. Qed.

Lemma size_fields_ok ds fs : size_fields Sc ds fs = blen (enc_fields Sc ds fs).
Proof.
  revert ds. induction fs as [|v fs IH]; intros [|d ds]; cbn [size_fields enc_fields]; try reflexivity.
  rewrite blen_app, <- IH. f_equal. apply size_slot_ok. apply size_val_deep.
Qed.
End S.
