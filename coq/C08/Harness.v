(* C08/Harness.v — comparison of the model with what the Go harness recorded from the real
   implementation (work/C08/Cases_k.v).  Imports only the model and the generated schema. *)
From Verif Require Export Common.Base C08.Model C08.Json Generated.OtlpProto Generated.C08JsonDecoders.
From Coq Require Import String.
Local Open Scope N_scope.

Definition VB (s : string) : pv := VBytes (hex s).

(* a case = kind, message, value, bytes (hex), size, JSON tree, and two further OBSERVATIONS of the
   implementation (see `obs_back` / `obs_bytes2` below): a second value and a second byte string *)
Definition case : Type := nat * (nat * (pv * (string * (N * (jv * (pv * string)))))).
Definition same : string := "="%string.
Definition mkcase (kind m : nat) (v : pv) (hx : string) (sz : N) : case := (kind, (m, (v, (hx, (sz, (JNull, (VNone, same))))))).
Definition mkcasej (kind m : nat) (v : pv) (j : jv) : case := (kind, (m, (v, (EmptyString, (0, (j, (VNone, same))))))).
Definition mkcaseo (kind m : nat) (v : pv) (hx : string) (sz : N) (j : jv) (back : pv) (hx2 : string) : case :=
  (kind, (m, (v, (hx, (sz, (j, (back, hx2))))))).

Definition otlp_to_json := to_json OtlpSchema.
Definition otlp_of_json := unmarshal_json OtlpSchema OtlpJsonDecoders OtlpEnums.   (* the public JSON decode path *)

Definition opv_eqb (a b : option pv) : bool := option_eqb pv_eqb a b.

(* kind 0: value -> bytes.  v = the generated value, hx = real Marshal bytes, sz = real Size.
     model encode = real bytes; model size = real size = length; the model decodes the real
     bytes to the value (normalised where the round trip is known to lose something).
   kind 1: bytes -> value through the generated Unmarshal.  v = VNone (rejected) | VSome tree.
     one-sided: whenever the MODEL accepts the bytes the implementation accepted them and
     built the same value.
   kind 2: same through a decode path that applies the deprecated-scope migration.
   kind 3: a JSON text (oracle only; nothing to compare).
   kind 4: value -> JSON tree.  v = the generated value, j = the real MarshalJSON output parsed into
     a tree along the schema: model to_json = real tree (modulo the order of object entries).
   kind 5: JSON tree -> value.  j = a document (as marshalled, or rewritten into the alternate
     forms), v = VNone (rejected) | VSome (real UnmarshalJSON result): whenever the MODEL accepts
     the document the implementation accepted it and built the same value.
   kind 7: a minimal valid request with ONE hostile occurrence of one field at its end (ids of every
     length, 11-byte / cut varints, lengths past the end, wrong wire types, group tags): TWO-SIDED —
     the public ProtoUnmarshaler accepts iff the model's decode does, with the same value.
   kind 6: a minimal document giving ONE field a boundary or malformed token whose meaning the
     model defines (ids of every length, integers at and beyond their range as numbers and strings,
     floats / booleans / words where integers are expected, unknown enum names, base64 of every
     padding): TWO-SIDED — the implementation accepts iff the model does, with the same value. *)
(* the JSON fixed point in the model, on every decoded value that is canonical (json_decode_fixpoint_partial
   needs more: this evaluates its conclusion where its missing lemma would be used) *)
Definition json_fix (m : nat) (d : pv) : bool :=
  if canonical OtlpSchema m d then opv_eqb (otlp_of_json m (otlp_to_json m d)) (Some d) else true.

Definition check_case (c : case) : bool :=
  let '(kind, (m, (v, (hx, (sz, (j, (back, hx2))))))) := c in
  let b := hex hx in
  match kind with
  | O =>
      list_eqb N.eqb (encode OtlpSchema m v) b
      && (size OtlpSchema m v =? sz) && (blen b =? sz)
      && canonical OtlpSchema m (norm OtlpSchema m v)
      && opv_eqb (decode OtlpSchema m b) (Some (norm OtlpSchema m v))
  | 1%nat =>   (* the generated Unmarshal of a message: no migration *)
      match decode OtlpSchema m b with
      | None => true
      | Some d => pv_eqb v (VSome d) && canonical OtlpSchema m (norm OtlpSchema m d)
      end
  | 2%nat =>   (* ExportRequest.UnmarshalProto *)
      match decode_path OtlpSchema PExportRequestProto m b with
      | None => true
      | Some d => pv_eqb v (VSome d) && no_deprecated OtlpSchema m d
      end
  | 9%nat =>   (* ProtoUnmarshaler.UnmarshalX *)
      match decode_path OtlpSchema PProtoUnmarshaler m b with
      | None => true
      | Some d => pv_eqb v (VSome d) && no_deprecated OtlpSchema m d
      end
  | 3%nat => true
  | 10%nat =>   (* v = VRep [payloads marshalled one after the other]; j = JArr [JStr bytes kept from call i, read at the END] *)
      match v, j with
      | VRep vs, JArr os =>
          list_eqb (list_eqb N.eqb) (observe (run_fresh (encode OtlpSchema m) vs))
                   (map (fun o => match o with JStr x => x | _ => [256] (* not a byte string: never equal *) end) os)
      | _, _ => false
      end
  | 11%nat =>   (* the same for the JSON marshaler: j = JArr [the tree parsed at the END from the bytes kept from call i] *)
      match v, j with
      | VRep vs, JArr os => list_eqb jv_eqb (map (otlp_to_json m) vs) os
      | _, _ => false
      end
  | 4%nat => jv_eqb (otlp_to_json m v) j
  | 7%nat =>
      match decode_path OtlpSchema PProtoUnmarshaler m b with
      | None => pv_eqb v VNone
      | Some d => pv_eqb v (VSome d)
      end
  | 6%nat =>
      match otlp_of_json m j with
      | None => pv_eqb v VNone
      | Some d => pv_eqb v (VSome d) && json_fix m d
      end
  | _ =>
      match otlp_of_json m j with
      | None => true
      | Some d => pv_eqb v (VSome d) && json_fix m d
      end
  end.

(* for replay files: what the model computes for the case's input *)
Definition model_out (c : case) : (bytes * N) * option pv :=
  let '(kind, (m, (v, (hx, (sz, (j, (back, hx2))))))) := c in
  match kind with
  | O => ((encode OtlpSchema m v, size OtlpSchema m v), decode OtlpSchema m (encode OtlpSchema m v))
  | 1%nat => (([], 0), decode OtlpSchema m (hex hx))
  | 2%nat => (([], 0), option_map (migrate OtlpSchema m) (decode OtlpSchema m (hex hx)))
  | 7%nat | 9%nat => (([], 0), decode_path OtlpSchema PProtoUnmarshaler m (hex hx))
  | _ => (([], 0), otlp_of_json m j)
  end.

Definition model_json (c : case) : jv :=
  let '(kind, (m, (v, (hx, (sz, (j, (back, hx2))))))) := c in otlp_to_json m v.

(* ---------------------------------------------------------------------------------------------
   the property's clauses evaluated on the OBSERVED behaviour of the implementation alone — no model
   function (encode / decode / to_json / of_json) occurs below.  Observations of a case:
     kind 0 (value -> bytes): v the payload, hx = Marshal(v), sz = Size(v),
        back = what Unmarshal(Marshal v) built  (VNone: a tree identical to v; VSome t: the tree t; anything
        else: Unmarshal failed),  hx2 = Marshal(Unmarshal(Marshal v))  ("=": identical to hx);
     kinds 1 2 7 9 (bytes -> value, accepted): v = VSome (decoded tree), hx the input,
        hx2 = b1 = Marshal(decoded),  back = what happened one round later: VNone: Marshal(Unmarshal(b1)) = b1;
        VBytes b2: it was b2; anything else: b1 did not decode;
     kind 4 (value -> JSON): v the payload, hx = Marshal(v), back = UnmarshalJSON(MarshalJSON v) (as for kind 0),
        hx2 = Marshal(UnmarshalJSON(MarshalJSON v)) ("=": identical to hx). *)
Definition obs_back (v back : pv) : option pv :=
  match back with VNone => Some v | VSome t => Some t | _ => None end.
Definition obs_bytes2 (hx hx2 : string) : bytes := if String.eqb hx2 same then hex hx else hex hx2.
Definition obs_round2 (b1 : bytes) (back : pv) : option bytes :=
  match back with VNone => Some b1 | VBytes b2 => Some b2 | _ => None end.

Definition clause_size (c : case) : bool :=
  let '(kind, (m, (v, (hx, (sz, (j, (back, hx2))))))) := c in
  match kind with O => blen (hex hx) =? sz | _ => true end.
Definition clause_roundtrip (c : case) : bool :=
  let '(kind, (m, (v, (hx, (sz, (j, (back, hx2))))))) := c in
  match kind with
  | O | 4%nat => opv_eqb (obs_back v back) (Some v)
  | _ => true
  end.
Definition clause_rebytes (c : case) : bool :=      (* kind 0: re-marshal; kind 4: JSON -> protobuf agreement *)
  let '(kind, (m, (v, (hx, (sz, (j, (back, hx2))))))) := c in
  match kind with
  | O | 4%nat => list_eqb N.eqb (obs_bytes2 hx hx2) (hex hx)
  | _ => true
  end.
Definition clause_fixpoint (c : case) : bool :=
  let '(kind, (m, (v, (hx, (sz, (j, (back, hx2))))))) := c in
  match kind, v with
  | 1%nat, VSome _ | 2%nat, VSome _ | 7%nat, VSome _ | 9%nat, VSome _ =>
      if String.eqb hx2 same then true   (* no re-encoding was recorded for this case *)
      else match obs_round2 (hex hx2) back with Some b2 => list_eqb N.eqb b2 (hex hx2) | None => false end
  | _, _ => true
  end.
Definition prop_ok (c : case) : bool := clause_size c && clause_roundtrip c && clause_rebytes c && clause_fixpoint c.

(* the one recorded loss (-0.0 in a singular double, findings C08-NEGZERO / -JSON): a payload that is not
   canonical but has no nil oneof member differs from a canonical one only there; for it the round trip is
   demanded up to `norm` (protobuf) resp. not demanded (JSON).  Everything else is strict. *)
(* no oneof member holds a nil value (VSome VNone): what the public API builds never does (NewValueBytes /
   SetEmptyBytes store an empty non-nil slice) *)
Fixpoint nil_free (v : pv) {struct v} : bool :=
  match v with
  | VSome VNone => false
  | VSome x => nil_free x
  | VMsg l | VRep l => (fix go (l : list pv) : bool := match l with [] => true | x :: r => nil_free x && go r end) l
  | _ => true
  end.

Definition prop_ok_known (c : case) : bool :=
  let '(kind, (m, (v, (hx, (sz, (j, (back, hx2))))))) := c in
  match kind with
  | O => if canonical OtlpSchema m v || negb (nil_free v) then prop_ok c
         else clause_size c && opv_eqb (obs_back v back) (Some (norm OtlpSchema m v)) && clause_rebytes c
  | 4%nat => if canonical OtlpSchema m v || negb (nil_free v) then prop_ok c else true
  | _ => prop_ok c
  end.

Definition check_all (c : case) : bool := check_case c && prop_ok_known c.

(* for the search after a disagreement: which part fails?  [model; size; roundtrip; rebytes; fixpoint; known-region] *)
Definition diag (c : case) : list bool :=
  let '(kind, (m, (v, (hx, (sz, (j, (back, hx2))))))) := c in
  [check_case c; clause_size c; clause_roundtrip c; clause_rebytes c; clause_fixpoint c; canonical OtlpSchema m v; prop_ok_known c].
