(* C08/Harness.v — comparison of the model with what the Go harness recorded from the real
   implementation (work/C08/Cases_k.v).  Imports only the model and the generated schema. *)
From Verif Require Export Common.Base C08.Model C08.Json Generated.OtlpProto Generated.C08JsonDecoders.
From Coq Require Import String.
Local Open Scope N_scope.

Definition VB (s : string) : pv := VBytes (hex s).

Definition case : Type := nat * (nat * (pv * (string * (N * jv)))).
Definition mkcase (kind m : nat) (v : pv) (hx : string) (sz : N) : case := (kind, (m, (v, (hx, (sz, JNull))))).
Definition mkcasej (kind m : nat) (v : pv) (j : jv) : case := (kind, (m, (v, (EmptyString, (0, j))))).

Definition otlp_to_json := to_json OtlpSchema.
Definition otlp_of_json := of_json OtlpSchema OtlpJsonDecoders OtlpEnums.

Definition opv_eqb (a b : option pv) : bool := option_eqb pv_eqb a b.

(* kind 0: value -> bytes.  v = the generated value, hx = real Marshal bytes, sz = real Size.
     model encode = real bytes; model size = real size = length; the model decodes the real
     bytes to the value (normalised where the round trip is known to lose something).
   kind 1: bytes -> value through the generated Unmarshal.  v = VNone (rejected) | VSome tree.
     one-sided: whenever the MODEL accepts the bytes the implementation accepted them and
     built the same value.
   kind 2: same through a decode path that applies the deprecated-scope migration.
   kind 3: a JSON text (oracle only; nothing to compare).
   kind 4: value -> JSON tree.  v = the generated value, j = the real MarshalJSON output parsed into
     a tree along the schema: model to_json = real tree (modulo the order of object entries).
   kind 5: JSON tree -> value.  j = a document (as marshalled, or rewritten into the alternate
     forms), v = VNone (rejected) | VSome (real UnmarshalJSON result): whenever the MODEL accepts
     the document the implementation accepted it and built the same value.
   kind 7: a minimal valid request with ONE hostile occurrence of one field at its end (ids of every
     length, 11-byte / cut varints, lengths past the end, wrong wire types, group tags): TWO-SIDED —
     the public ProtoUnmarshaler accepts iff the model's decode does, with the same value.
   kind 6: a minimal document giving ONE field a boundary or malformed token whose meaning the
     model defines (ids of every length, integers at and beyond their range as numbers and strings,
     floats / booleans / words where integers are expected, unknown enum names, base64 of every
     padding): TWO-SIDED — the implementation accepts iff the model does, with the same value. *)
Definition check_case (c : case) : bool :=
  let '(kind, (m, (v, (hx, (sz, j))))) := c in
  let b := hex hx in
  match kind with
  | O =>
      list_eqb N.eqb (encode OtlpSchema m v) b
      && (size OtlpSchema m v =? sz) && (blen b =? sz)
      && canonical OtlpSchema m (norm OtlpSchema m v)
      && opv_eqb (decode OtlpSchema m b) (Some (norm OtlpSchema m v))
  | 1%nat =>   (* generated Unmarshal and ProtoUnmarshaler.UnmarshalX: the path that does not migrate *)
      match decode_path OtlpSchema PProtoUnmarshaler m b with
      | None => true
      | Some d => pv_eqb v (VSome d) && canonical OtlpSchema m (norm OtlpSchema m d)
      end
  | 2%nat =>   (* ExportRequest.UnmarshalProto: the path that migrates *)
      match decode_path OtlpSchema PExportRequestProto m b with
      | None => true
      | Some d => pv_eqb v (VSome d) && no_deprecated OtlpSchema m d && res_shaped OtlpSchema m d
      end
  | 3%nat => true
  | 4%nat => jv_eqb (otlp_to_json m v) j
  | 7%nat =>
      match decode OtlpSchema m b with
      | None => pv_eqb v VNone
      | Some d => pv_eqb v (VSome d)
      end
  | 6%nat =>
      match otlp_of_json m j with
      | None => pv_eqb v VNone
      | Some d => pv_eqb v (VSome d)
      end
  | _ =>
      match otlp_of_json m j with
      | None => true
      | Some d => pv_eqb v (VSome d)
      end
  end.

(* for replay files: what the model computes for the case's input *)
Definition model_out (c : case) : (bytes * N) * option pv :=
  let '(kind, (m, (v, (hx, (sz, j))))) := c in
  match kind with
  | O => ((encode OtlpSchema m v, size OtlpSchema m v), decode OtlpSchema m (encode OtlpSchema m v))
  | 1%nat => (([], 0), decode OtlpSchema m (hex hx))
  | 2%nat => (([], 0), option_map (migrate OtlpSchema m) (decode OtlpSchema m (hex hx)))
  | 7%nat => (([], 0), decode OtlpSchema m (hex hx))
  | _ => (([], 0), otlp_of_json m j)
  end.

Definition model_json (c : case) : jv :=
  let '(kind, (m, (v, (hx, (sz, j))))) := c in otlp_to_json m v.
