(* C08/Proofs15.v — successive Marshal calls are independent: what a caller reads, after any number of
   further calls, from the buffers it was handed is exactly the encodings of the payloads it passed. *)
From Verif Require Import Common.Base C08.Model.
Local Open Scope N_scope.

Section CallsP.
Context {A : Type}.
Variable enc : A -> bytes.

Lemma observe_fresh_gen : forall vs h outs,
  Forall (fun i => (i < length h)%nat) outs ->
  observe (fold_left (call_fresh enc) vs (h, outs)) = observe (h, outs) ++ map enc vs.
Proof.
  induction vs as [|v vs IH]; intros h outs Hv; cbn [fold_left map].
  - rewrite app_nil_r. reflexivity.
  - unfold call_fresh at 2. cbn [fst snd]. rewrite IH.
    + unfold observe. cbn [fst snd]. rewrite map_app. cbn [map]. rewrite <- app_assoc. cbn [app]. f_equal.
      * apply map_ext_in. intros i Hi. rewrite Forall_forall in Hv. apply app_nth1. apply Hv. exact Hi.
      * f_equal. rewrite app_nth2 by lia. rewrite Nat.sub_diag. reflexivity.
    + rewrite Forall_forall in *. intros i Hi. rewrite app_length. cbn [length].
      apply in_app_or in Hi. destruct Hi as [Hi|[<-|[]]]; [specialize (Hv i Hi)|]; lia.
Qed.

Theorem marshal_calls_independent_l vs : observe (run_fresh enc vs) = map enc vs.
Proof. unfold run_fresh. rewrite observe_fresh_gen by constructor. reflexivity. Qed.

(* a recycled buffer would NOT have this property as soon as two payloads encode differently *)
Theorem pooled_marshal_refuted_l a b : enc a <> enc b -> observe (run_pooled enc [a; b]) <> map enc [a; b].
Proof.
  intros Hne. unfold run_pooled, observe. cbn. intros H. inversion H. congruence.
Qed.
End CallsP.
