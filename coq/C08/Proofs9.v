(* C08/Proofs9.v — the JSON loop over the emitted entries and the JSON round-trip theorem. *)
From Verif Require Import Common.Base C08.Model C08.Json C08.Proofs1 C08.Proofs2 C08.Proofs3 C08.Proofs5 C08.Proofs8.
Local Open Scope N_scope.

Section JLoop.
Variable Sc : schema.
Variable D : list jdec.
Variable E : enums.
Hypothesis Hwf : wf_schema Sc = true.

Lemma jloop m : forall suf_d pre_d pre_v suf_v,
  mfields (msg Sc m) = pre_d ++ suf_d -> length pre_d = length pre_v ->
  canon_fields Sc (pre_d ++ suf_d) (pre_v ++ suf_v) = true ->
  groups_ok (pre_d ++ suf_d) (pre_v ++ suf_v) = true ->
  jok_fields Sc D m suf_d suf_v = true ->
  Forall (deep (JQ Sc D E)) suf_v ->
  oj_fields Sc D E m (tj_fields Sc suf_d suf_v) (pre_v ++ map (default_slot Sc) suf_d) = Some (pre_v ++ suf_v).
Proof.
  induction suf_d as [|d suf IH]; intros pre_d pre_v suf_v Hds Hl Hcan Hg Hj HQ.
  - pose proof (canon_fields_length Sc _ _ Hcan) as HL. rewrite !app_length in HL. cbn [length] in HL.
    destruct suf_v; [|cbn [length] in HL; lia]. reflexivity.
  - pose proof Hcan as Hcan0.
    rewrite canon_fields_app in Hcan by exact Hl. apply andb_true_iff in Hcan. destruct Hcan as [Hcp Hcs].
    destruct suf_v as [|v suf_v]; [discriminate Hcs|].
    cbn [canon_fields] in Hcs. apply andb_true_iff in Hcs. destruct Hcs as [Hcv Hcs].
    cbn [jok_fields] in Hj. apply andb_true_iff in Hj. destruct Hj as [Hjv Hjs].
    inversion HQ as [|? ? HQv HQs]; subst.
    cbn [tj_fields map].
    assert (Hok : field_ok Sc d).
    { pose proof (msg_fields_ok Sc Hwf m) as HF. rewrite Forall_forall in HF. apply HF.
      rewrite Hds. apply in_or_app. right. left. reflexivity. }
    set (cur := pre_v ++ default_slot Sc d :: map (default_slot Sc) suf).
    rewrite (jslot_step Sc D E Hwf m (tj_fields Sc suf suf_v) cur pre_d d suf v); auto.
    + unfold cur. rewrite Hl, upd_middle.
      replace (pre_v ++ v :: map (default_slot Sc) suf) with ((pre_v ++ [v]) ++ map (default_slot Sc) suf)
        by (rewrite <- app_assoc; reflexivity).
      replace (pre_v ++ v :: suf_v) with ((pre_v ++ [v]) ++ suf_v) by (rewrite <- app_assoc; reflexivity).
      apply (IH (pre_d ++ [d])); auto.
      * rewrite <- app_assoc. exact Hds.
      * rewrite !app_length. cbn [length]. lia.
      * rewrite <- !app_assoc. exact Hcan0.
      * rewrite <- !app_assoc. exact Hg.
    + rewrite Hds. unfold cur. rewrite !app_length. cbn [length]. rewrite map_length. lia.
    + rewrite Hl. unfold cur. apply nth_middle'.
    + intros g Hcd Hv k d' Hk Hne Hsg.
      destruct (canon_oneof_shape Sc d g v Hcd Hcv) as [->|(x & ->)]; [congruence|].
      rewrite Hds in Hk.
      assert (Hvi : nth_error (pre_v ++ VSome x :: suf_v) (length pre_d) = Some (VSome x)).
      { rewrite Hl. apply nth_error_middle. }
      assert (Hdi : nth_error (pre_d ++ d :: suf) (length pre_d) = Some d) by apply nth_error_middle.
      pose proof (group_clear Sc _ _ (length pre_d) d g x Hcan0 Hg Hdi Hcd Hvi k d' Hne Hk Hsg) as Hvk.
      unfold cur.
      destruct (Nat.lt_ge_cases k (length pre_v)) as [Hlt|Hge].
      * rewrite app_nth1 by exact Hlt. rewrite nth_error_app1 in Hvk by exact Hlt.
        apply nth_error_nth. exact Hvk.
      * rewrite app_nth2 by exact Hge.
        rewrite nth_error_app2 in Hk by lia.
        destruct (k - length pre_v)%nat as [|j] eqn:Ej; [lia|].
        replace (k - length pre_d)%nat with (S j) in Hk by lia.
        cbn [nth nth_error] in *.
        assert (Hcd' : exists g', fcd d' = COneof g').
        { unfold same_group in Hsg. destruct (fcd d'); try discriminate Hsg. eauto. }
        destruct Hcd' as (g' & Hcd').
        assert (E0 : default_slot Sc d' = VNone) by (unfold default_slot; rewrite Hcd'; reflexivity).
        rewrite <- E0.
        apply nth_error_nth. rewrite nth_error_map, Hk. reflexivity.
Qed.

Lemma json_deep v : deep (JQ Sc D E) v.
Proof.
  induction v as [n|b|fs IH|vs IH| |v IH] using pv_ind'.
  - split; [|exact I]. intros m Hc. discriminate Hc.
  - split; [|exact I]. intros m Hc. discriminate Hc.
  - split; [|exact I]. intros m Hc Hj.
    rewrite tj_val_msg, oj_val_msg. rewrite canon_val_msg in Hc. rewrite jok_val_msg in Hj.
    apply andb_true_iff in Hc. destruct Hc as [Hc Hg].
    pose proof (jloop m (mfields (msg Sc m)) [] [] fs eq_refl eq_refl Hc Hg Hj IH) as HL. cbn [app] in HL.
    rewrite <- (msg_default Sc Hwf m) in HL. cbv iota beta. rewrite HL. reflexivity.
  - split; [|apply Forall_deep; exact IH]. intros m Hc. discriminate Hc.
  - split; [|exact I]. intros m Hc. discriminate Hc.
  - split; [|apply IH]. intros m Hc. discriminate Hc.
Qed.

Theorem json_roundtrip_l m v :
  canonical Sc m v = true -> jok Sc D m v = true -> migrate Sc m v = v ->
  of_json Sc D E m (to_json Sc m v) = Some v.
Proof.
  intros Hc Hj Hm. unfold of_json, to_json, canonical, jok in *.
  destruct (json_deep v) as [HQ _]. rewrite (HQ m Hc Hj). cbn [option_map]. rewrite Hm. reflexivity.
Qed.

Theorem json_proto_agree_l m v :
  canonical Sc m v = true -> jok Sc D m v = true -> migrate Sc m v = v ->
  option_map (encode Sc m) (of_json Sc D E m (to_json Sc m v)) = Some (encode Sc m v).
Proof. intros. rewrite json_roundtrip_l; auto. Qed.
End JLoop.

(* ---------------------------------------------------------------------------------------------
   alternate token forms, at the level of the readers *)
Lemma json_int64_forms_l e names k z :
  is64 k = true -> jnum e = true -> jstr e = true ->
  oj_scalar e names k (JInt z) = oj_scalar e names k (JIntStr z).
Proof. intros Hk H1 H2. destruct k; try discriminate Hk; cbn [oj_scalar]; rewrite H1, H2; reflexivity. Qed.

Lemma json_enum_forms_l e names name value :
  jnum e = true -> jname e = true ->
  find (fun p => list_eqb N.eqb (fst p) name) names = Some (name, value) ->
  in_range SEnum value = true ->
  oj_scalar e names SEnum (JStr name) = oj_scalar e names SEnum (JInt (sgn64 value)).
Proof.
  intros H1 H2 Hf Hr. cbn [oj_scalar int_to_field]. rewrite H1, H2, Hf. cbn [option_map snd].
  cbn [in_range] in Hr. rewrite in_z_true by (apply r_s32; exact Hr).
  rewrite of_sgn64_sgn64; [reflexivity|]. apply (in_range_lt64 SEnum). exact Hr.
Qed.

(* a hex id is accepted exactly when it is empty or has the length of the id (anything else — short,
   OVER-LONG — is an error, never a write outside the id) *)
Lemma json_id_length_l E rec e m d n cur b :
  fty d = TId n -> jstr e = true ->
  (oj_one E rec e m d cur (JHex b) <> None <-> (blen b = 0 \/ blen b = n)).
Proof.
  intros Hty Hs. unfold oj_one. rewrite Hty, Hs.
  destruct (N.eqb_spec (blen b) 0) as [E0|E0]; [split; [auto|discriminate]|].
  destruct (N.eqb_spec (blen b) n) as [En|En]; split; try discriminate; auto.
  - intros H. contradiction.
  - intros [H|H]; contradiction.
Qed.

(* an integer token outside the range of the field is an error for every reader, in both forms *)
Lemma json_int_range_l e names k z :
  match k with SBool | SDouble => False | _ => True end ->
  int_to_field k z = None ->
  oj_scalar e names k (JInt z) = None /\ oj_scalar e names k (JIntStr z) = None.
Proof.
  intros Hk H. destruct k; try contradiction; cbn [oj_scalar]; rewrite H;
    (split; [destruct (jnum e); reflexivity|destruct (jstr e); reflexivity]).
Qed.
