(* C08/Proofs10.v — an invariant of the decoder: whatever it builds, from ANY byte string, is
   canonical after normalisation (shapes, ranges, ids, at most one member per oneof). *)
From Verif Require Import Common.Base C08.Model C08.Proofs1 C08.Proofs2 C08.Proofs3 C08.Proofs5 C08.Proofs7.
Require Import ZifyBool ZifyNat ZifyN.
Ltac Zify.zify_post_hook ::= Z.to_euclidean_division_equations.
Local Open Scope N_scope.

(* ---------------------------------------------------------------------------------------------
   scalars read from the wire are in range *)
Lemma sext32_range raw :
  (sext32 raw <? two31) || ((two64 - two31 <=? sext32 raw) && (sext32 raw <? two64)) = true.
Proof.
  unfold sext32, two64, two32, two31.
  destruct (N.ltb_spec (raw mod 4294967296) 2147483648) as [H|H].
  - apply orb_true_iff. left. apply N.ltb_lt. exact H.
  - apply orb_true_iff. right. apply andb_true_iff. split; [apply N.leb_le|apply N.ltb_lt]; lia.
Qed.

Lemma mod64_lt raw : (raw mod two64 <? two64) = true.
Proof. apply N.ltb_lt. apply N.mod_lt. discriminate. Qed.
Lemma mod32_lt raw : (raw mod two32 <? two32) = true.
Proof. apply N.ltb_lt. apply N.mod_lt. discriminate. Qed.

Lemma store_in_range k raw : in_range k (store k raw) = true.
Proof.
  destruct k; cbn [store in_range]; try apply mod64_lt; try apply mod32_lt; try apply sext32_range.
  destruct (raw mod two64 =? 0); reflexivity.
Qed.

Lemma read_scalar_good k b x r : read_scalar k b = Some (x, r) -> in_range k x = true.
Proof.
  unfold read_scalar. intros H.
  match type of H with match ?e with _ => _ end = _ => destruct e as [[raw r0]|]; [|discriminate] end.
  inversion H; subst. apply store_in_range.
Qed.

Lemma read_packed_good k : forall fuel remain b vs r,
  read_packed k fuel remain b = Some (vs, r) ->
  forallb (fun x => match x with VInt n => in_range k n | _ => false end) vs = true.
Proof.
  induction fuel as [|f IH]; intros remain b vs r H; cbn [read_packed] in H.
  - destruct (remain =? 0); [|discriminate]. inversion H; subst. reflexivity.
  - destruct (remain =? 0); [inversion H; subst; reflexivity|].
    destruct (read_scalar k b) as [[x r']|] eqn:E; [|discriminate].
    match type of H with match ?e with _ => _ end = _ => destruct e as [[ys r'']|] eqn:E2; [|discriminate] end.
    inversion H; subst. cbn [forallb]. rewrite (read_scalar_good _ _ _ _ E). cbn [andb]. eapply IH. exact E2.
Qed.

Lemma in_range_zero k : in_range k 0 = true.
Proof. destruct k; reflexivity. Qed.

(* ---------------------------------------------------------------------------------------------
   normalised fields *)
Section Inv.
Variable Sc : schema.

Definition nslot (d : fdesc) (v : pv) : pv := norm_slot_with (norm_val Sc) d v.
Fixpoint norm_fields (ds : list fdesc) (vs : list pv) : list pv :=
  match ds, vs with
  | d :: ds', v :: vs' => nslot d v :: norm_fields ds' vs'
  | _, _ => vs
  end.

Lemma norm_val_msg2 m fs : norm_val Sc (TMsg m) (VMsg fs) = VMsg (norm_fields (mfields (msg Sc m)) fs).
Proof.
  rewrite norm_val_msg. f_equal. generalize (mfields (msg Sc m)) as ds.
  induction fs as [|v fs IH]; intros [|d ds]; cbn [norm_fields]; try reflexivity.
  unfold nslot. f_equal. apply IH.
Qed.

Definition gs (d : fdesc) (v : pv) : Prop := canon_slot Sc d (nslot d v) = true.
Definition G (ds : list fdesc) (cur : list pv) : Prop :=
  canon_fields Sc ds (norm_fields ds cur) = true /\ groups_ok ds (norm_fields ds cur) = true.

Lemma G_canon m fs :
  G (mfields (msg Sc m)) fs <-> canon_val Sc (TMsg m) (norm_val Sc (TMsg m) (VMsg fs)) = true.
Proof. rewrite norm_val_msg2, canon_val_msg, andb_true_iff. reflexivity. Qed.

Lemma same_group_oneof g d : same_group g d = true -> exists g', fcd d = COneof g'.
Proof. unfold same_group. destruct g; [|discriminate]. destruct (fcd d); try discriminate. eauto. Qed.

Lemma gs_none d g : fcd d = COneof g -> gs d VNone.
Proof. intros H. unfold gs, nslot, norm_slot_with, canon_slot, canon_slot_with. rewrite H. reflexivity. Qed.

(* ---- the canonical-fields half is preserved by set_slot ---- *)
Lemma canon_set_slot_go v g i : forall ds cur j,
  canon_fields Sc ds (norm_fields ds cur) = true ->
  (forall d, (j <= i)%nat -> nth_error ds (i - j) = Some d -> gs d v) ->
  canon_fields Sc ds (norm_fields ds (set_slot_go ds g i j v cur)) = true.
Proof.
  induction ds as [|d ds IH]; intros [|c cur] j Hc Hv; cbn [set_slot_go norm_fields canon_fields] in *; try exact Hc.
  apply andb_true_iff in Hc. destruct Hc as [Hc1 Hc2]. apply andb_true_iff. split.
  - destruct (Nat.eqb_spec j i) as [->|Hne].
    + apply (Hv d); [lia|]. rewrite Nat.sub_diag. reflexivity.
    + destruct (same_group g d) eqn:Es; [|exact Hc1].
      destruct (same_group_oneof g d Es) as [g' Hg']. apply (gs_none d g' Hg').
  - apply IH; [exact Hc2|]. intros d' Hle Hn. apply (Hv d'); [lia|].
    replace (i - j)%nat with (S (i - S j)) by lia. exact Hn.
Qed.

Lemma canon_nth : forall ds cur i d,
  canon_fields Sc ds (norm_fields ds cur) = true -> nth_error ds i = Some d -> gs d (nth i cur VNone).
Proof.
  induction ds as [|a ds IH]; intros [|c cur] [|i] d Hc Hn; cbn [norm_fields canon_fields nth nth_error] in *; try discriminate.
  - inversion Hn; subst. apply andb_true_iff in Hc. destruct Hc as [Hc _]. exact Hc.
  - apply andb_true_iff in Hc. destruct Hc as [_ Hc]. apply (IH cur i d Hc Hn).
Qed.

Lemma find_field_nth_error fn : forall ds j i d,
  find_field ds fn j = Some (i, d) -> (j <= i)%nat /\ nth_error ds (i - j) = Some d.
Proof.
  induction ds as [|a ds IH]; intros j i d H; cbn [find_field] in H; [discriminate|].
  destruct (fnum a =? fn).
  - inversion H; subst. split; [lia|]. rewrite Nat.sub_diag. reflexivity.
  - apply IH in H. destruct H as [H1 H2]. split; [lia|].
    replace (i - j)%nat with (S (i - S j)) by lia. exact H2.
Qed.

(* ---- the oneof half ---- *)
Definition is_some (v : pv) : bool := match v with VSome _ => true | _ => false end.

Lemma group_count_cons d ds v vs g :
  group_count (d :: ds) (v :: vs) g
  = ((if same_group (Some g) d && is_some v then 1 else 0) + group_count ds vs g)%nat.
Proof.
  unfold group_count. cbn [combine filter fst snd]. unfold is_some.
  destruct (same_group (Some g) d && match v with VSome _ => true | _ => false end); reflexivity.
Qed.

Lemma group_count_nil_r ds g : group_count ds [] g = 0%nat.
Proof. unfold group_count. destruct ds; reflexivity. Qed.

Lemma nslot_none_of_group d g : same_group g d = true -> nslot d VNone = VNone.
Proof.
  intros H. destruct (same_group_oneof g d H) as [g' Hg']. unfold nslot, norm_slot_with. rewrite Hg'. reflexivity.
Qed.

(* a group other than the one being set keeps its count *)
Lemma count_set_other v g g' i : forall ds cur j,
  g <> Some g' ->
  (forall d, (j <= i)%nat -> nth_error ds (i - j) = Some d -> same_group (Some g') d = false) ->
  group_count ds (norm_fields ds (set_slot_go ds g i j v cur)) g' = group_count ds (norm_fields ds cur) g'.
Proof.
  induction ds as [|d ds IH]; intros [|c cur] j Hg Hd; cbn [set_slot_go norm_fields]; try reflexivity.
  rewrite !group_count_cons. f_equal.
  - destruct (Nat.eqb_spec j i) as [->|Hne].
    + rewrite (Hd d); [reflexivity|lia|]. rewrite Nat.sub_diag. reflexivity.
    + destruct (same_group g d) eqn:Es; [|reflexivity].
      assert (E : same_group (Some g') d = false).
      { unfold same_group in *. destruct g as [g0|]; [|discriminate]. destruct (fcd d); try discriminate.
        apply N.eqb_eq in Es. subst. apply N.eqb_neq. intros ->. apply Hg. reflexivity. }
      rewrite E. reflexivity.
  - apply IH; [exact Hg|]. intros d' Hle Hn. apply (Hd d'); [lia|].
    replace (i - j)%nat with (S (i - S j)) by lia. exact Hn.
Qed.

(* the group being set: nothing but the slot itself can be selected *)
Lemma count_set_past v g0 i : forall ds cur j, (i < j)%nat ->
  group_count ds (norm_fields ds (set_slot_go ds (Some g0) i j v cur)) g0 = 0%nat.
Proof.
  induction ds as [|d ds IH]; intros [|c cur] j Hj; cbn [set_slot_go norm_fields]; try apply group_count_nil_r; try reflexivity.
  rewrite group_count_cons. destruct (Nat.eqb_spec j i); [lia|].
  rewrite IH by lia.
  destruct (same_group (Some g0) d) eqn:Es; [|reflexivity].
  rewrite (nslot_none_of_group d (Some g0) Es). reflexivity.
Qed.

Lemma count_set_same v g0 i : forall ds cur j,
  (group_count ds (norm_fields ds (set_slot_go ds (Some g0) i j v cur)) g0 <= 1)%nat.
Proof.
  induction ds as [|d ds IH]; intros [|c cur] j; cbn [set_slot_go norm_fields];
    try (rewrite group_count_nil_r; lia); try (unfold group_count; cbn; lia).
  rewrite group_count_cons. destruct (Nat.eqb_spec j i) as [->|Hne].
  - rewrite count_set_past by lia. destruct (same_group (Some g0) d && is_some (nslot d v)); lia.
  - specialize (IH cur (S j)).
    destruct (same_group (Some g0) d) eqn:Es; [|cbn [andb]; lia].
    rewrite (nslot_none_of_group d (Some g0) Es). cbn [is_some andb]. lia.
Qed.

Lemma groups_set_slot ds cur i di v :
  groups_ok ds (norm_fields ds cur) = true -> nth_error ds i = Some di ->
  groups_ok ds (norm_fields ds (set_slot ds (group_of di) i v cur)) = true.
Proof.
  unfold groups_ok, set_slot. rewrite !forallb_forall. intros H Hn d' Hin. specialize (H d' Hin).
  destruct (fcd d') as [|g'| |] eqn:Ed; try reflexivity.
  apply Nat.leb_le. apply Nat.leb_le in H.
  destruct (group_of di) as [g0|] eqn:Eg.
  - destruct (N.eqb_spec g0 g') as [->|Hne].
    + apply count_set_same.
    + rewrite count_set_other; [exact H|congruence|].
      intros d Hle Hd. rewrite Nat.sub_0_r in Hd. rewrite Hn in Hd. inversion Hd; subst d.
      unfold group_of in Eg. unfold same_group. destruct (fcd di); try discriminate Eg.
      inversion Eg; subst. apply N.eqb_neq. congruence.
  - rewrite count_set_other; [exact H|discriminate|].
    intros d Hle Hd. rewrite Nat.sub_0_r in Hd. rewrite Hn in Hd. inversion Hd; subst d.
    unfold group_of in Eg. unfold same_group. destruct (fcd di); try reflexivity. discriminate Eg.
Qed.

Lemma G_set_slot ds cur i di v :
  G ds cur -> nth_error ds i = Some di -> gs di v -> G ds (set_slot ds (group_of di) i v cur).
Proof.
  intros [Hc Hg] Hn Hv. split.
  - unfold set_slot. apply canon_set_slot_go; [exact Hc|].
    intros d _ Hd. rewrite Nat.sub_0_r in Hd. rewrite Hn in Hd. inversion Hd; subst. exact Hv.
  - apply groups_set_slot; assumption.
Qed.
End Inv.

(* ---------------------------------------------------------------------------------------------
   good slots, one lemma per shape *)
Section Good.
Variable Sc : schema.

Ltac open_gs Hcd Hty :=
  unfold gs, nslot, norm_slot_with, canon_slot, canon_slot_with; rewrite ?Hcd, ?Hty.

Lemma gs_opt_scalar d k x : fcd d = COpt -> fty d = TScalar k -> in_range k x = true -> gs Sc d (VInt x).
Proof.
  intros Hcd Hty Hr. open_gs Hcd Hty.
  destruct k; cbn [canon_val canon_scalar]; try exact Hr.
  destruct (N.eqb_spec x two63) as [->|Hne]; [reflexivity|].
  cbn [canon_val]. unfold canon_scalar. rewrite Hr. apply N.eqb_neq in Hne. rewrite Hne. reflexivity.
Qed.

Lemma gs_oneof_scalar d g k x : fcd d = COneof g -> fty d = TScalar k -> in_range k x = true -> gs Sc d (VSome (VInt x)).
Proof. intros Hcd Hty Hr. open_gs Hcd Hty. cbn [norm_val canon_val canon_scalar]. rewrite ?Hty. exact Hr. Qed.

Lemma gs_opt_bytes d p : fcd d = COpt -> fty d = TBytes \/ fty d = TStr -> gs Sc d (VBytes p).
Proof. intros Hcd [Hty|Hty]; open_gs Hcd Hty; rewrite ?Hcd, ?Hty; reflexivity. Qed.

Lemma gs_oneof_bytes d g p : fcd d = COneof g -> fty d = TBytes \/ fty d = TStr -> gs Sc d (VSome (VBytes p)).
Proof. intros Hcd [Hty|Hty]; open_gs Hcd Hty; cbn [norm_val canon_val]; rewrite ?Hty; reflexivity. Qed.

Lemma gs_opt_id d n p : fcd d = COpt -> fty d = TId n ->
  (blen p =? 0) || ((blen p =? n) && negb (all_zero p)) = true -> gs Sc d (VBytes p).
Proof. intros Hcd Hty H. open_gs Hcd Hty. rewrite ?Hcd, ?Hty. cbn [canon_val]. exact H. Qed.

Lemma gs_opt_msg d m fs : fcd d = COpt -> fty d = TMsg m ->
  (gs Sc d (VMsg fs) <-> G Sc (mfields (msg Sc m)) fs).
Proof.
  intros Hcd Hty. rewrite G_canon. open_gs Hcd Hty.
  destruct (norm_msg_head Sc (TMsg m) fs) as [fs' E]. rewrite E. rewrite ?Hcd, ?Hty. reflexivity.
Qed.

Lemma gs_oneof_msg d g m fs : fcd d = COneof g -> fty d = TMsg m ->
  G Sc (mfields (msg Sc m)) fs -> gs Sc d (VSome (VMsg fs)).
Proof.
  intros Hcd Hty HG. apply G_canon in HG. open_gs Hcd Hty.
  destruct (norm_msg_head Sc (TMsg m) fs) as [fs' E]. rewrite E in *. rewrite ?Hty. exact HG.
Qed.

Definition elem_ok (d : fdesc) (x : pv) : Prop :=
  match fty d, x with
  | TBytes, VBytes _ | TStr, VBytes _ => True
  | TMsg m, VMsg fs => G Sc (mfields (msg Sc m)) fs
  | _, _ => False
  end.

Lemma gs_rep_app d xs x : fcd d = CRep -> gs Sc d (VRep xs) -> elem_ok d x -> gs Sc d (VRep (xs ++ [x])).
Proof.
  intros Hcd Hold Hx. unfold gs, nslot, norm_slot_with, canon_slot, canon_slot_with in *. rewrite Hcd in *.
  rewrite map_app, forallb_app, Hold. cbn [map forallb andb]. rewrite andb_true_r.
  unfold elem_ok in Hx. destruct (fty d) as [k| | |n|m] eqn:Hty; destruct x as [n'|b|fs|vs| |y]; try contradiction; try reflexivity.
  apply G_canon in Hx. destruct (norm_msg_head Sc (TMsg m) fs) as [fs' E]. rewrite E in *. exact Hx.
Qed.

Lemma gs_packed_app d k xs ys : fcd d = CPacked -> fty d = TScalar k -> gs Sc d (VRep xs) ->
  forallb (fun x => match x with VInt n => in_range k n | _ => false end) ys = true ->
  gs Sc d (VRep (xs ++ ys)).
Proof.
  intros Hcd Hty Hold Hy. unfold gs, nslot, norm_slot_with, canon_slot, canon_slot_with in *. rewrite Hcd, Hty in *.
  rewrite forallb_app, Hold. cbn [andb].
  rewrite forallb_forall in *. intros x Hx. specialize (Hy x Hx). destruct x; try discriminate Hy. exact Hy.
Qed.
End Good.

(* ---------------------------------------------------------------------------------------------
   the decoder preserves the invariant *)
Section Dec.
Variable Sc : schema.
Hypothesis Hwf : wf_schema Sc = true.

Lemma rep_default_good d : fcd d = CRep \/ fcd d = CPacked -> gs Sc d (VRep []).
Proof.
  intros [H|H]; unfold gs, nslot, norm_slot_with, canon_slot, canon_slot_with; rewrite H; reflexivity.
Qed.

Lemma dec_slot_good rec d old wt r v' r' :
  field_ok Sc d ->
  gs Sc d old ->
  (forall m, G Sc (mfields (msg Sc m)) (mdefault (msg Sc m))) ->
  (forall m c p fs, rec m c p = Some fs -> G Sc (mfields (msg Sc m)) c -> G Sc (mfields (msg Sc m)) fs) ->
  dec_slot Sc rec d old wt r = Some (v', r') -> gs Sc d v'.
Proof.
  intros (Hct & Hfn & Htm) Hold Gdef Hrec H. unfold dec_slot in H.
  destruct (fcd d) as [|g| |] eqn:Hcd; destruct (fty d) as [k| | |n|m] eqn:Hty; try discriminate H.
  - (* COpt scalar *)
    destruct (wt =? wire_of k); [|discriminate].
    destruct (read_scalar k r) as [[x r0]|] eqn:E; [|discriminate]. inversion H; subst.
    apply (gs_opt_scalar Sc d k x Hcd Hty). eapply read_scalar_good; eauto.
  - destruct (wt =? 2); [|discriminate]. destruct (read_ld r) as [[p r0]|]; [|discriminate]. inversion H; subst.
    apply gs_opt_bytes; auto.
  - destruct (wt =? 2); [|discriminate]. destruct (read_ld r) as [[p r0]|]; [|discriminate]. inversion H; subst.
    apply gs_opt_bytes; auto.
  - (* id *)
    destruct (wt =? 2); [|discriminate]. destruct (read_ld r) as [[p r0]|]; [|discriminate].
    destruct (N.eqb_spec (blen p) 0) as [E0|E0].
    + inversion H; subst. apply (gs_opt_id Sc d n [] Hcd Hty). reflexivity.
    + destruct (N.eqb_spec (blen p) n) as [En|En]; [|discriminate]. inversion H; subst.
      apply (gs_opt_id Sc d (blen p) _ Hcd Hty).
      destruct (all_zero p) eqn:Ez; [reflexivity|].
      rewrite N.eqb_refl, Ez. destruct (blen p =? 0); reflexivity.
  - (* COpt message: merge *)
    destruct (wt =? 2); [|discriminate]. destruct (read_ld r) as [[p r0]|]; [|discriminate].
    destruct old as [| |cur| | |]; try discriminate H.
    destruct (rec m cur p) as [fs|] eqn:E; [|discriminate]. inversion H; subst.
    apply (gs_opt_msg Sc d m fs Hcd Hty). apply (Hrec m cur p fs E).
    apply (gs_opt_msg Sc d m cur Hcd Hty). exact Hold.
  - (* COneof scalar *)
    destruct (wt =? wire_of k); [|discriminate].
    destruct (read_scalar k r) as [[x r0]|] eqn:E; [|discriminate]. inversion H; subst.
    apply (gs_oneof_scalar Sc d g k x Hcd Hty). eapply read_scalar_good; eauto.
  - destruct (wt =? 2); [|discriminate]. destruct (read_ld r) as [[p r0]|]; [|discriminate]. inversion H; subst.
    eapply gs_oneof_bytes; eauto.
  - destruct (wt =? 2); [|discriminate]. destruct (read_ld r) as [[p r0]|]; [|discriminate]. inversion H; subst.
    eapply gs_oneof_bytes; eauto.
  - (* COneof message *)
    destruct (wt =? 2); [|discriminate]. destruct (read_ld r) as [[p r0]|]; [|discriminate].
    destruct (rec m (mdefault (msg Sc m)) p) as [fs|] eqn:E; [|discriminate]. inversion H; subst.
    apply (gs_oneof_msg Sc d g m fs Hcd Hty). apply (Hrec m _ p fs E). apply Gdef.
  - (* CRep bytes *)
    destruct (wt =? 2); [|discriminate]. destruct (read_ld r) as [[p r0]|]; [|discriminate].
    destruct old as [| | |xs| |]; try discriminate H. inversion H; subst.
    apply gs_rep_app; auto. unfold elem_ok. rewrite Hty. exact I.
  - destruct (wt =? 2); [|discriminate]. destruct (read_ld r) as [[p r0]|]; [|discriminate].
    destruct old as [| | |xs| |]; try discriminate H. inversion H; subst.
    apply gs_rep_app; auto. unfold elem_ok. rewrite Hty. exact I.
  - (* CRep message *)
    destruct (wt =? 2); [|discriminate]. destruct (read_ld r) as [[p r0]|]; [|discriminate].
    destruct old as [| | |xs| |]; try discriminate H.
    destruct (rec m (mdefault (msg Sc m)) p) as [fs|] eqn:E; [|discriminate]. inversion H; subst.
    apply gs_rep_app; auto. unfold elem_ok. rewrite Hty. apply (Hrec m _ p fs E). apply Gdef.
  - (* CPacked *)
    destruct old as [| | |xs| |]; try discriminate H.
    destruct (wt =? wire_of k).
    + destruct (read_scalar k r) as [[x r0]|] eqn:E; [|discriminate]. inversion H; subst.
      apply (gs_packed_app Sc d k xs [VInt x] Hcd Hty Hold). cbn [forallb].
      rewrite (read_scalar_good _ _ _ _ E). reflexivity.
    + destruct (wt =? 2); [|discriminate].
      destruct (read_varint r) as [[len r1]|]; [|discriminate].
      destruct (len <=? blen r1); [|discriminate].
      destruct (read_packed k (length r1) len r1) as [[ys r2]|] eqn:E; [|discriminate]. inversion H; subst.
      apply (gs_packed_app Sc d k xs ys Hcd Hty Hold). eapply read_packed_good; eauto.
Qed.

(* the default of every message is good (induction over the default value itself) *)
Lemma group_count_defaults g : forall ds,
  group_count ds (norm_fields Sc ds (map (default_slot Sc) ds)) g = 0%nat.
Proof.
  induction ds as [|d ds IH]; [reflexivity|]. cbn [map norm_fields]. rewrite group_count_cons, IH.
  unfold nslot, norm_slot_with, default_slot.
  destruct (fcd d) eqn:Hcd; try (rewrite andb_false_r; reflexivity);
    destruct (fty d); try (destruct k); try (rewrite andb_false_r; reflexivity);
    match goal with |- context [is_some ?x] => assert (E : is_some x = false) by (destruct x; try reflexivity; cbn [norm_val]; destruct (nth m Sc _); reflexivity); rewrite E, andb_false_r; reflexivity end.
Qed.
End Dec.

Section Final.
Variable Sc : schema.
Hypothesis Hwf : wf_schema Sc = true.

Definition DP (v : pv) : Prop :=
  forall m, v = VMsg (mdefault (msg Sc m)) -> G Sc (mfields (msg Sc m)) (mdefault (msg Sc m)).

Lemma gs_default d :
  (forall m', fty d = TMsg m' -> fcd d = COpt -> G Sc (mfields (msg Sc m')) (mdefault (msg Sc m'))) ->
  gs Sc d (default_slot Sc d).
Proof.
  intros Hm. unfold default_slot.
  destruct (fcd d) as [|g| |] eqn:Hcd.
  - destruct (fty d) as [k| | |n|m'] eqn:Hty.
    + apply (gs_opt_scalar Sc d k 0 Hcd Hty). apply in_range_zero.
    + apply gs_opt_bytes; auto.
    + apply gs_opt_bytes; auto.
    + apply (gs_opt_id Sc d n [] Hcd Hty). reflexivity.
    + apply (gs_opt_msg Sc d m' _ Hcd Hty). apply Hm; reflexivity.
  - apply (gs_none Sc d g Hcd).
  - apply rep_default_good. auto.
  - apply rep_default_good. auto.
Qed.

Lemma default_good_aux v : DP v.
Proof.
  induction v as [n|b|fs IH|vs IH| |v IH] using pv_ind'; intros m E; try discriminate E.
  inversion E as [E']. clear E.
  pose proof (msg_default Sc Hwf m) as Hd.
  split.
  - rewrite Hd. rewrite Hd in E'. subst fs.
    generalize dependent (mfields (msg Sc m)). intros ds IH _.
    induction ds as [|d ds IHds]; [reflexivity|].
    cbn [map norm_fields canon_fields]. inversion IH as [|? ? Hhead Htail]; subst.
    apply andb_true_iff. split; [|apply IHds; exact Htail].
    apply gs_default. intros m' Hty Hcd.
    apply (Hhead m'). unfold default_slot. rewrite Hcd, Hty. reflexivity.
  - rewrite Hd. unfold groups_ok. apply forallb_forall. intros d _.
    destruct (fcd d); try reflexivity. rewrite group_count_defaults. reflexivity.
Qed.

Lemma default_good m : G Sc (mfields (msg Sc m)) (mdefault (msg Sc m)).
Proof. apply (default_good_aux (VMsg (mdefault (msg Sc m))) m eq_refl). Qed.

Lemma dec_fields_good : forall fuel m cur b fs,
  G Sc (mfields (msg Sc m)) cur ->
  dec_fields Sc fuel (mfields (msg Sc m)) cur b = Some fs ->
  G Sc (mfields (msg Sc m)) fs.
Proof.
  induction fuel as [|fuel IH]; intros m cur b fs HG H.
  - destruct b; cbn [dec_fields] in H; [inversion H; subst; exact HG|discriminate].
  - destruct b as [|x b]; [cbn [dec_fields] in H; inversion H; subst; exact HG|].
    cbn [dec_fields] in H.
    destruct (read_varint (x :: b)) as [[w r]|]; [|discriminate].
    destruct (w mod 8 =? 4); [discriminate|].
    destruct (fieldnum_of w) as [fn|]; [|discriminate].
    destruct (find_field (mfields (msg Sc m)) fn 0) as [[i d]|] eqn:Ef.
    + match type of H with match ?e with _ => _ end = _ => destruct e as [[v' r']|] eqn:Es; [|discriminate] end.
      apply IH in H; [exact H|].
      destruct (find_field_nth_error fn _ _ _ _ Ef) as [_ Hn]. rewrite Nat.sub_0_r in Hn.
      apply G_set_slot; [exact HG|exact Hn|].
      eapply dec_slot_good; [| | |  |exact Es].
      * pose proof (msg_fields_ok Sc Hwf m) as HF. rewrite Forall_forall in HF. apply HF.
        eapply nth_error_In; eauto.
      * apply (canon_nth Sc (mfields (msg Sc m)) cur i d); [apply HG|exact Hn].
      * apply default_good.
      * intros m' c p fs' Hr Hc. exact (IH m' c p fs' Hc Hr).
    + destruct (skip_field (x :: b)) as [r'|]; [|discriminate]. eapply IH; eauto.
Qed.

Theorem decode_canonical_l m b v :
  decode Sc m b = Some v -> canonical Sc m (norm Sc m v) = true.
Proof.
  unfold decode, canonical, norm. intros H.
  destruct (dec_fields Sc (length b) (mfields (msg Sc m)) (mdefault (msg Sc m)) b) as [fs|] eqn:E; [|discriminate].
  inversion H; subst. apply G_canon. eapply dec_fields_good; [apply default_good|exact E].
Qed.

(* whatever decodes re-encodes to a fixed point of Unmarshal;Marshal *)
Theorem proto_decode_fixpoint_l m b v :
  decode Sc m b = Some v -> size Sc m v < two64 ->
  exists v', decode Sc m (encode Sc m v) = Some v' /\ encode Sc m v' = encode Sc m v.
Proof.
  intros H Hs. eapply decode_fixpoint_l; eauto. eapply decode_canonical_l; eauto.
Qed.
End Final.
