(* C08/T1Tie.v — obligations tying hand-written pieces of the model to what translator T1
   (tools/go2coq, Generated/C08T1.v) reads from the CURRENT Go source:
     * varint_size  =  every generated sovX  (10 copies, one per *.pb.go), given math/bits.Len64;
     * the id lengths of the schema  =  TraceID.Size / SpanID.Size / ProfileID.Size;
     * the enum values observed by running String()  =  the typed constants of the enum types. *)
From Verif Require Import Common.Base C08.Model C08.Json C08.Proofs1.
From Verif Require Import Generated.OtlpProto Generated.C08JsonDecoders Generated.C08T1.
From Coq Require Import Strings.String.
Require Import ZifyBool ZifyNat ZifyN.
Ltac Zify.zify_post_hook ::= Z.to_euclidean_division_equations.
Local Open Scope N_scope.

(* ---- sovX ---- *)
Lemma lor1 n : N.lor n 1 = if N.even n then n + 1 else n.
Proof. destruct n as [|[q|q|]]; reflexivity. Qed.

Lemma lor1_bounds n j : 1 <= j -> n < 2 ^ j -> 1 <= N.lor n 1 /\ n <= N.lor n 1 /\ N.lor n 1 < 2 ^ j.
Proof.
  intros Hj Hn. rewrite lor1. destruct (N.even n) eqn:E; [|apply Bool.negb_true_iff in E; rewrite N.negb_even in E;
    apply N.odd_spec in E; destruct E as [k ->]; lia].
  apply N.even_spec in E. destruct E as [k ->].
  replace j with (N.succ (j - 1)) in * by lia. rewrite N.pow_succ_r' in *. lia.
Qed.

(* bits.Len64 of a non-zero x is N.size x: 2^(size-1) <= x < 2^size *)
Lemma size_band n a b : 2 ^ a <= n -> n < 2 ^ b -> a < N.size n /\ N.size n <= b.
Proof.
  intros Ha Hb. pose proof (N.size_gt n) as Hg. pose proof (N.size_le n) as Hl.
  split.
  - apply (N.pow_lt_mono_r_iff 2); [lia|]. lia.
  - assert (H : 2 ^ N.size n < 2 ^ N.succ b) by (rewrite N.pow_succ_r'; unfold N.succ_double in *; destruct n; lia).
    apply (N.pow_lt_mono_r_iff 2) in H; lia.
Qed.

Definition sov_spec (sov : Z -> Z -> Z) : Prop :=
  forall x, x < two64 -> sov (Z.of_N x) (Z.of_N (N.size (N.lor x 1))) = Z.of_N (varint_size x).

Lemma sov_generic x : x < two64 ->
  Z.quot (Z.of_N (N.size (N.lor x 1)) + 6) 7 = Z.of_N (varint_size x).
Proof.
  intros Hx. rewrite Z.quot_div_nonneg by lia.
  unfold varint_size.
  Ltac band x a b :=
    let H := fresh in
    destruct (lor1_bounds x b) as (? & ? & ?); [lia|assumption|];
    pose proof (size_band (N.lor x 1) a b) as H;
    change (2 ^ a) with (2 ^ a) in H.
  destruct (N.ltb_spec x 128) as [H1|H1].
  { destruct (lor1_bounds x 7) as (A & B & C); [lia|exact H1|].
    destruct (size_band (N.lor x 1) 0 7) as [P Q]; [cbn; lia|exact C|]. lia. }
  Ltac step x lo hi Hprev Hcur :=
    destruct (lor1_bounds x hi) as (?A & ?B & ?C); [lia|exact Hcur|];
    destruct (size_band (N.lor x 1) lo hi) as [?P ?Q]; [lia|assumption|]; lia.
  destruct (N.ltb_spec x 16384) as [H2|H2]; [change 16384 with (2 ^ 14) in H2; change 128 with (2 ^ 7) in H1; step x 7 14 H1 H2|].
  destruct (N.ltb_spec x 2097152) as [H3|H3]; [change 2097152 with (2 ^ 21) in H3; change 16384 with (2 ^ 14) in H2; step x 14 21 H2 H3|].
  destruct (N.ltb_spec x 268435456) as [H4|H4]; [change 268435456 with (2 ^ 28) in H4; change 2097152 with (2 ^ 21) in H3; step x 21 28 H3 H4|].
  destruct (N.ltb_spec x 34359738368) as [H5|H5]; [change 34359738368 with (2 ^ 35) in H5; change 268435456 with (2 ^ 28) in H4; step x 28 35 H4 H5|].
  destruct (N.ltb_spec x 4398046511104) as [H6|H6]; [change 4398046511104 with (2 ^ 42) in H6; change 34359738368 with (2 ^ 35) in H5; step x 35 42 H5 H6|].
  destruct (N.ltb_spec x 562949953421312) as [H7|H7]; [change 562949953421312 with (2 ^ 49) in H7; change 4398046511104 with (2 ^ 42) in H6; step x 42 49 H6 H7|].
  destruct (N.ltb_spec x 72057594037927936) as [H8|H8]; [change 72057594037927936 with (2 ^ 56) in H8; change 562949953421312 with (2 ^ 49) in H7; step x 49 56 H7 H8|].
  destruct (N.ltb_spec x 9223372036854775808) as [H9|H9]; [change 9223372036854775808 with (2 ^ 63) in H9; change 72057594037927936 with (2 ^ 56) in H8; step x 56 63 H8 H9|].
  change 9223372036854775808 with (2 ^ 63) in H9. unfold two64 in Hx. change 18446744073709551616 with (2 ^ 64) in Hx.
  step x 63 64 H9 Hx.
Qed.

Theorem t1_sov_all :
  sov_spec sovCommon /\ sov_spec sovResource /\ sov_spec sovLogs /\ sov_spec sovMetrics /\ sov_spec sovTrace
  /\ sov_spec sovProfiles /\ sov_spec sovLogsService /\ sov_spec sovMetricsService /\ sov_spec sovTraceService
  /\ sov_spec sovProfilesService.
Proof. repeat split; intros x Hx; apply sov_generic; exact Hx. Qed.

(* ---- id lengths ---- *)
Definition id_size_of_name (s : String.string) : option Z :=
  if String.eqb s "trace_id"%string then Some (TraceID_Size false)
  else if String.eqb s "span_id"%string then Some (SpanID_Size false)
  else if String.eqb s "parent_span_id"%string then Some (SpanID_Size false)
  else if String.eqb s "profile_id"%string then Some (ProfileID_Size false)
  else None.

Definition id_fields_ok : bool :=
  forallb (fun md => forallb (fun d => match fty d with
                                        | TId n => match id_size_of_name (forig d) with
                                                   | Some z => (Z.of_N n =? z)%Z
                                                   | None => false
                                                   end
                                        | _ => true
                                        end) (mfields md)) OtlpSchema.

(* every id field of the schema has the length that XID.Size() reports for a non-empty id, and an
   empty (all-zero) id has size 0 — which is what Model.enc_slot emits for VBytes [] *)
Theorem t1_id_lengths :
  id_fields_ok = true /\ TraceID_Size true = 0%Z /\ SpanID_Size true = 0%Z /\ ProfileID_Size true = 0%Z.
Proof. repeat split; vm_compute; reflexivity. Qed.

(* ---- enum values ---- *)
Definition enum_table : list (nat * N * list Z) :=
  [ (m_logs_v1_LogRecord, 2%N, all_SeverityNumber);
    (m_metrics_v1_Sum, 2%N, all_metrics_AggregationTemporality);
    (m_metrics_v1_Histogram, 2%N, all_metrics_AggregationTemporality);
    (m_metrics_v1_ExponentialHistogram, 2%N, all_metrics_AggregationTemporality);
    (m_trace_v1_Span, 6%N, all_Span_SpanKind);
    (m_trace_v1_Status, 3%N, all_Status_StatusCode);
    (m_profiles_v1development_ValueType, 3%N, all_profiles_AggregationTemporality) ].

Definition enum_values_ok : bool :=
  (List.length OtlpEnums =? List.length enum_table)%nat &&
  forallb (fun e => let '(m, fn, l) := e in
                    list_eqb Z.eqb (map (fun p => sgn64 (snd p)) (enum_names OtlpEnums m fn)) l) enum_table.

(* the (name, value) pairs the harness observed by running String() on the enum types carry exactly
   the values of the typed constants in the source, for every enum field of the schema *)
Theorem t1_enum_values : enum_values_ok = true.
Proof. vm_compute. reflexivity. Qed.

(* every enum field of the schema is in the table *)
Definition enum_fields_listed : bool :=
  forallb (fun i => forallb (fun d => match fty d with
                                      | TScalar SEnum => existsb (fun e => let '(m, fn, _) := e in (m =? i)%nat && (fn =? fnum d)%N) enum_table
                                      | _ => true end) (mfields (msg OtlpSchema i)))
          (seq 0 (List.length OtlpSchema)).
Theorem t1_enum_fields_listed : enum_fields_listed = true.
Proof. vm_compute. reflexivity. Qed.
