(* C08/Repaired.v — the REPAIRED behaviour proposed for the open findings, next to the faithful model
   (Model.v / Json.v stay faithful to the code as it is).  See props/C08/NOTES.md, "Repair designs". *)
From Verif Require Import Common.Base C08.Model C08.Json C08.Proofs Generated.OtlpProto Generated.C08JsonDecoders.
From Coq Require Import Strings.String.
From Coq Require Strings.Ascii.
Local Open Scope N_scope.

(* The EMPTYBYTES and INVALIDUTF8 repairs are committed to /repo (ee4467fcf, b22255f47): their repaired
   behaviour IS the model now (Json.unmarshal_json, Properties.api_empty_bytes_roundtrip). *)

(* =============================================================================================
   C08-NEGZERO / C08-NEGZERO-JSON — NO repair is proposed (see NOTES.md): the only thing that drops -0.0
   is the emission guard `!= 0` of the gogo-generated Marshal/Size (and the `== 0` test of the third-party
   jsonpb marshaler); the wire codec itself carries -0.0 exactly.  A bit-pattern guard would be: *)
Definition is_zero_repaired (k : skind) (n : N) : bool := n =? 0.

Theorem negzero_only_the_guard r :
  is_zero SDouble two63 = true /\ is_zero_repaired SDouble two63 = false
  /\ read_scalar SDouble (enc_scalar SDouble two63 ++ r) = Some (two63, r).
Proof. repeat split; try reflexivity; apply scalar_roundtrip_l; reflexivity. Qed.
