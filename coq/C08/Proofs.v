(* C08/Proofs.v — umbrella: re-exports the lemma files and proves the instance obligations over
   the schema that is regenerated from the current tree on every run (Generated/OtlpProto.v). *)
From Verif Require Export Common.Base C08.Model C08.Proofs1 C08.Proofs2 C08.Proofs3 C08.Proofs4 C08.Proofs5 C08.Proofs6 C08.Proofs7 C08.Json C08.Proofs8 C08.Proofs9 C08.Proofs10 C08.Proofs11 C08.Proofs12 C08.Proofs14 C08.Proofs15 C08.T1Tie.
From Verif Require Import Generated.OtlpProto Generated.C08JsonDecoders.
Local Open Scope N_scope.

Lemma otlp_schema_wf_l : wf_schema OtlpSchema = true.
Proof. vm_compute. reflexivity. Qed.

(* the export-request wrapper of a signal and the signal's XData message have the same field
   list and default, hence the same codec *)
Lemma same_layout_codec (S : schema) m1 m2 :
  mfields (msg S m1) = mfields (msg S m2) -> mdefault (msg S m1) = mdefault (msg S m2) ->
  forall v b, encode S m1 v = encode S m2 v /\ size S m1 v = size S m2 v /\ decode S m1 b = decode S m2 b.
Proof.
  intros Hf Hd v b. rewrite !proto_size_l.
  assert (E : encode S m1 v = encode S m2 v).
  { unfold encode. destruct v; try reflexivity. rewrite !enc_val_msg, Hf. reflexivity. }
  split; [exact E|]. split; [rewrite E; reflexivity|].
  unfold decode. rewrite Hf, Hd. reflexivity.
Qed.

Definition wrapper_pairs : list (nat * nat) :=
  [ (m_collector_logs_v1_ExportLogsServiceRequest, m_logs_v1_LogsData);
    (m_collector_metrics_v1_ExportMetricsServiceRequest, m_metrics_v1_MetricsData);
    (m_collector_trace_v1_ExportTraceServiceRequest, m_trace_v1_TracesData);
    (m_collector_profiles_v1development_ExportProfilesServiceRequest, m_profiles_v1development_ProfilesData) ].

Lemma wrappers_l : forall p, In p wrapper_pairs ->
  forall v b, encode OtlpSchema (fst p) v = encode OtlpSchema (snd p) v
              /\ size OtlpSchema (fst p) v = size OtlpSchema (snd p) v
              /\ decode OtlpSchema (fst p) b = decode OtlpSchema (snd p) b.
Proof.
  intros p Hp. apply same_layout_codec;
    repeat (destruct Hp as [<-|Hp]; [reflexivity|]); destruct Hp.
Qed.

(* the two recorded losses of the protobuf round trip, as witnesses on the real schema *)
Definition negzero_witness : pv := VMsg [VInt two63; VInt 0].
Definition emptybytes_witness : pv := VMsg [VNone; VNone; VNone; VNone; VNone; VNone; VSome VNone].

Lemma proto_roundtrip_refuted_l :
  exists m v, canonical OtlpSchema m (norm OtlpSchema m v) = true
              /\ decode OtlpSchema m (encode OtlpSchema m v) <> Some v.
Proof.
  exists m_metrics_v1_SummaryDataPoint_ValueAtQuantile, negzero_witness.
  split; [vm_compute; reflexivity|vm_compute; discriminate].
Qed.

Lemma proto_roundtrip_refuted_emptybytes_l :
  canonical OtlpSchema m_common_v1_AnyValue (norm OtlpSchema m_common_v1_AnyValue emptybytes_witness) = true
  /\ decode OtlpSchema m_common_v1_AnyValue (encode OtlpSchema m_common_v1_AnyValue emptybytes_witness)
     = Some (VMsg [VNone; VNone; VNone; VNone; VNone; VNone; VNone]).
Proof. split; vm_compute; reflexivity. Qed.

(* ---- JSON instance obligations (decoder table regenerated from the running decoders) ---- *)
(* FULL coverage: every field of every message reachable from the four request roots (deprecated
   field 1000 excepted: it has no JSON form) has a decoder entry under both spellings of its key
   with the readers the property demands.  Dropping or breaking any decoder case makes this fail;
   `uncovered` then names the (message, field) pairs. *)
Lemma otlp_json_uncovered_l : uncovered OtlpSchema OtlpJsonDecoders OtlpJsonReachable = [].
Proof. vm_compute. reflexivity. Qed.

Lemma otlp_json_covers_l : covers OtlpSchema OtlpJsonDecoders OtlpJsonReachable = true.
Proof. vm_compute. reflexivity. Qed.

(* every 64-bit integer field of every reachable message is read by a dual (number | string) reader
   under both spellings of its key; every enum field accepts number | name *)
Definition dual64_ok : bool :=
  forallb (fun m => forallb (fun d => match fty d with
                                      | TScalar k => negb (is64 k) || (fnum d =? 1000) || fcovered OtlpJsonDecoders m d
                                      | _ => true end) (mfields (msg OtlpSchema m))) OtlpJsonReachable.
Definition enums_uncovered : list (nat * N) :=
  flat_map (fun m => map (fun d => (m, fnum d))
                         (filter (fun d => match fty d with TScalar SEnum => negb (fcovered OtlpJsonDecoders m d) | _ => false end)
                                 (mfields (msg OtlpSchema m)))) OtlpJsonReachable.

Lemma otlp_dual64_l : dual64_ok = true.
Proof. vm_compute. reflexivity. Qed.
Lemma otlp_enums_l : enums_uncovered = [].
Proof. vm_compute. reflexivity. Qed.

Definition with_field (m : nat) (fn : N) (x : pv) : pv :=
  match slot_index (mfields (msg OtlpSchema m)) fn with
  | Some i => VMsg (upd i x (mdefault (msg OtlpSchema m)))
  | None => VNone
  end.

Definition payload_witness : pv := with_field m_profiles_v1development_Profile 21 (VBytes [1; 2]).



(* ---- the public decode paths on the real schema ---- *)
Definition request_roots : list nat :=
  [ m_collector_logs_v1_ExportLogsServiceRequest; m_collector_metrics_v1_ExportMetricsServiceRequest;
    m_collector_trace_v1_ExportTraceServiceRequest; m_collector_profiles_v1development_ExportProfilesServiceRequest ].

Lemma otlp_mig_ok_l : forallb (mig_ok OtlpSchema) request_roots = true.
Proof. vm_compute. reflexivity. Qed.

Lemma otlp_profiles_mig_none_l :
  mig_none OtlpSchema m_collector_profiles_v1development_ExportProfilesServiceRequest = true.
Proof. vm_compute. reflexivity. Qed.

Lemma otlp_migrate_clears_l m v : In m request_roots -> res_shaped OtlpSchema m v = true ->
  no_deprecated OtlpSchema m (migrate OtlpSchema m v) = true
  /\ migrate OtlpSchema m (migrate OtlpSchema m v) = migrate OtlpSchema m v.
Proof.
  intros Hin Hr. pose proof otlp_mig_ok_l as H. rewrite forallb_forall in H. specialize (H m Hin).
  split; [apply migrate_clears_l|apply migrate_idem_l]; auto; apply mig_ok_spec; exact H.
Qed.

(* after EVERY public protobuf decode path, on every byte string, no deprecated field is left *)
Lemma otlp_paths_clear_l p m b v : In m request_roots ->
  decode_path OtlpSchema p m b = Some v -> no_deprecated OtlpSchema m v = true.
Proof.
  intros Hin H. rewrite decode_path_is_migrate_l in H.
  destruct (decode OtlpSchema m b) as [d|] eqn:Hd; [|discriminate]. cbn [option_map] in H. inversion H; subst v.
  apply otlp_migrate_clears_l; [exact Hin|]. eapply (decode_res_shaped OtlpSchema otlp_schema_wf_l); eauto.
Qed.

Lemma otlp_profiles_paths_l p b :
  decode_path OtlpSchema p m_collector_profiles_v1development_ExportProfilesServiceRequest b
  = decode OtlpSchema m_collector_profiles_v1development_ExportProfilesServiceRequest b.
Proof.
  unfold decode_path. destruct (path_migrates p); [|reflexivity].
  destruct (decode OtlpSchema _ b) as [v|]; [|reflexivity]. cbn [option_map].
  rewrite (migrate_noop_l OtlpSchema _ (mig_none_spec OtlpSchema _ otlp_profiles_mig_none_l)). reflexivity.
Qed.

(* a legacy sender: one resource that only uses the deprecated scope field (1000) *)
Definition legacy_request (req res scope : nat) : pv :=
  with_field req 1 (VRep [with_field res 1000 (VRep [VMsg (mdefault (msg OtlpSchema scope))])]).
Definition legacy_witnesses : list (nat * pv) :=
  [ (m_collector_logs_v1_ExportLogsServiceRequest, legacy_request m_collector_logs_v1_ExportLogsServiceRequest m_logs_v1_ResourceLogs m_logs_v1_ScopeLogs);
    (m_collector_metrics_v1_ExportMetricsServiceRequest, legacy_request m_collector_metrics_v1_ExportMetricsServiceRequest m_metrics_v1_ResourceMetrics m_metrics_v1_ScopeMetrics);
    (m_collector_trace_v1_ExportTraceServiceRequest, legacy_request m_collector_trace_v1_ExportTraceServiceRequest m_trace_v1_ResourceSpans m_trace_v1_ScopeSpans) ].

(* on the bytes of a legacy sender every public path now yields the migrated payload: no deprecated
   field, the scopes in scope_*, and it survives JSON *)
Definition legacy_ok (w : nat * pv) : bool :=
  let m := fst w in let b := encode OtlpSchema m (snd w) in
  match decode OtlpSchema m b, decode_path OtlpSchema PProtoUnmarshaler m b with
  | Some raw, Some x =>
      negb (no_deprecated OtlpSchema m raw) && no_deprecated OtlpSchema m x && canonical OtlpSchema m x
      && option_eqb pv_eqb (of_json OtlpSchema OtlpJsonDecoders OtlpEnums m (to_json OtlpSchema m x)) (Some x)
  | _, _ => false
  end.
Lemma otlp_legacy_ok_l : forallb legacy_ok legacy_witnesses = true.
Proof. vm_compute. reflexivity. Qed.

(* ---- what the public API builds for an empty Bytes value (pcommon.NewValueBytes / Value.SetEmptyBytes):
   a oneof wrapper holding an EMPTY NON-NIL slice ---- *)
Definition api_empty_bytes : pv := VSome (VBytes []).
Definition any_with (x : pv) : pv := VMsg [VNone; VNone; VNone; VNone; VNone; VNone; x].

Lemma api_empty_bytes_canonical_l (S : schema) d g :
  fcd d = COneof g -> fty d = TBytes -> canon_slot S d api_empty_bytes = true.
Proof. intros Hc Ht. unfold canon_slot, canon_slot_with, api_empty_bytes. rewrite Hc, Ht. reflexivity. Qed.

Lemma api_empty_bytes_roundtrip_l :
  let m := m_common_v1_AnyValue in let w := any_with api_empty_bytes in
  canonical OtlpSchema m w = true
  /\ decode OtlpSchema m (encode OtlpSchema m w) = Some w
  /\ unmarshal_json OtlpSchema OtlpJsonDecoders OtlpEnums m (to_json OtlpSchema m w) = Some w
  /\ option_map (encode OtlpSchema m) (unmarshal_json OtlpSchema OtlpJsonDecoders OtlpEnums m (to_json OtlpSchema m w))
     = Some (encode OtlpSchema m w).
Proof. repeat split; vm_compute; reflexivity. Qed.

(* ---- the public JSON entry point ---- *)
Lemma unmarshal_json_spec_l (S : schema) D E m j :
  (jv_utf8 j = true -> unmarshal_json S D E m j = of_json S D E m j)
  /\ (jv_utf8 j = false -> unmarshal_json S D E m j = None).
Proof. unfold unmarshal_json. split; intros ->; reflexivity. Qed.
