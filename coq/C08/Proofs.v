(* C08/Proofs.v — lemmas (work in progress) *)
From Verif Require Import Common.Base C08.Model Generated.OtlpProto.
Local Open Scope N_scope.

Lemma otlp_schema_wf_l : wf_schema OtlpSchema = true.
Proof. vm_compute. reflexivity. Qed.
