(* C08/Proofs7.v — normalisation (what a protobuf round trip is known to change) does not change
   the encoding; round trip for values that are canonical only after normalisation; fixed point. *)
From Verif Require Import Common.Base C08.Model C08.Proofs1 C08.Proofs2 C08.Proofs3 C08.Proofs4 C08.Proofs5.
Require Import ZifyBool ZifyNat ZifyN.
Local Open Scope N_scope.

Section Norm.
Variable Sc : schema.

Definition nQ (v : pv) : Prop := forall t, enc_val Sc t (norm_val Sc t v) = enc_val Sc t v.

Lemma norm_val_msg m fs :
  norm_val Sc (TMsg m) (VMsg fs)
  = VMsg ((fix go (ds : list fdesc) (vs : list pv) {struct vs} : list pv :=
             match ds, vs with
             | d :: ds', v' :: vs' => norm_slot_with (norm_val Sc) d v' :: go ds' vs'
             | _, _ => vs
             end) (mfields (msg Sc m)) fs).
Proof. reflexivity. Qed.

Lemma norm_msg_head t fs : exists fs', norm_val Sc t (VMsg fs) = VMsg fs'.
Proof. destruct t; cbn [norm_val]; eauto. Qed.

Lemma norm_not_none t v : v <> VNone -> norm_val Sc t v <> VNone.
Proof. destruct v; cbn [norm_val]; try congruence. destruct t; congruence. Qed.

Lemma enc_one_norm d v : nQ v -> enc_one (enc_val Sc) d (norm_val Sc (fty d) v) = enc_one (enc_val Sc) d v.
Proof. intros H. unfold enc_one. destruct (fty d) eqn:E; rewrite <- E, H; reflexivity. Qed.

Lemma enc_slot_norm d v : deep nQ v -> enc_slot Sc d (norm_slot_with (norm_val Sc) d v) = enc_slot Sc d v.
Proof.
  intros [Hv Hsub]. unfold enc_slot, enc_slot_with, norm_slot_with.
  destruct (fcd d) eqn:Hcd.
  - destruct (fty d) as [k| | |n0|m] eqn:Hty; destruct v as [n|b|fs|vs| |v]; try reflexivity;
      try (destruct k; reflexivity).
    + destruct k; try reflexivity.
      destruct (N.eqb_spec n two63) as [->|Hne]; [|reflexivity]. reflexivity.
    + destruct (norm_msg_head (TMsg m) fs) as [fs' En]. rewrite En.
      rewrite <- En, <- Hty. apply enc_one_norm. exact Hv.
  - destruct v; try reflexivity.
    destruct v; try reflexivity;
      match goal with
      | |- context [norm_val Sc (fty d) ?x] =>
          assert (Hnn : norm_val Sc (fty d) x <> VNone) by (apply norm_not_none; discriminate);
          destruct (norm_val Sc (fty d) x) eqn:En; try congruence;
          rewrite <- En; apply enc_one_norm; exact Hsub
      end.
  - destruct v; try reflexivity. clear Hv.
    induction Hsub as [|x vs Hx _ IH]; [reflexivity|].
    cbn [map flat_map]. rewrite enc_one_norm by exact Hx. f_equal. exact IH.
  - reflexivity.
Qed.

Lemma enc_norm_deep v : deep nQ v.
Proof.
  induction v as [n|b|fs IH|vs IH| |v IH] using pv_ind'.
  - split; [|exact I]. intros t. reflexivity.
  - split; [|exact I]. intros t. reflexivity.
  - split; [|exact I]. intros t. destruct t as [| | | |m]; try reflexivity.
    rewrite norm_val_msg, !enc_val_msg.
    generalize (mfields (msg Sc m)) as ds.
    induction IH as [|v fs Hv _ IHfs]; intros [|d ds]; cbn [enc_fields]; try reflexivity.
    rewrite IHfs. f_equal. apply enc_slot_norm. exact Hv.
  - split; [|apply Forall_deep; exact IH]. intros t. reflexivity.
  - split; [|exact I]. intros t. reflexivity.
  - split; [|apply IH]. intros t. reflexivity.
Qed.

Theorem enc_norm_l m v : encode Sc m (norm Sc m v) = encode Sc m v.
Proof. unfold encode, norm. apply enc_norm_deep. Qed.

Hypothesis Hwf : wf_schema Sc = true.

(* the round trip for every value that is canonical AFTER normalisation (so including -0.0 in a
   singular double and nil bytes inside a oneof): what comes back is the normalised value *)
Theorem proto_roundtrip_norm_l m v :
  canonical Sc m (norm Sc m v) = true -> size Sc m v < two64 ->
  decode Sc m (encode Sc m v) = Some (norm Sc m v).
Proof.
  intros Hc Hs. rewrite <- enc_norm_l.
  apply proto_roundtrip_l; auto.
  rewrite proto_size_l, enc_norm_l, <- proto_size_l. exact Hs.
Qed.

(* Marshal(Unmarshal(b)) is a fixed point of Unmarshal;Marshal *)
Theorem decode_fixpoint_l m b v :
  decode Sc m b = Some v ->
  canonical Sc m (norm Sc m v) = true -> size Sc m v < two64 ->
  exists v', decode Sc m (encode Sc m v) = Some v' /\ encode Sc m v' = encode Sc m v.
Proof.
  intros _ Hc Hs. exists (norm Sc m v). split; [apply proto_roundtrip_norm_l; assumption|apply enc_norm_l].
Qed.
End Norm.
