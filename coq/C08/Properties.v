(* C08/Properties.v — the property theorems, nothing else. *)
From Verif Require Import Common.Base C08.Model Generated.OtlpProto C08.Proofs.
Local Open Scope N_scope.

(* instance obligation, re-checked against the schema regenerated from the current tree *)
Theorem otlp_schema_wf : wf_schema OtlpSchema = true.
Proof. exact otlp_schema_wf_l. Qed.
Print Assumptions otlp_schema_wf.
