(* C08/Properties.v — the property theorems, nothing else. *)
From Verif Require Import Common.Base C08.Model C08.Json Generated.OtlpProto Generated.C08JsonDecoders Generated.C08T1 C08.Proofs C08.Harness C08.Proofs13.
Local Open Scope N_scope.

(* ---- bit level -------------------------------------------------------------------------- *)
Theorem varint_roundtrip : forall n r, n < two64 -> read_varint (varint n ++ r) = Some (n, r).
Proof. exact varint_roundtrip_l. Qed.
Print Assumptions varint_roundtrip.

Theorem zigzag_roundtrip : forall m, m < two32 -> unzig32 (zig32 m) = m.
Proof. exact zigzag_roundtrip_l. Qed.
Print Assumptions zigzag_roundtrip.

Theorem fixed_roundtrip : forall n r,
  (n < two64 -> read_le 8 (le_bytes 8 n ++ r) = Some (n, r)) /\
  (n < two32 -> read_le 4 (le_bytes 4 n ++ r) = Some (n, r)).
Proof. intros n r. split; [apply fixed_roundtrip_l64|apply fixed_roundtrip_l32]. Qed.
Print Assumptions fixed_roundtrip.

Theorem tag_roundtrip : forall d wt r, fnum_ok d = true -> wt < 8 ->
  exists w, read_varint (varint (tagv d wt) ++ r) = Some (w, r) /\ w mod 8 = wt /\ fieldnum_of w = Some (fnum d).
Proof. exact tag_roundtrip_l. Qed.
Print Assumptions tag_roundtrip.

Theorem scalar_roundtrip : forall k n r, in_range k n = true -> read_scalar k (enc_scalar k n ++ r) = Some (n, r).
Proof. exact scalar_roundtrip_l. Qed.
Print Assumptions scalar_roundtrip.

(* ---- the codec, for EVERY well-formed schema --------------------------------------------- *)
(* Size() = len(Marshal()): every schema, every value tree (no hypothesis at all). *)
Theorem proto_size : forall (S : schema) m v, size S m v = blen (encode S m v).
Proof. exact proto_size_l. Qed.
Print Assumptions proto_size.

(* Unmarshal(Marshal(v)) = v: every well-formed schema, every canonical value whose encoding
   is shorter than 2^64 bytes (a Go slice cannot be longer). *)
Theorem proto_roundtrip : forall (S : schema), wf_schema S = true ->
  forall m v, canonical S m v = true -> size S m v < two64 -> decode S m (encode S m v) = Some v.
Proof. exact proto_roundtrip_l. Qed.
Print Assumptions proto_roundtrip.

(* The protobuf round trip for EVERY value that is well-typed up to the two normalisations the
   code performs (norm: -0.0 in a singular double -> +0.0, nil []byte inside a oneof -> unset):
   what comes back is the normalised value.  proto_roundtrip is the special case norm v = v. *)
Theorem proto_roundtrip_norm : forall (S : schema), wf_schema S = true ->
  forall m v, canonical S m (norm S m v) = true -> size S m v < two64 ->
  decode S m (encode S m v) = Some (norm S m v).
Proof. exact proto_roundtrip_norm_l. Qed.
Print Assumptions proto_roundtrip_norm.

Theorem encode_norm : forall (S : schema) m v, encode S m (norm S m v) = encode S m v.
Proof. exact enc_norm_l. Qed.
Print Assumptions encode_norm.

(* Totality: decode is a Coq function (it cannot diverge or panic), and it never fails for lack
   of fuel: every loop iteration and every nested call consumes at least one byte, so ANY fuel
   >= |input| computes the same result as the fuel |input| that decode uses. *)
Theorem proto_decode_total : forall (S : schema) m b fuel, (length b <= fuel)%nat ->
  option_map VMsg (dec_fields S fuel (mfields (msg S m)) (mdefault (msg S m)) b) = decode S m b.
Proof. exact decode_fuel_irrelevant_l. Qed.
Print Assumptions proto_decode_total.

(* An invariant of the decoder: whatever it builds, from ANY byte string, is canonical after
   normalisation (every slot has the shape and range its descriptor asks for, ids are normalised,
   at most one member of a oneof group is selected). *)
Theorem proto_decode_canonical : forall (S : schema), wf_schema S = true ->
  forall m b v, decode S m b = Some v -> canonical S m (norm S m v) = true.
Proof. exact decode_canonical_l. Qed.
Print Assumptions proto_decode_canonical.

(* Fixed point: for whatever decodes, Marshal(Unmarshal(b)) re-decodes, and re-encodes to itself
   (b1 = encode v; decode b1 = Some v'; encode v' = b1) — for every byte string b.  (The size
   bound says the re-encoding fits a Go slice.) *)
Theorem proto_decode_total_fixpoint : forall (S : schema), wf_schema S = true ->
  forall m b v, decode S m b = Some v -> size S m v < two64 ->
  exists v', decode S m (encode S m v) = Some v' /\ encode S m v' = encode S m v.
Proof. exact proto_decode_fixpoint_l. Qed.
Print Assumptions proto_decode_total_fixpoint.

(* ---- instance obligations, re-checked against the schema regenerated from the current tree -- *)
Theorem otlp_schema_wf : wf_schema OtlpSchema = true.
Proof. exact otlp_schema_wf_l. Qed.
Print Assumptions otlp_schema_wf.

Theorem otlp_proto_roundtrip : forall m v,
  canonical OtlpSchema m v = true -> size OtlpSchema m v < two64 ->
  decode OtlpSchema m (encode OtlpSchema m v) = Some v
  /\ size OtlpSchema m v = blen (encode OtlpSchema m v).
Proof. intros m v Hc Hs. split; [apply (proto_roundtrip_l OtlpSchema otlp_schema_wf_l); assumption|apply proto_size_l]. Qed.
Print Assumptions otlp_proto_roundtrip.

(* "decoding what the marshaler produced yields a payload EQUAL to the original" is false of the
   code for -0.0 in a singular double (known finding C08-NEGZERO, open: no small repair, see NOTES.md):
   witness on the real schema.  (A oneof wrapper holding a NIL slice is likewise dropped by the generated
   Marshal — Witness.emptybytes_roundtrip — but the public API no longer builds one: api_empty_bytes_roundtrip.) *)
Theorem proto_roundtrip_refuted :
  exists m v, canonical OtlpSchema m (norm OtlpSchema m v) = true
              /\ decode OtlpSchema m (encode OtlpSchema m v) <> Some v.
Proof. exact proto_roundtrip_refuted_l. Qed.
Print Assumptions proto_roundtrip_refuted.

(* the export-request wrappers: same layout, hence same bytes / size / decoding as the payload *)
Theorem wrappers : forall p, In p wrapper_pairs ->
  forall v b, encode OtlpSchema (fst p) v = encode OtlpSchema (snd p) v
              /\ size OtlpSchema (fst p) v = size OtlpSchema (snd p) v
              /\ decode OtlpSchema (fst p) b = decode OtlpSchema (snd p) b.
Proof. exact wrappers_l. Qed.
Print Assumptions wrappers.

(* ---- the JSON half, at the tree level, for EVERY schema and EVERY decoder table --------------- *)
(* UnmarshalJSON(MarshalJSON(v)) = v for every canonical value that the decoder table supports
   (jok: every field the marshaler emits for v has a decoder case with the right reader, every
   double is a non-NaN or the one NaN JSON can say) and that carries no deprecated scope field. *)
Theorem json_roundtrip : forall (S : schema) (D : list jdec) (E : enums), wf_schema S = true ->
  forall m v, canonical S m v = true -> jok S D m v = true -> no_deprecated S m v = true ->
  of_json S D E m (to_json S m v) = Some v.
Proof. exact json_roundtrip_nd_l. Qed.
Print Assumptions json_roundtrip.

(* decoding the JSON form and encoding the result as protobuf gives the bytes of the original *)
Theorem json_proto_agree : forall (S : schema) (D : list jdec) (E : enums), wf_schema S = true ->
  forall m v, canonical S m v = true -> jok S D m v = true -> no_deprecated S m v = true ->
  option_map (encode S m) (of_json S D E m (to_json S m v)) = Some (encode S m v).
Proof. exact json_proto_agree_nd_l. Qed.
Print Assumptions json_proto_agree.

(* JSON fixed point, PARTIAL: whatever the JSON decoder builds is a fixed point of MarshalJSON;UnmarshalJSON
   provided it is canonical, supported by the table and without deprecated field.  Missing: "what of_json
   builds is canonical" (the JSON analogue of proto_decode_canonical).  Harness kinds 5 and 6 evaluate the
   conclusion on every accepted document whose decoded value is canonical. *)
Theorem json_decode_fixpoint_partial : forall (S : schema) (D : list jdec) (E : enums), wf_schema S = true ->
  forall m j v, of_json S D E m j = Some v ->
  canonical S m v = true -> jok S D m v = true -> no_deprecated S m v = true ->
  of_json S D E m (to_json S m v) = Some v.
Proof. exact json_decode_fixpoint_partial_l. Qed.
Print Assumptions json_decode_fixpoint_partial.

(* the alternate forms at the level of a field: whatever the integer token (in range or not), a field read
   by a dual reader gives the same result for the number and the string form; an enum field the same
   for a name of its map and that name's number *)
Theorem json_int64_forms_field : forall E rec e m d cur k z,
  fty d = TScalar k -> is64 k = true -> forms_ok d e = true ->
  oj_one E rec e m d cur (JInt z) = oj_one E rec e m d cur (JIntStr z).
Proof. exact json_int64_forms_field_l. Qed.
Print Assumptions json_int64_forms_field.

Theorem json_enum_forms_field : forall E rec e m d cur name value,
  fty d = TScalar SEnum -> forms_ok d e = true ->
  find (fun p => list_eqb N.eqb (fst p) name) (enum_names E m (fnum d)) = Some (name, value) ->
  in_range SEnum value = true ->
  oj_one E rec e m d cur (JStr name) = oj_one E rec e m d cur (JInt (sgn64 value)).
Proof. exact json_enum_forms_field_l. Qed.
Print Assumptions json_enum_forms_field.

(* a 64-bit integer written as a number or as a string is read to the same value by a dual reader;
   an enum written as its name or as its number likewise *)
Theorem json_int64_forms : forall e names k z, is64 k = true -> jnum e = true -> jstr e = true ->
  oj_scalar e names k (JInt z) = oj_scalar e names k (JIntStr z).
Proof. exact json_int64_forms_l. Qed.
Print Assumptions json_int64_forms.

Theorem json_enum_forms : forall e names name value, jnum e = true -> jname e = true ->
  find (fun p => list_eqb N.eqb (fst p) name) names = Some (name, value) ->
  in_range SEnum value = true ->
  oj_scalar e names SEnum (JStr name) = oj_scalar e names SEnum (JInt (sgn64 value)).
Proof. exact json_enum_forms_l. Qed.
Print Assumptions json_enum_forms.

(* malformed tokens are ERRORS of the model, not undefined behaviour: a hex id is accepted exactly when
   it is empty or as long as the id (so a short or an OVER-LONG id is rejected); an integer outside the
   range of its field is rejected in the number form and in the string form.  Case kind 6 compares
   acceptance TWO-SIDEDLY with the implementation on every id / integer / enum / bool / bytes field. *)
Theorem json_id_length : forall E rec e m d n cur b, fty d = TId n -> jstr e = true ->
  (oj_one E rec e m d cur (JHex b) <> None <-> (blen b = 0 \/ blen b = n)).
Proof. exact json_id_length_l. Qed.
Print Assumptions json_id_length.

Theorem json_int_range : forall e names k z,
  match k with SBool | SDouble => False | _ => True end -> int_to_field k z = None ->
  oj_scalar e names k (JInt z) = None /\ oj_scalar e names k (JIntStr z) = None.
Proof. exact json_int_range_l. Qed.
Print Assumptions json_int_range.

(* entries of one object that interact: when two keys of an object are members of the same oneof group
   (e.g. "gauge" and "sum" of a metric, "asInt" and "asDouble" of a data point, two alternatives of an
   AnyValue, or the same member twice), the document decodes exactly as if only the LATER entry were
   there — the earlier member is replaced, never merged into or read through.  Case kind 6 compares
   this two-sidedly with the implementation for every ordered pair of members of every oneof group. *)
Theorem json_oneof_last_wins : forall (S : schema) (D : list jdec) (E : enums) m k1 x1 k2 x2 rest cur e1 e2 i1 d1 i2 d2 g v1,
  jlookup D m k1 = Some e1 -> find_field (mfields (msg S m)) (jfnum e1) 0 = Some (i1, d1) -> fcd d1 = COneof g ->
  jlookup D m k2 = Some e2 -> find_field (mfields (msg S m)) (jfnum e2) 0 = Some (i2, d2) -> fcd d2 = COneof g ->
  oj_slot E (oj_val S D E) e1 m d1 (nth i1 cur VNone) x1 = Some v1 ->
  oj_fields S D E m ((k1, x1) :: (k2, x2) :: rest) cur = oj_fields S D E m ((k2, x2) :: rest) cur.
Proof. exact json_oneof_last_wins_l. Qed.
Print Assumptions json_oneof_last_wins.

(* ---- JSON instance obligations: the decoder table is re-observed on the running decoders and
   these are re-proved on every check run --------------------------------------------------------- *)
(* covers: the decoder table covers EVERY field of every message reachable from the four request
   roots, under both spellings of the key and with the readers the property demands (dual readers
   for 64-bit integers, number|name for enums, number|string tokens for doubles, base64 for
   bytes).  A dropped or wrong decoder case makes this obligation fail on the next run. *)
Theorem otlp_json_covers : covers OtlpSchema OtlpJsonDecoders OtlpJsonReachable = true.
Proof. exact otlp_json_covers_l. Qed.
Print Assumptions otlp_json_covers.

Theorem otlp_json_uncovered_none : uncovered OtlpSchema OtlpJsonDecoders OtlpJsonReachable = [].
Proof. exact otlp_json_uncovered_l. Qed.
Print Assumptions otlp_json_uncovered_none.

Theorem otlp_json_int64_dual : dual64_ok = true.
Proof. exact otlp_dual64_l. Qed.
Print Assumptions otlp_json_int64_dual.

Theorem otlp_json_enum_forms : enums_uncovered = [].
Proof. exact otlp_enums_l. Qed.
Print Assumptions otlp_json_enum_forms.

Theorem otlp_json_roundtrip : forall m v,
  canonical OtlpSchema m v = true -> jok OtlpSchema OtlpJsonDecoders m v = true -> no_deprecated OtlpSchema m v = true ->
  of_json OtlpSchema OtlpJsonDecoders OtlpEnums m (to_json OtlpSchema m v) = Some v.
Proof. exact (json_roundtrip_nd_l OtlpSchema OtlpJsonDecoders OtlpEnums otlp_schema_wf_l). Qed.
Print Assumptions otlp_json_roundtrip.

(* ---- the public protobuf decode paths and the migration of the deprecated scope fields -------- *)
(* Model.path_migrates says which public path runs otlp.MigrateX after the generated Unmarshal: all of
   them (ProtoUnmarshaler.UnmarshalX, ExportRequest.UnmarshalProto; the JSON paths are Json.of_json).
   Case kinds 9 and 2 of the correspondence run tie that table to the four signals on every run. *)

(* ALL public decode paths agree on EVERY byte string (deprecated fields or not): each is the generated
   Unmarshal followed by the migration *)
Theorem public_paths_agree : forall (S : schema) m b p q, decode_path S p m b = decode_path S q m b.
Proof. exact public_paths_agree_l. Qed.
Print Assumptions public_paths_agree.

Theorem decode_path_is_migrate : forall (S : schema) p m b,
  decode_path S p m b = option_map (migrate S m) (decode S m b).
Proof. exact decode_path_is_migrate_l. Qed.
Print Assumptions decode_path_is_migrate.

(* for a payload WITHOUT deprecated fields the migration is the identity, so every public path gives
   exactly what the generated Unmarshal gives (and both public encoders give the same bytes: `wrappers`) *)
Theorem migrate_id : forall (S : schema) m v, no_deprecated S m v = true -> migrate S m v = v.
Proof. exact migrate_id_l. Qed.
Print Assumptions migrate_id.

Theorem public_paths_plain : forall (S : schema) m b v,
  decode S m b = Some v -> no_deprecated S m v = true -> forall p, decode_path S p m b = Some v.
Proof. exact public_paths_plain_l. Qed.
Print Assumptions public_paths_plain.

(* after EVERY public path, for EVERY byte string that decodes, no deprecated field is left (the four
   request roots of the real schema); the migration is idempotent *)
Theorem otlp_migrating_paths_clear : forall p m b v, In m request_roots ->
  decode_path OtlpSchema p m b = Some v -> no_deprecated OtlpSchema m v = true.
Proof. exact otlp_paths_clear_l. Qed.
Print Assumptions otlp_migrating_paths_clear.

Theorem otlp_migrate_idempotent : forall m v, In m request_roots -> res_shaped OtlpSchema m v = true ->
  no_deprecated OtlpSchema m (migrate OtlpSchema m v) = true
  /\ migrate OtlpSchema m (migrate OtlpSchema m v) = migrate OtlpSchema m v.
Proof. exact otlp_migrate_clears_l. Qed.
Print Assumptions otlp_migrate_idempotent.

(* profiles has no deprecated field: its public paths coincide with the generated Unmarshal *)
Theorem otlp_profiles_paths_coincide : forall p b,
  decode_path OtlpSchema p m_collector_profiles_v1development_ExportProfilesServiceRequest b
  = decode OtlpSchema m_collector_profiles_v1development_ExportProfilesServiceRequest b.
Proof. exact otlp_profiles_paths_l. Qed.
Print Assumptions otlp_profiles_paths_coincide.

(* witnesses (non-vacuity): the bytes of a legacy sender carry the deprecated field, every public path
   turns them into a payload without it that is canonical and survives JSON *)
Theorem otlp_legacy_payloads_migrated : forallb legacy_ok legacy_witnesses = true.
Proof. exact otlp_legacy_ok_l. Qed.
Print Assumptions otlp_legacy_payloads_migrated.

(* ---- translator T1 obligations: the hand-written pieces equal what the Go source says now ------ *)
Theorem t1_varint_size_is_sov :
  sov_spec sovCommon /\ sov_spec sovResource /\ sov_spec sovLogs /\ sov_spec sovMetrics /\ sov_spec sovTrace
  /\ sov_spec sovProfiles /\ sov_spec sovLogsService /\ sov_spec sovMetricsService /\ sov_spec sovTraceService
  /\ sov_spec sovProfilesService.
Proof. exact t1_sov_all. Qed.
Print Assumptions t1_varint_size_is_sov.

Theorem t1_schema_id_lengths :
  id_fields_ok = true /\ TraceID_Size true = 0%Z /\ SpanID_Size true = 0%Z /\ ProfileID_Size true = 0%Z.
Proof. exact t1_id_lengths. Qed.
Print Assumptions t1_schema_id_lengths.

Theorem t1_schema_enum_values : enum_values_ok = true /\ enum_fields_listed = true.
Proof. split; [exact t1_enum_values|exact t1_enum_fields_listed]. Qed.
Print Assumptions t1_schema_enum_values.

(* ---- the clause checker run over the OBSERVED behaviour of the implementation (Harness.prop_ok: every
   case of every run, and the failing-input search after a disagreement) decides exactly the clauses ---- *)
Theorem prop_ok_sound : forall c, prop_ok c = true <-> Clause c.
Proof. exact prop_ok_sound_l. Qed.
Print Assumptions prop_ok_sound.

(* ---- the public JSON decode path: ValidateUTF8, then the decoder ------------------------------------ *)
(* a document that is not valid UTF-8 (some key or string of the tree is not) is REJECTED; on every other
   document the public path is the decoder of_json, so every theorem about of_json is about the public path *)
Theorem json_public_path : forall (S : schema) D E m j,
  (jv_utf8 j = true -> unmarshal_json S D E m j = of_json S D E m j)
  /\ (jv_utf8 j = false -> unmarshal_json S D E m j = None).
Proof. exact unmarshal_json_spec_l. Qed.
Print Assumptions json_public_path.

Theorem json_roundtrip_public : forall (S : schema) (D : list jdec) (E : enums), wf_schema S = true ->
  forall m v, canonical S m v = true -> jok S D m v = true -> no_deprecated S m v = true ->
  jv_utf8 (to_json S m v) = true ->
  unmarshal_json S D E m (to_json S m v) = Some v.
Proof.
  intros S D E Hwf m v Hc Hj Hn Hu. destruct (unmarshal_json_spec_l S D E m (to_json S m v)) as [H _].
  rewrite (H Hu). apply json_roundtrip_nd_l; assumption.
Qed.
Print Assumptions json_roundtrip_public.

(* ---- an empty Bytes value as the public API builds it (NewValueBytes / SetEmptyBytes: an empty NON-NIL slice
   in the oneof wrapper) is an ordinary canonical value, for every schema; on the real schema it survives
   protobuf and JSON and the two encodings agree (was: C08-EMPTYBYTES, repaired in /repo ee4467fcf) ------- *)
Theorem api_empty_bytes_canonical : forall (S : schema) d g,
  fcd d = COneof g -> fty d = TBytes -> canon_slot S d api_empty_bytes = true.
Proof. exact api_empty_bytes_canonical_l. Qed.
Print Assumptions api_empty_bytes_canonical.

Theorem api_empty_bytes_roundtrip :
  let m := m_common_v1_AnyValue in let w := any_with api_empty_bytes in
  canonical OtlpSchema m w = true
  /\ decode OtlpSchema m (encode OtlpSchema m w) = Some w
  /\ unmarshal_json OtlpSchema OtlpJsonDecoders OtlpEnums m (to_json OtlpSchema m w) = Some w
  /\ option_map (encode OtlpSchema m) (unmarshal_json OtlpSchema OtlpJsonDecoders OtlpEnums m (to_json OtlpSchema m w))
     = Some (encode OtlpSchema m w).
Proof. exact api_empty_bytes_roundtrip_l. Qed.
Print Assumptions api_empty_bytes_roundtrip.

(* ---- successive Marshal calls are independent ----------------------------------------------------------
   Model.run_fresh: every call writes into a buffer of its own and hands it out.  For EVERY sequence of payloads
   (any length, any encoder — protobuf or JSON, payload or wrapper), what the caller reads from the buffers it
   kept, AFTER all the calls, is exactly the encodings of the payloads it passed, in order.  Case kinds 10 / 11
   compare this with the implementation (outputs of several calls kept, read and decoded at the end). *)
Theorem marshal_calls_independent : forall (A : Type) (enc : A -> bytes) vs,
  observe (run_fresh enc vs) = map enc vs.
Proof. intros A enc vs. apply marshal_calls_independent_l. Qed.
Print Assumptions marshal_calls_independent.

(* a marshaler that recycles its buffer (a pool whose buffer is returned to the caller) does not have the
   property as soon as two payloads encode differently *)
Theorem pooled_marshal_refuted : forall (A : Type) (enc : A -> bytes) a b,
  enc a <> enc b -> observe (run_pooled enc [a; b]) <> map enc [a; b].
Proof. intros A enc a b. apply pooled_marshal_refuted_l. Qed.
Print Assumptions pooled_marshal_refuted.
