(* C08/Model.v — executable model of the gogo-generated protobuf codec of pdata
   (pdata/internal/data/protogen/**: Marshal / Size / Unmarshal / skipX) as a SCHEMA-DRIVEN codec,
   of the fixed-size ids (pdata/internal/data/{traceid,spanid,profileid}.go) and of the
   deprecated-scope migration (pdata/internal/otlp/*.go).  Definitions only, no proofs.

   The schema of the real OTLP messages is not written here: it is dumped from the current tree
   by reflection (coq/Generated/OtlpProto.v, see props/C08/check.py) — field numbers, wire kinds,
   repeated / packed / oneof, customtype ids, the order in which MarshalToSizedBuffer emits the
   fields (probed by marshalling), and the zero value of every message.

   Conventions
   * a byte is an N < 256; byte strings are [list N];
   * a scalar is stored as the unsigned 64-bit view of the Go field: uint32/uint64 as is,
     int32/int64/enum sign-extended to 64 bits (two's complement), bool 0/1, float64 as its
     IEEE-754 bit pattern;
   * a message value is POSITIONAL: [VMsg fs] holds one slot per field descriptor of the
     message, in the schema's (emission) order. *)
From Verif Require Import Common.Base.
From Coq Require Strings.String Strings.Ascii.
Local Open Scope N_scope.

Definition bytes := list N.

Definition two64 : N := 18446744073709551616.
Definition two63 : N := 9223372036854775808.
Definition two32 : N := 4294967296.
Definition two31 : N := 2147483648.

(* ---------------------------------------------------------------------------------------------
   hex strings (used by the generated case files and the generated schema) *)
Definition hexval (c : Ascii.ascii) : N :=
  let n := Ascii.N_of_ascii c in if n <? 58 then n - 48 else n - 87.
Fixpoint hex (s : String.string) : bytes :=
  match s with
  | String.String a (String.String b r) => (16 * hexval a + hexval b) :: hex r
  | _ => []
  end.

(* ---------------------------------------------------------------------------------------------
   schema *)
Inductive skind :=
| SU64     (* uint64, varint *)
| SI64     (* int64, varint (two's complement, 10 bytes when negative) *)
| SU32     (* uint32, varint *)
| SI32     (* int32, varint of the sign-extended value *)
| SEnum    (* enum = int32, varint of the sign-extended value *)
| SBool    (* bool, one byte *)
| SZig32   (* sint32, zigzag varint *)
| SFix64   (* fixed64 (uint64) *)
| SSFix64  (* sfixed64 (int64) *)
| SDouble  (* double: fixed64 of the bit pattern; the zero test is the FLOAT comparison x != 0 *)
| SFix32.  (* fixed32 (uint32) *)

Inductive ftype :=
| TScalar (k : skind)
| TBytes
| TStr
| TId (n : N)        (* customtype data.TraceID / SpanID / ProfileID: [n]byte, non-nullable *)
| TMsg (m : nat).    (* message, by index in the schema *)

Inductive card :=
| COpt               (* proto3 singular; embedded messages and ids are non-nullable values *)
| COneof (g : N)     (* member of oneof group g of its message *)
| CRep               (* repeated, one tagged occurrence per element *)
| CPacked.           (* repeated scalar, packed *)

Inductive pv :=
| VInt (n : N)
| VBytes (b : bytes)
| VMsg (fs : list pv)
| VRep (vs : list pv)
| VNone                (* oneof member not selected; also: nil pointer / nil []byte inside a oneof wrapper *)
| VSome (v : pv).      (* oneof member selected *)

Record fdesc := mkF { fnum : N; fty : ftype; fcd : card; fjson : String.string; forig : String.string }.
Record mdesc := mkM { mname : String.string; mfields : list fdesc; mdefault : list pv }.
Definition schema := list mdesc.
Definition msg (S : schema) (m : nat) : mdesc := nth m S (mkM String.EmptyString [] []).

(* ---------------------------------------------------------------------------------------------
   primitive encoders (encodeVarintX, binary.LittleEndian.PutUint64/32, sovX) *)
Fixpoint varint_go (fuel : nat) (n : N) : bytes :=
  match fuel with
  | O => []
  | S f => if n <? 128 then [n] else (n mod 128 + 128) :: varint_go f (n / 128)
  end.
Definition varint (n : N) : bytes := varint_go 10 n.

(* sovX(x) = (bits.Len64(x|1) + 6) / 7, written as the comparison chain it computes *)
Definition varint_size (n : N) : N :=
  if n <? 128 then 1 else if n <? 16384 then 2 else if n <? 2097152 then 3
  else if n <? 268435456 then 4 else if n <? 34359738368 then 5
  else if n <? 4398046511104 then 6 else if n <? 562949953421312 then 7
  else if n <? 72057594037927936 then 8 else if n <? 9223372036854775808 then 9 else 10.

Fixpoint le_bytes (k : nat) (n : N) : bytes :=
  match k with O => [] | S k' => n mod 256 :: le_bytes k' (n / 256) end.

Definition sext32 (n : N) : N :=
  let m := n mod two32 in if m <? two31 then m else m + (two64 - two32).

(* zigzag on the 32-bit pattern m of an int32:  (m << 1) ^ (m >> 31), in closed form *)
Definition zig32 (m : N) : N := if m <? two31 then 2 * m else 2 * (two32 - m) - 1.
Definition unzig32 (z : N) : N := if N.even z then z / 2 else (two32 - (z + 1) / 2) mod two32.

Definition wire_of (k : skind) : N :=
  match k with SFix64 | SSFix64 | SDouble => 1 | SFix32 => 5 | _ => 0 end.

(* the `if m.X != 0` / `if m.X` guard of a singular proto3 scalar *)
Definition is_zero (k : skind) (n : N) : bool :=
  match k with SDouble => (n =? 0) || (n =? two63) | _ => n =? 0 end.

Definition enc_scalar (k : skind) (n : N) : bytes :=
  match k with
  | SFix64 | SSFix64 | SDouble => le_bytes 8 n
  | SFix32 => le_bytes 4 n
  | SZig32 => varint (zig32 (n mod two32))
  | SBool => [if n =? 0 then 0 else 1]
  | _ => varint n
  end.

Definition size_scalar (k : skind) (n : N) : N :=
  match k with
  | SFix64 | SSFix64 | SDouble => 8
  | SFix32 => 4
  | SZig32 => varint_size (zig32 (n mod two32))
  | SBool => 1
  | _ => varint_size n
  end.

(* values a Go field of that kind can hold, in the unsigned 64-bit view *)
Definition in_range (k : skind) (n : N) : bool :=
  match k with
  | SU64 | SI64 | SFix64 | SSFix64 | SDouble => n <? two64
  | SU32 | SFix32 => n <? two32
  | SI32 | SEnum | SZig32 => (n <? two31) || ((two64 - two31 <=? n) && (n <? two64))
  | SBool => n <? 2
  end.

Definition blen (b : bytes) : N := N.of_nat (length b).
Definition tagv (d : fdesc) (wt : N) : N := fnum d * 8 + wt.

(* ---------------------------------------------------------------------------------------------
   encode (MarshalToSizedBuffer writes back to front; the bytes are those of a front-to-back
   emission in the schema's field order) *)
Section Codec.
Variable Sc : schema.

(* one present occurrence, with its tag *)
Definition enc_one (rec : ftype -> pv -> bytes) (d : fdesc) (v : pv) : bytes :=
  match fty d with
  | TScalar k => varint (tagv d (wire_of k)) ++ rec (fty d) v
  | _ => let p := rec (fty d) v in varint (tagv d 2) ++ varint (blen p) ++ p
  end.

Definition enc_slot_with (rec : ftype -> pv -> bytes) (d : fdesc) (v : pv) : bytes :=
  match fcd d with
  | COpt =>
      match fty d, v with
      | TScalar k, VInt n => if is_zero k n then [] else enc_one rec d v
      | TBytes, VBytes b | TStr, VBytes b => match b with [] => [] | _ => enc_one rec d v end
      | TId _, VBytes _ => enc_one rec d v
      | TMsg _, VMsg _ => enc_one rec d v
      | _, _ => []
      end
  | COneof _ =>
      match v with
      | VSome v' => match v' with VNone => [] | _ => enc_one rec d v' end
      | _ => []
      end
  | CRep => match v with VRep vs => flat_map (enc_one rec d) vs | _ => [] end
  | CPacked =>
      match v with
      | VRep [] => []
      | VRep vs => let p := flat_map (rec (fty d)) vs in varint (tagv d 2) ++ varint (blen p) ++ p
      | _ => []
      end
  end.

(* payload of one value of type t (no tag, no length) *)
Fixpoint enc_val (t : ftype) (v : pv) {struct v} : bytes :=
  match v with
  | VInt n => match t with TScalar k => enc_scalar k n | _ => [] end
  | VBytes b => match t with TBytes | TStr | TId _ => b | _ => [] end
  | VMsg fs =>
      match t with
      | TMsg m =>
          (fix go (ds : list fdesc) (vs : list pv) {struct vs} : bytes :=
             match ds, vs with
             | d :: ds', v' :: vs' => enc_slot_with enc_val d v' ++ go ds' vs'
             | _, _ => []
             end) (mfields (msg Sc m)) fs
      | _ => []
      end
  | _ => []
  end.

Definition enc_slot : fdesc -> pv -> bytes := enc_slot_with enc_val.

Fixpoint enc_fields (ds : list fdesc) (vs : list pv) : bytes :=
  match ds, vs with
  | d :: ds', v :: vs' => enc_slot d v ++ enc_fields ds' vs'
  | _, _ => []
  end.

Definition encode (m : nat) (v : pv) : bytes := enc_val (TMsg m) v.

(* ---------------------------------------------------------------------------------------------
   Size() — the same traversal computing lengths (n += 1 + l + sovX(uint64(l)) …) *)
Definition size_one (rec : ftype -> pv -> N) (d : fdesc) (v : pv) : N :=
  match fty d with
  | TScalar k => varint_size (tagv d (wire_of k)) + rec (fty d) v
  | _ => let l := rec (fty d) v in varint_size (tagv d 2) + varint_size l + l
  end.

Definition sumN (l : list N) : N := fold_right N.add 0 l.

Definition size_slot_with (rec : ftype -> pv -> N) (d : fdesc) (v : pv) : N :=
  match fcd d with
  | COpt =>
      match fty d, v with
      | TScalar k, VInt n => if is_zero k n then 0 else size_one rec d v
      | TBytes, VBytes b | TStr, VBytes b => match b with [] => 0 | _ => size_one rec d v end
      | TId _, VBytes _ => size_one rec d v
      | TMsg _, VMsg _ => size_one rec d v
      | _, _ => 0
      end
  | COneof _ =>
      match v with
      | VSome v' => match v' with VNone => 0 | _ => size_one rec d v' end
      | _ => 0
      end
  | CRep => match v with VRep vs => sumN (map (size_one rec d) vs) | _ => 0 end
  | CPacked =>
      match v with
      | VRep [] => 0
      | VRep vs => let l := sumN (map (rec (fty d)) vs) in varint_size (tagv d 2) + varint_size l + l
      | _ => 0
      end
  end.

Fixpoint size_val (t : ftype) (v : pv) {struct v} : N :=
  match v with
  | VInt n => match t with TScalar k => size_scalar k n | _ => 0 end
  | VBytes b => match t with TBytes | TStr | TId _ => blen b | _ => 0 end
  | VMsg fs =>
      match t with
      | TMsg m =>
          (fix go (ds : list fdesc) (vs : list pv) {struct vs} : N :=
             match ds, vs with
             | d :: ds', v' :: vs' => size_slot_with size_val d v' + go ds' vs'
             | _, _ => 0
             end) (mfields (msg Sc m)) fs
      | _ => 0
      end
  | _ => 0
  end.

Definition size_slot : fdesc -> pv -> N := size_slot_with size_val.

Fixpoint size_fields (ds : list fdesc) (vs : list pv) : N :=
  match ds, vs with
  | d :: ds', v :: vs' => size_slot d v + size_fields ds' vs'
  | _, _ => 0
  end.

Definition size (m : nat) (v : pv) : N := size_val (TMsg m) v.

(* ---------------------------------------------------------------------------------------------
   primitive decoders *)

(* the varint loop of the generated code: at most 10 bytes (shift 0..63), then ErrIntOverflow;
   running off the buffer is io.ErrUnexpectedEOF; bits shifted beyond 64 are lost (uint64) *)
Fixpoint rv_go (fuel : nat) (shift : N) (acc : N) (b : bytes) : option (N * bytes) :=
  match fuel with
  | O => None
  | S f =>
      match b with
      | [] => None
      | x :: r =>
          let acc' := acc + (x mod 128) * 2 ^ shift in
          if x <? 128 then Some (acc' mod two64, r) else rv_go f (shift + 7) acc' r
      end
  end.
Definition read_varint (b : bytes) : option (N * bytes) := rv_go 10 0 0 b.

Fixpoint read_le (k : nat) (b : bytes) : option (N * bytes) :=
  match k with
  | O => Some (0, b)
  | S k' =>
      match b with
      | [] => None
      | x :: r => match read_le k' r with Some (n, r') => Some (x + 256 * n, r') | None => None end
      end
  end.

(* what the Go field holds after a raw 64-bit wire value was assigned to it *)
Definition store (k : skind) (raw : N) : N :=
  match k with
  | SU64 | SI64 | SFix64 | SSFix64 | SDouble => raw mod two64
  | SU32 | SFix32 => raw mod two32
  | SI32 | SEnum => sext32 raw
  | SBool => if raw mod two64 =? 0 then 0 else 1
  | SZig32 => sext32 (unzig32 (raw mod two32))
  end.

Definition read_scalar (k : skind) (b : bytes) : option (N * bytes) :=
  match (match wire_of k with 1 => read_le 8 b | 5 => read_le 4 b | _ => read_varint b end) with
  | Some (raw, r) => Some (store k raw, r)
  | None => None
  end.

(* length-delimited payload: the length must fit into what is left *)
Definition read_ld (b : bytes) : option (bytes * bytes) :=
  match read_varint b with
  | Some (len, r) =>
      if len <=? blen r then Some (firstn (N.to_nat len) r, skipn (N.to_nat len) r) else None
  | None => None
  end.

(* packed elements: `for iNdEx < postIndex { read one element, bounds-checked against the END OF
   THE MESSAGE (l), not postIndex }` — the last element may run past the declared length *)
Fixpoint read_packed (k : skind) (fuel : nat) (remain : N) (r : bytes) : option (list pv * bytes) :=
  if remain =? 0 then Some ([], r) else
  match fuel with
  | O => None
  | S f =>
      match read_scalar k r with
      | None => None
      | Some (x, r') =>
          match read_packed k f (remain - (blen r - blen r')) r' with
          | Some (ys, r'') => Some (VInt x :: ys, r'')
          | None => None
          end
      end
  end.

Definition drop_exact (n : nat) (b : bytes) : option bytes :=
  if (n <=? length b)%nat then Some (skipn n b) else None.

Fixpoint skip_varint (fuel : nat) (b : bytes) : option bytes :=
  match fuel with
  | O => None
  | S f => match b with [] => None | x :: r => if x <? 128 then Some r else skip_varint f r end
  end.

(* skipX: skips one field (re-reading its tag), including nested groups *)
Fixpoint skip_go (fuel : nat) (depth : N) (b : bytes) : option bytes :=
  match fuel with
  | O => None
  | S f =>
      match read_varint b with
      | None => None
      | Some (w, r) =>
          let wt := w mod 8 in
          let k (o : option bytes) (depth' : N) : option bytes :=
            match o with
            | None => None
            | Some r' => if depth' =? 0 then Some r' else skip_go f depth' r'
            end in
          match wt with
          | 0 => k (skip_varint 10 r) depth
          | 1 => k (drop_exact 8 r) depth
          | 2 => k (option_map snd (read_ld r)) depth
          | 3 => k (Some r) (depth + 1)
          | 4 => if depth =? 0 then None else k (Some r) (depth - 1)
          | 5 => k (drop_exact 4 r) depth
          | _ => None
          end
      end
  end.
Definition skip_field (b : bytes) : option bytes := skip_go (length b) 0 b.

(* fieldNum := int32(wire >> 3); fieldNum <= 0 is an error *)
Definition fieldnum_of (w : N) : option N :=
  let f := (w / 8) mod two32 in if (f =? 0) || (two31 <=? f) then None else Some f.

Fixpoint find_field (ds : list fdesc) (fn : N) (i : nat) : option (nat * fdesc) :=
  match ds with
  | [] => None
  | d :: ds' => if fnum d =? fn then Some (i, d) else find_field ds' fn (S i)
  end.

Definition same_group (g : option N) (d : fdesc) : bool :=
  match g, fcd d with Some a, COneof b => a =? b | _, _ => false end.
Definition group_of (d : fdesc) : option N := match fcd d with COneof g => Some g | _ => None end.

(* assign slot i; selecting a oneof member deselects the other members of its group *)
Fixpoint set_slot_go (ds : list fdesc) (g : option N) (i j : nat) (v : pv) (cur : list pv) : list pv :=
  match ds, cur with
  | d :: ds', c :: cur' =>
      (if (j =? i)%nat then v else if same_group g d then VNone else c) :: set_slot_go ds' g i (S j) v cur'
  | _, _ => cur
  end.
Definition set_slot (ds : list fdesc) (g : option N) (i : nat) (v : pv) (cur : list pv) : list pv :=
  set_slot_go ds g i 0 v cur.

Definition all_zero (b : bytes) : bool := forallb (N.eqb 0) b.

(* one occurrence of a KNOWN field: wire type wt, r = bytes after the tag; old = current slot *)
Definition dec_slot (rec : nat -> list pv -> bytes -> option (list pv))
           (d : fdesc) (old : pv) (wt : N) (r : bytes) : option (pv * bytes) :=
  match fcd d, fty d with
  | COpt, TScalar k =>
      if wt =? wire_of k then
        match read_scalar k r with Some (x, r') => Some (VInt x, r') | None => None end
      else None
  | COneof _, TScalar k =>
      if wt =? wire_of k then
        match read_scalar k r with Some (x, r') => Some (VSome (VInt x), r') | None => None end
      else None
  | COpt, TBytes | COpt, TStr =>
      if wt =? 2 then match read_ld r with Some (p, r') => Some (VBytes p, r') | None => None end
      else None
  | COneof _, TBytes | COneof _, TStr =>
      if wt =? 2 then match read_ld r with Some (p, r') => Some (VSome (VBytes p), r') | None => None end
      else None
  | COpt, TId n =>
      if wt =? 2 then
        match read_ld r with
        | Some (p, r') =>
            if blen p =? 0 then Some (VBytes [], r')
            else if blen p =? n then Some (VBytes (if all_zero p then [] else p), r')
            else None
        | None => None
        end
      else None
  | COpt, TMsg m =>
      if wt =? 2 then
        match read_ld r, old with
        | Some (p, r'), VMsg cur =>
            match rec m cur p with Some fs => Some (VMsg fs, r') | None => None end
        | _, _ => None
        end
      else None
  | COneof _, TMsg m =>
      if wt =? 2 then
        match read_ld r with
        | Some (p, r') =>
            match rec m (mdefault (msg Sc m)) p with Some fs => Some (VSome (VMsg fs), r') | None => None end
        | None => None
        end
      else None
  | CRep, TMsg m =>
      if wt =? 2 then
        match read_ld r, old with
        | Some (p, r'), VRep xs =>
            match rec m (mdefault (msg Sc m)) p with
            | Some fs => Some (VRep (xs ++ [VMsg fs]), r')
            | None => None
            end
        | _, _ => None
        end
      else None
  | CRep, TBytes | CRep, TStr =>
      if wt =? 2 then
        match read_ld r, old with
        | Some (p, r'), VRep xs => Some (VRep (xs ++ [VBytes p]), r')
        | _, _ => None
        end
      else None
  | CPacked, TScalar k =>
      match old with
      | VRep xs =>
          if wt =? wire_of k then
            match read_scalar k r with Some (x, r') => Some (VRep (xs ++ [VInt x]), r') | None => None end
          else if wt =? 2 then
            match read_varint r with
            | Some (len, r1) =>
                if len <=? blen r1 then
                  match read_packed k (length r1) len r1 with
                  | Some (ys, r') => Some (VRep (xs ++ ys), r')
                  | None => None
                  end
                else None
            | None => None
            end
          else None
      | _ => None
      end
  | _, _ => None
  end.

(* the Unmarshal loop of one message; fuel bounds loop iterations + nesting (|input| suffices) *)
Fixpoint dec_fields (fuel : nat) (ds : list fdesc) (cur : list pv) (b : bytes) {struct fuel}
  : option (list pv) :=
  match b with
  | [] => Some cur
  | _ =>
      match fuel with
      | O => None
      | S f =>
          match read_varint b with
          | None => None
          | Some (w, r) =>
              let wt := w mod 8 in
              if wt =? 4 then None else
              match fieldnum_of w with
              | None => None
              | Some fn =>
                  match find_field ds fn 0 with
                  | Some (i, d) =>
                      match dec_slot (fun m cur' p => dec_fields f (mfields (msg Sc m)) cur' p)
                                     d (nth i cur VNone) wt r with
                      | Some (v', r') => dec_fields f ds (set_slot ds (group_of d) i v' cur) r'
                      | None => None
                      end
                  | None =>
                      match skip_field b with
                      | Some r' => dec_fields f ds cur r'
                      | None => None
                      end
                  end
              end
          end
      end
  end.

Definition decode (m : nat) (b : bytes) : option pv :=
  option_map VMsg (dec_fields (length b) (mfields (msg Sc m)) (mdefault (msg Sc m)) b).

(* ---------------------------------------------------------------------------------------------
   well-formedness of a schema, well-typed and canonical values (all decidable) *)
Definition card_type_ok (d : fdesc) : bool :=
  match fcd d, fty d with
  | COpt, _ => true
  | COneof _, TId _ => false
  | COneof _, _ => true
  | CRep, (TMsg _ | TBytes | TStr) => true
  | CPacked, TScalar _ => true
  | _, _ => false
  end.

Definition default_slot (d : fdesc) : pv :=
  match fcd d with
  | COpt =>
      match fty d with
      | TScalar _ => VInt 0
      | TBytes | TStr | TId _ => VBytes []
      | TMsg m => VMsg (mdefault (msg Sc m))
      end
  | COneof _ => VNone
  | CRep | CPacked => VRep []
  end.

Fixpoint pv_eqb (a b : pv) {struct a} : bool :=
  match a, b with
  | VInt x, VInt y => x =? y
  | VBytes x, VBytes y => list_eqb N.eqb x y
  | VMsg x, VMsg y | VRep x, VRep y =>
      (fix go (l1 l2 : list pv) {struct l1} : bool :=
         match l1, l2 with
         | [], [] => true
         | p :: l1', q :: l2' => pv_eqb p q && go l1' l2'
         | _, _ => false
         end) x y
  | VNone, VNone => true
  | VSome x, VSome y => pv_eqb x y
  | _, _ => false
  end.

Fixpoint nodupN (l : list N) : bool :=
  match l with [] => true | x :: r => negb (existsb (N.eqb x) r) && nodupN r end.

Definition fnum_ok (d : fdesc) : bool := (0 <? fnum d) && (fnum d <? 536870912).
Definition tmsg_ok (d : fdesc) : bool :=
  match fty d with TMsg m => (m <? length Sc)%nat | TId n => (0 <? n) && (n <? 128) | _ => true end.

Definition wf_msg (md : mdesc) : bool :=
  forallb (fun d => card_type_ok d && fnum_ok d && tmsg_ok d) (mfields md)
  && nodupN (map fnum (mfields md))
  && list_eqb pv_eqb (mdefault md) (map default_slot (mfields md)).

Definition wf_schema : bool := forallb wf_msg Sc.

(* (bytes are lists of N; that every element is < 256 is a convention of the model that no
   definition or proof depends on, so it is not part of `canonical`) *)
(* canonical: what a pdata value looks like after a decode — every slot has the shape its
   descriptor asks for, scalars are in range, at most one member per oneof group is selected,
   a selected member is not a nil pointer, ids are [] (all-zero) or n bytes not all zero, and a
   singular double is not -0.0 (the `!= 0` guard drops it). *)
Definition canon_scalar (k : skind) (n : N) : bool := in_range k n.
Definition is_byte (x : N) : bool := x <? 256.

Definition group_count (ds : list fdesc) (vs : list pv) (g : N) : nat :=
  length (filter (fun p => same_group (Some g) (fst p) && match snd p with VSome _ => true | _ => false end)
                 (combine ds vs)).

Definition canon_slot_with (rec : ftype -> pv -> bool) (d : fdesc) (v : pv) : bool :=
  match fcd d with
  | COpt =>
      match fty d, v with
      | TScalar SDouble, VInt n => rec (fty d) v && negb (n =? two63)
      | TScalar _, VInt _ => rec (fty d) v
      | TBytes, VBytes _ | TStr, VBytes _ | TId _, VBytes _ | TMsg _, VMsg _ => rec (fty d) v
      | _, _ => false
      end
  | COneof _ =>
      match v with
      | VNone => true
      | VSome v' =>
          match fty d, v' with
          | TScalar _, VInt _ | TBytes, VBytes _ | TStr, VBytes _ | TMsg _, VMsg _ => rec (fty d) v'
          | _, _ => false
          end
      | _ => false
      end
  | CRep =>
      match v with
      | VRep vs =>
          forallb (fun x => match fty d, x with
                            | TBytes, VBytes _ | TStr, VBytes _ | TMsg _, VMsg _ => rec (fty d) x
                            | _, _ => false end) vs
      | _ => false
      end
  | CPacked =>
      match v with
      | VRep vs => forallb (fun x => match fty d, x with TScalar _, VInt _ => rec (fty d) x | _, _ => false end) vs
      | _ => false
      end
  end.

Fixpoint canon_val (t : ftype) (v : pv) {struct v} : bool :=
  match v with
  | VInt n => match t with TScalar k => canon_scalar k n | _ => false end
  | VBytes b =>
      match t with
      | TBytes | TStr => true
      | TId n => (blen b =? 0) || ((blen b =? n) && negb (all_zero b))
      | _ => false
      end
  | VMsg fs =>
      match t with
      | TMsg m =>
          (fix go (ds : list fdesc) (vs : list pv) {struct vs} : bool :=
             match ds, vs with
             | [], [] => true
             | d :: ds', v' :: vs' => canon_slot_with canon_val d v' && go ds' vs'
             | _, _ => false
             end) (mfields (msg Sc m)) fs
          && forallb (fun d => match fcd d with
                               | COneof g => (group_count (mfields (msg Sc m)) fs g <=? 1)%nat
                               | _ => true end) (mfields (msg Sc m))
      | _ => false
      end
  | _ => false
  end.

Definition canon_slot : fdesc -> pv -> bool := canon_slot_with canon_val.

Fixpoint canon_fields (ds : list fdesc) (vs : list pv) : bool :=
  match ds, vs with
  | [], [] => true
  | d :: ds', v :: vs' => canon_slot d v && canon_fields ds' vs'
  | _, _ => false
  end.

Definition groups_ok (ds : list fdesc) (vs : list pv) : bool :=
  forallb (fun d => match fcd d with COneof g => (group_count ds vs g <=? 1)%nat | _ => true end) ds.

Definition canonical (m : nat) (v : pv) : bool := canon_val (TMsg m) v.

(* ---------------------------------------------------------------------------------------------
   what a protobuf round trip is known to change in a well-typed value: -0.0 in a singular
   double (dropped by the `!= 0` guard, comes back +0.0) and a selected oneof member that holds
   a nil pointer / nil []byte (not emitted, comes back unselected). *)
Definition norm_slot_with (rec : ftype -> pv -> pv) (d : fdesc) (v : pv) : pv :=
  match fcd d with
  | COpt =>
      match fty d, v with
      | TScalar SDouble, VInt n => if n =? two63 then VInt 0 else v
      | TMsg _, VMsg _ => rec (fty d) v
      | _, _ => v
      end
  | COneof _ =>
      match v with
      | VSome v' => match v' with VNone => VNone | _ => VSome (rec (fty d) v') end
      | _ => v
      end
  | CRep => match v with VRep vs => VRep (map (rec (fty d)) vs) | _ => v end
  | CPacked => v
  end.

Fixpoint norm_val (t : ftype) (v : pv) {struct v} : pv :=
  match v with
  | VMsg fs =>
      match t with
      | TMsg m =>
          VMsg ((fix go (ds : list fdesc) (vs : list pv) {struct vs} : list pv :=
                   match ds, vs with
                   | d :: ds', v' :: vs' => norm_slot_with norm_val d v' :: go ds' vs'
                   | _, _ => vs
                   end) (mfields (msg Sc m)) fs)
      | _ => v
      end
  | _ => v
  end.

Definition norm (m : nat) (v : pv) : pv := norm_val (TMsg m) v.

(* ---------------------------------------------------------------------------------------------
   pdata/internal/otlp/*.go: MigrateLogs / MigrateMetrics / MigrateTraces.
   For every element of the root's field 1 (resource_X):  if field 2 (scope_X) is empty it takes
   the value of field 1000 (deprecated_scope_X), and field 1000 is cleared. *)
Definition slot_index (ds : list fdesc) (fn : N) : option nat := option_map fst (find_field ds fn 0).

Fixpoint upd {A} (i : nat) (x : A) (l : list A) : list A :=
  match l, i with
  | [], _ => []
  | _ :: r, O => x :: r
  | a :: r, S i' => a :: upd i' x r
  end.

Definition migrate_resource (ds : list fdesc) (v : pv) : pv :=
  match v, slot_index ds 2, slot_index ds 1000 with
  | VMsg fs, Some i2, Some i1000 =>
      let fs' := match nth i2 fs VNone with VRep [] => upd i2 (nth i1000 fs VNone) fs | _ => fs end in
      VMsg (upd i1000 (VRep []) fs')
  | _, _, _ => v
  end.

Definition migrate (m : nat) (v : pv) : pv :=
  match v, find_field (mfields (msg Sc m)) 1 0 with
  | VMsg fs, Some (i1, d1) =>
      match fty d1, nth i1 fs VNone with
      | TMsg mr, VRep rs => VMsg (upd i1 (VRep (map (migrate_resource (mfields (msg Sc mr))) rs)) fs)
      | _, _ => v
      end
  | _, _ => v
  end.

(* ---------------------------------------------------------------------------------------------
   the public protobuf decode paths of a signal.  Every one of them runs otlp.MigrateX after the
   generated Unmarshal (plog/pb.go ProtoUnmarshaler.UnmarshalLogs, plogotlp.ExportRequest.UnmarshalProto;
   same for metrics, traces, profiles; the JSON paths — Json.of_json — as well); the generated
   Unmarshal itself (`decode`) does not. *)
Inductive pubpath := PProtoUnmarshaler | PExportRequestProto.
Definition path_migrates (p : pubpath) : bool :=
  match p with PProtoUnmarshaler => true | PExportRequestProto => true end.
Definition decode_path (p : pubpath) (m : nat) (b : bytes) : option pv :=
  if path_migrates p then option_map (migrate m) (decode m b) else decode m b.

(* no resource of the request carries the deprecated scope field (number 1000) *)
Definition no_dep_resource (ds : list fdesc) (r : pv) : bool :=
  match r, slot_index ds 1000 with
  | VMsg fs, Some i => pv_eqb (nth i fs VNone) (VRep [])
  | _, _ => true
  end.
Definition no_deprecated (m : nat) (v : pv) : bool :=
  match v, find_field (mfields (msg Sc m)) 1 0 with
  | VMsg fs, Some (i1, d1) =>
      match fty d1, nth i1 fs VNone with
      | TMsg mr, VRep rs => forallb (no_dep_resource (mfields (msg Sc mr))) rs
      | _, _ => true
      end
  | _, _ => true
  end.
(* every resource of the request has one slot per field of its message *)
Definition res_shaped (m : nat) (v : pv) : bool :=
  match v, find_field (mfields (msg Sc m)) 1 0 with
  | VMsg fs, Some (i1, d1) =>
      match fty d1, nth i1 fs VNone with
      | TMsg mr, VRep rs =>
          (i1 <? length fs)%nat &&
          forallb (fun r => match r with VMsg f => (length f =? length (mfields (msg Sc mr)))%nat | _ => false end) rs
      | _, _ => true
      end
  | _, _ => true
  end.

End Codec.

(* ---------------------------------------------------------------------------------------------
   successive Marshal calls.  Every marshaler of every signal (plog/pb.go, plog/json.go, p*otlp/request.go,
   response.go, ...) writes into a buffer of its own (`bytes.Buffer{}` on the stack, `make([]byte, size)`
   in the generated Marshal) and returns it: the result of a call is never touched by a later call.
   A heap of buffers makes that visible: a call allocates a new buffer and returns its handle; the
   caller looks at all the handles it kept AFTER all the calls. *)
Section Calls.
Context {A : Type}.
Variable enc : A -> bytes.
Definition cstate : Type := (list bytes * list nat)%type.       (* buffers allocated so far, handles returned so far *)
Definition call_fresh (s : cstate) (v : A) : cstate := (fst s ++ [enc v], snd s ++ [length (fst s)]).
Definition run_fresh (vs : list A) : cstate := fold_left call_fresh vs ([], []).
Definition observe (s : cstate) : list bytes := map (fun i => nth i (fst s) []) (snd s).
(* what a marshaler that recycles one buffer (a pool) would do — NOT the code; kept for the refutation *)
Definition call_pooled (s : cstate) (v : A) : cstate :=
  (match fst s with [] => [enc v] | _ :: r => enc v :: r end, snd s ++ [O]).
Definition run_pooled (vs : list A) : cstate := fold_left call_pooled vs ([], []).
End Calls.
