(* C08/Proofs4.v — the decoding loop on an encoded canonical message: slot by slot. *)
From Verif Require Import Common.Base C08.Model C08.Proofs1 C08.Proofs2 C08.Proofs3.
Require Import ZifyBool ZifyNat ZifyN.
Local Open Scope N_scope.

Section RT.
Variable Sc : schema.
Hypothesis Hwf : wf_schema Sc = true.

Section Slot.
Variable n : nat.
Hypothesis IHn : forall m fs,
  (length (enc_fields Sc (mfields (msg Sc m)) fs) < n)%nat ->
  canon_val Sc (TMsg m) (VMsg fs) = true ->
  blen (enc_fields Sc (mfields (msg Sc m)) fs) < two64 ->
  forall fuel, (length (enc_fields Sc (mfields (msg Sc m)) fs) <= fuel)%nat ->
  dec_fields Sc fuel (mfields (msg Sc m)) (mdefault (msg Sc m)) (enc_fields Sc (mfields (msg Sc m)) fs) = Some fs.
Variable ds : list fdesc.
Hypothesis Hnodup : nodupN (map fnum ds) = true.

Lemma nested_ok m fs f :
  canon_val Sc (TMsg m) (VMsg fs) = true ->
  (length (enc_val Sc (TMsg m) (VMsg fs)) < n)%nat ->
  blen (enc_val Sc (TMsg m) (VMsg fs)) < two64 ->
  (length (enc_val Sc (TMsg m) (VMsg fs)) <= f)%nat ->
  dec_fields Sc f (mfields (msg Sc m)) (mdefault (msg Sc m)) (enc_val Sc (TMsg m) (VMsg fs)) = Some fs.
Proof. rewrite enc_val_msg. intros. apply IHn; auto. Qed.

Lemma occ_step f cur i d wt payload rest res :
  fnum_ok d = true -> wt < 8 -> wt <> 4 -> find_field ds (fnum d) 0 = Some (i, d) ->
  dec_slot Sc (fun m cur' p => dec_fields Sc f (mfields (msg Sc m)) cur' p) d (nth i cur VNone) wt (payload ++ rest)
    = Some (res, rest) ->
  dec_fields Sc (S f) ds cur ((varint (tagv d wt) ++ payload) ++ rest)
  = dec_fields Sc f ds (set_slot ds (group_of d) i res cur) rest.
Proof.
  intros Hf Hw H4 Hfind Hd. rewrite <- app_assoc. rewrite (dec_fields_step Sc f ds cur d i wt _ Hf Hw H4 Hfind).
  rewrite Hd. reflexivity.
Qed.

(* one tagged occurrence of a value x of field d: fuel accounting *)
Ltac fuel_tac Hfuel :=
  repeat rewrite app_length in Hfuel;
  match type of Hfuel with context [length (varint ?t)] => pose proof (varint_len_pos t) end; lia.

Lemma slot_packed fuel rest cur pre d suf v :
  fcd d = CPacked ->
  ds = pre ++ d :: suf ->
  field_ok Sc d ->
  (length ds = length cur)%nat ->
  nth (length pre) cur VNone = default_slot Sc d ->
  (forall g, fcd d = COneof g -> v <> VNone ->
     forall k d', nth_error ds k = Some d' -> k <> length pre -> same_group (Some g) d' = true ->
                  nth k cur VNone = VNone) ->
  canon_slot Sc d v = true ->
  (length (enc_slot Sc d v) <= n)%nat ->
  blen (enc_slot Sc d v) < two64 ->
  (length (enc_slot Sc d v ++ rest) <= fuel)%nat ->
  exists fuel', (length rest <= fuel')%nat /\
    dec_fields Sc fuel ds cur (enc_slot Sc d v ++ rest) = dec_fields Sc fuel' ds (upd (length pre) v cur) rest.
Proof.
  intros Hcd Hds (Hct & Hfn & Htm) Hlen Hnth Hgrp Hcan Hn Hb Hfuel.
  assert (Hfind : find_field ds (fnum d) 0 = Some (length pre, d)).
  { subst ds. apply (find_field_middle pre d suf 0%nat). exact Hnodup. }
  assert (Hnone : forall x c, (length ds = length c)%nat -> set_slot ds None (length pre) x c = upd (length pre) x c).
  { intros x c Hl. apply set_slot_upd; [|exact Hl]. intros k d' _ _ H. discriminate H. }
  assert (Hsame : upd (length pre) (default_slot Sc d) cur = cur).
  { rewrite <- Hnth. apply upd_nth. }
  assert (H24 : 2 <> 4) by discriminate.
  assert (H28 : 2 < 8) by reflexivity.
  unfold enc_slot, enc_slot_with, canon_slot, canon_slot_with in *.
  rewrite Hcd in *.
    destruct v; try discriminate Hcan.
    unfold card_type_ok in Hct. rewrite Hcd in Hct.
    destruct (fty d) eqn:Hty; try discriminate Hct.
    destruct (packed_values Sc d k vs Hty) as (ns & -> & Hr).
    { rewrite Hty. exact Hcan. }
    destruct ns as [|x ns].
    + exists fuel. split; [exact Hfuel|]. cbn [map app].
      replace (VRep []) with (default_slot Sc d) by (unfold default_slot; rewrite Hcd; reflexivity).
      rewrite Hsame. reflexivity.
    + cbn [map] in Hn, Hb, Hfuel |- *. cbv beta iota zeta in Hn, Hb, Hfuel |- *.
      change (VInt x :: map VInt ns) with (map VInt (x :: ns)) in *.
      rewrite flat_map_enc_scalar in *.
      destruct fuel as [|f]; [fuel_tac Hfuel|].
      exists f. split; [fuel_tac Hfuel|].
      rewrite (occ_step f cur (length pre) d 2 _ rest (VRep ([] ++ map VInt (x :: ns))) Hfn H28 H24 Hfind).
      * unfold group_of. rewrite Hcd. rewrite Hnone by exact Hlen. reflexivity.
      * rewrite <- app_assoc. rewrite Hnth. unfold default_slot. rewrite Hcd.
        apply dec_packed; auto. rewrite !blen_app in Hb. lia.
Qed.

Lemma slot_step fuel rest cur pre d suf v :
  ds = pre ++ d :: suf ->
  field_ok Sc d ->
  (length ds = length cur)%nat ->
  nth (length pre) cur VNone = default_slot Sc d ->
  (forall g, fcd d = COneof g -> v <> VNone ->
     forall k d', nth_error ds k = Some d' -> k <> length pre -> same_group (Some g) d' = true ->
                  nth k cur VNone = VNone) ->
  canon_slot Sc d v = true ->
  (length (enc_slot Sc d v) <= n)%nat ->
  blen (enc_slot Sc d v) < two64 ->
  (length (enc_slot Sc d v ++ rest) <= fuel)%nat ->
  exists fuel', (length rest <= fuel')%nat /\
    dec_fields Sc fuel ds cur (enc_slot Sc d v ++ rest) = dec_fields Sc fuel' ds (upd (length pre) v cur) rest.
Proof.
  intros Hds Hok Hlen Hnth Hgrp Hcan Hn Hb Hfuel.
  assert (Hp : fcd d = CPacked \/ fcd d <> CPacked) by (destruct (fcd d); auto; right; discriminate).
  destruct Hp as [Hp|Hp]; [eapply slot_packed; eauto|].
  destruct Hok as (Hct & Hfn & Htm).
  assert (Hfind : find_field ds (fnum d) 0 = Some (length pre, d)).
  { subst ds. apply (find_field_middle pre d suf 0%nat). exact Hnodup. }
  assert (Hnone : forall x c, (length ds = length c)%nat -> set_slot ds None (length pre) x c = upd (length pre) x c).
  { intros x c Hl. apply set_slot_upd; [|exact Hl]. intros k d' _ _ H. discriminate H. }
  assert (Hsame : upd (length pre) (default_slot Sc d) cur = cur).
  { rewrite <- Hnth. apply upd_nth. }
  assert (Hi : (length pre < length cur)%nat).
  { rewrite <- Hlen, Hds, app_length. cbn [length]. lia. }
  assert (H24 : 2 <> 4) by discriminate.
  assert (H28 : 2 < 8) by reflexivity.
  unfold enc_slot, enc_slot_with, canon_slot, canon_slot_with in *.
  destruct (fcd d) eqn:Hcd.
  - (* COpt *)

    destruct (fty d) eqn:Hty; destruct v; try discriminate Hcan; try (destruct k; discriminate Hcan).
    + (* scalar *)
      assert (Hr : in_range k n0 = true /\ (is_zero k n0 = true -> n0 = 0)).
      { destruct k; cbn [canon_val canon_scalar is_zero] in Hcan |- *;
          try (split; [exact Hcan | intros H0; apply N.eqb_eq in H0; exact H0]).
        apply andb_true_iff in Hcan. destruct Hcan as [H1 H2]. split; [exact H1|].
        intros H0. apply negb_true_iff in H2. rewrite H2, orb_false_r in H0. apply N.eqb_eq in H0. exact H0. }
      destruct Hr as [Hr Hz0].
      destruct (is_zero k n0) eqn:Hz.
      * rewrite (Hz0 eq_refl). exists fuel. split; [exact Hfuel|]. cbn [app].
        replace (VInt 0) with (default_slot Sc d) by (unfold default_slot; rewrite Hcd, Hty; reflexivity).
        rewrite Hsame. reflexivity.
      * unfold enc_one in *. rewrite Hty in *. cbn [enc_val] in *.
        destruct fuel as [|f]; [fuel_tac Hfuel|].
        exists f. split; [fuel_tac Hfuel|].
        rewrite (occ_step f cur (length pre) d (wire_of k) _ rest (VInt n0) Hfn (wire_of_lt8 k)); auto.
        -- unfold group_of. rewrite Hcd. rewrite Hnone by exact Hlen. reflexivity.
        -- intros E. pose proof (wire_of_not4 k) as E4. rewrite E in E4. discriminate E4.
        -- apply dec_scalar_opt; auto.
    + (* bytes *)
      destruct b as [|y b'].
      * exists fuel. split; [exact Hfuel|]. cbn [app].
        replace (VBytes []) with (default_slot Sc d) by (unfold default_slot; rewrite Hcd, Hty; reflexivity).
        rewrite Hsame. reflexivity.
      * unfold enc_one in *. rewrite Hty in *. cbn [enc_val] in *. cbv zeta in *.
        destruct fuel as [|f]; [fuel_tac Hfuel|].
        exists f. split; [fuel_tac Hfuel|].
        rewrite (occ_step f cur (length pre) d 2 _ rest (VBytes (y :: b')) Hfn H28 H24 Hfind).
        -- unfold group_of. rewrite Hcd. rewrite Hnone by exact Hlen. reflexivity.
        -- rewrite <- app_assoc. apply dec_bytes_opt; auto. rewrite !blen_app in Hb. lia.
    + (* string *)
      destruct b as [|y b'].
      * exists fuel. split; [exact Hfuel|]. cbn [app].
        replace (VBytes []) with (default_slot Sc d) by (unfold default_slot; rewrite Hcd, Hty; reflexivity).
        rewrite Hsame. reflexivity.
      * unfold enc_one in *. rewrite Hty in *. cbn [enc_val] in *. cbv zeta in *.
        destruct fuel as [|f]; [fuel_tac Hfuel|].
        exists f. split; [fuel_tac Hfuel|].
        rewrite (occ_step f cur (length pre) d 2 _ rest (VBytes (y :: b')) Hfn H28 H24 Hfind).
        -- unfold group_of. rewrite Hcd. rewrite Hnone by exact Hlen. reflexivity.
        -- rewrite <- app_assoc. apply dec_bytes_opt; auto. rewrite !blen_app in Hb. lia.
    + (* id *)
      unfold enc_one in *. rewrite Hty in *. cbn [enc_val canon_val] in *. cbv zeta in *.
      destruct fuel as [|f]; [fuel_tac Hfuel|].
      exists f. split; [fuel_tac Hfuel|].
      rewrite (occ_step f cur (length pre) d 2 _ rest (VBytes b) Hfn H28 H24 Hfind).
      -- unfold group_of. rewrite Hcd. rewrite Hnone by exact Hlen. reflexivity.
      -- rewrite <- app_assoc. eapply dec_id_opt; eauto. rewrite !blen_app in Hb. lia.
    + (* embedded message *)
      unfold enc_one in *. rewrite Hty in *. cbv zeta in *.
      destruct fuel as [|f]; [fuel_tac Hfuel|].
      exists f. split; [fuel_tac Hfuel|].
      rewrite (occ_step f cur (length pre) d 2 _ rest (VMsg fs) Hfn H28 H24 Hfind).
      -- unfold group_of. rewrite Hcd. rewrite Hnone by exact Hlen. reflexivity.
      -- rewrite <- app_assoc. rewrite Hnth. unfold default_slot. rewrite Hcd, Hty.
         apply (dec_msg_opt Sc (fun m cur' p => dec_fields Sc f (mfields (msg Sc m)) cur' p) d (mdefault (msg Sc m)) m _ fs rest); auto.
         ++ rewrite !blen_app in Hb. lia.
         ++ apply nested_ok; auto.
            ** fuel_tac Hn.
            ** rewrite !blen_app in Hb. lia.
            ** fuel_tac Hfuel.
  - (* COneof *)
    destruct v; try discriminate Hcan.
    + exists fuel. split; [exact Hfuel|]. cbn [app].
      assert (E : default_slot Sc d = VNone) by (unfold default_slot; rewrite Hcd; reflexivity).
      rewrite E in Hsame. rewrite Hsame. reflexivity.
    + assert (Hset : forall x, set_slot ds (group_of d) (length pre) (VSome x) cur = upd (length pre) (VSome x) cur).
      { intros x. unfold group_of. rewrite Hcd. apply set_slot_upd; [|exact Hlen].
        intros k d' Hk Hne Hg. apply (Hgrp g eq_refl) with (d' := d'); auto. discriminate. }
      destruct (fty d) eqn:Hty; destruct v; try discriminate Hcan.
      * (* scalar *)
        unfold enc_one in *. rewrite Hty in *. cbn [enc_val canon_val] in *. unfold canon_scalar in Hcan.
        destruct fuel as [|f]; [fuel_tac Hfuel|].
        exists f. split; [fuel_tac Hfuel|].
        rewrite (occ_step f cur (length pre) d (wire_of k) _ rest (VSome (VInt n0)) Hfn (wire_of_lt8 k)); auto.
        -- rewrite Hset. reflexivity.
        -- intros E. pose proof (wire_of_not4 k) as E4. rewrite E in E4. discriminate E4.
        -- eapply dec_scalar_oneof; eauto.
      * (* bytes *)
        unfold enc_one in *. rewrite Hty in *. cbn [enc_val] in *. cbv zeta in *.
        destruct fuel as [|f]; [fuel_tac Hfuel|].
        exists f. split; [fuel_tac Hfuel|].
        rewrite (occ_step f cur (length pre) d 2 _ rest (VSome (VBytes b)) Hfn H28 H24 Hfind); [rewrite Hset; reflexivity|].
        rewrite <- app_assoc. eapply dec_bytes_oneof; eauto. rewrite !blen_app in Hb. lia.
      * (* string *)
        unfold enc_one in *. rewrite Hty in *. cbn [enc_val] in *. cbv zeta in *.
        destruct fuel as [|f]; [fuel_tac Hfuel|].
        exists f. split; [fuel_tac Hfuel|].
        rewrite (occ_step f cur (length pre) d 2 _ rest (VSome (VBytes b)) Hfn H28 H24 Hfind); [rewrite Hset; reflexivity|].
        rewrite <- app_assoc. eapply dec_bytes_oneof; eauto. rewrite !blen_app in Hb. lia.
      * (* message *)
        unfold enc_one in *. rewrite Hty in *. cbv zeta in *.
        destruct fuel as [|f]; [fuel_tac Hfuel|].
        exists f. split; [fuel_tac Hfuel|].
        rewrite (occ_step f cur (length pre) d 2 _ rest (VSome (VMsg fs)) Hfn H28 H24 Hfind); [rewrite Hset; reflexivity|].
        rewrite <- app_assoc.
        apply (dec_msg_oneof Sc (fun m cur' p => dec_fields Sc f (mfields (msg Sc m)) cur' p) d _ g m _ fs rest); auto.
        -- rewrite !blen_app in Hb. lia.
        -- apply nested_ok; auto.
           ++ fuel_tac Hn.
           ++ rewrite !blen_app in Hb. lia.
           ++ fuel_tac Hfuel.
  - (* CRep *)
    destruct v; try discriminate Hcan.
    assert (E1 : forall e xs c f rest',
               (length ds = length c)%nat -> nth (length pre) c VNone = VRep xs ->
               match fty d, e with
               | TBytes, VBytes _ | TStr, VBytes _ | TMsg _, VMsg _ => canon_val Sc (fty d) e
               | _, _ => false
               end = true ->
               (length (enc_one (enc_val Sc) d e) <= n)%nat ->
               blen (enc_one (enc_val Sc) d e) < two64 ->
               (length (enc_one (enc_val Sc) d e ++ rest') <= S f)%nat ->
               (length rest' <= f)%nat /\
               dec_fields Sc (S f) ds c (enc_one (enc_val Sc) d e ++ rest')
               = dec_fields Sc f ds (upd (length pre) (VRep (xs ++ [e])) c) rest').
    { intros e xs c f rest' Hl Hx He Hn1 Hb1 Hf1.
      destruct (fty d) eqn:Hty; destruct e; try discriminate He.
      - unfold enc_one in *. rewrite Hty in *. cbn [enc_val] in *. cbv zeta in *.
        split; [fuel_tac Hf1|].
        rewrite (occ_step f c (length pre) d 2 _ rest' (VRep (xs ++ [VBytes b])) Hfn H28 H24 Hfind).
        + unfold group_of. rewrite Hcd. rewrite Hnone by exact Hl. reflexivity.
        + rewrite <- app_assoc. rewrite Hx. apply dec_bytes_rep; auto. rewrite !blen_app in Hb1. lia.
      - unfold enc_one in *. rewrite Hty in *. cbn [enc_val] in *. cbv zeta in *.
        split; [fuel_tac Hf1|].
        rewrite (occ_step f c (length pre) d 2 _ rest' (VRep (xs ++ [VBytes b])) Hfn H28 H24 Hfind).
        + unfold group_of. rewrite Hcd. rewrite Hnone by exact Hl. reflexivity.
        + rewrite <- app_assoc. rewrite Hx. apply dec_bytes_rep; auto. rewrite !blen_app in Hb1. lia.
      - unfold enc_one in *. rewrite Hty in *. cbv zeta in *.
        split; [fuel_tac Hf1|].
        rewrite (occ_step f c (length pre) d 2 _ rest' (VRep (xs ++ [VMsg fs])) Hfn H28 H24 Hfind).
        + unfold group_of. rewrite Hcd. rewrite Hnone by exact Hl. reflexivity.
        + rewrite <- app_assoc. rewrite Hx.
          apply (dec_msg_rep Sc (fun m cur' p => dec_fields Sc f (mfields (msg Sc m)) cur' p) d xs m _ fs rest'); auto.
          * rewrite !blen_app in Hb1. lia.
          * apply nested_ok; auto.
            -- fuel_tac Hn1.
            -- rewrite !blen_app in Hb1. lia.
            -- fuel_tac Hf1. }
    assert (G : forall es xs c fuel,
               (length ds = length c)%nat -> nth (length pre) c VNone = VRep xs ->
               forallb (fun x => match fty d, x with
                                 | TBytes, VBytes _ | TStr, VBytes _ | TMsg _, VMsg _ => canon_val Sc (fty d) x
                                 | _, _ => false end) es = true ->
               (length (flat_map (enc_one (enc_val Sc) d) es) <= n)%nat ->
               blen (flat_map (enc_one (enc_val Sc) d) es) < two64 ->
               (length (flat_map (enc_one (enc_val Sc) d) es ++ rest) <= fuel)%nat ->
               exists fuel', (length rest <= fuel')%nat /\
                 dec_fields Sc fuel ds c (flat_map (enc_one (enc_val Sc) d) es ++ rest)
                 = dec_fields Sc fuel' ds (upd (length pre) (VRep (xs ++ es)) c) rest).
    { induction es as [|e vs' IH]; intros xs c fu Hl Hx Hall Hn1 Hb1 Hf1.
      - exists fu. split; [exact Hf1|]. cbn [flat_map app]. rewrite app_nil_r, <- Hx, upd_nth. reflexivity.
      - cbn [flat_map forallb] in *. apply andb_true_iff in Hall. destruct Hall as [He Hall].
        rewrite <- app_assoc in *. rewrite app_length in Hn1. rewrite blen_app in Hb1.
        assert (Hpos : (1 <= length (enc_one (enc_val Sc) d e))%nat).
        { unfold enc_one. destruct (fty d); rewrite app_length;
            match goal with |- context [length (varint ?t)] => pose proof (varint_len_pos t) end; lia. }
        destruct fu as [|f]; [rewrite app_length in Hf1; lia|].
        destruct (E1 e xs c f (flat_map (enc_one (enc_val Sc) d) vs' ++ rest) Hl Hx He) as [Hf2 Hstep]; [lia|lia|exact Hf1|].
        rewrite Hstep.
        assert (Hi' : (length pre < length c)%nat).
        { rewrite <- Hl, Hds, app_length. cbn [length]. lia. }
        destruct (IH (xs ++ [e]) (upd (length pre) (VRep (xs ++ [e])) c) f) as (fuel' & Hfu & Heq); auto.
        + rewrite upd_length. exact Hl.
        + apply nth_upd_same. exact Hi'.
        + lia.
        + lia.
        + exists fuel'. split; [exact Hfu|]. rewrite Heq, upd_upd, <- app_assoc. reflexivity. }
    apply (G vs [] cur fuel); auto.
    rewrite Hnth. unfold default_slot. rewrite Hcd. reflexivity.
  - (* CPacked *)
    congruence.
Qed.
End Slot.
End RT.
