(* C08/Proofs3.v — decode (encode v) = v for every well-formed schema and canonical value. *)
From Verif Require Import Common.Base C08.Model C08.Proofs1 C08.Proofs2.
Require Import ZifyBool ZifyNat ZifyN.
Local Open Scope N_scope.

(* ---------------------------------------------------------------------------------------------
   generic list facts *)
Lemma upd_length {A} i (x : A) l : length (upd i x l) = length l.
Proof. revert i; induction l as [|a l IH]; intros [|i]; cbn [upd length]; auto. Qed.

Lemma upd_middle {A} (pre : list A) x y suf : upd (length pre) y (pre ++ x :: suf) = pre ++ y :: suf.
Proof. induction pre as [|a pre IH]; cbn [length app upd]; [reflexivity|]. f_equal. exact IH. Qed.

Lemma nth_middle' {A} (pre : list A) x suf dflt : nth (length pre) (pre ++ x :: suf) dflt = x.
Proof. induction pre; cbn; auto. Qed.

Lemma nth_error_middle {A} (pre : list A) x suf : nth_error (pre ++ x :: suf) (length pre) = Some x.
Proof. induction pre; cbn; auto. Qed.

Lemma upd_upd {A} i (x y : A) l : upd i y (upd i x l) = upd i y l.
Proof. revert i; induction l as [|a l IH]; intros [|i]; cbn [upd]; auto. f_equal. apply IH. Qed.

Lemma nth_upd_same {A} i (x : A) l dflt : (i < length l)%nat -> nth i (upd i x l) dflt = x.
Proof.
  revert i; induction l as [|a l IH]; intros [|i] H; cbn [upd nth length] in *; try lia; auto.
  apply IH. lia.
Qed.

Lemma filter_len1 {A} (p : A -> bool) l : forall k b,
  nth_error l k = Some b -> p b = true -> (1 <= length (filter p l))%nat.
Proof.
  induction l as [|a l IH]; intros [|k] b Hk Hb; cbn in Hk; try discriminate.
  - inversion Hk; subst. cbn [filter]. rewrite Hb. cbn. lia.
  - cbn [filter]. specialize (IH k b Hk Hb). destruct (p a); cbn [length]; lia.
Qed.

Lemma filter_len2 {A} (p : A -> bool) l : forall i k a b, (i < k)%nat ->
  nth_error l i = Some a -> nth_error l k = Some b -> p a = true -> p b = true ->
  (2 <= length (filter p l))%nat.
Proof.
  induction l as [|c l IH]; intros [|i] [|k] a b Hik Hi Hk Ha Hb; cbn in Hi, Hk; try discriminate; try lia.
  - inversion Hi; subst. cbn [filter]. rewrite Ha. cbn [length].
    pose proof (filter_len1 p l k b Hk Hb). lia.
  - cbn [filter]. assert (H : (2 <= length (filter p l))%nat) by (eapply (IH i k a b); eauto; lia).
    destruct (p c); cbn [length]; lia.
Qed.

Lemma nth_error_combine {A B} (l1 : list A) : forall (l2 : list B) i a b,
  nth_error l1 i = Some a -> nth_error l2 i = Some b -> nth_error (combine l1 l2) i = Some (a, b).
Proof.
  induction l1 as [|x l1 IH]; intros [|y l2] [|i] a b H1 H2; cbn in *; try discriminate.
  - inversion H1; inversion H2; subst; reflexivity.
  - apply IH; assumption.
Qed.

(* ---------------------------------------------------------------------------------------------
   equality test on value trees *)
Lemma pv_eqb_eq a : forall b, pv_eqb a b = true -> a = b.
Proof.
  induction a as [n|x|fs IH|vs IH| |v IH] using pv_ind'; intros b H; destruct b; cbn [pv_eqb] in H; try discriminate.
  - apply N.eqb_eq in H. congruence.
  - f_equal. apply (list_eqb_spec N.eqb N.eqb_eq). exact H.
  - f_equal. revert fs0 H. induction IH as [|p l Hp _ IHl]; intros [|q l2] H; try discriminate; auto.
    apply andb_true_iff in H. destruct H as [H1 H2]. f_equal; auto.
  - f_equal. revert vs0 H. induction IH as [|p l Hp _ IHl]; intros [|q l2] H; try discriminate; auto.
    apply andb_true_iff in H. destruct H as [H1 H2]. f_equal; auto.
  - reflexivity.
  - f_equal. auto.
Qed.

Lemma list_pv_eqb_eq l1 : forall l2, list_eqb pv_eqb l1 l2 = true -> l1 = l2.
Proof.
  induction l1 as [|a l1 IH]; intros [|b l2] H; cbn in H; try discriminate; auto.
  apply andb_true_iff in H. destruct H. f_equal; auto using pv_eqb_eq.
Qed.

(* ---------------------------------------------------------------------------------------------
   find_field on a duplicate-free field list *)
Lemma find_field_none ds fn : forall j,
  existsb (N.eqb fn) (map fnum ds) = false -> find_field ds fn j = None.
Proof.
  induction ds as [|d ds IH]; intros j H; cbn in *; [reflexivity|].
  apply orb_false_iff in H. destruct H as [H1 H2].
  rewrite N.eqb_sym, H1. apply IH. exact H2.
Qed.

Lemma find_field_middle pre d suf : forall j,
  nodupN (map fnum (pre ++ d :: suf)) = true ->
  find_field (pre ++ d :: suf) (fnum d) j = Some ((j + length pre)%nat, d).
Proof.
  induction pre as [|a pre IH]; intros j H; cbn [app map nodupN find_field length] in *.
  - rewrite N.eqb_refl. f_equal. f_equal. lia.
  - apply andb_true_iff in H. destruct H as [H1 H2].
    apply negb_true_iff in H1. rewrite map_app, existsb_app in H1. apply orb_false_iff in H1.
    destruct H1 as [_ H1]. cbn in H1. apply orb_false_iff in H1. destruct H1 as [H1 _].
    rewrite H1. rewrite IH by exact H2. f_equal. f_equal. lia.
Qed.

(* ---------------------------------------------------------------------------------------------
   set_slot is a plain update when the other members of the oneof group are already clear *)
Lemma set_slot_go_past g i v : forall ds cur j, (i < j)%nat ->
  (forall k d, nth_error ds k = Some d -> same_group g d = true -> nth k cur VNone = VNone) ->
  set_slot_go ds g i j v cur = cur.
Proof.
  induction ds as [|d ds IH]; intros [|c cur] j Hj Hc; cbn [set_slot_go]; try reflexivity.
  destruct (Nat.eqb_spec j i); [lia|].
  f_equal.
  - destruct (same_group g d) eqn:E; [|reflexivity]. symmetry. apply (Hc 0%nat d eq_refl E).
  - apply IH; [lia|]. intros k d' Hk Hg. apply (Hc (S k) d' Hk Hg).
Qed.

Lemma set_slot_go_upd g v : forall i ds cur j,
  (forall k d, nth_error ds k = Some d -> k <> i -> same_group g d = true -> nth k cur VNone = VNone) ->
  (length ds = length cur)%nat ->
  set_slot_go ds g (j + i) j v cur = upd i v cur.
Proof.
  induction i as [|i IH]; intros [|d ds] [|c cur] j Hc Hl; cbn [set_slot_go upd length] in *; try reflexivity; try lia.
  - rewrite Nat.add_0_r, Nat.eqb_refl. f_equal.
    apply set_slot_go_past; [lia|]. intros k d' Hk Hg. apply (Hc (S k) d' Hk); [lia|exact Hg].
  - destruct (Nat.eqb_spec j (j + S i)); [lia|]. f_equal.
    + destruct (same_group g d) eqn:E; [|reflexivity]. symmetry. apply (Hc 0%nat d eq_refl); [lia|exact E].
    + replace (j + S i)%nat with (S j + i)%nat by lia. apply IH; [|lia].
      intros k d' Hk Hne Hg. apply (Hc (S k) d' Hk); [lia|exact Hg].
Qed.

Lemma set_slot_upd ds g i v cur :
  (forall k d, nth_error ds k = Some d -> k <> i -> same_group g d = true -> nth k cur VNone = VNone) ->
  (length ds = length cur)%nat ->
  set_slot ds g i v cur = upd i v cur.
Proof. intros. unfold set_slot. apply (set_slot_go_upd g v i ds cur 0%nat); assumption. Qed.

Lemma same_group_none d : same_group None d = false.
Proof. reflexivity. Qed.
