(* C08/Proofs3.v — decode (encode v) = v for every well-formed schema and canonical value. *)
From Verif Require Import Common.Base C08.Model C08.Proofs1 C08.Proofs2.
Require Import ZifyBool ZifyNat ZifyN.
Local Open Scope N_scope.

(* ---------------------------------------------------------------------------------------------
   generic list facts *)
Lemma upd_length {A} i (x : A) l : length (upd i x l) = length l.
Proof. revert i; induction l as [|a l IH]; intros [|i]; cbn [upd length]; auto. Qed.

Lemma upd_middle {A} (pre : list A) x y suf : upd (length pre) y (pre ++ x :: suf) = pre ++ y :: suf.
Proof. induction pre as [|a pre IH]; cbn [length app upd]; [reflexivity|]. f_equal. exact IH. Qed.

Lemma nth_middle' {A} (pre : list A) x suf dflt : nth (length pre) (pre ++ x :: suf) dflt = x.
Proof. induction pre; cbn; auto. Qed.

Lemma nth_error_middle {A} (pre : list A) x suf : nth_error (pre ++ x :: suf) (length pre) = Some x.
Proof. induction pre; cbn; auto. Qed.

Lemma upd_upd {A} i (x y : A) l : upd i y (upd i x l) = upd i y l.
Proof. revert i; induction l as [|a l IH]; intros [|i]; cbn [upd]; auto. f_equal. apply IH. Qed.

Lemma nth_upd_same {A} i (x : A) l dflt : (i < length l)%nat -> nth i (upd i x l) dflt = x.
Proof.
  revert i; induction l as [|a l IH]; intros [|i] H; cbn [upd nth length] in *; try lia; auto.
  apply IH. lia.
Qed.

Lemma filter_len1 {A} (p : A -> bool) l : forall k b,
  nth_error l k = Some b -> p b = true -> (1 <= length (filter p l))%nat.
Proof.
  induction l as [|a l IH]; intros [|k] b Hk Hb; cbn in Hk; try discriminate.
  - inversion Hk; subst. cbn [filter]. rewrite Hb. cbn. lia.
  - cbn [filter]. specialize (IH k b Hk Hb). destruct (p a); cbn [length]; lia.
Qed.

Lemma filter_len2 {A} (p : A -> bool) l : forall i k a b, (i < k)%nat ->
  nth_error l i = Some a -> nth_error l k = Some b -> p a = true -> p b = true ->
  (2 <= length (filter p l))%nat.
Proof.
  induction l as [|c l IH]; intros [|i] [|k] a b Hik Hi Hk Ha Hb; cbn in Hi, Hk; try discriminate; try lia.
  - inversion Hi; subst. cbn [filter]. rewrite Ha. cbn [length].
    pose proof (filter_len1 p l k b Hk Hb). lia.
  - cbn [filter]. assert (H : (2 <= length (filter p l))%nat) by (eapply (IH i k a b); eauto; lia).
    destruct (p c); cbn [length]; lia.
Qed.

Lemma nth_error_combine {A B} (l1 : list A) : forall (l2 : list B) i a b,
  nth_error l1 i = Some a -> nth_error l2 i = Some b -> nth_error (combine l1 l2) i = Some (a, b).
Proof.
  induction l1 as [|x l1 IH]; intros [|y l2] [|i] a b H1 H2; cbn in *; try discriminate.
  - inversion H1; inversion H2; subst; reflexivity.
  - apply IH; assumption.
Qed.

(* ---------------------------------------------------------------------------------------------
   equality test on value trees *)
Lemma pv_eqb_eq a : forall b, pv_eqb a b = true -> a = b.
Proof.
  induction a as [n|x|fs IH|vs IH| |v IH] using pv_ind'; intros b H; destruct b; cbn [pv_eqb] in H; try discriminate.
  - apply N.eqb_eq in H. congruence.
  - f_equal. apply (list_eqb_spec N.eqb N.eqb_eq). exact H.
  - f_equal. revert fs0 H. induction IH as [|p l Hp _ IHl]; intros [|q l2] H; try discriminate; auto.
    apply andb_true_iff in H. destruct H as [H1 H2]. f_equal; auto.
  - f_equal. revert vs0 H. induction IH as [|p l Hp _ IHl]; intros [|q l2] H; try discriminate; auto.
    apply andb_true_iff in H. destruct H as [H1 H2]. f_equal; auto.
  - reflexivity.
  - f_equal. auto.
Qed.

Lemma list_pv_eqb_eq l1 : forall l2, list_eqb pv_eqb l1 l2 = true -> l1 = l2.
Proof.
  induction l1 as [|a l1 IH]; intros [|b l2] H; cbn in H; try discriminate; auto.
  apply andb_true_iff in H. destruct H. f_equal; auto using pv_eqb_eq.
Qed.

(* ---------------------------------------------------------------------------------------------
   find_field on a duplicate-free field list *)
Lemma find_field_none ds fn : forall j,
  existsb (N.eqb fn) (map fnum ds) = false -> find_field ds fn j = None.
Proof.
  induction ds as [|d ds IH]; intros j H; cbn in *; [reflexivity|].
  apply orb_false_iff in H. destruct H as [H1 H2].
  rewrite N.eqb_sym, H1. apply IH. exact H2.
Qed.

Lemma find_field_middle pre d suf : forall j,
  nodupN (map fnum (pre ++ d :: suf)) = true ->
  find_field (pre ++ d :: suf) (fnum d) j = Some ((j + length pre)%nat, d).
Proof.
  induction pre as [|a pre IH]; intros j H; cbn [app map nodupN find_field length] in *.
  - rewrite N.eqb_refl. f_equal. f_equal. lia.
  - apply andb_true_iff in H. destruct H as [H1 H2].
    apply negb_true_iff in H1. rewrite map_app, existsb_app in H1. apply orb_false_iff in H1.
    destruct H1 as [_ H1]. cbn in H1. apply orb_false_iff in H1. destruct H1 as [H1 _].
    rewrite H1. rewrite IH by exact H2. f_equal. f_equal. lia.
Qed.

(* ---------------------------------------------------------------------------------------------
   set_slot is a plain update when the other members of the oneof group are already clear *)
Lemma set_slot_go_past g i v : forall ds cur j, (i < j)%nat ->
  (forall k d, nth_error ds k = Some d -> same_group g d = true -> nth k cur VNone = VNone) ->
  set_slot_go ds g i j v cur = cur.
Proof.
  induction ds as [|d ds IH]; intros [|c cur] j Hj Hc; cbn [set_slot_go]; try reflexivity.
  destruct (Nat.eqb_spec j i); [lia|].
  f_equal.
  - destruct (same_group g d) eqn:E; [|reflexivity]. symmetry. apply (Hc 0%nat d eq_refl E).
  - apply IH; [lia|]. intros k d' Hk Hg. apply (Hc (S k) d' Hk Hg).
Qed.

Lemma set_slot_go_upd g v : forall i ds cur j,
  (forall k d, nth_error ds k = Some d -> k <> i -> same_group g d = true -> nth k cur VNone = VNone) ->
  (length ds = length cur)%nat ->
  set_slot_go ds g (j + i) j v cur = upd i v cur.
Proof.
  induction i as [|i IH]; intros [|d ds] [|c cur] j Hc Hl; cbn [set_slot_go upd length] in *; try reflexivity; try lia.
  - rewrite Nat.add_0_r, Nat.eqb_refl. f_equal.
    apply set_slot_go_past; [lia|]. intros k d' Hk Hg. apply (Hc (S k) d' Hk); [lia|exact Hg].
  - destruct (Nat.eqb_spec j (j + S i)); [lia|]. f_equal.
    + destruct (same_group g d) eqn:E; [|reflexivity]. symmetry. apply (Hc 0%nat d eq_refl); [lia|exact E].
    + replace (j + S i)%nat with (S j + i)%nat by lia. apply IH; [|lia].
      intros k d' Hk Hne Hg. apply (Hc (S k) d' Hk); [lia|exact Hg].
Qed.

Lemma set_slot_upd ds g i v cur :
  (forall k d, nth_error ds k = Some d -> k <> i -> same_group g d = true -> nth k cur VNone = VNone) ->
  (length ds = length cur)%nat ->
  set_slot ds g i v cur = upd i v cur.
Proof. intros. unfold set_slot. apply (set_slot_go_upd g v i ds cur 0%nat); assumption. Qed.

Lemma same_group_none d : same_group None d = false.
Proof. reflexivity. Qed.

Lemma upd_nth {A} (l : list A) : forall i dflt, upd i (nth i l dflt) l = l.
Proof. induction l as [|a l IH]; intros [|i] dflt; cbn [upd nth]; auto. f_equal. apply IH. Qed.

Lemma varint_len_pos t : (1 <= length (varint t))%nat.
Proof. pose proof (varint_nonempty t). destruct (varint t); [congruence|cbn; lia]. Qed.

(* ---------------------------------------------------------------------------------------------
   the round trip *)
Section RT.
Variable Sc : schema.
Hypothesis Hwf : wf_schema Sc = true.

Lemma wf_msg_all m : wf_msg Sc (msg Sc m) = true.
Proof.
  unfold msg. destruct (Nat.lt_ge_cases m (length Sc)) as [H|H].
  - unfold wf_schema in Hwf. rewrite forallb_forall in Hwf. apply Hwf. apply nth_In. exact H.
  - rewrite nth_overflow by exact H. reflexivity.
Qed.

Definition field_ok (d : fdesc) : Prop :=
  card_type_ok d = true /\ fnum_ok d = true /\ tmsg_ok Sc d = true.

Lemma msg_fields_ok m : Forall field_ok (mfields (msg Sc m)).
Proof.
  pose proof (wf_msg_all m) as H. unfold wf_msg in H.
  apply andb_true_iff in H. destruct H as [H _]. apply andb_true_iff in H. destruct H as [H _].
  rewrite forallb_forall in H. apply Forall_forall. intros d Hd. specialize (H d Hd).
  apply andb_true_iff in H. destruct H as [H H3]. apply andb_true_iff in H. destruct H as [H1 H2].
  repeat split; assumption.
Qed.

Lemma msg_nodup m : nodupN (map fnum (mfields (msg Sc m))) = true.
Proof.
  pose proof (wf_msg_all m) as H. unfold wf_msg in H.
  apply andb_true_iff in H. destruct H as [H _]. apply andb_true_iff in H. destruct H as [_ H]. exact H.
Qed.

Lemma msg_default m : mdefault (msg Sc m) = map (default_slot Sc) (mfields (msg Sc m)).
Proof.
  pose proof (wf_msg_all m) as H. unfold wf_msg in H.
  apply andb_true_iff in H. destruct H as [_ H]. apply list_pv_eqb_eq. exact H.
Qed.

Lemma app_length_le' {A} (a b : list A) : (length a <= length (a ++ b))%nat.
Proof. rewrite app_length. lia. Qed.

Lemma dec_fields_nil f ds cur : dec_fields Sc f ds cur [] = Some cur.
Proof. destruct f; reflexivity. Qed.

Lemma dec_fields_step f ds cur d i wt r :
  fnum_ok d = true -> wt < 8 -> wt <> 4 ->
  find_field ds (fnum d) 0 = Some (i, d) ->
  dec_fields Sc (S f) ds cur (varint (tagv d wt) ++ r) =
  match dec_slot Sc (fun m cur' p => dec_fields Sc f (mfields (msg Sc m)) cur' p) d (nth i cur VNone) wt r with
  | Some (v', r') => dec_fields Sc f ds (set_slot ds (group_of d) i v' cur) r'
  | None => None
  end.
Proof.
  intros Hf Hw H4 Hfind.
  destruct (tagv_facts d wt Hf Hw) as (A & B & C).
  cbn [dec_fields].
  destruct (varint (tagv d wt) ++ r) eqn:E.
  { apply app_eq_nil in E. destruct E as [E _]. exfalso. exact (varint_nonempty _ E). }
  rewrite <- E. rewrite varint_roundtrip_l by exact A.
  rewrite B. destruct (N.eqb_spec wt 4); [contradiction|].
  rewrite C, Hfind. reflexivity.
Qed.


(* ---- what dec_slot computes on one well-formed occurrence ---- *)
Section DecSlot.
Variable rec : nat -> list pv -> bytes -> option (list pv).

Lemma dec_scalar_opt d old k x rest :
  fcd d = COpt -> fty d = TScalar k -> in_range k x = true ->
  dec_slot Sc rec d old (wire_of k) (enc_scalar k x ++ rest) = Some (VInt x, rest).
Proof.
  intros Hcd Hty Hr. unfold dec_slot. rewrite Hcd, Hty, N.eqb_refl, scalar_roundtrip_l by exact Hr. reflexivity.
Qed.

Lemma dec_scalar_oneof d old g k x rest :
  fcd d = COneof g -> fty d = TScalar k -> in_range k x = true ->
  dec_slot Sc rec d old (wire_of k) (enc_scalar k x ++ rest) = Some (VSome (VInt x), rest).
Proof.
  intros Hcd Hty Hr. unfold dec_slot. rewrite Hcd, Hty, N.eqb_refl, scalar_roundtrip_l by exact Hr. reflexivity.
Qed.

Lemma dec_bytes_opt d old b rest :
  fcd d = COpt -> fty d = TBytes \/ fty d = TStr -> blen b < two64 ->
  dec_slot Sc rec d old 2 (varint (blen b) ++ b ++ rest) = Some (VBytes b, rest).
Proof.
  intros Hcd [Hty|Hty] Hb; unfold dec_slot; rewrite Hcd, Hty; cbn [N.eqb Pos.eqb];
    rewrite read_ld_roundtrip_l by exact Hb; reflexivity.
Qed.

Lemma dec_bytes_oneof d old g b rest :
  fcd d = COneof g -> fty d = TBytes \/ fty d = TStr -> blen b < two64 ->
  dec_slot Sc rec d old 2 (varint (blen b) ++ b ++ rest) = Some (VSome (VBytes b), rest).
Proof.
  intros Hcd [Hty|Hty] Hb; unfold dec_slot; rewrite Hcd, Hty; cbn [N.eqb Pos.eqb];
    rewrite read_ld_roundtrip_l by exact Hb; reflexivity.
Qed.

Lemma dec_bytes_rep d xs b rest :
  fcd d = CRep -> fty d = TBytes \/ fty d = TStr -> blen b < two64 ->
  dec_slot Sc rec d (VRep xs) 2 (varint (blen b) ++ b ++ rest) = Some (VRep (xs ++ [VBytes b]), rest).
Proof.
  intros Hcd [Hty|Hty] Hb; unfold dec_slot; rewrite Hcd, Hty; cbn [N.eqb Pos.eqb];
    rewrite read_ld_roundtrip_l by exact Hb; reflexivity.
Qed.

Lemma dec_id_opt d old n0 b rest :
  fcd d = COpt -> fty d = TId n0 -> blen b < two64 ->
  (blen b =? 0) || ((blen b =? n0) && negb (all_zero b)) = true ->
  dec_slot Sc rec d old 2 (varint (blen b) ++ b ++ rest) = Some (VBytes b, rest).
Proof.
  intros Hcd Hty Hb Hc. unfold dec_slot. rewrite Hcd, Hty. cbn [N.eqb Pos.eqb].
  rewrite read_ld_roundtrip_l by exact Hb.
  destruct (N.eqb_spec (blen b) 0) as [E|E].
  - destruct b; [reflexivity|]. rewrite blen_cons in E. lia.
  - cbn [orb] in Hc. apply andb_true_iff in Hc. destruct Hc as [H1 H2].
    rewrite H1. apply negb_true_iff in H2. rewrite H2. reflexivity.
Qed.

Lemma dec_msg_opt d dfl m p fs rest :
  fcd d = COpt -> fty d = TMsg m -> blen p < two64 ->
  rec m dfl p = Some fs ->
  dec_slot Sc rec d (VMsg dfl) 2 (varint (blen p) ++ p ++ rest) = Some (VMsg fs, rest).
Proof.
  intros Hcd Hty Hb Hrec. unfold dec_slot. rewrite Hcd, Hty. cbn [N.eqb Pos.eqb].
  rewrite read_ld_roundtrip_l by exact Hb. rewrite Hrec. reflexivity.
Qed.

Lemma dec_msg_oneof d old g m p fs rest :
  fcd d = COneof g -> fty d = TMsg m -> blen p < two64 ->
  rec m (mdefault (msg Sc m)) p = Some fs ->
  dec_slot Sc rec d old 2 (varint (blen p) ++ p ++ rest) = Some (VSome (VMsg fs), rest).
Proof.
  intros Hcd Hty Hb Hrec. unfold dec_slot. rewrite Hcd, Hty. cbn [N.eqb Pos.eqb].
  rewrite read_ld_roundtrip_l by exact Hb. rewrite Hrec. reflexivity.
Qed.

Lemma dec_msg_rep d xs m p fs rest :
  fcd d = CRep -> fty d = TMsg m -> blen p < two64 ->
  rec m (mdefault (msg Sc m)) p = Some fs ->
  dec_slot Sc rec d (VRep xs) 2 (varint (blen p) ++ p ++ rest) = Some (VRep (xs ++ [VMsg fs]), rest).
Proof.
  intros Hcd Hty Hb Hrec. unfold dec_slot. rewrite Hcd, Hty. cbn [N.eqb Pos.eqb].
  rewrite read_ld_roundtrip_l by exact Hb. rewrite Hrec. reflexivity.
Qed.

Lemma dec_packed d xs k ns rest :
  fcd d = CPacked -> fty d = TScalar k -> forallb (in_range k) ns = true ->
  blen (flat_map (enc_scalar k) ns) < two64 ->
  dec_slot Sc rec d (VRep xs) 2 (varint (blen (flat_map (enc_scalar k) ns)) ++ flat_map (enc_scalar k) ns ++ rest)
  = Some (VRep (xs ++ map VInt ns), rest).
Proof.
  intros Hcd Hty Hr Hb. unfold dec_slot. rewrite Hcd, Hty.
  assert (E : (2 =? wire_of k) = false) by (destruct k; reflexivity). rewrite E. cbn [N.eqb Pos.eqb].
  rewrite varint_roundtrip_l by exact Hb.
  destruct (N.leb_spec (blen (flat_map (enc_scalar k) ns)) (blen (flat_map (enc_scalar k) ns ++ rest))) as [_|Hc];
    [|rewrite blen_app in Hc; lia].
  rewrite read_packed_roundtrip_l; [reflexivity|exact Hr|apply app_length_le'].
Qed.
End DecSlot.


Lemma flat_map_enc_scalar k ns :
  flat_map (enc_val Sc (TScalar k)) (map VInt ns) = flat_map (enc_scalar k) ns.
Proof. induction ns; cbn [map flat_map enc_val]; congruence. Qed.

Lemma packed_values d k vs :
  fty d = TScalar k ->
  forallb (fun x => match fty d, x with TScalar _, VInt _ => canon_val Sc (fty d) x | _, _ => false end) vs = true ->
  exists ns, vs = map VInt ns /\ forallb (in_range k) ns = true.
Proof.
  intros Hty. rewrite Hty. induction vs as [|x vs IH]; intros H.
  - exists []. split; reflexivity.
  - cbn [forallb] in H. apply andb_true_iff in H. destruct H as [H1 H2].
    destruct (IH H2) as (ns & E & Hr). destruct x; try discriminate H1.
    exists (n :: ns). split; [cbn; congruence|]. cbn [forallb]. cbn [canon_val] in H1. unfold canon_scalar in H1. rewrite H1, Hr. reflexivity.
Qed.

End RT.
