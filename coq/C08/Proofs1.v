(* C08/Proofs1.v — bit/byte-level lemmas: varint, fixed-width little endian, zigzag, tags,
   scalars, length-delimited payloads, packed runs. *)
From Verif Require Import Common.Base C08.Model.
Require Import ZifyBool ZifyNat ZifyN.
Ltac Zify.zify_post_hook ::= Z.to_euclidean_division_equations.
Local Open Scope N_scope.

Lemma blen_app (a b : bytes) : blen (a ++ b) = blen a + blen b.
Proof. unfold blen. rewrite app_length. lia. Qed.

Lemma blen_nil : blen [] = 0.
Proof. reflexivity. Qed.

Lemma blen_cons x (a : bytes) : blen (x :: a) = 1 + blen a.
Proof. unfold blen. cbn [length]. lia. Qed.

(* ---------------------------------------------------------------------------------------------
   varint *)
Lemma varint_go_nonempty f n : varint_go (S f) n <> [].
Proof. cbn [varint_go]. destruct (n <? 128); discriminate. Qed.

Lemma varint_nonempty n : varint n <> [].
Proof. apply varint_go_nonempty. Qed.

Lemma varint_size_length n : varint_size n = blen (varint n).
Proof.
  unfold varint, varint_size, blen. cbn [varint_go].
  repeat (match goal with
          | |- context [?a <? ?b] => destruct (N.ltb_spec a b); try (exfalso; lia)
          end); reflexivity.
Qed.

Lemma varint_size_pos n : 1 <= varint_size n.
Proof.
  unfold varint_size.
  repeat (match goal with |- context [?a <? ?b] => destruct (a <? b) end); lia.
Qed.

Lemma varint_size_le10 n : varint_size n <= 10.
Proof.
  unfold varint_size.
  repeat (match goal with |- context [?a <? ?b] => destruct (a <? b) end); lia.
Qed.

Lemma pow7S f : 2 ^ (7 * N.of_nat (S f)) = 128 * 2 ^ (7 * N.of_nat f).
Proof.
  rewrite Nat2N.inj_succ, N.mul_succ_r, N.pow_add_r. change (2 ^ 7) with 128. lia.
Qed.

Lemma rv_go_varint_go f : forall n shift acc r,
  n < 2 ^ (7 * N.of_nat f) -> (1 <= f)%nat ->
  rv_go f shift acc (varint_go f n ++ r) = Some ((acc + n * 2 ^ shift) mod two64, r).
Proof.
  induction f as [|f IH]; intros n shift acc r Hn Hf; [lia|].
  cbn [varint_go]. destruct (N.ltb_spec n 128) as [Hs|Hs].
  - cbn [app rv_go]. rewrite (N.mod_small n 128) by lia.
    destruct (N.ltb_spec n 128); [reflexivity|lia].
  - cbn [app rv_go].
    assert (Hm : (n mod 128 + 128) mod 128 = n mod 128) by lia.
    rewrite Hm.
    destruct (N.ltb_spec (n mod 128 + 128) 128) as [Hc|_]; [lia|].
    rewrite pow7S in Hn.
    destruct f as [|f'].
    { cbn in Hn. lia. }
    rewrite IH; [|lia|lia].
    f_equal. f_equal. f_equal.
    rewrite N.pow_add_r. change (2 ^ 7) with 128.
    set (P := 2 ^ shift).
    rewrite (N.div_mod n 128) at 3 by lia. lia.
Qed.

Lemma two64_lt_pow70 : two64 < 2 ^ (7 * N.of_nat 10).
Proof. vm_compute. reflexivity. Qed.

Theorem varint_roundtrip_l n r : n < two64 -> read_varint (varint n ++ r) = Some (n, r).
Proof.
  intros Hn. unfold read_varint, varint.
  rewrite rv_go_varint_go; [|pose proof two64_lt_pow70; lia|lia].
  rewrite N.pow_0_r, N.mul_1_r, N.add_0_l, N.mod_small by exact Hn. reflexivity.
Qed.

(* ---------------------------------------------------------------------------------------------
   fixed width, little endian *)
Lemma le_bytes_length k n : length (le_bytes k n) = k.
Proof. revert n; induction k; intros; cbn [le_bytes length]; auto. Qed.

Lemma read_le_le_bytes k : forall n r,
  read_le k (le_bytes k n ++ r) = Some (n mod 256 ^ N.of_nat k, r).
Proof.
  induction k as [|k IH]; intros n r.
  - cbn. rewrite N.mod_1_r. reflexivity.
  - cbn [le_bytes app read_le]. rewrite IH. f_equal. f_equal.
    rewrite Nat2N.inj_succ, N.pow_succ_r by lia.
    rewrite N.mod_mul_r by (try apply N.pow_nonzero; lia). reflexivity.
Qed.

Theorem fixed_roundtrip_l64 n r : n < two64 -> read_le 8 (le_bytes 8 n ++ r) = Some (n, r).
Proof.
  intros H. rewrite read_le_le_bytes. change (256 ^ N.of_nat 8) with two64.
  rewrite N.mod_small by exact H. reflexivity.
Qed.

Theorem fixed_roundtrip_l32 n r : n < two32 -> read_le 4 (le_bytes 4 n ++ r) = Some (n, r).
Proof.
  intros H. rewrite read_le_le_bytes. change (256 ^ N.of_nat 4) with two32.
  rewrite N.mod_small by exact H. reflexivity.
Qed.

(* ---------------------------------------------------------------------------------------------
   zigzag (sint32) *)
Lemma zig32_lt m : m < two32 -> zig32 m < two32.
Proof. unfold zig32, two32, two31. intros. destruct (N.ltb_spec m 2147483648); lia. Qed.

Theorem zigzag_roundtrip_l m : m < two32 -> unzig32 (zig32 m) = m.
Proof.
  unfold zig32, unzig32, two32, two31. intros Hm.
  destruct (N.ltb_spec m 2147483648) as [H|H].
  - rewrite N.even_mul. cbn [N.even orb]. lia.
  - replace (2 * (4294967296 - m) - 1) with (1 + 2 * (4294967296 - m - 1)) by lia.
    rewrite N.even_add_mul_2. cbn [N.even].
    replace ((1 + 2 * (4294967296 - m - 1) + 1) / 2) with (4294967296 - m) by lia.
    replace (4294967296 - (4294967296 - m)) with m by lia.
    apply N.mod_small. lia.
Qed.

(* ---------------------------------------------------------------------------------------------
   tags *)
Lemma tagv_facts d wt :
  fnum_ok d = true -> wt < 8 ->
  tagv d wt < two64 /\ tagv d wt mod 8 = wt /\ fieldnum_of (tagv d wt) = Some (fnum d).
Proof.
  unfold fnum_ok, tagv, fieldnum_of, two64, two32, two31. intros H Hw.
  apply andb_true_iff in H. destruct H as [H1 H2].
  apply N.ltb_lt in H1, H2.
  split; [lia|]. split; [lia|].
  replace ((fnum d * 8 + wt) / 8) with (fnum d) by lia.
  rewrite N.mod_small by lia.
  destruct (N.eqb_spec (fnum d) 0); [lia|].
  destruct (N.leb_spec 2147483648 (fnum d)); [lia|]. reflexivity.
Qed.

Theorem tag_roundtrip_l d wt r :
  fnum_ok d = true -> wt < 8 ->
  exists w, read_varint (varint (tagv d wt) ++ r) = Some (w, r)
            /\ w mod 8 = wt /\ fieldnum_of w = Some (fnum d).
Proof.
  intros H Hw. destruct (tagv_facts d wt H Hw) as (A & B & C).
  exists (tagv d wt). rewrite varint_roundtrip_l by exact A. auto.
Qed.

(* ---------------------------------------------------------------------------------------------
   scalars *)
Lemma wire_of_lt8 k : wire_of k < 8.
Proof. destruct k; cbn; lia. Qed.

Lemma wire_of_not4 k : (wire_of k =? 4) = false.
Proof. destruct k; reflexivity. Qed.

Lemma sext32_id n :
  (n <? two31) || ((two64 - two31 <=? n) && (n <? two64)) = true -> sext32 n = n.
Proof.
  unfold sext32, two64, two32, two31. intros H.
  apply orb_true_iff in H. destruct H as [H|H].
  - apply N.ltb_lt in H. rewrite N.mod_small by lia.
    destruct (N.ltb_spec n 2147483648); lia.
  - apply andb_true_iff in H. destruct H as [H1 H2]. apply N.leb_le in H1. apply N.ltb_lt in H2.
    destruct (N.ltb_spec (n mod 4294967296) 2147483648); lia.
Qed.

Lemma in_range_lt64 k n : in_range k n = true -> n < two64.
Proof.
  unfold in_range, two64, two32, two31.
  destruct k; intros H;
    repeat (match goal with
            | H : _ || _ = true |- _ => apply orb_true_iff in H; destruct H as [H|H]
            | H : _ && _ = true |- _ => apply andb_true_iff in H; destruct H as [? H]
            | H : (_ <? _) = true |- _ => apply N.ltb_lt in H
            | H : (_ <=? _) = true |- _ => apply N.leb_le in H
            end); lia.
Qed.

Lemma enc_scalar_nonempty k n : enc_scalar k n <> [].
Proof.
  destruct k; cbn [enc_scalar]; try apply varint_nonempty; try discriminate.
Qed.

Lemma size_scalar_length k n : size_scalar k n = blen (enc_scalar k n).
Proof.
  destruct k; cbn [size_scalar enc_scalar]; try apply varint_size_length;
    unfold blen; try rewrite le_bytes_length; reflexivity.
Qed.

Theorem scalar_roundtrip_l k n r :
  in_range k n = true -> read_scalar k (enc_scalar k n ++ r) = Some (n, r).
Proof.
  intros H. pose proof (in_range_lt64 k n H) as H64.
  unfold read_scalar.
  destruct k; cbn [wire_of enc_scalar store];
    try (rewrite varint_roundtrip_l by exact H64);
    try (rewrite fixed_roundtrip_l64 by exact H64).
  - (* SU64 *) rewrite N.mod_small by exact H64. reflexivity.
  - (* SI64 *) rewrite N.mod_small by exact H64. reflexivity.
  - (* SU32 *) cbn [in_range] in H. apply N.ltb_lt in H. rewrite N.mod_small by exact H. reflexivity.
  - (* SI32 *) cbn [in_range] in H. rewrite sext32_id by exact H. reflexivity.
  - (* SEnum *) cbn [in_range] in H. rewrite sext32_id by exact H. reflexivity.
  - (* SBool *) cbn [in_range] in H. apply N.ltb_lt in H.
    assert (Hn : n = 0 \/ n = 1) by lia. destruct Hn as [-> | ->]; reflexivity.
  - (* SZig32 *) cbn [in_range] in H.
    assert (Hm : n mod two32 < two32) by (apply N.mod_lt; discriminate).
    pose proof (zig32_lt _ Hm) as Hz.
    rewrite varint_roundtrip_l by (unfold two32, two64 in *; lia).
    rewrite (N.mod_small (zig32 (n mod two32))) by exact Hz.
    rewrite zigzag_roundtrip_l by exact Hm.
    f_equal. f_equal.
    pose proof (sext32_id n H) as E. unfold sext32 in *.
    rewrite N.mod_mod by discriminate. exact E.
  - (* SFix64 *) rewrite N.mod_small by exact H64. reflexivity.
  - (* SSFix64 *) rewrite N.mod_small by exact H64. reflexivity.
  - (* SDouble *) rewrite N.mod_small by exact H64. reflexivity.
  - (* SFix32 *) cbn [in_range] in H. apply N.ltb_lt in H.
    rewrite fixed_roundtrip_l32 by exact H. rewrite N.mod_small by exact H. reflexivity.
Qed.

(* the decoder consumes exactly the bytes the encoder produced *)
Lemma blen_enc_scalar_pos k n : 1 <= blen (enc_scalar k n).
Proof.
  rewrite <- size_scalar_length. destruct k; cbn [size_scalar]; try apply varint_size_pos; lia.
Qed.

(* ---------------------------------------------------------------------------------------------
   length-delimited payloads *)
Lemma firstn_blen_app (p r : bytes) : firstn (N.to_nat (blen p)) (p ++ r) = p.
Proof.
  unfold blen. rewrite Nat2N.id. rewrite firstn_app, Nat.sub_diag, firstn_all. cbn. apply app_nil_r.
Qed.

Lemma skipn_blen_app (p r : bytes) : skipn (N.to_nat (blen p)) (p ++ r) = r.
Proof.
  unfold blen. rewrite Nat2N.id. rewrite skipn_app, Nat.sub_diag, skipn_all. reflexivity.
Qed.

Theorem read_ld_roundtrip_l p r :
  blen p < two64 -> read_ld (varint (blen p) ++ p ++ r) = Some (p, r).
Proof.
  intros H. unfold read_ld. rewrite varint_roundtrip_l by exact H.
  destruct (N.leb_spec (blen p) (blen (p ++ r))) as [_|Hc]; [|rewrite blen_app in Hc; lia].
  rewrite firstn_blen_app, skipn_blen_app. reflexivity.
Qed.

(* ---------------------------------------------------------------------------------------------
   packed runs *)
Lemma read_packed_roundtrip_l k : forall (ns : list N) fuel r,
  forallb (in_range k) ns = true ->
  (length (flat_map (enc_scalar k) ns) <= fuel)%nat ->
  read_packed k fuel (blen (flat_map (enc_scalar k) ns)) (flat_map (enc_scalar k) ns ++ r)
  = Some (map VInt ns, r).
Proof.
  induction ns as [|n ns IH]; intros fuel r Hr Hf.
  - cbn [flat_map map app]. destruct fuel; cbn [read_packed]; rewrite blen_nil; reflexivity.
  - cbn [flat_map map] in *. apply andb_true_iff in Hr. destruct Hr as [Hn Hr].
    pose proof (blen_enc_scalar_pos k n) as Hp.
    rewrite app_length in Hf.
    assert (Hl : (1 <= length (enc_scalar k n))%nat) by (unfold blen in Hp; lia).
    destruct fuel as [|fuel]; [lia|].
    cbn [read_packed].
    destruct (N.eqb_spec (blen (enc_scalar k n ++ flat_map (enc_scalar k) ns)) 0) as [E|_].
    { rewrite blen_app in E. lia. }
    rewrite <- app_assoc. rewrite scalar_roundtrip_l by exact Hn.
    replace (blen (enc_scalar k n ++ flat_map (enc_scalar k) ns)
             - (blen (enc_scalar k n ++ flat_map (enc_scalar k) ns ++ r) - blen (flat_map (enc_scalar k) ns ++ r)))
      with (blen (flat_map (enc_scalar k) ns)) by (rewrite !blen_app; lia).
    rewrite IH; [reflexivity|exact Hr|lia].
Qed.
