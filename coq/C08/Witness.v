(* C08/Witness.v — non-vacuity of the hypotheses of the theorems in Properties.v, and the
   refutation witnesses evaluated on the real (regenerated) schema and decoder table. *)
From Verif Require Import Common.Base C08.Model C08.Json Generated.OtlpProto Generated.C08JsonDecoders C08.Proofs.
From Coq Require Import Strings.String.
Local Open Scope N_scope.

(* a non-trivial canonical value of the real schema: an AnyValue holding a kvlist with a nested
   array, a negative int, a NaN and bytes *)
Definition any_str (s : bytes) : pv := VMsg [VSome (VBytes s); VNone; VNone; VNone; VNone; VNone; VNone].
Definition any_int (n : N) : pv := VMsg [VNone; VNone; VSome (VInt n); VNone; VNone; VNone; VNone].
Definition any_dbl (n : N) : pv := VMsg [VNone; VNone; VNone; VSome (VInt n); VNone; VNone; VNone].
Definition any_bytes (b : bytes) : pv := VMsg [VNone; VNone; VNone; VNone; VNone; VNone; VSome (VBytes b)].
Definition any_arr (l : list pv) : pv := VMsg [VNone; VNone; VNone; VNone; VSome (VMsg [VRep l]); VNone; VNone].
Definition kv (k : bytes) (v : pv) : pv := VMsg [VBytes k; v].
Definition any_kvl (l : list pv) : pv := VMsg [VNone; VNone; VNone; VNone; VNone; VSome (VMsg [VRep l]); VNone].

Definition sample : pv :=
  any_kvl [kv [97] (any_arr [any_int (two64 - 5); any_dbl nan_bits; any_dbl two63; any_bytes []; any_str [104; 105]]);
           kv [98] (any_bytes [0; 255; 7])].

Example sample_canonical : canonical OtlpSchema m_common_v1_AnyValue sample = true.
Proof. vm_compute. reflexivity. Qed.
Example sample_size_small : size OtlpSchema m_common_v1_AnyValue sample < two64.
Proof. vm_compute. reflexivity. Qed.
Example sample_nontrivial : blen (encode OtlpSchema m_common_v1_AnyValue sample) = 68.
Proof. vm_compute. reflexivity. Qed.
Example sample_roundtrip : decode OtlpSchema m_common_v1_AnyValue (encode OtlpSchema m_common_v1_AnyValue sample) = Some sample.
Proof. vm_compute. reflexivity. Qed.
(* the JSON hypotheses are satisfiable on the real decoder table *)
Example sample_jok : jok OtlpSchema OtlpJsonDecoders m_common_v1_AnyValue sample = true.
Proof. vm_compute. reflexivity. Qed.
Example sample_no_deprecated : no_deprecated OtlpSchema m_common_v1_AnyValue sample = true.
Proof. vm_compute. reflexivity. Qed.
Example sample_json_roundtrip :
  of_json OtlpSchema OtlpJsonDecoders OtlpEnums m_common_v1_AnyValue (to_json OtlpSchema m_common_v1_AnyValue sample) = Some sample.
Proof. vm_compute. reflexivity. Qed.

(* a whole logs request with a resource, a scope and one record *)
Definition logs_sample : pv :=
  with_field m_collector_logs_v1_ExportLogsServiceRequest 1
    (VRep [with_field m_logs_v1_ResourceLogs 2
             (VRep [with_field m_logs_v1_ScopeLogs 2
                      (VRep [with_field m_logs_v1_LogRecord 1 (VInt 1700000000000000000)])])]).
Example logs_sample_ok :
  canonical OtlpSchema m_collector_logs_v1_ExportLogsServiceRequest logs_sample = true
  /\ jok OtlpSchema OtlpJsonDecoders m_collector_logs_v1_ExportLogsServiceRequest logs_sample = true
  /\ no_deprecated OtlpSchema m_collector_logs_v1_ExportLogsServiceRequest logs_sample = true
  /\ of_json OtlpSchema OtlpJsonDecoders OtlpEnums m_collector_logs_v1_ExportLogsServiceRequest
             (to_json OtlpSchema m_collector_logs_v1_ExportLogsServiceRequest logs_sample) = Some logs_sample.
Proof. repeat split; vm_compute; reflexivity. Qed.

(* hypotheses of the bit-level lemmas *)
Example varint_hyp : two64 - 1 < two64. Proof. reflexivity. Qed.
Example varint_10_bytes : varint (two64 - 1) = [255; 255; 255; 255; 255; 255; 255; 255; 255; 1].
Proof. vm_compute. reflexivity. Qed.
Example zigzag_hyp : zig32 (two32 - 1) = 1 /\ unzig32 1 = two32 - 1.
Proof. split; vm_compute; reflexivity. Qed.
Example tag_hyp : fnum_ok (mkF 1000 TStr CRep EmptyString EmptyString) = true /\ varint (tagv (mkF 1000 TStr CRep EmptyString EmptyString) 2) = [194; 62].
Proof. split; vm_compute; reflexivity. Qed.

(* refutation witnesses: the protobuf round trip is not the identity on -0.0 in a singular double
   and on a Bytes value holding nil; both come back as the normalised value *)
Example negzero_roundtrip :
  decode OtlpSchema m_metrics_v1_SummaryDataPoint_ValueAtQuantile
         (encode OtlpSchema m_metrics_v1_SummaryDataPoint_ValueAtQuantile negzero_witness)
  = Some (VMsg [VInt 0; VInt 0]).
Proof. vm_compute. reflexivity. Qed.
Example emptybytes_roundtrip :
  decode OtlpSchema m_common_v1_AnyValue (encode OtlpSchema m_common_v1_AnyValue emptybytes_witness)
  = Some (VMsg [VNone; VNone; VNone; VNone; VNone; VNone; VNone]).
Proof. vm_compute. reflexivity. Qed.
(* ... and JSON turns the same value into an EMPTY bytes value, so JSON and protobuf disagree *)
Example emptybytes_json :
  of_json OtlpSchema OtlpJsonDecoders OtlpEnums m_common_v1_AnyValue (to_json OtlpSchema m_common_v1_AnyValue emptybytes_witness)
  = Some (any_bytes []).
Proof. vm_compute. reflexivity. Qed.

(* Profile.original_payload survives JSON (repaired: it used to come back as its base64 text) *)
Example payload_json :
  of_json OtlpSchema OtlpJsonDecoders OtlpEnums m_profiles_v1development_Profile
          (to_json OtlpSchema m_profiles_v1development_Profile payload_witness)
  = Some payload_witness.
Proof. vm_compute. reflexivity. Qed.
(* the model of a raw (ReadStringAsSlice) bytes reader, on a one-entry table: the base64 text is stored *)
Example raw_reader_model :
  oj_one [] (fun _ _ _ => None) (mkJ 0 EmptyString 1 false true false true) 0 (mkF 1 TBytes COpt EmptyString EmptyString) None (JB64 [1; 2])
  = Some (VBytes [65; 81; 73; 61]).
Proof. vm_compute. reflexivity. Qed.

(* a NaN with a payload is outside jok: JSON can only say "NaN" *)
Example nan_payload_not_jok :
  jok OtlpSchema OtlpJsonDecoders m_common_v1_AnyValue (any_dbl (nan_bits + 1)) = false
  /\ of_json OtlpSchema OtlpJsonDecoders OtlpEnums m_common_v1_AnyValue
             (to_json OtlpSchema m_common_v1_AnyValue (any_dbl (nan_bits + 1))) = Some (any_dbl nan_bits).
Proof. split; vm_compute; reflexivity. Qed.

(* decoding is total and order-insensitive: a reordered, duplicated encoding with an unknown field
   and an unknown group decodes (last scalar wins) *)
Example reordered_decode :
  decode OtlpSchema m_metrics_v1_SummaryDataPoint_ValueAtQuantile
         (hex "11000000000000f03f7a036162637b08017c09000000000000004011000000000000f0bf"%string)
  = Some (VMsg [VInt 4611686018427387904; VInt 13830554455654793216]).
Proof. vm_compute. reflexivity. Qed.
Example truncated_rejected :
  decode OtlpSchema m_metrics_v1_SummaryDataPoint_ValueAtQuantile (hex "1100000000"%string) = None.
Proof. vm_compute. reflexivity. Qed.

(* a metric object with two data alternatives: the later one wins, on the real schema and decoder table *)
Example metric_two_data_kinds :
  of_json OtlpSchema OtlpJsonDecoders OtlpEnums m_metrics_v1_Metric
          (JObj [("gauge"%string, JObj [("dataPoints"%string, JArr [JObj []])]); ("sum"%string, JObj [("isMonotonic"%string, JBool true)])])
  = of_json OtlpSchema OtlpJsonDecoders OtlpEnums m_metrics_v1_Metric
          (JObj [("sum"%string, JObj [("isMonotonic"%string, JBool true)])]).
Proof. vm_compute. reflexivity. Qed.
Example metric_two_data_kinds_is_sum :
  match of_json OtlpSchema OtlpJsonDecoders OtlpEnums m_metrics_v1_Metric
          (JObj [("gauge"%string, JObj []); ("sum"%string, JObj [("isMonotonic"%string, JBool true)])]) with
  | Some (VMsg fs) => existsb (fun v => match v with VSome (VMsg _) => true | _ => false end) fs
  | _ => false
  end = true.
Proof. vm_compute. reflexivity. Qed.
