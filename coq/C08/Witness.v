(* C08/Witness.v — non-vacuity examples and refutation witnesses. *)
From Verif Require Import Common.Base C08.Model Generated.OtlpProto C08.Proofs.
Local Open Scope N_scope.
