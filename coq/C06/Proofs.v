(* C06/Proofs.v — the run invariant of the fan-out machine and the lemmas behind Properties.v. *)
From Verif Require Import Common.Base C06.Model.
From Coq Require Import Permutation.

(* ---- store lemmas ---------------------------------------------------------------------------- *)
Lemma length_upd s c x : length (upd s c x) = length s.
Proof. revert c; induction s as [|a s IH]; intros [|c]; simpl; auto. Qed.

Lemma get_upd_same s c x : c < length s -> get (upd s c x) c = x.
Proof.
  unfold get. revert c; induction s as [|a s IH]; intros [|c] H; simpl in *; try lia; auto.
  apply IH; lia.
Qed.

Lemma get_upd_other s c c' x : c <> c' -> get (upd s c x) c' = get s c'.
Proof.
  unfold get. revert c c'; induction s as [|a s IH]; intros [|c] [|c'] H; simpl in *; auto; try congruence.
Qed.

Lemma get_app_old s x c : c < length s -> get (s ++ [x]) c = get s c.
Proof. intros H. unfold get. now rewrite app_nth1. Qed.

Lemma get_app_new s x : get (s ++ [x]) (length s) = x.
Proof. unfold get. rewrite app_nth2, Nat.sub_diag; auto. Qed.

Lemma upd_oob s c x : length s <= c -> upd s c x = s.
Proof.
  revert c. induction s as [|a s IH]; intros [|c] L; simpl in *; auto; try lia.
  f_equal. apply IH. lia.
Qed.

Lemma cont_mark_ro s c c' : cont (get (mark_ro s c) c') = cont (get s c').
Proof.
  unfold mark_ro. destruct (Nat.eq_dec c c') as [->|N].
  - destruct (Nat.lt_ge_cases c' (length s)) as [L|L].
    + now rewrite get_upd_same.
    + now rewrite upd_oob.
  - now rewrite get_upd_other.
Qed.

Lemma cro_mark_ro_other s c c' : c <> c' -> cro (get (mark_ro s c) c') = cro (get s c').
Proof. intros N. unfold mark_ro. now rewrite get_upd_other. Qed.

Lemma cro_mark_ro_same s c : c < length s -> cro (get (mark_ro s c) c) = true.
Proof. intros L. unfold mark_ro. now rewrite get_upd_same. Qed.

Lemma length_mark_ro s c : length (mark_ro s c) = length s.
Proof. apply length_upd. Qed.

(* ---- handles ---------------------------------------------------------------------------------- *)
Notation holds m i c := (In (i, c) (hs m)) (only parsing).

Lemma lookup_some_in i l c : lookup i l = Some c -> In (i, c) l.
Proof.
  induction l as [|[k v] l IH]; simpl; [discriminate|].
  destruct (k =? i) eqn:E.
  - apply Nat.eqb_eq in E. intros [= ->]. subst. now left.
  - intros H. right. auto.
Qed.

Lemma lookup_none_notin i l : lookup i l = None -> ~ In i (map fst l).
Proof.
  induction l as [|[k v] l IH]; simpl; [tauto|].
  destruct (k =? i) eqn:E; [discriminate|]. apply Nat.eqb_neq in E. intros H [K|K]; [congruence|]. now apply IH.
Qed.

Lemma in_lookup i c l : NoDup (map fst l) -> In (i, c) l -> lookup i l = Some c.
Proof.
  induction l as [|[k v] l IH]; simpl; [tauto|].
  intros ND [E|H].
  - inversion E; subst. now rewrite Nat.eqb_refl.
  - inversion ND as [|? ? NI ND']; subst.
    destruct (k =? i) eqn:E.
    + apply Nat.eqb_eq in E. subst. exfalso. apply NI. change i with (fst (i, c)). now apply in_map.
    + auto.
Qed.

Lemma nodup_fst_fun (l : list (nat * nat)) i c c' :
  NoDup (map fst l) -> In (i, c) l -> In (i, c') l -> c = c'.
Proof.
  intros ND H1 H2. apply (in_lookup _ _ _ ND) in H1. apply (in_lookup _ _ _ ND) in H2. congruence.
Qed.

(* ---- what consumer i's own successful writes make of the sent content (log newest first) --- *)
Fixpoint own_view (i : nat) (log : list ev) (c0 : list Z) : list Z :=
  match log with
  | [] => c0
  | EWrite j w WOk :: r => if j =? i then apply_wr w (own_view i r c0) else own_view i r c0
  | _ :: r => own_view i r c0
  end.

Lemma own_view_nowrite i log c0 : (forall w, ~ In (EWrite i w WOk) log) -> own_view i log c0 = c0.
Proof.
  induction log as [|e log IH]; simpl; auto. intros H.
  assert (IH' : own_view i log c0 = c0) by (apply IH; intros w K; apply (H w); now right).
  destruct e as [| j w [| |]|]; auto.
  destruct (j =? i) eqn:E; auto. apply Nat.eqb_eq in E. subst. exfalso. apply (H w). now left.
Qed.

(* ---- the plan ---------------------------------------------------------------------------------- *)
Definition is_mut_step (sp : step) : bool := match sp with SClone _ | SLast _ => true | _ => false end.

Lemma mut_steps_consumers m : map step_consumer (mut_steps m) = m.
Proof.
  induction m as [|i [|j m] IH]; simpl in *; auto. now rewrite IH.
Qed.

Lemma ro_steps_consumers r : map step_consumer (ro_steps r) = r.
Proof. destruct r as [|i r]; simpl; auto. f_equal. rewrite map_map. simpl. apply map_id. Qed.

Lemma mut_steps_class m sp : In sp (mut_steps m) -> is_mut_step sp = true.
Proof.
  induction m as [|i [|j m] IH]; simpl in *; [tauto| |].
  - intros [<-|[]]. reflexivity.
  - intros [<-|H]; [reflexivity|]. auto.
Qed.

Lemma ro_steps_class r sp : In sp (ro_steps r) -> is_mut_step sp = false.
Proof.
  destruct r as [|i r]; simpl; [tauto|]. intros [<-|H]; [reflexivity|].
  apply in_map_iff in H. destruct H as [x [<- _]]. reflexivity.
Qed.

(* head of a plan in the "mutable part ++ readonly part" shape *)
Lemma shape_head M R sp rest :
  mut_steps M ++ ro_steps R = sp :: rest ->
  (exists i M', M = i :: M' /\ M' <> [] /\ sp = SClone i /\ rest = mut_steps M' ++ ro_steps R)
  \/ (exists i, M = [i] /\ sp = SLast i /\ rest = ro_steps R)
  \/ (exists i R', M = [] /\ R = i :: R' /\ sp = SFirstRO i /\ rest = map SOrig R').
Proof.
  destruct M as [|i [|j M]]; simpl.
  - destruct R as [|i R]; simpl; [discriminate|]. intros [= <- <-]. right. right. exists i, R. repeat split; auto.
  - intros [= <- <-]. right. left. exists i. repeat split; auto.
  - intros [= <- <-]. left. exists i, (j :: M). repeat split; auto. discriminate.
Qed.

(* ---- the invariant ----------------------------------------------------------------------------- *)
Definition no_holder0 (m : mstate) : Prop := forall i, ~ holds m i 0.

Definition shape (nr : nat) (m : mstate) : Prop :=
  (no_holder0 m /\ exists M R, todo m = mut_steps M ++ ro_steps R /\ length R = nr)
  \/ (exists R', todo m = map SOrig R' /\
                 (R' <> [] -> cro (get (st m) 0) = true \/ (no_holder0 m /\ length R' = 1))).

Record Inv (nr : nat) (mutc : nat -> bool) (c0 : list Z) (m : mstate) : Prop := mkInv {
  i_len : 0 < length (st m);
  i_bound : forall i c, holds m i c -> c < length (st m);
  i_nodup : NoDup (map fst (hs m));
  i_fresh : forall sp, In sp (todo m) -> ~ In (step_consumer sp) (map fst (hs m));
  i_tnodup : NoDup (map step_consumer (todo m));
  i_class : forall sp, In sp (todo m) -> mutc (step_consumer sp) = is_mut_step sp;
  i_excl : forall i j c, holds m i c -> holds m j c -> c <> 0 -> i = j;
  i_clone : forall i c, holds m i c -> c <> 0 -> cro (get (st m) c) = false /\ mutc i = true;
  i_content : forall i c, holds m i c -> cont (get (st m) c) = own_view i (elog m) c0;
  i_pristine : todo m <> [] -> cont (get (st m) 0) = c0;
  i_shape : shape nr m;
  i_two : forall i j, i <> j -> holds m i 0 -> holds m j 0 -> cro (get (st m) 0) = true;
  i_mutorig : forall i, holds m i 0 -> mutc i = true ->
                nr = 0 /\ todo m = [] /\ cro (get (st m) 0) = false /\ forall j, holds m j 0 -> j = i;
  i_wlogged : forall i w, In (EWrite i w WOk) (elog m) -> In i (map fst (hs m));
  i_calls : forall i c ro seen, In (ECall i c ro seen) (elog m) ->
                seen = c0 /\ holds m i c /\ ro = cro (get (st m) c);
  i_okrw : forall i w c, In (EWrite i w WOk) (elog m) -> holds m i c -> cro (get (st m) c) = false;
  i_panic : forall i w, In (EWrite i w WPanic) (elog m) -> mutc i = false
}.

Lemma inv_fresh_view nr mutc c0 m i :
  Inv nr mutc c0 m -> ~ In i (map fst (hs m)) -> own_view i (elog m) c0 = c0.
Proof.
  intros I N. apply own_view_nowrite. intros w K. apply N. eapply i_wlogged; eauto.
Qed.

Lemma holds_in_fst m i c : holds m i c -> In i (map fst (hs m)).
Proof. intros H. change i with (fst (i, c)). now apply in_map. Qed.

(* -- a write ------------------------------------------------------------------------------------ *)
Lemma do_write_cases s c w :
  (wr_asserts w (cont (get s c)) = false /\ do_write s c w = (s, WSkip))
  \/ (wr_asserts w (cont (get s c)) = true /\ cro (get s c) = true /\ do_write s c w = (s, WPanic))
  \/ (wr_asserts w (cont (get s c)) = true /\ cro (get s c) = false /\
      do_write s c w = (upd s c (mkCell (apply_wr w (cont (get s c))) false), WOk)).
Proof.
  unfold do_write. destruct (wr_asserts w (cont (get s c))); [|now left].
  destruct (cro (get s c)) eqn:E; [right; left|right; right]; auto.
Qed.

Lemma inv_log_only nr mutc c0 m e :
  Inv nr mutc c0 m ->
  (forall i w, e <> EWrite i w WOk) -> (forall i c ro seen, e <> ECall i c ro seen) ->
  (forall i w, e = EWrite i w WPanic -> mutc i = false) ->
  Inv nr mutc c0 (mkM (todo m) (st m) (hs m) (e :: elog m)).
Proof.
  intros I Nok Ncall Hp.
  assert (OV : forall i, own_view i (e :: elog m) c0 = own_view i (elog m) c0).
  { intros i. destruct e as [| j w [| |]|]; simpl; auto. exfalso. eapply Nok; eauto. }
  destruct I. constructor; cbn [todo st hs elog]; auto.
  - intros i c H. rewrite OV. auto.
  - intros i w [E|H]; [subst; exfalso; eapply Nok; eauto|eauto].
  - intros i c ro seen [E|H]; [subst; exfalso; eapply Ncall; eauto|eauto].
  - intros i w c [E|H]; [subst; exfalso; eapply Nok; eauto|eauto].
  - intros i w [E|H]; [eauto|eauto].
Qed.

Lemma inv_write nr mutc c0 m i w : Inv nr mutc c0 m -> Inv nr mutc c0 (mstep nr m (LWrite i w)).
Proof.
  intros I. simpl. destruct (lookup i (hs m)) as [c|] eqn:L.
  2:{ apply inv_log_only; auto; congruence. }
  apply lookup_some_in in L.
  destruct (do_write_cases (st m) c w) as [[_ E]|[[_ [R E]]|[_ [R E]]]]; rewrite E.
  - apply inv_log_only; auto; congruence.
  - apply inv_log_only; auto; try congruence.
    intros j w' [= -> ->].
    destruct (mutc j) eqn:Mj; auto. exfalso.
    destruct (Nat.eq_dec c 0) as [->|N].
    + destruct (i_mutorig _ _ _ _ I j L Mj) as (_ & _ & F & _). congruence.
    + destruct (i_clone _ _ _ _ I j c L N) as [F _]. congruence.
  - (* the successful write: only consumer i holds cell c *)
    assert (LB : c < length (st m)) by (eapply i_bound; eauto).
    assert (ONLY : forall j, holds m j c -> j = i).
    { intros j Hj. destruct (Nat.eq_dec j i) as [|N]; auto.
      destruct (Nat.eq_dec c 0) as [->|N0].
      - rewrite (i_two _ _ _ _ I j i N Hj L) in R. discriminate.
      - eapply i_excl; eauto. }
    assert (OTHER : forall j c', holds m j c' -> c' <> c -> j <> i).
    { intros j c' Hj N ->. apply N. eapply nodup_fst_fun; eauto. eapply i_nodup; eauto. }
    set (x := mkCell (apply_wr w (cont (get (st m) c))) false).
    assert (CRO : forall c', cro (get (upd (st m) c x) c') = cro (get (st m) c')).
    { intros c'. destruct (Nat.eq_dec c c') as [<-|N]; [rewrite get_upd_same; auto|now rewrite get_upd_other]. }
    destruct I. constructor; cbn [todo st hs elog]; auto.
    + now rewrite length_upd.
    + intros j c' H. rewrite length_upd. eauto.
    + intros j c' H N. rewrite CRO. eauto.
    + intros j c' H. destruct (Nat.eq_dec c' c) as [->|N].
      * rewrite (ONLY j H). rewrite get_upd_same by auto. simpl. rewrite Nat.eqb_refl.
        f_equal. auto.
      * rewrite get_upd_other by auto. assert (j <> i) by eauto. cbn [own_view].
        replace (i =? j) with false by (symmetry; apply Nat.eqb_neq; auto). auto.
    + intros T. destruct (Nat.eq_dec c 0) as [->|N]; [|rewrite get_upd_other; auto].
      exfalso. destruct i_shape0 as [[NH _]|[R' [ER C]]].
      * eapply NH; eauto.
      * destruct C as [C|[NH _]]; [intros ->; now apply T| |eapply NH; eauto]. congruence.
    + destruct i_shape0 as [[N S]|[R' [ER C]]]; [left; auto|right]. exists R'. split; auto.
      rewrite CRO. auto.
    + intros j k N Hj Hk. rewrite CRO. eauto.
    + intros j Hj Mj. rewrite CRO. eauto.
    + intros j w' [[= -> ->]|H]; [eapply holds_in_fst; eauto|eauto].
    + intros j c' ro seen [H|H]; [discriminate|]. rewrite CRO. eauto.
    + intros j w' c' [[= -> ->]|H] Hj; rewrite CRO; [|eauto].
      assert (c' = c) by (eapply nodup_fst_fun; eauto). subst. auto.
    + intros j w' [H|H]; [discriminate|eauto].
Qed.

(* -- a consumer call that hands out a fresh clone ---------------------------------------------- *)
Lemma inv_call_clone nr mutc c0 m sp rest :
  Inv nr mutc c0 m -> todo m = sp :: rest -> is_mut_step sp = true ->
  no_holder0 m ->
  (exists M R, rest = mut_steps M ++ ro_steps R /\ length R = nr) ->
  Inv nr mutc c0
      (mkM rest (st m ++ [mkCell (cont (get (st m) 0)) false])
           ((step_consumer sp, length (st m)) :: hs m)
           (ECall (step_consumer sp) (length (st m))
                  (is_ro (st m ++ [mkCell (cont (get (st m) 0)) false]) (length (st m)))
                  (cont (get (st m ++ [mkCell (cont (get (st m) 0)) false]) (length (st m)))) :: elog m)).
Proof.
  intros I T MS NH SH.
  assert (P0 : cont (get (st m) 0) = c0) by (apply (i_pristine _ _ _ _ I); rewrite T; discriminate).
  assert (INT : In sp (todo m)) by (rewrite T; now left).
  assert (FR : ~ In (step_consumer sp) (map fst (hs m))) by (apply (i_fresh _ _ _ _ I sp INT)).
  assert (OVi : own_view (step_consumer sp) (elog m) c0 = c0) by (eapply inv_fresh_view; eauto).
  assert (L0 : 0 < length (st m)) by (apply (i_len _ _ _ _ I)).
  assert (TN : NoDup (step_consumer sp :: map step_consumer rest)).
  { pose proof (i_tnodup _ _ _ _ I) as H. rewrite T in H. exact H. }
  assert (CL : mutc (step_consumer sp) = true) by (rewrite (i_class _ _ _ _ I sp INT); auto).
  remember (step_consumer sp) as i eqn:Hi. remember (length (st m)) as c eqn:Hc.
  set (x := mkCell (cont (get (st m) 0)) false). set (s' := st m ++ [x]).
  assert (GO : forall c', c' < length (st m) -> get s' c' = get (st m) c') by (intros; apply get_app_old; auto).
  assert (GN : get s' c = x) by (subst c; apply get_app_new).
  assert (RO : is_ro s' c = false) by (unfold is_ro; now rewrite GN).
  assert (BD : forall j c1, In (j, c1) (hs m) -> c1 < c) by (intros j c1 H; subst c; eapply i_bound; eauto).
  rewrite RO, GN. cbn [cont x]. rewrite P0.
  pose proof I as I0. destruct I. constructor; cbn [todo st hs elog].
  - unfold s'. rewrite app_length. simpl. lia.
  - intros j c1 [E|H]; unfold s'; rewrite app_length; simpl.
    + inversion E; subst; lia.
    + apply BD in H. lia.
  - simpl. constructor; auto.
  - intros sp' H. simpl. intros [E|K].
    + inversion TN as [|? ? NI _]. apply NI. rewrite E. now apply in_map.
    + apply (i_fresh0 sp'); auto. rewrite T. now right.
  - now inversion TN.
  - intros sp' H. apply i_class0. rewrite T. now right.
  - intros j k c1 [Ej|Hj] [Ek|Hk] N.
    + congruence.
    + inversion Ej; subst c1. apply BD in Hk. lia.
    + inversion Ek; subst c1. apply BD in Hj. lia.
    + eauto.
  - intros j c1 [Ej|Hj] N.
    + inversion Ej; subst j c1. rewrite GN. split; auto.
    + rewrite GO by (apply BD in Hj; lia). eauto.
  - intros j c1 [Ej|Hj]; cbn [own_view].
    + inversion Ej; subst j c1. rewrite GN. cbn [cont x]. congruence.
    + rewrite GO by (apply BD in Hj; lia). eauto.
  - intros _. rewrite GO by auto. auto.
  - left. split.
    + intros j [E|H]; [inversion E; lia|]. eapply NH; eauto.
    + exact SH.
  - intros j k N [E|Hj]; [inversion E; lia|]. exfalso. eapply NH; eauto.
  - intros j [E|Hj]; [inversion E; lia|]. exfalso. eapply NH; eauto.
  - intros j w [H|H]; [discriminate|]. simpl. right. eauto.
  - intros j c1 ro seen [E|H].
    + inversion E; subst j c1 ro seen. rewrite GN. repeat split; auto. now left.
    + destruct (i_calls0 _ _ _ _ H) as (A & B & C). repeat split; auto. { now right. }
      rewrite GO by (apply BD in B; lia). auto.
  - intros j w c1 [H|H]; [discriminate|]. intros [E|Hj].
    + inversion E; subst j c1. exfalso. apply FR. eauto.
    + rewrite GO by (apply BD in Hj; lia). eauto.
  - intros j w [H|H]; [discriminate|eauto].
Qed.

(* -- a consumer call that hands out the caller's payload (optionally marking it read-only) --- *)
Lemma inv_call_orig nr mutc c0 m sp rest (mark : bool) :
  Inv nr mutc c0 m -> todo m = sp :: rest ->
  (mark = true -> no_holder0 m) ->
  ((exists j, holds m j 0) -> cro (get (st m) 0) = true /\ is_mut_step sp = false) ->
  (is_mut_step sp = true ->
     nr = 0 /\ rest = [] /\ cro (get (if mark then mark_ro (st m) 0 else st m) 0) = false) ->
  (exists R', rest = map SOrig R' /\
              (R' <> [] -> cro (get (if mark then mark_ro (st m) 0 else st m) 0) = true)) ->
  Inv nr mutc c0
      (mkM rest (if mark then mark_ro (st m) 0 else st m)
           ((step_consumer sp, 0) :: hs m)
           (ECall (step_consumer sp) 0
                  (is_ro (if mark then mark_ro (st m) 0 else st m) 0)
                  (cont (get (if mark then mark_ro (st m) 0 else st m) 0)) :: elog m)).
Proof.
  intros I T MK SHR MUT SH.
  assert (P0 : cont (get (st m) 0) = c0) by (apply (i_pristine _ _ _ _ I); rewrite T; discriminate).
  assert (INT : In sp (todo m)) by (rewrite T; now left).
  assert (FR : ~ In (step_consumer sp) (map fst (hs m))) by (apply (i_fresh _ _ _ _ I sp INT)).
  assert (OVi : own_view (step_consumer sp) (elog m) c0 = c0) by (eapply inv_fresh_view; eauto).
  assert (L0 : 0 < length (st m)) by (apply (i_len _ _ _ _ I)).
  assert (TN : NoDup (step_consumer sp :: map step_consumer rest)).
  { pose proof (i_tnodup _ _ _ _ I) as H. rewrite T in H. exact H. }
  assert (CL : mutc (step_consumer sp) = is_mut_step sp) by (apply (i_class _ _ _ _ I sp INT)).
  remember (step_consumer sp) as i eqn:Hi.
  set (s' := if mark then mark_ro (st m) 0 else st m).
  fold s' in MUT, SH.
  assert (LEN : length s' = length (st m)) by (unfold s'; destruct mark; auto using length_mark_ro).
  assert (CONT : forall c', cont (get s' c') = cont (get (st m) c')).
  { intros c'. unfold s'. destruct mark; auto using cont_mark_ro. }
  assert (CRO : forall c', c' <> 0 -> cro (get s' c') = cro (get (st m) c')).
  { intros c' N. unfold s'. destruct mark; auto. apply cro_mark_ro_other. auto. }
  assert (SAME : (exists j, holds m j 0) -> s' = st m).
  { intros [j Hj]. unfold s'. destruct mark; auto. exfalso. eapply MK; eauto. }
  assert (CROH : forall j c1, holds m j c1 -> cro (get s' c1) = cro (get (st m) c1)).
  { intros j c1 H. destruct (Nat.eq_dec c1 0) as [->|N]; [|auto]. rewrite SAME; eauto. }
  rewrite CONT, P0. unfold is_ro.
  pose proof I as I0. destruct I. constructor; cbn [todo st hs elog].
  - lia.
  - intros j c1 [E|H]; rewrite LEN; [inversion E; subst; lia|eauto].
  - simpl. constructor; auto.
  - intros sp' H. simpl. intros [E|K].
    + inversion TN as [|? ? NI _]. apply NI. rewrite E. now apply in_map.
    + apply (i_fresh0 sp'); auto. rewrite T. now right.
  - now inversion TN.
  - intros sp' H. apply i_class0. rewrite T. now right.
  - intros j k c1 [Ej|Hj] [Ek|Hk] N; try congruence. eauto.
  - intros j c1 [Ej|Hj] N; [congruence|]. rewrite CRO by auto. eauto.
  - intros j c1 [Ej|Hj]; cbn [own_view]; rewrite CONT.
    + inversion Ej; subst j c1. congruence.
    + eauto.
  - intros _. now rewrite CONT.
  - right. destruct SH as [R' [E C]]. exists R'. split; auto.
  - intros j k N [Ej|Hj] [Ek|Hk]; try congruence.
    + rewrite SAME by eauto. apply SHR. eauto.
    + rewrite SAME by eauto. apply SHR. eauto.
    + rewrite SAME by eauto. eauto.
  - intros j [Ej|Hj] Mj.
    + inversion Ej; subst j.
      assert (MS : is_mut_step sp = true) by congruence.
      destruct (MUT MS) as (A & B & C). repeat split; auto.
      intros k [Ek|Hk]; [congruence|]. exfalso.
      destruct SHR as [_ F]; eauto. congruence.
    + exfalso. destruct (i_mutorig0 j Hj Mj) as (_ & F & _). congruence.
  - intros j w [H|H]; [discriminate|]. simpl. right. eauto.
  - intros j c1 ro seen [E|H].
    + inversion E; subst j c1 ro seen. repeat split; auto. now left.
    + destruct (i_calls0 _ _ _ _ H) as (A & B & C). repeat split; auto. { now right. }
      rewrite (CROH _ _ B). auto.
  - intros j w c1 [H|H]; [discriminate|]. intros [E|Hj].
    + inversion E; subst j c1. exfalso. apply FR. eauto.
    + rewrite (CROH _ _ Hj). eauto.
  - intros j w [H|H]; [discriminate|eauto].
Qed.

(* -- the next consumer call ------------------------------------------------------------------- *)
Lemma inv_call nr mutc c0 m : Inv nr mutc c0 m -> Inv nr mutc c0 (mstep nr m LCall).
Proof.
  intros I. cbn [mstep]. destruct (todo m) as [|sp rest] eqn:T; [exact I|].
  destruct (i_shape _ _ _ _ I) as [[NH (M & R & ET & LR)]|(R' & ET & C)].
  - rewrite T in ET. symmetry in ET.
    destruct (shape_head _ _ _ _ ET) as [(i & M' & -> & NE & -> & ->)|[(i & -> & -> & ->)|(i & R1 & -> & -> & -> & ->)]].
    + (* clone for a mutating consumer that is not the last one *)
      cbn [exec_step clone].
      apply (inv_call_clone nr mutc c0 m (SClone i) _ I T eq_refl NH). eauto.
    + (* the last mutating consumer *)
      cbn [exec_step clone].
      destruct ((nr =? 0) && negb (is_ro (st m) 0)) eqn:E.
      * apply andb_true_iff in E. destruct E as [E1 E2]. apply Nat.eqb_eq in E1. apply negb_true_iff in E2.
        assert (R = []) by (destruct R; simpl in *; auto; lia). subst R. cbn [ro_steps] in *.
        apply (inv_call_orig nr mutc c0 m (SLast i) [] false I T).
        -- discriminate.
        -- intros [j Hj]. exfalso. eapply NH; eauto.
        -- intros _. auto.
        -- exists []. split; [reflexivity|]. intros F. now elim F.
      * apply (inv_call_clone nr mutc c0 m (SLast i) _ I T eq_refl NH). exists [], R. auto.
    + (* the first read-only consumer; the payload is marked when it will be shared *)
      cbn [exec_step]. cbn [app mut_steps ro_steps] in *.
      set (mark := (1 <? nr) && negb (is_ro (st m) 0)).
      replace (if mark then mark_ro (st m) 0 else st m) with (if mark then mark_ro (st m) 0 else st m) by auto.
      apply (inv_call_orig nr mutc c0 m (SFirstRO i) (map SOrig R1) mark I T).
      * intros _. exact NH.
      * intros [j Hj]. exfalso. eapply NH; eauto.
      * discriminate.
      * exists R1. split; auto. intros NE.
        assert (L1 : (1 <? nr) = true).
        { apply Nat.ltb_lt. rewrite <- LR. destruct R1; [congruence|]. simpl. lia. }
        unfold mark. rewrite L1. cbn [andb]. unfold is_ro.
        destruct (cro (get (st m) 0)) eqn:E; cbn [negb]; auto.
        apply cro_mark_ro_same. eapply i_len; eauto.
  - (* remaining read-only consumers (or the unwrapped single one) *)
    rewrite T in ET. destruct R' as [|i R1]; [discriminate|]. cbn [map] in ET. injection ET as -> ->.
    cbn [exec_step].
    assert (NE : i :: R1 <> []) by discriminate. specialize (C NE).
    apply (inv_call_orig nr mutc c0 m (SOrig i) (map SOrig R1) false I T).
    + discriminate.
    + intros [j Hj]. split; auto. destruct C as [C|[NH _]]; auto. exfalso. eapply NH; eauto.
    + discriminate.
    + exists R1. split; auto. intros NE1. destruct C as [C|[_ L1]]; auto.
      destruct R1; [congruence|]. simpl in L1. lia.
Qed.

Lemma inv_step nr mutc c0 m l : Inv nr mutc c0 m -> Inv nr mutc c0 (mstep nr m l).
Proof.
  destruct l; [apply inv_call|apply inv_write|].
  intros I. cbn [mstep]. apply inv_log_only; auto; discriminate.
Qed.

Lemma inv_fold nr mutc c0 ls : forall m, Inv nr mutc c0 m -> Inv nr mutc c0 (fold_left (mstep nr) ls m).
Proof. induction ls as [|l ls IH]; simpl; auto. intros m I. apply IH. now apply inv_step. Qed.
