(* C06/ClausesProofs.v — the decidable clause checker of Clauses.v is sound and complete w.r.t. the Prop-level
   statement of each clause over an observed delivery: delivery_ok x = true <-> DeliveryClause x. *)
From Verif Require Import Common.Base C06.Clauses.

Lemma listZ_eqb_spec a b : listZ_eqb a b = true <-> a = b.
Proof. apply list_eqb_spec. apply Z.eqb_eq. Qed.

Lemma option_eqb_spec {A} (eqb : A -> A -> bool) (H : forall x y, eqb x y = true <-> x = y) a b :
  option_eqb eqb a b = true <-> a = b.
Proof.
  destruct a, b; simpl; try (split; congruence). rewrite H. split; congruence.
Qed.

Inductive AllPairs {A} (R : A -> A -> Prop) : list A -> Prop :=
| AP_nil : AllPairs R []
| AP_cons x r : Forall (R x) r -> AllPairs R r -> AllPairs R (x :: r).

Lemma all_pairs_spec {A} (Rb : A -> A -> bool) (R : A -> A -> Prop) (H : forall x y, Rb x y = true <-> R x y) l :
  all_pairs Rb l = true <-> AllPairs R l.
Proof.
  induction l as [|x r IH]; simpl.
  - split; [constructor|reflexivity].
  - rewrite andb_true_iff, IH, forallb_forall. split.
    + intros [A1 A2]. constructor; auto. apply Forall_forall. intros y Hy. apply H. auto.
    + intros HP. inversion HP as [|? ? F P]; subst. split; auto. intros y Hy. apply H.
      rewrite Forall_forall in F. auto.
Qed.

(* ---- Prop-level clauses over one observed delivery -------------------------------------------------- *)
Section Delivery.
  Variable x : dobs_in.
  Let caps := d_caps x.
  Let n := length caps.
  Let evs := d_evs x.
  Let calls := calls_obs evs.

  (* every consumer is invoked exactly once (once the fan-out has had the opportunity to make all its calls) *)
  Definition C_called_once : Prop :=
    n <= n_call_labels (d_ls x) -> length calls = n /\ forall i, i < n -> count_occ Nat.eq_dec calls i = 1.
  (* every consumer receives content equal to what was sent *)
  Definition C_content : Prop := forall e, In e evs -> is_callb e = true -> e_seen e = d_c0 x.
  (* the returned error is the aggregation of all individual errors *)
  Definition C_errors : Prop := d_err x = flat_map (fun i => nth i (d_errs x) []) calls.
  (* a payload given to two consumers is given to non-mutating ones only and is read-only *)
  Definition share_ok (e1 e2 : wev) : Prop :=
    e_cell e1 = e_cell e2 -> capof caps (e_who e1) = false /\ capof caps (e_who e2) = false /\ e_ro e2 = true.
  Definition C_sharing : Prop := AllPairs share_ok (filter is_callb evs).
  (* a mutating consumer gets mutable data, and the caller's own payload only if advertised and mutable *)
  Definition C_mutator : Prop :=
    forall e, In e evs -> is_callb e = true -> capof caps (e_who e) = true ->
              e_ro e = false /\ (e_cell e = 0 -> d_cap x = true /\ d_ro x = false).
  (* non-interference: the final content of every consumer is the sent content changed by its own successful writes *)
  Definition C_final : Prop :=
    length (filter is_write_label (d_ls x)) = length (filter is_writeb evs) /\
    d_final x = expected_final n (d_c0 x) (d_ls x) evs.
  Definition C_cap : Prop := d_cap x = spec_fan caps.
  Definition C_nopanic : Prop :=
    forall e, In e evs -> is_writeb e = true -> e_a e = 1 -> capof caps (e_who e) = false.
  Fixpoint ctx_consistent (done : bool) (l : list wev) : Prop :=
    match l with
    | [] => True
    | e :: r => if e_tag e =? 2 then ctx_consistent true r
                else if is_callb e then e_done e = done /\ ctx_consistent done r
                else ctx_consistent done r
    end.
  Definition C_ctx : Prop := ctx_consistent false evs.
  Definition C_fresh : Prop := forall e, In e evs -> is_callb e = true -> e_cell e < 500.

  Definition DeliveryClause : Prop :=
    C_called_once /\ C_content /\ C_errors /\ C_sharing /\ C_mutator /\ C_final /\ C_cap /\ C_nopanic /\ C_ctx /\ C_fresh.

  Lemma called_once_spec : k_called_once n (d_ls x) evs = true <-> C_called_once.
  Proof.
    unfold k_called_once, C_called_once. fold calls. destruct (n <=? n_call_labels (d_ls x)) eqn:E.
    - apply Nat.leb_le in E. rewrite andb_true_iff, Nat.eqb_eq, forallb_forall. split.
      + intros [A B] _. split; auto. intros i Hi. apply Nat.eqb_eq. apply B. apply in_seq. lia.
      + intros H. destruct (H E) as [A B]. split; auto. intros i Hi. apply in_seq in Hi. apply Nat.eqb_eq. apply B. lia.
    - apply Nat.leb_gt in E. split; auto. intros _ F. lia.
  Qed.

  Lemma content_spec : k_content (d_c0 x) evs = true <-> C_content.
  Proof.
    unfold k_content, C_content. rewrite forallb_forall. split.
    - intros H e He Hc. specialize (H e He). rewrite Hc in H. simpl in H. now apply listZ_eqb_spec.
    - intros H e He. destruct (is_callb e) eqn:Hc; simpl; auto. apply listZ_eqb_spec. auto.
  Qed.

  Lemma errors_spec : k_errors (d_errs x) evs (d_err x) = true <-> C_errors.
  Proof. unfold k_errors, C_errors. apply list_eqb_spec. apply N.eqb_eq. Qed.

  Lemma share_okb_spec e1 e2 : share_okb caps e1 e2 = true <-> share_ok e1 e2.
  Proof.
    unfold share_okb, share_ok. destruct (e_cell e1 =? e_cell e2) eqn:E; simpl.
    - apply Nat.eqb_eq in E. rewrite !andb_true_iff, !negb_true_iff. split; [intros [[A B] C] _; auto|intros H; destruct (H E) as (A & B & C); auto].
    - apply Nat.eqb_neq in E. split; auto. intros _ F. contradiction.
  Qed.

  Lemma sharing_spec : k_sharing caps evs = true <-> C_sharing.
  Proof. apply all_pairs_spec. apply share_okb_spec. Qed.

  Lemma mutator_spec : k_mutator caps (d_ro x) (d_cap x) evs = true <-> C_mutator.
  Proof.
    unfold k_mutator, C_mutator. rewrite forallb_forall. split.
    - intros H e He Hc Hm. specialize (H e He). rewrite Hc, Hm in H. simpl in H.
      apply andb_true_iff in H. destruct H as [A B]. apply negb_true_iff in A. split; auto.
      intros Z0. rewrite Z0 in B. simpl in B. apply andb_true_iff in B. destruct B as [B1 B2].
      apply negb_true_iff in B2. auto.
    - intros H e He. destruct (is_callb e) eqn:Hc; simpl; auto.
      destruct (capof caps (e_who e)) eqn:Hm; simpl; auto.
      destruct (H e He Hc Hm) as [A B]. rewrite A. simpl.
      destruct (e_cell e =? 0) eqn:Z0; simpl; auto. apply Nat.eqb_eq in Z0. destruct (B Z0) as [B1 B2]. now rewrite B1, B2.
  Qed.

  Lemma final_spec : k_final n (d_c0 x) (d_ls x) evs (d_final x) = true <-> C_final.
  Proof.
    unfold k_final, C_final. rewrite andb_true_iff, Nat.eqb_eq.
    rewrite (list_eqb_spec _ (option_eqb_spec _ listZ_eqb_spec)). reflexivity.
  Qed.

  Lemma cap_spec : k_cap caps (d_cap x) = true <-> C_cap.
  Proof. unfold k_cap, C_cap. split; [apply eqb_prop|intros ->; apply eqb_reflx]. Qed.

  Lemma nopanic_spec : k_nopanic caps evs = true <-> C_nopanic.
  Proof.
    unfold k_nopanic, C_nopanic. rewrite forallb_forall. split.
    - intros H e He Hw Ha. specialize (H e He). rewrite Hw, Ha in H. simpl in H. now apply negb_true_iff in H.
    - intros H e He. destruct (is_writeb e) eqn:Hw; simpl; auto.
      destruct (e_a e =? 1) eqn:Ha; simpl; auto. apply Nat.eqb_eq in Ha. now rewrite (H e He Hw Ha).
  Qed.

  Lemma ctx_spec : forall l done, k_ctx done l = true <-> ctx_consistent done l.
  Proof.
    induction l as [|e r IH]; intros done; simpl; [tauto|].
    destruct (e_tag e =? 2); [apply IH|]. destruct (is_callb e); [|apply IH].
    rewrite andb_true_iff, IH. split; intros [A B]; split; auto; [now apply eqb_prop|subst; apply eqb_reflx].
  Qed.

  Lemma fresh_spec : k_fresh evs = true <-> C_fresh.
  Proof.
    unfold k_fresh, C_fresh. rewrite forallb_forall. split.
    - intros H e He Hc. specialize (H e He). rewrite Hc in H. simpl in H. now apply Nat.ltb_lt.
    - intros H e He. destruct (is_callb e) eqn:Hc; simpl; auto. apply Nat.ltb_lt. auto.
  Qed.

  Lemma delivery_ok_spec_l : delivery_ok x = true <-> DeliveryClause.
  Proof.
    unfold delivery_ok, delivery_clauses, DeliveryClause. cbn [forallb id]. rewrite !andb_true_iff.
    pose proof called_once_spec as H1. pose proof content_spec as H2. pose proof errors_spec as H3.
    pose proof sharing_spec as H4. pose proof mutator_spec as H5. pose proof final_spec as H6.
    pose proof cap_spec as H7. pose proof nopanic_spec as H8. pose proof (ctx_spec evs false) as H9.
    pose proof fresh_spec as H10. unfold C_ctx. unfold n, evs, caps in *. tauto.
  Qed.
End Delivery.

(* the checker on a single-delivery case *)
Lemma prop_ok_fan_l sig caps ro c0 errs ls o_cap o_evs o_final o_ro0 o_err :
  prop_ok (CFan sig caps ro c0 errs ls o_cap o_evs o_final o_ro0 o_err) = true <->
  DeliveryClause (mkDin caps ro c0 errs ls o_cap o_evs o_final o_err).
Proof. unfold prop_ok. cbn [case_clauses]. apply delivery_ok_spec_l. Qed.

(* ... and on a session: every delivery satisfies the clauses *)
Lemma prop_ok_sess_l sig caps script o :
  prop_ok (CSess sig caps script o) = true <->
  length o = length (sess_inputs caps script 0) /\ Forall DeliveryClause (sess_dobs caps script o).
Proof.
  unfold prop_ok, case_clauses. cbn [forallb]. unfold id at 1. rewrite andb_true_r, andb_true_iff, Nat.eqb_eq, forallb_forall, Forall_forall.
  split; intros [A B]; split; auto; intros y Hy; apply delivery_ok_spec_l; auto.
Qed.

(* the capability the clause checker demands is the model's (hence, by fan_cap_is_source, the code's) *)
From Verif Require Import C06.Proofs C06.Proofs2.
Lemma spec_fan_is_fan_cap_l caps : spec_fan caps = fan_cap (new_fan caps).
Proof.
  destruct (fan_cap (new_fan caps)) eqn:E.
  - apply fan_cap_spec in E. destruct E as [NE ALL]. unfold spec_fan. rewrite ALL.
    destruct caps; [now elim NE|reflexivity].
  - destruct (spec_fan caps) eqn:S; auto. unfold spec_fan in S. apply andb_true_iff in S. destruct S as [A B].
    assert (fan_cap (new_fan caps) = true); [|congruence].
    apply fan_cap_spec. split; auto. intros ->. discriminate.
Qed.
