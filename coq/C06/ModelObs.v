(* C06/ModelObs.v — the link from the model to the clause checker: what the MODEL produces always passes
   Clauses.prop_ok.  [observe] builds the observed half of a case from the model's own run exactly as the harness
   builds it from the implementation's run (Harness.model_fan). *)
From Verif Require Import Common.Base C06.Model C06.Proofs C06.Proofs2 C06.Clauses C06.ClausesProofs.
From Verif Require C06.SessionProofs.
From Coq Require Import Permutation.

(* ---- decoding the event word a = 4*cell + 2*done + ro ------------------------------------------------- *)
Definition enc (c : nat) (d r : bool) : nat := 4 * c + (if d then 2 else 0) + (if r then 1 else 0).

Lemma enc_cell c d r : enc c d r / 4 = c.
Proof.
  unfold enc. symmetry. apply (Nat.div_unique _ 4 c ((if d then 2 else 0) + (if r then 1 else 0))).
  - destruct d, r; simpl; lia.
  - lia.
Qed.

Lemma enc_ro c d r : Nat.odd (enc c d r) = r.
Proof.
  unfold enc. replace (4 * c + (if d then 2 else 0) + (if r then 1 else 0))
    with ((if r then 1 else 0) + 2 * (2 * c + (if d then 1 else 0))) by (destruct d, r; lia).
  rewrite Nat.odd_add_mul_2. destruct r; reflexivity.
Qed.

Lemma enc_done c d r : Nat.odd (enc c d r / 2) = d.
Proof.
  assert (E : enc c d r / 2 = 2 * c + (if d then 1 else 0)).
  { unfold enc. symmetry. apply (Nat.div_unique _ 2 _ (if r then 1 else 0)); destruct d, r; simpl; lia. }
  rewrite E. replace (2 * c + (if d then 1 else 0)) with ((if d then 1 else 0) + 2 * c) by lia.
  rewrite Nat.odd_add_mul_2. destruct d; reflexivity.
Qed.

(* ---- the wire image of a chronological log -------------------------------------------------------------- *)
Lemma wire_evs_enc d L : wire_evs d L =
  match L with
  | [] => []
  | ECall i c ro seen :: r => (0, (i, (enc c d ro, seen))) :: wire_evs d r
  | EWrite i _ res :: r => (1, (i, (wres_code res, []))) :: wire_evs d r
  | ECancel :: r => (2, (0, (0, []))) :: wire_evs true r
  end.
Proof. destruct L as [|[i c ro seen|i w res|] r]; reflexivity. Qed.

(* consumers called, chronological log *)
Fixpoint calls_chron (L : list ev) : list nat :=
  match L with
  | [] => []
  | ECall i _ _ _ :: r => i :: calls_chron r
  | _ :: r => calls_chron r
  end.

Lemma calls_chron_app a b : calls_chron (a ++ b) = calls_chron a ++ calls_chron b.
Proof. induction a as [|[i c ro seen|i w res|] a IH]; simpl; auto. now rewrite IH. Qed.

Lemma calls_of_chron log : calls_of log = calls_chron (rev log).
Proof.
  induction log as [|[i c ro seen|i w res|] log IH]; simpl; auto; rewrite calls_chron_app, IH; simpl;
    now rewrite ?app_nil_r.
Qed.

Lemma calls_obs_wire d L : calls_obs (wire_evs d L) = calls_chron L.
Proof.
  revert d. induction L as [|[i c ro seen|i w res|] L IH]; intros d; cbn; auto.
  - unfold calls_obs in *. cbn. now rewrite IH.
  - apply IH.
  - apply IH.
Qed.

(* every call event of the wire image comes from a call event of the log *)
Lemma wire_call_in d L e :
  In e (wire_evs d L) -> is_callb e = true ->
  exists i c ro seen d', In (ECall i c ro seen) L /\ e = (0, (i, (enc c d' ro, seen))).
Proof.
  revert d. induction L as [|[i c ro seen|i w res|] L IH]; intros d; cbn; [tauto| | |].
  - intros [<-|H] Hc.
    + exists i, c, ro, seen, d. split; auto.
    + destruct (IH d H Hc) as (i' & c' & ro' & seen' & d' & A & B). exists i', c', ro', seen', d'. split; auto.
  - intros [<-|H] Hc; [discriminate|].
    destruct (IH d H Hc) as (i' & c' & ro' & seen' & d' & A & B). exists i', c', ro', seen', d'. split; auto.
  - intros [<-|H] Hc; [discriminate|].
    destruct (IH true H Hc) as (i' & c' & ro' & seen' & d' & A & B). exists i', c', ro', seen', d'. split; auto.
Qed.

Lemma wire_write_in d L e :
  In e (wire_evs d L) -> is_writeb e = true ->
  exists i w res, In (EWrite i w res) L /\ e = (1, (i, (wres_code res, []))).
Proof.
  revert d. induction L as [|[i c ro seen|i w res|] L IH]; intros d; cbn; [tauto| | |].
  - intros [<-|H] Hc; [discriminate|]. destruct (IH d H Hc) as (i' & w' & r' & A & B). exists i', w', r'. auto.
  - intros [<-|H] Hc.
    + exists i, w, res. auto.
    + destruct (IH d H Hc) as (i' & w' & r' & A & B). exists i', w', r'. auto.
  - intros [<-|H] Hc; [discriminate|]. destruct (IH true H Hc) as (i' & w' & r' & A & B). exists i', w', r'. auto.
Qed.

(* K9: the context flag of the wire image is consistent by construction *)
Arguments enc : simpl never.

Lemma k_ctx_wire d L : k_ctx d (wire_evs d L) = true.
Proof.
  revert d. induction L as [|[i c ro seen|i w res|] L IH]; intros d; rewrite wire_evs_enc; [reflexivity| | |].
  - cbn [k_ctx]. unfold e_tag, is_callb, e_tag, e_done, e_a. cbn [fst snd Nat.eqb].
    rewrite enc_done, eqb_reflx. cbn [andb]. apply IH.
  - cbn [k_ctx]. unfold e_tag, is_callb, e_tag. cbn [fst snd Nat.eqb]. apply IH.
  - cbn [k_ctx]. unfold e_tag. cbn [fst snd Nat.eqb]. apply IH.
Qed.

(* ---- labels ------------------------------------------------------------------------------------------------ *)
Lemma label_of_call l : (l_tag l =? 0) = is_call (label_of l).
Proof. destruct l as (tag, (i, (k, v))). destruct tag as [|[|[|[|[|[|t]]]]]]; reflexivity. Qed.

Lemma n_call_labels_ncalls ls : n_call_labels ls = ncalls (map label_of ls).
Proof.
  unfold n_call_labels, ncalls. induction ls as [|l ls IH]; simpl; auto.
  rewrite label_of_call. destruct (is_call (label_of l)); simpl; auto.
Qed.

(* the (consumer, program) of a write label *)
Definition wl_of (l : wlabel) : nat * wr :=
  match label_of l with LWrite i w => (i, w) | _ => (0, WAppend 0%Z) end.

Lemma write_label_spec l : is_write_label l = true -> label_of l = LWrite (fst (wl_of l)) (snd (wl_of l)).
Proof. destruct l as (tag, (i, (k, v))). unfold wl_of. destruct tag as [|[|[|[|[|[|t]]]]]]; cbn; try discriminate; reflexivity. Qed.

Fixpoint wlabels (lbls : list label) : list (nat * wr) :=
  match lbls with
  | [] => []
  | LWrite i w :: r => (i, w) :: wlabels r
  | _ :: r => wlabels r
  end.

Lemma wlabels_app a b : wlabels (a ++ b) = wlabels a ++ wlabels b.
Proof. induction a as [|[|i w|] a IH]; simpl; auto. now rewrite IH. Qed.

Lemma wlabels_wire ls : wlabels (map label_of ls) = map wl_of (filter is_write_label ls).
Proof.
  induction ls as [|l ls IH]; simpl; auto. destruct l as (tag, (i, (k, v))).
  destruct tag as [|[|[|[|[|[|t]]]]]]; cbn in *; rewrite ?IH; reflexivity.
Qed.

(* ---- the writes of a chronological log ------------------------------------------------------------------- *)
Fixpoint wlog (L : list ev) : list (nat * wr * wres) :=
  match L with
  | [] => []
  | EWrite i w r :: t => (i, w, r) :: wlog t
  | _ :: t => wlog t
  end.

Lemma wlog_app a b : wlog (a ++ b) = wlog a ++ wlog b.
Proof. induction a as [|[i c ro seen|i w res|] a IH]; simpl; auto. now rewrite IH. Qed.

Definition enc_w (x : nat * wr * wres) : wev := (1, (fst (fst x), (wres_code (snd x), []))).

Lemma writes_wire d L : filter is_writeb (wire_evs d L) = map enc_w (wlog L).
Proof.
  revert d. induction L as [|[i c ro seen|i w res|] L IH]; intros d; cbn; auto.
  unfold enc_w. cbn. now rewrite IH.
Qed.

Lemma elog_write_step nr m i w : exists r, elog (mstep nr m (LWrite i w)) = EWrite i w r :: elog m.
Proof.
  cbn [mstep]. destruct (lookup i (hs m)) as [c|]; [destruct (do_write (st m) c w) as [s' r]|]; eexists; reflexivity.
Qed.

Lemma elog_call_step nr m : wlog (rev (elog (mstep nr m LCall))) = wlog (rev (elog m)).
Proof.
  cbn [mstep]. destruct (todo m) as [|sp rest]; auto.
  destruct (exec_step nr (st m) sp) as [[s' i] c]. cbn [elog rev]. rewrite wlog_app. simpl. now rewrite app_nil_r.
Qed.

Lemma wlog_run f ro c0 lbls :
  map fst (wlog (rev (elog (run f ro c0 lbls)))) = wlabels lbls.
Proof.
  induction lbls as [|l lbls IH] using rev_ind; [reflexivity|].
  rewrite SessionProofs.run_snoc, wlabels_app. destruct l as [|i w|].
  - rewrite elog_call_step, IH. simpl. now rewrite app_nil_r.
  - destruct (elog_write_step (nro f) (run f ro c0 lbls) i w) as [r E]. rewrite E. cbn [rev].
    rewrite wlog_app, map_app, IH. reflexivity.
  - cbn [mstep elog rev]. rewrite wlog_app, map_app, IH. simpl. now rewrite app_nil_r.
Qed.

(* own_view (log newest first) as a left fold over the chronological writes *)
Definition own_step (i : nat) (c : list Z) (x : nat * wr * wres) : list Z :=
  if (fst (fst x) =? i) && (wres_code (snd x) =? 0) then apply_wr (snd (fst x)) c else c.

Lemma own_view_fold i log c0 : own_view i log c0 = fold_left (own_step i) (wlog (rev log)) c0.
Proof.
  induction log as [|e log IH]; [reflexivity|]. cbn [rev]. rewrite wlog_app, fold_left_app, <- IH.
  destruct e as [j c ro seen|j w [| |]|]; cbn; auto;
    unfold own_step; cbn; rewrite ?andb_true_r, ?andb_false_r; auto; destruct (j =? i); reflexivity.
Qed.

(* ... which is what the checker computes from the paired write labels and write events *)
Lemma own_obs_fold i : forall (W : list (nat * wr * wres)) (Ls : list wlabel) c0,
  map wl_of Ls = map fst W -> forallb is_write_label Ls = true ->
  own_obs i c0 (combine Ls (map enc_w W)) = fold_left (own_step i) W c0.
Proof.
  unfold own_obs. induction W as [|[[j w] r] W IH]; intros [|l Ls] c0 E F; simpl in *; try discriminate; auto.
  injection E as E1 E2. apply andb_true_iff in F. destruct F as [F1 F2].
  rewrite (write_label_spec l F1), E1. cbn [fst snd]. unfold own_step at 2. cbn [fst snd].
  unfold e_a, enc_w. cbn [fst snd]. apply IH; auto.
Qed.

(* ---- the store grows by at most one cell per call (K10: the harness flags cell numbers >= 500) ---------- *)
Lemma st_hs_step nr m l : length (st m) <= S (length (hs m)) -> length (st (mstep nr m l)) <= S (length (hs (mstep nr m l))).
Proof.
  intros H. destruct l as [|i w|]; cbn [mstep]; auto.
  - destruct (todo m) as [|sp rest]; auto.
    destruct sp; cbn [exec_step clone]; cbn [st hs]; simpl; rewrite ?app_length; simpl; try lia.
    + destruct ((nr =? 0) && negb (is_ro (st m) 0)); cbn [st hs]; simpl; rewrite ?app_length; simpl; lia.
    + destruct ((1 <? nr) && negb (is_ro (st m) 0)); cbn [st hs]; simpl; rewrite ?length_mark_ro; lia.
  - destruct (lookup i (hs m)) as [c|]; auto.
    destruct (do_write_cases (st m) c w) as [[_ E]|[[_ [_ E]]|[_ [_ E]]]]; rewrite E; cbn [st hs]; auto.
    now rewrite length_upd.
Qed.

Lemma st_hs_run f ro c0 lbls : length (st (run f ro c0 lbls)) <= S (length (hs (run f ro c0 lbls))).
Proof.
  unfold run. assert (G : forall m, length (st m) <= S (length (hs m)) ->
                          length (st (fold_left (mstep (nro f)) lbls m)) <= S (length (hs (fold_left (mstep (nro f)) lbls m)))).
  { induction lbls as [|l lbls IH]; simpl; auto. intros m H. apply IH. now apply st_hs_step. }
  apply G. simpl. lia.
Qed.

(* ---- pairwise clause from unique keys -------------------------------------------------------------------- *)
Lemma allpairs_of_nodup {A} (k : A -> nat) (R : A -> A -> Prop) (l : list A) :
  NoDup (map k l) -> (forall x y, In x l -> In y l -> k x <> k y -> R x y) -> AllPairs R l.
Proof.
  induction l as [|x r IH]; intros ND H; [constructor|].
  simpl in ND. inversion ND as [|? ? NI ND']; subst. constructor.
  - apply Forall_forall. intros y Hy. apply H; [now left|now right|].
    intros E. apply NI. rewrite E. now apply in_map.
  - apply IH; auto. intros a b Ha Hb. apply H; now right.
Qed.

(* ---- the observation the model produces, built exactly as Harness.model_fan builds it -------------------- *)
Definition observe (sig : nat) (caps : list bool) (ro : bool) (c0 : list Z) (errs : list (list N)) (ls : list wlabel) : vcase :=
  let o := model_fan caps ro c0 errs ls in
  CFan sig caps ro c0 errs ls (f_cap o) (f_evs o) (f_final o) (f_ro0 o) (f_err o).

Lemma observe_agrees sig caps ro c0 errs ls : check_case (observe sig caps ro c0 errs ls) = true.
Proof.
  unfold observe, check_case. set (o := model_fan caps ro c0 errs ls).
  rewrite !eqb_reflx.
  assert (E1 : list_eqb wev_eqb (f_evs o) (f_evs o) = true).
  { apply list_eqb_spec; auto. intros [t1 [i1 [a1 s1]]] [t2 [i2 [a2 s2]]]. unfold wev_eqb.
    rewrite !andb_true_iff, !Nat.eqb_eq, listZ_eqb_spec. split; [intros [[[-> ->] ->] ->]; auto|intros [= -> -> -> ->]; auto]. }
  assert (E2 : list_eqb (option_eqb listZ_eqb) (f_final o) (f_final o) = true).
  { apply list_eqb_spec; auto. intros a b. apply option_eqb_spec. apply listZ_eqb_spec. }
  assert (E3 : list_eqb N.eqb (f_err o) (f_err o) = true) by (apply list_eqb_spec; auto; apply N.eqb_eq).
  now rewrite E1, E2, E3.
Qed.

Section Link.
  Variables (sig : nat) (caps : list bool) (ro : bool) (c0 : list Z) (errs : list (list N)) (ls : list wlabel).
  Let f := new_fan caps.
  Let lbls := map label_of ls.
  Let M := run f ro c0 lbls.
  Let L := rev (elog M).
  Let evs := wire_evs false L.
  Let n := length caps.
  Let x := mkDin caps ro c0 errs ls (fan_cap f) evs (map (view M) (seq 0 n)) (consume_err f errs).

  (* the guards: the observation is of a COMPLETED ConsumeX (the script lets the fan-out make all its calls — the
     guard of fanout_all_called), and fewer than 500 consumers (the harness encodes "payload seen in another
     delivery" as cell number 500+) *)
  Hypothesis COMPLETE : n <= n_call_labels ls.

  Lemma calls_evs : calls_obs evs = calls_of (elog M).
  Proof. unfold evs. rewrite calls_obs_wire. unfold L. now rewrite calls_of_chron. Qed.

  Lemma calls_all : calls_obs evs = call_order f.
  Proof.
    rewrite calls_evs. unfold M, f. rewrite calls_prefix_l. apply firstn_all2.
    rewrite (Permutation_length (call_order_perm caps)), seq_length.
    unfold lbls. rewrite <- n_call_labels_ncalls. exact COMPLETE.
  Qed.

  Lemma call_event e : In e evs -> is_callb e = true ->
    exists i c r seen d', In (ECall i c r seen) (elog M) /\ e = (0, (i, (enc c d' r, seen))).
  Proof.
    intros He Hc. destruct (wire_call_in false L e He Hc) as (i & c & r & seen & d' & A & B).
    exists i, c, r, seen, d'. split; auto. unfold L in A. now apply in_rev in A.
  Qed.

  Lemma L_called_once : C_called_once x.
  Proof.
    unfold C_called_once. cbn [d_caps d_ls d_evs x]. intros _. rewrite calls_all.
    pose proof (call_order_perm caps) as P. fold f in P. split.
    - now rewrite (Permutation_length P), seq_length.
    - intros i Hi. rewrite (Permutation_count_occ Nat.eq_dec) in P. rewrite P.
      apply NoDup_count_occ'; [apply seq_NoDup|]. apply in_seq. lia.
  Qed.

  Lemma L_content : C_content x.
  Proof.
    intros e He Hc. cbn [d_evs d_c0 x] in *. destruct (call_event e He Hc) as (i & c & r & seen & d' & A & ->).
    unfold e_seen. cbn. unfold M, f in A. eapply content_equal_l; eauto.
  Qed.

  Lemma L_errors : C_errors x.
  Proof. unfold C_errors. cbn [d_err d_errs d_evs x]. rewrite calls_all. reflexivity. Qed.

  Lemma L_sharing : C_sharing x.
  Proof.
    unfold C_sharing. cbn [d_evs d_caps x].
    apply (allpairs_of_nodup e_who).
    - change (map e_who (filter is_callb evs)) with (calls_obs evs). rewrite calls_all. apply call_order_nodup.
    - intros a b Ha Hb NE. apply filter_In in Ha. apply filter_In in Hb. destruct Ha as [Ha Ca], Hb as [Hb Cb].
      destruct (call_event a Ha Ca) as (i & c & r & seen & d1 & A & ->).
      destruct (call_event b Hb Cb) as (j & c' & r' & seen' & d2 & B & ->).
      unfold share_ok, e_cell, e_who, e_ro, e_a in *. cbn [fst snd] in *. rewrite !enc_cell, enc_ro. intros <-.
      pose proof (inv_run caps ro c0 lbls) as I. fold f in I. fold M in I.
      destruct (i_calls _ _ _ _ I _ _ _ _ A) as (_ & HA & _).
      destruct (i_calls _ _ _ _ I _ _ _ _ B) as (_ & HB & RB).
      destruct (shared_readonly_l caps ro c0 lbls i j c HA HB NE) as (_ & Mi & Mj & R).
      fold f in R. fold M in R. repeat split; auto. congruence.
  Qed.

  Lemma L_mutator : C_mutator x.
  Proof.
    intros e He Hc Hm. cbn [d_evs d_caps d_cap d_ro x] in *.
    destruct (call_event e He Hc) as (i & c & r & seen & d' & A & ->).
    unfold e_who, e_ro, e_cell, e_a in *. cbn [fst snd] in *. rewrite enc_ro, enc_cell.
    pose proof (inv_run caps ro c0 lbls) as I. fold f in I. fold M in I.
    destruct (i_calls _ _ _ _ I _ _ _ _ A) as (_ & HA & RA).
    pose proof (mutator_gets_mutable_l caps ro c0 lbls i c HA Hm) as MU. fold f in MU. fold M in MU.
    split; [congruence|]. intros ->.
    destruct (orig_to_mutator_l caps ro c0 lbls i HA Hm) as (FC & RI & _). auto.
  Qed.

  Lemma L_final : C_final x.
  Proof.
    unfold C_final. cbn [d_ls d_evs d_final d_c0 d_caps x]. fold n.
    assert (WE : filter is_writeb evs = map enc_w (wlog L)) by apply writes_wire.
    assert (WL : map wl_of (filter is_write_label ls) = map fst (wlog L)).
    { unfold L, M. rewrite wlog_run. unfold lbls. now rewrite wlabels_wire. }
    split.
    - rewrite WE, map_length, <- (map_length fst), <- WL, map_length. reflexivity.
    - unfold expected_final. apply map_ext_in. intros i Hi.
      assert (ALLW : forallb is_write_label (filter is_write_label ls) = true).
      { apply forallb_forall. intros l Hl. apply filter_In in Hl. tauto. }
      rewrite WE, (own_obs_fold i (wlog L) _ c0 WL ALLW). unfold L. rewrite <- own_view_fold.
      rewrite calls_evs.
      pose proof (inv_run caps ro c0 lbls) as I. fold f in I. fold M in I.
      destruct (existsb (Nat.eqb i) (calls_of (elog M))) eqn:EX.
      + apply existsb_exists in EX. destruct EX as [j [Hj E]]. apply Nat.eqb_eq in E. subst j.
        apply (called_iff_holds caps ro c0 lbls i) in Hj. destruct Hj as [c Hc]. fold f in Hc. fold M in Hc.
        unfold view. rewrite (in_lookup _ _ _ (i_nodup _ _ _ _ I) Hc). cbn [option_map]. f_equal.
        apply (i_content _ _ _ _ I); auto.
      + unfold view. destruct (lookup i (hs M)) as [c|] eqn:LK; [|reflexivity]. exfalso.
        apply lookup_some_in in LK.
        assert (IN : In i (calls_of (elog M))).
        { apply (called_iff_holds caps ro c0 lbls i). exists c. exact LK. }
        assert (existsb (Nat.eqb i) (calls_of (elog M)) = true); [|congruence].
        apply existsb_exists. exists i. split; auto. apply Nat.eqb_refl.
  Qed.

  Lemma L_cap : C_cap x.
  Proof. unfold C_cap. cbn [d_cap d_caps x]. symmetry. apply spec_fan_is_fan_cap_l. Qed.

  Lemma L_nopanic : C_nopanic x.
  Proof.
    intros e He Hw Ha. cbn [d_evs d_caps x] in *.
    destruct (wire_write_in false L e He Hw) as (i & w & res & A & ->).
    unfold e_a, e_who in *. cbn [fst snd] in *. destruct res; try discriminate.
    unfold L in A. apply in_rev in A. unfold M, f in A. eapply mutator_never_panics_l; eauto.
  Qed.

  Lemma L_ctx : C_ctx x.
  Proof. unfold C_ctx. cbn [d_evs x]. apply (ctx_spec evs false). apply k_ctx_wire. Qed.

  Hypothesis SMALL : n < 500.

  Lemma L_fresh : C_fresh x.
  Proof.
    intros e He Hc. cbn [d_evs x] in *. destruct (call_event e He Hc) as (i & c & r & seen & d' & A & ->).
    unfold e_cell, e_a. cbn [fst snd]. rewrite enc_cell.
    pose proof (inv_run caps ro c0 lbls) as I. fold f in I. fold M in I.
    destruct (i_calls _ _ _ _ I _ _ _ _ A) as (_ & HA & _).
    pose proof (i_bound _ _ _ _ I i c HA) as B.
    pose proof (st_hs_run f ro c0 lbls) as SH. fold M in SH.
    destruct (run_sync caps ro c0 lbls) as [[_ S2] _]. fold f in S2. fold M in S2.
    assert (LH : length (hs M) <= n).
    { rewrite <- (map_length fst), <- rev_length, S2. unfold M, f. rewrite calls_prefix_l, firstn_length.
      rewrite (Permutation_length (call_order_perm caps)), seq_length. fold n. lia. }
    lia.
  Qed.

  Lemma model_passes_checker_l : prop_ok (observe sig caps ro c0 errs ls) = true.
  Proof.
    unfold observe, model_fan. cbn [f_cap f_evs f_final f_ro0 f_err].
    apply prop_ok_fan_l. fold f lbls M L evs n.
    change (DeliveryClause x).
    unfold DeliveryClause.
    split; [apply L_called_once|]. split; [apply L_content|]. split; [apply L_errors|].
    split; [apply L_sharing|]. split; [apply L_mutator|]. split; [apply L_final|].
    split; [apply L_cap|]. split; [apply L_nopanic|]. split; [apply L_ctx|apply L_fresh].
  Qed.
End Link.

(* ==== the other case kinds ================================================================================ *)
From Verif Require Import C06.TreeModel C06.TreeProofs.

(* ---- pipelines / trees: the capabilities the checker demands are the model's ---------------------------- *)
Section NodePipeInd.
  Variables (P : node -> Prop) (Q : pipe -> Prop).
  Hypothesis HE : forall m, P (NExp m).
  Hypothesis HC : forall m nexts, Forall Q nexts -> P (NConn m nexts).
  Hypothesis HP : forall procs exps, Forall P exps -> Q (Pipe procs exps).
  Fixpoint node_ind' (n : node) : P n :=
    match n with
    | NExp m => HE m
    | NConn m nexts =>
        HC m nexts ((fix go (l : list pipe) : Forall Q l :=
                       match l with [] => Forall_nil Q | y :: r => Forall_cons y (pipe_ind' y) (go r) end) nexts)
    end
  with pipe_ind' (p : pipe) : Q p :=
    match p with
    | Pipe procs exps =>
        HP procs exps ((fix go (l : list node) : Forall P l :=
                          match l with [] => Forall_nil P | y :: r => Forall_cons y (node_ind' y) (go r) end) exps)
    end.
End NodePipeInd.

Lemma map_ext_Forall' {A B} (f g : A -> B) l : Forall (fun x => f x = g x) l -> map f l = map g l.
Proof. induction 1; simpl; congruence. Qed.

Lemma existsb_map_id {A} (f : A -> bool) l : existsb id (map f l) = existsb f l.
Proof. induction l; simpl; auto. unfold id at 1. now rewrite IHl. Qed.

Lemma flat_map_ext_Forall {A B} (f g : A -> list B) l : Forall (fun x => f x = g x) l -> flat_map f l = flat_map g l.
Proof. induction 1; simpl; congruence. Qed.

Lemma spec_caps_are_model :
  (forall n, spec_node_cap n = node_cap n /\ spec_node_caps n = node_caps n) /\
  (forall p, spec_pipe_cap p = pipe_cap_t p /\ spec_pipe_caps p = pipe_caps p).
Proof.
  assert (HN : forall n, spec_node_cap n = node_cap n /\ spec_node_caps n = node_caps n).
  { apply (node_ind' (fun n => spec_node_cap n = node_cap n /\ spec_node_caps n = node_caps n)
                     (fun p => spec_pipe_cap p = pipe_cap_t p /\ spec_pipe_caps p = pipe_caps p)).
    - intros m. split; reflexivity.
    - intros m nexts F. cbn [spec_node_cap node_cap spec_node_caps node_caps]. rewrite aggregate_cap_spec, existsb_map_id. split.
      + f_equal. induction F as [|p r [A _] _ IH]; simpl; auto. now rewrite A, IH.
      + apply flat_map_ext_Forall. eapply Forall_impl; [|exact F]. intros p [_ B]. exact B.
    - intros procs exps F.
      assert (E : map spec_node_cap exps = map node_cap exps).
      { apply map_ext_Forall'. eapply Forall_impl; [|exact F]. intros n [A _]. exact A. }
      assert (C : spec_pipe_cap (Pipe procs exps) = pipe_cap_t (Pipe procs exps)).
      { cbn [spec_pipe_cap pipe_cap_t]. now rewrite pipeline_cap_spec, E, spec_fan_is_fan_cap_l. }
      split; auto. cbn [spec_pipe_caps pipe_caps]. rewrite C. f_equal.
      apply flat_map_ext_Forall. eapply Forall_impl; [|exact F]. intros n [_ B]. exact B. }
  split; auto.
  apply (pipe_ind' (fun n => spec_node_cap n = node_cap n /\ spec_node_caps n = node_caps n)
                   (fun p => spec_pipe_cap p = pipe_cap_t p /\ spec_pipe_caps p = pipe_caps p)).
  - intros m. split; reflexivity.
  - intros m nexts _. apply HN.
  - intros procs exps _.
    assert (E : map spec_node_cap exps = map node_cap exps) by (apply map_ext; intros; apply HN).
    assert (C : spec_pipe_cap (Pipe procs exps) = pipe_cap_t (Pipe procs exps)).
    { cbn [spec_pipe_cap pipe_cap_t]. now rewrite pipeline_cap_spec, E, spec_fan_is_fan_cap_l. }
    split; auto. cbn [spec_pipe_caps pipe_caps]. rewrite C. f_equal.
    apply flat_map_ext. intros n. apply HN.
Qed.

Lemma list_eqb_bool_refl l : list_eqb Bool.eqb l l = true.
Proof. induction l as [|b l IH]; simpl; auto. now rewrite eqb_reflx. Qed.

Lemma model_passes_pipe_l sig procs exps : prop_ok (CPipe sig procs exps (pipeline_cap procs exps)) = true.
Proof.
  unfold prop_ok. cbn [case_clauses forallb]. unfold id. rewrite andb_true_r.
  rewrite pipeline_cap_spec, spec_fan_is_fan_cap_l. apply eqb_reflx.
Qed.

Lemma model_passes_tree_l sig roots :
  prop_ok (CTree sig roots (fan_cap (new_fan (map pipe_cap_t roots))) (flat_map pipe_caps roots)) = true.
Proof.
  unfold prop_ok. cbn [case_clauses forallb]. unfold id. rewrite andb_true_r.
  destruct spec_caps_are_model as [_ HP].
  assert (E1 : map spec_pipe_cap roots = map pipe_cap_t roots) by (apply map_ext; intros; apply HP).
  assert (E2 : flat_map spec_pipe_caps roots = flat_map pipe_caps roots) by (apply flat_map_ext; intros; apply HP).
  rewrite E1, E2, spec_fan_is_fan_cap_l, eqb_reflx, list_eqb_bool_refl. reflexivity.
Qed.

(* ---- router ------------------------------------------------------------------------------------------------ *)
Lemma map_nth_seq0 {A} (d : A) (l : list A) : map (fun k => nth k l d) (seq 0 (length l)) = l.
Proof. exact (map_nth_seq d l []). Qed.

Lemma model_passes_router_l sig pcaps sel :
  prop_ok (CRouter sig pcaps sel (fan_cap (router_fan pcaps sel)) (fan_cap (new_fan pcaps)) (router_calls pcaps sel)) = true.
Proof.
  unfold prop_ok. cbn [case_clauses forallb]. unfold id. rewrite andb_true_r. unfold Clauses.router_ok, router_fan.
  set (caps := map (fun i => nth i pcaps false) sel).
  rewrite !spec_fan_is_fan_cap_l, !eqb_reflx. cbn [andb].
  assert (P : Permutation (router_calls pcaps sel) sel).
  { unfold router_calls, router_fan. fold caps.
    eapply Permutation_trans; [apply Permutation_map, (call_order_perm caps)|].
    unfold caps. rewrite map_length, map_nth_seq0. apply Permutation_refl. }
  rewrite (Permutation_length P), Nat.eqb_refl. cbn [andb].
  apply forallb_forall. intros p _. apply Nat.eqb_eq.
  rewrite (Permutation_count_occ Nat.eq_dec) in P. apply P.
Qed.

(* ---- whole graph ----------------------------------------------------------------------------------------- *)
Lemma canon_obs_arrivals ev : forall seen, map (fun a => (fst a, snd (snd a))) (canon_obs seen ev) = arrivals ev.
Proof.
  induction ev as [|[id c ro sn|id] ev IH]; intros seen; cbn; auto.
  destruct (index_of c seen 0); cbn; now rewrite IH.
Qed.

Lemma lookup_up_nodup up : NoDup (map fst up) -> forall id ms, In (id, ms) up -> lookup_up id up = Some ms.
Proof.
  induction up as [|[k v] up IH]; intros ND id ms H; [contradiction|].
  simpl in ND. inversion ND as [|? ? NI ND']; subst. simpl. destruct H as [E|H].
  - injection E as -> ->. now rewrite Nat.eqb_refl.
  - destruct (k =? id) eqn:E; [|auto]. apply Nat.eqb_eq in E. subst. exfalso. apply NI.
    change id with (fst (id, ms)). now apply in_map.
Qed.

Lemma pref_nil e : pref [] e = e.
Proof. destruct e. reflexivity. Qed.

(* guards: the tree has the shape graph.Build produces, and component ids are unique (the harness numbers them) *)
Lemma model_passes_graph_l sig tree :
  is_router tree = true -> NoDup (map fst (upstream tree)) ->
  let '(s', ev) := trun tree 0 [mkCell [] false] in
  prop_ok (CGraph sig false tree (canon_obs [0] ev) (final_obs s' ev)) = true.
Proof.
  intros SH ND. destruct (trun tree 0 [mkCell [] false]) as [s' ev] eqn:R.
  destruct (graph_noninterference_shape_l tree [] SH) as [ARR _]. unfold run_graph in ARR. rewrite R in ARR. simpl in ARR.
  assert (UP : arrivals ev = upstream tree).
  { rewrite ARR. rewrite <- (map_id (upstream tree)) at 2. apply map_ext. apply pref_nil. }
  unfold prop_ok. cbn [case_clauses forallb]. unfold id. rewrite andb_true_r. unfold graph_ok.
  set (o := canon_obs [0] ev).
  assert (PR : map (fun a => (fst a, snd (snd a))) o = upstream tree) by (unfold o; now rewrite canon_obs_arrivals).
  assert (LEN : length o = length (upstream tree)) by (rewrite <- PR; now rewrite map_length).
  assert (IDS : map fst o = map fst (upstream tree)).
  { rewrite <- PR, map_map. reflexivity. }
  rewrite LEN, Nat.eqb_refl. cbn [andb]. apply andb_true_iff. split.
  - apply forallb_forall. intros p Hp. apply Nat.eqb_eq. rewrite IDS.
    apply NoDup_count_occ'; auto. now apply in_map.
  - apply forallb_forall. intros a Ha.
    assert (IN : In (fst a, snd (snd a)) (upstream tree)).
    { rewrite <- PR. apply (in_map (fun a => (fst a, snd (snd a)))). exact Ha. }
    rewrite (lookup_up_nodup _ ND _ _ IN). cbn. apply listZ_eqb_spec. reflexivity.
Qed.

(* ---- sessions ---------------------------------------------------------------------------------------------- *)
Definition in_ro (x : bool * list Z * list (list N) * list wlabel) := fst (fst (fst x)).
Definition in_c0 (x : bool * list Z * list (list N) * list wlabel) := snd (fst (fst x)).
Definition in_errs (x : bool * list Z * list (list N) * list wlabel) := snd (fst x).
Definition in_ls (x : bool * list Z * list (list N) * list wlabel) := snd x.

Definition FM (k : nat) (r : list wslabel) : list wlabel :=
  flat_map (fun s => match s with WStep d l => if d =? k then [l] else [] | _ => [] end) r.

Lemma steps_for_step d n d' l r :
  SessionProofs.steps_for d n (SStep d' l :: r) =
  if (d' =? d) && (d <? n) then l :: SessionProofs.steps_for d n r else SessionProofs.steps_for d n r.
Proof. reflexivity. Qed.

Lemma FM_step k d l r : FM k (WStep d l :: r) = (if d =? k then [l] else []) ++ FM k r.
Proof. reflexivity. Qed.

Lemma steps_after k : forall r n, k < n -> SessionProofs.steps_for k n (map slabel_of r) = map label_of (FM k r).
Proof.
  induction r as [|[ro c0 errs|d l] r IH]; intros n H.
  - reflexivity.
  - change (SessionProofs.steps_for k (S n) (map slabel_of r) = map label_of (FM k r)). apply IH. lia.
  - change (map slabel_of (WStep d l :: r)) with (SStep d (label_of l) :: map slabel_of r).
    rewrite steps_for_step, FM_step, map_app, (IH n H).
    replace (k <? n) with true by (symmetry; apply Nat.ltb_lt; lia). rewrite andb_true_r.
    destruct (d =? k); reflexivity.
Qed.

Lemma steps_inputs caps : forall script k j x,
  nth_error (sess_inputs caps script k) j = Some x ->
  SessionProofs.steps_for (k + j) k (map slabel_of script) = map label_of (in_ls x).
Proof.
  induction script as [|[ro c0 errs|d l] r IH]; intros k j x H.
  - destruct j; discriminate.
  - change (sess_inputs caps (WDeliver ro c0 errs :: r) k) with ((ro, c0, errs, FM k r) :: sess_inputs caps r (S k)) in H.
    change (SessionProofs.steps_for (k + j) (S k) (map slabel_of r) = map label_of (in_ls x)).
    destruct j as [|j]; cbn [nth_error] in H.
    + injection H as <-. rewrite Nat.add_0_r. unfold in_ls. cbn [snd]. apply steps_after. lia.
    + replace (k + S j) with (S k + j) by lia. apply IH. exact H.
  - change (sess_inputs caps (WStep d l :: r) k) with (sess_inputs caps r k) in H.
    change (map slabel_of (WStep d l :: r)) with (SStep d (label_of l) :: map slabel_of r).
    rewrite steps_for_step.
    replace (k + j <? k) with false by (symmetry; apply Nat.ltb_ge; lia). rewrite andb_false_r. apply IH. exact H.
Qed.

Lemma deliveries_inputs caps : forall script k,
  SessionProofs.deliveries (map slabel_of script) = map (fun x => (in_ro x, in_c0 x)) (sess_inputs caps script k).
Proof. induction script as [|[ro c0 errs|d l] r IH]; intros k; cbn; auto. now rewrite (IH (S k)). Qed.

Lemma errs_inputs caps : forall script k, sess_errs script = map in_errs (sess_inputs caps script k).
Proof. induction script as [|[ro c0 errs|d l] r IH]; intros k; cbn; auto. now rewrite (IH (S k)). Qed.

Lemma nth_error_ext' {A} : forall (l1 l2 : list A), (forall d, nth_error l1 d = nth_error l2 d) -> l1 = l2.
Proof.
  induction l1 as [|a l1 IH]; intros [|b l2] H; auto.
  - specialize (H 0). discriminate.
  - specialize (H 0). discriminate.
  - pose proof (H 0) as H0. injection H0 as ->. f_equal. apply IH. intros d. apply (H (S d)).
Qed.

Lemma srun_inputs caps script :
  srun (new_fan caps) (map slabel_of script) =
  map (fun x => run (new_fan caps) (in_ro x) (in_c0 x) (map label_of (in_ls x))) (sess_inputs caps script 0).
Proof.
  set (f := new_fan caps). set (ins := sess_inputs caps script 0).
  destruct (SessionProofs.session_independent_l f (map slabel_of script)) as [LEN IND].
  rewrite (deliveries_inputs caps script 0) in LEN, IND. fold ins in LEN, IND. rewrite map_length in LEN.
  apply nth_error_ext'. intros d.
  destruct (nth_error ins d) as [x|] eqn:E.
  - rewrite (map_nth_error _ _ _ E).
    rewrite (IND d (in_ro x) (in_c0 x) (map_nth_error _ _ _ E)).
    pose proof (steps_inputs caps script 0 d x E) as S. simpl in S. now rewrite S.
  - assert (length ins <= d) by (now apply nth_error_None).
    rewrite (proj2 (nth_error_None _ _)) by lia.
    symmetry. apply nth_error_None. rewrite map_length. lia.
Qed.

Lemma combine_map_self {A B C} (g : A -> B) (h : A -> C) l :
  combine (map g l) (map h l) = map (fun x => (g x, h x)) l.
Proof. induction l; simpl; congruence. Qed.

Lemma combine_self_map {A B} (h : A -> B) l : combine l (map h l) = map (fun x => (x, h x)) l.
Proof. induction l; simpl; congruence. Qed.

Lemma model_passes_session_l sig caps script :
  Forall (fun x => length caps <= n_call_labels (in_ls x)) (sess_inputs caps script 0) -> length caps < 500 ->
  prop_ok (CSess sig caps script (model_sess caps script)) = true.
Proof.
  intros COMPLETE SMALL. apply prop_ok_sess_l.
  set (ins := sess_inputs caps script 0) in *.
  assert (MS : model_sess caps script =
               map (fun x => let m := run (new_fan caps) (in_ro x) (in_c0 x) (map label_of (in_ls x)) in
                             (wire_evs false (rev (elog m)),
                              (map (view m) (seq 0 (length caps)), (is_ro (st m) 0, consume_err (new_fan caps) (in_errs x))))) ins).
  { unfold model_sess. rewrite srun_inputs, (errs_inputs caps script 0). fold ins.
    rewrite combine_map_self, map_map. reflexivity. }
  split.
  - rewrite MS, map_length. reflexivity.
  - unfold sess_dobs. fold ins. rewrite MS, combine_self_map, map_map. apply Forall_forall. intros y Hy.
    apply in_map_iff in Hy. destruct Hy as [x [<- Hx]].
    rewrite Forall_forall in COMPLETE. specialize (COMPLETE x Hx).
    destruct x as [[[ro c0] errs] ls]. unfold in_ro, in_c0, in_errs, in_ls in *. cbn [fst snd] in *.
    pose proof (model_passes_checker_l 0 caps ro c0 errs ls COMPLETE SMALL) as OK.
    unfold observe, model_fan in OK. cbn [f_cap f_evs f_final f_ro0 f_err] in OK.
    apply prop_ok_fan_l in OK. rewrite spec_fan_is_fan_cap_l. exact OK.
Qed.

(* ---- constructor capabilities ------------------------------------------------------------------------------ *)
From Verif Require C06.CapProofs.
Lemma spec_last_is_last opts d : spec_last opts d = last opts d.
Proof.
  unfold spec_last. induction opts as [|a r IH] using rev_ind; [reflexivity|].
  rewrite rev_app_distr. simpl. now rewrite last_last.
Qed.

Lemma model_passes_cap_l kind sig opts batching :
  prop_ok (CBuilt kind sig opts batching (model_cap kind opts batching)) = true.
Proof.
  unfold prop_ok. cbn [case_clauses forallb]. unfold id. rewrite andb_true_r.
  unfold model_cap, spec_cap. destruct kind as [|[|k]]; rewrite ?spec_last_is_last.
  - rewrite CapProofs.base_cap_last. apply eqb_reflx.
  - rewrite CapProofs.proc_cap_last. apply eqb_reflx.
  - destruct batching; [rewrite CapProofs.exp_cap_batching|rewrite CapProofs.exp_cap_plain, CapProofs.base_cap_last]; apply eqb_reflx.
Qed.

(* ---- several kept route consumers of one router ------------------------------------------------------------ *)
Lemma routes_independent_l pcaps sels k sel :
  nth_error sels k = Some sel ->
  nth_error (model_routes pcaps sels) k = Some (fan_cap (router_fan pcaps sel), router_calls pcaps sel).
Proof. intros H. unfold model_routes. now rewrite (map_nth_error _ _ _ H). Qed.

Lemma model_passes_routes_l sig pcaps sels : prop_ok (CRoutes sig pcaps sels (model_routes pcaps sels)) = true.
Proof.
  unfold prop_ok. cbn [case_clauses forallb]. unfold id. rewrite andb_true_r.
  unfold model_routes. rewrite map_length, Nat.eqb_refl. cbn [andb].
  apply forallb_forall. intros [sel [c l]] H. cbn [fst snd].
  assert (E : (c, l) = (fan_cap (router_fan pcaps sel), router_calls pcaps sel)).
  { revert H. induction sels as [|a r IH]; cbn; [tauto|]. intros [E|H]; [now injection E as <- <- <-|auto]. }
  injection E as -> ->.
  pose proof (model_passes_router_l 0 pcaps sel) as P. unfold prop_ok in P. cbn [case_clauses forallb] in P.
  unfold id in P. rewrite andb_true_r in P. rewrite spec_fan_is_fan_cap_l. exact P.
Qed.
