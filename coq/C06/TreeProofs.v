(* C06/TreeProofs.v — graph_noninterference: induction over the consumer tree of a built graph. *)
From Verif Require Import Common.Base C06.Model C06.Proofs C06.Proofs2 C06.TreeModel.

(* ---- induction principle for the nested inductive --------------------------------------------- *)
Section CompInd.
  Variable P : comp -> Prop.
  Hypothesis HE : forall id m, P (CExp id m).
  Hypothesis HP : forall id m next, P next -> P (CProc id m next).
  Hypothesis HC : forall next, P next -> P (CCap next).
  Hypothesis HN : forall id m next, P next -> P (CConn id m next).
  Hypothesis HF : forall cs, Forall P cs -> P (CFanout cs).
  Fixpoint comp_ind' (x : comp) : P x :=
    match x with
    | CExp id m => HE id m
    | CProc id m next => HP id m next (comp_ind' next)
    | CCap next => HC next (comp_ind' next)
    | CConn id m next => HN id m next (comp_ind' next)
    | CFanout cs =>
        HF cs ((fix go (l : list comp) : Forall P l :=
                  match l with
                  | [] => Forall_nil P
                  | y :: r => Forall_cons y (comp_ind' y) (go r)
                  end) cs)
    end.
End CompInd.

(* ---- small facts -------------------------------------------------------------------------------- *)
Lemma arrivals_app a b : arrivals (a ++ b) = arrivals a ++ arrivals b.
Proof. induction a as [|[id c ro seen|id] a IH]; simpl; auto. now rewrite IH. Qed.

Lemma panics_app a b : panics (a ++ b) = panics a ++ panics b.
Proof. induction a as [|[id c ro seen|id] a IH]; simpl; auto. now rewrite IH. Qed.

Lemma needs_may x : needs_mutable x = true -> may_write x = true.
Proof.
  induction x using comp_ind'; simpl; auto; try discriminate.
  - intros H. apply orb_true_iff in H. apply orb_true_iff. destruct H; auto.
  - intros H. apply orb_true_iff in H. apply orb_true_iff. destruct H; auto.
Qed.

Lemma pref_pref p q e : pref p (pref q e) = pref (p ++ q) e.
Proof. unfold pref. simpl. now rewrite app_assoc. Qed.

Lemma map_pref_pref p q l : map (pref p) (map (pref q) l) = map (pref (p ++ q)) l.
Proof. rewrite map_map. apply map_ext. intros e. apply pref_pref. Qed.

Lemma fm_if_map f capf want p l :
  fm_if (fun x => map (pref p) (f x)) capf want l = map (pref p) (fm_if f capf want l).
Proof.
  induction l as [|x r IH]; simpl; auto.
  destruct (Bool.eqb (capf x) want); auto. now rewrite map_app, IH.
Qed.

(* ---- what one consumer call does --------------------------------------------------------------- *)
Record Post (x : comp) (c : nat) (s s' : store) (ev : list tev) : Prop := mkPost {
  p_len : length s <= length s';
  p_frame : forall d, d < length s -> d <> c -> get s' d = get s d;
  p_ro : cro (get s c) = true -> cro (get s' c) = true;
  p_keep : may_write x = false \/ cro (get s c) = true -> cont (get s' c) = cont (get s c);
  p_arr : arrivals ev = map (pref (cont (get s c))) (upstream x);
  p_nopanic : panics ev = []
}.

Definition Spec (runf : comp -> nat -> store -> store * list tev) (x : comp) : Prop :=
  forall c s s' ev, c < length s -> (needs_mutable x = true -> cro (get s c) = false) -> ok x = true ->
                    runf x c s = (s', ev) -> Post x c s s' ev.

Lemma visit_spec id m c s s' ev :
  c < length s -> (m = true -> cro (get s c) = false) -> visit id m c s = (s', ev) ->
  length s' = length s /\ (forall d, d <> c -> get s' d = get s d) /\
  cro (get s' c) = cro (get s c) /\ cont (get s' c) = cont (get s c) ++ mk id m /\
  arrivals ev = [(id, cont (get s c))] /\ panics ev = [].
Proof.
  intros L M. unfold visit. destruct m.
  - rewrite (M eq_refl). intros [= <- <-]. rewrite length_upd.
    repeat split; auto.
    + intros d N. now rewrite get_upd_other by auto.
    + rewrite get_upd_same by auto. simpl. symmetry. auto.
    + rewrite get_upd_same by auto. reflexivity.
  - intros [= <- <-]. repeat split; auto. simpl. now rewrite app_nil_r.
Qed.

(* processor / connector: record, maybe write, forward the same payload *)
Lemma forward_spec (id : nat) (m : bool) (next x : comp) c s s' ev :
  Spec trun next ->
  may_write x = m || may_write next -> needs_mutable x = m || needs_mutable next ->
  upstream x = (id, []) :: map (pref (mk id m)) (upstream next) ->
  c < length s -> (needs_mutable x = true -> cro (get s c) = false) -> ok next = true ->
  (let '(s1, e1) := visit id m c s in let '(s2, e2) := trun next c s1 in (s2, e1 ++ e2)) = (s', ev) ->
  Post x c s s' ev.
Proof.
  intros IH MW NM UP L PRE OK R.
  destruct (visit id m c s) as [s1 e1] eqn:V.
  destruct (trun next c s1) as [s2 e2] eqn:RN. injection R as <- <-.
  assert (Mm : m = true -> cro (get s c) = false).
  { intros ->. apply PRE. rewrite NM. reflexivity. }
  destruct (visit_spec id m c s s1 e1 L Mm V) as (VL & VF & VR & VC & VA & VP).
  assert (L1 : c < length s1) by lia.
  assert (PRE1 : needs_mutable next = true -> cro (get s1 c) = false).
  { intros N. rewrite VR. apply PRE. rewrite NM, N. apply orb_true_r. }
  destruct (IH c s1 s2 e2 L1 PRE1 OK RN) as [A B C D E F].
  constructor.
  - lia.
  - intros d Ld N. rewrite B by (auto; lia). auto.
  - intros H. apply C. now rewrite VR.
  - intros H.
    assert (m = false).
    { destruct m; auto. destruct H as [H|H].
      - rewrite MW in H. discriminate.
      - rewrite Mm in H by auto. discriminate. }
    subst m. rewrite D.
    + rewrite VC. simpl. now rewrite app_nil_r.
    + destruct H as [H|H]; [left|right].
      * rewrite MW in H. exact H.
      * now rewrite VR.
  - rewrite arrivals_app, VA, E, VC, UP. simpl. unfold pref at 2. simpl. rewrite app_nil_r.
    f_equal. now rewrite map_pref_pref.
  - now rewrite panics_app, VP, F.
Qed.

(* ---- counting the two classes -------------------------------------------------------------------- *)
Lemma count_cons capf want x r :
  count_cap capf want (x :: r) = (if Bool.eqb (capf x) want then 1 else 0) + count_cap capf want r.
Proof. unfold count_cap. simpl. destruct (Bool.eqb (capf x) want); reflexivity. Qed.

Lemma fm_if_none f capf want l : count_cap capf want l = 0 -> fm_if f capf want l = [].
Proof.
  induction l as [|x r IH]; simpl; auto. rewrite count_cons.
  destruct (Bool.eqb (capf x) want); simpl; [discriminate|auto].
Qed.

Lemma pass_mut_none runf capf nm nr c l k s :
  count_cap capf true l = 0 -> pass_mut runf capf nm nr c l k s = (s, []).
Proof.
  revert k s. induction l as [|x r IH]; intros k s; simpl; auto. rewrite count_cons.
  destruct (capf x); simpl; [discriminate|auto].
Qed.

Lemma pass_ro_none runf capf c l s :
  count_cap capf false l = 0 -> pass_ro runf capf c l s = (s, []).
Proof.
  revert s. induction l as [|x r IH]; intros s; simpl; auto. rewrite count_cons.
  destruct (capf x); simpl; [auto|discriminate].
Qed.

Lemma count_false_zero_all capf l : count_cap capf false l = 0 -> forallb id (map capf l) = true.
Proof.
  induction l as [|x r IH]; simpl; auto. rewrite count_cons.
  destruct (capf x); simpl; [auto|discriminate].
Qed.

Lemma fan_cap_counts cs :
  0 < count_cap ccap true cs -> count_cap ccap false cs = 0 -> fan_cap (new_fan (map ccap cs)) = true.
Proof.
  intros NM NR. apply fan_cap_spec. split.
  - destruct cs; [simpl in NM; unfold count_cap in NM; simpl in NM; lia|discriminate].
  - now apply count_false_zero_all.
Qed.

Lemma get_mark_other s c d : d <> c -> get (mark_ro s c) d = get s d.
Proof. intros N. unfold mark_ro. apply get_upd_other. auto. Qed.

(* what the children of a fan-out must satisfy *)
Definition child_ok (x : comp) : Prop := ok x = true /\ (may_write x = true -> ccap x = true).

Lemma ok_children cs : ok (CFanout cs) = true -> Forall child_ok cs.
Proof.
  simpl. intros H. rewrite forallb_forall in H. apply Forall_forall. intros x Hx.
  specialize (H x Hx). apply andb_true_iff in H. destruct H as [A B]. split; auto.
  intros M. rewrite M in B. exact B.
Qed.

(* ---- the mutating consumers ---------------------------------------------------------------------- *)
Lemma pass_mut_spec runf nm nr c : forall l k s s' ev,
  Forall (Spec runf) l -> Forall child_ok l ->
  c < length s -> k + count_cap ccap true l = nm ->
  pass_mut runf ccap nm nr c l k s = (s', ev) ->
  length s <= length s' /\
  (forall d, d < length s -> d <> c -> get s' d = get s d) /\
  arrivals ev = map (pref (cont (get s c))) (fm_if upstream ccap true l) /\
  panics ev = [] /\
  ((nr = 0 /\ cro (get s c) = false /\ 0 < nm) \/ get s' c = get s c).
Proof.
  induction l as [|x r IH]; intros k s s' ev FS FO L CNT R.
  - simpl in R. injection R as <- <-. simpl. repeat split; auto.
  - pose proof (Forall_inv FS) as Sx. pose proof (Forall_inv_tail FS) as FSr.
    destruct (Forall_inv FO) as [OKx MWx]. pose proof (Forall_inv_tail FO) as FOr.
    rewrite count_cons in CNT. simpl in R. simpl fm_if.
    destruct (ccap x) eqn:CX; simpl in CNT.
    2:{ simpl. apply (IH k s s' ev); auto. }
    simpl.
    (* the two ways of being handed a clone are the same proof *)
    assert (CLONE : forall s1 e1 s2 e2,
              runf x (length s) (s ++ [mkCell (cont (get s c)) false]) = (s1, e1) ->
              pass_mut runf ccap nm nr c r (S k) s1 = (s2, e2) ->
              length s <= length s2 /\
              (forall d, d < length s -> d <> c -> get s2 d = get s d) /\
              arrivals (e1 ++ e2) = map (pref (cont (get s c))) (upstream x ++ fm_if upstream ccap true r) /\
              panics (e1 ++ e2) = [] /\
              ((nr = 0 /\ cro (get s c) = false /\ 0 < nm) \/ get s2 c = get s c)).
    { intros s1 e1 s2 e2 R1 R2.
      set (sc := s ++ [mkCell (cont (get s c)) false]) in *.
      assert (Lc : length s < length sc) by (unfold sc; rewrite app_length; simpl; lia).
      assert (Gn : get sc (length s) = mkCell (cont (get s c)) false) by apply get_app_new.
      assert (PRE : needs_mutable x = true -> cro (get sc (length s)) = false) by (intros _; now rewrite Gn).
      destruct (Sx (length s) sc s1 e1 Lc PRE OKx R1) as [A B _ _ E F].
      assert (OLD : forall d, d < length s -> get s1 d = get s d).
      { intros d Ld. rewrite B by lia. unfold sc. now apply get_app_old. }
      assert (L1 : c < length s1) by lia.
      destruct (IH (S k) s1 s2 e2 FSr FOr L1 ltac:(lia) R2) as (A2 & B2 & E2 & F2 & D2).
      rewrite (OLD c L) in E2, D2.
      repeat split.
      - lia.
      - intros d Ld N. rewrite B2 by (auto; lia). auto.
      - rewrite arrivals_app, E, E2, Gn, map_app. reflexivity.
      - now rewrite panics_app, F, F2.
      - destruct D2 as [D2|D2]; [left; auto|right; congruence]. }
    destruct (S k <? nm) eqn:LT.
    + unfold tclone, clone in R.
      destruct (runf x (length s) (s ++ [mkCell (cont (get s c)) false])) as [s1 e1] eqn:R1.
      destruct (pass_mut runf ccap nm nr c r (S k) s1) as [s2 e2] eqn:R2.
      injection R as <- <-. eapply CLONE; eauto.
    + destruct ((nr =? 0) && negb (is_ro s c)) eqn:CO.
      * (* the original goes to the last mutating consumer *)
        apply andb_true_iff in CO. destruct CO as [N0 NRO].
        apply Nat.eqb_eq in N0. apply negb_true_iff in NRO. unfold is_ro in NRO.
        apply Nat.ltb_ge in LT.
        assert (CR : count_cap ccap true r = 0) by lia.
        destruct (runf x c s) as [s1 e1] eqn:R1.
        rewrite (pass_mut_none runf ccap nm nr c r (S k) s1 CR) in R. injection R as <- <-.
        destruct (Sx c s s1 e1 L (fun _ => NRO) OKx R1) as [A B _ _ E F].
        rewrite (fm_if_none upstream ccap true r CR), !app_nil_r.
        repeat split; auto. left. repeat split; auto. lia.
      * unfold tclone, clone in R.
        destruct (runf x (length s) (s ++ [mkCell (cont (get s c)) false])) as [s1 e1] eqn:R1.
        destruct (pass_mut runf ccap nm nr c r (S k) s1) as [s2 e2] eqn:R2.
        injection R as <- <-. eapply CLONE; eauto.
Qed.

(* ---- the non-mutating consumers ------------------------------------------------------------------ *)
Lemma pass_ro_spec runf c : forall l s s' ev,
  Forall (Spec runf) l -> Forall child_ok l -> c < length s ->
  pass_ro runf ccap c l s = (s', ev) ->
  length s <= length s' /\
  (forall d, d < length s -> d <> c -> get s' d = get s d) /\
  (cro (get s c) = true -> cro (get s' c) = true) /\
  cont (get s' c) = cont (get s c) /\
  arrivals ev = map (pref (cont (get s c))) (fm_if upstream ccap false l) /\
  panics ev = [].
Proof.
  induction l as [|x r IH]; intros s s' ev FS FO L R.
  - simpl in R. injection R as <- <-. simpl. repeat split; auto.
  - pose proof (Forall_inv FS) as Sx. pose proof (Forall_inv_tail FS) as FSr.
    destruct (Forall_inv FO) as [OKx MWx]. pose proof (Forall_inv_tail FO) as FOr.
    simpl in R. simpl fm_if. destruct (ccap x) eqn:CX; simpl.
    { apply IH; auto. }
    destruct (runf x c s) as [s1 e1] eqn:R1.
    destruct (pass_ro runf ccap c r s1) as [s2 e2] eqn:R2. injection R as <- <-.
    assert (MW : may_write x = false).
    { destruct (may_write x) eqn:M; auto. specialize (MWx eq_refl). congruence. }
    assert (PRE : needs_mutable x = true -> cro (get s c) = false).
    { intros N. apply needs_may in N. congruence. }
    destruct (Sx c s s1 e1 L PRE OKx R1) as [A B C D E F].
    assert (L1 : c < length s1) by lia.
    destruct (IH s1 s2 e2 FSr FOr L1 R2) as (A2 & B2 & C2 & D2 & E2 & F2).
    rewrite (D (or_introl MW)) in D2, E2.
    repeat split.
    + lia.
    + intros d Ld N. rewrite B2 by (auto; lia). auto.
    + auto.
    + auto.
    + now rewrite arrivals_app, E, E2, map_app.
    + now rewrite panics_app, F, F2.
Qed.

(* ---- the fan-out ------------------------------------------------------------------------------------ *)
Lemma fanout_spec cs : Forall (Spec trun) cs -> Spec trun (CFanout cs).
Proof.
  intros FS c s s' ev L _ OK R.
  pose proof (ok_children cs OK) as FO.
  cbn [trun] in R.
  set (nm := count_cap ccap true cs) in *. set (nr := count_cap ccap false cs) in *.
  destruct (pass_mut trun ccap nm nr c cs 0 s) as [s1 e1] eqn:R1.
  set (s1' := if (1 <? nr) && negb (is_ro s1 c) then mark_ro s1 c else s1) in *.
  destruct (pass_ro trun ccap c cs s1') as [s2 e2] eqn:R2. injection R as <- <-.
  destruct (pass_mut_spec trun nm nr c cs 0 s s1 e1 FS FO L eq_refl R1) as (A1 & B1 & E1 & F1 & D1).
  assert (L1 : c < length s1) by lia.
  destruct D1 as [(N0 & NRO & NM)|SAME].
  - (* the original was handed to the last mutating consumer: there is no non-mutating consumer *)
    assert (S1 : s1' = s1) by (unfold s1'; rewrite N0; reflexivity).
    rewrite S1 in R2. rewrite (pass_ro_none trun ccap c cs s1 N0) in R2. injection R2 as <- <-.
    assert (FC : fan_cap (new_fan (map ccap cs)) = true) by (apply fan_cap_counts; auto).
    constructor; auto.
    + intros H. congruence.
    + cbn [may_write]. intros [H|H]; congruence.
    + cbn [upstream]. rewrite (fm_if_none upstream ccap false cs N0), !app_nil_r. exact E1.
    + now rewrite app_nil_r.
  - (* every mutating consumer got a clone: the payload is untouched so far *)
    assert (LEN1' : length s1' = length s1) by (unfold s1'; destruct ((1 <? nr) && negb (is_ro s1 c)); auto using length_mark_ro).
    assert (CONT1' : cont (get s1' c) = cont (get s c)).
    { unfold s1'. destruct ((1 <? nr) && negb (is_ro s1 c)); [rewrite cont_mark_ro|]; now rewrite SAME. }
    assert (OTH1' : forall d, d <> c -> get s1' d = get s1 d).
    { intros d N. unfold s1'. destruct ((1 <? nr) && negb (is_ro s1 c)); auto using get_mark_other. }
    assert (RO1' : cro (get s c) = true -> cro (get s1' c) = true).
    { intros H. unfold s1', is_ro. rewrite SAME, H. rewrite andb_false_r. now rewrite SAME. }
    assert (L1' : c < length s1') by lia.
    destruct (pass_ro_spec trun c cs s1' s2 e2 FS FO L1' R2) as (A2 & B2 & C2 & D2 & E2 & F2).
    constructor.
    + lia.
    + intros d Ld N. rewrite B2 by (auto; lia). rewrite OTH1' by auto. auto.
    + auto.
    + intros _. congruence.
    + cbn [upstream]. rewrite arrivals_app, E1, E2, CONT1', map_app. reflexivity.
    + now rewrite panics_app, F1, F2.
Qed.

Lemma run_spec : forall x, Spec trun x.
Proof.
  induction x using comp_ind'.
  - (* exporter *)
    intros c s s' ev L PRE _ R. cbn [trun] in R.
    destruct (visit_spec id m c s s' ev L PRE R) as (VL & VF & VR & VC & VA & VP).
    constructor; cbn [may_write upstream]; auto.
    + lia.
    + intros H. rewrite VR. exact H.
    + intros H. rewrite VC.
      destruct m; [|simpl; now rewrite app_nil_r].
      destruct H as [H|H]; [discriminate|]. rewrite PRE in H by reflexivity. discriminate.
    + rewrite VA. unfold pref. simpl. now rewrite app_nil_r.
  - (* processor *)
    intros c s s' ev L PRE OK R. cbn [trun] in R.
    eapply (forward_spec id m x (CProc id m x)); eauto.
  - (* capabilitiesNode: capability override only *)
    intros c s s' ev L PRE OK R. cbn [trun] in R. cbn [needs_mutable ok] in *.
    destruct (IHx c s s' ev L PRE OK R) as [A B C D E F]. constructor; auto.
  - (* connector *)
    intros c s s' ev L PRE OK R. cbn [trun] in R.
    eapply (forward_spec id m x (CConn id m x)); eauto.
  - now apply fanout_spec.
Qed.

(* ---- graph_noninterference -------------------------------------------------------------------------- *)
Lemma graph_noninterference_l x c0 :
  ok x = true ->
  arrivals (snd (run_graph x c0)) = map (pref c0) (upstream x) /\ panics (snd (run_graph x c0)) = [].
Proof.
  intros OK. unfold run_graph.
  destruct (trun x 0 [mkCell c0 false]) as [s' ev] eqn:R.
  assert (L : 0 < length [mkCell c0 false]) by (simpl; lia).
  destruct (run_spec x 0 [mkCell c0 false] s' ev L (fun _ => eq_refl) OK R) as [_ _ _ _ E F].
  simpl. split; auto.
Qed.

(* the general statement: any cell of any store, read-only or not *)
Lemma graph_noninterference_general_l x c s :
  ok x = true -> c < length s -> (needs_mutable x = true -> cro (get s c) = false) ->
  arrivals (snd (trun x c s)) = map (pref (cont (get s c))) (upstream x) /\
  panics (snd (trun x c s)) = [] /\
  (forall d, d < length s -> d <> c -> get (fst (trun x c s)) d = get s d) /\
  (may_write x = false \/ cro (get s c) = true -> cont (get (fst (trun x c s)) c) = cont (get s c)).
Proof.
  intros OK L PRE. destruct (trun x c s) as [s' ev] eqn:R.
  destruct (run_spec x c s s' ev L PRE OK R) as [A B C D E F]. simpl. auto.
Qed.

(* ---- trees of the shape graph.Build produces are well-formed ------------------------------------ *)
Lemma fan_cap_exists cs : fan_cap (new_fan (map ccap cs)) = true -> existsb ccap cs = true.
Proof.
  intros H. apply fan_cap_spec in H. destruct H as [NE ALL].
  destruct cs as [|x r]; [now elim NE|]. simpl in *. apply andb_true_iff in ALL.
  destruct ALL as [A _]. unfold id in A. now rewrite A.
Qed.

Definition good (x : comp) : Prop := ok x = true /\ (may_write x = true -> ccap x = true).

Lemma shape_ok : forall x,
  (is_pipeline x = true -> good x) /\
  (is_exporter x = true -> good x) /\
  (is_chain x = true -> ok x = true /\ (may_write x = true -> pcap x = true)) /\
  (is_router x = true -> ok x = true).
Proof.
  induction x using comp_ind'; (split; [|split; [|split]]); try (cbn; discriminate).
  - (* exporter *) intros _. split; auto.
  - (* processor: chain *)
    destruct IHx as (_ & _ & IC & _). cbn [is_chain]. intros H. destruct (IC H) as [A B]. split; [exact A|].
    cbn [may_write pcap]. intros M. apply orb_true_iff in M. apply orb_true_iff.
    destruct M as [M|M]; auto.
  - (* capabilitiesNode: pipeline *)
    destruct IHx as (_ & _ & IC & _). cbn [is_pipeline]. intros H. destruct (IC H) as [A B]. split; [exact A|].
    cbn [may_write ccap]. exact B.
  - (* connector: exporter *)
    destruct IHx as (_ & _ & _ & IR). cbn [is_exporter]. intros H. destruct x; try discriminate.
    split; [cbn [ok]; apply IR; exact H|].
    cbn [may_write ccap]. intros M. apply orb_true_iff in M. apply orb_true_iff.
    destruct M as [M|M]; auto. right. now apply fan_cap_exists.
  - (* fan-out over exporters: chain *)
    cbn [is_chain]. intros HS. split; [|cbn [may_write pcap]; auto].
    cbn [ok]. rewrite forallb_forall in *. intros ch Hch.
    rewrite Forall_forall in H. destruct (H ch Hch) as (_ & IE & _ & _).
    destruct (IE (HS ch Hch)) as [A B]. rewrite A. simpl.
    destruct (may_write ch); simpl; auto.
  - (* fan-out over pipelines: router *)
    cbn [is_router]. intros HS.
    cbn [ok]. rewrite forallb_forall in *. intros ch Hch.
    rewrite Forall_forall in H. destruct (H ch Hch) as (IP & _ & _ & _).
    destruct (IP (HS ch Hch)) as [A B]. rewrite A. simpl.
    destruct (may_write ch); simpl; auto.
Qed.

Lemma router_ok x : is_router x = true -> ok x = true.
Proof. apply shape_ok. Qed.

Lemma graph_noninterference_shape_l x c0 :
  is_router x = true ->
  arrivals (snd (run_graph x c0)) = map (pref c0) (upstream x) /\ panics (snd (run_graph x c0)) = [].
Proof. intros H. apply graph_noninterference_l. now apply router_ok. Qed.

(* ---- "advertises itself as mutating exactly when ... may mutate it": semantic reading ---------------- *)
(* if running a pipeline (or any well-formed consumer below a fan-out) changes the content of the payload it was
   given, then it advertises MutatesData *)
Lemma advertises_if_mutates_l x c s :
  (is_pipeline x = true \/ is_exporter x = true) -> c < length s -> cro (get s c) = false ->
  cont (get (fst (trun x c s)) c) <> cont (get s c) -> ccap x = true.
Proof.
  intros SH L RO CH.
  assert (G : good x) by (destruct SH as [H|H]; [apply (proj1 (shape_ok x) H)|apply (proj1 (proj2 (shape_ok x)) H)]).
  destruct G as [OK MW].
  destruct (may_write x) eqn:M; [auto|]. exfalso. apply CH.
  destruct (trun x c s) as [s' ev] eqn:R.
  destruct (run_spec x c s s' ev L (fun _ => RO) OK R) as [_ _ _ KEEP _ _]. simpl. apply KEEP. now left.
Qed.

(* the converse is FALSE of the code as it is: a pipeline whose only exporter is a non-mutating connector feeding a
   mutating and a non-mutating pipeline advertises MutatesData (aggregateCap ORs the next pipelines' capabilities),
   yet nothing ever writes the payload it was given (the connector's router clones for the mutating pipeline) *)
Definition over_advertising_pipeline : comp :=
  CCap (CFanout [CConn 1 false (CFanout [CCap (CProc 2 true (CFanout [CExp 3 false])); CCap (CFanout [CExp 4 false])])]).

Lemma advertises_only_if_mutates_refuted_l :
  exists x, is_pipeline x = true /\ ccap x = true /\
            cont (get (fst (trun x 0 [mkCell [] false])) 0) = cont (get [mkCell [] false] 0) /\
            panics (snd (trun x 0 [mkCell [] false])) = [].
Proof. exists over_advertising_pipeline. vm_compute. repeat split; reflexivity. Qed.
