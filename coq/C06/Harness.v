(* C06/Harness.v — comparison functions used by the generated correspondence files
   (work/C06/Cases_k.v): model output vs. what was recorded from the Go implementation.
   Imports only the model (no proofs), so the correspondence still runs when a proof breaks. *)
From Verif Require Import Common.Base.
From Verif Require Export C06.Model C06.TreeModel.   (* the generated case files name Pipe, NExp, NConn, CFanout, ... *)

(* wire label (tag, (i, (k, v))): tag 0 = the fan-out's next consumer call; 1 = consumer i appends
   marker v; 2 = consumer i sets entry k to v; 3 = consumer i removes the entries with marker v;
   4 = the caller's context ends (cancel / deadline); 5 = consumer i rotates the entries (first one to the end) *)
Definition wlabel := (nat * (nat * (nat * Z)))%type.

Definition label_of (x : wlabel) : label :=
  let '(tag, (i, (k, v))) := x in
  match tag with
  | 0 => LCall
  | 1 => LWrite i (WAppend v)
  | 2 => LWrite i (WSet k v)
  | 3 => LWrite i (WRemove v)
  | 5 => LWrite i (WFun rotate)
  | _ => LCancel
  end.

(* wire event (tag, (i, (a, seen))):
     tag 0 = call of consumer i, a = 4*cell + (2 if the ctx handed to the consumer is done) + (1 if IsReadOnly
             at call time), seen = content at call time
     tag 2 = the caller's context ended
     tag 1 = write attempt by consumer i, a = 0 mutated | 1 panicked | 2 no mutator reached / no payload *)
Definition wev := (nat * (nat * (nat * list Z)))%type.

Definition wres_code (r : wres) : nat := match r with WOk => 0 | WPanic => 1 | WSkip => 2 end.

(* log is oldest first here; [done] = the context ended earlier *)
Fixpoint wire_evs (done : bool) (log : list ev) : list wev :=
  match log with
  | [] => []
  | ECall i c ro seen :: r =>
      (0, (i, (4 * c + (if done then 2 else 0) + (if ro then 1 else 0), seen))) :: wire_evs done r
  | EWrite i _ res :: r => (1, (i, (wres_code res, []))) :: wire_evs done r
  | ECancel :: r => (2, (0, (0, []))) :: wire_evs true r
  end.

Definition listZ_eqb := list_eqb Z.eqb.
Definition wev_eqb (a b : wev) : bool :=
  let '(t1, (i1, (a1, s1))) := a in
  let '(t2, (i2, (a2, s2))) := b in
  Nat.eqb t1 t2 && Nat.eqb i1 i2 && Nat.eqb a1 a2 && listZ_eqb s1 s2.

(* One case = input + observation.
   CFan  sig caps ro_in c0 errs labels | observed: Capabilities().MutatesData of NewX(...), event list,
         final content seen by each consumer (index order), final IsReadOnly of the caller's payload,
         leaves of the returned error (ids, in order).   sig: 0 logs 1 metrics 2 traces 3 profiles
         (the model is the same for the four files; the tag only labels the case).
   CPipe sig procs exps | observed: MutatesData advertised by the pipeline's capabilitiesNode in a
         graph built by service/internal/graph.Build.
   CGraph sig ro_in tree | (ro_in: the receiver marked the payload read-only before handing it over) the consumer tree of a graph built by graph.Build (children of every fan-out in the order
         the implementation delivered to them — map iteration order of the graph library, read off the run);
         observed: per component in delivery order (id, 2*cell + IsReadOnly, markers seen on arrival) and
         (id, markers finally in the payload it holds).  One payload is pushed; every declared-mutating
         component writes its id as a marker.
   CSess sig caps script | several deliveries through the SAME fan-out object (sequential, or started re-entrantly
         while an earlier one is in progress), with writes on payloads retained from earlier deliveries; observed per
         delivery: events (cell numbers local to the delivery: 0 = its caller payload, then by first appearance; a
         payload already seen in another delivery gets 500+), final content per consumer, IsReadOnly of the caller
         payload, returned error leaves.
   CBuilt kind sig opts batching | a consumer / processor / exporter built by the real constructor with the
         WithCapabilities options [opts] (their MutatesData values, in order); observed: Capabilities().MutatesData.
   CRoutes sig pipe_caps sels | ONE router; Consumer(sel...) is called for every selection in turn and all results are
         kept; then one payload is sent through each kept result; observed per route: MutatesData and the pipelines
         invoked, in order.
   CRouter sig pipe_caps sel | observed: MutatesData of connector router.Consumer(sel...), of the router
         itself (fan-out over all pipelines), and the pipelines invoked, in order, by the selected consumer.
   CTree sig roots | observed: MutatesData of the consumer handed to the receiver that feeds the root
         pipelines (fanoutconsumer.NewX over their capabilitiesNodes), and MutatesData advertised by each
         pipeline of the tree, pre-order. *)
(* sessions: several deliveries through the same fan-out object *)
Inductive wslabel :=
| WDeliver (ro_in : bool) (c0 : list Z) (errs : list (list N))   (* ConsumeX is called with a new payload *)
| WStep (d : nat) (l : wlabel).                                  (* delivery d: next consumer call / a write on a payload handed out in d *)

Definition slabel_of (x : wslabel) : slabel :=
  match x with
  | WDeliver ro c0 _ => SDeliver ro c0
  | WStep d l => SStep d (label_of l)
  end.

Fixpoint sess_errs (l : list wslabel) : list (list (list N)) :=
  match l with
  | [] => []
  | WDeliver _ _ e :: r => e :: sess_errs r
  | WStep _ _ :: r => sess_errs r
  end.

(* observation of one delivery: events, final content per consumer, IsReadOnly of its caller payload, error leaves *)
Definition dobs := (list wev * (list (option (list Z)) * (bool * list N)))%type.

Inductive vcase :=
| CFan (sig : nat) (caps : list bool) (ro_in : bool) (c0 : list Z) (errs : list (list N)) (ls : list wlabel)
       (o_cap : bool) (o_evs : list wev) (o_final : list (option (list Z))) (o_ro0 : bool) (o_err : list N)
| CPipe (sig : nat) (procs exps : list bool) (o_cap : bool)
| CTree (sig : nat) (roots : list pipe) (o_recv_cap : bool) (o_caps : list bool)
| CGraph (sig : nat) (ro_in : bool) (tree : comp) (o_arr : list (nat * (nat * list Z))) (o_fin : list (nat * list Z))
| CSess (sig : nat) (caps : list bool) (script : list wslabel) (o_dels : list dobs)
| CBuilt (kind sig : nat) (opts : list bool) (batching : bool) (o_cap : bool)
| CRoutes (sig : nat) (pipe_caps : list bool) (sels : list (list nat)) (o_routes : list (bool * list nat))
| CRouter (sig : nat) (pipe_caps : list bool) (sel : list nat) (o_cap o_default_cap : bool) (o_calls : list nat).

Record fan_out := mkOut { f_cap : bool; f_evs : list wev; f_final : list (option (list Z)); f_ro0 : bool; f_err : list N }.

Definition model_fan (caps : list bool) (ro_in : bool) (c0 : list Z) (errs : list (list N)) (ls : list wlabel) : fan_out :=
  let f := new_fan caps in
  let m := run f ro_in c0 (map label_of ls) in
  mkOut (fan_cap f) (wire_evs false (rev (elog m))) (map (view m) (seq 0 (length caps))) (is_ro (st m) 0)
        (consume_err f errs).

(* capabilities of every pipeline in a tree, pre-order *)
Fixpoint node_caps (n : node) : list bool :=
  match n with
  | NExp _ => []
  | NConn _ nexts => flat_map pipe_caps nexts
  end
with pipe_caps (p : pipe) : list bool :=
  match p with
  | Pipe procs exps => pipe_cap_t p :: flat_map node_caps exps
  end.

(* connector router: pipelines invoked, in order, by the consumer returned from Consumer(sel...) *)
Definition router_calls (pcaps : list bool) (sel : list nat) : list nat :=
  map (fun k => nth k sel 0) (call_order (router_fan pcaps sel)).

(* cells are compared up to renaming: numbered by first appearance in the delivery log (cell 0 = the sent
   payload), as the Go harness numbers payload identities — a clone handed to a pipeline without processors
   is first seen by a component only after that pipeline's own fan-out has cloned again *)
Fixpoint index_of (c : nat) (l : list nat) (k : nat) : option nat :=
  match l with
  | [] => None
  | x :: r => if x =? c then Some k else index_of c r (S k)
  end.

Fixpoint canon_obs (seen : list nat) (l : list tev) : list (nat * (nat * list Z)) :=
  match l with
  | [] => []
  | TArr id c ro sn :: r =>
      match index_of c seen 0 with
      | Some k => (id, (2 * k + (if ro then 1 else 0), sn)) :: canon_obs seen r
      | None => (id, (2 * length seen + (if ro then 1 else 0), sn)) :: canon_obs (seen ++ [c]) r
      end
  | TPanic _ :: r => canon_obs seen r
  end.

Definition obs_eqb (a b : nat * (nat * list Z)) : bool :=
  Nat.eqb (fst a) (fst b) && Nat.eqb (fst (snd a)) (fst (snd b)) && listZ_eqb (snd (snd a)) (snd (snd b)).
Definition fin_eqb (a b : nat * list Z) : bool := Nat.eqb (fst a) (fst b) && listZ_eqb (snd a) (snd b).

(* kind 0: consumer.NewX / xconsumer.NewProfiles with WithCapabilities options; 1: processorhelper.NewX with
   WithCapabilities options; 2: exporterhelper.NewX with WithCapabilities options and batching on / off *)
Definition model_cap (kind : nat) (opts : list bool) (batching : bool) : bool :=
  match kind with 0 => base_cap opts | 1 => proc_cap opts | _ => exp_cap opts batching end.

Definition model_sess (caps : list bool) (script : list wslabel) : list dobs :=
  let f := new_fan caps in
  map (fun me => let '(m, errs) := me in
                 (wire_evs false (rev (elog m)),
                  (map (view m) (seq 0 (length caps)), (is_ro (st m) 0, consume_err f errs))))
      (combine (srun f (map slabel_of script)) (sess_errs script)).

Definition dobs_eqb (a b : dobs) : bool :=
  let '(e1, (f1, (r1, x1))) := a in
  let '(e2, (f2, (r2, x2))) := b in
  list_eqb wev_eqb e1 e2 && list_eqb (option_eqb listZ_eqb) f1 f2 && Bool.eqb r1 r2 && list_eqb N.eqb x1 x2.

(* several route consumers obtained from ONE router by successive Consumer(sel...) calls and all kept: each is the
   fan-out over its own selection, whatever was asked of the router before or after *)
Definition model_routes (pcaps : list bool) (sels : list (list nat)) : list (bool * list nat) :=
  map (fun sel => (fan_cap (router_fan pcaps sel), router_calls pcaps sel)) sels.
Definition route_eqb (a b : bool * list nat) : bool := Bool.eqb (fst a) (fst b) && list_eqb Nat.eqb (snd a) (snd b).

Definition check_case (c : vcase) : bool :=
  match c with
  | CFan _ caps ro_in c0 errs ls o_cap o_evs o_final o_ro0 o_err =>
      let o := model_fan caps ro_in c0 errs ls in
      Bool.eqb (f_cap o) o_cap
      && list_eqb wev_eqb (f_evs o) o_evs
      && list_eqb (option_eqb listZ_eqb) (f_final o) o_final
      && Bool.eqb (f_ro0 o) o_ro0
      && list_eqb N.eqb (f_err o) o_err
  | CPipe _ procs exps o_cap => Bool.eqb (pipeline_cap procs exps) o_cap
  | CGraph _ ro tree o_arr o_fin =>
      let '(s', ev) := trun tree 0 [mkCell [] ro] in
      is_router tree && ok tree
      && list_eqb obs_eqb (canon_obs [0] ev) o_arr
      && list_eqb fin_eqb (final_obs s' ev) o_fin
      && match panics ev with [] => true | _ => false end
  | CBuilt kind _ opts batching o_cap => Bool.eqb (model_cap kind opts batching) o_cap
  | CSess _ caps script o_dels => list_eqb dobs_eqb (model_sess caps script) o_dels
  | CRoutes _ pcaps sels o => list_eqb route_eqb (model_routes pcaps sels) o
  | CRouter _ pcaps sel o_cap o_dcap o_calls =>
      Bool.eqb (fan_cap (router_fan pcaps sel)) o_cap
      && Bool.eqb (fan_cap (new_fan pcaps)) o_dcap
      && list_eqb Nat.eqb (router_calls pcaps sel) o_calls
  | CTree _ roots o_rc o_caps =>
      Bool.eqb (fan_cap (new_fan (map pipe_cap_t roots))) o_rc && list_eqb Bool.eqb (flat_map pipe_caps roots) o_caps
  end.

(* model outputs, for replay files *)
Inductive mout := MFan (o : fan_out) | MCaps (l : list bool) | MCalls (c d : bool) (l : list nat)
| MRoutes (l : list (bool * list nat))
| MSess (l : list dobs)
| MGraph (a : list (nat * (nat * list Z))) (f : list (nat * list Z)) (p : list nat).
Definition model_out (c : vcase) : mout :=
  match c with
  | CFan _ caps ro_in c0 errs ls _ _ _ _ _ => MFan (model_fan caps ro_in c0 errs ls)
  | CPipe _ procs exps _ => MCaps [pipeline_cap procs exps]
  | CGraph _ ro tree _ _ => let '(s', ev) := trun tree 0 [mkCell [] ro] in MGraph (canon_obs [0] ev) (final_obs s' ev) (panics ev)
  | CBuilt kind _ opts batching _ => MCaps [model_cap kind opts batching]
  | CSess _ caps script _ => MSess (model_sess caps script)
  | CRoutes _ pcaps sels _ => MRoutes (model_routes pcaps sels)
  | CRouter _ pcaps sel _ _ _ => MCalls (fan_cap (router_fan pcaps sel)) (fan_cap (new_fan pcaps)) (router_calls pcaps sel)
  | CTree _ roots _ _ => MCaps (fan_cap (new_fan (map pipe_cap_t roots)) :: flat_map pipe_caps roots)
  end.
