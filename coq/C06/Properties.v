From Verif Require Import Common.Base C06.Model C06.Proofs.
Theorem stub_fan_cap_direct : forall i, fan_cap (FDirect i) = false.
Proof. exact fan_cap_direct. Qed.
Print Assumptions stub_fan_cap_direct.
