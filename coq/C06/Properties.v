(* C06/Properties.v — the property theorems, nothing else.  Each is closed by [exact lemma] and
   followed by Print Assumptions (captured into the evidence by the check driver).

   Vocabulary (Model.v): [caps] is the vector of declared MutatesData capabilities of the consumers
   passed to fanoutconsumer.NewX (any length, any values); [ro_in] says whether the payload passed
   to ConsumeX is already read-only; [c0] is its content; [ls] is an ARBITRARY schedule: a list of
   labels, each either "the fan-out performs its next consumer call" (LCall) or "consumer i runs
   mutation program w on the payload it was given" (LWrite i w) — by declared and by undeclared
   writers, at any time relative to the calls, in particular after the fan-out has moved on or
   returned ("asynchronously after returning").  [run (new_fan caps) ro_in c0 ls] is the state after
   that schedule; every statement below is for all caps, ro_in, c0 and ls, hence holds at every
   point in time of every execution.  [holds m i c]: consumer i was handed payload cell c (cell 0 is
   the caller's payload, every other cell is a clone made by the fan-out); [view m i]: the content
   consumer i sees now; [own_view i log c0]: c0 transformed by i's own successful writes only. *)
From Verif Require Import Common.Base C06.Model C06.Proofs C06.Proofs2 C06.TreeModel C06.TreeProofs.
From Coq Require Import Permutation.
From Verif Require Generated.C06FanCap Generated.C06CapWrap C06.Translated C06.SessionProofs C06.Clauses C06.ClausesProofs C06.ModelObs C06.CapProofs.

(* ---- every consumer is invoked, exactly once, whatever earlier consumers returned -------------- *)
(* The consumers called so far are a prefix of the fixed call order, one per LCall label ... *)
Theorem fanout_calls_all : forall caps ro_in c0 ls,
  calls_of (elog (run (new_fan caps) ro_in c0 ls)) = firstn (ncalls ls) (call_order (new_fan caps)).
Proof. exact calls_prefix_l. Qed.
Print Assumptions fanout_calls_all.

(* ... the call order is a permutation of ALL consumers 0..n-1 (each exactly once) and keeps the list
   order inside each class: mutating consumers first, then the non-mutating ones.  The model's call
   sequence does not depend on the errors returned (there is no such input to [run]). *)
Theorem fanout_call_order : forall caps,
  Permutation (call_order (new_fan caps)) (seq 0 (length caps)) /\
  call_order (new_fan caps) =
    map fst (filter (fun p => Bool.eqb (snd p) true) (combine (seq 0 (length caps)) caps)) ++
    map fst (filter (fun p => Bool.eqb (snd p) false) (combine (seq 0 (length caps)) caps)).
Proof. exact call_order_l. Qed.
Print Assumptions fanout_call_order.

(* once the fan-out has made all its calls, every consumer has been called exactly once *)
Theorem fanout_all_called : forall caps ro_in c0 ls,
  length caps <= ncalls ls ->
  Permutation (calls_of (elog (run (new_fan caps) ro_in c0 ls))) (seq 0 (length caps)).
Proof. exact all_called. Qed.
Print Assumptions fanout_all_called.

(* The returned error aggregates ALL failures: its leaves are the leaves of every consumer's error
   (errs i = leaves of the error consumer i returns, [] for nil), in call order — as a multiset,
   exactly the concatenation of all individual errors. *)
Theorem fanout_error_aggregates : forall caps errs,
  length errs = length caps ->
  consume_err (new_fan caps) errs = flat_map (fun i => nth i errs []) (call_order (new_fan caps)) /\
  Permutation (consume_err (new_fan caps) errs) (concat errs).
Proof. exact error_aggregates_l. Qed.
Print Assumptions fanout_error_aggregates.

(* ---- every consumer receives content equal to what was sent ------------------------------------ *)
Theorem fanout_content_equal : forall caps ro_in c0 ls i c ro seen,
  In (ECall i c ro seen) (elog (run (new_fan caps) ro_in c0 ls)) -> seen = c0.
Proof. exact content_equal_l. Qed.
Print Assumptions fanout_content_equal.

(* ---- handle discipline ---------------------------------------------------------------------------- *)
Theorem fanout_handle_discipline : forall caps ro_in c0 ls,
  let m := run (new_fan caps) ro_in c0 ls in
  (* (i) a declared-mutating consumer's payload is held by nobody else, and is mutable *)
  (forall i j c, mutc_of caps i = true -> holds m i c -> holds m j c -> j = i) /\
  (forall i c, holds m i c -> mutc_of caps i = true -> cro (get (st m) c) = false) /\
  (* (ii) a payload held by two consumers is the caller's, both are non-mutating, it is read-only *)
  (forall i j c, holds m i c -> holds m j c -> i <> j ->
     c = 0 /\ mutc_of caps i = false /\ mutc_of caps j = false /\ cro (get (st m) c) = true) /\
  (* (iii) the caller's payload reaches a mutating consumer only if Capabilities().MutatesData of the
     fan-out is true and the payload was not read-only *)
  (forall i, holds m i 0 -> mutc_of caps i = true ->
     fan_cap (new_fan caps) = true /\ ro_in = false /\ cro (get (st m) 0) = false).
Proof. exact handle_discipline_l. Qed.
Print Assumptions fanout_handle_discipline.

(* ---- non-interference ------------------------------------------------------------------------------ *)
(* For every schedule of calls and writes (by anybody, declared or not, synchronous or later), what a
   consumer sees in its payload is the sent content changed by ITS OWN successful writes only. *)
Theorem fanout_noninterference : forall caps ro_in c0 ls i x,
  let m := run (new_fan caps) ro_in c0 ls in
  view m i = Some x -> x = own_view i (elog m) c0.
Proof. exact noninterference_l. Qed.
Print Assumptions fanout_noninterference.

(* In particular a consumer that does not write (the premise for "does not declare mutation") never
   observes any change made by any other consumer. *)
Theorem fanout_nonmutating_sees_sent : forall caps ro_in c0 ls i x,
  let m := run (new_fan caps) ro_in c0 ls in
  (forall w, ~ In (EWrite i w WOk) (elog m)) -> view m i = Some x -> x = c0.
Proof. exact noninterference_nowrite_l. Qed.
Print Assumptions fanout_nonmutating_sees_sent.

(* A write succeeded only on a payload nobody else holds ... *)
Theorem fanout_write_ok_exclusive : forall caps ro_in c0 ls i w c j,
  let m := run (new_fan caps) ro_in c0 ls in
  In (EWrite i w WOk) (elog m) -> holds m i c -> holds m j c -> j = i.
Proof. exact write_ok_exclusive_l. Qed.
Print Assumptions fanout_write_ok_exclusive.

(* ... and an undeclared mutation of shared data panics before changing anything (or reaches no
   mutator at all): the store is unchanged. *)
Theorem fanout_shared_write_panics : forall caps ro_in c0 ls i j c w,
  let m := run (new_fan caps) ro_in c0 ls in
  let m' := mstep (nro (new_fan caps)) m (LWrite i w) in
  holds m i c -> holds m j c -> i <> j ->
  st m' = st m /\ exists r, elog m' = EWrite i w r :: elog m /\ r <> WOk /\
                            (wr_asserts w (cont (get (st m) c)) = true -> r = WPanic).
Proof. exact shared_write_panics_l. Qed.
Print Assumptions fanout_shared_write_panics.

(* A consumer that declares mutation never meets the read-only panic. *)
Theorem fanout_mutator_never_panics : forall caps ro_in c0 ls i w,
  In (EWrite i w WPanic) (elog (run (new_fan caps) ro_in c0 ls)) -> mutc_of caps i = false.
Proof. exact mutator_never_panics_l. Qed.
Print Assumptions fanout_mutator_never_panics.

(* ---- capabilities ---------------------------------------------------------------------------------- *)
(* The fan-out advertises MutatesData exactly when it has consumers and all of them mutate — by (iii)
   and [orig_reaches_mutator] exactly the situations in which the caller's payload is handed to a
   mutating consumer. *)
Theorem fan_cap_exact : forall caps,
  fan_cap (new_fan caps) = true <-> caps <> [] /\ forallb id caps = true.
Proof. exact fan_cap_spec. Qed.
Print Assumptions fan_cap_exact.

(* A pipeline advertises MutatesData exactly when one of its processors does or its exporter fan-out does. *)
Theorem pipeline_cap_exact : forall procs exps,
  pipeline_cap procs exps = true <->
  (exists p, In p procs /\ p = true) \/ fan_cap (new_fan exps) = true.
Proof. exact pipeline_cap_exact_l. Qed.
Print Assumptions pipeline_cap_exact.

(* A same-signal connector advertises MutatesData when it or any pipeline it feeds does. *)
Theorem connector_cap_exact : forall base nexts,
  aggregate_cap base nexts = base || existsb id nexts.
Proof. exact aggregate_cap_spec. Qed.
Print Assumptions connector_cap_exact.

(* The converse of (iii), making "exactly" precise: when the fan-out advertises MutatesData and the
   caller's payload is mutable, then — for every schedule, once all calls are made — a declared-mutating
   consumer does hold the caller's payload itself (so the advertisement is never an over-approximation). *)
Theorem fan_cap_original_reaches_mutator : forall caps c0 ls,
  fan_cap (new_fan caps) = true -> length caps <= ncalls ls ->
  exists i, mutc_of caps i = true /\ holds (run (new_fan caps) false c0 ls) i 0.
Proof. exact orig_reaches_mutator_l. Qed.
Print Assumptions fan_cap_original_reaches_mutator.

(* ---- graph level --------------------------------------------------------------------------------- *)
(* A receiver (or a connector's router) feeding the pipelines [roots] hands data to
   fanoutconsumer.NewX over the pipelines' advertised capabilities [pipe_cap_t].  For every schedule:
   a pipeline with a mutating processor, or whose exporter stage acts on the original payload, holds its
   payload alone and it is mutable — it got its own copy. *)
Theorem graph_mutating_pipeline_isolated : forall roots ro_in c0 ls i j c procs exps,
  let m := run (new_fan (map pipe_cap_t roots)) ro_in c0 ls in
  nth_error roots i = Some (Pipe procs exps) ->
  (exists p, In p procs /\ p = true) \/ fan_cap (new_fan (map node_cap exps)) = true ->
  holds m i c -> holds m j c ->
  j = i /\ cro (get (st m) c) = false.
Proof. exact mutating_pipeline_isolated_l. Qed.
Print Assumptions graph_mutating_pipeline_isolated.

(* Pipelines that do share a payload have no mutating processor, their exporter stage does not act on
   the original, and the shared payload is read-only. *)
Theorem graph_shared_pipelines_readonly : forall roots ro_in c0 ls i j c procs exps,
  let m := run (new_fan (map pipe_cap_t roots)) ro_in c0 ls in
  nth_error roots i = Some (Pipe procs exps) ->
  holds m i c -> holds m j c -> i <> j ->
  existsb id procs = false /\ fan_cap (new_fan (map node_cap exps)) = false /\ cro (get (st m) c) = true.
Proof. exact shared_pipelines_readonly_l. Qed.
Print Assumptions graph_shared_pipelines_readonly.

(* ---- the caller's context --------------------------------------------------------------------------- *)
(* The schedule may contain LCancel at any position: the context passed to ConsumeX is cancelled or its
   deadline passes before the fan-out starts, while some consumer is being called (e.g. a slow consumer that
   fails by running into the caller's deadline), or afterwards.  ALL theorems above already hold for such
   schedules (they quantify over every [ls]; [ncalls] counts only LCall): every consumer is still invoked.
   Explicitly: removing the LCancel labels changes nothing but the "context ended" marks in the log — same
   pending calls, same store, same handles, same calls / writes / outcomes. *)
Theorem fanout_context_irrelevant : forall caps ro_in c0 ls,
  same_upto_ctx (run (new_fan caps) ro_in c0 ls)
                (run (new_fan caps) ro_in c0 (filter (fun l => negb (is_cancel l)) ls)).
Proof. exact context_irrelevant_l. Qed.
Print Assumptions fanout_context_irrelevant.

Theorem fanout_calls_ignore_context : forall caps ro_in c0 ls,
  calls_of (elog (run (new_fan caps) ro_in c0 ls)) =
  calls_of (elog (run (new_fan caps) ro_in c0 (filter (fun l => negb (is_cancel l)) ls))).
Proof. exact calls_ignore_cancel_l. Qed.
Print Assumptions fanout_calls_ignore_context.

(* ---- graph_noninterference: the whole built graph ------------------------------------------------- *)
(* TreeModel.v: the consumers of a built graph as a tree (receiver fan-out, capabilitiesNodes, processors
   forwarding the same payload, exporter fan-outs, same-signal connectors forwarding to their router fan-out),
   run on one shared store; every declared-mutating component writes its id into the payload it receives.
   [upstream x] is defined on the tree alone: for each component, the ids of the declared-mutating components
   strictly upstream of it on ITS OWN path.  For every tree of the shape graph.Build produces (any depth, any
   number of pipelines / processors / exporters / connectors, any capabilities) and every sent content:
   every component is reached exactly once, in the fan-outs' delivery order, and receives exactly the sent
   content followed by its upstream mutators' markers — never a marker of a component that is not upstream of
   it — and no declared mutator ever hits a read-only payload. *)
Theorem graph_noninterference : forall x c0,
  is_router x = true ->
  arrivals (snd (run_graph x c0)) = map (pref c0) (upstream x) /\ panics (snd (run_graph x c0)) = [].
Proof. exact graph_noninterference_shape_l. Qed.
Print Assumptions graph_noninterference.

(* the shape predicate implies the semantic well-formedness used by the proof: below every fan-out, a
   consumer that may write the payload it is given advertises MutatesData *)
Theorem graph_shape_wellformed : forall x, is_router x = true -> ok x = true.
Proof. exact router_ok. Qed.
Print Assumptions graph_shape_wellformed.

(* general form: any well-formed consumer tree, started on any cell of any store (read-only or not, provided
   a consumer that writes without asking is not handed a read-only payload): additionally every other cell of
   the store is left untouched, and a tree that does not advertise mutation leaves its payload's content as is *)
Theorem graph_noninterference_general : forall x c s,
  ok x = true -> c < length s -> (needs_mutable x = true -> cro (get s c) = false) ->
  arrivals (snd (trun x c s)) = map (pref (cont (get s c))) (upstream x) /\
  panics (snd (trun x c s)) = [] /\
  (forall d, d < length s -> d <> c -> get (fst (trun x c s)) d = get s d) /\
  (may_write x = false \/ cro (get s c) = true -> cont (get (fst (trun x c s)) c) = cont (get s c)).
Proof. exact graph_noninterference_general_l. Qed.
Print Assumptions graph_noninterference_general.

(* "A pipeline advertises itself as mutating exactly when ... may mutate it", read SEMANTICALLY on the whole graph:
   proved direction (full strength: every pipeline / exporter of the built shape, every store, every mutable cell):
   whatever changes the payload it is given advertises MutatesData ... *)
Theorem pipeline_advertises_if_it_mutates_partial : forall x c s,
  (is_pipeline x = true \/ is_exporter x = true) -> c < List.length s -> cro (get s c) = false ->
  cont (get (fst (trun x c s)) c) <> cont (get s c) -> ccap x = true.
Proof. exact advertises_if_mutates_l. Qed.
Print Assumptions pipeline_advertises_if_it_mutates_partial.

(* ... the converse is refuted: aggregateCap makes a pipeline behind a non-mutating connector advertise mutation
   although nothing ever writes its payload (a conservative over-approximation: it costs a copy, never isolation).
   The witness is replayed on the implementation on every run (graph harness, first case). *)
Theorem pipeline_advertises_only_if_it_mutates_refuted :
  exists x, is_pipeline x = true /\ ccap x = true /\
            cont (get (fst (trun x 0 [mkCell [] false])) 0) = cont (get [mkCell [] false] 0) /\
            panics (snd (trun x 0 [mkCell [] false])) = [].
Proof. exact advertises_only_if_mutates_refuted_l. Qed.
Print Assumptions pipeline_advertises_only_if_it_mutates_refuted.

(* ---- obligations against the translated source (translator T1, regenerated on every run) ---------- *)
(* xConsumer.Capabilities as written NOW in logs.go / metrics.go / traces.go / profiles.go (Generated/C06FanCap.v)
   equals the model's fan_cap on the whole domain *)
Theorem fan_cap_is_source : forall m r,
  let a := Z.of_nat (List.length m) in let b := Z.of_nat (List.length r) in
  fan_cap (FWrap m r) = C06FanCap.logs_fan_capabilities a b /\
  fan_cap (FWrap m r) = C06FanCap.metrics_fan_capabilities a b /\
  fan_cap (FWrap m r) = C06FanCap.traces_fan_capabilities a b /\
  fan_cap (FWrap m r) = C06FanCap.profiles_fan_capabilities a b.
Proof. exact Translated.fan_cap_is_source_l. Qed.
Print Assumptions fan_cap_is_source.

From Coq Require Import String.   (* last: its [length] would shadow List.length above *)
(* the capabilityconsumer wrappers have exactly the methods Capabilities + the embedded ConsumeX (Generated/C06CapWrap.v) *)
Theorem cap_wrappers_only_override_capabilities :
  C06CapWrap.capLogs_methods = ["Capabilities"; "ConsumeLogs"]%string /\
  C06CapWrap.capMetrics_methods = ["Capabilities"; "ConsumeMetrics"]%string /\
  C06CapWrap.capTraces_methods = ["Capabilities"; "ConsumeTraces"]%string /\
  C06CapWrap.capProfiles_methods = ["Capabilities"; "ConsumeProfiles"]%string.
Proof. exact Translated.cap_wrappers_methods_l. Qed.
Print Assumptions cap_wrappers_only_override_capabilities.

(* ---- several deliveries through the same fan-out ---------------------------------------------------- *)
(* A session: deliveries started at any time (also while earlier ones are in progress), each delivery's consumer
   calls, and writes by a consumer on the payload it was handed in delivery d at ANY later point of the session
   (a consumer that queues or batches the payload it owns and works on it after further deliveries).
   The fan-out keeps no state between calls: the state of delivery d is the single-delivery run of its own
   parameters on its own labels, whatever the other deliveries do ... *)
Theorem fanout_deliveries_independent : forall f sls,
  List.length (srun f sls) = List.length (SessionProofs.deliveries sls) /\
  forall d ro c0, nth_error (SessionProofs.deliveries sls) d = Some (ro, c0) ->
                  nth_error (srun f sls) d = Some (run f ro c0 (SessionProofs.steps_for d 0 sls)).
Proof. exact SessionProofs.session_independent_l. Qed.
Print Assumptions fanout_deliveries_independent.

(* ... so every theorem above holds for every delivery of every session.  In particular: what a consumer holds
   from delivery d is the content sent in delivery d changed by its own writes on THAT payload only — never by a
   later (or earlier, or concurrent) delivery; each delivery hands out the content sent in it; all consumers are
   called in every delivery. *)
Theorem fanout_session_noninterference : forall caps sls d ro c0 m,
  nth_error (SessionProofs.deliveries sls) d = Some (ro, c0) ->
  nth_error (srun (new_fan caps) sls) d = Some m ->
  m = run (new_fan caps) ro c0 (SessionProofs.steps_for d 0 sls) /\
  (forall i x, view m i = Some x -> x = own_view i (elog m) c0) /\
  (forall i c r seen, In (ECall i c r seen) (elog m) -> seen = c0) /\
  calls_of (elog m) = firstn (ncalls (SessionProofs.steps_for d 0 sls)) (call_order (new_fan caps)).
Proof. exact SessionProofs.session_noninterference_l. Qed.
Print Assumptions fanout_session_noninterference.

(* ---- the decidable clause checker run on every observed case (Clauses.v) is sound and complete ------ *)
(* prop_ok looks only at what the IMPLEMENTATION did (it does not run the model); it is true exactly when the
   observed delivery satisfies the Prop-level clauses: every consumer invoked exactly once, content received = content
   sent, error = aggregation, sharing only among non-mutating consumers and read-only, mutators get private mutable
   data (the caller's own only if advertised), final content = own successful writes only, capability exact, declared
   mutators never panic, the caller's context is passed through, payloads fresh per delivery. *)
Theorem prop_ok_sound_complete : forall sig caps ro c0 errs ls o_cap o_evs o_final o_ro0 o_err,
  Clauses.prop_ok (Harness.CFan sig caps ro c0 errs ls o_cap o_evs o_final o_ro0 o_err) = true <->
  ClausesProofs.DeliveryClause (Clauses.mkDin caps ro c0 errs ls o_cap o_evs o_final o_err).
Proof. exact ClausesProofs.prop_ok_fan_l. Qed.
Print Assumptions prop_ok_sound_complete.

Theorem prop_ok_session_sound_complete : forall sig caps script o,
  Clauses.prop_ok (Harness.CSess sig caps script o) = true <->
  List.length o = List.length (Clauses.sess_inputs caps script 0) /\
  Forall ClausesProofs.DeliveryClause (Clauses.sess_dobs caps script o).
Proof. exact ClausesProofs.prop_ok_sess_l. Qed.
Print Assumptions prop_ok_session_sound_complete.

(* the capability demanded by the checker is the model's fan_cap (= the translated source, fan_cap_is_source) *)
Theorem clause_capability_is_model : forall caps, Clauses.spec_fan caps = fan_cap (new_fan caps).
Proof. exact ClausesProofs.spec_fan_is_fan_cap_l. Qed.
Print Assumptions clause_capability_is_model.

(* ---- the link: whatever the MODEL produces passes the clause checker ------------------------------------ *)
(* [observe] builds the observed half of a case from the model's own run exactly as the harness builds it from the
   implementation's (Harness.model_fan).  For EVERY capability vector, input, content, error vector and script:
   the model's observation passes Clauses.prop_ok.  Guards: the script lets the fan-out make all its calls (a
   completed ConsumeX: the returned error and "every consumer invoked" are statements about a completed call — the
   guard of fanout_all_called), and fewer than 500 consumers (the harness encodes "payload already seen in another
   delivery" as a cell number >= 500).  So the checker never demands more than the model delivers (no false alarm
   is possible on behaviour the model allows), and the checker's verdicts and the theorems above speak about the
   same clauses. *)
Theorem model_passes_checker : forall sig caps ro c0 errs ls,
  List.length caps <= Clauses.n_call_labels ls -> List.length caps < 500 ->
  Clauses.prop_ok (ModelObs.observe sig caps ro c0 errs ls) = true.
Proof. exact ModelObs.model_passes_checker_l. Qed.
Print Assumptions model_passes_checker.

(* [observe] is what the driver compares the implementation with: check_all (= check_case && prop_ok) holds of it *)
Theorem model_observation_agrees : forall sig caps ro c0 errs ls,
  Harness.check_case (ModelObs.observe sig caps ro c0 errs ls) = true.
Proof. exact ModelObs.observe_agrees. Qed.
Print Assumptions model_observation_agrees.

(* sessions: every delivery completed, fewer than 500 consumers *)
Theorem model_passes_checker_session : forall sig caps script,
  Forall (fun x => List.length caps <= Clauses.n_call_labels (ModelObs.in_ls x)) (Clauses.sess_inputs caps script 0) ->
  List.length caps < 500 ->
  Clauses.prop_ok (Harness.CSess sig caps script (Harness.model_sess caps script)) = true.
Proof. exact ModelObs.model_passes_session_l. Qed.
Print Assumptions model_passes_checker_session.

(* pipelines, trees, routers: no guard *)
Theorem model_passes_checker_pipe : forall sig procs exps,
  Clauses.prop_ok (Harness.CPipe sig procs exps (pipeline_cap procs exps)) = true.
Proof. exact ModelObs.model_passes_pipe_l. Qed.
Print Assumptions model_passes_checker_pipe.

Theorem model_passes_checker_tree : forall sig roots,
  Clauses.prop_ok (Harness.CTree sig roots (fan_cap (new_fan (map pipe_cap_t roots))) (flat_map Harness.pipe_caps roots)) = true.
Proof. exact ModelObs.model_passes_tree_l. Qed.
Print Assumptions model_passes_checker_tree.

Theorem model_passes_checker_router : forall sig pcaps sel,
  Clauses.prop_ok (Harness.CRouter sig pcaps sel (fan_cap (router_fan pcaps sel)) (fan_cap (new_fan pcaps))
                                   (Harness.router_calls pcaps sel)) = true.
Proof. exact ModelObs.model_passes_router_l. Qed.
Print Assumptions model_passes_checker_router.

(* whole graph: the tree has the built shape and its component ids are unique (the harness numbers them) *)
Theorem model_passes_checker_graph : forall sig tree,
  is_router tree = true -> NoDup (map fst (upstream tree)) ->
  let '(s', ev) := trun tree 0 [mkCell [] false] in
  Clauses.prop_ok (Harness.CGraph sig false tree (Harness.canon_obs [0] ev) (final_obs s' ev)) = true.
Proof. exact ModelObs.model_passes_graph_l. Qed.
Print Assumptions model_passes_checker_graph.

(* ---- the capability a consumer advertises, as built by the real constructors and options ------------- *)
(* consumer.NewX(fn, opts...) (consumer/internal NewBaseImpl), processorhelper.NewX (default option first),
   exporterhelper.NewX (MutatesData:true appended when batching is enabled): the LAST WithCapabilities wins. *)
Theorem capability_last_option_wins :
  (forall opts b, base_cap (opts ++ [b]) = b) /\ base_cap [] = false /\
  (forall opts, base_cap opts = last opts false) /\
  (forall user, proc_cap user = last user true) /\
  (forall user, exp_cap user true = true) /\ (forall user, exp_cap user false = base_cap user).
Proof. exact CapProofs.cap_construction_l. Qed.
Print Assumptions capability_last_option_wins.

(* ... and that is the capability the fan-out acts on: a consumer whose last option declares mutation holds its
   payload alone, mutable, for every schedule, whatever earlier options said *)
Theorem fanout_sees_built_capability : forall (optss : list (list bool)) ro_in c0 ls i j c,
  let caps := map base_cap optss in
  let m := run (new_fan caps) ro_in c0 ls in
  last (nth i optss []) false = true -> i < List.length optss ->
  In (i, c) (hs m) -> In (j, c) (hs m) -> j = i /\ cro (Model.get (st m) c) = false.
Proof. exact CapProofs.built_consumer_isolated_l. Qed.
Print Assumptions fanout_sees_built_capability.

(* the clause checker's capability spec is the model's, for all three constructor kinds *)
Theorem model_passes_checker_cap : forall kind sig opts batching,
  Clauses.prop_ok (Harness.CBuilt kind sig opts batching (Harness.model_cap kind opts batching)) = true.
Proof. exact ModelObs.model_passes_cap_l. Qed.
Print Assumptions model_passes_checker_cap.

(* ---- route consumers of a connector router, kept across later Consumer calls --------------------------------- *)
(* Consumer(sel...) returns fanoutconsumer.NewX over a FRESH list of the selected pipelines; NewX keeps its own
   lists.  The k-th kept route consumer is therefore the fan-out over ITS OWN selection, whatever was asked of the
   router before or after (and all the fan-out theorems apply to it) ... *)
Theorem router_routes_independent : forall pcaps sels k sel,
  nth_error sels k = Some sel ->
  nth_error (Harness.model_routes pcaps sels) k = Some (fan_cap (router_fan pcaps sel), Harness.router_calls pcaps sel).
Proof. exact ModelObs.routes_independent_l. Qed.
Print Assumptions router_routes_independent.

(* ... and what the model says about them passes the clause checker (once per selected pipeline, capability exact) *)
Theorem model_passes_checker_routes : forall sig pcaps sels,
  Clauses.prop_ok (Harness.CRoutes sig pcaps sels (Harness.model_routes pcaps sels)) = true.
Proof. exact ModelObs.model_passes_routes_l. Qed.
Print Assumptions model_passes_checker_routes.
