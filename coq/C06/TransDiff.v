(* C06/TransDiff.v — when the obligation fan_cap_is_source breaks, the check driver evaluates [fan_cap_diffs]: the
   arguments (number of mutating, number of non-mutating consumers) in 0..4 x 0..4 on which a translated
   xConsumer.Capabilities differs from the model's fan_cap, per signal file (0 logs 1 metrics 2 traces 3 profiles).
   Imports only the model and the generated file, so it still compiles when the proof does not (unless the
   translated function changed its parameter list; the driver then falls back to the harness oracle). *)
From Verif Require Import Common.Base C06.Model.
From Verif Require Import Generated.C06FanCap.

Definition grid : list (nat * nat) := list_prod (seq 0 5) (seq 0 5).
Definition diffs_of (g : Z -> Z -> bool) : list (nat * nat) :=
  filter (fun ab => negb (Bool.eqb (fan_cap (FWrap (repeat 0 (fst ab)) (repeat 0 (snd ab))))
                                   (g (Z.of_nat (fst ab)) (Z.of_nat (snd ab))))) grid.
Definition fan_cap_diffs : list (nat * list (nat * nat)) :=
  [(0, diffs_of logs_fan_capabilities); (1, diffs_of metrics_fan_capabilities);
   (2, diffs_of traces_fan_capabilities); (3, diffs_of profiles_fan_capabilities)].
