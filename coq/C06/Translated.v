(* C06/Translated.v — obligations tying the hand-written model to what translator T1 reads from the CURRENT
   Go source on every run (coq/Generated/C06FanCap.v, C06CapWrap.v). *)
From Verif Require Import Common.Base C06.Model.
From Verif Require Import Generated.C06FanCap Generated.C06CapWrap.
From Coq Require Import String.

(* xConsumer.Capabilities of each of the four files IS the model's fan_cap: MutatesData of the wrapper with
   partition (mutable, readonly) — on the whole domain (all list lengths). *)
Lemma gt0_len {A} (l : list A) : (Z.of_nat (List.length l) >? 0)%Z = negb (is_nil l).
Proof. destruct l; reflexivity. Qed.
Lemma eq0_len {A} (l : list A) : (Z.of_nat (List.length l) =? 0)%Z = is_nil l.
Proof. destruct l; reflexivity. Qed.

Lemma fan_cap_logs_l m r : fan_cap (FWrap m r) = logs_fan_capabilities (Z.of_nat (List.length m)) (Z.of_nat (List.length r)).
Proof. unfold logs_fan_capabilities. now rewrite gt0_len, eq0_len. Qed.
Lemma fan_cap_metrics_l m r : fan_cap (FWrap m r) = metrics_fan_capabilities (Z.of_nat (List.length m)) (Z.of_nat (List.length r)).
Proof. unfold metrics_fan_capabilities. now rewrite gt0_len, eq0_len. Qed.
Lemma fan_cap_traces_l m r : fan_cap (FWrap m r) = traces_fan_capabilities (Z.of_nat (List.length m)) (Z.of_nat (List.length r)).
Proof. unfold traces_fan_capabilities. now rewrite gt0_len, eq0_len. Qed.
Lemma fan_cap_profiles_l m r : fan_cap (FWrap m r) = profiles_fan_capabilities (Z.of_nat (List.length m)) (Z.of_nat (List.length r)).
Proof. unfold profiles_fan_capabilities. now rewrite gt0_len, eq0_len. Qed.

Lemma fan_cap_is_source_l m r :
  let a := Z.of_nat (List.length m) in let b := Z.of_nat (List.length r) in
  fan_cap (FWrap m r) = logs_fan_capabilities a b /\ fan_cap (FWrap m r) = metrics_fan_capabilities a b /\
  fan_cap (FWrap m r) = traces_fan_capabilities a b /\ fan_cap (FWrap m r) = profiles_fan_capabilities a b.
Proof.
  repeat split; [apply fan_cap_logs_l|apply fan_cap_metrics_l|apply fan_cap_traces_l|apply fan_cap_profiles_l].
Qed.

(* the capabilityconsumer wrappers add NOTHING but a Capabilities method to the consumer they embed
   (model: cap_wrap replaces the advertised capability only; ConsumeX is the embedded consumer's) *)
Lemma cap_wrappers_methods_l :
  capLogs_methods = ["Capabilities"; "ConsumeLogs"]%string /\
  capMetrics_methods = ["Capabilities"; "ConsumeMetrics"]%string /\
  capTraces_methods = ["Capabilities"; "ConsumeTraces"]%string /\
  capProfiles_methods = ["Capabilities"; "ConsumeProfiles"]%string.
Proof. repeat split; reflexivity. Qed.
