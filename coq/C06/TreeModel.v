(* C06/TreeModel.v — store-passing model of a whole built pipeline graph (a tree of consumers), executable.

   The consumers of a built graph (service/internal/graph, buildComponents), as a tree:
     receiver            -> CFanout [pipelines]                 receiver.go: fanoutconsumer.NewX(capabilitiesNodes)
     pipeline            -> CCap chain                          capabilitiesNode = capabilityconsumer.NewX(next, capability)
     chain               -> CProc id mut chain | CFanout [exporters]     processors forward the SAME payload; fanOutNode
     exporter            -> CExp id mut
     same-signal connector -> CConn id mut (CFanout [pipelines])  capabilityconsumer.NewX(conn, aggregateCap(conn, nexts));
                                                                the connector forwards its payload to its router
                                                                (connector.NewXRouter: fanoutconsumer.NewX over the next pipelines)
   [ccap] is Capabilities().MutatesData of each consumer; [trun] is ConsumeX: every component records what it
   receives (cell, IsReadOnly, content), a component that declares MutatesData appends its id as a marker to
   the payload it received (through a pdata mutator: panics on a read-only payload), and forwards.
   The fan-out is the algorithm of internal/fanoutconsumer/*.go (see Model.v), here on an arbitrary cell of a
   shared store and with arbitrary consumers below it.  (NewX returns a single non-mutating consumer
   unwrapped; consuming through the wrapper with one read-only consumer does exactly the same — no clone, no
   marking — so CFanout [x] covers it.) *)
From Verif Require Import Common.Base C06.Model.

Inductive comp :=
| CExp (id : nat) (mut : bool)
| CProc (id : nat) (mut : bool) (next : comp)
| CCap (next : comp)
| CConn (id : nat) (mut : bool) (next : comp)
| CFanout (children : list comp).

(* Capabilities().MutatesData *)
Fixpoint ccap (x : comp) : bool :=
  match x with
  | CExp _ m => m
  | CProc _ m _ => m                                   (* the processor's own capability *)
  | CCap next => pcap next                             (* graph.go, case *capabilitiesNode *)
  | CConn _ m next =>                                  (* connector.go aggregateCap(conn, nexts) *)
      m || match next with
           | CFanout cs => existsb ccap cs             (* nexts = the capabilitiesNodes behind the router *)
           | other => ccap other
           end
  | CFanout cs => fan_cap (new_fan (map ccap cs))      (* xConsumer.Capabilities / the unwrapped single consumer *)
  end
with pcap (x : comp) : bool :=                         (* fanOutNode capability || every processor's capability *)
  match x with
  | CProc _ m next => m || pcap next
  | CExp _ m => m
  | CCap next => pcap next
  | CConn _ m next => m || match next with CFanout cs => existsb ccap cs | other => ccap other end
  | CFanout cs => fan_cap (new_fan (map ccap cs))
  end.

Inductive tev :=
| TArr (id : nat) (c : nat) (ro : bool) (seen : list Z)   (* component id received cell c *)
| TPanic (id : nat).                                      (* its write hit a read-only payload *)

Definition tclone (s : store) (c : nat) : store * nat := clone s c.

(* a component receives cell c: record, then (if it declares mutation) write its marker *)
Definition visit (id : nat) (mut : bool) (c : nat) (s : store) : store * list tev :=
  let cl := get s c in
  let e := TArr id c (cro cl) (cont cl) in
  if mut then
    if cro cl then (s, [e; TPanic id])
    else (upd s c (mkCell (cont cl ++ [Z.of_nat id]) false), [e])
  else (s, [e]).

Section Passes.
  Variable runf : comp -> nat -> store -> store * list tev.
  Variable capf : comp -> bool.

  (* "for i < len(mutable)-1: Consume(clone)"; last mutable: original iff no read-only consumer and !IsReadOnly *)
  Fixpoint pass_mut (nm nr c : nat) (l : list comp) (k : nat) (s : store) : store * list tev :=
    match l with
    | [] => (s, [])
    | x :: r =>
        if capf x then
          let '(s1, e1) :=
            if S k <? nm then let '(s', c') := tclone s c in runf x c' s'
            else if (nr =? 0) && negb (is_ro s c) then runf x c s
            else let '(s', c') := tclone s c in runf x c' s' in
          let '(s2, e2) := pass_mut nm nr c r (S k) s1 in
          (s2, e1 ++ e2)
        else pass_mut nm nr c r k s
    end.

  (* "for _, lc := range readonly: Consume(ld)" *)
  Fixpoint pass_ro (c : nat) (l : list comp) (s : store) : store * list tev :=
    match l with
    | [] => (s, [])
    | x :: r =>
        if capf x then pass_ro c r s
        else let '(s1, e1) := runf x c s in
             let '(s2, e2) := pass_ro c r s1 in
             (s2, e1 ++ e2)
    end.
End Passes.

Definition count_cap (capf : comp -> bool) (want : bool) (l : list comp) : nat :=
  length (filter (fun x => Bool.eqb (capf x) want) l).

Fixpoint trun (x : comp) (c : nat) (s : store) : store * list tev :=
  match x with
  | CExp id m => visit id m c s
  | CProc id m next =>
      let '(s1, e1) := visit id m c s in
      let '(s2, e2) := trun next c s1 in (s2, e1 ++ e2)
  | CCap next => trun next c s
  | CConn id m next =>
      let '(s1, e1) := visit id m c s in
      let '(s2, e2) := trun next c s1 in (s2, e1 ++ e2)
  | CFanout cs =>
      let nm := count_cap ccap true cs in
      let nr := count_cap ccap false cs in
      let '(s1, e1) := pass_mut trun ccap nm nr c cs 0 s in
      let s1' := if (1 <? nr) && negb (is_ro s1 c) then mark_ro s1 c else s1 in
      let '(s2, e2) := pass_ro trun ccap c cs s1' in
      (s2, e1 ++ e2)
  end.

(* the receiver pushes a fresh mutable payload with content c0 through the tree *)
Definition run_graph (x : comp) (c0 : list Z) : store * list tev := trun x 0 [mkCell c0 false].

(* ---- specification side: which markers a component may see ------------------------------------ *)
Section FlatIf.
  Variable f : comp -> list (nat * list Z).
  Variable capf : comp -> bool.
  Fixpoint fm_if (want : bool) (l : list comp) : list (nat * list Z) :=
    match l with
    | [] => []
    | x :: r => if Bool.eqb (capf x) want then f x ++ fm_if want r else fm_if want r
    end.
End FlatIf.

Definition pref (p : list Z) (e : nat * list Z) : nat * list Z := (fst e, p ++ snd e).
Definition mk (id : nat) (m : bool) : list Z := if m then [Z.of_nat id] else [].

(* (component, markers of the declared-mutating components strictly UPSTREAM of it on its own path), in
   delivery order.  Defined on the tree alone: no store, no siblings. *)
Fixpoint upstream (x : comp) : list (nat * list Z) :=
  match x with
  | CExp id _ => [(id, [])]
  | CProc id m next => (id, []) :: map (pref (mk id m)) (upstream next)
  | CCap next => upstream next
  | CConn id m next => (id, []) :: map (pref (mk id m)) (upstream next)
  | CFanout cs => fm_if upstream ccap true cs ++ fm_if upstream ccap false cs
  end.

(* well-formedness of a consumer tree as graph.Build produces it: below a fan-out every consumer that may
   write the payload it is given advertises MutatesData *)
Fixpoint may_write (x : comp) : bool :=
  match x with
  | CExp _ m => m
  | CProc _ m next => m || may_write next
  | CCap next => may_write next
  | CConn _ m next => m || may_write next
  | CFanout cs => fan_cap (new_fan (map ccap cs))
  end.

(* needs a mutable payload: writes it without asking (a fan-out asks IsReadOnly first) *)
Fixpoint needs_mutable (x : comp) : bool :=
  match x with
  | CExp _ m => m
  | CProc _ m next => m || needs_mutable next
  | CCap next => needs_mutable next
  | CConn _ m next => m || needs_mutable next
  | CFanout _ => false
  end.

Fixpoint ok (x : comp) : bool :=
  match x with
  | CExp _ _ => true
  | CProc _ _ next => ok next
  | CCap next => ok next
  | CConn _ _ next => ok next
  | CFanout cs => forallb (fun ch => ok ch && implb (may_write ch) (ccap ch)) cs
  end.

(* observations *)
Fixpoint arrivals (l : list tev) : list (nat * list Z) :=
  match l with
  | [] => []
  | TArr id _ _ seen :: r => (id, seen) :: arrivals r
  | TPanic _ :: r => arrivals r
  end.

Fixpoint panics (l : list tev) : list nat :=
  match l with
  | [] => []
  | TPanic id :: r => id :: panics r
  | _ :: r => panics r
  end.

(* ---- the shape graph.Build produces ------------------------------------------------------------ *)
(* receiver / connector router: a fan-out over pipelines; pipeline: capabilitiesNode over a chain; chain:
   processors ending in the exporters' fan-out; exporter: an exporter or a same-signal connector + its router *)
Fixpoint is_chain (x : comp) : bool :=
  match x with
  | CProc _ _ next => is_chain next
  | CFanout cs => forallb is_exporter cs
  | _ => false
  end
with is_exporter (x : comp) : bool :=
  match x with
  | CExp _ _ => true
  | CConn _ _ (CFanout ps) => forallb is_pipeline ps
  | _ => false
  end
with is_pipeline (x : comp) : bool :=
  match x with
  | CCap ch => is_chain ch
  | _ => false
  end.

Definition is_router (x : comp) : bool :=
  match x with CFanout ps => forallb is_pipeline ps | _ => false end.

(* ---- observables compared with the implementation ---------------------------------------------- *)
(* (component, (2*cell + IsReadOnly, markers seen on arrival)), in delivery order *)
Fixpoint arrival_obs (l : list tev) : list (nat * (nat * list Z)) :=
  match l with
  | [] => []
  | TArr id c ro seen :: r => (id, (2 * c + (if ro then 1 else 0), seen)) :: arrival_obs r
  | TPanic _ :: r => arrival_obs r
  end.

(* (component, markers finally in the payload it holds), in delivery order *)
Fixpoint final_obs (s : store) (l : list tev) : list (nat * list Z) :=
  match l with
  | [] => []
  | TArr id c _ _ :: r => (id, cont (get s c)) :: final_obs s r
  | TPanic _ :: r => final_obs s r
  end.
