(* C06/Proofs2.v — the constructor (partition), the initial state, and the lemmas behind Properties.v. *)
From Verif Require Import Common.Base C06.Model C06.Proofs.
From Coq Require Import Permutation.

(* ---- NewX: the partition --------------------------------------------------------------------- *)
Definition mutc_of (caps : list bool) (i : nat) : bool := nth i caps false.

Lemma idx_filter_spec want caps from i :
  In i (idx_filter want caps from) <-> from <= i < from + length caps /\ nth (i - from) caps (negb want) = want.
Proof.
  revert from. induction caps as [|b r IH]; intros from; simpl.
  - split; [tauto|lia].
  - destruct (Bool.eqb b want) eqn:E.
    + apply eqb_prop in E. subst b. simpl. rewrite IH. split.
      * intros [<-|[H1 H2]].
        -- split; [lia|]. now rewrite Nat.sub_diag.
        -- split; [lia|]. destruct (i - from) as [|k] eqn:K; [lia|]. replace (i - S from) with k in H2 by lia. auto.
      * intros [H1 H2]. destruct (Nat.eq_dec from i) as [|N]; [now left|right].
        split; [lia|]. destruct (i - from) as [|k] eqn:K; [lia|]. replace (i - S from) with k by lia. auto.
    + rewrite IH. split.
      * intros [H1 H2]. split; [lia|]. destruct (i - from) as [|k] eqn:K; [lia|]. replace (i - S from) with k in H2 by lia. auto.
      * intros [H1 H2]. destruct (i - from) as [|k] eqn:K.
        -- simpl in H2. subst b. rewrite eqb_reflx in E. discriminate.
        -- split; [lia|]. replace (i - S from) with k by lia. auto.
Qed.

Lemma idx_filter_ge want caps from i : In i (idx_filter want caps from) -> from <= i.
Proof. intros H. apply idx_filter_spec in H. lia. Qed.

Lemma idx_filter_nodup want caps from : NoDup (idx_filter want caps from).
Proof.
  revert from. induction caps as [|b r IH]; intros from; simpl; [constructor|].
  destruct (Bool.eqb b want); auto. constructor; auto.
  intros H. apply idx_filter_ge in H. lia.
Qed.

Lemma idx_filter_mutc want caps i :
  In i (idx_filter want caps 0) <-> i < length caps /\ mutc_of caps i = want.
Proof.
  rewrite idx_filter_spec. rewrite Nat.sub_0_r. unfold mutc_of. split.
  - intros [H1 H2]. split; [lia|]. rewrite <- H2. apply nth_indep. lia.
  - intros [H1 H2]. split; [lia|]. rewrite <- H2. apply nth_indep. lia.
Qed.

(* the partition is order preserving: consumers paired with their capability, filtered *)
Lemma idx_filter_combine want caps from :
  idx_filter want caps from =
  map fst (filter (fun p => Bool.eqb (snd p) want) (combine (seq from (length caps)) caps)).
Proof.
  revert from. induction caps as [|b r IH]; intros from; simpl; auto.
  destruct (Bool.eqb b want); simpl; now rewrite IH.
Qed.

Lemma idx_filter_perm caps from :
  Permutation (idx_filter true caps from ++ idx_filter false caps from) (seq from (length caps)).
Proof.
  revert from. induction caps as [|b r IH]; intros from; simpl; auto.
  destruct b; simpl.
  - apply perm_skip. apply IH.
  - apply Permutation_sym. apply Permutation_cons_app. apply Permutation_sym. apply IH.
Qed.

Lemma call_order_wrap caps :
  map step_consumer (mut_steps (idx_filter true caps 0) ++ ro_steps (idx_filter false caps 0)) =
  idx_filter true caps 0 ++ idx_filter false caps 0.
Proof. now rewrite map_app, mut_steps_consumers, ro_steps_consumers. Qed.

Lemma call_order_eq caps :
  call_order (new_fan caps) = idx_filter true caps 0 ++ idx_filter false caps 0.
Proof.
  unfold call_order.
  destruct caps as [|[|] [|b r]]; try reflexivity; unfold new_fan; cbn [plan]; apply call_order_wrap.
Qed.

Lemma call_order_perm caps : Permutation (call_order (new_fan caps)) (seq 0 (length caps)).
Proof. rewrite call_order_eq. apply idx_filter_perm. Qed.

Lemma call_order_nodup caps : NoDup (call_order (new_fan caps)).
Proof.
  eapply Permutation_NoDup; [apply Permutation_sym, call_order_perm|apply seq_NoDup].
Qed.

Lemma call_order_in caps i : In i (call_order (new_fan caps)) <-> i < length caps.
Proof.
  split; intros H.
  - apply (Permutation_in _ (call_order_perm caps)) in H. apply in_seq in H. lia.
  - apply (Permutation_in _ (Permutation_sym (call_order_perm caps))). apply in_seq. lia.
Qed.

(* ---- the initial state satisfies the invariant ------------------------------------------------ *)
Lemma plan_class caps sp :
  In sp (plan (new_fan caps)) -> mutc_of caps (step_consumer sp) = is_mut_step sp.
Proof.
  assert (W : In sp (mut_steps (idx_filter true caps 0) ++ ro_steps (idx_filter false caps 0)) ->
              mutc_of caps (step_consumer sp) = is_mut_step sp).
  { intros H. apply in_app_or in H. destruct H as [H|H].
    - rewrite (mut_steps_class _ _ H).
      assert (K : In (step_consumer sp) (idx_filter true caps 0)).
      { rewrite <- (mut_steps_consumers (idx_filter true caps 0)). now apply in_map. }
      apply idx_filter_mutc in K. tauto.
    - rewrite (ro_steps_class _ _ H).
      assert (K : In (step_consumer sp) (idx_filter false caps 0)).
      { rewrite <- (ro_steps_consumers (idx_filter false caps 0)). now apply in_map. }
      apply idx_filter_mutc in K. tauto. }
  destruct caps as [|[|] [|b r]]; try exact W.
  simpl. intros [<-|[]]. reflexivity.
Qed.

Lemma inv_init caps ro_in c0 :
  Inv (nro (new_fan caps)) (mutc_of caps) c0 (init (new_fan caps) ro_in c0).
Proof.
  unfold init. constructor; cbn [todo st hs elog]; try (intros; simpl in *; tauto).
  - simpl. lia.
  - constructor.
  - apply call_order_nodup.
  - apply plan_class.
  - destruct caps as [|[|] [|b r]];
      try (left; split; [intros i []|]; eexists _, _; split; [reflexivity|reflexivity]).
    right. exists [0]. split; [reflexivity|]. intros _. right. split; [intros i []|reflexivity].
Qed.

Lemma inv_run caps ro_in c0 ls :
  Inv (nro (new_fan caps)) (mutc_of caps) c0 (run (new_fan caps) ro_in c0 ls).
Proof. unfold run. apply inv_fold. apply inv_init. Qed.

(* ---- who has been called: the log, the handle table and the plan agree ------------------------ *)
(* consumers called so far, oldest first (the log is newest first) *)
Fixpoint calls_of (log : list ev) : list nat :=
  match log with
  | [] => []
  | ECall i _ _ _ :: r => calls_of r ++ [i]
  | _ :: r => calls_of r
  end.

Definition is_call (l : label) : bool := match l with LCall => true | _ => false end.
Definition ncalls (ls : list label) : nat := length (filter is_call ls).

Lemma exec_step_consumer nr s sp : snd (fst (exec_step nr s sp)) = step_consumer sp.
Proof.
  destruct sp; simpl; auto.
  destruct ((nr =? 0) && negb (is_ro s 0)); reflexivity.
Qed.

Definition Sync (co : list nat) (m : mstate) : Prop :=
  calls_of (elog m) ++ map step_consumer (todo m) = co /\ rev (map fst (hs m)) = calls_of (elog m).

Lemma sync_step nr co m l : Sync co m -> Sync co (mstep nr m l).
Proof.
  intros [S1 S2]. destruct l as [|i w|]; cbn [mstep]; [| |split; auto].
  - destruct (todo m) as [|sp rest] eqn:T; [split; auto; now rewrite T|].
    pose proof (exec_step_consumer nr (st m) sp) as EC.
    destruct (exec_step nr (st m) sp) as [[s' i] c]. simpl in EC. subst i.
    split; cbn [todo elog hs calls_of map fst rev].
    + rewrite <- app_assoc. exact S1.
    + now rewrite S2.
  - destruct (lookup i (hs m)) as [c|]; [destruct (do_write (st m) c w) as [s' r]|]; split; auto.
Qed.

Lemma todo_step_len nr m l :
  length (todo (mstep nr m l)) = length (todo m) - (if is_call l then 1 else 0).
Proof.
  destruct l as [|i w|]; cbn [mstep is_call]; [| |simpl; lia].
  - destruct (todo m) as [|sp rest] eqn:T; [now rewrite T|].
    destruct (exec_step nr (st m) sp) as [[s' i] c]. simpl. lia.
  - destruct (lookup i (hs m)) as [c|]; [destruct (do_write (st m) c w) as [s' r]|]; simpl; lia.
Qed.

Lemma fold_sync nr co ls : forall m, Sync co m ->
  Sync co (fold_left (mstep nr) ls m) /\
  length (todo (fold_left (mstep nr) ls m)) = length (todo m) - ncalls ls.
Proof.
  induction ls as [|l ls IH]; intros m S; simpl.
  - split; auto. unfold ncalls. simpl. lia.
  - destruct (IH _ (sync_step nr co m l S)) as [A B]. split; auto.
    rewrite B, todo_step_len. unfold ncalls. simpl. destruct (is_call l); simpl; lia.
Qed.

Lemma run_sync caps ro_in c0 ls :
  let m := run (new_fan caps) ro_in c0 ls in
  Sync (call_order (new_fan caps)) m /\ length (todo m) = length caps - ncalls ls.
Proof.
  intros m. unfold m, run.
  destruct (fold_sync (nro (new_fan caps)) (call_order (new_fan caps)) ls (init (new_fan caps) ro_in c0)) as [A B].
  - split; reflexivity.
  - split; auto. rewrite B. cbn [init todo].
    replace (length (plan (new_fan caps))) with (length (call_order (new_fan caps))) by (unfold call_order; apply map_length).
    now rewrite (Permutation_length (call_order_perm caps)), seq_length.
Qed.

Lemma app_firstn {A} (l1 l2 co : list A) : l1 ++ l2 = co -> l1 = firstn (length l1) co.
Proof. intros <-. rewrite firstn_app, Nat.sub_diag, firstn_all. simpl. now rewrite app_nil_r. Qed.

Lemma calls_prefix_l caps ro_in c0 ls :
  calls_of (elog (run (new_fan caps) ro_in c0 ls)) = firstn (ncalls ls) (call_order (new_fan caps)).
Proof.
  destruct (run_sync caps ro_in c0 ls) as [[S1 _] L].
  set (m := run (new_fan caps) ro_in c0 ls) in *.
  pose proof (app_firstn _ _ _ S1) as E. rewrite E at 1.
  assert (LC : length (call_order (new_fan caps)) = length caps)
    by now rewrite (Permutation_length (call_order_perm caps)), seq_length.
  assert (LL : length (calls_of (elog m)) + length (todo m) = length caps).
  { rewrite <- LC, <- S1, app_length, map_length. reflexivity. }
  destruct (Nat.le_gt_cases (ncalls ls) (length caps)) as [LE|GT].
  - f_equal. lia.
  - replace (length (calls_of (elog m))) with (length (call_order (new_fan caps))) by lia.
    rewrite firstn_all. symmetry. apply firstn_all2. lia.
Qed.

Lemma called_iff_holds caps ro_in c0 ls i :
  let m := run (new_fan caps) ro_in c0 ls in
  In i (calls_of (elog m)) <-> exists c, In (i, c) (hs m).
Proof.
  intros m. destruct (run_sync caps ro_in c0 ls) as [[_ S2] _]. fold m in S2.
  rewrite <- S2, <- in_rev. split.
  - intros H. apply in_map_iff in H. destruct H as [[k c] [E H]]. simpl in E. subst k. eauto.
  - intros [c H]. change i with (fst (i, c)). now apply in_map.
Qed.

Lemma all_called caps ro_in c0 ls :
  length caps <= ncalls ls ->
  Permutation (calls_of (elog (run (new_fan caps) ro_in c0 ls))) (seq 0 (length caps)).
Proof.
  intros H. rewrite calls_prefix_l, firstn_all2; [apply call_order_perm|].
  rewrite (Permutation_length (call_order_perm caps)), seq_length. exact H.
Qed.

(* ---- the returned error ------------------------------------------------------------------------- *)
Lemma map_nth_seq {A} (d : A) (l pre : list A) :
  map (fun i => nth i (pre ++ l) d) (seq (length pre) (length l)) = l.
Proof.
  revert pre. induction l as [|x l IH]; intros pre; simpl; auto. f_equal.
  - rewrite app_nth2, Nat.sub_diag; auto.
  - replace (pre ++ x :: l) with ((pre ++ [x]) ++ l) by (rewrite <- app_assoc; reflexivity).
    replace (S (length pre)) with (length (pre ++ [x])) by (rewrite app_length; simpl; lia).
    apply IH.
Qed.

Lemma flat_map_nth_seq {A} (errs : list (list A)) :
  flat_map (fun i => nth i errs []) (seq 0 (length errs)) = concat errs.
Proof.
  rewrite flat_map_concat_map. f_equal. exact (map_nth_seq [] errs []).
Qed.

Lemma perm_flat_map {A B} (f : A -> list B) l1 l2 :
  Permutation l1 l2 -> Permutation (flat_map f l1) (flat_map f l2).
Proof.
  induction 1; simpl; auto.
  - now apply Permutation_app_head.
  - rewrite !app_assoc. apply Permutation_app_tail. apply Permutation_app_comm.
  - eapply Permutation_trans; eauto.
Qed.

Lemma consume_err_perm caps errs :
  length errs = length caps -> Permutation (consume_err (new_fan caps) errs) (concat errs).
Proof.
  intros L. unfold consume_err. rewrite <- flat_map_nth_seq, L.
  apply perm_flat_map. apply call_order_perm.
Qed.

(* ---- the caller's payload: read-only input stays read-only ------------------------------------ *)
Lemma ro0_step nr m l :
  0 < length (st m) -> cro (get (st m) 0) = true ->
  0 < length (st (mstep nr m l)) /\ cro (get (st (mstep nr m l)) 0) = true.
Proof.
  intros L R. destruct l as [|i w|]; cbn [mstep]; [| |auto].
  - destruct (todo m) as [|sp rest]; [auto|].
    assert (CL : 0 < length (st m ++ [mkCell (cont (get (st m) 0)) false]) /\
                 cro (get (st m ++ [mkCell (cont (get (st m) 0)) false]) 0) = true).
    { rewrite app_length, get_app_old by auto. split; [lia|auto]. }
    destruct sp; cbn [exec_step clone]; cbn [st]; auto.
    + destruct ((nr =? 0) && negb (is_ro (st m) 0)); cbn [st]; auto.
    + destruct ((1 <? nr) && negb (is_ro (st m) 0)); cbn [st]; auto.
      rewrite length_mark_ro. split; auto. now apply cro_mark_ro_same.
  - destruct (lookup i (hs m)) as [c|]; [|auto].
    destruct (do_write_cases (st m) c w) as [[_ E]|[[_ [_ E]]|[_ [R' E]]]]; rewrite E; cbn [st]; auto.
    rewrite length_upd. split; auto.
    destruct (Nat.eq_dec c 0) as [->|N]; [congruence|]. now rewrite get_upd_other.
Qed.

Lemma ro0_run caps c0 ls : cro (get (st (run (new_fan caps) true c0 ls)) 0) = true.
Proof.
  unfold run.
  assert (G : forall m, 0 < length (st m) -> cro (get (st m) 0) = true ->
              cro (get (st (fold_left (mstep (nro (new_fan caps))) ls m)) 0) = true).
  { induction ls as [|l ls IH]; simpl; auto. intros m L R.
    destruct (ro0_step (nro (new_fan caps)) m l L R). auto. }
  apply G; simpl; auto.
Qed.

(* ---- capabilities -------------------------------------------------------------------------------- *)
Lemma idx_false_nil caps from : idx_filter false caps from = [] <-> forallb id caps = true.
Proof.
  revert from. induction caps as [|b r IH]; intros from; simpl; [tauto|].
  destruct b; simpl; [apply IH|]. split; discriminate.
Qed.

Lemma idx_true_nonnil caps from : caps <> [] -> forallb id caps = true -> idx_filter true caps from <> [].
Proof. destruct caps as [|[|] r]; simpl; intros; congruence. Qed.

Lemma fan_cap_spec caps : fan_cap (new_fan caps) = true <-> caps <> [] /\ forallb id caps = true.
Proof.
  assert (W : fan_cap (FWrap (idx_filter true caps 0) (idx_filter false caps 0)) = true <->
              caps <> [] /\ forallb id caps = true).
  { cbn [fan_cap]. rewrite andb_true_iff, negb_true_iff. split.
    - intros [A B]. assert (B' : idx_filter false caps 0 = []) by (destruct (idx_filter false caps 0); [auto|discriminate]).
      apply idx_false_nil in B'. split; auto. intros ->. discriminate.
    - intros [A B]. split.
      + pose proof (idx_true_nonnil caps 0 A B). destruct (idx_filter true caps 0); [congruence|reflexivity].
      + apply (idx_false_nil caps 0) in B. now rewrite B. }
  destruct caps as [|[|] [|b r]]; exact W.
Qed.

Lemma fold_orb l b : fold_left orb l b = b || existsb id l.
Proof.
  revert b. induction l as [|x l IH]; intros b; simpl; [now rewrite orb_false_r|].
  rewrite IH. unfold id at 2. now rewrite orb_assoc.
Qed.

Lemma pipeline_cap_spec procs exps :
  pipeline_cap procs exps = existsb id procs || fan_cap (new_fan exps).
Proof. unfold pipeline_cap. rewrite fold_orb. apply orb_comm. Qed.

Lemma aggregate_cap_spec base nexts : aggregate_cap base nexts = base || existsb id nexts.
Proof. apply fold_orb. Qed.

(* ---- consequences of the invariant, in the vocabulary of the property -------------------------- *)
Definition holds (m : mstate) (i c : nat) : Prop := In (i, c) (hs m).

Lemma view_holds caps ro_in c0 ls i :
  let m := run (new_fan caps) ro_in c0 ls in
  forall x, view m i = Some x <-> exists c, holds m i c /\ x = cont (get (st m) c).
Proof.
  intros m x. pose proof (inv_run caps ro_in c0 ls) as I. fold m in I. unfold view, holds. split.
  - destruct (lookup i (hs m)) as [c|] eqn:L; simpl; [|discriminate]. intros [= <-].
    exists c. split; auto. now apply lookup_some_in.
  - intros [c [H ->]]. rewrite (in_lookup _ _ _ (i_nodup _ _ _ _ I) H). reflexivity.
Qed.

Lemma content_equal_l caps ro_in c0 ls i c ro seen :
  In (ECall i c ro seen) (elog (run (new_fan caps) ro_in c0 ls)) -> seen = c0.
Proof. intros H. now destruct (i_calls _ _ _ _ (inv_run caps ro_in c0 ls) _ _ _ _ H). Qed.

(* (i) the payload of a declared-mutating consumer is held by nobody else *)
Lemma mut_exclusive_l caps ro_in c0 ls i j c :
  let m := run (new_fan caps) ro_in c0 ls in
  mutc_of caps i = true -> holds m i c -> holds m j c -> j = i.
Proof.
  intros m Mi Hi Hj. pose proof (inv_run caps ro_in c0 ls) as I. fold m in I.
  destruct (Nat.eq_dec c 0) as [->|N].
  - destruct (i_mutorig _ _ _ _ I i Hi Mi) as (_ & _ & _ & U). auto.
  - eapply i_excl; eauto.
Qed.

(* (ii) a payload held by two consumers: both non-mutating, it is the caller's, and it is read-only *)
Lemma shared_readonly_l caps ro_in c0 ls i j c :
  let m := run (new_fan caps) ro_in c0 ls in
  holds m i c -> holds m j c -> i <> j ->
  c = 0 /\ mutc_of caps i = false /\ mutc_of caps j = false /\ cro (get (st m) c) = true.
Proof.
  intros m Hi Hj N. pose proof (inv_run caps ro_in c0 ls) as I. fold m in I.
  assert (c = 0).
  { destruct (Nat.eq_dec c 0) as [|N0]; auto. exfalso. apply N. eapply i_excl; eauto. }
  subst c. split; auto.
  repeat split.
  - destruct (mutc_of caps i) eqn:Mi; auto. exfalso. apply N.
    symmetry. eapply (mut_exclusive_l caps ro_in c0 ls i j 0); eauto.
  - destruct (mutc_of caps j) eqn:Mj; auto. exfalso. apply N.
    eapply (mut_exclusive_l caps ro_in c0 ls j i 0); eauto.
  - eapply i_two; eauto.
Qed.

(* (iii) the caller's payload goes to a mutating consumer only if the fan-out advertises MutatesData
   and the payload was not read-only; it is then still mutable and nobody else holds it *)
Lemma orig_to_mutator_l caps ro_in c0 ls i :
  let m := run (new_fan caps) ro_in c0 ls in
  holds m i 0 -> mutc_of caps i = true ->
  fan_cap (new_fan caps) = true /\ ro_in = false /\ cro (get (st m) 0) = false.
Proof.
  intros m Hi Mi. pose proof (inv_run caps ro_in c0 ls) as I. fold m in I.
  destruct (i_mutorig _ _ _ _ I i Hi Mi) as (NR & _ & RO & _).
  assert (FC : fan_cap (new_fan caps) = true).
  { assert (In i (idx_filter true caps 0)).
    { apply idx_filter_mutc. split; auto. unfold mutc_of in Mi.
      destruct (Nat.lt_ge_cases i (length caps)); auto. rewrite nth_overflow in Mi; [discriminate|auto]. }
    destruct caps as [|[|] [|b r]]; try (simpl in NR; discriminate);
      unfold new_fan in *; cbn [fan_cap nro] in *;
      (destruct (idx_filter false _ 0); [|discriminate]);
      (destruct (idx_filter true _ 0); [contradiction|reflexivity]). }
  repeat split; auto.
  destruct ro_in; auto. unfold m in RO. rewrite ro0_run in RO. discriminate.
Qed.

(* non-interference: whatever every consumer does, a consumer's payload is what was sent, changed only
   by that consumer's own successful writes *)
Lemma noninterference_l caps ro_in c0 ls i x :
  let m := run (new_fan caps) ro_in c0 ls in
  view m i = Some x -> x = own_view i (elog m) c0.
Proof.
  intros m V. apply (view_holds caps ro_in c0 ls i x) in V. destruct V as [c [H ->]].
  apply (i_content _ _ _ _ (inv_run caps ro_in c0 ls)); auto.
Qed.

Lemma noninterference_nowrite_l caps ro_in c0 ls i x :
  let m := run (new_fan caps) ro_in c0 ls in
  (forall w, ~ In (EWrite i w WOk) (elog m)) -> view m i = Some x -> x = c0.
Proof.
  intros m NW V. rewrite (noninterference_l caps ro_in c0 ls i x V). now apply own_view_nowrite.
Qed.

(* a successful write was made on a payload nobody else holds *)
Lemma write_ok_exclusive_l caps ro_in c0 ls i w c j :
  let m := run (new_fan caps) ro_in c0 ls in
  In (EWrite i w WOk) (elog m) -> holds m i c -> holds m j c -> j = i.
Proof.
  intros m W Hi Hj. pose proof (inv_run caps ro_in c0 ls) as I. fold m in I.
  destruct (Nat.eq_dec j i) as [|N]; auto. exfalso.
  pose proof (i_okrw _ _ _ _ I i w c W Hi) as RO.
  destruct (shared_readonly_l caps ro_in c0 ls i j c Hi Hj) as (_ & _ & _ & R); auto.
  fold m in R. congruence.
Qed.

(* an (undeclared) write on a payload somebody else also holds panics or does nothing; the store is unchanged *)
Lemma shared_write_panics_l caps ro_in c0 ls i j c w :
  let m := run (new_fan caps) ro_in c0 ls in
  let m' := mstep (nro (new_fan caps)) m (LWrite i w) in
  holds m i c -> holds m j c -> i <> j ->
  st m' = st m /\ exists r, elog m' = EWrite i w r :: elog m /\ r <> WOk /\
                            (wr_asserts w (cont (get (st m) c)) = true -> r = WPanic).
Proof.
  intros m m' Hi Hj N. pose proof (inv_run caps ro_in c0 ls) as I. fold m in I.
  destruct (shared_readonly_l caps ro_in c0 ls i j c Hi Hj N) as (_ & _ & _ & R). fold m in R.
  unfold m'. cbn [mstep]. rewrite (in_lookup _ _ _ (i_nodup _ _ _ _ I) Hi).
  destruct (do_write_cases (st m) c w) as [[A E]|[[A [_ E]]|[_ [R' _]]]]; [| |congruence]; rewrite E; cbn [st elog].
  - split; auto. exists WSkip. repeat split; auto; [discriminate|congruence].
  - split; auto. exists WPanic. repeat split; auto. discriminate.
Qed.

(* a declared-mutating consumer never hits the read-only panic *)
Lemma mutator_never_panics_l caps ro_in c0 ls i w :
  In (EWrite i w WPanic) (elog (run (new_fan caps) ro_in c0 ls)) -> mutc_of caps i = false.
Proof. apply (i_panic _ _ _ _ (inv_run caps ro_in c0 ls)). Qed.

(* read-only flag observed at call time is the flag of the payload; a mutating consumer never receives read-only data *)
Lemma mutator_gets_mutable_l caps ro_in c0 ls i c :
  let m := run (new_fan caps) ro_in c0 ls in
  holds m i c -> mutc_of caps i = true -> cro (get (st m) c) = false.
Proof.
  intros m Hi Mi. pose proof (inv_run caps ro_in c0 ls) as I. fold m in I.
  destruct (Nat.eq_dec c 0) as [->|N].
  - now destruct (i_mutorig _ _ _ _ I i Hi Mi) as (_ & _ & RO & _).
  - now destruct (i_clone _ _ _ _ I i c Hi N).
Qed.

Lemma pipeline_cap_exact_l procs exps :
  pipeline_cap procs exps = true <-> (exists p, In p procs /\ p = true) \/ fan_cap (new_fan exps) = true.
Proof. rewrite pipeline_cap_spec, orb_true_iff, existsb_exists. unfold id. reflexivity. Qed.

Lemma call_order_l caps :
  Permutation (call_order (new_fan caps)) (seq 0 (length caps)) /\
  call_order (new_fan caps) =
    map fst (filter (fun p => Bool.eqb (snd p) true) (combine (seq 0 (length caps)) caps)) ++
    map fst (filter (fun p => Bool.eqb (snd p) false) (combine (seq 0 (length caps)) caps)).
Proof.
  split; [apply call_order_perm|]. rewrite call_order_eq. now rewrite <- !idx_filter_combine.
Qed.

Lemma error_aggregates_l caps (errs : list (list N)) :
  length errs = length caps ->
  consume_err (new_fan caps) errs = flat_map (fun i => nth i errs []) (call_order (new_fan caps)) /\
  Permutation (consume_err (new_fan caps) errs) (concat errs).
Proof. intros L. split; [reflexivity|now apply consume_err_perm]. Qed.

Lemma handle_discipline_l caps ro_in c0 ls :
  let m := run (new_fan caps) ro_in c0 ls in
  (forall i j c, mutc_of caps i = true -> holds m i c -> holds m j c -> j = i) /\
  (forall i c, holds m i c -> mutc_of caps i = true -> cro (get (st m) c) = false) /\
  (forall i j c, holds m i c -> holds m j c -> i <> j ->
     c = 0 /\ mutc_of caps i = false /\ mutc_of caps j = false /\ cro (get (st m) c) = true) /\
  (forall i, holds m i 0 -> mutc_of caps i = true ->
     fan_cap (new_fan caps) = true /\ ro_in = false /\ cro (get (st m) 0) = false).
Proof.
  intros m. split; [|split; [|split]].
  - intros i j c. apply mut_exclusive_l.
  - intros i c. apply mutator_gets_mutable_l.
  - intros i j c. apply shared_readonly_l.
  - intros i. apply orig_to_mutator_l.
Qed.

(* ---- "exactly": when the fan-out advertises MutatesData, the caller's payload does reach a mutating consumer *)
Lemma mut_steps_has_last M : M <> [] -> exists i, In (SLast i) (mut_steps M) /\ In i M.
Proof.
  induction M as [|a [|b M] IH]; intros NE; [congruence| |].
  - exists a. simpl. auto.
  - destruct IH as [i [H1 H2]]; [discriminate|]. exists i. split; [right; exact H1|right; exact H2].
Qed.

Definition Reach (i : nat) (m : mstate) : Prop :=
  (In (SLast i) (todo m) /\ cro (get (st m) 0) = false /\ 0 < length (st m) /\
   forall sp, In sp (todo m) -> is_mut_step sp = true)
  \/ In (i, 0) (hs m).

Lemma reach_step i m l : Reach i m -> Reach i (mstep 0 m l).
Proof.
  intros [[HL [RO [LEN CL]]]|H].
  - destruct l as [|j w|]; cbn [mstep]; [| |left; cbn [todo st]; auto].
    + destruct (todo m) as [|sp rest] eqn:T; [left; rewrite T; auto|].
      assert (MS : is_mut_step sp = true) by (apply CL; now left).
      assert (CL' : forall sp', In sp' rest -> is_mut_step sp' = true) by (intros; apply CL; now right).
      destruct sp as [j|j|j|j]; try discriminate; cbn [exec_step clone].
      * left. cbn [todo st]. destruct HL as [E|HL]; [discriminate|].
        rewrite app_length, get_app_old by auto. repeat split; auto. lia.
      * unfold is_ro. rewrite RO. cbn [Nat.eqb andb negb].
        destruct HL as [E|HL].
        -- injection E as ->. right. cbn [hs]. now left.
        -- left. cbn [todo st]. auto.
    + left. destruct (lookup j (hs m)) as [c|]; [|cbn [todo st]; auto].
      destruct (do_write_cases (st m) c w) as [[_ E]|[[_ [_ E]]|[_ [R' E]]]]; rewrite E; cbn [todo st]; auto.
      rewrite length_upd. repeat split; auto.
      destruct (Nat.eq_dec c 0) as [->|N]; [|now rewrite get_upd_other].
      destruct (Nat.lt_ge_cases 0 (length (st m))); [now rewrite get_upd_same|lia].
  - right. destruct l as [|j w|]; cbn [mstep]; [| |auto].
    + destruct (todo m) as [|sp rest]; auto.
      destruct (exec_step 0 (st m) sp) as [[s' k] c]. cbn [hs]. now right.
    + destruct (lookup j (hs m)) as [c|]; [destruct (do_write (st m) c w)|]; auto.
Qed.

Lemma orig_reaches_mutator_l caps c0 ls :
  fan_cap (new_fan caps) = true -> length caps <= ncalls ls ->
  exists i, mutc_of caps i = true /\ holds (run (new_fan caps) false c0 ls) i 0.
Proof.
  intros FC LE.
  assert (F : new_fan caps = FWrap (idx_filter true caps 0) (idx_filter false caps 0)).
  { destruct caps as [|[|] [|b r]]; try reflexivity. discriminate. }
  rewrite F in FC. cbn [fan_cap] in FC. apply andb_true_iff in FC. destruct FC as [NM NR].
  assert (RN : idx_filter false caps 0 = []) by (destruct (idx_filter false caps 0); [auto|discriminate]).
  assert (MN : idx_filter true caps 0 <> []) by (destruct (idx_filter true caps 0); [discriminate|discriminate]).
  destruct (mut_steps_has_last _ MN) as [i [HL HI]].
  exists i. split; [apply idx_filter_mutc in HI; tauto|].
  assert (R0 : Reach i (init (new_fan caps) false c0)).
  { left. rewrite F, RN. cbn [init todo st plan ro_steps]. rewrite app_nil_r. repeat split; auto.
    intros sp H. eapply mut_steps_class; eauto. }
  assert (NRO : nro (new_fan caps) = 0) by (rewrite F; cbn [nro]; now rewrite RN).
  assert (RR : forall ls m, Reach i m -> Reach i (fold_left (mstep 0) ls m)).
  { intros ls'. induction ls' as [|l ls' IH]; simpl; auto. intros m R. apply IH. now apply reach_step. }
  destruct (run_sync caps false c0 ls) as [_ LT].
  unfold run in *. rewrite NRO in *.
  destruct (RR ls _ R0) as [[HT _]|H]; [|exact H].
  exfalso. destruct (todo (fold_left (mstep 0) ls (init (new_fan caps) false c0))); [contradiction|simpl in LT; lia].
Qed.

(* ---- graph level: a receiver / connector router feeding several pipelines ------------------- *)
(* The consumer given to a receiver (receiver.go) and the one a connector forwards to (connector router) is
   fanoutconsumer.NewX over the pipelines' capabilitiesNodes, whose capability is pipe_cap_t.  A pipeline
   with a mutating processor, or whose exporter fan-out hands the original to a mutating exporter,
   advertises MutatesData, hence holds its payload alone — for every schedule of calls and writes. *)
Lemma mutating_pipeline_isolated_l roots ro_in c0 ls i j c procs exps :
  let m := run (new_fan (map pipe_cap_t roots)) ro_in c0 ls in
  nth_error roots i = Some (Pipe procs exps) ->
  (exists p, In p procs /\ p = true) \/ fan_cap (new_fan (map node_cap exps)) = true ->
  holds m i c -> holds m j c ->
  j = i /\ cro (get (st m) c) = false.
Proof.
  intros m NE MUT Hi Hj.
  assert (MC : mutc_of (map pipe_cap_t roots) i = true).
  { unfold mutc_of. apply (map_nth_error pipe_cap_t) in NE.
    rewrite (nth_error_nth _ _ false NE). cbn [pipe_cap_t]. now apply pipeline_cap_exact_l. }
  split.
  - eapply (mut_exclusive_l (map pipe_cap_t roots) ro_in c0 ls i j c); eauto.
  - eapply (mutator_gets_mutable_l (map pipe_cap_t roots) ro_in c0 ls i c); eauto.
Qed.

(* pipelines that share a payload are all non-mutating (no mutating processor, exporter stage does not
   write the original) and the payload is read-only *)
Lemma shared_pipelines_readonly_l roots ro_in c0 ls i j c procs exps :
  let m := run (new_fan (map pipe_cap_t roots)) ro_in c0 ls in
  nth_error roots i = Some (Pipe procs exps) ->
  holds m i c -> holds m j c -> i <> j ->
  existsb id procs = false /\ fan_cap (new_fan (map node_cap exps)) = false /\ cro (get (st m) c) = true.
Proof.
  intros m NE Hi Hj N.
  destruct (shared_readonly_l (map pipe_cap_t roots) ro_in c0 ls i j c Hi Hj N) as (_ & Mi & _ & R).
  unfold mutc_of in Mi. apply (map_nth_error pipe_cap_t) in NE.
  rewrite (nth_error_nth _ _ false NE) in Mi. cbn [pipe_cap_t] in Mi.
  rewrite pipeline_cap_spec in Mi. apply orb_false_iff in Mi. tauto.
Qed.

(* ---- the caller's context: ConsumeX never looks at it -------------------------------------------- *)
Definition is_cancel (l : label) : bool := match l with LCancel => true | _ => false end.
Definition not_cancel_ev (e : ev) : bool := match e with ECancel => false | _ => true end.
(* the log without the "context ended" marks *)
Definition strip (log : list ev) : list ev := filter not_cancel_ev log.
Definition same_upto_ctx (m m' : mstate) : Prop :=
  todo m = todo m' /\ st m = st m' /\ hs m = hs m' /\ strip (elog m) = strip (elog m').

Lemma same_step nr m m' l :
  same_upto_ctx m m' -> is_cancel l = false -> same_upto_ctx (mstep nr m l) (mstep nr m' l).
Proof.
  destruct m as [t s h e], m' as [t' s' h' e']. unfold same_upto_ctx. cbn [todo st hs elog].
  intros (<- & <- & <- & D) NC. destruct l as [|i w|]; [| |discriminate]; cbn [mstep todo st hs elog].
  - destruct t as [|sp rest]; [cbn [todo st hs elog]; auto|].
    destruct (exec_step nr s sp) as [[s1 i] c]. cbn [todo st hs elog]. repeat split; auto.
    cbn [strip filter not_cancel_ev]. unfold strip in D. now rewrite D.
  - destruct (lookup i h) as [c|]; [destruct (do_write s c w) as [s1 r]|];
      cbn [todo st hs elog]; repeat split; auto; cbn [strip filter not_cancel_ev]; unfold strip in D; now rewrite D.
Qed.

Lemma same_cancel nr m m' : same_upto_ctx m m' -> same_upto_ctx (mstep nr m LCancel) m'.
Proof. intros (A & B & C & D). repeat split; auto. Qed.

Lemma context_irrelevant_fold nr ls : forall m m',
  same_upto_ctx m m' ->
  same_upto_ctx (fold_left (mstep nr) ls m) (fold_left (mstep nr) (filter (fun l => negb (is_cancel l)) ls) m').
Proof.
  induction ls as [|l ls IH]; intros m m' S; simpl; auto.
  destruct (is_cancel l) eqn:E; simpl.
  - destruct l; try discriminate. apply IH. now apply same_cancel.
  - apply IH. now apply same_step.
Qed.

Lemma context_irrelevant_l caps ro_in c0 ls :
  same_upto_ctx (run (new_fan caps) ro_in c0 ls)
                (run (new_fan caps) ro_in c0 (filter (fun l => negb (is_cancel l)) ls)).
Proof. unfold run. apply context_irrelevant_fold. repeat split; auto. Qed.

(* a consumer is handed the caller's context: it finds it done iff the context ended earlier in the schedule;
   and the calls made do not depend on it *)
Lemma calls_ignore_cancel_l caps ro_in c0 ls :
  calls_of (elog (run (new_fan caps) ro_in c0 ls)) =
  calls_of (elog (run (new_fan caps) ro_in c0 (filter (fun l => negb (is_cancel l)) ls))).
Proof. now rewrite !calls_prefix_l; unfold ncalls; f_equal; induction ls as [|[| |] ls IH]; simpl; auto; f_equal. Qed.
