(* C06/Clauses.v — a decidable checker of the property's clauses over the OBSERVED behaviour of the implementation
   (the recorded half of a correspondence case), independent of the model's step functions (Model.mstep / run /
   TreeModel.trun are not used here; only data types, the write programs' meaning apply_wr, and [upstream], which is
   defined on the tree alone).  [prop_ok c = true <-> Clause c] is proved in ClausesProofs.v.
   [check_all] = model comparison && clause check is what the driver evaluates on every case; [diag] names what failed. *)
From Verif Require Import Common.Base.
From Verif Require Export C06.Harness.

Definition e_tag (e : wev) : nat := fst e.
Definition e_who (e : wev) : nat := fst (snd e).
Definition e_a (e : wev) : nat := fst (snd (snd e)).
Definition e_seen (e : wev) : list Z := snd (snd (snd e)).
Definition is_callb (e : wev) : bool := e_tag e =? 0.
Definition is_writeb (e : wev) : bool := e_tag e =? 1.
Definition e_cell (e : wev) : nat := e_a e / 4.
Definition e_done (e : wev) : bool := Nat.odd (e_a e / 2).
Definition e_ro (e : wev) : bool := Nat.odd (e_a e).
Definition capof (caps : list bool) (i : nat) : bool := nth i caps false.
Definition calls_obs (evs : list wev) : list nat := map e_who (filter is_callb evs).
Definition l_tag (l : wlabel) : nat := fst l.
Definition n_call_labels (ls : list wlabel) : nat := length (filter (fun l => l_tag l =? 0) ls).
Definition is_write_label (l : wlabel) : bool := ((0 <? l_tag l) && (l_tag l <? 4)) || (l_tag l =? 5).

(* Capabilities().MutatesData the property asks for: true exactly when there are consumers and all mutate *)
Definition spec_fan (caps : list bool) : bool := negb (is_nil caps) && forallb id caps.

(* ---- the clauses for one delivery through a fan-out ------------------------------------------------ *)
(* K1 every consumer is invoked exactly once (when the fan-out was allowed to make all its calls) *)
Definition k_called_once (n : nat) (ls : list wlabel) (evs : list wev) : bool :=
  if n <=? n_call_labels ls
  then (length (calls_obs evs) =? n) && forallb (fun i => count_occ Nat.eq_dec (calls_obs evs) i =? 1) (seq 0 n)
  else true.
(* K2 every consumer receives content equal to what was sent *)
Definition k_content (c0 : list Z) (evs : list wev) : bool :=
  forallb (fun e => negb (is_callb e) || listZ_eqb (e_seen e) c0) evs.
(* K3 the returned error aggregates all failures (leaves of every consumer's error, in invocation order) *)
Definition k_errors (errs : list (list N)) (evs : list wev) (o_err : list N) : bool :=
  list_eqb N.eqb o_err (flat_map (fun i => nth i errs []) (calls_obs evs)).
(* K4 two consumers handed the same payload: both non-mutating, and it is read-only when the second gets it *)
Definition share_okb (caps : list bool) (e1 e2 : wev) : bool :=
  negb (e_cell e1 =? e_cell e2) || (negb (capof caps (e_who e1)) && negb (capof caps (e_who e2)) && e_ro e2).
Fixpoint all_pairs {A} (R : A -> A -> bool) (l : list A) : bool :=
  match l with [] => true | x :: r => forallb (R x) r && all_pairs R r end.
Definition k_sharing (caps : list bool) (evs : list wev) : bool := all_pairs (share_okb caps) (filter is_callb evs).
(* K5 a mutating consumer never gets read-only data; it gets the caller's payload only if the fan-out advertises
   MutatesData and the payload was mutable *)
Definition k_mutator (caps : list bool) (ro_in o_cap : bool) (evs : list wev) : bool :=
  forallb (fun e => negb (is_callb e) || negb (capof caps (e_who e)) ||
                    (negb (e_ro e) && (negb (e_cell e =? 0) || (o_cap && negb ro_in)))) evs.
(* K6 non-interference: what a consumer finally holds is the sent content changed by its OWN successful writes only
   (write labels and write events are paired in order) *)
Definition own_obs (i : nat) (c0 : list Z) (pairs : list (wlabel * wev)) : list Z :=
  fold_left (fun c p => match label_of (fst p) with
                        | LWrite j w => if (j =? i) && (e_a (snd p) =? 0) then apply_wr w c else c
                        | _ => c
                        end) pairs c0.
Definition expected_final (n : nat) (c0 : list Z) (ls : list wlabel) (evs : list wev) : list (option (list Z)) :=
  let pairs := combine (filter is_write_label ls) (filter is_writeb evs) in
  map (fun i => if existsb (Nat.eqb i) (calls_obs evs) then Some (own_obs i c0 pairs) else None) (seq 0 n).
Definition k_final (n : nat) (c0 : list Z) (ls : list wlabel) (evs : list wev) (o_final : list (option (list Z))) : bool :=
  (length (filter is_write_label ls) =? length (filter is_writeb evs))
  && list_eqb (option_eqb listZ_eqb) o_final (expected_final n c0 ls evs).
(* K7 advertised capability is exact *)
Definition k_cap (caps : list bool) (o_cap : bool) : bool := Bool.eqb o_cap (spec_fan caps).
(* K8 a declared-mutating consumer never hits the read-only panic *)
Definition k_nopanic (caps : list bool) (evs : list wev) : bool :=
  forallb (fun e => negb (is_writeb e && (e_a e =? 1)) || negb (capof caps (e_who e))) evs.
(* K9 the context handed to a consumer is the caller's: done iff the caller's context ended before *)
Fixpoint k_ctx (done : bool) (evs : list wev) : bool :=
  match evs with
  | [] => true
  | e :: r => if e_tag e =? 2 then k_ctx true r
              else if is_callb e then Bool.eqb (e_done e) done && k_ctx done r
              else k_ctx done r
  end.
(* K10 (sessions) a payload handed out in this delivery was not seen in another one *)
Definition k_fresh (evs : list wev) : bool := forallb (fun e => negb (is_callb e) || (e_cell e <? 500)) evs.

Record dobs_in := mkDin { d_caps : list bool; d_ro : bool; d_c0 : list Z; d_errs : list (list N); d_ls : list wlabel;
                          d_cap : bool; d_evs : list wev; d_final : list (option (list Z)); d_err : list N }.

(* the clause results in a fixed order; the index of the first false one names the violated clause *)
Definition delivery_clauses (x : dobs_in) : list bool :=
  let n := length (d_caps x) in
  [ k_called_once n (d_ls x) (d_evs x); k_content (d_c0 x) (d_evs x); k_errors (d_errs x) (d_evs x) (d_err x);
    k_sharing (d_caps x) (d_evs x); k_mutator (d_caps x) (d_ro x) (d_cap x) (d_evs x);
    k_final n (d_c0 x) (d_ls x) (d_evs x) (d_final x); k_cap (d_caps x) (d_cap x); k_nopanic (d_caps x) (d_evs x);
    k_ctx false (d_evs x); k_fresh (d_evs x) ].
Definition delivery_ok (x : dobs_in) : bool := forallb id (delivery_clauses x).

(* ---- sessions: split the script per delivery ----------------------------------------------------- *)
Fixpoint sess_inputs (caps : list bool) (script : list wslabel) (k : nat) : list (bool * list Z * list (list N) * list wlabel) :=
  match script with
  | [] => []
  | WDeliver ro c0 errs :: r =>
      (ro, c0, errs, flat_map (fun s => match s with WStep d l => if d =? k then [l] else [] | _ => [] end) r)
      :: sess_inputs caps r (S k)
  | WStep _ _ :: r => sess_inputs caps r k
  end.

Definition sess_dobs (caps : list bool) (script : list wslabel) (o : list dobs) : list dobs_in :=
  map (fun io => let '((ro, c0, errs, ls), (evs, (fin, (_, err)))) := io in
                 mkDin caps ro c0 errs ls (spec_fan caps) evs fin err)
      (combine (sess_inputs caps script 0) o).

(* ---- pipeline / connector capabilities, as the property states them ------------------------------ *)
Fixpoint spec_node_cap (n : node) : bool :=
  match n with
  | NExp m => m
  | NConn m nexts => m || existsb spec_pipe_cap nexts
  end
with spec_pipe_cap (p : pipe) : bool :=
  match p with Pipe procs exps => existsb id procs || spec_fan (map spec_node_cap exps) end.
Fixpoint spec_node_caps (n : node) : list bool :=
  match n with NExp _ => [] | NConn _ nexts => flat_map spec_pipe_caps nexts end
with spec_pipe_caps (p : pipe) : list bool :=
  match p with Pipe procs exps => spec_pipe_cap p :: flat_map spec_node_caps exps end.

(* ---- whole graph: a component sees exactly its upstream mutators' markers -------------------------- *)
Fixpoint lookup_up (id : nat) (l : list (nat * list Z)) : option (list Z) :=
  match l with [] => None | (k, ms) :: r => if k =? id then Some ms else lookup_up id r end.
Definition graph_ok (tree : comp) (o_arr : list (nat * (nat * list Z))) : bool :=
  let up := upstream tree in
  (length o_arr =? length up)
  && forallb (fun p => count_occ Nat.eq_dec (map fst o_arr) (fst p) =? 1) up
  && forallb (fun a => option_eqb listZ_eqb (lookup_up (fst a) up) (Some (snd (snd a)))) o_arr.

(* ---- router ------------------------------------------------------------------------------------------ *)
Definition router_ok (pcaps : list bool) (sel : list nat) (o_cap o_dcap : bool) (o_calls : list nat) : bool :=
  Bool.eqb o_cap (spec_fan (map (fun i => nth i pcaps false) sel))
  && Bool.eqb o_dcap (spec_fan pcaps)
  && (length o_calls =? length sel)
  && forallb (fun p => count_occ Nat.eq_dec o_calls p =? count_occ Nat.eq_dec sel p) (seq 0 (length pcaps)).

(* ---- the capability a built consumer advertises: the last WithCapabilities wins; defaults: consumer false,
   processor helper true; an exporter helper with batching always mutates ---- *)
Definition spec_last (opts : list bool) (default : bool) : bool :=
  match rev opts with b :: _ => b | [] => default end.
Definition spec_cap (kind : nat) (opts : list bool) (batching : bool) : bool :=
  match kind with
  | 0 => spec_last opts false
  | 1 => spec_last opts true
  | _ => if batching then true else spec_last opts false
  end.

(* ---- the checker ------------------------------------------------------------------------------------- *)
Definition case_clauses (c : vcase) : list bool :=
  match c with
  | CFan _ caps ro c0 errs ls o_cap o_evs o_final _ o_err =>
      delivery_clauses (mkDin caps ro c0 errs ls o_cap o_evs o_final o_err)
  | CSess _ caps script o =>
      [ (length o =? length (sess_inputs caps script 0)) && forallb delivery_ok (sess_dobs caps script o) ]
  | CPipe _ procs exps o_cap => [ Bool.eqb o_cap (existsb id procs || spec_fan exps) ]
  | CTree _ roots o_rc o_caps =>
      [ Bool.eqb o_rc (spec_fan (map spec_pipe_cap roots)); list_eqb Bool.eqb o_caps (flat_map spec_pipe_caps roots) ]
  | CGraph _ _ tree o_arr _ => [ graph_ok tree o_arr ]
  | CBuilt kind _ opts batching o_cap => [ Bool.eqb o_cap (spec_cap kind opts batching) ]
  | CRouter _ pcaps sel o_cap o_dcap o_calls => [ router_ok pcaps sel o_cap o_dcap o_calls ]
  | CRoutes _ pcaps sels o =>
      [ (length o =? length sels)
        && forallb (fun so => router_ok pcaps (fst so) (fst (snd so)) (spec_fan pcaps) (snd (snd so))) (combine sels o) ]
  end.

Definition prop_ok (c : vcase) : bool := forallb id (case_clauses c).

(* what the driver evaluates on every case *)
Definition check_all (c : vcase) : bool := check_case c && prop_ok c.

(* diagnosis of a failing case: (model agrees?, index of the first violated clause + 1, 0 = none; for a session:
   100 * (delivery + 1) + clause) *)
Fixpoint first_false (l : list bool) (k : nat) : nat :=
  match l with [] => 0 | b :: r => if b then first_false r (S k) else S k end.
Fixpoint first_bad_delivery (l : list dobs_in) (k : nat) : nat :=
  match l with
  | [] => 0
  | x :: r => if delivery_ok x then first_bad_delivery r (S k) else 100 * S k + first_false (delivery_clauses x) 0
  end.
Definition diag (c : vcase) : bool * nat :=
  (check_case c,
   match c with
   | CSess _ caps script o =>
       if prop_ok c then 0 else
       match first_bad_delivery (sess_dobs caps script o) 0 with 0 => 99 | k => k end
   | _ => first_false (case_clauses c) 0
   end).
