(* C06/Model.v — executable model of the fan-out consumers and of the pipeline capability
   computation.  Written after the Go code, function by function; no proofs here.

   Code modelled (pinned tree):
     internal/fanoutconsumer/{logs,metrics,traces,profiles}.go
         NewX (partition into mutable / readonly, "don't wrap" shortcut)      -> new_fan
         xConsumer.Capabilities                                               -> fan_cap
         xConsumer.ConsumeX                                                   -> plan / exec_step / mstep
         cloneX (NewX + CopyTo into the fresh payload)                        -> clone
     pdata/internal/state.go + pX.{IsReadOnly,MarkReadOnly}, AssertMutable    -> is_ro / mark_ro / do_write
     go.uber.org/multierr Append (nil-dropping, flattening)                   -> list append of error ids
     service/internal/graph/graph.go buildComponents, case *capabilitiesNode  -> pipeline_cap
     service/internal/graph/connector.go aggregateCap                         -> aggregate_cap
     service/internal/capabilityconsumer NewX                                 -> cap_wrap (capability override only)
     connector/*_router.go  NewXRouter / Consumer(ids...)                     -> router_fan (= new_fan on the selected pipelines)
   The four signal files are textually the same algorithm (checked by the four correspondence
   harness functions, one per file), hence one model.

   Payloads.  A payload value in Go is a pair of pointers (orig, state) copied by value; all copies
   share the cell.  The model has a store of cells (content, read-only flag); a handle is a cell
   index; cell 0 is the payload passed to ConsumeX.  The content is abstract: the list of integer
   markers of the top-level entries (ResourceLogs / ResourceMetrics / ResourceSpans /
   ResourceProfiles), which is what the harness's mutation programs read and write. *)
From Verif Require Import Common.Base.

(* ---- payload content and the mutation programs a consumer may run on its payload ---------- *)
Inductive wr :=
| WAppend (v : Z)            (* slice.AppendEmpty() + set marker v            *)
| WSet (k : nat) (v : Z)     (* if k < Len(): At(k) ... PutInt(marker, v)     *)
| WRemove (v : Z)            (* slice.RemoveIf(marker == v)                   *)
| WFun (f : list Z -> list Z). (* ANY mutation: an arbitrary function of the content (always reaches a pdata mutator);
                                 the theorems quantify over every f.  The harness exercises f = rotate (tag 5). *)

(* the instance the correspondence run exercises: EnsureCapacity, then move the first entry to the end *)
Definition rotate (c : list Z) : list Z := match c with [] => [] | x :: r => r ++ [x] end.

Fixpoint set_nth (k : nat) (v : Z) (c : list Z) : list Z :=
  match c, k with
  | [], _ => []
  | _ :: r, 0 => v :: r
  | x :: r, S k' => x :: set_nth k' v r
  end.

Definition apply_wr (w : wr) (c : list Z) : list Z :=
  match w with
  | WAppend v => c ++ [v]
  | WSet k v => set_nth k v c
  | WRemove v => filter (fun x => negb (Z.eqb x v)) c
  | WFun f => f c
  end.

(* does the program reach a pdata mutator?  (every mutator starts with state.AssertMutable()) *)
Definition wr_asserts (w : wr) (c : list Z) : bool :=
  match w with
  | WSet k _ => k <? length c
  | _ => true
  end.

(* ---- store of payload cells ------------------------------------------------------------------ *)
Record cell := mkCell { cont : list Z; cro : bool }.
Definition store := list cell.
Definition dcell := mkCell [] false.
Definition get (s : store) (id : nat) : cell := nth id s dcell.

Fixpoint upd (s : store) (id : nat) (c : cell) : store :=
  match s, id with
  | [], _ => []
  | _ :: r, 0 => c :: r
  | x :: r, S k => x :: upd r k c
  end.

Definition is_ro (s : store) (id : nat) : bool := cro (get s id).                      (* IsReadOnly  *)
Definition mark_ro (s : store) (id : nat) : store := upd s id (mkCell (cont (get s id)) true). (* MarkReadOnly *)
(* cloneX: a NEW payload (fresh orig, fresh mutable state) receiving CopyTo of the current content *)
Definition clone (s : store) (id : nat) : store * nat :=
  (s ++ [mkCell (cont (get s id)) false], length s).

(* ---- NewX: the constructor ------------------------------------------------------------------- *)
(* consumers are identified by their index in the slice passed to NewX *)
Fixpoint idx_filter (want : bool) (caps : list bool) (from : nat) : list nat :=
  match caps with
  | [] => []
  | b :: r => if Bool.eqb b want then from :: idx_filter want r (S from) else idx_filter want r (S from)
  end.

Inductive fan :=
| FDirect (i : nat)                          (* "Don't wrap if there is only one non-mutating consumer": returns lcs[0] *)
| FWrap (mutable readonly : list nat).       (* &xConsumer{mutable, readonly} *)

Definition new_fan (caps : list bool) : fan :=
  match caps with
  | [false] => FDirect 0
  | _ => FWrap (idx_filter true caps 0) (idx_filter false caps 0)
  end.

Definition is_nil {A} (l : list A) : bool := match l with [] => true | _ => false end.

(* Capabilities().MutatesData of the value returned by NewX *)
Definition fan_cap (f : fan) : bool :=
  match f with
  | FDirect _ => false                                     (* lcs[0].Capabilities(), known non-mutating *)
  | FWrap m r => negb (is_nil m) && is_nil r               (* len(mutable) > 0 && len(readonly) == 0 *)
  end.

(* ---- ConsumeX as a sequence of consumer calls ---------------------------------------------- *)
Inductive step :=
| SClone (i : nat)      (* mutable[i], i < len-1 : ConsumeX(ctx, cloneX(ld))                           *)
| SLast (i : nat)       (* last mutable consumer: original iff no readonly consumer and !IsReadOnly   *)
| SFirstRO (i : nat)    (* "if len(readonly) > 1 && !ld.IsReadOnly() { MarkReadOnly }" + first readonly *)
| SOrig (i : nat).      (* remaining readonly consumers / the unwrapped single consumer: ld as is      *)

Fixpoint mut_steps (m : list nat) : list step :=
  match m with
  | [] => []
  | [i] => [SLast i]
  | i :: r => SClone i :: mut_steps r
  end.

Definition ro_steps (r : list nat) : list step :=
  match r with
  | [] => []
  | i :: r' => SFirstRO i :: map SOrig r'
  end.

Definition plan (f : fan) : list step :=
  match f with
  | FDirect i => [SOrig i]
  | FWrap m r => mut_steps m ++ ro_steps r
  end.

Definition nro (f : fan) : nat := match f with FDirect _ => 1 | FWrap _ r => length r end.

Definition step_consumer (s : step) : nat :=
  match s with SClone i | SLast i | SFirstRO i | SOrig i => i end.

(* one consumer call: new store, consumer index, cell handed to it *)
Definition exec_step (nr : nat) (s : store) (sp : step) : store * nat * nat :=
  match sp with
  | SClone i => let '(s', c) := clone s 0 in (s', i, c)
  | SLast i =>
      if (nr =? 0) && negb (is_ro s 0) then (s, i, 0)
      else let '(s', c) := clone s 0 in (s', i, c)
  | SFirstRO i =>
      let s' := if (1 <? nr) && negb (is_ro s 0) then mark_ro s 0 else s in (s', i, 0)
  | SOrig i => (s, i, 0)
  end.

(* ---- the machine: calls interleaved with writes by consumers that already hold a payload --- *)
Inductive label :=
| LCall                         (* the fan-out performs its next consumer call *)
| LWrite (i : nat) (w : wr)     (* consumer i runs mutation program w on the payload it was given
                                   (synchronously inside its ConsumeX, or later from a goroutine) *)
| LCancel.                      (* the caller's context ends (cancelled / deadline exceeded), at this point of the
                                   schedule: before ConsumeX, inside some consumer's call, or afterwards.
                                   ConsumeX never inspects ctx (it only passes it on), so nothing else changes. *)

Inductive wres := WOk | WPanic | WSkip.   (* mutated | "invalid access to shared data" | no mutator reached / no payload yet *)

Inductive ev :=
| ECall (i : nat) (c : nat) (ro : bool) (seen : list Z)     (* consumer, cell, IsReadOnly and content at call time *)
| EWrite (i : nat) (w : wr) (r : wres)
| ECancel.                                                  (* the context passed to ConsumeX is done from here on *)

Record mstate := mkM { todo : list step; st : store; hs : list (nat * nat); elog : list ev (* newest first *) }.

Fixpoint lookup (i : nat) (l : list (nat * nat)) : option nat :=
  match l with
  | [] => None
  | (k, v) :: r => if k =? i then Some v else lookup i r
  end.

Definition do_write (s : store) (c : nat) (w : wr) : store * wres :=
  let cl := get s c in
  if wr_asserts w (cont cl) then
    if cro cl then (s, WPanic)                                    (* AssertMutable panics before any change *)
    else (upd s c (mkCell (apply_wr w (cont cl)) (cro cl)), WOk)
  else (s, WSkip).

Definition mstep (nr : nat) (m : mstate) (l : label) : mstate :=
  match l with
  | LCall =>
      match todo m with
      | [] => m
      | sp :: rest =>
          let '(s', i, c) := exec_step nr (st m) sp in
          mkM rest s' ((i, c) :: hs m) (ECall i c (is_ro s' c) (cont (get s' c)) :: elog m)
      end
  | LWrite i w =>
      match lookup i (hs m) with
      | None => mkM (todo m) (st m) (hs m) (EWrite i w WSkip :: elog m)
      | Some c =>
          let '(s', r) := do_write (st m) c w in
          mkM (todo m) s' (hs m) (EWrite i w r :: elog m)
      end
  | LCancel => mkM (todo m) (st m) (hs m) (ECancel :: elog m)
  end.

(* what a consumer finds in the ctx it is handed: the SAME context the caller passed, hence done iff the
   caller's context ended earlier in the schedule (log is newest first) *)
Fixpoint ctx_done (log : list ev) : bool :=
  match log with
  | [] => false
  | ECancel :: _ => true
  | _ :: r => ctx_done r
  end.

Definition init (f : fan) (ro_in : bool) (c0 : list Z) : mstate :=
  mkM (plan f) [mkCell c0 ro_in] [] [].

Definition run (f : fan) (ro_in : bool) (c0 : list Z) (ls : list label) : mstate :=
  fold_left (mstep (nro f)) ls (init f ro_in c0).

(* what consumer i sees in its payload now *)
Definition view (m : mstate) (i : nat) : option (list Z) :=
  option_map (fun c => cont (get (st m) c)) (lookup i (hs m)).

(* ---- returned error: errs = multierr.Append(errs, consumer.ConsumeX(...)) in call order ---- *)
(* an error value is the list of its leaves: [] = nil, [e] = plain error, longer = a multierr *)
Definition call_order (f : fan) : list nat := map step_consumer (plan f).
Definition consume_err (f : fan) (errs : list (list N)) : list N :=
  flat_map (fun i => nth i errs []) (call_order f).

(* ---- pipeline capability (graph.buildComponents, case *capabilitiesNode) ------------------- *)
(* capability := fanOutNode.Capabilities(); for each processor: capability ||= processor.Capabilities() *)
Definition pipeline_cap (procs exps : list bool) : bool :=
  fold_left orb procs (fan_cap (new_fan exps)).

(* connector.go aggregateCap: base.Capabilities() ||= next.Capabilities() for every next pipeline *)
Definition aggregate_cap (base : bool) (nexts : list bool) : bool := fold_left orb nexts base.

(* capabilityconsumer.NewX: same consumer, advertised capability replaced *)
Definition cap_wrap (_own advertised : bool) : bool := advertised.

(* connector router: Consumer(ids...) = fanoutconsumer.NewX over the selected pipelines' first consumers *)
Definition router_fan (pipe_caps : list bool) (sel : list nat) : fan :=
  new_fan (map (fun i => nth i pipe_caps false) sel).

(* ---- a pipeline tree: what a receiver (or a connector acting as one) feeds ---------------- *)
(* An exporter is a leaf with its declared capability; a pipeline has processors (declared
   capabilities, in order) and exporters; a same-signal connector is an exporter of one pipeline
   and the receiver of others: its own capability and the pipelines it feeds. *)
Inductive node :=
| NExp (mut : bool)
| NConn (mut : bool) (nexts : list pipe)
with pipe :=
| Pipe (procs : list bool) (exps : list node).

Fixpoint node_cap (n : node) : bool :=
  match n with
  | NExp m => m
  | NConn m nexts => aggregate_cap m (map pipe_cap_t nexts)
  end
with pipe_cap_t (p : pipe) : bool :=
  match p with
  | Pipe procs exps => pipeline_cap procs (map node_cap exps)
  end.

(* ---- several deliveries through the SAME fan-out --------------------------------------------------- *)
(* xConsumer holds nothing but the two consumer slices: ConsumeX keeps no state from one call to the next, every
   clone is a fresh payload (cloneX = NewX() + CopyTo) and every call has its own caller payload.  A session is
   therefore a list of deliveries, each with its own cells; its labels start a delivery (possibly while earlier
   ones are still in progress: concurrent or re-entrant ConsumeX calls) or let delivery d take a step: its next
   consumer call, or a write by consumer i on the payload it was handed IN delivery d — at any later time, e.g.
   after further deliveries were made (a consumer that queues / batches the payload it owns). *)
Inductive slabel :=
| SDeliver (ro_in : bool) (c0 : list Z)
| SStep (d : nat) (l : label).

Fixpoint upd_nth {A} (l : list A) (k : nat) (f : A -> A) : list A :=
  match l, k with
  | [], _ => []
  | x :: r, 0 => f x :: r
  | x :: r, S k' => x :: upd_nth r k' f
  end.

Definition sstep (f : fan) (ss : list mstate) (sl : slabel) : list mstate :=
  match sl with
  | SDeliver ro c0 => ss ++ [init f ro c0]
  | SStep d l => upd_nth ss d (fun m => mstep (nro f) m l)
  end.

Definition srun (f : fan) (sls : list slabel) : list mstate := fold_left (sstep f) sls [].

(* ---- the capability a consumer advertises, as built by the real constructors ---------------------- *)
(* consumer/internal NewBaseImpl(options...): Cap starts as MutatesData=false; the options are applied in the order
   given and consumer.WithCapabilities(c) overwrites Cap: the LAST WithCapabilities wins.  An option list is modelled
   by the MutatesData values of its WithCapabilities options, in order. *)
Definition base_cap (opts : list bool) : bool := fold_left (fun _ b => b) opts false.
(* processorhelper.fromOptions: the default option WithCapabilities(MutatesData: true) first, then the user's *)
Definition proc_cap (user : list bool) : bool := base_cap (true :: user).
(* exporterhelper NewBaseExporter: the user's options, then — when batching is enabled (batcher or queue batch) —
   WithCapabilities(MutatesData: true) is APPENDED ("Batcher mutates the data") *)
Definition exp_cap (user : list bool) (batching : bool) : bool :=
  base_cap (user ++ (if batching then [true] else [])).
