(* C06/SessionProofs.v — deliveries through the same fan-out are independent of each other. *)
From Verif Require Import Common.Base C06.Model.

(* the deliveries started by a session, and the labels addressed to delivery d once it exists *)
Fixpoint deliveries (sls : list slabel) : list (bool * list Z) :=
  match sls with
  | [] => []
  | SDeliver ro c0 :: r => (ro, c0) :: deliveries r
  | SStep _ _ :: r => deliveries r
  end.

(* n = number of deliveries started so far *)
Fixpoint steps_for (d n : nat) (sls : list slabel) : list label :=
  match sls with
  | [] => []
  | SDeliver _ _ :: r => steps_for d (S n) r
  | SStep d' l :: r => if (d' =? d) && (d <? n) then l :: steps_for d n r else steps_for d n r
  end.

Lemma deliveries_app a b : deliveries (a ++ b) = deliveries a ++ deliveries b.
Proof. induction a as [|[ro c0|d l] a IH]; simpl; auto. now rewrite IH. Qed.

Lemma steps_for_app d a : forall n b,
  steps_for d n (a ++ b) = steps_for d n a ++ steps_for d (n + length (deliveries a)) b.
Proof.
  induction a as [|[ro c0|d' l] a IH]; intros n b; simpl.
  - now rewrite Nat.add_0_r.
  - rewrite IH. simpl. now rewrite Nat.add_succ_r.
  - rewrite IH. destruct ((d' =? d) && (d <? n)); reflexivity.
Qed.

Lemma run_snoc f ro c0 ls l : run f ro c0 (ls ++ [l]) = mstep (nro f) (run f ro c0 ls) l.
Proof. unfold run. now rewrite fold_left_app. Qed.

Lemma upd_nth_length {A} (l : list A) k g : length (upd_nth l k g) = length l.
Proof. revert k. induction l as [|x r IH]; intros [|k]; simpl; auto. Qed.

Lemma nth_error_upd_nth {A} (l : list A) k g j :
  nth_error (upd_nth l k g) j = if j =? k then option_map g (nth_error l j) else nth_error l j.
Proof.
  revert k j. induction l as [|x r IH]; intros [|k] [|j]; simpl; auto.
  - destruct (j =? k); reflexivity.
Qed.

Lemma steps_for_none d : forall sls n, n + length (deliveries sls) <= d -> steps_for d n sls = [].
Proof.
  induction sls as [|[ro c0|d' l] sls IH]; intros n H; simpl in *; auto.
  - apply IH. lia.
  - replace (d <? n) with false by (symmetry; apply Nat.ltb_ge; lia). rewrite andb_false_r. apply IH. lia.
Qed.

(* the state of delivery d in any session is the single-delivery run of its own parameters on its own labels *)
Lemma session_independent_l f sls :
  length (srun f sls) = length (deliveries sls) /\
  forall d ro c0, nth_error (deliveries sls) d = Some (ro, c0) ->
                  nth_error (srun f sls) d = Some (run f ro c0 (steps_for d 0 sls)).
Proof.
  induction sls as [|sl sls IH] using rev_ind.
  - simpl. split; auto. intros [|d]; discriminate.
  - destruct IH as [LEN IH]. unfold srun in *. rewrite fold_left_app. cbn [fold_left].
    rewrite deliveries_app.
    destruct sl as [ro' c0'|d' l]; cbn [sstep deliveries].
    + split; [rewrite !app_length, LEN; reflexivity|].
      intros d ro c0 H. rewrite steps_for_app. cbn [steps_for]. rewrite app_nil_r.
      destruct (Nat.lt_ge_cases d (length (deliveries sls))) as [LT|GE].
      * rewrite nth_error_app1 in H by auto. rewrite nth_error_app1 by lia. auto.
      * rewrite nth_error_app2 in H by auto. rewrite nth_error_app2 by lia. rewrite LEN.
        destruct (d - length (deliveries sls)) as [|k] eqn:K; cbn in H |- *; [|destruct k; discriminate].
        injection H as <- <-.
        rewrite (steps_for_none d sls 0) by lia. reflexivity.
    + rewrite app_nil_r. split; [now rewrite upd_nth_length|].
      intros d ro c0 H. rewrite nth_error_upd_nth, steps_for_app. cbn [steps_for].
      assert (LT : d < length (deliveries sls)) by (apply nth_error_Some; congruence).
      destruct (d =? d') eqn:E.
      * apply Nat.eqb_eq in E. subst d'. rewrite Nat.eqb_refl.
        replace (d <? 0 + length (deliveries sls)) with true by (symmetry; apply Nat.ltb_lt; lia).
        cbn [andb]. rewrite (IH d ro c0 H). cbn [option_map]. now rewrite run_snoc.
      * rewrite Nat.eqb_sym, E. cbn [andb]. rewrite app_nil_r. auto.
Qed.

From Verif Require Import C06.Proofs C06.Proofs2.

(* hence every single-delivery theorem holds for every delivery of every session; the central ones: *)
Lemma session_noninterference_l caps sls d ro c0 m :
  nth_error (deliveries sls) d = Some (ro, c0) ->
  nth_error (srun (new_fan caps) sls) d = Some m ->
  m = run (new_fan caps) ro c0 (steps_for d 0 sls) /\
  (forall i x, view m i = Some x -> x = own_view i (elog m) c0) /\
  (forall i c r seen, In (ECall i c r seen) (elog m) -> seen = c0) /\
  calls_of (elog m) = firstn (ncalls (steps_for d 0 sls)) (call_order (new_fan caps)).
Proof.
  intros HD HM. destruct (session_independent_l (new_fan caps) sls) as [_ IND].
  rewrite (IND d ro c0 HD) in HM. injection HM as <-. split; [reflexivity|]. split; [|split].
  - intros i x. apply noninterference_l.
  - intros i c r seen. apply content_equal_l.
  - apply calls_prefix_l.
Qed.
