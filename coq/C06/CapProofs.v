(* C06/CapProofs.v — the capability a consumer advertises as built by the real constructors and option lists. *)
From Verif Require Import Common.Base C06.Model C06.Proofs C06.Proofs2.

Lemma base_cap_snoc opts b : base_cap (opts ++ [b]) = b.
Proof. unfold base_cap. now rewrite fold_left_app. Qed.

Lemma base_cap_nil : base_cap [] = false.
Proof. reflexivity. Qed.

Lemma fold_last_gen opts : forall d, fold_left (fun (_ b : bool) => b) opts d = last opts d.
Proof.
  induction opts as [|a r IH] using rev_ind; intros d; [reflexivity|].
  rewrite fold_left_app, last_last. reflexivity.
Qed.

(* the LAST WithCapabilities option wins; without one the consumer is non-mutating *)
Lemma base_cap_last opts : base_cap opts = last opts false.
Proof. apply fold_last_gen. Qed.

Lemma proc_cap_last user : proc_cap user = last user true.
Proof. unfold proc_cap, base_cap. simpl. apply fold_last_gen. Qed.

Lemma exp_cap_batching user : exp_cap user true = true.
Proof. unfold exp_cap. apply base_cap_snoc. Qed.

Lemma exp_cap_plain user : exp_cap user false = base_cap user.
Proof. unfold exp_cap. now rewrite app_nil_r. Qed.

Lemma cap_construction_l :
  (forall opts b, base_cap (opts ++ [b]) = b) /\ base_cap [] = false /\
  (forall opts, base_cap opts = last opts false) /\
  (forall user, proc_cap user = last user true) /\
  (forall user, exp_cap user true = true) /\ (forall user, exp_cap user false = base_cap user).
Proof.
  repeat split; auto using base_cap_snoc, base_cap_last, proc_cap_last, exp_cap_batching, exp_cap_plain.
Qed.

(* what the fan-out sees IS that capability: a fan-out over consumers built from the option lists [optss].  A consumer
   whose last WithCapabilities says MutatesData (e.g. an exporter helper with batching, whatever it declared before)
   holds its payload alone and it is mutable — for every schedule *)
Lemma built_consumer_isolated_l (optss : list (list bool)) ro_in c0 ls i j c :
  let caps := map base_cap optss in
  let m := run (new_fan caps) ro_in c0 ls in
  last (nth i optss []) false = true -> i < length optss ->
  In (i, c) (hs m) -> In (j, c) (hs m) -> j = i /\ cro (get (st m) c) = false.
Proof.
  intros caps m LAST LT Hi Hj.
  assert (MC : mutc_of caps i = true).
  { unfold mutc_of, caps. rewrite (nth_indep _ false (base_cap [])) by (now rewrite map_length).
    rewrite map_nth, base_cap_last. exact LAST. }
  split.
  - eapply (mut_exclusive_l caps ro_in c0 ls i j c); eauto.
  - eapply (mutator_gets_mutable_l caps ro_in c0 ls i c); eauto.
Qed.
