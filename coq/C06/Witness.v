(* C06/Witness.v — non-vacuity: concrete schedules on which the hypotheses of the theorems in
   Properties.v hold, and the three layouts named in the plan, evaluated by vm_compute. *)
From Verif Require Import Common.Base C06.Model C06.Proofs C06.Proofs2 C06.TreeModel C06.TreeProofs.

Ltac slv := vm_compute; repeat split; try discriminate; auto 10.

Definition calls (n : nat) : list label := repeat LCall n.

(* (mutable, mutable, read-only): consumers 0 and 1 get clones (cells 1, 2), consumer 2 the caller's
   payload, not marked (it is alone on it).  Then everybody writes: all succeed, nobody sees another's write. *)
Definition w_mmr := run (new_fan [true; true; false]) false [1; 2]%Z
                        (calls 3 ++ [LWrite 0 (WAppend 7); LWrite 1 (WSet 0 8); LWrite 2 (WRemove 2)])%Z.
Example mmr_handles : hs w_mmr = [(2, 0); (1, 2); (0, 1)].
Proof. vm_compute. reflexivity. Qed.
Example mmr_views : map (view w_mmr) [0; 1; 2] = [Some [1; 2; 7]; Some [8; 2]; Some [1]]%Z.
Proof. vm_compute. reflexivity. Qed.
Example mmr_cap : fan_cap (new_fan [true; true; false]) = false.
Proof. reflexivity. Qed.

(* (read-only x3): one shared payload, marked read-only by the fan-out; the hypotheses of
   fanout_shared_write_panics / (ii) hold; an undeclared write panics and changes nothing. *)
Definition w_rrr := run (new_fan [false; false; false]) false [1; 2]%Z (calls 3 ++ [LWrite 1 (WAppend 7%Z)]).
Example rrr_shared : holds w_rrr 0 0 /\ holds w_rrr 2 0 /\ 0 <> 2 /\ cro (get (st w_rrr) 0) = true.
Proof. slv. Qed.
Example rrr_panic : In (EWrite 1 (WAppend 7%Z) WPanic) (elog w_rrr) /\ map (view w_rrr) [0; 1; 2] = [Some [1; 2]; Some [1; 2]; Some [1; 2]]%Z.
Proof. slv. Qed.

(* all mutating, mutable input: the last mutating consumer gets the caller's payload and the fan-out
   advertises MutatesData (hypotheses of (iii)); its write succeeds (hypothesis of fanout_write_ok_exclusive). *)
Definition w_mm := run (new_fan [true; true]) false [1]%Z (calls 2 ++ [LWrite 1 (WAppend 5%Z)]).
Example mm_orig : holds w_mm 1 0 /\ mutc_of [true; true] 1 = true /\ fan_cap (new_fan [true; true]) = true.
Proof. slv. Qed.
Example mm_write_ok : In (EWrite 1 (WAppend 5%Z) WOk) (elog w_mm) /\ view w_mm 1 = Some [1; 5]%Z /\ view w_mm 0 = Some [1]%Z.
Proof. slv. Qed.

(* read-only input, all mutating: even the last one gets a clone; the caller's payload is untouched. *)
Definition w_ro_mm := run (new_fan [true; true]) true [1]%Z (calls 2 ++ [LWrite 1 (WAppend 5%Z); LWrite 0 (WRemove 1%Z)]).
Example ro_mm : hs w_ro_mm = [(1, 2); (0, 1)] /\ cont (get (st w_ro_mm) 0) = [1]%Z /\ cro (get (st w_ro_mm) 0) = true.
Proof. slv. Qed.

(* asynchronous writer: consumer 0 (mutating, holds a clone) writes between the later calls and after the
   return; consumers 1 and 2 still receive and keep the sent content. *)
Definition w_async := run (new_fan [true; false; false]) false [1; 2]%Z
  [LCall; LWrite 0 (WSet 0 9); LCall; LWrite 0 (WAppend 9); LCall; LWrite 0 (WRemove 2)]%Z.
Example async_calls : calls_of (elog w_async) = [0; 1; 2] /\
  map (view w_async) [0; 1; 2] = [Some [9; 9]; Some [1; 2]; Some [1; 2]]%Z.
Proof. vm_compute. split; reflexivity. Qed.

(* the single non-mutating consumer is not wrapped; alone on a mutable payload its (undeclared) write succeeds *)
Example direct_single : new_fan [false] = FDirect 0 /\
  view (run (new_fan [false]) false [1]%Z [LCall; LWrite 0 (WAppend 3%Z)]) 0 = Some [1; 3]%Z.
Proof. vm_compute. split; reflexivity. Qed.

(* errors: every leaf of every consumer's error is in the result, in call order (mutating consumers first) *)
Example err_agg : consume_err (new_fan [false; true; false]) [[1]; [2; 3]; []]%N = [2; 3; 1]%N.
Proof. reflexivity. Qed.

(* pipeline capability: both directions are inhabited *)
Example pcap1 : pipeline_cap [false; true] [false; false] = true. Proof. reflexivity. Qed.
Example pcap2 : pipeline_cap [false] [true; true] = true. Proof. reflexivity. Qed.
Example pcap3 : pipeline_cap [false] [true; false] = false. Proof. reflexivity. Qed.
Example pcap4 : pipeline_cap [] [] = false. Proof. reflexivity. Qed.

(* graph level: a receiver feeding [mutating-processor pipeline; two plain pipelines]: the first gets its
   own mutable copy, the other two share the caller's payload, marked read-only *)
Definition w_roots := [Pipe [false; true] [NExp false]; Pipe [] [NExp false; NExp false]; Pipe [false] [NExp true; NExp false]].
Example roots_caps : map pipe_cap_t w_roots = [true; false; false].
Proof. reflexivity. Qed.
Definition w_graph := run (new_fan (map pipe_cap_t w_roots)) false [1]%Z (calls 3).
Example graph_handles : holds w_graph 0 1 /\ holds w_graph 1 0 /\ holds w_graph 2 0 /\
  cro (get (st w_graph) 1) = false /\ cro (get (st w_graph) 0) = true.
Proof. slv. Qed.
(* a connector: advertises mutation when a pipeline it feeds does *)
Example conn_cap : node_cap (NConn false [Pipe [] [NExp false]; Pipe [true] [NExp false]]) = true /\
                   node_cap (NConn false [Pipe [] [NExp false]]) = false.
Proof. split; reflexivity. Qed.
(* hypothesis of fan_cap_original_reaches_mutator *)
Example reach_hyp : fan_cap (new_fan [true; true; true]) = true /\ length [true; true; true] <= ncalls (calls 3) /\
  holds (run (new_fan [true; true; true]) false [1]%Z (calls 3)) 2 0.
Proof. slv. Qed.

(* the caller's context ends while consumer 0 is being called: consumers 1 and 2 are still invoked and find
   the context done *)
Definition w_cancel := run (new_fan [false; false; false]) false [1]%Z [LCall; LCancel; LCall; LCall].
Example cancel_calls : calls_of (elog w_cancel) = [0; 1; 2] /\ ctx_done (elog w_cancel) = true /\
  strip (elog w_cancel) = elog (run (new_fan [false; false; false]) false [1]%Z (calls 3)).
Proof. slv. Qed.

(* whole graph: receiver -> [pipeline A: mutating processor 1, exporters 2 (mut) and 3; pipeline B: exporter 4 and a
   non-mutating connector 5 feeding pipeline C: mutating processor 6, exporter 7].  is_router holds; 3 and 4 never see
   marker 1, 2 or 6; 7 sees 6 only. *)
Definition w_tree : comp :=
  CFanout [CCap (CProc 1 true (CFanout [CExp 2 true; CExp 3 false]));
           CCap (CFanout [CExp 4 false; CConn 5 false (CFanout [CCap (CProc 6 true (CFanout [CExp 7 false]))])])].
Example tree_shape : is_router w_tree = true /\ ok w_tree = true.
Proof. split; reflexivity. Qed.
Example tree_run : arrivals (snd (run_graph w_tree [])) =
  [(1, []); (2, [1%Z]); (3, [1%Z]); (5, []); (6, []); (7, [6%Z]); (4, [])] /\ panics (snd (run_graph w_tree [])) = [].
Proof. vm_compute. split; reflexivity. Qed.
(* without the capabilitiesNode the tree is not well-formed, and the sibling DOES see the mutation (what the
   capability computation is for): ok is a real hypothesis *)
Definition w_bad : comp := CFanout [CProc 1 false (CProc 2 true (CFanout [CExp 3 false])); CExp 4 false].
Example bad_not_ok : ok w_bad = false /\ panics (snd (run_graph w_bad [])) = [2].
Proof. vm_compute. split; reflexivity. Qed.

(* non-vacuity of model_passes_checker: a script with a cancel, writes by a declared and an undeclared writer and all
   three calls satisfies both guards, and the model's observation of it passes the checker (computed) *)
From Verif Require C06.Clauses C06.ModelObs.
Definition w_script : list Harness.wlabel :=
  [(0,(0,(0,0%Z))); (1,(0,(0,7%Z))); (4,(0,(0,0%Z))); (0,(0,(0,0%Z))); (5,(0,(0,0%Z))); (0,(0,(0,0%Z))); (3,(2,(0,1%Z)))].
Example link_guards : List.length [true; false; false] <= Clauses.n_call_labels w_script /\ List.length [true; false; false] < 500.
Proof. vm_compute. split; repeat constructor. Qed.
Example link_computed :
  Clauses.prop_ok (ModelObs.observe 0 [true; false; false] false [1; 2]%Z [[]; [5]; []]%N w_script) = true.
Proof. vm_compute. reflexivity. Qed.
(* the guard is real: for an interrupted delivery (fewer call labels than consumers) the model still reports the
   complete error, so the aggregation clause is (rightly) not satisfied by the truncated observation *)
Example link_guard_needed :
  Clauses.prop_ok (ModelObs.observe 0 [false; false] false [1]%Z [[1]; [2]]%N [(0,(0,(0,0%Z)))]) = false.
Proof. vm_compute. reflexivity. Qed.
