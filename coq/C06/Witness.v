From Verif Require Import Common.Base C06.Model C06.Proofs.
