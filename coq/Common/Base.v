(* Common/Base.v — small shared definitions used by every property's model and by the
   correspondence files (work/Cxx/Cases_k.v) that the check driver generates.
   Executable definitions and a few generic lemmas; no axioms. *)
From Coq Require Export List Bool Arith ZArith NArith Lia.
Export ListNotations.

(* ---- correspondence helper --------------------------------------------------------------
   A cases file is a list of (case id, payload).  [bad f l] returns the ids on which the
   boolean comparison [f] (model output vs. recorded implementation output) fails. *)
Definition bad {A : Type} (f : A -> bool) (l : list (nat * A)) : list nat :=
  map fst (filter (fun x => negb (f (snd x))) l).

Lemma bad_nil_iff {A} (f : A -> bool) l :
  bad f l = [] <-> forall x, In x l -> f (snd x) = true.
Proof.
  unfold bad. induction l as [|a l IH]; simpl.
  - split; [intros _ x []|reflexivity].
  - destruct (f (snd a)) eqn:E; simpl.
    + rewrite IH. split.
      * intros H x [<-|Hx]; auto.
      * intros H x Hx. apply H. now right.
    + split; [discriminate|]. intros H. specialize (H a (or_introl eq_refl)). congruence.
Qed.

(* ---- option / list helpers ------------------------------------------------------------- *)
Definition opt_bind {A B} (o : option A) (f : A -> option B) : option B :=
  match o with Some a => f a | None => None end.

Fixpoint list_eqb {A} (eqb : A -> A -> bool) (l1 l2 : list A) : bool :=
  match l1, l2 with
  | [], [] => true
  | x :: xs, y :: ys => eqb x y && list_eqb eqb xs ys
  | _, _ => false
  end.

Lemma list_eqb_spec {A} (eqb : A -> A -> bool) :
  (forall x y, eqb x y = true <-> x = y) ->
  forall l1 l2, list_eqb eqb l1 l2 = true <-> l1 = l2.
Proof.
  intros H. induction l1 as [|x xs IH]; destruct l2 as [|y ys]; simpl; try (split; congruence).
  rewrite andb_true_iff, H, IH. split; [intros [-> ->]; reflexivity | intros E; inversion E; auto].
Qed.

Definition option_eqb {A} (eqb : A -> A -> bool) (a b : option A) : bool :=
  match a, b with
  | Some x, Some y => eqb x y
  | None, None => true
  | _, _ => false
  end.

Fixpoint last_opt {A} (l : list A) : option A :=
  match l with
  | [] => None
  | [x] => Some x
  | _ :: xs => last_opt xs
  end.

Lemma last_opt_app {A} (l : list A) x : last_opt (l ++ [x]) = Some x.
Proof. induction l as [|a l IH]; simpl; auto. destruct (l ++ [x]) eqn:E; [destruct l; discriminate|exact IH]. Qed.

Fixpoint sumZ (l : list Z) : Z := match l with [] => 0%Z | x :: xs => (x + sumZ xs)%Z end.
Lemma sumZ_app l1 l2 : sumZ (l1 ++ l2) = (sumZ l1 + sumZ l2)%Z.
Proof. induction l1; simpl; lia. Qed.
