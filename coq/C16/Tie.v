(* C16/Tie.v — OBLIGATIONS tying the hand-written definitions of C16/Model.v to the tables that
   P.translate regenerates from the CURRENT Go source on every run (coq/Generated/C16Tables.v: the whole
   graph of the finite decision functions, obtained by running the code; coq/Generated/C16Params.v:
   translator T1).  An edit of the Go source changes the generated file, and a divergence breaks the
   named obligation below (instead of only showing up as a correspondence disagreement). *)
From Verif Require Import Common.Base C16.Model Generated.C16Tables Generated.C16Params.
From Coq Require Import String.

Definition codec_num (c : codec) : N :=
  match c with CGzip => 0 | CZlib => 1 | CZstd => 2 | CSnappy => 3 | CLz4 => 4 end.

(* how the dump identifies a decoder: 9 = the "" decoder (nil, nil); 0..4 = the codec it decodes;
   98 = a nil func bound in the map *)
Definition slot_num (s : slot) : N :=
  match s with SIdent => 9 | SCodec c => codec_num c | SNil => 98 | SCustom _ => 96 end.

Definition optN_eqb := option_eqb N.eqb.
Definition strs_eqb := list_eqb String.eqb.

(* ---- config/configcompression/compressiontype.go --------------------------------------------------- *)
Lemma tie_is_compressed_l :
  forallb (fun p => Bool.eqb (is_compressed (fst p)) (snd p)) T_IsCompressed = true.
Proof. vm_compute. reflexivity. Qed.

Lemma tie_unmarshal_text_l :
  forallb (fun p => Bool.eqb (type_known (fst p)) (snd p)) T_Unmarshal = true.
Proof. vm_compute. reflexivity. Qed.

(* every probed type name x every level of -12 .. 30, 99, 100, 1000, -1000, MaxInt32, MinInt32 *)
Lemma tie_validate_params_l :
  forallb (fun p => Bool.eqb (validate_params (fst (fst p)) (snd (fst p))) (snd p)) T_ValidateParams = true.
Proof. vm_compute. reflexivity. Qed.

Lemma tie_default_level_l : effective_level 0 = T_DefaultLevel.
Proof. vm_compute. reflexivity. Qed.

(* ---- config/confighttp ------------------------------------------------------------------------------- *)
Lemma tie_client_validate_l :
  forallb (fun p => Bool.eqb (client_validate {| c_type := fst (fst p); c_level := snd (fst p); c_hdr := None |}) (snd p))
          T_ClientValidate = true.
Proof. vm_compute. reflexivity. Qed.

(* newWriteCloserResetFunc: which writer (by concrete type) a type name gets, or an error *)
Lemma tie_writer_dispatch_l :
  forallb (fun p => optN_eqb (option_map codec_num (writer_codec (fst p))) (snd p)) T_Writer = true.
Proof. vm_compute. reflexivity. Qed.

(* var availableDecoders: which names have a decoder, and which one (by what it decodes) *)
Lemma tie_available_decoders_l :
  forallb (fun p => optN_eqb (option_map slot_num (available (fst p))) (snd p)) T_Available = true /\
  T_AvailableKeys = 6%N.
Proof. vm_compute. split; reflexivity. Qed.

(* httpContentDecompressor: the decoder map it builds, for every singleton enabled list over the probed
   names, the default list, the empty list and lists with names without decoder: every probed name is
   bound to exactly the model's slot (or not bound), and no other key is bound *)
Lemma tie_enabled_map_l :
  forallb (fun p => optN_eqb (option_map slot_num
                                (tget (decoders {| s_max := 0; s_algs := Some (fst (fst p)); s_custom := []; s_mw := 0 |}) (snd (fst p))))
                             (snd p)) T_Enabled = true /\
  T_EnabledUnknownKey = [].
Proof. vm_compute. split; reflexivity. Qed.

(* defaultMaxRequestBodySize, defaultCompressionAlgorithms and the defaulting ToServer applies *)
Lemma tie_server_defaults_l :
  default_max = T_DefaultMax /\ default_algs = T_DefaultAlgs /\ default_algs = T_EffAlgsNil /\
  forallb (fun p => Z.eqb (eff_max {| s_max := fst p; s_algs := None; s_custom := []; s_mw := 0 |}) (snd p)) T_EffMax = true.
Proof. vm_compute. repeat split. Qed.

(* translator T1: newCompressionParams passes the level through unchanged (the model hands c_level on) *)
Lemma tie_new_compression_params_l : forall l : Z, newCompressionParams l = l.
Proof. reflexivity. Qed.
