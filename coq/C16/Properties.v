(* C16/Properties.v — the property theorems, nothing else.  Each is closed by [exact lemma] and
   followed by Print Assumptions.

   The third-party codecs are universally quantified function parameters:
     enc  : codec -> level -> bytes -> bytes            what the library writer produces
     dec  : codec -> stream -> dres                     what the library reader does with a body
     cdec : id -> stream -> dres                        custom decoders (WithDecoder)
   Only [roundtrip*] assume anything about them (the round-trip law [codec_law], validated on the
   real libraries by every correspondence run); the limit, rejection and pass-through theorems hold
   for EVERY behaviour of the decoders, i.e. also for adversarial bodies.                       *)
From Verif Require Import Common.Base C16.Model C16.Proofs C16.Witness Generated.C16Tables Generated.C16Params C16.Tie
  C16.Harness C16.Check C16.ClausesSound C16.Link.
From Coq Require Import String.

(* ---- clause 1a: round trip ----------------------------------------------------------------------
   every body, every compressing type the client accepts (with its writer c), every level the client
   validates, every server whose enabled list contains the type and has no custom decoder under that
   name, no Content-Encoding preset by the caller, body and compressed body within the limit:
   the handler reads exactly the client's bytes, cleanly, with the encoding header removed. *)
Theorem roundtrip : forall enc dec cdec, codec_law enc dec ->
  forall cc sc r c,
  client_validate cc = true -> is_compressed cc.(c_type) = true -> writer_codec cc.(c_type) = Some c ->
  hdr_compatible cc -> r.(q_ce) = [] -> r.(q_raw) = [] -> body_ok r = true ->
  In cc.(c_type) (eff_algs sc) -> ~ In cc.(c_type) (map fst sc.(s_custom)) ->
  let b := body_bytes r.(q_body) in
  let wire := enc c (writer_level c (effective_level cc.(c_level))) b in
  (Z.of_nat (List.length b) <= eff_max sc)%Z ->
  (Z.of_nat (List.length wire) <= eff_max sc)%Z ->
  e2e enc dec cdec cc sc r = Some (Handled [] (-1) (b, E_EOF)).
Proof. exact roundtrip_e2e_full_l. Qed.
Print Assumptions roundtrip.

(* default server settings: every compressing type a configuration file can name (gzip, zlib,
   deflate, snappy, zstd, lz4) has a writer and round-trips *)
Theorem roundtrip_default_server : forall enc dec cdec, codec_law enc dec ->
  forall cc mx r,
  type_known cc.(c_type) = true -> is_compressed cc.(c_type) = true -> client_validate cc = true ->
  hdr_compatible cc -> r.(q_ce) = [] -> r.(q_raw) = [] -> body_ok r = true ->
  let sc := {| s_max := mx; s_algs := None; s_custom := []; s_mw := 0 |} in
  exists c : codec, writer_codec cc.(c_type) = Some c /\
    (let b := body_bytes r.(q_body) in
     let wire := enc c (writer_level c (effective_level cc.(c_level))) b in
     ((Z.of_nat (List.length b) <= eff_max sc)%Z ->
      (Z.of_nat (List.length wire) <= eff_max sc)%Z ->
      e2e enc dec cdec cc sc r = Some (Handled [] (-1) (b, E_EOF)))).
Proof. exact roundtrip_default_full_l. Qed.
Print Assumptions roundtrip_default_server.

(* the two size hypotheses and the no-preset hypothesis of [roundtrip] cannot be dropped: *)
(* (a) the body fits but its compressed form does not: the raw body is cut by the outer interceptor *)
Theorem roundtrip_without_wire_bound_refuted :
  exists enc dec cdec cc sc r, codec_law enc dec /\
    client_validate cc = true /\ is_compressed cc.(c_type) = true /\ cc.(c_hdr) = None /\ r.(q_raw) = [] /\
    r.(q_ce) = [] /\ body_ok r = true /\
    In cc.(c_type) (eff_algs sc) /\ ~ In cc.(c_type) (map fst sc.(s_custom)) /\
    (Z.of_nat (List.length (body_bytes r.(q_body))) <= eff_max sc)%Z /\
    e2e enc dec cdec cc sc r <> Some (Handled [] (-1) (body_bytes r.(q_body), E_EOF)).
Proof. exact wire_bound_needed_l. Qed.
Print Assumptions roundtrip_without_wire_bound_refuted.

(* (b) a Content-Encoding header present with an empty first value: compressed by the client, passed
   through undecoded by the server *)
Theorem roundtrip_empty_preset_value_refuted :
  exists enc dec cdec cc sc r, codec_law enc dec /\
    client_validate cc = true /\ is_compressed cc.(c_type) = true /\ cc.(c_hdr) = None /\ r.(q_raw) = [] /\
    hget r.(q_ce) = s_empty /\ body_ok r = true /\
    In cc.(c_type) (eff_algs sc) /\ ~ In cc.(c_type) (map fst sc.(s_custom)) /\
    (Z.of_nat (List.length (body_bytes r.(q_body))) <= eff_max sc)%Z /\
    (forall c, Z.of_nat (List.length (enc c (-1)%Z (body_bytes r.(q_body)))) <= eff_max sc)%Z /\
    exists ce cl s, e2e enc dec cdec cc sc r = Some (Handled ce cl s) /\ fst s <> body_bytes r.(q_body).
Proof. exact empty_preset_value_l. Qed.
Print Assumptions roundtrip_empty_preset_value_refuted.

(* ---- clause 1b: no content encoding => untouched ------------------------------------------------- *)
Theorem identity_passthrough : forall enc dec cdec cc sc r,
  is_compressed cc.(c_type) = false -> cc.(c_hdr) = None -> r.(q_raw) = [] -> hget r.(q_ce) = s_empty ->
  In s_empty (eff_algs sc) -> ~ In s_empty (map fst sc.(s_custom)) ->
  let b := body_bytes r.(q_body) in
  (Z.of_nat (List.length b) <= eff_max sc)%Z ->
  e2e enc dec cdec cc sc r = Some (Handled r.(q_ce) (if r.(q_stream) then (-1)%Z else blen b) (b, E_EOF)).
Proof. exact identity_e2e_full_l. Qed.
Print Assumptions identity_passthrough.

Theorem identity_passthrough_server : forall dec cdec sc w,
  hget w.(w_ce) = s_empty -> In s_empty (eff_algs sc) -> clookup sc.(s_custom) s_empty = None ->
  (Z.of_nat (List.length w.(w_body)) <= eff_max sc)%Z ->
  server dec cdec sc w = Handled w.(w_ce) w.(w_cl) (w.(w_body), E_EOF).
Proof. exact identity_server_l. Qed.
Print Assumptions identity_passthrough_server.

(* identity is "enabled" by the entry "" of the list; without it the request is refused (clause 2) *)
Theorem identity_passthrough_unconditional_refuted :
  exists enc dec cdec cc sc r, is_compressed cc.(c_type) = false /\ r.(q_ce) = [] /\
    e2e enc dec cdec cc sc r = Some (Rejected 400).
Proof. exact identity_not_enabled_l. Qed.
Print Assumptions identity_passthrough_unconditional_refuted.

(* ---- clause 2: encoding not enabled => 400 before the handler ------------------------------------
   "enabled" = named by the enabled list AND having a decoder (one of the seven names of the default
   list), or registered as a custom decoder.  Every request, every behaviour of the decoders. *)
Theorem unsupported_rejected : forall dec cdec sc w,
  ~ In (hget w.(w_ce)) (map fst sc.(s_custom)) ->
  (~ In (hget w.(w_ce)) (eff_algs sc) \/ ~ In (hget w.(w_ce)) default_algs) ->
  server dec cdec sc w = Rejected 400.
Proof. exact unsupported_rejected_l. Qed.
Print Assumptions unsupported_rejected.

(* in particular a name that the enabled list contains but that has no decoder (br, identity, GZIP ...):
   rejected with 400 before the handler runs — not a panic (the defect repaired in /repo adaa5d5f4) *)
Theorem enabled_name_without_decoder_rejected : forall dec cdec sc w,
  ~ In (hget w.(w_ce)) (map fst sc.(s_custom)) -> ~ In (hget w.(w_ce)) default_algs ->
  server dec cdec sc w = Rejected 400.
Proof. exact (fun dec cdec sc w H1 H2 => unsupported_rejected_l dec cdec sc w H1 (or_intror H2)). Qed.
Print Assumptions enabled_name_without_decoder_rejected.

(* the handler runs only if the encoding has a decoder, and then reads a prefix of what that decoder
   delivers (of the raw body for a (nil, nil) decoder) *)
Theorem handler_runs_only_behind_a_decoder : forall dec cdec sc w ce cl s,
  server dec cdec sc w = Handled ce cl s ->
  exists sl, tget (decoders sc) (hget (w_ce w)) = Some sl /\
    let body1 := max_bytes (eff_max sc) (w_body w, E_EOF) in
    match run_slot dec cdec sl body1 with
    | Some DNone => s = body1 /\ ce = w_ce w
    | Some (DStream s') => s = max_bytes (eff_max sc) s' /\ ce = []
    | _ => False
    end.
Proof. exact handler_reads_prefix_l. Qed.
Print Assumptions handler_runs_only_behind_a_decoder.

(* ... more precisely only behind a non-nil custom decoder, or for a name that is both in the enabled
   list and one of the seven names with a decoder *)
Theorem handler_runs_only_for_enabled_available_or_custom : forall dec cdec sc w ce cl s,
  server dec cdec sc w = Handled ce cl s ->
  (exists i, clookup sc.(s_custom) (hget (w_ce w)) = Some (Some i)) \/
  (clookup sc.(s_custom) (hget (w_ce w)) = None /\ In (hget (w_ce w)) (eff_algs sc) /\ In (hget (w_ce w)) default_algs).
Proof. exact handler_decoder_origin_l. Qed.
Print Assumptions handler_runs_only_for_enabled_available_or_custom.

Theorem decoder_table : forall sc k,
  tget (decoders sc) k =
  match clookup sc.(s_custom) k with
  | Some i => Some (SCustom i)
  | None => if str_mem k (eff_algs sc) then slot_of_name k else None
  end.
Proof. exact tget_decoders. Qed.
Print Assumptions decoder_table.

Theorem names_with_a_decoder : forall k, slot_of_name k = None <-> ~ In k default_algs.
Proof. exact slot_of_name_none. Qed.
Print Assumptions names_with_a_decoder.

Theorem decoder_init_error_rejected : forall dec cdec sc w c,
  clookup sc.(s_custom) (hget (w_ce w)) = None -> In (hget (w_ce w)) (eff_algs sc) ->
  slot_of_name (hget (w_ce w)) = Some (SCodec c) ->
  dec c (max_bytes (eff_max sc) (w_body w, E_EOF)) = DInitErr ->
  server dec cdec sc w = Rejected 400.
Proof. exact init_error_rejected_l. Qed.
Print Assumptions decoder_init_error_rejected.

(* What can still make ServeHTTP call a nil func: exactly a custom decoder registered as nil,
   WithDecoder(key, nil) (an API misuse; the option stores the func verbatim), selected by the request's
   encoding.  No enabled list, header or body can. *)
Theorem server_panics_iff_nil_custom_decoder : forall dec cdec sc w,
  server dec cdec sc w = Panicked <-> clookup sc.(s_custom) (hget (w_ce w)) = Some None.
Proof. exact panics_iff_nil_custom_l. Qed.
Print Assumptions server_panics_iff_nil_custom_decoder.

Theorem server_never_panics : forall dec cdec sc w,
  (forall k, ~ In (k, None) sc.(s_custom)) -> server dec cdec sc w <> Panicked.
Proof. exact no_panic_without_nil_custom_l. Qed.
Print Assumptions server_never_panics.

(* ---- clause 3: the limit, counted after decompression --------------------------------------------
   EVERY server configuration, EVERY request (any header, any body), EVERY behaviour of the codecs
   and of the custom decoders: what the handler can read never exceeds the effective limit. *)
Theorem limit_holds : forall dec cdec sc w ce cl s,
  server dec cdec sc w = Handled ce cl s -> (Z.of_nat (List.length (fst s)) <= eff_max sc)%Z.
Proof. exact limit_holds_l. Qed.
Print Assumptions limit_holds.

(* ... in particular for whatever any client configuration sends *)
Theorem limit_holds_end_to_end : forall enc dec cdec cc sc r ce cl s,
  e2e enc dec cdec cc sc r = Some (Handled ce cl s) -> (Z.of_nat (List.length (fst s)) <= eff_max sc)%Z.
Proof. exact limit_holds_e2e_full_l. Qed.
Print Assumptions limit_holds_end_to_end.

Theorem limit_is_positive : forall sc, (0 < eff_max sc)%Z.
Proof. exact eff_max_pos. Qed.
Print Assumptions limit_is_positive.

(* the limit that is enforced — on the raw body AND after decompression — is the configured one when it
   is positive and 20 MiB when max_request_body_size is unset, zero or negative (the default config) *)
Theorem effective_limit : forall sc,
  ((s_max sc <= 0)%Z -> eff_max sc = (20 * 1024 * 1024)%Z) /\ ((0 < s_max sc)%Z -> eff_max sc = s_max sc).
Proof. exact (fun sc => conj (eff_max_default sc) (eff_max_explicit sc)). Qed.
Print Assumptions effective_limit.

Theorem default_limit_holds : forall dec cdec sc w ce cl s,
  (s_max sc <= 0)%Z -> server dec cdec sc w = Handled ce cl s ->
  (Z.of_nat (List.length (fst s)) <= 20 * 1024 * 1024)%Z.
Proof. exact default_limit_holds_l. Qed.
Print Assumptions default_limit_holds.

(* a body whose decoded size exceeds the limit: the handler's read fails with "too large" after
   exactly L bytes (the first L bytes of the decoded stream) *)
Theorem limit_exact_decoded : forall dec cdec sc w c d e,
  clookup sc.(s_custom) (hget (w_ce w)) = None -> In (hget (w_ce w)) (eff_algs sc) ->
  slot_of_name (hget (w_ce w)) = Some (SCodec c) ->
  dec c (max_bytes (eff_max sc) (w_body w, E_EOF)) = DStream (d, e) ->
  (Z.of_nat (List.length d) > eff_max sc)%Z ->
  server dec cdec sc w = Handled [] (-1) (firstn (Z.to_nat (eff_max sc)) d, E_TOOLARGE) /\
  Z.of_nat (List.length (firstn (Z.to_nat (eff_max sc)) d)) = eff_max sc.
Proof. exact limit_exact_decoded_l. Qed.
Print Assumptions limit_exact_decoded.

(* the uncompressed path is bounded by the outer interceptor *)
Theorem limit_exact_identity : forall dec cdec sc w,
  clookup sc.(s_custom) (hget (w_ce w)) = None ->
  hget (w_ce w) = s_empty -> In s_empty (eff_algs sc) ->
  (Z.of_nat (List.length (w_body w)) > eff_max sc)%Z ->
  server dec cdec sc w = Handled (w_ce w) (w_cl w)
                                 (firstn (Z.to_nat (eff_max sc)) (w_body w), E_TOOLARGE) /\
  Z.of_nat (List.length (firstn (Z.to_nat (eff_max sc)) (w_body w))) = eff_max sc.
Proof. exact limit_exact_identity_l. Qed.
Print Assumptions limit_exact_identity.

(* The length a request declares (Content-Length, or none: Transfer-Encoding chunked, w_cl = -1) is an
   independent input of the server model, so [limit_holds], [limit_exact_*], [unsupported_rejected]
   above hold for every declared length.  Explicitly: changing only the declared length changes
   nothing but the ContentLength the handler is shown — not the outcome, not the header, not one
   byte of what the handler can read, not where its read fails. *)
Theorem server_ignores_declared_length : forall dec cdec sc w cl',
  strip_cl (server dec cdec sc (set_cl w cl')) = strip_cl (server dec cdec sc w).
Proof. exact server_ignores_declared_length_l. Qed.
Print Assumptions server_ignores_declared_length.

(* ---- the client ------------------------------------------------------------------------------------ *)
Theorem preset_encoding_not_recompressed : forall enc cc r w,
  hget r.(q_ce) <> s_empty -> client enc cc r = CSent w ->
  w = on_wire cc r (plain r) /\ w.(w_body) = body_bytes r.(q_body).
Proof. exact preset_not_recompressed_full_l. Qed.
Print Assumptions preset_encoding_not_recompressed.

Theorem preset_encoding_sent_as_is : forall enc cc r,
  hget r.(q_ce) <> s_empty -> client_rt enc cc r = CRefused \/ client_rt enc cc r = CSent (plain r).
Proof. exact preset_sent_l. Qed.
Print Assumptions preset_encoding_sent_as_is.

(* ---- the client chain as ToClient builds it: compressor, THEN the headers round tripper ------------
   [client] is the whole chain (compressRoundTripper ; headerRoundTripper ; the receiver's
   canonicalisation of header keys); [client_rt] the chain up to and including the compressor.
   A Content-Encoding configured under `headers:` (any spelling of the key) replaces what the compressor
   or the caller put there: the server sees exactly that value, over whatever body the compressor
   produced. *)
Theorem configured_content_encoding_header_wins : forall enc cc r w v,
  cc.(c_hdr) = Some v -> client enc cc r = CSent w -> w.(w_ce) = v :: r.(q_raw).
Proof. exact configured_header_wins_l. Qed.
Print Assumptions configured_content_encoding_header_wins.

Theorem headers_round_tripper_keeps_body : forall enc cc r w,
  client enc cc r = CSent w ->
  exists w0, client_rt enc cc r = CSent w0 /\ w.(w_body) = w0.(w_body) /\ w.(w_cl) = w0.(w_cl) /\
             w.(w_rewind) = w0.(w_rewind) /\ w.(w_ce) = headers_rt cc w0.(w_ce) ++ r.(q_raw).
Proof. exact chain_keeps_body_l. Qed.
Print Assumptions headers_round_tripper_keeps_body.

(* hence a configured Content-Encoding other than the compression type breaks the round trip although
   every other hypothesis of [roundtrip] holds (witness: `headers: {Content-Encoding: ""}` with gzip:
   the handler reads the COMPRESSED bytes).  A configuration-validation gap: ClientConfig.Validate
   accepts it. *)
Theorem roundtrip_with_configured_encoding_header_refuted :
  exists enc dec cdec cc sc r c, codec_law enc dec /\
    client_validate cc = true /\ is_compressed cc.(c_type) = true /\ writer_codec cc.(c_type) = Some c /\
    cc.(c_hdr) <> None /\ r.(q_ce) = [] /\ r.(q_raw) = [] /\ body_ok r = true /\
    In cc.(c_type) (eff_algs sc) /\ ~ In cc.(c_type) (map fst sc.(s_custom)) /\
    (Z.of_nat (List.length (body_bytes r.(q_body))) <= eff_max sc)%Z /\
    (forall l, Z.of_nat (List.length (enc c l (body_bytes r.(q_body)))) <= eff_max sc)%Z /\
    exists ce cl s, e2e enc dec cdec cc sc r = Some (Handled ce cl s) /\ fst s <> body_bytes r.(q_body).
Proof. exact configured_header_breaks_roundtrip_l. Qed.
Print Assumptions roundtrip_with_configured_encoding_header_refuted.

(* a Content-Encoding that the caller stored under a non-canonical spelling of the key (header map entry
   "content-encoding") is invisible to the compressor's Header.Get: the body is compressed AGAIN, and the
   receiver — which canonicalises keys — sees the compressor's value first *)
Theorem noncanonical_preset_is_recompressed : forall enc cc r c,
  client_validate cc = true -> is_compressed cc.(c_type) = true -> writer_codec cc.(c_type) = Some c ->
  cc.(c_hdr) = None -> r.(q_ce) = [] -> body_ok r = true ->
  let buf := enc c (writer_level c (effective_level cc.(c_level))) (body_bytes r.(q_body)) in
  client enc cc r = CSent {| w_ce := cc.(c_type) :: r.(q_raw); w_body := buf; w_cl := blen buf; w_rewind := Some buf |}.
Proof. exact noncanonical_preset_recompressed_l. Qed.
Print Assumptions noncanonical_preset_is_recompressed.

(* the pattern of Read calls by which the caller's body delivers its bytes — all at once then (0, EOF), the
   last data together with io.EOF, one byte per call, short reads with zero-byte reads in between — is an
   independent input of the client model: the request that is sent (and hence everything the handler reads,
   [roundtrip]) does not depend on it *)
Theorem client_ignores_read_pattern : forall enc cc r k, client enc cc (set_reads r k) = client enc cc r.
Proof. exact client_ignores_read_pattern_l. Qed.
Print Assumptions client_ignores_read_pattern.

Theorem client_compresses : forall enc cc r c,
  client_validate cc = true -> is_compressed cc.(c_type) = true -> writer_codec cc.(c_type) = Some c ->
  hget r.(q_ce) = s_empty -> body_ok r = true ->
  let buf := enc c (writer_level c (effective_level cc.(c_level))) (body_bytes r.(q_body)) in
  client_rt enc cc r = CSent {| w_ce := r.(q_ce) ++ [cc.(c_type)]; w_body := buf; w_cl := blen buf; w_rewind := Some buf |}.
Proof. exact client_compresses_l. Qed.
Print Assumptions client_compresses.

(* a body that cannot be read to the end or closed: RoundTrip returns the error, nothing is sent *)
Theorem client_body_error_sends_nothing : forall enc cc r c,
  client_validate cc = true -> is_compressed cc.(c_type) = true -> writer_codec cc.(c_type) = Some c ->
  hget r.(q_ce) = s_empty -> body_ok r = false -> client enc cc r = CError.
Proof. exact client_body_error_full_l. Qed.
Print Assumptions client_body_error_sends_nothing.

(* ---- transport-level replay (net/http rewinds the body with GetBody and sends the request again:
   reused connection dropped by the server, HTTP/2 retry, redirect) ------------------------------------
   Whatever the client sends, IF it can be replayed the replay is the very same request; a compressed
   request can always be replayed; hence the round trip holds under any number of replays. *)
Theorem replay_sends_the_same_request : forall enc cc r w w',
  client enc cc r = CSent w -> replay w = Some w' -> w' = w.
Proof. exact replay_same_request_full_l. Qed.
Print Assumptions replay_sends_the_same_request.

Theorem compressed_request_is_replayable : forall enc cc r c w,
  client_validate cc = true -> is_compressed cc.(c_type) = true -> writer_codec cc.(c_type) = Some c ->
  hget r.(q_ce) = s_empty -> client enc cc r = CSent w -> replay w = Some w.
Proof. exact compressed_request_replayable_full_l. Qed.
Print Assumptions compressed_request_is_replayable.

Theorem roundtrip_under_replay : forall enc dec cdec, codec_law enc dec ->
  forall cc sc r c,
  client_validate cc = true -> is_compressed cc.(c_type) = true -> writer_codec cc.(c_type) = Some c ->
  hdr_compatible cc -> r.(q_ce) = [] -> r.(q_raw) = [] -> body_ok r = true ->
  In cc.(c_type) (eff_algs sc) -> ~ In cc.(c_type) (map fst sc.(s_custom)) ->
  let b := body_bytes r.(q_body) in
  let wire := enc c (writer_level c (effective_level cc.(c_level))) b in
  (Z.of_nat (List.length b) <= eff_max sc)%Z ->
  (Z.of_nat (List.length wire) <= eff_max sc)%Z ->
  exists w, client enc cc r = CSent w /\ replay w = Some w /\ server dec cdec sc w = Handled [] (-1) (b, E_EOF).
Proof. exact roundtrip_full_l. Qed.
Print Assumptions roundtrip_under_replay.

Theorem writer_and_reader_agree : forall t c, writer_codec t = Some c -> slot_of_name t = Some (SCodec c).
Proof. exact writer_reader_agree. Qed.
Print Assumptions writer_and_reader_agree.

(* every validated gzip / zlib / deflate configuration reaches the library with a level it accepts *)
Theorem validated_level_accepted_by_flate : forall cc c,
  client_validate cc = true -> is_compressed cc.(c_type) = true -> writer_codec cc.(c_type) = Some c ->
  (c = CGzip \/ c = CZlib) ->
  (-2 <= writer_level c (effective_level cc.(c_level)) <= 9)%Z.
Proof. exact validated_level_accepted. Qed.
Print Assumptions validated_level_accepted_by_flate.

(* the raw body any decoder is given is itself cut at the limit by the outer interceptor *)
Theorem raw_body_bounded : forall sc (w : wreq),
  (Z.of_nat (List.length (fst (max_bytes (eff_max sc) (w_body w, E_EOF)))) <= eff_max sc)%Z.
Proof. exact (fun sc w => max_bytes_len (eff_max sc) (w_body w, E_EOF) (Z.lt_le_incl _ _ (eff_max_pos sc))). Qed.
Print Assumptions raw_body_bounded.

(* ---- the size-only model used for the large-body correspondence cases is the model --------------- *)
Theorem lserver_sound : forall dec cdec sc w,
  let body1 := max_bytes (eff_max sc) (w_body w, E_EOF) in
  loabs (server dec cdec sc w) =
  lserver sc (fun c => ldabs (dec c body1)) (fun i => ldabs (cdec i body1)) (w_ce w) (Z.of_nat (List.length (w_body w))) (w_cl w).
Proof. exact lserver_sound_l. Qed.
Print Assumptions lserver_sound.

(* ==== every handler BEHIND the server middleware: the configured `middlewares` and the innermost handler ===
   ToServer puts the decompressor outside the configured middlewares; [server_views] lists the handlers that
   run, in order, with what each is given. *)
Theorem every_handler_is_given_the_handlers_view : forall dec cdec sc w i v,
  In (i, v) (server_views dec cdec sc w) -> exists ce cl s, server dec cdec sc w = Handled ce cl s /\ v = (ce, cl, s).
Proof. exact views_are_handler_view_l. Qed.
Print Assumptions every_handler_is_given_the_handlers_view.

Theorem limit_holds_for_every_handler : forall dec cdec sc w i ce cl s,
  In (i, (ce, cl, s)) (server_views dec cdec sc w) -> (Z.of_nat (List.length (fst s)) <= eff_max sc)%Z.
Proof. exact limit_holds_every_handler_l. Qed.
Print Assumptions limit_holds_for_every_handler.

Theorem rejected_request_reaches_no_handler : forall dec cdec sc w,
  (forall ce cl s, server dec cdec sc w <> Handled ce cl s) -> server_views dec cdec sc w = [].
Proof. exact rejected_reaches_no_handler_l. Qed.
Print Assumptions rejected_request_reaches_no_handler.

Theorem middlewares_run_in_order_before_the_handler : forall dec cdec sc w ce cl s,
  server dec cdec sc w = Handled ce cl s ->
  map fst (server_views dec cdec sc w) = map N.of_nat (seq 1 sc.(s_mw)) ++ [0%N] /\
  Forall (fun p => snd p = (ce, cl, s)) (server_views dec cdec sc w).
Proof. exact views_order_l. Qed.
Print Assumptions middlewares_run_in_order_before_the_handler.

Theorem roundtrip_for_every_handler : forall enc dec cdec, codec_law enc dec ->
  forall cc sc r c,
  client_validate cc = true -> is_compressed cc.(c_type) = true -> writer_codec cc.(c_type) = Some c ->
  hdr_compatible cc -> r.(q_ce) = [] -> r.(q_raw) = [] -> body_ok r = true ->
  In cc.(c_type) (eff_algs sc) -> ~ In cc.(c_type) (map fst sc.(s_custom)) ->
  let b := body_bytes r.(q_body) in
  let wire := enc c (writer_level c (effective_level cc.(c_level))) b in
  (Z.of_nat (List.length b) <= eff_max sc)%Z ->
  (Z.of_nat (List.length wire) <= eff_max sc)%Z ->
  exists w, client enc cc r = CSent w /\
    map fst (server_views dec cdec sc w) = map N.of_nat (seq 1 sc.(s_mw)) ++ [0%N] /\
    Forall (fun p => snd p = ([], (-1)%Z, (b, E_EOF))) (server_views dec cdec sc w).
Proof. exact roundtrip_every_handler_l. Qed.
Print Assumptions roundtrip_for_every_handler.

(* ==== unbounded histories: any sequence of requests through one client and one server =================== *)
Theorem roundtrip_history : forall enc dec cdec, codec_law enc dec ->
  forall cc sc c rs,
  client_validate cc = true -> is_compressed cc.(c_type) = true -> writer_codec cc.(c_type) = Some c ->
  hdr_compatible cc -> In cc.(c_type) (eff_algs sc) -> ~ In cc.(c_type) (map fst sc.(s_custom)) ->
  Forall (fun r => r.(q_ce) = [] /\ r.(q_raw) = [] /\ body_ok r = true /\
                   (Z.of_nat (List.length (body_bytes r.(q_body))) <= eff_max sc)%Z /\
                   (Z.of_nat (List.length (enc c (writer_level c (effective_level cc.(c_level))) (body_bytes r.(q_body)))) <= eff_max sc)%Z) rs ->
  run_history enc dec cdec cc sc rs = map (fun r => Some (Handled [] (-1) (body_bytes r.(q_body), E_EOF))) rs.
Proof. exact roundtrip_history_l. Qed.
Print Assumptions roundtrip_history.

Theorem limit_holds_history : forall enc dec cdec cc sc rs ce cl s,
  In (Some (Handled ce cl s)) (run_history enc dec cdec cc sc rs) -> (Z.of_nat (List.length (fst s)) <= eff_max sc)%Z.
Proof. exact limit_holds_history_l. Qed.
Print Assumptions limit_holds_history.

(* ==== which inputs the real client refuses (the hypotheses client_validate / writer_codec of the theorems
   above are exactly "not refused") ========================================================================= *)
Theorem client_refused_iff : forall enc cc r,
  client enc cc r = CRefused <->
  (client_validate cc = false \/ (is_compressed cc.(c_type) = true /\ writer_codec cc.(c_type) = None)).
Proof. exact client_refused_iff_l. Qed.
Print Assumptions client_refused_iff.

Theorem known_validated_type_not_refused : forall enc cc r,
  type_known cc.(c_type) = true -> client_validate cc = true -> client enc cc r <> CRefused.
Proof. exact known_validated_not_refused_l. Qed.
Print Assumptions known_validated_type_not_refused.

(* ==== the decidable clause checker run on every observed case is sound and complete ====================== *)
Theorem clauses_sound : forall e, core_ok e = true <-> Clauses e.
Proof. exact core_ok_sound. Qed.
Print Assumptions clauses_sound.

Theorem prop_ok_implies_clauses : forall c e, eobs_of c = Some e -> prop_ok c = true -> Clauses e.
Proof. exact prop_ok_core. Qed.
Print Assumptions prop_ok_implies_clauses.

Theorem violated_clause_is_reported : forall c e, eobs_of c = Some e -> ~ Clauses e -> prop_ok c = false.
Proof. exact prop_ok_complete. Qed.
Print Assumptions violated_clause_is_reported.

(* ==== THE MODEL PASSES THE CLAUSE CHECKER ===================================================================
   [observe] builds from the model's own run of a request the observation record the harness builds from the
   implementation's run.  Every check of C16/Check.v holds on it: the checker never demands more than the
   model delivers, and its verdicts and the theorems above are statements about the same thing. *)
Theorem model_passes_checker : forall enc dec cdec, codec_law enc dec ->
  forall cc sc r, eobs_ok (observe enc dec cdec cc sc r) = true.
Proof. exact model_passes_checker_l. Qed.
Print Assumptions model_passes_checker.

(* seven of the eight checks need nothing from the codecs: they hold for every codec / custom decoder behaviour *)
Theorem model_passes_middleware_checks : forall enc dec cdec cc sc r,
  let e := observe enc dec cdec cc sc r in
  c_passthrough e = true /\ c_unsupported e = true /\ c_limit e = true /\ c_decoded e = true /\
  c_untouched e = true /\ c_nopanic e = true /\ c_views e = true.
Proof. exact model_passes_middleware_checks_l. Qed.
Print Assumptions model_passes_middleware_checks.

Theorem model_satisfies_clauses : forall enc dec cdec, codec_law enc dec ->
  forall cc sc r, Clauses (observe enc dec cdec cc sc r).
Proof. exact model_satisfies_clauses_l. Qed.
Print Assumptions model_satisfies_clauses.

Theorem model_history_passes_checker : forall enc dec cdec, codec_law enc dec ->
  forall cc sc rs, forallb (fun r => eobs_ok (observe enc dec cdec cc sc r)) rs = true.
Proof. exact model_history_passes_checker_l. Qed.
Print Assumptions model_history_passes_checker.

(* ==== TIE OBLIGATIONS: the hand-written definitions of Model.v equal what the CURRENT Go source says ====
   Generated/C16Tables.v is rewritten on every run by running the current code on the whole (finite, or
   windowed for the level) domain of each function; Generated/C16Params.v by translator T1. *)
Theorem tie_is_compressed :
  forallb (fun p => Bool.eqb (is_compressed (fst p)) (snd p)) T_IsCompressed = true.
Proof. exact tie_is_compressed_l. Qed.
Print Assumptions tie_is_compressed.

Theorem tie_unmarshal_text :
  forallb (fun p => Bool.eqb (type_known (fst p)) (snd p)) T_Unmarshal = true.
Proof. exact tie_unmarshal_text_l. Qed.
Print Assumptions tie_unmarshal_text.

Theorem tie_validate_params :
  forallb (fun p => Bool.eqb (validate_params (fst (fst p)) (snd (fst p))) (snd p)) T_ValidateParams = true.
Proof. exact tie_validate_params_l. Qed.
Print Assumptions tie_validate_params.

Theorem tie_default_level : effective_level 0 = T_DefaultLevel.
Proof. exact tie_default_level_l. Qed.
Print Assumptions tie_default_level.

Theorem tie_client_validate :
  forallb (fun p => Bool.eqb (client_validate {| c_type := fst (fst p); c_level := snd (fst p); c_hdr := None |}) (snd p))
          T_ClientValidate = true.
Proof. exact tie_client_validate_l. Qed.
Print Assumptions tie_client_validate.

Theorem tie_writer_dispatch :
  forallb (fun p => optN_eqb (option_map codec_num (writer_codec (fst p))) (snd p)) T_Writer = true.
Proof. exact tie_writer_dispatch_l. Qed.
Print Assumptions tie_writer_dispatch.

Theorem tie_available_decoders :
  forallb (fun p => optN_eqb (option_map slot_num (available (fst p))) (snd p)) T_Available = true /\
  T_AvailableKeys = 6%N.
Proof. exact tie_available_decoders_l. Qed.
Print Assumptions tie_available_decoders.

Theorem tie_enabled_map :
  forallb (fun p => optN_eqb (option_map slot_num
                                (tget (decoders {| s_max := 0; s_algs := Some (fst (fst p)); s_custom := []; s_mw := 0 |}) (snd (fst p))))
                             (snd p)) T_Enabled = true /\
  T_EnabledUnknownKey = [].
Proof. exact tie_enabled_map_l. Qed.
Print Assumptions tie_enabled_map.

Theorem tie_server_defaults :
  default_max = T_DefaultMax /\ default_algs = T_DefaultAlgs /\ default_algs = T_EffAlgsNil /\
  forallb (fun p => Z.eqb (eff_max {| s_max := fst p; s_algs := None; s_custom := []; s_mw := 0 |}) (snd p)) T_EffMax = true.
Proof. exact tie_server_defaults_l. Qed.
Print Assumptions tie_server_defaults.

Theorem tie_new_compression_params : forall l : Z, newCompressionParams l = l.
Proof. exact tie_new_compression_params_l. Qed.
Print Assumptions tie_new_compression_params.
