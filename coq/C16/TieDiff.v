(* C16/TieDiff.v — failing-input search for a broken tie obligation (executable, no proofs): the
   arguments of each dumped table on which the hand-written definition of Model.v and the table
   regenerated from the current Go source DIFFER.  The check driver evaluates [tie_diffs] when an
   obligation of C16/Tie.v no longer proves, and runs the implementation on requests built around
   those arguments (harness/C16/compress_test.go, VERIF_C16_FOCUS).
   Rows: (tag, name, level-or-limit, list)  tag 1 = (type, level) of ValidateParams / ClientConfig.Validate,
   2 = a type name (IsCompressed, UnmarshalText, writer dispatch), 3 = (enabled list, encoding name),
   4 = a configured limit, 5 = the default list itself. *)
From Verif Require Import Common.Base C16.Model Generated.C16Tables.
From Coq Require Import String.

Definition codec_num' (c : codec) : N :=
  match c with CGzip => 0 | CZlib => 1 | CZstd => 2 | CSnappy => 3 | CLz4 => 4 end.
Definition slot_num' (s : slot) : N :=
  match s with SIdent => 9 | SCodec c => codec_num' c | SNil => 98 | SCustom _ => 96 end.
Definition oN_eqb := option_eqb N.eqb.
Definition row := (N * string * Z * list string)%type.

Definition tie_diffs : list row :=
  map (fun p => (1%N, fst (fst p), snd (fst p), []))
      (filter (fun p => negb (Bool.eqb (validate_params (fst (fst p)) (snd (fst p))) (snd p))) T_ValidateParams)
  ++ map (fun p => (1%N, fst (fst p), snd (fst p), []))
      (filter (fun p => negb (Bool.eqb (client_validate {| c_type := fst (fst p); c_level := snd (fst p); c_hdr := None |}) (snd p)))
              T_ClientValidate)
  ++ map (fun p => (2%N, fst p, 0%Z, []))
      (filter (fun p => negb (Bool.eqb (is_compressed (fst p)) (snd p))) T_IsCompressed
       ++ filter (fun p => negb (Bool.eqb (type_known (fst p)) (snd p))) T_Unmarshal)
  ++ map (fun p => (2%N, fst p, 0%Z, []))
      (filter (fun p => negb (oN_eqb (option_map codec_num' (writer_codec (fst p))) (snd p))) T_Writer)
  ++ map (fun p => (3%N, fst p, 0%Z, [fst p]))
      (filter (fun p => negb (oN_eqb (option_map slot_num' (available (fst p))) (snd p))) T_Available)
  ++ map (fun p => (3%N, snd (fst p), 0%Z, fst (fst p)))
      (filter (fun p => negb (oN_eqb (option_map slot_num'
                                        (tget (decoders {| s_max := 0; s_algs := Some (fst (fst p)); s_custom := []; s_mw := 0 |}) (snd (fst p))))
                                     (snd p))) T_Enabled)
  ++ map (fun p => (4%N, ""%string, fst p, []))
      (filter (fun p => negb (Z.eqb (eff_max {| s_max := fst p; s_algs := None; s_custom := []; s_mw := 0 |}) (snd p))) T_EffMax)
  ++ (if Z.eqb default_max T_DefaultMax then [] else [(4%N, ""%string, 0%Z, [])])
  ++ (if list_eqb String.eqb default_algs T_DefaultAlgs && list_eqb String.eqb default_algs T_EffAlgsNil then []
      else [(5%N, ""%string, 0%Z, T_EffAlgsNil)]).
