(* C16/Model.v — executable model of the HTTP body compression middleware of
   config/confighttp (opentelemetry-collector, pinned tree).  Gallina only, no proofs.

   Written after the Go code, function by function:
     config/configcompression/compressiontype.go   IsCompressed, UnmarshalText, ValidateParams
     config/confighttp/confighttp.go               ClientConfig.Validate, ClientConfig.ToClient (compression
                                                   part: level defaulting, newCompressRoundTripper),
                                                   ServerConfig.ToServer (limit / algorithm-list defaulting,
                                                   order decompressor inside maxRequestBodySizeInterceptor),
                                                   maxRequestBodySizeInterceptor
     config/confighttp/compressor.go               newWriteCloserResetFunc (type -> writer dispatch), compress
     config/confighttp/compression.go              compressRoundTripper.RoundTrip, availableDecoders,
                                                   httpContentDecompressor, decompressor.ServeHTTP, newBodyReader
     net/http                                      MaxBytesReader as "delivers at most n bytes, then fails"

   The codecs themselves (compress/gzip, compress/zlib, klauspost zstd, golang/snappy framed,
   pierrec lz4) are third-party: they are the Section variables [enc] / [dec]; custom decoders
   registered with WithDecoder are the Section variable [cdec].                                  *)
From Verif Require Import Common.Base.
From Coq Require Import String.

Definition bytes := list N.

(* the five writer/reader implementations the package links *)
Inductive codec := CGzip | CZlib | CZstd | CSnappy | CLz4.

(* A body as seen by whoever reads it to the end: the bytes delivered, then how the stream ends:
   0 = io.EOF (clean), 1 = *http.MaxBytesError ("request body too large"), 2 = any other error. *)
Definition stream := (bytes * N)%type.
Definition E_EOF : N := 0.
Definition E_TOOLARGE : N := 1.
Definition E_OTHER : N := 2.

(* result of a decoder constructor  func(body io.ReadCloser) (io.ReadCloser, error):
   an error | (nil, nil) "not a compressed payload" | a reader, described by what it delivers *)
Inductive dres := DInitErr | DNone | DStream (s : stream).

(* ---- strings --------------------------------------------------------------------------------- *)
Definition s_empty : string := ""%string.
Definition s_none : string := "none"%string.
Definition s_gzip : string := "gzip"%string.
Definition s_zlib : string := "zlib"%string.
Definition s_deflate : string := "deflate"%string.
Definition s_snappy : string := "snappy"%string.
Definition s_zstd : string := "zstd"%string.
Definition s_lz4 : string := "lz4"%string.

Definition str_mem (s : string) (l : list string) : bool := existsb (String.eqb s) l.

(* ==================================================================================================
   config/configcompression/compressiontype.go
   ================================================================================================== *)

(* func (ct *Type) IsCompressed() bool *)
Definition is_compressed (t : string) : bool :=
  negb (String.eqb t s_empty) && negb (String.eqb t s_none).

(* func (ct *Type) UnmarshalText: the names a configuration file may contain *)
Definition type_known (t : string) : bool :=
  str_mem t [s_gzip; s_zlib; s_deflate; s_snappy; s_zstd; s_lz4; s_none; s_empty].

(* zlib.DefaultCompression = -1, HuffmanOnly = -2, NoCompression = 0, BestSpeed = 1, BestCompression = 9 *)
Definition flate_level_ok (l : Z) : bool :=
  (Z.eqb l (-1) || Z.eqb l (-2) || Z.eqb l 0 || (Z.leb 1 l && Z.leb l 9))%bool.

(* func (ct *Type) ValidateParams(p CompressionParams) error  — true = nil *)
Definition validate_params (t : string) (l : Z) : bool :=
  if (str_mem t [s_gzip; s_zlib; s_deflate] && flate_level_ok l)%bool then true
  else if String.eqb t s_zstd then true
  else Z.eqb l 0.

(* ==================================================================================================
   client side
   ================================================================================================== *)
(* c_hdr: ClientConfig.Headers restricted to what matters here: the value configured under a key that
   canonicalises to Content-Encoding (any spelling: http.Header.Set canonicalises the key), None if
   there is none.  (Two keys with different spellings of Content-Encoding would be applied in Go map
   order: not modelled.) *)
Record ccfg := { c_type : string; c_level : Z; c_hdr : option string }.

(* func (hcs *ClientConfig) Validate() error *)
Definition client_validate (cc : ccfg) : bool :=
  if is_compressed cc.(c_type) then validate_params cc.(c_type) cc.(c_level) else true.

(* ToClient: "If the compression level is not set, use the default level."  (for every type) *)
Definition effective_level (l : Z) : Z := if Z.eqb l 0 then (-1)%Z else l.

(* compressor.go newWriteCloserResetFunc: switch compressionType *)
Definition writer_codec (t : string) : option codec :=
  if String.eqb t s_gzip then Some CGzip
  else if String.eqb t s_snappy then Some CSnappy
  else if String.eqb t s_zstd then Some CZstd
  else if (String.eqb t s_zlib || String.eqb t s_deflate)%bool then Some CZlib
  else if String.eqb t s_lz4 then Some CLz4
  else None.                                  (* errors.New("unsupported compression type") *)

(* the level reaches the writer only for gzip / zlib / zstd; snappy and lz4 ignore the params *)
Definition writer_level (c : codec) (l : Z) : Z :=
  match c with CGzip | CZlib | CZstd => l | CSnappy | CLz4 => 0%Z end.

(* a request as handed to the client's transport: the values of the Content-Encoding header
   (in order; [] = header absent) and the body (None = nil Body).  The two failure flags matter only
   on the compressing path (compressor.compress reads and closes the body itself); how net/http
   treats a failing body of an uncompressed request is outside the model. *)
Record creq := { q_ce : list string; q_body : option bytes;
                 (* values the caller stored under a NON-canonical spelling of the key (e.g. header map
                    entry "content-encoding"): invisible to Header.Get/Set/Add, canonicalised only by the
                    receiving side, after the canonical key's values (net/http writes keys sorted) *)
                 q_raw : list string;
                 q_stream : bool;   (* the body is an opaque reader: no length declared (sent chunked) *)
                 (* HOW the body's Read calls deliver the bytes (0 = all, then (0, EOF); 1 = the last data
                    TOGETHER with io.EOF; 2 = one byte per call; 3 = short reads with (0, nil) reads in
                    between; 4 = fixed chunks, the last with EOF): every one is legal for an io.Reader, and
                    an independent input here — nothing may depend on it *)
                 q_reads : N;
                 q_rerr : bool;     (* the body's Read fails after delivering the bytes *)
                 q_cerr : bool }.   (* the body's Close fails *)
(* a request on the wire / as received by the server *)
(* w_cl: the length the request DECLARES (http.Request.ContentLength as the server sees it):
   the number of body bytes, or -1 when none is declared (Transfer-Encoding: chunked).  The server
   model takes it as an independent input: nothing in the code may depend on it except that the
   handler sees it. *)
(* w_rewind: what http.Request.GetBody yields (None = GetBody is nil: the body cannot be rewound).
   net/http's transport calls it to REPLAY a request (reused connection dropped by the server,
   HTTP/2 retry, redirect): the replayed request is the same request with that body. *)
Record wreq := { w_ce : list string; w_body : bytes; w_cl : Z; w_rewind : option bytes }.

(* what the transport sends when it replays the request (None = it cannot) *)
Definition replay (w : wreq) : option wreq :=
  match w.(w_rewind) with
  | None => None
  | Some b => Some {| w_ce := w.(w_ce); w_body := b; w_cl := w.(w_cl); w_rewind := w.(w_rewind) |}
  end.

Definition body_bytes (b : option bytes) : bytes := match b with Some x => x | None => [] end.

(* http.Header.Get: first value or "" *)
Definition hget (ce : list string) : string := hd s_empty ce.

(* the body can be read to the end and closed *)
Definition body_ok (r : creq) : bool :=
  match r.(q_body) with None => true | Some _ => negb r.(q_rerr) && negb r.(q_cerr) end.

Definition blen (b : bytes) : Z := Z.of_nat (List.length b).

(* an untouched request: net/http declares the length of a known body, none for an opaque reader *)
Definition plain (r : creq) : wreq :=
  {| w_ce := r.(q_ce); w_body := body_bytes r.(q_body);
     w_cl := if r.(q_stream) then (-1)%Z else blen (body_bytes r.(q_body));
     (* http.NewRequest sets GetBody for the known body types only; a nil body has none *)
     w_rewind := match r.(q_body) with
                 | None => None
                 | Some b => if r.(q_stream) then None else Some b
                 end |}.

Section Codec.
  Variable enc : codec -> Z -> bytes -> bytes.      (* writer of that codec at that level, Write* + Close *)
  Variable dec : codec -> stream -> dres.           (* reader constructor of that codec over a body *)
  Variable cdec : N -> stream -> dres.              (* custom decoders (WithDecoder), by identifier *)

  (* func (p *compressor) compress(buf, body): io.Copy(writer, body); body.Close(); the copy error
     wins over the close error; then writer.Close().  None = an error is returned. *)
  Definition compress (c : codec) (l : Z) (r : creq) : option bytes :=
    match r.(q_body) with
    | None => Some (enc c l [])                      (* body == nil: only writer.Close() *)
    | Some b => if r.(q_rerr) then None
                else if r.(q_cerr) then None
                else Some (enc c l b)
    end.

  (* what a client returns for one request *)
  Inductive cres :=
  | CRefused                 (* ClientConfig.Validate or ToClient (newCompressRoundTripper) fails *)
  | CError                   (* RoundTrip returns an error before anything is sent *)
  | CSent (w : wreq).

  (* func (r *compressRoundTripper) RoundTrip(req) *)
  Definition round_trip (t : string) (c : codec) (l : Z) (r : creq) : cres :=
    if negb (String.eqb (hget r.(q_ce)) s_empty) then
      CSent (plain r)                                (* header already set: skip compression *)
    else
      match compress c (writer_level c l) r with
      | None => CError
      (* new request over the bytes.Buffer (its length is declared); headers cloned, encoding Added *)
      (* http.NewRequestWithContext(.., buf *bytes.Buffer): GetBody re-reads a snapshot of the buffer *)
      | Some buf => CSent {| w_ce := r.(q_ce) ++ [t]; w_body := buf; w_cl := blen buf; w_rewind := Some buf |}
      end.

  (* ClientConfig.Validate + ToClient up to and including the compressing round tripper: what is handed
     to the NEXT round tripper (canonical Content-Encoding values only) *)
  Definition client_rt (cc : ccfg) (r : creq) : cres :=
    if negb (client_validate cc) then CRefused
    else if is_compressed cc.(c_type) then
      match writer_codec cc.(c_type) with
      | None => CRefused
      | Some c => round_trip cc.(c_type) c (effective_level cc.(c_level)) r
      end
    else CSent (plain r).

  (* ToClient wraps the transport in headerRoundTripper FIRST and in compressRoundTripper afterwards, so
     a request passes the compressor and then  for k, v := range headers { req.Header.Set(k, v) } :
     a configured Content-Encoding REPLACES whatever the compressor (or the caller) put under the
     canonical key.  On the wire the receiver canonicalises every key: the values stored under other
     spellings follow. *)
  Definition headers_rt (cc : ccfg) (ce : list string) : list string :=
    match cc.(c_hdr) with Some v => [v] | None => ce end.

  Definition on_wire (cc : ccfg) (r : creq) (w : wreq) : wreq :=
    {| w_ce := headers_rt cc w.(w_ce) ++ r.(q_raw); w_body := w.(w_body); w_cl := w.(w_cl);
       w_rewind := w.(w_rewind) |}.

  (* the whole client chain as ToClient builds it, up to what the server receives *)
  Definition client (cc : ccfg) (r : creq) : cres :=
    match client_rt cc r with CSent w => CSent (on_wire cc r w) | x => x end.

  (* ================================================================================================
     server side
     ================================================================================================ *)
  (* s_max: MaxRequestBodySize (int64); s_algs: CompressionAlgorithms (None = nil slice);
     s_custom: WithDecoder(key, dec) options in order, dec given by identifier (None = a nil func) *)
  Record scfg := { s_max : Z; s_algs : option (list string); s_custom : list (string * option N);
                   s_mw : nat }.   (* number of configured `middlewares` (ServerConfig.Middlewares) *)

  Definition default_max : Z := 20 * 1024 * 1024.
  Definition default_algs : list string := [s_empty; s_gzip; s_zstd; s_zlib; s_snappy; s_deflate; s_lz4].

  (* ToServer: if hss.MaxRequestBodySize <= 0 { = defaultMaxRequestBodySize } *)
  Definition eff_max (sc : scfg) : Z := if Z.leb sc.(s_max) 0 then default_max else sc.(s_max).
  (* ToServer: if hss.CompressionAlgorithms == nil { = defaultCompressionAlgorithms } *)
  Definition eff_algs (sc : scfg) : list string :=
    match sc.(s_algs) with None => default_algs | Some l => l end.

  (* a slot of the decoder map: a nil func, the "" decoder, one of the library readers, a custom
     decoder (None = WithDecoder(key, nil)) *)
  Inductive slot := SNil | SIdent | SCodec (c : codec) | SCustom (i : option N).

  (* var availableDecoders: the two-value map lookup  decoder, ok := availableDecoders[name] *)
  Definition available (name : string) : option slot :=
    if String.eqb name s_empty then Some SIdent
    else if String.eqb name s_gzip then Some (SCodec CGzip)
    else if String.eqb name s_zstd then Some (SCodec CZstd)
    else if String.eqb name s_zlib then Some (SCodec CZlib)
    else if String.eqb name s_snappy then Some (SCodec CSnappy)
    else if String.eqb name s_lz4 then Some (SCodec CLz4)
    else None.

  (* the one-value lookup  availableDecoders[name]: zero value (nil func) when absent *)
  Definition available_or_nil (name : string) : slot :=
    match available name with Some sl => sl | None => SNil end.

  (* Go map as an association list: the newest binding is in front *)
  Definition tbl := list (string * slot).
  Definition tset (m : tbl) (k : string) (v : slot) : tbl := (k, v) :: m.
  Fixpoint tget (m : tbl) (k : string) : option slot :=
    match m with
    | [] => None
    | (k', v) :: r => if String.eqb k k' then Some v else tget r k
    end.

  (* httpContentDecompressor: for _, dec := range enableDecoders {
       if decoder, ok := availableDecoders[dec]; ok { enabled[dec] = decoder }    (a name without decoder is left out)
       if dec == "deflate" { enabled["deflate"] = availableDecoders["zlib"] } } *)
  Definition enable_one (m : tbl) (d : string) : tbl :=
    let m1 := match available d with Some sl => tset m d sl | None => m end in
    if String.eqb d s_deflate then tset m1 s_deflate (available_or_nil s_zlib) else m1.

  (* ... for key, dec := range decoders { d.decoders[key] = dec } *)
  Definition decoders (sc : scfg) : tbl :=
    fold_left (fun m kv => tset m (fst kv) (SCustom (snd kv))) sc.(s_custom)
              (fold_left enable_one (eff_algs sc) []).

  (* http.MaxBytesReader(w, r, n): at most n bytes, then *MaxBytesError if there were more *)
  Definition max_bytes (L : Z) (s : stream) : stream :=
    if Z.gtb (Z.of_nat (List.length (fst s))) L then (firstn (Z.to_nat L) (fst s), E_TOOLARGE) else s.

  (* what the client gets / what the innermost handler is given *)
  Inductive sout :=
  | Rejected (status : Z)                            (* errHandler(w, r, msg, status): handler not run *)
  | Panicked                                         (* a nil decoder func is called: handler not run *)
  | Handled (ce : list string) (cl : Z) (s : stream). (* handler runs: Content-Encoding values it sees,
                                                         r.ContentLength, and its body *)

  (* decoder(r.Body) *)
  Definition run_slot (sl : slot) (body : stream) : option dres :=
    match sl with
    | SNil => None
    | SIdent => Some DNone
    | SCodec c => Some (dec c body)
    | SCustom None => None                           (* WithDecoder(key, nil) *)
    | SCustom (Some i) => Some (cdec i body)
    end.

  (* maxRequestBodySizeInterceptor ; decompressor.ServeHTTP ; handler *)
  Definition server (sc : scfg) (w : wreq) : sout :=
    let L := eff_max sc in
    let body1 := max_bytes L (w.(w_body), E_EOF) in            (* outer interceptor: raw body *)
    match tget (decoders sc) (hget w.(w_ce)) with
    | None => Rejected 400                                      (* unsupported Content-Encoding *)
    | Some sl =>
        match run_slot sl body1 with
        | None => Panicked
        | Some DInitErr => Rejected 400
        | Some DNone => Handled w.(w_ce) w.(w_cl) body1
        | Some (DStream s) => Handled [] (-1) (max_bytes L s)   (* headers deleted, limit after decoding *)
        end
    end.

  (* None = nothing reached the server *)
  (* ToServer wraps the handler in the configured middlewares FIRST (last one innermost) and in the
     decompressor afterwards: on a request the decompressor runs, then middleware 1 .. k in order, then the
     handler.  What each of these handlers is given (a middleware that looks at the body is assumed to
     leave it as it found it), in the order they run; tag 0 = the innermost handler, i = middleware i. *)
  Definition view := (list string * Z * stream)%type.
  Definition server_views (sc : scfg) (w : wreq) : list (N * view) :=
    match server sc w with
    | Handled ce cl s => map (fun i => (N.of_nat i, (ce, cl, s))) (seq 1 sc.(s_mw)) ++ [(0%N, (ce, cl, s))]
    | _ => []
    end.

  Definition e2e (cc : ccfg) (sc : scfg) (r : creq) : option sout :=
    match client cc r with CSent w => Some (server sc w) | _ => None end.

  (* ------------------------------------------------------------------------------------------------
     length abstraction (used for the large-body correspondence cases and proved consistent with
     [server] in Proofs.v): the same pipeline on sizes only.
     ------------------------------------------------------------------------------------------------ *)
  Definition lstream := (Z * N)%type.                       (* number of bytes delivered, ending *)
  Inductive ldres := LInitErr | LNone | LStream (s : lstream).
  Inductive lsout := LRejected (status : Z) | LPanicked | LHandled (ce : list string) (cl : Z) (s : lstream).

  Definition labs (s : stream) : lstream := (Z.of_nat (List.length (fst s)), snd s).
  Definition ldabs (d : dres) : ldres :=
    match d with DInitErr => LInitErr | DNone => LNone | DStream s => LStream (labs s) end.
  Definition loabs (o : sout) : lsout :=
    match o with
    | Rejected st => LRejected st | Panicked => LPanicked
    | Handled ce cl s => LHandled ce cl (labs s)
    end.

  Definition lmax_bytes (L : Z) (s : lstream) : lstream :=
    if Z.gtb (fst s) L then (Z.max 0 L, E_TOOLARGE) else s.

  (* [ldec c] / [lcdec i]: what that decoder does with the (limited) raw body, sizes only *)
  Definition lrun_slot (ldec : codec -> ldres) (lcdec : N -> ldres) (sl : slot) : option ldres :=
    match sl with
    | SNil => None
    | SIdent => Some LNone
    | SCodec c => Some (ldec c)
    | SCustom None => None
    | SCustom (Some i) => Some (lcdec i)
    end.

  Definition lserver (sc : scfg) (ldec : codec -> ldres) (lcdec : N -> ldres) (ce : list string) (n cl : Z) : lsout :=
    let L := eff_max sc in
    let body1 := lmax_bytes L (n, E_EOF) in
    match tget (decoders sc) (hget ce) with
    | None => LRejected 400
    | Some sl =>
        match lrun_slot ldec lcdec sl with
        | None => LPanicked
        | Some LInitErr => LRejected 400
        | Some LNone => LHandled ce cl body1
        | Some (LStream s) => LHandled [] (-1) (lmax_bytes L s)
        end
    end.
End Codec.
