(* C16/Witness.v — non-vacuity of the hypotheses of the theorems, and the counterexamples behind
   the [..._refuted] theorems.  The codecs are parameters of the model; here they are instantiated
   with a toy codec ("stored": one header byte 7, then the bytes) that satisfies [codec_ok] and
   decodes streams incrementally (a truncated input yields the prefix decoded so far). *)
From Verif Require Import Common.Base C16.Model C16.Proofs C16.Harness C16.Check C16.Link.
From Coq Require Import String.

Definition toy_enc (_ : codec) (_ : Z) (b : bytes) : bytes := 7%N :: b.
Definition toy_dec (_ : codec) (s : stream) : dres :=
  match fst s with
  | 7%N :: d => DStream (d, snd s)
  | _ => DInitErr
  end.
Definition toy_cdec (i : N) (s : stream) : dres :=
  match i with
  | 0%N => DStream s
  | 1%N => DNone
  | 2%N => DInitErr
  | _ => DStream (flat_map (fun x => [x; x]) (fst s), snd s)
  end.

(* the hypothesis of [roundtrip] is satisfiable *)
Example toy_codec_ok : forall c l b, toy_dec c (toy_enc c l b, E_EOF) = DStream (b, E_EOF).
Proof. reflexivity. Qed.

Definition gz (l : Z) : ccfg := {| c_type := s_gzip; c_level := l; c_hdr := None |}.
Definition srv (mx : Z) (algs : option (list string)) (cu : list (string * option N)) : scfg :=
  {| s_max := mx; s_algs := algs; s_custom := cu; s_mw := 0 |}.
Definition rq (ce : list string) (b : bytes) : creq :=
  {| q_ce := ce; q_body := Some b; q_raw := []; q_stream := false; q_reads := 0; q_rerr := false; q_cerr := false |}.
Definition wr (ce : list string) (b : bytes) : wreq := {| w_ce := ce; w_body := b; w_cl := blen b; w_rewind := Some b |}.

(* all hypotheses of [roundtrip] hold for a concrete non-trivial instance, and the conclusion computes *)
Example ex_roundtrip :
  client_validate (gz 6) = true /\ is_compressed s_gzip = true /\ writer_codec s_gzip = Some CGzip /\
  In s_gzip (eff_algs (srv 4 None [])) /\ ~ In s_gzip (map fst (@nil (string * option N))) /\
  e2e toy_enc toy_dec toy_cdec (gz 6) (srv 4 None []) (rq [] [1;2;3]%N) = Some (Handled [] (-1) ([1;2;3]%N, E_EOF)).
Proof. vm_compute. repeat split; auto 10. Qed.

(* every configured type: deflate is written and read with zlib *)
Example ex_deflate :
  writer_codec s_deflate = Some CZlib /\ slot_of_name s_deflate = Some (SCodec CZlib) /\
  tget (decoders (srv 0 (Some [s_deflate]) [])) s_deflate = Some (SCodec CZlib) /\
  tget (decoders (srv 0 (Some [s_deflate]) [])) s_zlib = None.
Proof. vm_compute. repeat split. Qed.

(* round trip fails when the COMPRESSED body is larger than the limit although the body fits:
   the outer interceptor cuts the raw body, the decoder fails on the truncated input *)
Example ex_wire_over_limit :
  (Z.of_nat (List.length [1;2;3]%N) <= eff_max (srv 3 None []))%Z /\
  e2e toy_enc toy_dec toy_cdec (gz 0) (srv 3 None []) (rq [] [1;2;3]%N)
  = Some (Handled [] (-1) ([1;2]%N, E_TOOLARGE)).
Proof. vm_compute. split; [discriminate|reflexivity]. Qed.

(* a Content-Encoding header that is present with an EMPTY first value: the client compresses and
   appends the encoding, the server's Header.Get still sees "" and passes the compressed bytes on *)
Example ex_empty_preset_value :
  e2e toy_enc toy_dec toy_cdec (gz 0) (srv 100 None []) (rq [s_empty] [1;2;3]%N)
  = Some (Handled [s_empty; s_gzip] 4 ([7;1;2;3]%N, E_EOF)).
Proof. vm_compute. reflexivity. Qed.

(* identity is an entry of the enabled list like any other: without "" an uncompressed request is refused *)
Example ex_identity_not_enabled :
  e2e toy_enc toy_dec toy_cdec {| c_type := s_empty; c_level := 0; c_hdr := None |} (srv 100 (Some [s_gzip]) []) (rq [] [1;2;3]%N)
  = Some (Rejected 400).
Proof. vm_compute. reflexivity. Qed.

(* an enabled name without an available decoder is not bound at all: 400 like any unknown encoding;
   only a custom decoder registered as nil, WithDecoder(key, nil), still makes ServeHTTP call a nil func *)
Example ex_nil_decoder :
  server toy_dec toy_cdec (srv 100 (Some [s_empty; "br"%string]) []) (wr (["br"%string]) ([1]%N)) = Rejected 400 /\
  tget (decoders (srv 100 (Some [s_empty; "br"%string; s_deflate]) [])) "br"%string = None /\
  tget (decoders (srv 100 (Some [s_empty; "br"%string; s_deflate]) [])) s_deflate = Some (SCodec CZlib) /\
  server toy_dec toy_cdec (srv 100 None [("x-nil"%string, None)]) (wr (["x-nil"%string]) ([1]%N)) = Panicked /\
  server toy_dec toy_cdec (srv 100 None [("br"%string, Some 0%N)]) (wr (["br"%string]) ([1]%N)) = Handled [] (-1) ([1]%N, E_EOF).
Proof. vm_compute. repeat split. Qed.

(* limit: a small compressed body that expands (custom decoder 3 doubles every byte; limit 4) *)
Example ex_limit_custom :
  server toy_dec toy_cdec (srv 4 None [("x-dbl"%string, Some 3%N)]) (wr (["x-dbl"%string]) ([1;2;3]%N))
  = Handled [] (-1) ([1;1;2;2]%N, E_TOOLARGE).
Proof. vm_compute. reflexivity. Qed.

Example ex_limit_decoded :
  server toy_dec toy_cdec (srv 3 None []) (wr ([s_zstd]) ([7;1;2]%N)) = Handled [] (-1) ([1;2]%N, E_EOF) /\
  server toy_dec toy_cdec (srv 3 None []) (wr ([s_zstd]) ([7;1;2;3]%N)) = Handled [] (-1) ([1;2]%N, E_TOOLARGE) /\
  server toy_dec toy_cdec (srv 3 None []) (wr ([]) ([7;1;2;3]%N)) = Handled [] 4 ([7;1;2]%N, E_TOOLARGE) /\
  server toy_dec toy_cdec (srv 3 None []) (wr ([s_gzip]) ([1;2]%N)) = Rejected 400 /\
  server toy_dec toy_cdec (srv 3 None []) (wr (["GZIP"%string]) ([7;2]%N)) = Rejected 400.
Proof. vm_compute. repeat split. Qed.

(* a body that fails while being compressed: nothing is sent; with a preset header it is not touched *)
Example ex_body_error :
  client toy_enc (gz 0) {| q_ce := []; q_body := Some [1]%N; q_raw := []; q_stream := false; q_reads := 0; q_rerr := true; q_cerr := false |} = CError /\
  client toy_enc (gz 0) {| q_ce := []; q_body := Some [1]%N; q_raw := []; q_stream := false; q_reads := 0; q_rerr := false; q_cerr := true |} = CError /\
  client toy_enc (gz 0) {| q_ce := []; q_body := None; q_raw := []; q_stream := false; q_reads := 0; q_rerr := true; q_cerr := true |}
    = CSent (wr ([s_gzip]) ([7]%N)).
Proof. vm_compute. repeat split. Qed.

(* a body sent without declared length (chunked) is limited like any other; the handler sees -1 *)
Example ex_chunked :
  server toy_dec toy_cdec (srv 3 None []) {| w_ce := []; w_body := [1;2;3;4;5]%N; w_cl := (-1); w_rewind := None |}
    = Handled [] (-1) ([1;2;3]%N, E_TOOLARGE) /\
  server toy_dec toy_cdec (srv 3 None []) {| w_ce := [s_gzip]; w_body := [7;1;2;3;4]%N; w_cl := (-1); w_rewind := None |}
    = Handled [] (-1) ([1;2]%N, E_TOOLARGE) /\
  client toy_enc {| c_type := s_none; c_level := 0; c_hdr := None |}
         {| q_ce := []; q_body := Some [1;2]%N; q_raw := []; q_stream := true; q_reads := 0; q_rerr := false; q_cerr := false |}
    = CSent {| w_ce := []; w_body := [1;2]%N; w_cl := (-1); w_rewind := None |} /\
  client toy_enc (gz 0) {| q_ce := []; q_body := Some [1;2]%N; q_raw := []; q_stream := true; q_reads := 0; q_rerr := false; q_cerr := false |}
    = CSent {| w_ce := [s_gzip]; w_body := [7;1;2]%N; w_cl := 3; w_rewind := Some [7;1;2]%N |}.
Proof. vm_compute. repeat split. Qed.

(* preset header: untouched *)
Example ex_preset :
  client toy_enc (gz 0) (rq ["identity"%string] [1;2]%N) = CSent (wr (["identity"%string]) ([1;2]%N)).
Proof. vm_compute. reflexivity. Qed.

(* configuration: level 0 means "default" for every type; levels are validated per type *)
Example ex_levels :
  client_validate (gz 10) = false /\ client_validate (gz (-2)) = true /\
  client_validate {| c_type := s_snappy; c_level := 1; c_hdr := None |} = false /\
  client_validate {| c_type := s_zstd; c_level := 99; c_hdr := None |} = true /\
  effective_level 0 = (-1)%Z /\ effective_level 5 = 5%Z /\
  client toy_enc {| c_type := "br"%string; c_level := 0; c_hdr := None |} (rq [] []) = CRefused.
Proof. vm_compute. repeat split. Qed.

(* ---- the counterexamples behind the [..._refuted] theorems of Properties.v ------------------------- *)
Lemma wire_bound_needed_l :
  exists enc dec cdec cc sc r, codec_law enc dec /\
    client_validate cc = true /\ is_compressed cc.(c_type) = true /\ cc.(c_hdr) = None /\ r.(q_raw) = [] /\
    r.(q_ce) = [] /\ body_ok r = true /\
    In cc.(c_type) (eff_algs sc) /\ ~ In cc.(c_type) (map fst sc.(s_custom)) /\
    (Z.of_nat (List.length (body_bytes r.(q_body))) <= eff_max sc)%Z /\
    e2e enc dec cdec cc sc r <> Some (Handled [] (-1) (body_bytes r.(q_body), E_EOF)).
Proof.
  exists toy_enc, toy_dec, toy_cdec, (gz 0), (srv 3 None []), (rq [] [1;2;3]%N).
  split; [exact toy_codec_ok|].
  repeat split; try reflexivity; try (vm_compute; auto 10; fail); try (vm_compute; tauto);
    try (vm_compute; discriminate); try (intros c; vm_compute; discriminate).
Qed.

Lemma empty_preset_value_l :
  exists enc dec cdec cc sc r, codec_law enc dec /\
    client_validate cc = true /\ is_compressed cc.(c_type) = true /\ cc.(c_hdr) = None /\ r.(q_raw) = [] /\
    hget r.(q_ce) = s_empty /\ body_ok r = true /\
    In cc.(c_type) (eff_algs sc) /\ ~ In cc.(c_type) (map fst sc.(s_custom)) /\
    (Z.of_nat (List.length (body_bytes r.(q_body))) <= eff_max sc)%Z /\
    (forall c, Z.of_nat (List.length (enc c (-1)%Z (body_bytes r.(q_body)))) <= eff_max sc)%Z /\
    exists ce cl s, e2e enc dec cdec cc sc r = Some (Handled ce cl s) /\ fst s <> body_bytes r.(q_body).
Proof.
  exists toy_enc, toy_dec, toy_cdec, (gz 0), (srv 100 None []), (rq [s_empty] [1;2;3]%N).
  split; [exact toy_codec_ok|].
  repeat split; try reflexivity; try (vm_compute; auto 10; fail); try (vm_compute; tauto);
    try (vm_compute; discriminate); try (intros c; vm_compute; discriminate).
  - exists [s_empty; s_gzip], 4%Z, ([7;1;2;3]%N, E_EOF). split; [vm_compute; reflexivity|vm_compute; discriminate].
Qed.

Lemma identity_not_enabled_l :
  exists enc dec cdec cc sc r, is_compressed cc.(c_type) = false /\ r.(q_ce) = [] /\
    e2e enc dec cdec cc sc r = Some (Rejected 400).
Proof.
  exists toy_enc, toy_dec, toy_cdec, {| c_type := s_empty; c_level := 0; c_hdr := None |}, (srv 100 (Some [s_gzip]) []), (rq [] [1;2;3]%N).
  vm_compute. repeat split.
Qed.

Lemma configured_header_breaks_roundtrip_l :
  exists enc dec cdec cc sc r c, codec_law enc dec /\
    client_validate cc = true /\ is_compressed cc.(c_type) = true /\ writer_codec cc.(c_type) = Some c /\
    cc.(c_hdr) <> None /\ r.(q_ce) = [] /\ r.(q_raw) = [] /\ body_ok r = true /\
    In cc.(c_type) (eff_algs sc) /\ ~ In cc.(c_type) (map fst sc.(s_custom)) /\
    (Z.of_nat (List.length (body_bytes r.(q_body))) <= eff_max sc)%Z /\
    (forall l, Z.of_nat (List.length (enc c l (body_bytes r.(q_body)))) <= eff_max sc)%Z /\
    exists ce cl s, e2e enc dec cdec cc sc r = Some (Handled ce cl s) /\ fst s <> body_bytes r.(q_body).
Proof.
  exists toy_enc, toy_dec, toy_cdec, {| c_type := s_gzip; c_level := 0; c_hdr := Some s_empty |},
         (srv 100 None []), (rq [] [1;2;3]%N), CGzip.
  split; [exact toy_codec_ok|].
  repeat split; try reflexivity; try (vm_compute; auto 10; fail); try (vm_compute; tauto);
    try (vm_compute; discriminate); try (intros l; vm_compute; discriminate).
  - exists [s_empty], 4%Z, ([7;1;2;3]%N, E_EOF). split; [vm_compute; reflexivity|vm_compute; discriminate].
Qed.

(* the chain on concrete inputs: a configured header with another codec's name => 400 (toy decoder of the
   wrong... here: unknown name); with the type's own name => round trip; lower-case preset => compressed again,
   decoded once: the handler gets the caller's (still encoded) bytes without any Content-Encoding *)
Example ex_headers_chain :
  e2e toy_enc toy_dec toy_cdec {| c_type := s_gzip; c_level := 0; c_hdr := Some "br"%string |} (srv 100 None []) (rq [] [1;2]%N)
    = Some (Rejected 400) /\
  e2e toy_enc toy_dec toy_cdec {| c_type := s_gzip; c_level := 0; c_hdr := Some s_gzip |} (srv 100 None []) (rq [] [1;2]%N)
    = Some (Handled [] (-1) ([1;2]%N, E_EOF)) /\
  e2e toy_enc toy_dec toy_cdec {| c_type := s_none; c_level := 0; c_hdr := Some s_gzip |} (srv 100 None []) (rq [] [1;2]%N)
    = Some (Rejected 400) /\
  e2e toy_enc toy_dec toy_cdec (gz 0) (srv 100 None [])
      {| q_ce := []; q_body := Some [7;5]%N; q_raw := [s_gzip]; q_stream := false; q_reads := 0; q_rerr := false; q_cerr := false |}
    = Some (Handled [] (-1) ([7;5]%N, E_EOF)).
Proof. vm_compute. repeat split. Qed.

(* histories: non-vacuity of roundtrip_history (two different bodies, a nil body) and of client_refused_iff *)
Example ex_history :
  run_history toy_enc toy_dec toy_cdec (gz 3) (srv 10 None [])
    [rq [] [1;2;3]%N; rq [] []; {| q_ce := []; q_body := None; q_raw := []; q_stream := false; q_reads := 0; q_rerr := false; q_cerr := false |}]
  = [Some (Handled [] (-1) ([1;2;3]%N, E_EOF)); Some (Handled [] (-1) ([], E_EOF)); Some (Handled [] (-1) ([], E_EOF))].
Proof. vm_compute. reflexivity. Qed.

Example ex_refused :
  client toy_enc (gz 10) (rq [] []) = CRefused /\
  client toy_enc {| c_type := "br"%string; c_level := 0; c_hdr := None |} (rq [] []) = CRefused /\
  client_validate {| c_type := "br"%string; c_level := 0; c_hdr := None |} = true /\
  writer_codec "br"%string = None.
Proof. vm_compute. repeat split. Qed.

(* the clause checker on concrete observations: a faithful gzip round trip passes; the same observation
   with the handler having read one byte too many violates clause 4 (and 1) *)
Definition obs_ok : eobs :=
  {| x_type := s_gzip; x_level := 0; x_hdr := None; x_ce := []; x_raw := []; x_body := Some [1;2;3]%N;
     x_rerr := false; x_cerr := false; x_max := 3; x_algs := None; x_custom := []; x_mw := 0; x_dect := [];
     x_client := 0; x_wce := [s_gzip]; x_wbody := [9;9]%N; x_wcl := 2;
     x_kind := 0; x_status := 200; x_hce := []; x_cl := (-1); x_data := [1;2;3]%N; x_err := 0; x_views := [(0%N, ([], (-1)%Z, ([1;2;3]%N, 0%N)))] |}.
Definition obs_bad : eobs :=
  {| x_type := s_gzip; x_level := 0; x_hdr := None; x_ce := []; x_raw := []; x_body := Some [1;2;3]%N;
     x_rerr := false; x_cerr := false; x_max := 3; x_algs := None; x_custom := []; x_mw := 0; x_dect := [];
     x_client := 0; x_wce := [s_gzip]; x_wbody := [9;9]%N; x_wcl := 2;
     x_kind := 0; x_status := 200; x_hce := []; x_cl := (-1); x_data := [1;2;3;4]%N; x_err := 0; x_views := [] |}.
Example ex_clause_checker :
  core_ok obs_ok = true /\ core_ok obs_bad = false /\ c_limit obs_bad = false /\ c_roundtrip obs_bad = false /\
  compresses_b obs_ok = true.
Proof. vm_compute. repeat split. Qed.

(* two configured middlewares: both run before the handler, in order, and are given the DECODED bytes; a
   rejected request reaches none of them *)
Example ex_middlewares :
  server_views toy_dec toy_cdec {| s_max := 10; s_algs := None; s_custom := []; s_mw := 2 |} (wr [s_gzip] [7;1;2]%N)
    = [(1%N, ([], (-1)%Z, ([1;2]%N, E_EOF))); (2%N, ([], (-1)%Z, ([1;2]%N, E_EOF))); (0%N, ([], (-1)%Z, ([1;2]%N, E_EOF)))] /\
  server_views toy_dec toy_cdec {| s_max := 10; s_algs := Some [s_zstd]; s_custom := []; s_mw := 2 |} (wr [s_gzip] [7;1;2]%N) = [].
Proof. vm_compute. split; reflexivity. Qed.

(* [observe] on concrete runs of the model: a round trip through two middlewares (every field is non-trivial),
   a rejected request, a decompression bomb; the checker accepts each, and rejects a tampered one *)
Definition obs_rt := observe toy_enc toy_dec toy_cdec (gz 3) {| s_max := 4; s_algs := None; s_custom := []; s_mw := 2 |} (rq [] [1;2;3]%N).
Example ex_observe :
  eobs_ok obs_rt = true /\ x_kind obs_rt = 0%N /\ x_data obs_rt = [1;2;3]%N /\ x_wbody obs_rt = [7;1;2;3]%N /\
  List.length (x_views obs_rt) = 3 /\ List.length (x_dect obs_rt) = 5 /\
  eobs_ok (observe toy_enc toy_dec toy_cdec (gz 0) (srv 100 (Some [s_zstd]) []) (rq [] [1;2;3]%N)) = true /\
  x_kind (observe toy_enc toy_dec toy_cdec (gz 0) (srv 100 (Some [s_zstd]) []) (rq [] [1;2;3]%N)) = 1%N /\
  eobs_ok (observe toy_enc toy_dec toy_cdec {| c_type := s_none; c_level := 0; c_hdr := None |} (srv 2 None []) (rq [s_gzip] [7;1;2;3]%N)) = true /\
  x_err (observe toy_enc toy_dec toy_cdec {| c_type := s_none; c_level := 0; c_hdr := None |} (srv 2 None []) (rq [s_gzip] [7;1;2;3]%N)) = 1%N /\
  eobs_ok {| x_type := x_type obs_rt; x_level := x_level obs_rt; x_hdr := x_hdr obs_rt; x_ce := x_ce obs_rt; x_raw := x_raw obs_rt;
             x_body := x_body obs_rt; x_rerr := false; x_cerr := false; x_max := x_max obs_rt; x_algs := x_algs obs_rt;
             x_custom := x_custom obs_rt; x_mw := x_mw obs_rt; x_dect := x_dect obs_rt; x_client := 0; x_wce := x_wce obs_rt;
             x_wbody := x_wbody obs_rt; x_wcl := x_wcl obs_rt; x_kind := 0; x_status := 200; x_hce := []; x_cl := (-1);
             x_data := [1;2]%N; x_err := 0; x_views := x_views obs_rt |} = false.
Proof. vm_compute. repeat split. Qed.
