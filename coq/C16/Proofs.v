(* C16/Proofs.v — lemmas about the model of the compression middleware. *)
From Verif Require Import Common.Base C16.Model.
From Coq Require Import String.

(* ---- strings ------------------------------------------------------------------------------------ *)
Lemma str_mem_In s l : str_mem s l = true <-> In s l.
Proof.
  unfold str_mem. rewrite existsb_exists. split.
  - intros [x [Hx E]]. apply String.eqb_eq in E. now subst.
  - intros H. exists s. split; [assumption|apply String.eqb_refl].
Qed.

Lemma str_mem_false s l : str_mem s l = false <-> ~ In s l.
Proof.
  rewrite <- str_mem_In. destruct (str_mem s l); split; congruence.
Qed.

(* ---- the decoder table --------------------------------------------------------------------------- *)
(* what enabling the name [d] binds it to; None = the name has no decoder and is left out *)
Definition slot_of_name (d : string) : option slot :=
  if String.eqb d s_deflate then Some (available_or_nil s_zlib) else available d.

(* the custom decoder registered last under key [k] *)
Fixpoint clookup {A} (cs : list (string * A)) (k : string) : option A :=
  match cs with
  | [] => None
  | (k', i) :: r => match clookup r k with
                    | Some j => Some j
                    | None => if String.eqb k k' then Some i else None
                    end
  end.

Lemma tget_enable_one m d k :
  tget (enable_one m d) k =
  if String.eqb k d then match slot_of_name k with Some sl => Some sl | None => tget m k end else tget m k.
Proof.
  unfold enable_one, slot_of_name.
  destruct (String.eqb_spec d s_deflate) as [->|Nd].
  - change (available s_deflate) with (@None slot). unfold tset; simpl.
    destruct (String.eqb_spec k s_deflate) as [->|]; reflexivity.
  - destruct (String.eqb_spec k d) as [->|Nk].
    + destruct (String.eqb_spec d s_deflate); [contradiction|].
      destruct (available d); simpl; rewrite ?String.eqb_refl; reflexivity.
    + destruct (available d); simpl; [|reflexivity].
      destruct (String.eqb_spec k d); [contradiction|reflexivity].
Qed.

Lemma tget_enable l : forall m k,
  tget (fold_left enable_one l m) k =
  if str_mem k l then match slot_of_name k with Some sl => Some sl | None => tget m k end else tget m k.
Proof.
  induction l as [|d l IH]; intros m k; simpl; [reflexivity|].
  rewrite IH, tget_enable_one. destruct (str_mem k l) eqn:El.
  - rewrite orb_true_r. destruct (slot_of_name k); [reflexivity|]. destruct (String.eqb k d); reflexivity.
  - rewrite orb_false_r. reflexivity.
Qed.

Lemma tget_custom cs : forall m k,
  tget (fold_left (fun m kv => tset m (fst kv) (SCustom (snd kv))) cs m) k =
  match clookup cs k with Some i => Some (SCustom i) | None => tget m k end.
Proof.
  induction cs as [|[k' i] cs IH]; intros m k; simpl; [reflexivity|].
  rewrite IH. destruct (clookup cs k); [reflexivity|].
  unfold tset; simpl. destruct (String.eqb k k'); reflexivity.
Qed.

Lemma tget_decoders sc k :
  tget (decoders sc) k =
  match clookup sc.(s_custom) k with
  | Some i => Some (SCustom i)
  | None => if str_mem k (eff_algs sc) then slot_of_name k else None
  end.
Proof.
  unfold decoders. rewrite tget_custom, tget_enable. simpl.
  destruct (clookup (s_custom sc) k); [reflexivity|].
  destruct (str_mem k (eff_algs sc)); [|reflexivity]. destruct (slot_of_name k); reflexivity.
Qed.

Lemma clookup_none {A} (cs : list (string * A)) k : clookup cs k = None <-> ~ In k (map fst cs).
Proof.
  induction cs as [|[k' i] cs IH]; simpl; [tauto|].
  destruct (clookup cs k) eqn:E.
  - split; [discriminate|]. intros H. assert (~ In k (map fst cs)) as H' by tauto.
    apply IH in H'. discriminate.
  - destruct (String.eqb_spec k k') as [->|N].
    + split; [discriminate|]. intros H. exfalso. apply H. now left.
    + split; [|reflexivity]. intros _ [H|H]; [congruence|]. now apply (proj1 IH).
Qed.

(* the names that have a decoder are exactly the seven names of the default list *)
Lemma slot_of_name_none k : slot_of_name k = None <-> ~ In k default_algs.
Proof.
  split.
  - intros H Hin. simpl in Hin.
    destruct Hin as [<-|[<-|[<-|[<-|[<-|[<-|[<-|[]]]]]]]]; vm_compute in H; discriminate H.
  - intros H. unfold slot_of_name, available.
    repeat match goal with |- context [String.eqb k ?s] => destruct (String.eqb_spec k s) as [->|?] end;
      try reflexivity; exfalso; apply H; simpl; auto 10.
Qed.

(* ... and enabling a name never binds a nil func, nor a custom decoder *)
Lemma slot_of_name_some k sl : slot_of_name k = Some sl -> sl = SIdent \/ exists c, sl = SCodec c.
Proof.
  unfold slot_of_name, available_or_nil, available.
  repeat match goal with |- context [String.eqb k ?s] => destruct (String.eqb_spec k s) as [->|?] end;
    simpl; intros [= <-] || discriminate; eauto.
Qed.

(* a name has no decoder iff it is not a custom key and (is not enabled or has no available decoder) *)
Lemma tget_decoders_none sc k :
  tget (decoders sc) k = None <->
  (~ In k (map fst sc.(s_custom)) /\ (~ In k (eff_algs sc) \/ ~ In k default_algs)).
Proof.
  rewrite tget_decoders, <- clookup_none, <- str_mem_false, <- slot_of_name_none.
  destruct (clookup (s_custom sc) k); destruct (str_mem k (eff_algs sc)); destruct (slot_of_name k);
    split; try tauto; try discriminate; intros [? [?|?]]; discriminate.
Qed.

(* the writer chosen for a configured type and the reader bound to the same name are the same codec *)
Lemma writer_reader_agree t c : writer_codec t = Some c -> slot_of_name t = Some (SCodec c).
Proof.
  unfold writer_codec.
  destruct (String.eqb_spec t s_gzip) as [->|]; [intros [= <-]; reflexivity|].
  destruct (String.eqb_spec t s_snappy) as [->|]; [intros [= <-]; reflexivity|].
  destruct (String.eqb_spec t s_zstd) as [->|]; [intros [= <-]; reflexivity|].
  destruct (String.eqb_spec t s_zlib) as [->|]; [intros [= <-]; reflexivity|].
  destruct (String.eqb_spec t s_deflate) as [->|]; [intros [= <-]; reflexivity|].
  simpl. destruct (String.eqb_spec t s_lz4) as [->|]; [intros [= <-]; reflexivity|discriminate].
Qed.

(* every compressing type a configuration file can name has a writer *)
Lemma known_type_has_writer t :
  type_known t = true -> is_compressed t = true -> exists c, writer_codec t = Some c.
Proof.
  unfold type_known. rewrite str_mem_In. simpl.
  intros [<-|[<-|[<-|[<-|[<-|[<-|[<-|[<-|[]]]]]]]]]; intros H; try (vm_compute in H; discriminate H); eexists; reflexivity.
Qed.

(* a validated configuration never hands compress/gzip or compress/zlib a level they refuse
   (NewWriterLevel accepts -2 .. 9; the package discards its error and would Reset a nil writer) *)
Lemma validated_level_accepted cc c :
  client_validate cc = true -> is_compressed cc.(c_type) = true -> writer_codec cc.(c_type) = Some c ->
  (c = CGzip \/ c = CZlib) ->
  (-2 <= writer_level c (effective_level cc.(c_level)) <= 9)%Z.
Proof.
  unfold client_validate. intros Hv Hc Hw Hk. rewrite Hc in Hv.
  assert (Hm : str_mem (c_type cc) [s_gzip; s_zlib; s_deflate] = true).
  { revert Hw. unfold writer_codec.
    destruct (String.eqb_spec (c_type cc) s_gzip) as [->|]; [reflexivity|].
    destruct (String.eqb_spec (c_type cc) s_snappy) as [->|]; [intros [= <-]; destruct Hk; discriminate|].
    destruct (String.eqb_spec (c_type cc) s_zstd) as [->|]; [intros [= <-]; destruct Hk; discriminate|].
    destruct (String.eqb_spec (c_type cc) s_zlib) as [->|]; [reflexivity|].
    destruct (String.eqb_spec (c_type cc) s_deflate) as [->|]; [reflexivity|]. simpl.
    destruct (String.eqb_spec (c_type cc) s_lz4) as [->|]; [intros [= <-]; destruct Hk; discriminate|discriminate]. }
  unfold validate_params in Hv. rewrite Hm in Hv. simpl in Hv.
  assert (Hz : String.eqb (c_type cc) s_zstd = false).
  { apply str_mem_In in Hm. simpl in Hm. destruct Hm as [<-|[<-|[<-|[]]]]; reflexivity. }
  rewrite Hz in Hv.
  assert (Hl : flate_level_ok (c_level cc) = true).
  { destruct (flate_level_ok (c_level cc)) eqn:E; [reflexivity|].
    apply Z.eqb_eq in Hv. rewrite Hv in E. discriminate E. }
  unfold flate_level_ok in Hl. unfold effective_level.
  assert (writer_level c (if (c_level cc =? 0)%Z then (-1)%Z else c_level cc) = (if (c_level cc =? 0)%Z then (-1)%Z else c_level cc)) as ->
    by (destruct Hk; subst; reflexivity).
  destruct (Z.eqb_spec (c_level cc) 0); [lia|].
  repeat rewrite orb_true_iff in Hl. rewrite andb_true_iff in Hl.
  repeat rewrite Z.eqb_eq in Hl. repeat rewrite Z.leb_le in Hl. lia.
Qed.

(* ---- MaxBytesReader ------------------------------------------------------------------------------ *)
Lemma max_bytes_len L (s : stream) : (0 <= L)%Z -> (Z.of_nat (List.length (fst (max_bytes L s))) <= L)%Z.
Proof.
  intros HL. unfold max_bytes. destruct (Z.gtb_spec (Z.of_nat (List.length (fst s))) L) as [H|H]; simpl.
  - rewrite firstn_length. lia.
  - exact H.
Qed.

Lemma max_bytes_fits L (s : stream) : (Z.of_nat (List.length (fst s)) <= L)%Z -> max_bytes L s = s.
Proof.
  intros H. unfold max_bytes. destruct (Z.gtb_spec (Z.of_nat (List.length (fst s))) L); [lia|reflexivity].
Qed.

Lemma max_bytes_over L (s : stream) : (0 <= L)%Z -> (Z.of_nat (List.length (fst s)) > L)%Z ->
  max_bytes L s = (firstn (Z.to_nat L) (fst s), E_TOOLARGE) /\
  Z.of_nat (List.length (firstn (Z.to_nat L) (fst s))) = L.
Proof.
  intros HL H. unfold max_bytes. destruct (Z.gtb_spec (Z.of_nat (List.length (fst s))) L); [|lia].
  split; [reflexivity|]. rewrite firstn_length. lia.
Qed.

Lemma max_bytes_prefix L (s : stream) : exists tl, fst s = fst (max_bytes L s) ++ tl.
Proof.
  unfold max_bytes. destruct (Z.gtb _ _); simpl.
  - exists (skipn (Z.to_nat L) (fst s)). symmetry. apply firstn_skipn.
  - exists []. now rewrite app_nil_r.
Qed.

Lemma eff_max_pos sc : (0 < eff_max sc)%Z.
Proof. unfold eff_max. destruct (Z.leb_spec (s_max sc) 0); [reflexivity|assumption]. Qed.

Lemma eff_max_default sc : (s_max sc <= 0)%Z -> eff_max sc = (20 * 1024 * 1024)%Z.
Proof. intros H. unfold eff_max. destruct (Z.leb_spec (s_max sc) 0); [reflexivity|lia]. Qed.

Lemma eff_max_explicit sc : (0 < s_max sc)%Z -> eff_max sc = s_max sc.
Proof. intros H. unfold eff_max. destruct (Z.leb_spec (s_max sc) 0); [lia|reflexivity]. Qed.

(* the round-trip law of a codec: reading back what the writer produced (any level) gives the bytes *)
Definition codec_law (enc : codec -> Z -> bytes -> bytes) (dec : codec -> stream -> dres) : Prop :=
  forall c l b, dec c (enc c l b, E_EOF) = DStream (b, E_EOF).

(* the same request declaring another length; an outcome with the declared length blanked *)
Definition set_cl (w : wreq) (cl : Z) : wreq :=
  {| w_ce := w_ce w; w_body := w_body w; w_cl := cl; w_rewind := w_rewind w |}.
Definition strip_cl (o : sout) : sout :=
  match o with Handled ce _ s => Handled ce 0 s | _ => o end.

(* the same request with its body delivered by another (legal) pattern of Read calls *)
Definition set_reads (r : creq) (k : N) : creq :=
  {| q_ce := q_ce r; q_body := q_body r; q_raw := q_raw r; q_stream := q_stream r; q_reads := k;
     q_rerr := q_rerr r; q_cerr := q_cerr r |}.

Section Codec.
  Variable enc : codec -> Z -> bytes -> bytes.
  Variable dec : codec -> stream -> dres.
  Variable cdec : N -> stream -> dres.

  (* Up to [full chain] below, [client] is the chain up to and including the compressing round tripper
     ([client_rt]) and [e2e] its composition with the server; the lemmas about the whole chain (with
     the headers round tripper and the receiver's canonicalisation of header keys) follow. *)
  Definition e2e_rt (cc : ccfg) (sc : scfg) (r : creq) : option sout :=
    match Model.client_rt enc cc r with CSent w => Some (Model.server dec cdec sc w) | _ => None end.

  Local Notation server := (server dec cdec).
  Local Notation client := (client_rt enc).
  Local Notation e2e := e2e_rt.

  (* ---- the limit: for EVERY request and EVERY behaviour of the decoders ---------------------------- *)
  Lemma limit_holds_l sc w ce cl s :
    server sc w = Handled ce cl s -> (Z.of_nat (List.length (fst s)) <= eff_max sc)%Z.
  Proof.
    pose proof (eff_max_pos sc) as HL.
    unfold Model.server. destruct (tget (decoders sc) (hget (w_ce w))) as [sl|]; [|discriminate].
    destruct (run_slot dec cdec sl _) as [[| |s']|]; try discriminate; intros [= _ _ <-]; apply max_bytes_len; lia.
  Qed.

  Lemma default_limit_holds_l sc w ce cl s :
    (s_max sc <= 0)%Z -> server sc w = Handled ce cl s ->
    (Z.of_nat (List.length (fst s)) <= 20 * 1024 * 1024)%Z.
  Proof. intros Hd H. rewrite <- (eff_max_default sc Hd). exact (limit_holds_l sc w ce cl s H). Qed.

  Lemma limit_holds_e2e_l cc sc r ce cl s :
    e2e cc sc r = Some (Handled ce cl s) -> (Z.of_nat (List.length (fst s)) <= eff_max sc)%Z.
  Proof.
    unfold e2e_rt. destruct (client cc r) as [| |w]; try discriminate.
    intros [= H]. exact (limit_holds_l sc w ce cl s H).
  Qed.

  (* ---- every handler behind the decompressor: the configured middlewares and the innermost handler ---- *)
  Lemma views_are_handler_view_l sc w i v :
    In (i, v) (server_views dec cdec sc w) -> exists ce cl s, server sc w = Handled ce cl s /\ v = (ce, cl, s).
  Proof.
    unfold server_views. destruct (server sc w) as [st| |ce cl s]; try (intros []).
    intros H. exists ce, cl, s. split; [reflexivity|].
    apply in_app_or in H. destruct H as [H|[H|[]]].
    - apply in_map_iff in H. destruct H as [k [E _]]. now inversion E.
    - now inversion H.
  Qed.

  Lemma limit_holds_every_handler_l sc w i ce cl s :
    In (i, (ce, cl, s)) (server_views dec cdec sc w) -> (Z.of_nat (List.length (fst s)) <= eff_max sc)%Z.
  Proof.
    intros H. destruct (views_are_handler_view_l sc w i _ H) as [ce' [cl' [s' [E V]]]].
    inversion V; subst. exact (limit_holds_l sc w ce' cl' s' E).
  Qed.

  (* a request that is rejected (or makes the server panic) reaches NO handler behind the decompressor *)
  Lemma rejected_reaches_no_handler_l sc w :
    (forall ce cl s, server sc w <> Handled ce cl s) -> server_views dec cdec sc w = [].
  Proof.
    intros H. unfold server_views. destruct (server sc w) as [st| |ce cl s]; try reflexivity.
    exfalso. exact (H ce cl s eq_refl).
  Qed.

  (* when the handler runs, the middlewares run before it, in the configured order, each exactly once *)
  Lemma views_order_l sc w ce cl s :
    server sc w = Handled ce cl s ->
    map fst (server_views dec cdec sc w) = map N.of_nat (seq 1 sc.(s_mw)) ++ [0%N] /\
    Forall (fun p => snd p = (ce, cl, s)) (server_views dec cdec sc w).
  Proof.
    intros E. unfold server_views. rewrite E. split.
    - rewrite map_app, map_map. reflexivity.
    - apply Forall_app. split; [|repeat constructor].
      apply Forall_forall. intros p Hp. apply in_map_iff in Hp. destruct Hp as [k [<- _]]. reflexivity.
  Qed.

  (* what the handler reads is a prefix of what the selected decoder delivers (of the raw body
     when there is no decoder) *)
  Lemma handler_reads_prefix_l sc w ce cl s :
    server sc w = Handled ce cl s ->
    exists sl, tget (decoders sc) (hget (w_ce w)) = Some sl /\
      let body1 := max_bytes (eff_max sc) (w_body w, E_EOF) in
      match run_slot dec cdec sl body1 with
      | Some DNone => s = body1 /\ ce = w_ce w
      | Some (DStream s') => s = max_bytes (eff_max sc) s' /\ ce = []
      | _ => False
      end.
  Proof.
    unfold Model.server. destruct (tget (decoders sc) (hget (w_ce w))) as [sl|]; [|discriminate].
    intros H. exists sl. split; [reflexivity|]. cbv zeta.
    destruct (run_slot dec cdec sl _) as [[| |s']|]; try discriminate; injection H as <- _ <-; auto.
  Qed.

  Lemma limit_exact_decoded_l sc w c d e :
    clookup sc.(s_custom) (hget (w_ce w)) = None ->
    In (hget (w_ce w)) (eff_algs sc) ->
    slot_of_name (hget (w_ce w)) = Some (SCodec c) ->
    dec c (max_bytes (eff_max sc) (w_body w, E_EOF)) = DStream (d, e) ->
    (Z.of_nat (List.length d) > eff_max sc)%Z ->
    server sc w = Handled [] (-1) (firstn (Z.to_nat (eff_max sc)) d, E_TOOLARGE) /\
    Z.of_nat (List.length (firstn (Z.to_nat (eff_max sc)) d)) = eff_max sc.
  Proof.
    intros Hc Hin Hs Hd Hlen. pose proof (eff_max_pos sc) as HL.
    apply str_mem_In in Hin.
    unfold Model.server. rewrite tget_decoders, Hc, Hin, Hs. simpl. rewrite Hd.
    destruct (max_bytes_over (eff_max sc) (d, e)) as [E1 E2]; [lia|exact Hlen|].
    simpl in E1, E2. rewrite E1. split; [reflexivity|exact E2].
  Qed.

  Lemma limit_exact_identity_l sc w :
    clookup sc.(s_custom) (hget (w_ce w)) = None ->
    hget (w_ce w) = s_empty -> In s_empty (eff_algs sc) ->
    (Z.of_nat (List.length (w_body w)) > eff_max sc)%Z ->
    server sc w = Handled (w_ce w) (w_cl w)
                          (firstn (Z.to_nat (eff_max sc)) (w_body w), E_TOOLARGE) /\
    Z.of_nat (List.length (firstn (Z.to_nat (eff_max sc)) (w_body w))) = eff_max sc.
  Proof.
    intros Hc He Hin Hlen. pose proof (eff_max_pos sc) as HL.
    unfold Model.server. rewrite tget_decoders, Hc, He. apply str_mem_In in Hin. rewrite Hin.
    change (slot_of_name s_empty) with (Some SIdent). simpl.
    destruct (max_bytes_over (eff_max sc) (w_body w, E_EOF)) as [E1 E2]; [lia|exact Hlen|].
    simpl in E1, E2. rewrite E1. split; [reflexivity|exact E2].
  Qed.

  (* ---- the declared length (Content-Length / chunked) decides nothing ------------------------------ *)
  Lemma server_ignores_declared_length_l sc w cl' :
    strip_cl (server sc (set_cl w cl')) = strip_cl (server sc w).
  Proof.
    unfold Model.server, set_cl. simpl.
    destruct (tget (decoders sc) (hget (w_ce w))) as [sl|]; [|reflexivity].
    destruct (run_slot dec cdec sl _) as [[| |s']|]; reflexivity.
  Qed.

  (* ---- rejection -------------------------------------------------------------------------------- *)
  Lemma unsupported_rejected_l sc w :
    ~ In (hget (w_ce w)) (map fst sc.(s_custom)) ->
    (~ In (hget (w_ce w)) (eff_algs sc) \/ ~ In (hget (w_ce w)) default_algs) ->
    server sc w = Rejected 400.
  Proof.
    intros H1 H2. unfold Model.server.
    rewrite (proj2 (tget_decoders_none sc (hget (w_ce w))) (conj H1 H2)). reflexivity.
  Qed.

  Lemma init_error_rejected_l sc w c :
    clookup sc.(s_custom) (hget (w_ce w)) = None -> In (hget (w_ce w)) (eff_algs sc) ->
    slot_of_name (hget (w_ce w)) = Some (SCodec c) ->
    dec c (max_bytes (eff_max sc) (w_body w, E_EOF)) = DInitErr ->
    server sc w = Rejected 400.
  Proof.
    intros Hc Hin Hs Hd. apply str_mem_In in Hin.
    unfold Model.server. rewrite tget_decoders, Hc, Hin, Hs. simpl. now rewrite Hd.
  Qed.

  (* ServeHTTP calls a nil func (and panics) exactly when the encoding's decoder is a custom decoder
     registered as nil: WithDecoder(key, nil).  No entry of the enabled list can cause it. *)
  Lemma panics_iff_nil_custom_l sc w :
    server sc w = Panicked <-> clookup sc.(s_custom) (hget (w_ce w)) = Some None.
  Proof.
    unfold Model.server. rewrite tget_decoders.
    destruct (clookup (s_custom sc) (hget (w_ce w))) as [[i|]|]; simpl.
    - destruct (cdec i _) as [| |s']; split; intros; discriminate.
    - tauto.
    - destruct (str_mem (hget (w_ce w)) (eff_algs sc)); [|split; intros; discriminate].
      destruct (slot_of_name (hget (w_ce w))) as [sl|] eqn:E; [|split; intros; discriminate].
      destruct (slot_of_name_some _ _ E) as [->|[c ->]]; simpl.
      + split; intros; discriminate.
      + destruct (dec c _) as [| |s']; split; intros; discriminate.
  Qed.

  Lemma no_panic_without_nil_custom_l sc w :
    (forall k, ~ In (k, None) sc.(s_custom)) -> server sc w <> Panicked.
  Proof.
    intros H Hp. apply panics_iff_nil_custom_l in Hp.
    assert (G : forall (cs : list (string * option N)) k v, clookup cs k = Some v -> In (k, v) cs).
    { induction cs as [|[k' i] cs IH]; simpl; [discriminate|]. intros k v.
      destruct (clookup cs k) eqn:E.
      - intros [= <-]. right. now apply IH.
      - destruct (String.eqb_spec k k') as [->|]; [|discriminate]. intros [= <-]. now left. }
    exact (H _ (G _ _ _ Hp)).
  Qed.

  (* the handler runs only for a non-nil custom decoder, or for a name that is BOTH in the enabled list
     and one of the seven names with a decoder *)
  Lemma handler_decoder_origin_l sc w ce cl s :
    server sc w = Handled ce cl s ->
    (exists i, clookup sc.(s_custom) (hget (w_ce w)) = Some (Some i)) \/
    (clookup sc.(s_custom) (hget (w_ce w)) = None /\ In (hget (w_ce w)) (eff_algs sc) /\ In (hget (w_ce w)) default_algs).
  Proof.
    unfold Model.server. rewrite tget_decoders.
    destruct (clookup (s_custom sc) (hget (w_ce w))) as [[i|]|]; simpl.
    - intros _. left. now exists i.
    - discriminate.
    - destruct (str_mem (hget (w_ce w)) (eff_algs sc)) eqn:Ea; [|discriminate].
      destruct (slot_of_name (hget (w_ce w))) as [sl|] eqn:E; [|discriminate].
      intros _. right. split; [reflexivity|]. split; [exact (proj1 (str_mem_In _ _) Ea)|].
      destruct (str_mem (hget (w_ce w)) default_algs) eqn:Ed; [exact (proj1 (str_mem_In _ _) Ed)|].
      apply str_mem_false in Ed. apply slot_of_name_none in Ed. congruence.
  Qed.

  (* ---- pass-through ------------------------------------------------------------------------------ *)
  Lemma identity_server_l sc w :
    hget (w_ce w) = s_empty -> In s_empty (eff_algs sc) -> clookup sc.(s_custom) s_empty = None ->
    (Z.of_nat (List.length (w_body w)) <= eff_max sc)%Z ->
    server sc w = Handled (w_ce w) (w_cl w) (w_body w, E_EOF).
  Proof.
    intros He Hin Hc Hlen. apply str_mem_In in Hin.
    unfold Model.server. rewrite tget_decoders, He, Hc, Hin.
    change (slot_of_name s_empty) with (Some SIdent). simpl.
    now rewrite max_bytes_fits by exact Hlen.
  Qed.

  Lemma identity_client_l cc r :
    is_compressed cc.(c_type) = false -> client cc r = CSent (plain r).
  Proof. intros H. unfold Model.client_rt, client_validate. now rewrite H. Qed.

  (* ---- the client --------------------------------------------------------------------------------- *)
  Lemma preset_not_recompressed_l cc r w :
    hget r.(q_ce) <> s_empty -> client cc r = CSent w -> w = plain r.
  Proof.
    intros Hp. unfold Model.client_rt.
    destruct (client_validate cc); simpl; [|discriminate].
    destruct (is_compressed (c_type cc)); [|now intros [= <-]].
    destruct (writer_codec (c_type cc)); [|discriminate].
    unfold round_trip. destruct (String.eqb_spec (hget (q_ce r)) s_empty); [contradiction|].
    now intros [= <-].
  Qed.

  (* ... and it is sent whatever the state of its body: the round-tripper does not touch it *)
  Lemma preset_sent_l cc r :
    hget r.(q_ce) <> s_empty -> client cc r = CRefused \/ client cc r = CSent (plain r).
  Proof.
    intros Hp. unfold Model.client_rt.
    destruct (client_validate cc); simpl; [|now left].
    destruct (is_compressed (c_type cc)); [|now right].
    destruct (writer_codec (c_type cc)); [|now left].
    unfold round_trip. destruct (String.eqb_spec (hget (q_ce r)) s_empty); [contradiction|]. now right.
  Qed.

  Lemma client_compresses_l cc r c :
    client_validate cc = true -> is_compressed cc.(c_type) = true -> writer_codec cc.(c_type) = Some c ->
    hget r.(q_ce) = s_empty -> body_ok r = true ->
    let buf := enc c (writer_level c (effective_level cc.(c_level))) (body_bytes r.(q_body)) in
    client cc r = CSent {| w_ce := r.(q_ce) ++ [cc.(c_type)]; w_body := buf; w_cl := blen buf; w_rewind := Some buf |}.
  Proof.
    intros Hv Hc Hw He Hb. unfold Model.client_rt. rewrite Hv, Hc, Hw. simpl.
    unfold round_trip. rewrite He. simpl. unfold compress. unfold body_ok in Hb.
    destruct (q_body r); simpl; [|reflexivity].
    apply andb_true_iff in Hb. destruct Hb as [H1 H2].
    apply negb_true_iff in H1. apply negb_true_iff in H2. now rewrite H1, H2.
  Qed.

  (* a body that fails while being compressed: an error, nothing is sent *)
  Lemma client_body_error_l cc r c :
    client_validate cc = true -> is_compressed cc.(c_type) = true -> writer_codec cc.(c_type) = Some c ->
    hget r.(q_ce) = s_empty -> body_ok r = false -> client cc r = CError.
  Proof.
    intros Hv Hc Hw He Hb. unfold Model.client_rt. rewrite Hv, Hc, Hw. simpl.
    unfold round_trip. rewrite He. simpl. unfold compress. unfold body_ok in Hb.
    destruct (q_body r); [|discriminate].
    destruct (q_rerr r); [reflexivity|]. destruct (q_cerr r); [reflexivity|discriminate].
  Qed.

  (* ---- transport-level replay --------------------------------------------------------------------- *)
  (* whatever the client sends: if the transport can rewind the body at all, the replayed request is
     the very same request (same header values, same bytes, same declared length) *)
  Lemma replay_same_request_l cc r w w' :
    client cc r = CSent w -> replay w = Some w' -> w' = w.
  Proof.
    assert (P : forall r w', replay (plain r) = Some w' -> w' = plain r).
    { intros r0 w0. unfold replay, plain. simpl. destruct (q_body r0) as [b|]; [|discriminate].
      destruct (q_stream r0); [discriminate|]. simpl. now intros [= <-]. }
    unfold Model.client_rt.
    destruct (client_validate cc); simpl; [|discriminate].
    destruct (is_compressed (c_type cc)); [|intros [= <-]; apply P].
    destruct (writer_codec (c_type cc)) as [c|]; [|discriminate].
    unfold round_trip. destruct (negb _); [intros [= <-]; apply P|].
    destruct (compress enc c _ r) as [buf|]; [|discriminate].
    intros [= <-]. unfold replay. simpl. now intros [= <-].
  Qed.

  (* a compressed request can always be replayed *)
  Lemma compressed_request_replayable_l cc r c w :
    client_validate cc = true -> is_compressed cc.(c_type) = true -> writer_codec cc.(c_type) = Some c ->
    hget r.(q_ce) = s_empty -> client cc r = CSent w -> replay w = Some w.
  Proof.
    intros Hv Hc Hw He. unfold Model.client_rt. rewrite Hv, Hc, Hw. simpl.
    unfold round_trip. rewrite He. simpl. destruct (compress enc c _ r) as [buf|]; [|discriminate].
    intros [= <-]. reflexivity.
  Qed.

  (* ---- round trip ---------------------------------------------------------------------------------- *)
  Hypothesis codec_ok : forall c l b, dec c (enc c l b, E_EOF) = DStream (b, E_EOF).

  Lemma roundtrip_l cc sc r c :
    client_validate cc = true -> is_compressed cc.(c_type) = true -> writer_codec cc.(c_type) = Some c ->
    r.(q_ce) = [] -> body_ok r = true ->
    In cc.(c_type) (eff_algs sc) -> ~ In cc.(c_type) (map fst sc.(s_custom)) ->
    let b := body_bytes r.(q_body) in
    let wire := enc c (writer_level c (effective_level cc.(c_level))) b in
    (Z.of_nat (List.length b) <= eff_max sc)%Z ->
    (Z.of_nat (List.length wire) <= eff_max sc)%Z ->
    e2e cc sc r = Some (Handled [] (-1) (b, E_EOF)).
  Proof.
    intros Hv Hc Hw Hce Hok Hin Hcu b wire Hb Hwire.
    unfold e2e_rt. rewrite (client_compresses_l cc r c Hv Hc Hw) by (try rewrite Hce; auto).
    simpl. f_equal. unfold Model.server. rewrite Hce. simpl w_ce. simpl w_body.
    change (hget [c_type cc]) with (c_type cc).
    rewrite tget_decoders. apply clookup_none in Hcu. rewrite Hcu.
    apply str_mem_In in Hin. rewrite Hin. rewrite (writer_reader_agree _ _ Hw). simpl.
    subst b wire. rewrite max_bytes_fits by exact Hwire.
    rewrite codec_ok. now rewrite max_bytes_fits by exact Hb.
  Qed.

  (* the round trip survives any number of transport-level replays: the request that is sent is its own
     replay, and the server answers it as stated *)
  Lemma roundtrip_under_replay_l cc sc r c :
    client_validate cc = true -> is_compressed cc.(c_type) = true -> writer_codec cc.(c_type) = Some c ->
    r.(q_ce) = [] -> body_ok r = true ->
    In cc.(c_type) (eff_algs sc) -> ~ In cc.(c_type) (map fst sc.(s_custom)) ->
    let b := body_bytes r.(q_body) in
    let wire := enc c (writer_level c (effective_level cc.(c_level))) b in
    (Z.of_nat (List.length b) <= eff_max sc)%Z ->
    (Z.of_nat (List.length wire) <= eff_max sc)%Z ->
    exists w, client cc r = CSent w /\ replay w = Some w /\ server sc w = Handled [] (-1) (b, E_EOF).
  Proof.
    intros Hv Hc Hw Hce Hok Hin Hcu b wire Hb Hwire.
    pose proof (roundtrip_l cc sc r c Hv Hc Hw Hce Hok Hin Hcu Hb Hwire) as RT.
    assert (He : hget (q_ce r) = s_empty) by (rewrite Hce; reflexivity).
    pose proof (client_compresses_l cc r c Hv Hc Hw He Hok) as CL. cbv zeta in CL.
    eexists. split; [exact CL|]. split; [reflexivity|].
    unfold e2e_rt in RT. rewrite CL in RT. now injection RT.
  Qed.

  (* default server settings (nil algorithm list, no custom decoders): every compressing type a
     configuration file can name round-trips *)
  Lemma roundtrip_default_l cc mx r :
    type_known cc.(c_type) = true -> is_compressed cc.(c_type) = true -> client_validate cc = true ->
    r.(q_ce) = [] -> body_ok r = true ->
    let sc := {| s_max := mx; s_algs := None; s_custom := []; s_mw := 0 |} in
    exists c : codec, writer_codec cc.(c_type) = Some c /\
      (let b := body_bytes r.(q_body) in
       let wire := enc c (writer_level c (effective_level cc.(c_level))) b in
       ((Z.of_nat (List.length b) <= eff_max sc)%Z ->
        (Z.of_nat (List.length wire) <= eff_max sc)%Z ->
        e2e cc sc r = Some (Handled [] (-1) (b, E_EOF)))).
  Proof.
    intros Hk Hc Hv Hce Hok sc. destruct (known_type_has_writer _ Hk Hc) as [c Hw].
    exists c. split; [exact Hw|]. intros b wire Hb Hwire.
    apply (roundtrip_l cc sc r c Hv Hc Hw Hce Hok); try assumption.
    - unfold type_known in Hk. apply str_mem_In in Hk. simpl in Hk. simpl.
      revert Hc.
      destruct Hk as [<-|[<-|[<-|[<-|[<-|[<-|[<-|[<-|[]]]]]]]]]; intros Hc; try (vm_compute in Hc; discriminate Hc);
        cbv [default_algs eff_algs s_algs sc In]; auto 12.
    - simpl. tauto.
  Qed.

  (* client without compression + server with the identity decoder enabled: untouched *)
  Lemma identity_e2e_l cc sc r :
    is_compressed cc.(c_type) = false -> hget r.(q_ce) = s_empty ->
    In s_empty (eff_algs sc) -> ~ In s_empty (map fst sc.(s_custom)) ->
    let b := body_bytes r.(q_body) in
    (Z.of_nat (List.length b) <= eff_max sc)%Z ->
    e2e cc sc r = Some (Handled r.(q_ce) (if r.(q_stream) then (-1)%Z else blen b) (b, E_EOF)).
  Proof.
    intros Hc He Hin Hcu b Hb. unfold e2e_rt. rewrite identity_client_l by exact Hc. simpl. f_equal.
    apply clookup_none in Hcu.
    exact (identity_server_l sc (plain r) He Hin Hcu Hb).
  Qed.

  (* ==== full chain: compressor ; headers round tripper ; wire ======================================= *)
  Local Notation fclient := (Model.client enc).
  Local Notation fe2e := (Model.e2e enc dec cdec).

  Lemma on_wire_id cc r w : cc.(c_hdr) = None -> r.(q_raw) = [] -> on_wire cc r w = w.
  Proof.
    intros Hh Hr. destruct w as [ce b cl rw]. unfold on_wire, headers_rt. simpl.
    now rewrite Hh, Hr, app_nil_r.
  Qed.

  Lemma fe2e_eq cc sc r w :
    client cc r = CSent w -> on_wire cc r w = w -> fe2e cc sc r = e2e cc sc r.
  Proof. intros H1 H2. unfold Model.e2e, Model.client, e2e_rt. now rewrite H1, H2. Qed.

  Lemma fclient_plain_chain cc r : cc.(c_hdr) = None -> r.(q_raw) = [] -> fclient cc r = client cc r.
  Proof.
    intros Hh Hr. unfold Model.client. destruct (client cc r) as [| |w]; try reflexivity.
    now rewrite on_wire_id.
  Qed.

  (* HOW the body reader delivers its bytes (data together with EOF, short reads, zero-byte reads, one byte
     at a time ...) decides nothing: the client sends the same request *)
  Lemma client_ignores_read_pattern_l cc r k : fclient cc (set_reads r k) = fclient cc r.
  Proof. reflexivity. Qed.

  (* a configured Content-Encoding header replaces what the compressor (or the caller) put there:
     the server sees exactly that value first, whatever was done to the body *)
  Lemma configured_header_wins_l cc r w v :
    cc.(c_hdr) = Some v -> fclient cc r = CSent w -> w.(w_ce) = v :: r.(q_raw).
  Proof.
    intros Hh. unfold Model.client. destruct (client cc r) as [| |w0]; try discriminate.
    intros [= <-]. unfold on_wire, headers_rt. simpl. now rewrite Hh.
  Qed.

  (* ... and the body is whatever the compressor stage produced *)
  Lemma chain_keeps_body_l cc r w :
    fclient cc r = CSent w ->
    exists w0, client cc r = CSent w0 /\ w.(w_body) = w0.(w_body) /\ w.(w_cl) = w0.(w_cl) /\
               w.(w_rewind) = w0.(w_rewind) /\ w.(w_ce) = headers_rt cc w0.(w_ce) ++ r.(q_raw).
  Proof.
    unfold Model.client. destruct (client cc r) as [| |w0]; try discriminate.
    intros [= <-]. exists w0. repeat split.
  Qed.

  (* a Content-Encoding set under a non-canonical spelling of the key is invisible to the compressor:
     the body is compressed (again) and the receiver sees the compressor's value first *)
  Lemma noncanonical_preset_recompressed_l cc r c :
    client_validate cc = true -> is_compressed cc.(c_type) = true -> writer_codec cc.(c_type) = Some c ->
    cc.(c_hdr) = None -> r.(q_ce) = [] -> body_ok r = true ->
    let buf := enc c (writer_level c (effective_level cc.(c_level))) (body_bytes r.(q_body)) in
    fclient cc r = CSent {| w_ce := cc.(c_type) :: r.(q_raw); w_body := buf; w_cl := blen buf; w_rewind := Some buf |}.
  Proof.
    intros Hv Hc Hw Hh Hce Hok buf.
    assert (He : hget (q_ce r) = s_empty) by (rewrite Hce; reflexivity).
    unfold Model.client. rewrite (client_compresses_l cc r c Hv Hc Hw He Hok). cbv zeta.
    unfold on_wire, headers_rt. simpl. now rewrite Hh, Hce.
  Qed.

  Lemma preset_not_recompressed_full_l cc r w :
    hget r.(q_ce) <> s_empty -> fclient cc r = CSent w ->
    w = on_wire cc r (plain r) /\ w.(w_body) = body_bytes r.(q_body).
  Proof.
    intros Hp. unfold Model.client. destruct (client cc r) as [| |w0] eqn:E; try discriminate.
    intros [= <-]. rewrite (preset_not_recompressed_l cc r w0 Hp E). split; reflexivity.
  Qed.

  Lemma client_body_error_full_l cc r c :
    client_validate cc = true -> is_compressed cc.(c_type) = true -> writer_codec cc.(c_type) = Some c ->
    hget r.(q_ce) = s_empty -> body_ok r = false -> fclient cc r = CError.
  Proof.
    intros Hv Hc Hw He Hb. unfold Model.client. now rewrite (client_body_error_l cc r c Hv Hc Hw He Hb).
  Qed.

  Lemma limit_holds_e2e_full_l cc sc r ce cl s :
    fe2e cc sc r = Some (Handled ce cl s) -> (Z.of_nat (List.length (fst s)) <= eff_max sc)%Z.
  Proof.
    unfold Model.e2e. destruct (fclient cc r) as [| |w]; try discriminate.
    intros [= H]. exact (limit_holds_l sc w ce cl s H).
  Qed.

  Lemma replay_same_request_full_l cc r w w' :
    fclient cc r = CSent w -> replay w = Some w' -> w' = w.
  Proof.
    unfold Model.client. destruct (client cc r) as [| |w0] eqn:E; try discriminate.
    intros [= <-]. unfold replay, on_wire. simpl.
    destruct (w_rewind w0) as [b|] eqn:Er; [|discriminate]. intros [= <-].
    assert (R : replay w0 = Some {| w_ce := w_ce w0; w_body := b; w_cl := w_cl w0; w_rewind := w_rewind w0 |})
      by (unfold replay; now rewrite Er).
    pose proof (replay_same_request_l cc r w0 _ E R) as Q.
    assert (Hb : b = w_body w0) by (rewrite <- Q; reflexivity). now rewrite <- Hb.
  Qed.

  Lemma compressed_request_replayable_full_l cc r c w :
    client_validate cc = true -> is_compressed cc.(c_type) = true -> writer_codec cc.(c_type) = Some c ->
    hget r.(q_ce) = s_empty -> fclient cc r = CSent w -> replay w = Some w.
  Proof.
    intros Hv Hc Hw He. unfold Model.client. destruct (client cc r) as [| |w0] eqn:E; try discriminate.
    intros [= <-]. pose proof (compressed_request_replayable_l cc r c w0 Hv Hc Hw He E) as Q.
    unfold replay in *. simpl. destruct (w_rewind w0) as [b|]; [|discriminate].
    injection Q as Q. unfold on_wire. simpl. f_equal. f_equal; rewrite <- Q; reflexivity.
  Qed.

  (* the hypothesis on the configured headers under which the round trip holds: none for
     Content-Encoding, or the very name of the compression type *)
  Definition hdr_compatible (cc : ccfg) : Prop := cc.(c_hdr) = None \/ cc.(c_hdr) = Some cc.(c_type).

  Lemma roundtrip_full_l cc sc r c :
    client_validate cc = true -> is_compressed cc.(c_type) = true -> writer_codec cc.(c_type) = Some c ->
    hdr_compatible cc -> r.(q_ce) = [] -> r.(q_raw) = [] -> body_ok r = true ->
    In cc.(c_type) (eff_algs sc) -> ~ In cc.(c_type) (map fst sc.(s_custom)) ->
    let b := body_bytes r.(q_body) in
    let wire := enc c (writer_level c (effective_level cc.(c_level))) b in
    (Z.of_nat (List.length b) <= eff_max sc)%Z ->
    (Z.of_nat (List.length wire) <= eff_max sc)%Z ->
    exists w, fclient cc r = CSent w /\ replay w = Some w /\ server sc w = Handled [] (-1) (b, E_EOF).
  Proof.
    intros Hv Hc Hw Hh Hce Hr Hok Hin Hcu b wire Hb Hwire.
    destruct (roundtrip_under_replay_l cc sc r c Hv Hc Hw Hce Hok Hin Hcu Hb Hwire) as [w [C [R S]]].
    assert (He : hget (q_ce r) = s_empty) by (rewrite Hce; reflexivity).
    pose proof (client_compresses_l cc r c Hv Hc Hw He Hok) as CL. cbv zeta in CL.
    rewrite CL in C. injection C as <-.
    assert (OW : on_wire cc r {| w_ce := q_ce r ++ [c_type cc];
                                 w_body := enc c (writer_level c (effective_level (c_level cc))) (body_bytes (q_body r));
                                 w_cl := blen (enc c (writer_level c (effective_level (c_level cc))) (body_bytes (q_body r)));
                                 w_rewind := Some (enc c (writer_level c (effective_level (c_level cc))) (body_bytes (q_body r))) |}
                 = {| w_ce := q_ce r ++ [c_type cc];
                      w_body := enc c (writer_level c (effective_level (c_level cc))) (body_bytes (q_body r));
                      w_cl := blen (enc c (writer_level c (effective_level (c_level cc))) (body_bytes (q_body r)));
                      w_rewind := Some (enc c (writer_level c (effective_level (c_level cc))) (body_bytes (q_body r))) |}).
    { unfold on_wire, headers_rt. simpl. rewrite Hr, Hce, app_nil_r. simpl.
      destruct Hh as [-> | ->]; reflexivity. }
    eexists. split; [unfold Model.client; rewrite CL, OW; reflexivity|]. split; [exact R|exact S].
  Qed.

  (* ---- which inputs the client refuses: exactly the configurations Validate or ToClient reject ------ *)
  Lemma client_refused_iff_l cc r :
    fclient cc r = CRefused <->
    (client_validate cc = false \/ (is_compressed cc.(c_type) = true /\ writer_codec cc.(c_type) = None)).
  Proof.
    unfold Model.client, Model.client_rt.
    destruct (client_validate cc); simpl.
    - destruct (is_compressed (c_type cc)); simpl.
      + destruct (writer_codec (c_type cc)) as [c|].
        * unfold round_trip. destruct (negb _); [split; [discriminate|intros [H|[_ H]]; discriminate]|].
          destruct (compress enc c _ r); split; try discriminate; intros [H|[_ H]]; discriminate.
        * split; [intros _; right; split; reflexivity|reflexivity].
      + split; [discriminate|intros [H|[H _]]; discriminate].
    - split; [intros _; now left|reflexivity].
  Qed.

  (* a type a configuration file can name, with validated parameters, is never refused *)
  Lemma known_validated_not_refused_l cc r :
    type_known cc.(c_type) = true -> client_validate cc = true -> fclient cc r <> CRefused.
  Proof.
    intros Hk Hv H. apply client_refused_iff_l in H. destruct H as [H|[Hc Hw]]; [congruence|].
    destruct (known_type_has_writer _ Hk Hc) as [c Hc']. congruence.
  Qed.

  (* ---- histories: any sequence of requests through one client and one server ----------------------- *)
  (* (the middleware keeps no state between requests: each request of a history is answered as if alone;
     pooled writers are the only state in the code and are validated to behave like fresh ones) *)
  Definition run_history (cc : ccfg) (sc : scfg) (rs : list creq) : list (option sout) := map (fe2e cc sc) rs.

  Lemma limit_holds_history_l cc sc rs ce cl s :
    In (Some (Handled ce cl s)) (run_history cc sc rs) -> (Z.of_nat (List.length (fst s)) <= eff_max sc)%Z.
  Proof.
    unfold run_history. rewrite in_map_iff. intros [r [H _]]. exact (limit_holds_e2e_full_l cc sc r ce cl s H).
  Qed.

  (* the round trip for EVERY handler behind the decompressor: each configured middleware and the innermost
     handler is given exactly the client's bytes *)
  Lemma roundtrip_every_handler_l cc sc r c :
    client_validate cc = true -> is_compressed cc.(c_type) = true -> writer_codec cc.(c_type) = Some c ->
    hdr_compatible cc -> r.(q_ce) = [] -> r.(q_raw) = [] -> body_ok r = true ->
    In cc.(c_type) (eff_algs sc) -> ~ In cc.(c_type) (map fst sc.(s_custom)) ->
    let b := body_bytes r.(q_body) in
    let wire := enc c (writer_level c (effective_level cc.(c_level))) b in
    (Z.of_nat (List.length b) <= eff_max sc)%Z ->
    (Z.of_nat (List.length wire) <= eff_max sc)%Z ->
    exists w, fclient cc r = CSent w /\
      map fst (server_views dec cdec sc w) = map N.of_nat (seq 1 sc.(s_mw)) ++ [0%N] /\
      Forall (fun p => snd p = ([], (-1)%Z, (b, E_EOF))) (server_views dec cdec sc w).
  Proof.
    intros Hv Hc Hw Hh Hce Hr Hok Hin Hcu b wire Hb Hwire.
    destruct (roundtrip_full_l cc sc r c Hv Hc Hw Hh Hce Hr Hok Hin Hcu Hb Hwire) as [w [C [_ S]]].
    exists w. split; [exact C|]. exact (views_order_l sc w _ _ _ S).
  Qed.

  Lemma roundtrip_e2e_full_l cc sc r c :
    client_validate cc = true -> is_compressed cc.(c_type) = true -> writer_codec cc.(c_type) = Some c ->
    hdr_compatible cc -> r.(q_ce) = [] -> r.(q_raw) = [] -> body_ok r = true ->
    In cc.(c_type) (eff_algs sc) -> ~ In cc.(c_type) (map fst sc.(s_custom)) ->
    let b := body_bytes r.(q_body) in
    let wire := enc c (writer_level c (effective_level cc.(c_level))) b in
    (Z.of_nat (List.length b) <= eff_max sc)%Z ->
    (Z.of_nat (List.length wire) <= eff_max sc)%Z ->
    fe2e cc sc r = Some (Handled [] (-1) (b, E_EOF)).
  Proof.
    intros Hv Hc Hw Hh Hce Hr Hok Hin Hcu b wire Hb Hwire.
    destruct (roundtrip_full_l cc sc r c Hv Hc Hw Hh Hce Hr Hok Hin Hcu Hb Hwire) as [w [C [_ S]]].
    unfold Model.e2e. rewrite C. now rewrite S.
  Qed.

  (* every request of an unbounded history that satisfies the round-trip hypotheses is read exactly *)
  Lemma roundtrip_history_l cc sc c rs :
    client_validate cc = true -> is_compressed cc.(c_type) = true -> writer_codec cc.(c_type) = Some c ->
    hdr_compatible cc -> In cc.(c_type) (eff_algs sc) -> ~ In cc.(c_type) (map fst sc.(s_custom)) ->
    Forall (fun r => r.(q_ce) = [] /\ r.(q_raw) = [] /\ body_ok r = true /\
                     (Z.of_nat (List.length (body_bytes r.(q_body))) <= eff_max sc)%Z /\
                     (Z.of_nat (List.length (enc c (writer_level c (effective_level cc.(c_level))) (body_bytes r.(q_body)))) <= eff_max sc)%Z) rs ->
    run_history cc sc rs = map (fun r => Some (Handled [] (-1) (body_bytes r.(q_body), E_EOF))) rs.
  Proof.
    intros Hv Hc Hw Hh Hin Hcu HF. unfold run_history. induction HF as [|r rs [H1 [H2 [H3 [H4 H5]]]] _ IH]; [reflexivity|].
    simpl. rewrite IH. f_equal.
    exact (roundtrip_e2e_full_l cc sc r c Hv Hc Hw Hh H1 H2 H3 Hin Hcu H4 H5).
  Qed.

  Lemma roundtrip_default_full_l cc mx r :
    type_known cc.(c_type) = true -> is_compressed cc.(c_type) = true -> client_validate cc = true ->
    hdr_compatible cc -> r.(q_ce) = [] -> r.(q_raw) = [] -> body_ok r = true ->
    let sc := {| s_max := mx; s_algs := None; s_custom := []; s_mw := 0 |} in
    exists c : codec, writer_codec cc.(c_type) = Some c /\
      (let b := body_bytes r.(q_body) in
       let wire := enc c (writer_level c (effective_level cc.(c_level))) b in
       ((Z.of_nat (List.length b) <= eff_max sc)%Z ->
        (Z.of_nat (List.length wire) <= eff_max sc)%Z ->
        fe2e cc sc r = Some (Handled [] (-1) (b, E_EOF)))).
  Proof.
    intros Hk Hc Hv Hh Hce Hr Hok sc. destruct (known_type_has_writer _ Hk Hc) as [c Hw].
    exists c. split; [exact Hw|]. intros b wire Hb Hwire.
    apply (roundtrip_e2e_full_l cc sc r c Hv Hc Hw Hh Hce Hr Hok); try assumption.
    - unfold type_known in Hk. apply str_mem_In in Hk. simpl in Hk. simpl.
      revert Hc.
      destruct Hk as [<-|[<-|[<-|[<-|[<-|[<-|[<-|[<-|[]]]]]]]]]; intros Hc; try (vm_compute in Hc; discriminate Hc);
        cbv [default_algs eff_algs s_algs sc In]; auto 12.
    - simpl. tauto.
  Qed.

  Lemma identity_e2e_full_l cc sc r :
    is_compressed cc.(c_type) = false -> cc.(c_hdr) = None -> r.(q_raw) = [] -> hget r.(q_ce) = s_empty ->
    In s_empty (eff_algs sc) -> ~ In s_empty (map fst sc.(s_custom)) ->
    let b := body_bytes r.(q_body) in
    (Z.of_nat (List.length b) <= eff_max sc)%Z ->
    fe2e cc sc r = Some (Handled r.(q_ce) (if r.(q_stream) then (-1)%Z else blen b) (b, E_EOF)).
  Proof.
    intros Hc Hh Hr He Hin Hcu b Hb.
    rewrite (fe2e_eq cc sc r (plain r)); [exact (identity_e2e_l cc sc r Hc He Hin Hcu Hb) | now apply identity_client_l | now apply on_wire_id].
  Qed.

  (* ---- length abstraction --------------------------------------------------------------------------- *)
  Lemma labs_max_bytes L (s : stream) : (0 <= L)%Z -> labs (max_bytes L s) = lmax_bytes L (labs s).
  Proof.
    intros HL. unfold labs, max_bytes, lmax_bytes. simpl.
    destruct (Z.gtb_spec (Z.of_nat (List.length (fst s))) L); simpl; [|reflexivity].
    rewrite firstn_length. f_equal. lia.
  Qed.

  Lemma lserver_sound_l sc w :
    let body1 := max_bytes (eff_max sc) (w_body w, E_EOF) in
    loabs (server sc w) =
    lserver sc (fun c => ldabs (dec c body1)) (fun i => ldabs (cdec i body1)) (w_ce w) (Z.of_nat (List.length (w_body w))) (w_cl w).
  Proof.
    pose proof (eff_max_pos sc) as HL. cbv zeta.
    unfold Model.server, lserver. destruct (tget (decoders sc) (hget (w_ce w))) as [sl|]; [|reflexivity].
    destruct sl as [| |c|[i|]]; simpl.
    - reflexivity.
    - rewrite labs_max_bytes by lia. reflexivity.
    - destruct (dec c _) as [| |s']; simpl; try reflexivity.
      + rewrite labs_max_bytes by lia. reflexivity.
      + rewrite labs_max_bytes by lia. reflexivity.
    - destruct (cdec i _) as [| |s']; simpl; try reflexivity.
      + rewrite labs_max_bytes by lia. reflexivity.
      + rewrite labs_max_bytes by lia. reflexivity.
    - reflexivity.
  Qed.
End Codec.
