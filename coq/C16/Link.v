(* C16/Link.v — THE MODEL PASSES THE CLAUSE CHECKER.
   [observe] builds, from the model's own run of one request, the observation record that the harness
   builds from the implementation's run (same fields, same conventions: harness/C16/compress_test.go
   c16Case.term and coq/C16/Harness.v model_out / model_views); the theorems say that every check of
   C16/Check.v holds on it — for every codec behaviour where the clause is about the middleware only,
   under the round-trip law of the codecs for the round-trip clause.  So the checker never demands more
   than the model delivers (no false alarm on a faithful implementation), and the checker's verdicts and
   the theorems of Properties.v are statements about the same thing. *)
From Verif Require Import Common.Base C16.Model C16.Harness C16.Check C16.Proofs C16.ClausesSound.
From Coq Require Import String.

Definition all_codecs : list codec := [CGzip; CZlib; CZstd; CSnappy; CLz4].

Section Link.
  Variable enc : codec -> Z -> bytes -> bytes.
  Variable dec : codec -> stream -> dres.
  Variable cdec : N -> stream -> dres.

  (* the observation when nothing was sent (k = 1 refused, 2 RoundTrip error): the harness leaves every
     observed field at its zero value *)
  Definition observe_unsent (cc : ccfg) (sc : scfg) (r : creq) (k : N) : eobs :=
    {| x_type := cc.(c_type); x_level := cc.(c_level); x_hdr := cc.(c_hdr); x_ce := r.(q_ce); x_raw := r.(q_raw);
       x_body := r.(q_body); x_rerr := r.(q_rerr); x_cerr := r.(q_cerr);
       x_max := sc.(s_max); x_algs := sc.(s_algs); x_custom := sc.(s_custom); x_mw := sc.(s_mw); x_dect := [];
       x_client := k; x_wce := []; x_wbody := []; x_wcl := 0;
       x_kind := 0; x_status := 0; x_hce := []; x_cl := 0; x_data := []; x_err := 0; x_views := [] |}.

  Definition observe_sent (cc : ccfg) (sc : scfg) (r : creq) (w : wreq) : eobs :=
    let o := obs_of (server dec cdec sc w) in
    let '(k, st, hce, cl, data, err) := o in
    {| x_type := cc.(c_type); x_level := cc.(c_level); x_hdr := cc.(c_hdr); x_ce := r.(q_ce); x_raw := r.(q_raw);
       x_body := r.(q_body); x_rerr := r.(q_rerr); x_cerr := r.(q_cerr);
       x_max := sc.(s_max); x_algs := sc.(s_algs); x_custom := sc.(s_custom); x_mw := sc.(s_mw);
       (* the library table recorded with the case: every codec's reader on the limited raw body *)
       x_dect := map (fun c => (codec_id c, dec c (max_bytes (eff_max sc) (w.(w_body), E_EOF)))) all_codecs;
       x_client := 0; x_wce := w.(w_ce); x_wbody := w.(w_body); x_wcl := w.(w_cl);
       x_kind := k; x_status := st; x_hce := hce; x_cl := cl; x_data := data; x_err := err;
       x_views := server_views dec cdec sc w |}.

  Definition observe (cc : ccfg) (sc : scfg) (r : creq) : eobs :=
    match client enc cc r with
    | CSent w => observe_sent cc sc r w
    | CRefused => observe_unsent cc sc r 1
    | CError => observe_unsent cc sc r 2
    end.

  (* ---- the notions of the checker are the notions of the model --------------------------------------- *)
  Lemma limit_of_eff sc : limit_of sc.(s_max) = eff_max sc.
  Proof. reflexivity. Qed.
  Lemma algs_of_eff sc : algs_of sc.(s_algs) = eff_algs sc.
  Proof. unfold algs_of, eff_algs. destruct (s_algs sc); reflexivity. Qed.
  Lemma last_custom_clookup cu k : last_custom cu k = clookup cu k.
  Proof. induction cu as [|[k' i] cu IH]; simpl; [reflexivity|]. now rewrite IH. Qed.

  Lemma enabled_none sc k :
    enabled_b sc.(s_algs) sc.(s_custom) k = false -> tget (decoders sc) k = None.
  Proof.
    intros H. apply tget_decoders_none. apply enabled_b_false in H. unfold Enabled in H.
    rewrite algs_of_eff in H. change coding_names with default_algs in H. unfold custom_keys in H.
    split; [tauto|].
    destruct (str_mem k (eff_algs sc)) eqn:E1; [|left; now apply str_mem_false].
    right. intros Hd. apply H. left. split; [now apply str_mem_In|exact Hd].
  Qed.

  (* ---- clause 4: the limit -------------------------------------------------------------------------- *)
  Lemma link_limit cc sc r : c_limit (observe cc sc r) = true.
  Proof.
    unfold observe. destruct (client enc cc r) as [| |w]; try reflexivity.
    unfold observe_sent. destruct (server dec cdec sc w) as [st| |ce cl s] eqn:ES; try reflexivity.
    unfold c_limit, sent_b. simpl. rewrite limit_of_eff. apply Z.leb_le. exact (limit_holds_l dec cdec sc w ce cl s ES).
  Qed.

  (* ---- clause 3: not enabled => rejected with a client error ------------------------------------------ *)
  Lemma link_unsupported cc sc r : c_unsupported (observe cc sc r) = true.
  Proof.
    unfold observe. destruct (client enc cc r) as [| |w]; try reflexivity.
    unfold c_unsupported, sent_b, observe_sent.
    destruct (enabled_b (s_algs sc) (s_custom sc) (first_of (w_ce w))) eqn:E.
    - destruct (server dec cdec sc w) as [st| |ce cl s]; simpl; rewrite E; reflexivity.
    - assert (S : server dec cdec sc w = Rejected 400).
      { unfold server. change (hget (w_ce w)) with (first_of (w_ce w)). now rewrite (enabled_none sc _ E). }
      rewrite S. simpl. rewrite E. reflexivity.
  Qed.

  (* ---- clause 7: no panic unless a nil custom decoder is selected ------------------------------------- *)
  Lemma link_nopanic cc sc r : c_nopanic (observe cc sc r) = true.
  Proof.
    unfold observe. destruct (client enc cc r) as [| |w]; try reflexivity.
    unfold c_nopanic, observe_sent.
    destruct (server dec cdec sc w) as [st| |ce cl s] eqn:ES; try reflexivity.
    simpl. rewrite last_custom_clookup. apply panics_iff_nil_custom_l in ES.
    change (first_of (w_ce w)) with (hget (w_ce w)). now rewrite ES.
  Qed.

  Lemma view_eqb_refl v : view_eqb v v = true.
  Proof.
    destruct v as [i [[ce cl] [d e]]]. unfold view_eqb, stream_eqb. simpl.
    rewrite N.eqb_refl, Z.eqb_refl, N.eqb_refl. rewrite (proj2 (strs_eqb_eq ce ce) eq_refl), (proj2 (bytes_eqb_eq d d) eq_refl).
    reflexivity.
  Qed.
  Lemma views_eqb_refl l : list_eqb view_eqb l l = true.
  Proof. induction l as [|v l IH]; simpl; [reflexivity|]. now rewrite view_eqb_refl, IH. Qed.

  (* ---- clause 8: every handler behind the middleware --------------------------------------------------- *)
  Lemma link_views cc sc r : c_views (observe cc sc r) = true.
  Proof.
    unfold observe. destruct (client enc cc r) as [| |w]; try reflexivity.
    unfold c_views, sent_b, observe_sent, server_views.
    destruct (server dec cdec sc w) as [st| |ce cl [d e]] eqn:ES; try reflexivity.
    simpl. apply views_eqb_refl.
  Qed.

  (* ---- clause 6: a preset encoding / a client without compression leaves the body alone ------------------ *)
  Lemma link_untouched cc sc r : c_untouched (observe cc sc r) = true.
  Proof.
    unfold observe. destruct (client enc cc r) as [| |w] eqn:EC; try reflexivity.
    unfold c_untouched, sent_b, given, observe_sent.
    assert (G : (negb (String.eqb (first_of (q_ce r)) ""%string) || negb (is_compressed (c_type cc)))%bool = true ->
                bytes_eqb (w_body w) (body_bytes (q_body r)) = true).
    { intros H. apply bytes_eqb_eq.
      destruct (chain_keeps_body_l enc cc r w EC) as [w0 [E0 [Eb _]]]. rewrite Eb.
      apply orb_true_iff in H. destruct H as [H|H].
      - apply negb_true_iff in H. assert (Hp : hget (q_ce r) <> s_empty).
        { intros E. change (first_of (q_ce r)) with (hget (q_ce r)) in H. rewrite E in H. discriminate H. }
        now rewrite (preset_not_recompressed_l enc cc r w0 Hp E0).
      - apply negb_true_iff in H. rewrite (identity_client_l enc cc r H) in E0. now inversion E0. }
    destruct (server dec cdec sc w) as [st| |ce cl [d e]]; simpl;
      destruct (negb (String.eqb (first_of (q_ce r)) ""%string) || negb (is_compressed (c_type cc)))%bool; simpl; auto.
  Qed.

  Lemma max_bytes_take L (b : bytes) :
    max_bytes L (b, E_EOF) = (take L b, if Z.gtb (blen_b b) L then 1%N else 0%N).
  Proof.
    unfold max_bytes, take, blen_b. simpl.
    destruct (Z.gtb_spec (Z.of_nat (List.length b)) L); destruct (Z.leb_spec (Z.of_nat (List.length b)) L); try lia; reflexivity.
  Qed.

  Lemma max_bytes_take_gen L (d : bytes) e :
    (blen_b d > L)%Z -> max_bytes L (d, e) = (take L d, 1%N).
  Proof.
    intros H. unfold max_bytes, take, blen_b in *. simpl.
    destruct (Z.gtb_spec (Z.of_nat (List.length d)) L); destruct (Z.leb_spec (Z.of_nat (List.length d)) L); try lia; reflexivity.
  Qed.

  (* the fields of [observe_sent] that do not depend on the server's answer *)
  Ltac osent := unfold observe_sent; match goal with |- context [server dec cdec ?sc ?w] =>
                  destruct (server dec cdec sc w) as [?| |? ? [? ?]]; reflexivity end.
  Lemma os_wce cc sc r w : x_wce (observe_sent cc sc r w) = w_ce w. Proof. osent. Qed.
  Lemma os_wbody cc sc r w : x_wbody (observe_sent cc sc r w) = w_body w. Proof. osent. Qed.
  Lemma os_wcl cc sc r w : x_wcl (observe_sent cc sc r w) = w_cl w. Proof. osent. Qed.
  Lemma os_algs cc sc r w : x_algs (observe_sent cc sc r w) = s_algs sc. Proof. osent. Qed.
  Lemma os_custom cc sc r w : x_custom (observe_sent cc sc r w) = s_custom sc. Proof. osent. Qed.
  Lemma os_max cc sc r w : x_max (observe_sent cc sc r w) = s_max sc. Proof. osent. Qed.
  Lemma os_client cc sc r w : x_client (observe_sent cc sc r w) = 0%N. Proof. osent. Qed.
  Lemma os_dect cc sc r w : x_dect (observe_sent cc sc r w) =
    map (fun c => (codec_id c, dec c (max_bytes (eff_max sc) (w_body w, E_EOF)))) all_codecs. Proof. osent. Qed.
  Lemma os_type cc sc r w : x_type (observe_sent cc sc r w) = c_type cc. Proof. osent. Qed.
  Lemma os_body cc sc r w : x_body (observe_sent cc sc r w) = q_body r. Proof. osent. Qed.

  (* ---- clause 2: no content encoding => untouched ----------------------------------------------------------- *)
  Lemma link_passthrough cc sc r : c_passthrough (observe cc sc r) = true.
  Proof.
    unfold observe. destruct (client enc cc r) as [| |w] eqn:EC; try reflexivity.
    unfold c_passthrough, sent_b. cbv zeta.
    rewrite os_wce, os_algs, os_custom, os_client, os_max, os_wbody, os_wcl. simpl (N.eqb 0 0). simpl (true && _)%bool.
    destruct (String.eqb (first_of (w_ce w)) ""%string && str_mem ""%string (algs_of (s_algs sc))
              && negb (str_mem ""%string (custom_keys (s_custom sc))))%bool eqn:C; [|reflexivity].
    apply andb_true_iff in C. destruct C as [C C3]. apply andb_true_iff in C. destruct C as [C1 C2].
    apply String.eqb_eq in C1. apply negb_true_iff in C3. rewrite algs_of_eff in C2.
    assert (Hc : clookup (s_custom sc) (hget (w_ce w)) = None).
    { change (hget (w_ce w)) with (first_of (w_ce w)). rewrite C1. apply clookup_none. now apply str_mem_false. }
    assert (S : server dec cdec sc w = Handled (w_ce w) (w_cl w) (max_bytes (eff_max sc) (w_body w, E_EOF))).
    { unfold server. rewrite tget_decoders, Hc. change (hget (w_ce w)) with (first_of (w_ce w)). rewrite C1, C2. reflexivity. }
    unfold observe_sent. rewrite S, max_bytes_take. simpl.
    rewrite limit_of_eff, Z.eqb_refl.
    rewrite (proj2 (strs_eqb_eq _ _) eq_refl), (proj2 (bytes_eqb_eq _ _) eq_refl), N.eqb_refl. reflexivity.
  Qed.

  (* ---- clause 5: the decoded stream, against the recorded library table ---------------------------------------- *)
  Lemma codec_name_slot n k :
    codec_of_name n = Some k -> exists c, codec_id c = k /\ slot_of_name n = Some (SCodec c).
  Proof.
    unfold codec_of_name.
    destruct (String.eqb_spec n "gzip") as [->|]; [intros [= <-]; exists CGzip; split; reflexivity|].
    destruct (String.eqb_spec n "zlib") as [->|]; [intros [= <-]; exists CZlib; split; reflexivity|].
    destruct (String.eqb_spec n "deflate") as [->|]; [intros [= <-]; exists CZlib; split; reflexivity|]. simpl.
    destruct (String.eqb_spec n "zstd") as [->|]; [intros [= <-]; exists CZstd; split; reflexivity|].
    destruct (String.eqb_spec n "snappy") as [->|]; [intros [= <-]; exists CSnappy; split; reflexivity|].
    destruct (String.eqb_spec n "lz4") as [->|]; [intros [= <-]; exists CLz4; split; reflexivity|discriminate].
  Qed.

  Lemma assoc_codecs (f : codec -> dres) c :
    assoc N.eqb (map (fun c => (codec_id c, f c)) all_codecs) (codec_id c) = Some (f c).
  Proof. destruct c; reflexivity. Qed.

  Lemma link_decoded cc sc r : c_decoded (observe cc sc r) = true.
  Proof.
    unfold observe. destruct (client enc cc r) as [| |w] eqn:EC; try reflexivity.
    unfold c_decoded, lib_decode, sent_b. cbv zeta.
    rewrite os_wce, os_algs, os_custom, os_client, os_max, os_wbody, os_dect. simpl (N.eqb 0 0). simpl (true && _)%bool.
    destruct (str_mem (first_of (w_ce w)) (algs_of (s_algs sc))
              && negb (str_mem (first_of (w_ce w)) (custom_keys (s_custom sc)))
              && Z.leb (blen_b (w_body w)) (limit_of (s_max sc)))%bool eqn:C; [|reflexivity].
    apply andb_true_iff in C. destruct C as [C C3]. apply andb_true_iff in C. destruct C as [C1 C2].
    apply negb_true_iff in C2. rewrite algs_of_eff in C1. apply Z.leb_le in C3. rewrite limit_of_eff in *.
    destruct (codec_of_name (first_of (w_ce w))) as [k|] eqn:EK; [|reflexivity].
    destruct (codec_name_slot _ _ EK) as [c [<- Hs]]. rewrite assoc_codecs.
    destruct (dec c (max_bytes (eff_max sc) (w_body w, E_EOF))) as [| |[d er]] eqn:ED; try reflexivity.
    assert (Hc : clookup (s_custom sc) (hget (w_ce w)) = None).
    { apply clookup_none. now apply str_mem_false. }
    assert (S : server dec cdec sc w = Handled [] (-1) (max_bytes (eff_max sc) (d, er))).
    { unfold server. rewrite tget_decoders, Hc. change (hget (w_ce w)) with (first_of (w_ce w)). rewrite C1, Hs. simpl.
      now rewrite ED. }
    unfold observe_sent. rewrite S.
    destruct (Z.gtb_spec (blen_b d) (eff_max sc)) as [G|G].
    - rewrite max_bytes_take_gen by lia. simpl. now rewrite (proj2 (bytes_eqb_eq _ _) eq_refl).
    - rewrite max_bytes_fits by exact G. simpl.
      destruct (N.eqb_spec er 0) as [->|]; [|reflexivity].
      now rewrite (proj2 (bytes_eqb_eq _ _) eq_refl).
  Qed.

  (* ---- clause 1: the round trip (the only clause that needs something from the codecs) -------------------------- *)
  Lemma compresses_obs cc sc r :
    compresses_b (observe cc sc r) = true ->
    exists c, is_compressed cc.(c_type) = true /\ client_validate cc = true /\ writer_codec cc.(c_type) = Some c /\
              r.(q_ce) = [] /\ r.(q_raw) = [] /\ hdr_compatible cc /\ body_ok r = true.
  Proof.
    assert (G : forall e, x_type e = c_type cc -> x_level e = c_level cc -> x_hdr e = c_hdr cc -> x_ce e = q_ce r ->
                          x_raw e = q_raw r -> x_body e = q_body r -> x_rerr e = q_rerr r -> x_cerr e = q_cerr r ->
                          compresses_b e = true ->
                          exists c, is_compressed cc.(c_type) = true /\ client_validate cc = true /\ writer_codec cc.(c_type) = Some c /\
                                    r.(q_ce) = [] /\ r.(q_raw) = [] /\ hdr_compatible cc /\ body_ok r = true).
    { intros e E1 E2 E3 E4 E5 E6 E7 E8. unfold compresses_b. rewrite E1, E2, E3, E4, E5, E6, E7, E8.
      destruct cc as [t l h]. simpl.
      rewrite !andb_true_iff. intros [[[[[[H1 H2] H3] H4] H5] H6] H7].
      destruct (writer_codec t) as [c|] eqn:Hw; [|discriminate]. exists c.
      destruct (q_ce r); [|discriminate]. destruct (q_raw r); [|discriminate].
      repeat split; auto; try exact H7.
      unfold hdr_compatible. simpl. destruct h as [v|]; [right; apply String.eqb_eq in H6; now subst|now left]. }
    unfold observe. destruct (client enc cc r) as [| |w]; [apply G; reflexivity| apply G; reflexivity|].
    apply G; unfold observe_sent; destruct (server dec cdec sc w) as [?| |? ? [? ?]]; reflexivity.
  Qed.

  Lemma os_inputs_type cc sc r : x_type (observe cc sc r) = c_type cc /\ x_max (observe cc sc r) = s_max sc /\
    x_algs (observe cc sc r) = s_algs sc /\ x_custom (observe cc sc r) = s_custom sc /\ x_body (observe cc sc r) = q_body r.
  Proof.
    unfold observe. destruct (client enc cc r) as [| |w]; try (repeat split; reflexivity).
    unfold observe_sent. destruct (server dec cdec sc w) as [?| |? ? [? ?]]; repeat split; reflexivity.
  Qed.

  (* the seven checks that are about the middleware alone: for EVERY behaviour of the codecs *)
  Lemma model_passes_middleware_checks_l cc sc r :
    let e := observe cc sc r in
    c_passthrough e = true /\ c_unsupported e = true /\ c_limit e = true /\ c_decoded e = true /\
    c_untouched e = true /\ c_nopanic e = true /\ c_views e = true.
  Proof.
    cbv zeta. repeat split; [apply link_passthrough|apply link_unsupported|apply link_limit|apply link_decoded|
                             apply link_untouched|apply link_nopanic|apply link_views].
  Qed.

  Hypothesis codec_ok : forall c l b, dec c (enc c l b, E_EOF) = DStream (b, E_EOF).

  Lemma link_roundtrip cc sc r : c_roundtrip (observe cc sc r) = true.
  Proof.
    unfold c_roundtrip. cbv zeta. apply implb_iff. intros C.
    destruct (os_inputs_type cc sc r) as [Et [Em [Ea [Ecu Eb]]]].
    rewrite Et, Em, Ea, Ecu in C. unfold given in *. rewrite Eb in C. rewrite Em, Eb.
    rewrite !andb_true_iff in C. destruct C as [[[C1 C2] C3] C4].
    destruct (compresses_obs cc sc r C1) as [c [Hc [Hv [Hw [Hce [Hr [Hh Hok]]]]]]].
    unfold enabled_b in C2. simpl in C2. rewrite orb_false_r, andb_true_iff in C2. destruct C2 as [C2 _].
    rewrite algs_of_eff in C2. apply str_mem_In in C2. apply negb_true_iff, str_mem_false in C3.
    apply Z.leb_le in C4. rewrite limit_of_eff in *.
    assert (He : hget (q_ce r) = s_empty) by (rewrite Hce; reflexivity).
    pose proof (client_compresses_l enc cc r c Hv Hc Hw He Hok) as CL. cbv zeta in CL.
    set (w0 := {| w_ce := q_ce r ++ [c_type cc]; w_body := _; w_cl := _; w_rewind := _ |}) in CL.
    assert (EC : client enc cc r = CSent (on_wire cc r w0)) by (unfold client; rewrite CL; reflexivity).
    unfold observe. rewrite EC.
    unfold sent_b. rewrite os_client. simpl (N.eqb 0 0). simpl (true && _)%bool.
    apply implb_iff. rewrite os_wbody. intros Hfit. apply Z.leb_le in Hfit.
    destruct (roundtrip_full_l enc dec cdec codec_ok cc sc r c Hv Hc Hw Hh Hce Hr Hok C2 C3 C4 Hfit) as [w [Cw [_ S]]].
    rewrite EC in Cw. injection Cw as <-.
    unfold observe_sent. rewrite S. simpl.
    now rewrite (proj2 (bytes_eqb_eq _ _) eq_refl).
  Qed.

  (* ==== the model passes the whole checker =========================================================================== *)
  Theorem model_passes_checker_l cc sc r : eobs_ok (observe cc sc r) = true.
  Proof.
    unfold eobs_ok, eclauses. simpl.
    now rewrite link_roundtrip, link_passthrough, link_unsupported, link_limit, link_decoded, link_untouched,
                link_nopanic, link_views.
  Qed.

  Corollary model_satisfies_clauses_l cc sc r : Clauses (observe cc sc r).
  Proof.
    apply core_ok_sound. unfold core_ok.
    now rewrite link_roundtrip, link_passthrough, link_unsupported, link_limit.
  Qed.

  (* ... for every request of an unbounded history through one client and one server *)
  Corollary model_history_passes_checker_l cc sc rs : forallb (fun r => eobs_ok (observe cc sc r)) rs = true.
  Proof. apply forallb_forall. intros r _. apply model_passes_checker_l. Qed.
End Link.
